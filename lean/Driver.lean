import MlodaVerif.Drv.All
/-! Line-protocol driver: `lake env lean --run Driver.lean < cases.jsonl`.
One JSON object per input line (`{"op": "<prop>.<name>", ...}`), one JSON value per output line. -/
open Lean

partial def loop (h : IO.FS.Stream) (out : IO.FS.Stream) : IO Unit := do
  let line ← h.getLine
  if line.isEmpty then return ()
  let t := line.trimAscii.toString
  if t.isEmpty then loop h out else
  let res := match Json.parse t with
    | .error e => Drv.jErr s!"parse: {e}"
    | .ok j => Drv.dispatch j
  out.putStrLn res.compress
  loop h out

def main : IO Unit := do
  let out ← IO.getStdout
  loop (← IO.getStdin) out
  out.flush
