import MlodaVerif.Lemmas.OptionsGen2
/-! # C15 – `Options.__init__`, `add*`, `__eq__`, `update_with_protected_keys`, `OptionsValidator`, `Features.merge_options`
in the model equal the translation of the Python source (`Gen/OptionsGen.lean`, harness/extractors/pytrans_options.py)

`Gen/OptionsGen.lean` is the machine translation (every run of `harness/extract.py`) of `options_validator.py`, `options.py` and
`Features.merge_options`; functions that mutate `self` return `Except (PyExc × Options) Options`: the error carries the state at the
raise.  `C15g.toRes` reads the model's "state after the call and the error tag" as such a result, so every theorem below is an
EQUATION between the translated function and the hand-written model, for all states and values, including the state a raised call
leaves behind.  Helper lemmas: `Lemmas/OptionsGen2.lean`. -/
open PyRt C15g OptGen2

/-- distinct error tags are distinct exceptions (so the bridge below loses nothing) -/
theorem C15.gen2_toExc_injective : ∀ a b : OptErr, toExc a = toExc b → a = b := by
  intro a b h
  have := ofExc_toExc a
  rw [h, ofExc_toExc] at this
  exact (Option.some.inj this).symm

/-- the six validators, each as the condition the model tests (`.ok ()` or the one ValueError): `validate_no_duplicate_keys` -/
theorem C15.gen2_validate_no_duplicate_keys (g c : PyDict) :
    Gen.OptionsGen.Val.validate_no_duplicate_keys g c = if (PyDict.keys g).any (fun k => PyDict.has c k) then .error (toExc .dupKeys) else .ok () := by
  unfold Gen.OptionsGen.Val.validate_no_duplicate_keys
  simp only [inter_nonempty]
  have hb : (PyDict.keys g).any (fun k => (PyDict.keys c).contains k) = (PyDict.keys g).any (fun k => PyDict.has c k) := rfl
  rw [hb]
  cases (PyDict.keys g).any (fun k => PyDict.has c k) <;> rfl

/-- `validate_propagate_keys_in_context`: some propagate key is not a context key -/
theorem C15.gen2_validate_propagate_keys_in_context (p : List String) (c : PyDict) :
    Gen.OptionsGen.Val.validate_propagate_keys_in_context p c = if p.any (fun k => !(PyDict.has c k)) then .error (toExc .propMissing) else .ok () := by
  unfold Gen.OptionsGen.Val.validate_propagate_keys_in_context
  simp only [diff_nonempty]
  have hb : p.any (fun k => !((PyDict.keys c).contains k)) = p.any (fun k => !(PyDict.has c k)) := rfl
  rw [hb]
  cases p.any (fun k => !(PyDict.has c k)) <;> rfl

/-- `validate_can_add_to_group`: FIRST the group check (present with a `!=` value), THEN the context check -/
theorem C15.gen2_validate_can_add_to_group (k : String) (v : PyVal) (g c : PyDict) :
    Gen.OptionsGen.Val.validate_can_add_to_group k v g c =
      match PyDict.get? g k with
      | some old => if PyVal.pyNe v old then .error (toExc .groupDiff)
                    else if PyDict.has c k then .error (toExc .inContext) else .ok ()
      | none => if PyDict.has c k then .error (toExc .inContext) else .ok () := by
  unfold Gen.OptionsGen.Val.validate_can_add_to_group
  rw [has_eq_isSome g k]
  cases h : PyDict.get? g k with
  | none =>
    cases hc : PyDict.has c k <;> simp [toExc, bind, Except.bind, pure, Except.pure, throw, throwThe, MonadExceptOf.throw]
  | some old =>
    cases hc : PyDict.has c k <;> cases hv : PyVal.pyEq v old <;>
      simp [toExc, hv, h, PyVal.pyNe, PyDict.getItemE, bind, Except.bind, pure, Except.pure, throw, throwThe, MonadExceptOf.throw]

/-- `validate_can_add_to_context`: first the context check, then the group check -/
theorem C15.gen2_validate_can_add_to_context (k : String) (v : PyVal) (g c : PyDict) :
    Gen.OptionsGen.Val.validate_can_add_to_context k v g c =
      match PyDict.get? c k with
      | some old => if PyVal.pyNe v old then .error (toExc .ctxDiff)
                    else if PyDict.has g k then .error (toExc .inGroup) else .ok ()
      | none => if PyDict.has g k then .error (toExc .inGroup) else .ok () := by
  unfold Gen.OptionsGen.Val.validate_can_add_to_context
  rw [has_eq_isSome c k]
  cases h : PyDict.get? c k with
  | none =>
    cases hc : PyDict.has g k <;> simp [toExc, bind, Except.bind, pure, Except.pure, throw, throwThe, MonadExceptOf.throw]
  | some old =>
    cases hc : PyDict.has g k <;> cases hv : PyVal.pyEq v old <;>
      simp [toExc, hv, h, PyVal.pyNe, PyDict.getItemE, bind, Except.bind, pure, Except.pure, throw, throwThe, MonadExceptOf.throw]

/-- `validate_no_context_group_conflicts` (on two key sets): some propagated context key is a group key -/
theorem C15.gen2_validate_no_context_group_conflicts (a b : List String) :
    Gen.OptionsGen.Val.validate_no_context_group_conflicts a b = if a.any (fun k => b.contains k) then .error (toExc .ctxGroupConflict) else .ok () := by
  unfold Gen.OptionsGen.Val.validate_no_context_group_conflicts
  simp only [inter_nonempty']
  cases a.any (fun k => b.contains k) <;> rfl

/-- `validate_no_group_context_conflicts` (on two key sets): some incoming group key is a context key -/
theorem C15.gen2_validate_no_group_context_conflicts (a b : List String) :
    Gen.OptionsGen.Val.validate_no_group_context_conflicts a b = if a.any (fun k => b.contains k) then .error (toExc .groupCtxConflict) else .ok () := by
  unfold Gen.OptionsGen.Val.validate_no_group_context_conflicts
  simp only [inter_nonempty']
  cases a.any (fun k => b.contains k) <;> rfl

/-- `Options.__init__`: None / missing arguments are the empty containers; the two constructor validations -/
theorem C15.gen2_init (s : Options) (g c : Option PyDict) (p : Option (List String)) :
    dropSt (Gen.OptionsGen.Opt.init s g c p) = (Options.init (g.getD []) (c.getD []) (p.getD [])).mapError toExc := by
  unfold Gen.OptionsGen.Opt.init Options.init
  simp only [C15.gen2_validate_no_duplicate_keys, C15.gen2_validate_propagate_keys_in_context]
  cases h1 : (PyDict.keys (g.getD [])).any (fun k => PyDict.has (c.getD []) k) <;>
    cases h2 : (p.getD []).any (fun k => !(PyDict.has (c.getD []) k)) <;> simp [withSt, dropSt, bind, Except.bind, pure, Except.pure, Except.mapError]

/-- a raising `__init__` has assigned the three fields before (state at the raise) -/
theorem C15.gen2_init_state (s : Options) (g c : Option PyDict) (p : Option (List String)) (e : PyExc) (s' : Options) :
    Gen.OptionsGen.Opt.init s g c p = .error (e, s') → s' = { group := g.getD [], context := c.getD [], propagate := p.getD [] } := by
  unfold Gen.OptionsGen.Opt.init
  simp only [C15.gen2_validate_no_duplicate_keys, C15.gen2_validate_propagate_keys_in_context]
  cases h1 : (PyDict.keys (g.getD [])).any (fun k => PyDict.has (c.getD []) k) <;>
    cases h2 : (p.getD []).any (fun k => !(PyDict.has (c.getD []) k)) <;> simp [withSt, bind, Except.bind, pure, Except.pure] <;>
    (intro _ h; exact h.symm)

/-- `add_to_group`: the validation, then `self.group[key] = value`; a raise leaves `self` unchanged -/
theorem C15.gen2_add_to_group (o : Options) (k : String) (v : PyVal) :
    Gen.OptionsGen.Opt.add_to_group o k v = toRes (o.addToGroup k v) := by
  unfold Gen.OptionsGen.Opt.add_to_group Options.addToGroup
  simp only [C15.gen2_validate_can_add_to_group]
  cases h : PyDict.get? o.group k with
  | none => cases hc : PyDict.has o.context k <;> simp [toRes, withSt, bind, Except.bind, pure, Except.pure]
  | some old =>
    cases hc : PyDict.has o.context k <;> cases hv : PyVal.pyNe v old <;>
      simp [hv, toRes, withSt, bind, Except.bind, pure, Except.pure]

/-- `add` is `add_to_group` (the exception of the inner call is re-raised with the state it carries) -/
theorem C15.gen2_add (o : Options) (k : String) (v : PyVal) :
    Gen.OptionsGen.Opt.add o k v = toRes (o.addToGroup k v) := by
  unfold Gen.OptionsGen.Opt.add
  simp only [C15.gen2_add_to_group]
  rcases o.addToGroup k v with ⟨o', _ | e⟩ <;> rfl

/-- `add_to_context` -/
theorem C15.gen2_add_to_context (o : Options) (k : String) (v : PyVal) :
    Gen.OptionsGen.Opt.add_to_context o k v = toRes (o.addToContext k v) := by
  unfold Gen.OptionsGen.Opt.add_to_context Options.addToContext
  simp only [C15.gen2_validate_can_add_to_context]
  cases h : PyDict.get? o.context k with
  | none => cases hc : PyDict.has o.group k <;> simp [toRes, withSt, bind, Except.bind, pure, Except.pure]
  | some old =>
    cases hc : PyDict.has o.group k <;> cases hv : PyVal.pyNe v old <;>
      simp [hv, toRes, withSt, bind, Except.bind, pure, Except.pure]

/-- `__eq__` never raises and compares the groups only -/
theorem C15.gen2_eq (a b : Options) : Gen.OptionsGen.Opt.eq a b = .ok (a.eq b) := by
  unfold Gen.OptionsGen.Opt.eq Options.eq
  simp [pure, Except.pure]

/-- `update_with_protected_keys(other, protected_keys)` with an explicit set of ARBITRARY hashable values: the model's `updateWith`
on the string elements; the state at a raise is the model's state after the call (`self.group` already updated when the context
checks raise).  `hc`: representation invariant (the keys of a Python dict are pairwise different). -/
theorem C15.gen2_update_with (o other : Options) (ps : List PyVal) (hc : (PyDict.keys other.context).Nodup) :
    Gen.OptionsGen.Opt.update_with_protected_keys o other (some ps) = toRes (o.updateWith other (strsOf ps)) := by
  unfold Gen.OptionsGen.Opt.update_with_protected_keys
  simp only [Option.isNone_some, Bool.false_eq_true, if_false]
  have h0 : ∀ st : Options, withSt st (Opt.derefIn (some ps)) = .ok ps := fun _ => rfl
  simp only [h0, bind, Except.bind]
  -- the deletion loop
  rw [forIn_yield _ _ delStep]
  case h => exact fun a s => delLoop_body (withSt o) (fun _ => rfl) s a
  rw [foldl_delStep]
  simp only [validate_ngcc, validate_ncgc]
  -- the comprehension
  rw [forIn_yield _ _ (compStep other ps)]
  case h =>
    intro x s
    rw [hasStr_eq]; unfold compStep
    cases other.propagate.contains x.1 <;> cases (strsOf ps).contains x.1 <;> rfl
  rw [foldl_compStep other ps hc]
  -- the context-conflict loop
  have hg : List.filter (fun kv => !(strsOf ps).contains kv.fst) other.group = OptMerge.gcopy other (strsOf ps) := rfl
  have ho1 : ({ group := o.group.update (OptMerge.gcopy other (strsOf ps)), context := o.context, propagate := o.propagate } : Options)
      = OptMerge.o1 o other (strsOf ps) := rfl
  have hh : ∀ (d : PyDict) (k : String), (PyDict.keys d).contains k = PyDict.has d k := fun _ _ => rfl
  simp only [hg, ho1, hh]
  rw [forIn_check _ _ (fun x => Options.ctxConflictIn o.context [x]) (toExc .ctxConflict, OptMerge.o1 o other (strsOf ps))]
  rotate_left
  · intro x s
    rw [has_eq_isSome]
    cases h : PyDict.get? o.context x.1 with
    | none => simp [Options.ctxConflictIn, h, pure, Except.pure]
    | some old =>
      cases hv : PyVal.pyEq old x.2 <;>
        simp [Options.ctxConflictIn, h, hv, PyVal.pyNe, PyDict.getItemE, withSt, toExc, pure, Except.pure, throw, throwThe, MonadExceptOf.throw]
  rw [← ctxConflictIn_any]
  have ho2 : ({ group := o.group.update (OptMerge.gcopy other (strsOf ps)), context := o.context.update (OptMerge.propg other (strsOf ps)), propagate := o.propagate } : Options)
      = OptMerge.o2 o other (strsOf ps) := rfl
  have hg1 : o.group.update (OptMerge.gcopy other (strsOf ps)) = (OptMerge.o1 o other (strsOf ps)).group := rfl
  have hc1 : Options.ctxConflictIn o.context = Options.ctxConflictIn (OptMerge.o1 o other (strsOf ps)).context := rfl
  rw [ho2, hg1, hc1]
  rcases OptMerge.updateWith_cases o other (strsOf ps) with ⟨c1, hm⟩ | ⟨c1, ⟨c2, hm⟩ | ⟨c2, ⟨c3, hm⟩ | ⟨c3, ⟨c4, hm⟩ | ⟨c4, hm⟩⟩⟩⟩
  all_goals rw [hm]
  · rw [if_pos c1]; rfl
  · simp [c1, c2, toRes, pure, Except.pure]
  · simp [c1, c2, c3, toRes]
  · simp [c1, c2, c3, c4, toRes]
  · simp [c1, c2, c3, c4, toRes, pure, Except.pure]

/-- `update_with_protected_keys(other, None | explicit set of str)` = the model's `updateWithProtectedKeys` (protected-key set built
from `self.get(feature_chainer_parser_key)`: TypeError for a value that cannot be iterated / an unhashable element, raised in the
unchanged state) -/
theorem C15.gen2_update_with_protected_keys (o other : Options) (explicit : Option (List String)) (hc : (PyDict.keys other.context).Nodup) :
    Gen.OptionsGen.Opt.update_with_protected_keys o other (explicit.map (fun ks => ks.map PyVal.str)) = toRes (o.updateWithProtectedKeys other explicit) := by
  cases explicit with
  | some ks =>
    rw [Option.map_some, C15.gen2_update_with o other _ hc, strsOf_map_str]; rfl
  | none =>
    rw [Option.map_none, upk_none]
    unfold Options.updateWithProtectedKeys
    obtain ⟨herr, hok⟩ := pkSet_spec o
    cases hp : Options.protectedKeys o with
    | error e => rw [herr e hp]; rfl
    | ok pk =>
      obtain ⟨ps, h1, h2⟩ := hok pk hp
      rw [h1]
      simp only []
      rw [C15.gen2_update_with o other ps hc, updateWith_congr o other _ _ h2]

/-- `Features.merge_options(feature_options := parent, child_options := child)` = the model's `mergeOptions`, including the state of
`feature_options` at a raise -/
theorem C15.gen2_merge_options (parent child : Options) (hc : (PyDict.keys child.context).Nodup) :
    Gen.OptionsGen.Feat.merge_options parent child = toRes (parent.mergeOptions child) := by
  unfold Gen.OptionsGen.Feat.merge_options
  simp only [get_spec, items_spec, withSt_ok, bind, Except.bind]
  have hm : List.map PyVal.str [Gen.OptionConsts.inFeaturesKey] = [PyVal.str Gen.OptionConsts.inFeaturesKey] := rfl
  rw [hm]
  obtain ⟨herr, hok⟩ := pkSet_spec parent
  have hupk := C15.gen2_update_with_protected_keys parent child none hc
  rw [Option.map_none] at hupk
  by_cases ht : PyVal.truthy (parent.get Gen.OptionConsts.chainerKey) = true
  -- the protected-key set: a TypeError (state unchanged), or a set `v` both branches go on with
  case' pos =>
    rw [if_pos ht]
    have hpk : pkSet parent = PySet.update [PyVal.str Gen.OptionConsts.inFeaturesKey] (parent.get Gen.OptionConsts.chainerKey) := by
      unfold pkSet; rw [if_pos ht]
    rw [← hpk]
    cases hu : pkSet parent
  case error e =>
    unfold Options.mergeOptions
    cases hp : Options.protectedKeys parent with
    | error e' => rw [herr e' hp] at hu; cases hu; rfl
    | ok pk => obtain ⟨ps, h1, _⟩ := hok pk hp; rw [h1] at hu; cases hu
  case' ok v => simp only [withSt_ok]
  case' neg =>
    rw [if_neg ht]
    have hu : pkSet parent = .ok [PyVal.str Gen.OptionConsts.inFeaturesKey] := by
      unfold pkSet; rw [if_neg ht]
    generalize [PyVal.str Gen.OptionConsts.inFeaturesKey] = v at hu ⊢
  -- the conflict scan and the final `update_with_protected_keys(child, None)`
  all_goals
    rw [forIn_check _ _ (fun kc => parent.items.any (fun kp => scanBad v kc kp)) (toExc .mergeConflict, parent)]
    rotate_left
    · intro kc s
      rw [forIn_check _ _ (fun kp => scanBad v kc kp) (toExc .mergeConflict, parent)]
      · cases parent.items.any (fun kp => scanBad v kc kp) <;> rfl
      · intro kp s'
        unfold scanBad
        cases (kc.1 == kp.1) <;> cases PySet.hasStr v kp.1 <;> cases PyVal.pyEq kc.2 kp.2 <;> rfl
    unfold Options.mergeOptions
    cases hp : Options.protectedKeys parent with
    | error e' => rw [herr e' hp] at hu; cases hu
    | ok pk =>
      obtain ⟨ps, h1, h2⟩ := hok pk hp
      rw [h1] at hu
      rw [Except.ok.inj hu] at h2
      rw [any_scanBad parent child v pk h2]
      simp only []
      cases Options.mergeConflict parent child pk with
      | true => rfl
      | false =>
        simp only [Bool.false_eq_true, if_false]
        rw [hupk]
        rcases parent.updateWithProtectedKeys child none with ⟨o', _ | e⟩ <;> rfl

/-! ## non-vacuity: closed runs of the translated code on non-trivial values (tests, not proofs of the general statements) -/

/-- the post-error state matters: the context check raises AFTER `self.group` was updated -/
example : ∃ e o', Gen.OptionsGen.Opt.update_with_protected_keys
      { group := [("a", .int 1)], context := [("c", .int 1)], propagate := [] }
      { group := [("b", .int 2)], context := [("c", .int 2)], propagate := ["c"] } (some []) = .error (e, o')
    ∧ o'.group = [("a", .int 1), ("b", .int 2)] := ⟨_, _, rfl, rfl⟩

/-- the same run, spelled out: the ValueError of the context-conflict loop, in the state with the merged group -/
example : Gen.OptionsGen.Opt.update_with_protected_keys
      { group := [("a", .int 1)], context := [("c", .int 1)], propagate := [] }
      { group := [("b", .int 2)], context := [("c", .int 2)], propagate := ["c"] } (some []) =
    .error (toExc .ctxConflict, { group := [("a", .int 1), ("b", .int 2)], context := [("c", .int 1)], propagate := [] }) := rfl

/-- the hypothesis `hc` of `gen2_update_with` holds of a dict with two keys; a non-string element of the protected set is ignored -/
example : (PyDict.keys [("c", PyVal.int 2), ("d", PyVal.int 3)]).Nodup ∧ strsOf [.int 1, .str "c", .tuple []] = ["c"] := by decide

/-- `__init__` raises AFTER the three assignments -/
example : Gen.OptionsGen.Opt.init default (some [("a", .int 1)]) (some [("a", .int 2)]) none =
    .error (toExc .dupKeys, { group := [("a", .int 1)], context := [("a", .int 2)], propagate := [] }) := rfl
example : Gen.OptionsGen.Opt.init default none (some [("c", .int 2)]) (some ["c", "d"]) =
    .error (toExc .propMissing, { group := [], context := [("c", .int 2)], propagate := ["c", "d"] }) := rfl

/-- `add_to_group`: `True == 1`, so the key is overwritten; a context key is refused -/
example : Gen.OptionsGen.Opt.add_to_group { group := [("a", .int 1)], context := [("c", .int 1)], propagate := [] } "a" (.bool true) =
    .ok { group := [("a", .bool true)], context := [("c", .int 1)], propagate := [] } := rfl
example : Gen.OptionsGen.Opt.add_to_group { group := [("a", .int 1)], context := [("c", .int 1)], propagate := [] } "c" (.int 1) =
    .error (toExc .inContext, { group := [("a", .int 1)], context := [("c", .int 1)], propagate := [] }) := rfl

/-- `merge_options`: `in_features` and the keys listed under `feature_chainer_parser_key` (here `x`; the element `3` is no key) may differ
and are not copied; `y` flows to the parent -/
example : Gen.OptionsGen.Feat.merge_options
      { group := [("in_features", .int 1), ("feature_chainer_parser_key", .tuple [.str "x", .int 3]), ("x", .int 1)], context := [], propagate := [] }
      { group := [("in_features", .int 2), ("x", .int 2), ("y", .int 5)], context := [], propagate := [] } =
    .ok { group := [("in_features", .int 1), ("feature_chainer_parser_key", .tuple [.str "x", .int 3]), ("x", .int 1), ("y", .int 5)],
          context := [], propagate := [] } := rfl
/-- an unprotected key with different values raises, the parent is unchanged -/
example : Gen.OptionsGen.Feat.merge_options
      { group := [("x", .int 1)], context := [], propagate := [] }
      { group := [("x", .int 2)], context := [], propagate := [] } =
    .error (toExc .mergeConflict, { group := [("x", .int 1)], context := [], propagate := [] }) := rfl
/-- the two TypeErrors of building the protected-key set -/
example : Gen.OptionsGen.Feat.merge_options
      { group := [("feature_chainer_parser_key", .int 5)], context := [], propagate := [] }
      { group := [("x", .int 2)], context := [], propagate := [] } =
    .error (toExc .notIterable, { group := [("feature_chainer_parser_key", .int 5)], context := [], propagate := [] }) := rfl
example : Gen.OptionsGen.Opt.update_with_protected_keys
      { group := [("feature_chainer_parser_key", .list [.str "x", .list []])], context := [], propagate := [] }
      { group := [("x", .int 2)], context := [], propagate := [] } none =
    .error (toExc .unhashable, { group := [("feature_chainer_parser_key", .list [.str "x", .list []])], context := [], propagate := [] }) := rfl

/-- `hc` cannot be dropped from `gen2_update_with`: on an association list with a repeated key (not a Python dict) the comprehension of
the code keeps the last value only, the model's `filter` looks at both -/
theorem C15.gen2_update_with_needs_distinct_keys_witness :
    Gen.OptionsGen.Opt.update_with_protected_keys
        { group := [], context := [("c", .int 2)], propagate := [] }
        { group := [], context := [("c", .int 1), ("c", .int 2)], propagate := ["c"] } (some [])
      = .ok { group := [], context := [("c", .int 2)], propagate := [] } ∧
    toRes (Options.updateWith
        { group := [], context := [("c", .int 2)], propagate := [] }
        { group := [], context := [("c", .int 1), ("c", .int 2)], propagate := ["c"] } (strsOf []))
      = .error (toExc .ctxConflict, { group := [], context := [("c", .int 2)], propagate := [] }) := ⟨rfl, rfl⟩
