import MlodaVerif.Model.JoinPlan
import MlodaVerif.Lemmas.RelAssoc
import MlodaVerif.Props.C12
/-! # C05 - a consumer of several sources sees exactly the join its Links describe

FULL STATEMENT (`join2_spec`, false of the code that exists - O17 - and therefore kept only here): for every one-link
request `r`, all source tables and every engine that meets the relational spec,

    plan r = .ok p → consumerTable engine r p sl sr TL TR = .ok tbl → p.consumerFw ∈ r.cfws ∧
      TableEq tbl (joinSpec r.t r.lidx r.ridx sl sr TL TR)

What is proved: the statement under the decidable hypothesis `SidesPreserved r` (`join2_spec_partial`), for the symmetric
join types with equally named keys also when the sides are exchanged (`join2_symmetric_partial`), the exact condition
under which the sides are exchanged (`join2_sides_exchanged_iff`), the two rejections (`join2_rejects_iff`,
`join2_right_rejected_same_fw`), closed negation witnesses for the dropped hypothesis, and on the spec: n-way inner joins
do not depend on the order or bracketing the planner picks. -/
open Rel JoinPlan

/-! ## the planner for one link -/

/-- RIGHT between two groups on one framework is rejected at prepare - a rejection, not a wrong result -/
theorem C05.join2_right_rejected_same_fw (r : Req) (ht : r.t = .right) (hf : r.lf = r.rf) (hc : r.lf ∈ r.cfws) :
    plan r = .error .rightSameFw := by
  have hc' : r.rf ∈ r.cfws := hf ▸ hc
  simp [plan, resolveTrekked, ht, hc', hf]

/-- the only requests that are refused: no admissible framework of the consumer is the framework of a linked source, or a
RIGHT link between groups on the same framework -/
theorem C05.join2_rejects_iff (r : Req) :
    (∃ e, plan r = .error e) ↔ (r.lf ∉ r.cfws ∧ r.rf ∉ r.cfws) ∨ (r.t = .right ∧ r.lf = r.rf ∧ r.lf ∈ r.cfws) := by
  unfold plan resolveTrekked runLinkFrameworks
  by_cases h1 : r.lf ∈ r.cfws <;> by_cases h2 : r.rf ∈ r.cfws <;> by_cases h3 : r.lf = r.rf <;>
    cases ht : r.t <;> simp_all <;> (try (intro h; exact absurd h.symm h3))

/-- under `SidesPreserved` the merge runs on the left group's framework with the link's left table first, and the
consumer is executed there and reads the result -/
theorem C05.join2_plan_of_sides_preserved (r : Req) (p : Plan) (h : plan r = .ok p) (hs : SidesPreserved r) :
    p.first = .left ∧ p.reads = .merged ∧ p.execFw = r.lf ∧ p.consumerFw = r.lf := by
  unfold SidesPreserved at hs
  unfold plan resolveTrekked runLinkFrameworks at h
  by_cases h1 : r.lf ∈ r.cfws <;> by_cases h2 : r.rf ∈ r.cfws <;> by_cases h3 : r.lf = r.rf <;>
    cases ht : r.t <;> simp_all <;> (try (subst h; simp_all)) <;> (try (obtain ⟨_, h⟩ := h; subst h; simp_all))

/-- the exact condition under which `JoinStep._merge_data` receives the tables in exchanged roles (join type and indexes
unchanged): different frameworks and (RIGHT link, or the left group's framework is not admissible for the consumer) -/
theorem C05.join2_sides_exchanged_iff (r : Req) (p : Plan) (h : plan r = .ok p)
    (ht : r.t = .inner ∨ r.t = .left ∨ r.t = .right ∨ r.t = .outer) :
    p.first = .right ↔ ¬ SidesPreserved r := by
  unfold SidesPreserved
  unfold plan resolveTrekked runLinkFrameworks at h
  by_cases h1 : r.lf ∈ r.cfws <;> by_cases h2 : r.rf ∈ r.cfws <;> by_cases h3 : r.lf = r.rf <;>
    rcases ht with ht | ht | ht | ht <;> simp_all <;> (try (subst h; simp_all)) <;> (try (obtain ⟨_, h⟩ := h; subst h; simp_all))

/-- except for RIGHT links the consumer is executed on a framework it admits -/
theorem C05.consumer_framework_admissible (r : Req) (p : Plan) (h : plan r = .ok p) (ht : r.t ≠ .right) :
    p.consumerFw ∈ r.cfws := by
  unfold plan resolveTrekked runLinkFrameworks at h
  by_cases h1 : r.lf ∈ r.cfws <;> by_cases h2 : r.rf ∈ r.cfws <;> by_cases h3 : r.lf = r.rf <;>
    cases htt : r.t <;> simp_all <;> (try (subst h; simp_all)) <;> (try (obtain ⟨_, h⟩ := h; subst h; simp_all))

/-- **two sources, one link**: whenever the sides are preserved and the executing framework's merge engine meets the
relational spec on these tables (C12), every table the consumer can receive is the join the Link describes - all six
join types, any key arity and naming, any tables -/
theorem C05.join2_spec_partial (engine : Fw → EngineMerge)
    (Pre : JoinType → List Col → List Col → List Col → List Col → Table → Table → Prop)
    (r : Req) (p : Plan) (sl sr : List Col) (TL TR tbl : Table)
    (hplan : plan r = .ok p) (hs : SidesPreserved r)
    (hm : MergeMeetsSpec (engine r.lf) Pre) (hpre : Pre r.t r.lidx r.ridx sl sr TL TR)
    (hrun : consumerTable engine r p sl sr TL TR = .ok tbl) :
    p.consumerFw = r.lf ∧ TableEq tbl (joinSpec r.t r.lidx r.ridx sl sr TL TR) := by
  obtain ⟨hf, hr, he, hc⟩ := C05.join2_plan_of_sides_preserved r p hplan hs
  refine ⟨hc, ?_⟩
  obtain ⟨out, hout, heq⟩ := hm r.t r.lidx r.ridx sl sr TL TR hpre
  unfold consumerTable at hrun
  simp only [hf, hr, he, Side.other, pick] at hrun
  rw [hout] at hrun
  split at hrun
  · simp at hrun
  · split at hrun
    · simp at hrun
    · simp only at hrun
      split at hrun
      · simp at hrun
      · simp only [Except.ok.injEq] at hrun
        subst hrun; exact heq

/-- exchanged sides are harmless for the symmetric join types when both indexes name the same columns -/
theorem C05.join2_symmetric_partial (engine : Fw → EngineMerge)
    (Pre : JoinType → List Col → List Col → List Col → List Col → Table → Table → Prop)
    (r : Req) (p : Plan) (sl sr : List Col) (TL TR tbl : Table)
    (hplan : plan r = .ok p) (hs : ¬ SidesPreserved r) (ht : r.t = .inner ∨ r.t = .outer) (hk : r.lidx = r.ridx)
    (wfL : RowsWF TL) (wfR : RowsWF TR)
    (hm : MergeMeetsSpec (engine p.execFw) Pre) (hpre : Pre r.t r.lidx r.ridx sr sl TR TL)
    (hrun : consumerTable engine r p sl sr TL TR = .ok tbl) :
    TableEq tbl (joinSpec r.t r.lidx r.ridx sl sr TL TR) := by
  have ht4 : r.t = .inner ∨ r.t = .left ∨ r.t = .right ∨ r.t = .outer := by
    rcases ht with h | h
    · exact Or.inl h
    · exact Or.inr (Or.inr (Or.inr h))
  have hfirst := (C05.join2_sides_exchanged_iff r p hplan ht4).mpr hs
  have hreads : p.reads = .merged := by
    unfold plan resolveTrekked runLinkFrameworks at hplan
    by_cases h1 : r.lf ∈ r.cfws <;> by_cases h2 : r.rf ∈ r.cfws <;> by_cases h3 : r.lf = r.rf <;>
      rcases ht with ht | ht <;> simp_all <;> (try (subst hplan; simp_all)) <;> (try (obtain ⟨_, hplan⟩ := hplan; subst hplan; simp_all))
  obtain ⟨out, hout, heq⟩ := hm r.t r.lidx r.ridx sr sl TR TL hpre
  unfold consumerTable at hrun
  simp only [hfirst, hreads, Side.other, pick] at hrun
  rw [hout] at hrun
  have htbl : tbl = out := by
    split at hrun
    · simp at hrun
    · split at hrun
      · simp at hrun
      · simp only at hrun
        split at hrun
        · simp at hrun
        · simp only [Except.ok.injEq] at hrun; exact hrun.symm
  subst htbl
  refine heq.trans ?_
  rw [← hk]
  rcases ht with h | h
  · rw [h]; exact innerJoin_comm wfR wfL
  · rw [h]; exact outerJoin_comm wfR wfL

/-! ### negation witnesses (O17): A = {k: 1,2,3} on framework 0, B = {k: 2,3,4} on framework 1, the engine IS the spec -/

private def tA : Table := [[("k", some 1), ("a", some 10)], [("k", some 2), ("a", some 20)], [("k", some 3), ("a", some 30)]]
private def tB : Table := [[("k", some 2), ("b", some 5)], [("k", some 3), ("b", some 6)], [("k", some 4), ("b", some 7)]]

/-- (i) `Link.left(A, B)`, consumer admits only B's framework: the merge is `merge(B, A, LEFT, …)`, the consumer sees all
rows of B (k = 4 instead of k = 1) -/
theorem C05.join2_left_inverted_wrong_witness :
    let r : Req := { t := .left, lidx := ["k"], ridx := ["k"], lf := 0, rf := 1, cfws := [1] }
    ∃ p tbl, plan r = .ok p ∧ p.first = .right ∧ consumerTable specEngine r p ["k", "a"] ["k", "b"] tA tB = .ok tbl ∧
      ¬ TableEq tbl (joinSpec .left ["k"] ["k"] ["k", "a"] ["k", "b"] tA tB) := by
  intro r
  refine ⟨{ consumerFw := 1, execFw := 1, first := .right, transforms := true, reads := .merged }, _, rfl, rfl, rfl, ?_⟩
  intro h
  have := h [("k", some 1), ("a", some 10)]
  revert this; decide

/-- (ii) `Link.right(A, B)`, consumer admits only A's framework: it is executed on B's framework, which it does not admit,
and sees all rows of A (k = 1) instead of all rows of B (k = 4) -/
theorem C05.join2_right_cross_fw_wrong_witness :
    let r : Req := { t := .right, lidx := ["k"], ridx := ["k"], lf := 0, rf := 1, cfws := [0] }
    ∃ p tbl, plan r = .ok p ∧ p.consumerFw ∉ r.cfws ∧ consumerTable specEngine r p ["k", "a"] ["k", "b"] tA tB = .ok tbl ∧
      ¬ TableEq tbl (joinSpec .right ["k"] ["k"] ["k", "a"] ["k", "b"] tA tB) := by
  intro r
  refine ⟨{ consumerFw := 1, execFw := 1, first := .right, transforms := true, reads := .merged }, _, rfl, by decide, rfl, ?_⟩
  intro h
  have := h [("k", some 4), ("b", some 7)]
  revert this; decide

/-- APPEND across frameworks when only the right group's framework is admissible: the consumer is handed the right
group's table alone -/
theorem C05.append_inverted_reads_right_witness :
    let r : Req := { t := .append, lidx := ["k"], ridx := ["k"], lf := 0, rf := 1, cfws := [1] }
    ∃ p, plan r = .ok p ∧ consumerTable specEngine r p ["k", "a"] ["k", "b"] tA tB = .ok tB := by
  intro r
  exact ⟨{ consumerFw := 1, execFw := 0, first := .left, transforms := true, reads := .only .right }, rfl, rfl⟩

/-- non-vacuity of `join2_spec_partial`: a request with preserved sides, its plan and the table the consumer receives -/
example :
    let r : Req := { t := .left, lidx := ["k"], ridx := ["k"], lf := 0, rf := 1, cfws := [0, 1] }
    SidesPreserved r ∧ ∃ p, plan r = .ok p ∧
      consumerTable specEngine r p ["k", "a"] ["k", "b"] tA tB = .ok (joinSpec .left ["k"] ["k"] ["k", "a"] ["k", "b"] tA tB) := by
  intro r
  exact ⟨by decide, { consumerFw := 0, execFw := 0, first := .left, transforms := true, reads := .merged }, rfl, rfl⟩

/-! ### what C12 provides -/

theorem C05.spec_engine_meets_spec (fw : Fw) : MergeMeetsSpec (specEngine fw) (fun _ _ _ _ _ _ _ => True) :=
  fun t lk rk ls rs L R _ => ⟨_, rfl, TableEq.refl _⟩

/-- the PythonDict engine (framework id 2) meets the spec on the domain proved in C12 -/
theorem C05.pydict_meets_spec :
    MergeMeetsSpec (engineOf 2) (fun t lk rk _ _ L R =>
      (t = .inner ∨ t = .left ∨ t = .right ∨ t = .outer) ∧ RowsWF L ∧ RowsWF R ∧ NoOverlap lk rk L R ∧
        C12.IndexedSideUnique t lk rk L R ∧ C12.ProbeSideNoNull t lk rk L R) := by
  intro t lk rk ls rs L R ⟨ht, wfL, wfR, ho, hu, hn⟩
  refine ⟨_, rfl, ?_⟩
  exact (C12.pydict_join_eq_spec_partial t lk rk L R _ ht wfL wfR ho hu hn (fun _ => C12.allKeys_valid lk rk L R)).trans
    (joinSpec_schema_irrelevant t lk rk _ _ ls rs L R)

/-- the pandas engine (framework id 1) meets the spec relative to `PandasSem` -/
theorem C05.pandas_meets_spec :
    MergeMeetsSpec (engineOf 1) (fun t lk rk ls rs L _ =>
      (t = .inner ∨ t = .left ∨ t = .right ∨ t = .outer) ∧ (∀ c ∈ lk, c ∈ ls) ∧ (∀ c ∈ rk, c ∈ rs) ∧ NoNullKeys lk L ∧
        PandasSem.overlap (coalesced lk rk) ls rs = []) := by
  intro t lk rk ls rs L R ⟨ht, hkl, hkr, hn, hov⟩
  exact ⟨_, C12.pandas_sem_eq_spec_partial t lk rk ls rs L R ht hkl hkr hn hov, TableEq.refl _⟩

/-! ## n-way inner joins on the spec: independent of the order and bracketing the planner picks -/

/-- natural inner join is associative (equal as lists, no hypotheses) -/
theorem C05.inner_assoc (ks : List Col) (A B C : Table) :
    innerJoin ks ks (innerJoin ks ks A B) C = innerJoin ks ks A (innerJoin ks ks B C) :=
  innerJoin_assoc ks A B C

/-- joining `T₁ … Tₙ` onto a base table one after the other: any order of the `Tᵢ` gives the same bag of rows
(no hypotheses: duplicate keys, null keys, overlapping columns included) -/
theorem C05.inner_order_irrelevant (ks : List Col) (X : Table) (Ts Ts' : List Table) (h : Ts.Perm Ts') :
    TableEq (joinAll ks X Ts) (joinAll ks X Ts') :=
  joinAll_perm ks X h

/-- left-deep = right-deep -/
theorem C05.inner_bracketing_irrelevant (ks : List Col) (A B : Table) (Ts : List Table) :
    joinAll ks A (B :: Ts) = innerJoin ks ks A (joinAll ks B Ts) :=
  joinAll_assoc ks A B Ts

/-- any table can be taken as the base (together with `inner_order_irrelevant`: every permutation of the n tables) -/
theorem C05.inner_assoc_comm (ks : List Col) (A B : Table) (Ts : List Table)
    (wfA : RowsWF A) (wfB : RowsWF B) (wfT : ∀ T ∈ Ts, RowsWF T)
    (hB : ∀ T ∈ Ts, KeyOnlyOverlap ks B T) (hT : Ts.Pairwise (KeyOnlyOverlap ks)) :
    TableEq (joinAll ks A (B :: Ts)) (joinAll ks B (A :: Ts)) :=
  joinAll_swap_base ks A B Ts wfA (rowsWF_joinAll wfB wfT hB hT)

/-- full outer join is symmetric -/
theorem C05.outer_comm (lk rk ls rs : List Col) (L R : Table) (wfL : RowsWF L) (wfR : RowsWF R) :
    TableEq (joinSpec .outer lk rk ls rs L R) (joinSpec .outer rk lk rs ls R L) :=
  outerJoin_comm wfL wfR

/-- non-vacuity: three small tables with duplicate keys; both orders have the same four rows -/
example :
    let A : Table := [[("k", some 1), ("a", some 1)], [("k", some 1), ("a", some 2)]]
    let B : Table := [[("k", some 1), ("b", some 3)], [("k", some 1), ("b", some 4)]]
    let C : Table := [[("k", some 1), ("c", some 5)], [("k", none), ("c", some 6)]]
    (joinAll ["k"] A [B, C]).length = 4 ∧ tableBEq (joinAll ["k"] A [B, C]) (joinAll ["k"] C [A, B]) = true ∧
      KeyOnlyOverlap ["k"] B C ∧ RowsWF A := by decide
