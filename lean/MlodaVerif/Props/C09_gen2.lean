import MlodaVerif.Lemmas.LifeGenWm
/-! # C09 – the hand-written lifecycle model `Life` equals the translation of the data-lifecycle code

`Gen/LifecycleGen.lean` is the translation (harness/pytrans.py + harness/extractors/pytrans_life.py, every run) of
`DataLifecycleManager` (data_lifecycle_manager.py), the orchestrator's drop functions (run.py), the queue functions of
`WorkerManager` (worker_manager.py), the worker's drop / stop handlers and command-loop body (multiprocessing_worker.py) and the
three `ComputeFramework` methods they call.  The theorems relate them to `Model/Lifecycle.lean` through the abstraction
`LifeGen.abs` (Python values ↦ `Life.LS`, `Lemmas/LifeGen*.lean`): for EVERY Python-side state

    (Gen.… python-state args).map abs = lift (Life.… (abs python-state) args)

(an exception of the translation ⇔ the model's error outcome; the state a raising call leaves behind is not part of the
translation's result and is covered by the correspondence suites of C09_life only).  Hypotheses that appear are invariants of
the Python representation, not of the code: the keys of a dict are distinct (`Nodup`), distinct queue objects have distinct
handles (`regWF`), and for the functions with a `while` the fuel covers the schedule.  -/
open Life Store PyRt Gen.LifecycleGen LifeGen

/-! ## `ComputeFramework`: `drop_last_data`, the tracker -/

/-- `drop_last_data`: the key is removed from the flight store iff `data` is a str and the location is truthy; `data = None` -/
theorem C09.gen2_drop_last_data (q : Option (List (List Nat))) (c : Cfw.CfwObj) (loc : Option Nat) (store : PSet) :
    Cfw.drop_last_data c loc store = .ok (rm store (if locSet loc then (absObj q c).cfw.dataKey else none), dataNone c) ∧
    absObj q (dataNone c) = cleared (absObj q c) :=
  ⟨drop_last_data_eq c loc store, absObj_dataNone q c⟩

/-- **`add_already_calculated_children_and_drop_if_possible` is `Store.report`, now with the object's data and the store**:
the result (`True` / the children set / `False`), the object afterwards and the key removed from the store -/
theorem C09.gen2_tracker (c : Cfw.CfwObj) (F : List Nat) (loc : Option Nat) (store : PSet) :
    Cfw.add_already_calculated_children_and_drop_if_possible c F loc store =
      .ok (match (report (absCfw c) F).2 with
           | .dropped k => (.bool true, rm store (if locSet loc then k else none), dataNone (tracked c F))
           | .pending => (.set c.children_if_root, store, tracked c F)
           | .no => (.bool false, store, tracked c F)) := by
  rw [tracker_unfold, report_absCfw]
  by_cases h : dropsNow c F = true
  · simp only [h, if_true]
  · by_cases h2 : c.object_ids.length > 0 <;> simp [h, h2]

/-- the object after the tracker call is the model's object after `report` -/
theorem C09.gen2_tracker_object (c : Cfw.CfwObj) (F : List Nat) :
    absCfw (match (report (absCfw c) F).2 with | .dropped _ => dataNone (tracked c F) | _ => tracked c F) = (report (absCfw c) F).1 := by
  rw [report_absCfw]
  by_cases h : dropsNow c F = true
  · simp only [h, if_true]
  · by_cases h2 : c.object_ids.length > 0 <;> simp [h, h2]

example : Cfw.add_already_calculated_children_and_drop_if_possible ⟨7, [1, 2], [1], .key 7, [7]⟩ [2, 9] (some 5) [3, 7] =
    .ok (.bool true, [3], ⟨7, [1, 2], [1, 2, 9], .none, [7]⟩) := by decide

/-! ## `DataLifecycleManager` -/

/-- `drop_cfw_data`: KeyError for a uuid without object, else `drop_last_data` on the entry of the dict (which stays in place) -/
theorem C09.gen2_drop_cfw_data (self : Dlm.Dlm) (u : Nat) (coll : NDict Cfw.CfwObj) (loc : Option Nat) (store : PSet) :
    Dlm.drop_cfw_data self u coll loc store =
      match Life.dget coll u with
      | none => .error .keyError
      | some c => .ok (Life.dset coll u (dataNone c), rm store (if locSet loc then (absCfw c).dataKey else none)) :=
  drop_cfw_data_eq self u coll loc store

/-- **`drop_data_for_finished_cfws` is `Life.periodic`** (both loops, `cfw_to_delete`, the KeyError of `drop_cfw_data`) -/
theorem C09.gen2_periodic (w : PyW) (hn : (dkeys w.dlm.track_data_to_drop).Nodup) :
    (Dlm.drop_data_for_finished_cfws w.dlm w.finished w.coll w.loc w.store).map
        (fun r => abs { w with coll := r.1, store := r.2.1, dlm := r.2.2 }) = liftLS (periodic (abs w)) := by
  unfold Dlm.drop_data_for_finished_cfws periodic
  simp only [bind, Except.bind, pure, Except.pure]
  cases hf : w.finished with
  | nil => simp [PSet.truthy, abs, hf, liftLS, Except.map]
  | cons f fs =>
    rw [← hf]
    have hne : (!PSet.truthy w.finished) = false := by simp [PSet.truthy, hf]
    have hne' : (abs w).finished.isEmpty = false := by simp [abs, hf]
    simp only [hne, hne', Bool.false_eq_true, if_false]
    rw [forIn_foldlM _ _ _ (goStep w.finished w.loc)]
    · have h := goStep_periodicGo w w.finished w.dlm.track_data_to_drop w.coll w.store []
      rw [absCS_self] at h
      have htr : (abs w).track = w.dlm.track_data_to_drop := rfl
      have hfin : (abs w).finished = w.finished := rfl
      rw [htr, hfin]
      cases hfold : List.foldlM (goStep w.finished w.loc) (w.coll, w.store, []) w.dlm.track_data_to_drop with
      | error e =>
        rw [hfold] at h
        simp only [h.2, liftLS, Except.map, h.1, toExc]
      | ok r =>
        rw [hfold] at h
        obtain ⟨h1, h2, h3⟩ := h
        obtain ⟨hd1, hd2⟩ := goStep_del _ _ _ _ _ hfold List.nodup_nil
        simp only [h1]
        rw [forIn_foldlM _ _ _ delStep]
        · rw [delLoop, delAll r.2.2 _ hn hd1 (fun x hx => by simpa [dkeys] using hd2 x hx)]
          simp only [liftLS, Except.map, h2, Except.ok.injEq]
          generalize (periodicGo w.finished w.dlm.track_data_to_drop (abs w)).2.1 = L at h3
          simp only [absCS, abs, LS.mk.injEq, true_and, and_true]
          apply List.filter_congr
          intro p _
          simp [h3 p.1]
        · intro u s
          simp only [delStep]
          cases NDict.delItem s.track_data_to_drop u <;> rfl
    · intro a s
      simp only [goStep, drop_cfw_data_eq]
      split
      · rename_i h
        have h' : allFin w.finished a.2 = true := h
        rw [if_pos h']; cases Life.dget s.1 a.1 <;> rfl
      · rename_i h
        have h' : ¬ allFin w.finished a.2 = true := h
        rw [if_neg h']

theorem C09.gen2_track_flyway (w : PyW) (u : Nat) (ids : List Nat) :
    (Dlm.track_flyway_datasets w.dlm u ids).map (fun d => abs { w with dlm := d }) = liftLS (step (abs w) (.trackFlyway u ids)) := by
  simp [Dlm.track_flyway_datasets, step, liftLS, Except.map, abs, set_eq, pure, Except.pure]

theorem C09.gen2_get_results (w : PyW) :
    Dlm.get_results w.dlm = match getResults (abs w) with | .ok l => .ok l | .error e => .error (toExc e) := by
  unfold Dlm.get_results getResults
  cases h : w.dlm.result_data_collection <;>
    simp [abs, h, NDict.truthy, NDict.values, toExc, bind, Except.bind, pure, Except.pure, throw, throwThe, MonadExceptOf.throw]

/-- `add_to_result_data_collection` is the first half of `Life.fgDone` -/
theorem C09.gen2_add_to_result (w : PyW) (c : Cfw.CfwObj) (st o : Nat) (requested : PSet) (raises : Bool) (log : List String)
    (hr : raises = (getResultErr (abs w) o (absObj (w.qf o) c)).isSome) :
    Dlm.add_to_result_data_collection w.dlm c () st w.loc requested (some o) raises log =
      if PSet.truthy requested then
        (match getResultErr (abs w) o (absObj (w.qf o) c) with
         | some _ => .error (.exception "get_result_data raised")
         | none => .ok ({ w.dlm with result_data_collection := dset w.dlm.result_data_collection st o }, log ++ ["get_result_data"]))
      else .ok (w.dlm, log) := by
  unfold Dlm.add_to_result_data_collection
  subst hr
  cases hq : PSet.truthy requested <;> cases he : getResultErr (abs w) o (absObj (w.qf o) c) <;>
    simp [hq, he, set_eq, bind, Except.bind, pure, Except.pure, throw, throwThe, MonadExceptOf.throw]

theorem C09.gen2_drop_if_possible (o : Orch.Orch) (c : Cfw.CfwObj) (store : PSet) (qh : QHeap) (sched : List (List QMsg)) (feats : List Nat)
    (fuel : Nat) (fin : PSet) (y : List (Nat × Nat))
    (hc : Life.dget o.cfw_collection c.uuid = some c) (hn : (Life.dkeys o.cfw_collection).Nodup)
    (hwf : regWF o.worker_manager.process_register = true) (hfuel : sched.length ≤ fuel) :
    (Orch._drop_data_if_possible o c () store qh sched feats fuel).map
        (fun r => abs (toW { r.2.2.2.2 with cfw_collection := NDict.set r.2.2.2.2.cfw_collection c.uuid r.1 } r.2.2.1 fin r.2.1 y)) =
      .ok (dropModel (abs (toW o qh fin store y)) c.uuid (absObj (queueOf o.worker_manager.process_register qh c.uuid) c) (PSet.ofList feats)) := by
  unfold Orch._drop_data_if_possible Orch._wait_for_drop_completion
  simp only [tracker_unfold, wait_unfold, get?_eq, bind, Except.bind, pure, Except.pure, List.map_id', Gen.CfwManagerGen.get_uuid_flyway_datasets]
  cases hreg : Life.dget o.worker_manager.process_register c.uuid with
  | none =>
    have hq : queueOf o.worker_manager.process_register qh c.uuid = none := by simp [queueOf, hreg]
    simp only [Option.isNone_none, if_true, hq]
    have hrep := report_absCfw c (PSet.ofList feats)
    by_cases h1 : dropsNow c (PSet.ofList feats) = true
    · simp only [h1, if_true] at hrep ⊢
      simp only [BoolOrSet.isSet, Bool.false_eq_true, if_false, Except.map, Except.ok.injEq]
      simp only [dropModel, dropObj, dropKey, dropTrack, absObj, hrep, abs, toW, set_eq, ← absObjs_dset, hq]
      simp [isTable, dataNone, tracked, absCfw, locSet]
      rfl
    · simp only [h1, Bool.false_eq_true, if_false] at hrep ⊢
      by_cases h2 : c.object_ids.length > 0
      · simp only [h2, if_true] at hrep ⊢
        simp only [BoolOrSet.isSet, if_true, BoolOrSet.toSet, Except.map, Except.ok.injEq]
        simp only [dropModel, dropObj, dropKey, dropTrack, absObj, hrep, abs, toW, set_eq, ← absObjs_dset, hq, rm]
        simp [isTable, tracked, absCfw]
      · simp only [h2, if_false] at hrep ⊢
        simp only [BoolOrSet.isSet, Bool.false_eq_true, if_false, Except.map, Except.ok.injEq]
        simp only [dropModel, dropObj, dropKey, dropTrack, absObj, hrep, abs, toW, set_eq, ← absObjs_dset, hq, rm]
        simp [isTable, tracked, absCfw]
  | some t =>
    obtain ⟨hq1, hq2⟩ := queueOf_after o.worker_manager.process_register qh c.uuid t (PSet.ofList feats) sched hwf hreg
    have hq : queueOf o.worker_manager.process_register qh c.uuid = some (cmdSets (QHeap.content qh t.2.1)) := by simp [queueOf, hreg]
    simp only [Option.isNone_some, Bool.false_eq_true, if_false, Opt.deref, waitLoop _ _ _ _ _ hfuel, hq]
    have hobjs := absObjs_update (queueOf o.worker_manager.process_register qh)
      (queueOf o.worker_manager.process_register (waitH c.uuid t.2.2 sched (QHeap.put qh t.2.1 (.set (PSet.ofList feats)))).1) c.uuid c
      o.cfw_collection hn hc hq2
    have hself : Life.dset o.cfw_collection c.uuid c = o.cfw_collection := dset_self _ _ _ hc
    cases hfw : Life.dget o.cfw_register.uuid_flyway_datasets c.uuid with
    | none =>
      simp only [Except.map, Except.ok.injEq]
      simp only [dropModel, dropObj, dropKey, dropTrack, absObj, abs, toW, set_eq, hself, hobjs, hq1, hfw, rm]
      simp
    | some fw =>
      simp only
      cases hfe : fw with
      | nil =>
        simp only [PSet.truthy, List.isEmpty_nil, Bool.not_true, Bool.false_eq_true, if_false, Except.map, Except.ok.injEq]
        simp only [dropModel, dropObj, dropKey, dropTrack, absObj, abs, toW, set_eq, hself, hobjs, hq1, hfw, hfe, rm]
        simp
      | cons a fw' =>
        simp only [PSet.truthy, List.isEmpty_cons, Bool.not_false, if_true, Except.map, Except.ok.injEq]
        simp only [dropModel, dropObj, dropKey, dropTrack, absObj, abs, toW, set_eq, hself, hobjs, hq1, hfw, hfe, rm]
        simp

/-- **`pop_result_data_collection` drained is `Life.popAll`**: everything is yielded, newest first (`popitem` takes the item
inserted LAST), the collection is empty afterwards; with less fuel than there are results the translation is out of fuel -/
theorem C09.gen2_pop_all (w : PyW) (fuel : Nat) :
    (Dlm.pop_result_data_collection w.dlm fuel).map (fun r => abs { w with dlm := r.2, yielded := w.yielded ++ r.1 }) =
      if w.dlm.result_data_collection.length ≤ fuel then .ok (popAll (abs w)) else .error .fuel := by
  rw [pop_unfold, popLoop]
  by_cases h : w.dlm.result_data_collection.length ≤ fuel
  · simp [h, Except.map, popAll, abs]
  · simp [h, Except.map]

/-- one `popitem` is the model's `pop` event -/
theorem C09.gen2_pop_one (w : PyW) :
    (NDict.popitem w.dlm.result_data_collection).map
        (fun r => abs { w with dlm := { w.dlm with result_data_collection := r.2 }, yielded := w.yielded ++ [r.1] }) =
      if w.dlm.result_data_collection.isEmpty then .error .keyError else .ok (step (abs w) .pop).1 := by
  unfold NDict.popitem
  cases h : w.dlm.result_data_collection with
  | nil => rfl
  | cons a t =>
    have hl : (a :: t).getLast? = some ((a :: t).getLast (by simp)) := List.getLast?_eq_some_getLast (by simp)
    simp [hl, step, abs, h, Except.map]

/-- `ExecutionOrchestrator._drop_data_for_finished_cfws` is the model's `periodic` event -/
theorem C09.gen2_orch_periodic (o : Orch.Orch) (qh : QHeap) (fin store : PSet) (y : List (Nat × Nat))
    (hn : (dkeys o.data_lifecycle_manager.track_data_to_drop).Nodup) :
    (Orch._drop_data_for_finished_cfws o fin store).map (fun r => abs (toW r.2 qh fin r.1 y)) =
      liftLS (step (abs (toW o qh fin store y)) .periodic) := by
  have hp := C09.gen2_periodic (toW o qh fin store y) hn
  unfold Orch._drop_data_for_finished_cfws
  simp only [bind, Except.bind, pure, Except.pure, step]
  simp only [toW] at hp ⊢
  rw [← hp]
  cases Dlm.drop_data_for_finished_cfws o.data_lifecycle_manager fin o.cfw_collection o.location store <;> rfl

/-- **`_drop_remaining_flight_data` is `Life.finalCleanup`**: with a location every key of the run's objects leaves the store -/
theorem C09.gen2_final_cleanup (o : Orch.Orch) (qh : QHeap) (fin store : PSet) (y : List (Nat × Nat)) :
    (Orch._drop_remaining_flight_data o store).map (fun st => abs (toW o qh fin st y)) =
      .ok (finalCleanup (abs (toW o qh fin store y))) := by
  unfold Orch._drop_remaining_flight_data finalCleanup FlightStore.dropTables
  simp only [bind, Except.bind, pure, Except.pure, List.map_id']
  have hloc : (abs (toW o qh fin store y)).loc = Option.any (fun v => strTruthy v) o.location := rfl
  rw [hloc]
  cases hl : Option.any (fun v => strTruthy v) o.location with
  | false => simp [Except.map]
  | true =>
    simp only [Bool.not_true, Bool.false_eq_true, if_false, if_true]
    have hk : ∀ k, k ∈ PSet.ofList (NDict.keys o.cfw_collection) ↔ k ∈ dkeys (abs (toW o qh fin store y)).objs := by
      intro k
      rw [mem_ofList]
      simp only [abs, toW, absObjs]
      rw [dkeys_mapk o.cfw_collection (fun k c => absObj (queueOf o.worker_manager.process_register qh k) c)]
      rfl
    have hf : store.filter (fun k => decide (k ∉ PSet.ofList (NDict.keys o.cfw_collection))) =
        store.filter (fun k => decide (k ∉ dkeys (abs (toW o qh fin store y)).objs)) := by
      apply List.filter_congr; intro k _; simp [hk k]
    have hf' : store.filter (fun k => decide (k ∉ PSet.ofList (NDict.keys o.cfw_collection))) =
        store.filter (fun k => decide (k ∉ dkeys (absObjs (queueOf o.worker_manager.process_register qh) o.cfw_collection))) := hf
    cases hkeys : PSet.ofList (NDict.keys o.cfw_collection) with
    | nil =>
      simp only [PSet.truthy, List.isEmpty_nil, Bool.not_true, Bool.false_eq_true, if_false, Except.map, Except.ok.injEq]
      rw [hkeys] at hf'
      simp only [List.not_mem_nil, not_false_eq_true, decide_true, List.filter_eq_self.2 (fun _ _ => rfl)] at hf'
      simp only [abs, toW, LS.mk.injEq, true_and]
      exact ⟨hf', hl⟩
    | cons a t =>
      simp only [PSet.truthy, List.isEmpty_cons, Bool.not_false, if_true, Except.map, Except.ok.injEq]
      rw [← hkeys]
      simp only [abs, toW, LS.mk.injEq, true_and]
      exact ⟨hf', hl⟩

/-- the orchestrator's wrapper hands `self.location` on -/
theorem C09.gen2_orch_add_to_result (o : Orch.Orch) (c : Cfw.CfwObj) (st : Nat) (requested : PSet) (rd : Option Nat) (raises : Bool) (log : List String) :
    Orch.add_to_result_data_collection o c () st requested rd raises log =
      (Dlm.add_to_result_data_collection o.data_lifecycle_manager c () st o.location requested rd raises log).map
        (fun r => ({ o with data_lifecycle_manager := r.1 }, r.2)) := by
  unfold Orch.add_to_result_data_collection
  simp only [bind, Except.bind, pure, Except.pure]
  cases Dlm.add_to_result_data_collection o.data_lifecycle_manager c () st o.location requested rd raises log <;> rfl

theorem dropModel_fg (o : Orch.Orch) (d1 : Dlm.Dlm) (htrack : d1.track_data_to_drop = o.data_lifecycle_manager.track_data_to_drop)
    (qh : QHeap) (fin fin' store : PSet) (y : List (Nat × Nat)) (u : Nat) (ob : Life.Obj) (F : List Nat) :
    dropModel (abs (toW { o with data_lifecycle_manager := d1 } qh fin' store y)) u ob F =
      { abs (toW o qh fin store y) with
        results := d1.result_data_collection
        objs := Life.dset (abs (toW o qh fin store y)).objs u (dropObj ob F)
        store := rm (abs (toW o qh fin store y)).store (dropKey (abs (toW o qh fin store y)).loc ob F)
        track := dropTrack (abs (toW o qh fin store y)) u ob F
        finished := fin' } := by
  simp only [dropModel, dropTrack, abs, toW, htrack]
  rfl

/-- **`_process_step_result` of a done feature-group step is `Life.fgDone`**: `add_to_result_data_collection`, then
`_drop_data_if_possible` on the object of `cfw_collection` (written back under its uuid), with `finished_ids` updated as
`_mark_step_as_finished` does (C01.gen_mark_finished) -/
theorem C09.gen2_fg_done (o : Orch.Orch) (c : Cfw.CfwObj) (st : Nat) (requested : PSet) (raises : Bool) (store : PSet) (qh : QHeap)
    (sched : List (List QMsg)) (feats : List Nat) (fuel : Nat) (fin : PSet) (y : List (Nat × Nat))
    (hc : Life.dget o.cfw_collection c.uuid = some c) (hn : (Life.dkeys o.cfw_collection).Nodup)
    (hwf : regWF o.worker_manager.process_register = true) (hfuel : sched.length ≤ fuel)
    (hr : raises = (getResultErr (abs (toW o qh fin store y)) c.uuid (absObj (queueOf o.worker_manager.process_register qh c.uuid) c)).isSome) :
    (do let r1 ← Orch.add_to_result_data_collection o c () st requested (some c.uuid) raises []
        let r ← Orch._drop_data_if_possible r1.1 c () store qh sched feats fuel
        pure (abs (toW { r.2.2.2.2 with cfw_collection := NDict.set r.2.2.2.2.cfw_collection c.uuid r.1 } r.2.2.1
          (PSet.update fin (PSet.ofList feats)) r.2.1 y))) =
      liftLS (fgDone (abs (toW o qh fin store y)) c.uuid st (PSet.ofList feats) (PSet.truthy requested)) := by
  have hobj : Life.dget (abs (toW o qh fin store y)).objs c.uuid = some (absObj (queueOf o.worker_manager.process_register qh c.uuid) c) := by
    simp only [abs, toW, absObjs_dget, hc, Option.map_some]
  have hadd : Dlm.add_to_result_data_collection o.data_lifecycle_manager c () st o.location requested (some c.uuid) raises [] = _ :=
    C09.gen2_add_to_result (toW o qh fin store y) c st c.uuid requested raises [] hr
  -- the drop on an orchestrator whose result collection is `d1`
  have key : ∀ d1 : Dlm.Dlm, d1.track_data_to_drop = o.data_lifecycle_manager.track_data_to_drop →
      (do let r ← Orch._drop_data_if_possible { o with data_lifecycle_manager := d1 } c () store qh sched feats fuel
          pure (abs (toW { r.2.2.2.2 with cfw_collection := NDict.set r.2.2.2.2.cfw_collection c.uuid r.1 } r.2.2.1
            (PSet.update fin (PSet.ofList feats)) r.2.1 y)) : Except PyExc LS) =
        .ok { abs (toW o qh fin store y) with
          results := d1.result_data_collection
          objs := Life.dset (abs (toW o qh fin store y)).objs c.uuid (dropObj (absObj (queueOf o.worker_manager.process_register qh c.uuid) c) (PSet.ofList feats))
          store := rm (abs (toW o qh fin store y)).store (dropKey (abs (toW o qh fin store y)).loc (absObj (queueOf o.worker_manager.process_register qh c.uuid) c) (PSet.ofList feats))
          track := dropTrack (abs (toW o qh fin store y)) c.uuid (absObj (queueOf o.worker_manager.process_register qh c.uuid) c) (PSet.ofList feats)
          finished := PSet.update fin (PSet.ofList feats) } := by
    intro d1 ht
    have := C09.gen2_drop_if_possible { o with data_lifecycle_manager := d1 } c store qh sched feats fuel (PSet.update fin (PSet.ofList feats)) y hc hn hwf hfuel
    rw [dropModel_fg o d1 ht qh fin] at this
    revert this
    generalize Orch._drop_data_if_possible { o with data_lifecycle_manager := d1 } c () store qh sched feats fuel = res
    cases res with
    | error e => simp [Except.map]
    | ok r => simp only [Except.map, Except.ok.injEq, pure, Except.pure, bind, Except.bind]; exact id
  rw [C09.gen2_orch_add_to_result, hadd]
  unfold fgDone
  rw [hobj]
  simp only
  cases hq : PSet.truthy requested with
  | false =>
    simp only [Bool.false_eq_true, if_false, Except.map]
    exact (key o.data_lifecycle_manager rfl).trans rfl
  | true =>
    simp only [if_true]
    cases he : getResultErr (abs (toW o qh fin store y)) c.uuid (absObj (queueOf o.worker_manager.process_register qh c.uuid) c) with
    | some e =>
      have he' : getResultErr (abs (toW o qh fin store y)) c.uuid (absObj ((toW o qh fin store y).qf c.uuid) c) = some e := he
      simp only [he', Except.map, bind, Except.bind, liftLS]
      unfold getResultErr at he
      split at he
      · cases he
      · split at he
        · cases he; rfl
        · split at he
          · split at he
            · cases he
            · cases he; rfl
          · cases he; rfl
    | none =>
      have he' : getResultErr (abs (toW o qh fin store y)) c.uuid (absObj ((toW o qh fin store y).qf c.uuid) c) = none := he
      simp only [he', Except.map]
      exact (key { o.data_lifecycle_manager with result_data_collection := Life.dset o.data_lifecycle_manager.result_data_collection st c.uuid } rfl).trans rfl

/-! ## `WorkerManager`: the orchestrator's side of the queues -/

/-- `wait_for_drop_completion` is the function `waitH` of the arrival schedule, whenever the fuel covers the schedule -/
theorem C09.gen2_wait_is_waitH (self : Wm.Wm) (rq u : Nat) (qh : QHeap) (sched : List (List QMsg)) (fuel : Nat) (hfuel : sched.length ≤ fuel) :
    Wm.wait_for_drop_completion self rq u () qh sched fuel = .ok (waitH u rq sched qh) := by
  rw [wait_unfold, waitLoop u rq fuel qh sched hfuel]

/-- **`wait_for_drop_completion` is `Life.waitDrop`** on the content of the result queue; no other queue is touched -/
theorem C09.gen2_wait (self : Wm.Wm) (rq u : Nat) (qh : QHeap) (sched : List (List Life.Msg)) (q : List Life.Msg) (fuel : Nat)
    (hfuel : sched.length ≤ fuel) (hq : QHeap.content qh rq = q.map toQ) :
    ∃ qh' rest, Wm.wait_for_drop_completion self rq u () qh (sched.map (List.map toQ)) fuel = .ok (qh', rest) ∧
      QHeap.content qh' rq = (waitDrop u sched q).1.map toQ ∧ ∀ q', q' ≠ rq → QHeap.content qh' q' = QHeap.content qh q' := by
  refine ⟨_, _, C09.gen2_wait_is_waitH self rq u qh _ fuel (by simpa using hfuel), ?_⟩
  exact waitH_waitDrop u rq sched qh q hq

/-- **`poll_result_queues` is `Life.poll`**: one `get` per queue in the iteration order of the set, a tuple is skipped -/
theorem C09.gen2_poll (self : Wm.Wm) (qh : QHeap) (qs : List (List Life.Msg)) (hnd : self.result_queues_collection.Nodup)
    (hq : self.result_queues_collection.map (QHeap.content qh) = qs.map (List.map toQ)) :
    ∃ qh', Wm.poll_result_queues self qh = .ok (qh', { self with result_uuids_collection := (poll qs self.result_uuids_collection).2 }) ∧
      self.result_queues_collection.map (QHeap.content qh') = (poll qs self.result_uuids_collection).1.map (List.map toQ) ∧
      ∀ q, q ∉ self.result_queues_collection → QHeap.content qh' q = QHeap.content qh q := by
  rw [poll_unfold]
  exact pollFold self.result_queues_collection qs qh self hnd hq

/-- `is_step_done` after a poll: the uuid is in what `Life.poll` collected -/
theorem C09.gen2_is_step_done (self : Wm.Wm) (u : Nat) : Wm.is_step_done self u = .ok (decide (u ∈ self.result_uuids_collection)) := rfl

/-- `get_process_queues`: the registered triple; it exists exactly when the model's object has a queue -/
theorem C09.gen2_get_process_queues (self : Wm.Wm) (qh : QHeap) (u : Nat) :
    Wm.get_process_queues self u = .ok (Life.dget self.process_register u) ∧
    ((Life.dget self.process_register u).isSome = (queueOf self.process_register qh u).isSome) := by
  constructor
  · simp [Wm.get_process_queues, get?_eq, pure, Except.pure]
  · simp [queueOf]

/-- `send_command`: ValueError without a registered process, else the command goes to the END of that object's command queue;
in the model's view only a drop command (a set) is recorded, for that object only -/
theorem C09.gen2_send_command (self : Wm.Wm) (u : Nat) (cmd : QMsg) (qh : QHeap) :
    Wm.send_command self u cmd qh =
      match Life.dget self.process_register u with
      | none => .error (.valueError "No process found for CFW UUID: {}")
      | some t => .ok (QHeap.put qh t.2.1 cmd) := by
  unfold Wm.send_command
  simp only [get?_eq, bind, Except.bind, pure, Except.pure, throw, throwThe, MonadExceptOf.throw]
  cases Life.dget self.process_register u <;> rfl

theorem C09.gen2_send_command_queue (reg : NDict (Nat × Nat × Nat)) (qh : QHeap) (u : Nat) (t : Nat × Nat × Nat) (F : List Nat)
    (hwf : regWF reg = true) (hu : Life.dget reg u = some t) :
    queueOf reg (QHeap.put qh t.2.1 (.set F)) u = (queueOf reg qh u).map (· ++ [F]) ∧
    ∀ u', u' ≠ u → queueOf reg (QHeap.put qh t.2.1 (.set F)) u' = queueOf reg qh u' := by
  constructor
  · simp [queueOf, hu, content_put, cmdSets_append_set]
  · intro u' hne
    simp only [queueOf]
    cases hu' : Life.dget reg u' with
    | none => rfl
    | some t' =>
      simp only [Option.map_some]
      rw [content_put, if_neg (fun e => (regWF_spec hwf hu hu').2 (fun e' => hne e'.symm) e)]

example : Wm.poll_result_queues ⟨[], [4, 5], [9]⟩ [(4, [.dropComplete 1, .str 7]), (5, [.str 8])] =
    .ok ([(4, [.str 7]), (5, [])], ⟨[], [4, 5], [9, 8]⟩) := by decide

/-! ## the worker process (multiprocessing_worker.py) -/

/-- `_handle_stop_command` -/
theorem C09.gen2_handle_stop (cq : Nat) (qh : QHeap) : Worker._handle_stop_command cq qh = .ok (QHeap.put qh cq .stop) := by
  simp [Worker._handle_stop_command, bind, Except.bind, pure, Except.pure]

/-- `_handle_data_dropping`: the tracker decides; DROP_COMPLETE always goes to the result queue, STOP to the command queue only
when the data was dropped (then the result is True) -/
theorem C09.gen2_handle_data_dropping (cq rq : Nat) (c : Cfw.CfwObj) (F : List Nat) (loc : Nat) (store : PSet) (qh : QHeap) :
    Worker._handle_data_dropping cq c F loc rq store qh =
      .ok (match (report (absCfw c) F).2 with
           | .dropped k => (true, dataNone (tracked c F), rm store (if strTruthy loc then k else none),
               QHeap.put (QHeap.put qh rq (.dropComplete c.uuid)) cq .stop)
           | _ => (false, tracked c F, store, QHeap.put qh rq (.dropComplete c.uuid))) := by
  unfold Worker._handle_data_dropping Worker._handle_stop_command
  simp only [C09.gen2_tracker, bind, Except.bind, pure, Except.pure]
  have hrep := report_absCfw c F
  by_cases h1 : dropsNow c F = true
  · simp only [h1, if_true] at hrep
    simp [hrep, BoolOrSet.isTrue, locSet, dataNone, tracked]
    rfl
  · simp only [h1, Bool.false_eq_true, if_false] at hrep
    by_cases h2 : c.object_ids.length > 0
    · simp only [h2, if_true] at hrep; simp [hrep, BoolOrSet.isTrue, tracked]
    · simp only [h2, if_false] at hrep; simp [hrep, BoolOrSet.isTrue, tracked]

/-- **a step command in the worker's loop body is `Life.wstep`**: `_execute_command` (oracle `res`), the upload of a requested
result, the result message, and on any exception `set_error`, STOP into the own command queue and `break` -/
theorem C09.gen2_worker_step (cq rq : Nat) (hne : cq ≠ rq) (c : Cfw.CfwObj) (data : PData) (loc : Nat) (qh : QHeap) (store : PSet) (error : Bool)
    (id : Nat) (fgReq : Bool) (res : Life.StepRes) (uf isFG hasReq : Bool) (rest : List QMsg) (out : List Life.Msg) (stops unread : Nat)
    (hfg : (isFG && hasReq) = fgReq)
    (hcq : QHeap.content qh cq = .obj id :: rest) (hrq : QHeap.content qh rq = out.map toQ) :
    (Worker.workerLoopBody cq rq () c () data loc qh store error isFG hasReq id (toRes res) uf []).map (pyView cq rq) =
      .ok (wsView (wstep c.uuid (absWS c out store error stops unread) (.step id fgReq res uf)) rest stops) := by
  subst hfg
  have hne' : rq ≠ cq := fun e => hne e.symm
  unfold Worker.workerLoopBody Worker._handle_command_result Worker._handle_data_dropping Worker._handle_stop_command
  cases res <;> cases uf <;> cases isFG <;> cases hasReq <;>
    simp [QHeap.getNowait, hcq, hrq, QMsg.isStop, QMsg.isSet, Worker.executeCommand, Worker.uploadFinished, Worker.setError, toRes,
      bind, Except.bind, pure, Except.pure, Except.map, pyView, wsView, wstep, absWS, content_put, content_set, hne, hne',
      absCfw, isTable, PData.isStr, Store.upload, add_eq_addKey, toQ]

/-- "STOP" ends the loop and changes nothing else -/
theorem C09.gen2_worker_stop (cq rq : Nat) (hne : cq ≠ rq) (c : Cfw.CfwObj) (data : PData) (loc : Nat) (qh : QHeap) (store : PSet) (error : Bool)
    (id : Nat) (res : Worker.StepRes) (uf isFG hasReq : Bool) (rest : List QMsg) (out : List Life.Msg) (stops unread : Nat)
    (hcq : QHeap.content qh cq = .stop :: rest) (hrq : QHeap.content qh rq = out.map toQ) :
    (Worker.workerLoopBody cq rq () c () data loc qh store error isFG hasReq id res uf []).map (pyView cq rq) =
      .ok (wsView (wstep c.uuid (absWS c out store error stops unread) .stop) rest stops) := by
  have hne' : rq ≠ cq := fun e => hne e.symm
  unfold Worker.workerLoopBody
  simp [QHeap.getNowait, hcq, hrq, QMsg.isStop, bind, Except.bind, pure, Except.pure, Except.map, pyView, wsView, wstep, absWS,
    content_set, hne, hne']

/-- **a drop command (a set) in the worker's loop body is `Life.wstep`**: tracker report, DROP_COMPLETE into the result queue,
and - when the data was dropped - STOP into the own command queue and `break` (the location of a worker is a non-empty string) -/
theorem C09.gen2_worker_drop (cq rq : Nat) (hne : cq ≠ rq) (c : Cfw.CfwObj) (data : PData) (loc : Nat) (hloc : strTruthy loc = true) (qh : QHeap)
    (store : PSet) (error : Bool) (id : Nat) (res : Worker.StepRes) (uf isFG hasReq : Bool) (F : List Nat) (rest : List QMsg)
    (out : List Life.Msg) (stops unread : Nat)
    (hcq : QHeap.content qh cq = .set F :: rest) (hrq : QHeap.content qh rq = out.map toQ) :
    (Worker.workerLoopBody cq rq () c () data loc qh store error isFG hasReq id res uf []).map (pyView cq rq) =
      .ok (wsView (wstep c.uuid (absWS c out store error stops unread) (.drop F)) rest stops) := by
  have hne' : rq ≠ cq := fun e => hne e.symm
  have hl : locSet (some loc) = true := by simp [locSet, hloc]
  unfold Worker.workerLoopBody Worker._handle_data_dropping Worker._handle_stop_command
  simp only [C09.gen2_tracker, bind, Except.bind, pure, Except.pure]
  have hrep := report_absCfw c F
  by_cases h1 : dropsNow c F = true
  · simp only [h1, if_true] at hrep
    simp [QHeap.getNowait, hcq, hrq, QMsg.isStop, QMsg.isSet, QMsg.asSet, hrep, hl, BoolOrSet.isTrue, Except.map, pyView, wsView, wstep,
      absWS, content_put, content_set, hne, hne', toQ, dataNone, tracked, isTable]
  · simp only [h1, Bool.false_eq_true, if_false] at hrep
    by_cases h2 : c.object_ids.length > 0
    · simp only [h2, if_true] at hrep
      simp [QHeap.getNowait, hcq, hrq, QMsg.isStop, QMsg.isSet, QMsg.asSet, hrep, BoolOrSet.isTrue, Except.map, pyView, wsView, wstep,
        absWS, content_put, content_set, hne, hne', toQ, tracked, isTable]
    · simp only [h2, if_false] at hrep
      simp [QHeap.getNowait, hcq, hrq, QMsg.isStop, QMsg.isSet, QMsg.asSet, hrep, BoolOrSet.isTrue, Except.map, pyView, wsView, wstep,
        absWS, content_put, content_set, hne, hne', toQ, tracked, isTable]

/-- `queue.Empty`: the round changes nothing (the loop sleeps and goes on) -/
theorem C09.gen2_worker_empty (cq rq : Nat) (c : Cfw.CfwObj) (data : PData) (loc : Nat) (qh : QHeap) (store : PSet) (error : Bool)
    (id : Nat) (res : Worker.StepRes) (uf isFG hasReq : Bool) (hcq : QHeap.content qh cq = []) :
    Worker.workerLoopBody cq rq () c () data loc qh store error isFG hasReq id res uf [] = .ok (c, data, qh, store, error, []) := by
  unfold Worker.workerLoopBody
  simp [QHeap.getNowait, hcq, bind, Except.bind, pure, Except.pure]

/-! ## differences between the hand-written model and the translation; facts about the abstraction -/

/-- every Python object is a well-formed model object: `table` and a key string exclude each other (`Life.Obj` has states
with both, which `periodicGo` and `getResultErr` would treat differently; they are no abstraction of a Python state) -/
theorem C09.gen2_abs_wellformed (q : Option (List (List Nat))) (c : Cfw.CfwObj) :
    (absObj q c).table = true → (absObj q c).cfw.dataKey = none := by
  cases h : c.data <;> simp [absObj, absCfw, isTable, h]

/-- DIFFERENCE 1 (`result is not None` is not in the model): when `get_result_data` returns None the code collects nothing,
`Life.fgDone` (no error, requested) records the step.  Closed witness: object 3 with a table, step 5. -/
theorem C09.gen2_add_to_result_none_differs_witness :
    Dlm.add_to_result_data_collection ⟨[], []⟩ ⟨3, [1], [], .table, []⟩ () 5 none [1] none false [] = .ok (⟨[], []⟩, ["get_result_data"]) ∧
    (fgDone (abs { coll := [(3, ⟨3, [1], [], .table, []⟩)], dlm := ⟨[], []⟩ }) 3 5 [] true).1.results = [(5, 3)] := by
  decide

/-- DIFFERENCE 2 (the model assumes a worker's location is truthy): with the EMPTY string as location (`get_location()` is
not None, so the worker runs) a drop command that empties the object leaves its key in the store - `drop_last_data` tests
`isinstance(self.data, str) and location` - while `Life.wstep` removes it. -/
theorem C09.gen2_worker_empty_location_differs_witness :
    (Worker.workerLoopBody 1 2 () ⟨7, [4], [], .key 7, [7]⟩ () .none 0 [(1, [.set [4]])] [7] false false false 0 .table false []).map
        (fun r => r.2.2.2.1) = .ok [7] ∧
    (wstep 7 (absWS ⟨7, [4], [], .key 7, [7]⟩ [] [7] false 0 0) (.drop [4])).store = [] := by
  decide

/-! ## non-vacuity: closed runs of the translated functions -/

example : Dlm.drop_data_for_finished_cfws ⟨[], [(3, [10, 11]), (4, [12])]⟩ [10, 11] [(3, ⟨3, [1], [1], .key 3, [3]⟩), (4, ⟨4, [2], [], .table, [4]⟩)]
    (some 9) [3, 4] = .ok ([(3, ⟨3, [1], [1], .none, [3]⟩), (4, ⟨4, [2], [], .table, [4]⟩)], [4], ⟨[], [(4, [12])]⟩) := by decide

example : Dlm.drop_data_for_finished_cfws ⟨[], [(3, [10])]⟩ [10] [] none [] = .error .keyError := by decide

example : Dlm.pop_result_data_collection ⟨[(1, 10), (2, 20), (3, 30)], []⟩ 3 = .ok ([(3, 30), (2, 20), (1, 10)], ⟨[], []⟩) := by decide
example : Dlm.pop_result_data_collection ⟨[(1, 10), (2, 20), (3, 30)], []⟩ 2 = .error .fuel := by decide

example : Wm.wait_for_drop_completion ⟨[], [], []⟩ 2 7 () [(2, [.str 5])] [[], [.dropComplete 7], [.str 6]] 3 =
    .ok ([(2, [.str 5, .str 6])], []) := by decide

example : Worker.workerLoopBody 1 2 () ⟨7, [4, 5], [], .none, []⟩ () .none 9 [(1, [.obj 30])] [] false true true 30 .table false [] =
    .ok (⟨7, [4, 5], [], .table, [7]⟩, .table, [(1, []), (2, [.str 30])], [7], false, []) := by rfl
