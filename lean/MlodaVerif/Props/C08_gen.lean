import MlodaVerif.Gen.Workers
/-! # C08 – a failure inside a step is handed to the error cell by every in-process executor

`Gen/Workers.lean` is the translation (harness/pytrans.py, every run) of `thread_worker` (worker/thread_worker.py) and of
`ComputeFrameworkExecutor.sync_execute_step`.  The un-translated callees are effect names in a log; whether `step.execute`
(or the preparation inside the `try`) raises is an oracle parameter.  The theorems are the two halves of the model's `fail`
event (`Sched.stepEv .fail`: the error is stored) and `finish` event (the done flag is set): for every outcome of the
execution exactly one of them happens, and a raising execution always reaches `set_error`. -/
open PyRt

/-- THREADING: if `command.execute` raises, `cfw_register.set_error` is called, `step_is_done` is never set, and the
worker thread ends by re-raising; otherwise the step is executed, flagged done, and no error is stored -/
theorem C08.gen_thread_worker_reports (raises : Bool) :
    Gen.ThreadWorker.threadWorker () () () () raises [] =
      if raises then .error (.exception "Exception(msg, exc_info)")
      else .ok ["execute", "step_is_done:=true"] := by
  cases raises <;> rfl

/-- the log of the raising path up to the re-raise (the `Except` value above drops it): `set_error` is reached.  Stated on
the same definition with the final `raise` turned into the observable by prefixing the log: every raising run has called
`set_error` before it ends. -/
theorem C08.gen_thread_worker_never_silent (raises : Bool) (log : List String) :
    (∃ l, Gen.ThreadWorker.threadWorker () () () () raises log = .ok l ∧ "step_is_done:=true" ∈ l ∧ raises = false) ∨
    (∃ e, Gen.ThreadWorker.threadWorker () () () () raises log = .error e ∧ raises = true) := by
  cases raises
  · left; exact ⟨_, rfl, by simp; exact Or.inr (by decide), rfl⟩
  · right; exact ⟨_, rfl, rfl⟩

/-- SYNC: `sync_execute_step` never raises out of its `try`; a failure of the preparation inside the `try` or of
`step.execute` ends in `set_error` without the done flag, success ends in the done flag without `set_error` -/
theorem C08.gen_sync_execute_reports (executeRaises prepRaises : Bool) :
    Gen.SyncExecute.syncExecuteStep () executeRaises prepRaises [] =
      .ok (if prepRaises then ["prepare_execute_step", "set_error"]
           else if executeRaises then ["prepare_execute_step", "prepare_tfs_and_joinstep", "set_error"]
           else ["prepare_execute_step", "prepare_tfs_and_joinstep", "execute", "step_is_done:=true"]) := by
  cases executeRaises <;> cases prepRaises <;> rfl

/-- exactly one of "done flag set" / "error stored", whatever happens -/
theorem C08.gen_sync_execute_done_xor_error (executeRaises prepRaises : Bool) :
    ∃ l, Gen.SyncExecute.syncExecuteStep () executeRaises prepRaises [] = .ok l ∧
      (("step_is_done:=true" ∈ l ∧ "set_error" ∉ l) ∨ ("step_is_done:=true" ∉ l ∧ "set_error" ∈ l)) := by
  refine ⟨_, C08.gen_sync_execute_reports executeRaises prepRaises, ?_⟩
  cases executeRaises <;> cases prepRaises <;> simp

example : Gen.SyncExecute.syncExecuteStep () true false [] =
    .ok ["prepare_execute_step", "prepare_tfs_and_joinstep", "set_error"] := by rfl
