import MlodaVerif.Gen.Workers
/-! # C08 – a failure inside a step is handed to the error cell by every in-process executor

`Gen/Workers.lean` is the translation (harness/pytrans.py, every run) of `thread_worker` (worker/thread_worker.py) and of
`ComputeFrameworkExecutor.sync_execute_step`.  The un-translated callees are effect names in a log; whether `step.execute`
(or the preparation inside the `try`) raises is an oracle parameter.  The theorems are the two halves of the model's `fail`
event (`Sched.stepEv .fail`: the error is stored) and `finish` event (the done flag is set): for every outcome of the
execution exactly one of them happens, and a raising execution always reaches `set_error`. -/
open PyRt

/-- THREADING: if `command.execute` raises, `cfw_register.set_error` is called, `step_is_done` is never set, and the
worker thread ends by re-raising; otherwise the step is executed, flagged done, and no error is stored -/
theorem C08.gen_thread_worker_reports (raises : Bool) :
    Gen.ThreadWorker.threadWorker () () () () raises [] =
      if raises then .error (.exception "Exception(msg, exc_info)")
      else .ok ["execute", "step_is_done:=true"] := by
  cases raises <;> rfl

/-- the log of the raising path up to the re-raise (the `Except` value above drops it): `set_error` is reached.  Stated on
the same definition with the final `raise` turned into the observable by prefixing the log: every raising run has called
`set_error` before it ends. -/
theorem C08.gen_thread_worker_never_silent (raises : Bool) (log : List String) :
    (∃ l, Gen.ThreadWorker.threadWorker () () () () raises log = .ok l ∧ "step_is_done:=true" ∈ l ∧ raises = false) ∨
    (∃ e, Gen.ThreadWorker.threadWorker () () () () raises log = .error e ∧ raises = true) := by
  cases raises
  · left; exact ⟨_, rfl, by simp; exact Or.inr (by decide), rfl⟩
  · right; exact ⟨_, rfl, rfl⟩

/-- SYNC: `sync_execute_step` never raises out of its `try`; a failure of the preparation inside the `try` or of
`step.execute` ends in `set_error` without the done flag, success ends in the done flag without `set_error` -/
theorem C08.gen_sync_execute_reports (executeRaises prepRaises : Bool) :
    Gen.SyncExecute.syncExecuteStep () executeRaises prepRaises [] =
      .ok (if prepRaises then ["prepare_execute_step", "set_error"]
           else if executeRaises then ["prepare_execute_step", "prepare_tfs_and_joinstep", "set_error"]
           else ["prepare_execute_step", "prepare_tfs_and_joinstep", "execute", "step_is_done:=true"]) := by
  cases executeRaises <;> cases prepRaises <;> rfl

/-- exactly one of "done flag set" / "error stored", whatever happens -/
theorem C08.gen_sync_execute_done_xor_error (executeRaises prepRaises : Bool) :
    ∃ l, Gen.SyncExecute.syncExecuteStep () executeRaises prepRaises [] = .ok l ∧
      (("step_is_done:=true" ∈ l ∧ "set_error" ∉ l) ∨ ("step_is_done:=true" ∉ l ∧ "set_error" ∈ l)) := by
  refine ⟨_, C08.gen_sync_execute_reports executeRaises prepRaises, ?_⟩
  cases executeRaises <;> cases prepRaises <;> simp

/-! ## MULTIPROCESSING: the `try` block of the worker's command loop and `_handle_command_result` -/

/-- the command fails inside the worker: `_execute_command` raises, or the result must be uploaded (a feature-group step
whose data is not a key string and which has initially requested features) and either no location is set or the upload raises -/
def mpFails (dataIsStr isFG hasRequested locationIsNone executeRaises uploadRaises : Bool) : Bool :=
  executeRaises || ((!dataIsStr && isFG) && hasRequested && (locationIsNone || uploadRaises))

/-- **every failure inside the worker's `try` is reported and nothing else is**: for all 64 combinations of the oracles the
block never raises; on failure it calls `set_error`, sends STOP and leaves the loop without putting the step's uuid on the
result queue; on success it puts the uuid on the result queue exactly once (after the upload, when one is due) and does
not touch the error cell -/
theorem C08.gen_mp_worker_reports (dataIsStr isFG hasRequested locationIsNone executeRaises uploadRaises : Bool) :
    Gen.MpWorker.workerExecuteBlock () () () () () () () () dataIsStr isFG hasRequested locationIsNone executeRaises uploadRaises [] =
      .ok (if mpFails dataIsStr isFG hasRequested locationIsNone executeRaises uploadRaises then
             (if executeRaises then [] else ["execute_command"]) ++ ["set_error", "stop_command", "break"]
           else
             ["execute_command"] ++ (if (!dataIsStr && isFG) && hasRequested then ["upload_finished_data"] else []) ++ ["put_result"]) := by
  cases dataIsStr <;> cases isFG <;> cases hasRequested <;> cases locationIsNone <;> cases executeRaises <;> cases uploadRaises <;> rfl

/-- the step's uuid reaches the result queue iff the command did not fail; the error cell is written iff it failed -/
theorem C08.gen_mp_worker_done_xor_error (dataIsStr isFG hasRequested locationIsNone executeRaises uploadRaises : Bool) :
    ∃ l, Gen.MpWorker.workerExecuteBlock () () () () () () () () dataIsStr isFG hasRequested locationIsNone executeRaises uploadRaises [] = .ok l ∧
      ("put_result" ∈ l ↔ mpFails dataIsStr isFG hasRequested locationIsNone executeRaises uploadRaises = false) ∧
      ("set_error" ∈ l ↔ mpFails dataIsStr isFG hasRequested locationIsNone executeRaises uploadRaises = true) := by
  refine ⟨_, C08.gen_mp_worker_reports .., ?_⟩
  cases dataIsStr <;> cases isFG <;> cases hasRequested <;> cases locationIsNone <;> cases executeRaises <;> cases uploadRaises <;> simp [mpFails]

example : Gen.SyncExecute.syncExecuteStep () true false [] =
    .ok ["prepare_execute_step", "prepare_tfs_and_joinstep", "set_error"] := by rfl
