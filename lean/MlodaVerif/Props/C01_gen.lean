import MlodaVerif.Model.Sched
import MlodaVerif.Gen.RunLoop
/-! # C01 – the hand-written orchestrator model `Sched` equals the translation of run.py

`Gen/RunLoop.lean` is produced on every run by `harness/pytrans.py` from the *current* source text of
`ExecutionOrchestrator._is_step_done`, `currently_running_step`, `_can_run_step`, `_mark_step_as_finished` and of the body of
`for step in self.execution_planner` in `compute` / `compute_stream`.  The theorems below state that these translations are
the functions the model `Sched` (on which C01, C04, C08 and C13 are proved) uses: an edit of run.py that changes the meaning
of a gate or of the loop body changes `Gen/RunLoop.lean` and one of these proofs stops checking.
-/
open Sched PyRt Gen.RunLoop

/-- `_is_step_done` is `Sched.isStepDone` -/
theorem C01.gen_is_step_done (outs finished : List Nat) :
    _is_step_done outs finished = .ok (isStepDone outs finished) := by
  simp [_is_step_done, isStepDone, pyAll, PSet.has, pure, Except.pure]

/-- `currently_running_step` is `Sched.currentlyRunning`; the empty step raises StopIteration (`none` in the model) -/
theorem C01.gen_currently_running (outs running : List Nat) :
    currently_running_step outs running =
      match currentlyRunning outs running with
      | none => .error .stopIteration
      | some b => .ok b := by
  cases outs with
  | nil => simp [currently_running_step, currentlyRunning, PSet.nextIter, bind, Except.bind]
  | cons u us =>
    by_cases h : u ∈ running <;>
      simp [currently_running_step, currentlyRunning, PSet.nextIter, PSet.has, bind, Except.bind, pure, Except.pure, h]

/-- `_can_run_step`: the decision is `Sched.canRun`; when it is taken the running set is extended by the step's uuids,
and since none of them was running this is the model's `running ++ outs` -/
theorem C01.gen_can_run (req outs finished running : List Nat) :
    _can_run_step req outs finished running =
      .ok (canRun req outs finished running,
           if canRun req outs finished running then running ++ outs else running) := by
  have key : (outs.any (· ∈ running)) = !(outs.filter (· ∈ running)).isEmpty := by
    induction outs with
    | nil => simp
    | cons a t ih => by_cases h : a ∈ running <;> simp_all [List.filter_cons]
  by_cases hc : canRun req outs finished running
  · have h1 : req.all (· ∈ finished) = true := by simp [canRun] at hc; simpa using hc.1
    have h2 : outs.any (· ∈ running) = false := by simp [canRun] at hc; simpa using hc.2
    have h3 : outs.filter (· ∉ running) = outs := by
      apply List.filter_eq_self.2; intro a ha
      simp only [List.any_eq_false] at h2
      simpa using h2 a ha
    have h4 : (outs.filter (· ∈ running)).isEmpty = true := by rw [key] at h2; simpa using h2
    have h5 : ∀ a ∈ outs, a ∉ running := by simpa using h2
    simp [_can_run_step, hc, PSet.issubset, PSet.truthy, PSet.intersection, PSet.update, h1, h4, pure, Except.pure]
    exact h5
  · have : (req.all (· ∈ finished) && !(outs.filter (· ∈ running)).isEmpty.not) = false := by
      have : canRun req outs finished running = false := by simpa using hc
      simp only [canRun, key] at this
      simpa using this
    simp only [_can_run_step, PSet.issubset, PSet.truthy, PSet.intersection, pure, Except.pure]
    simp only [Bool.not_not] at this
    simp [hc, this]

/-- `_mark_step_as_finished` is `Sched.markFinished` -/
theorem C01.gen_mark_finished (outs finished running : List Nat) :
    _mark_step_as_finished outs finished running = .ok (markFinished outs finished running) := by
  simp [_mark_step_as_finished, markFinished, PSet.update, PSet.differenceUpdate, pure, Except.pure]

/-- the orchestrator's view of a model step -/
def toPStep (st : Step) : PStep := { uuids := st.outs, required := st.req, isFG := st.kind == .fg }

/-- what one visit of the loop body does to `finished_ids` / `currently_running_steps`, and which of the un-translated
callees it invokes, read off the model's `scan` event -/
structure ScanView where
  finished : List Nat
  running : List Nat
  processed : Bool      -- `_process_step_result` was entered (it polls the result queues first)
  collectedFG : Bool    -- ... and reached `add_to_result_data_collection` + `_drop_data_if_possible` (a done feature-group step)
  executed : Bool       -- `_execute_step` was called
  deriving DecidableEq

def scanView (p : Plan) (s : St) (i : Nat) (st : Step) : ScanView :=
  let s' := stepEv p s (.scan i)
  { finished := s'.finished, running := s'.running,
    processed := !isStepDone st.outs s.finished && currentlyRunning st.outs s.running == some true,
    collectedFG := decide (s'.collected = i :: s.collected) && st.kind == .fg,
    executed := decide (s'.started = i :: s.started) }

/-- `stepIsDone`: the step object's `step_is_done` flag; `uuidArrived`: its uuid came through a result queue.  The model's
`i ∈ s.done` is "one of the two". -/
def genView (st : Step) (s : St) (toFinish : List Nat) (stepIsDone uuidArrived : Bool) : Except PyExc ScanView :=
  match computeLoopBody (toPStep st) s.finished toFinish s.running stepIsDone uuidArrived false [] with
  | .error e => .error e
  | .ok (f, _, r, _, log) =>
    .ok { finished := f, running := r, processed := log.contains "poll_result_queues",
          collectedFG := log.contains "add_to_result_data_collection" && log.contains "drop_data_if_possible",
          executed := log.contains "execute_step" }

/-- **The loop body of `compute`, including `_process_step_result`, is the model's `scan` event.**  For every plan, every
state of the model that has not halted, every step with a non-empty uuid set, every value of `to_finish_ids` and every way
the step's completion became visible (flag or result queue): the translated body of `for step in self.execution_planner`
returns the model's new `finished` / `running` sets, enters `_process_step_result` exactly when the model consults `done`,
collects the result and asks for the drop exactly when the model records a feature-group step as collected, and calls
`_execute_step` exactly when the model records the step as started.  (`any_uuid` of a feature-group step is set: plan invariant.) -/
theorem C01.gen_loop_body_is_scan (p : Plan) (s : St) (i : Nat) (st : Step) (toFinish : List Nat) (sd ua : Bool)
    (hp : p[i]? = some st) (hh : halted s = false) (hne : st.outs ≠ []) (hdone : (sd || ua) = decide (i ∈ s.done)) :
    genView st s toFinish sd ua = .ok (scanView p s i st) := by
  obtain ⟨u, us, hout⟩ : ∃ u us, st.outs = u :: us := by
    cases h : st.outs with
    | nil => exact absurd h hne
    | cons u us => exact ⟨u, us, rfl⟩
  have hcr : currentlyRunning st.outs s.running = some (decide (u ∈ s.running)) := by simp [currentlyRunning, hout]
  unfold genView scanView computeLoopBody processStepResult
  simp only [toPStep, bind, Except.bind, C01.gen_is_step_done, C01.gen_currently_running, C01.gen_can_run,
    C01.gen_mark_finished, hcr, pure, Except.pure]
  by_cases hk : st.kind = Kind.fg <;>
  by_cases hd : isStepDone st.outs s.finished <;>
  by_cases hr : u ∈ s.running <;>
  by_cases hc : canRun st.req st.outs s.finished s.running <;>
  cases sd <;> cases ua <;>
  simp_all [stepEv, markFinished]

/-- `to_finish_ids` after the visit: the step's uuids were added (this is what makes the return condition
`to_finish_ids == finished_ids` talk about every step of the plan after one full pass) -/
theorem C01.gen_loop_body_to_finish (stp : PStep) (f tf r : List Nat) (sd ua an : Bool) (log : List String) :
    ∀ f' tf' r' sd' log', computeLoopBody stp f tf r sd ua an log = .ok (f', tf', r', sd', log') → tf' = PSet.update tf stp.uuids := by
  intro f' tf' r' sd' log' h
  unfold computeLoopBody processStepResult at h
  simp only [bind, Except.bind, C01.gen_is_step_done, C01.gen_currently_running, C01.gen_can_run,
    C01.gen_mark_finished, pure, Except.pure] at h
  repeat' split at h
  all_goals (try simp at h)
  all_goals (try (obtain ⟨_, h2, _⟩ := h; exact h2.symm))

/-- non-vacuity: a two-step plan, second step waiting for the first; visiting step 0 starts it -/
example :
    genView { outs := [1], req := [] } Sched.init [] false false =
      .ok { finished := [], running := [1], processed := false, collectedFG := false, executed := true } := by
  rfl
