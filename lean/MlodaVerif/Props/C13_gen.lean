import MlodaVerif.Gen.RunLoop
/-! # C13 – `compute_stream` visits the plan with the same loop body as `compute`

Both definitions are translated from the current run.py by `harness/pytrans.py`; the theorem holds exactly as long as the
two `for step in self.execution_planner` bodies have the same meaning statement by statement.  (The differences between the
two loops are at the tail of the `while` body - `yield from pop_result_data_collection()`, the empty-plan `break`, the sleep -
and are what `Sched.stepEv .loopHead` models.) -/
open Gen.RunLoop

theorem C13.gen_stream_body_eq_batch_body : computeStreamLoopBody = computeLoopBody := rfl

example : computeStreamLoopBody { uuids := [1], required := [] } [] [] [] false false false [] =
    .ok ([], [1], [1], false, ["drop_data_for_finished_cfws", "execute_step"]) := by rfl

/-- a finished feature-group step is collected once and then asked to drop, in that order, by either loop -/
example : computeStreamLoopBody { uuids := [1], required := [] } [] [1] [1] false true false [] =
    .ok ([1], [1], [], true, ["drop_data_for_finished_cfws", "poll_result_queues", "get_cfw", "add_to_result_data_collection", "drop_data_if_possible"]) := by rfl
