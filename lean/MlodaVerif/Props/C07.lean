import MlodaVerif.Lemmas.Session
import MlodaVerif.Gen.SessionApi
/-! # C07 - a prepared session and its arguments can be reused; runs are independent

Model: `MlodaVerif/Model/Session.lean`.  Theorems quantify over every plan, every stored api data and every history of
calls (by induction over the history); `decide` appears only in closed negation witnesses, the finite API-default table
and non-vacuity examples. -/
open Session

/-! ## A. run / stream_run / failing run histories on one session -/

/-- For EVERY history of calls on one session - batch runs, streamed runs whose consumer exhausts, closes or raises after
k items, runs that fail, with varying or omitted api data, in either mode - the i-th call returns exactly what a fresh
session with equal arguments and that call's effective api data returns. -/
theorem C07.session_refines_spec (plan : Plan) (stored : Option ApiData) (ops : List Op) :
    runHistory Cfg.asIs (prepare plan stored) ops = ops.map (runSpec plan stored) := by
  suffices h : ∀ (s : Sess), s.plan = plan → s.stored = stored →
      runHistory Cfg.asIs s ops = ops.map (runSpec plan stored) from h _ rfl rfl
  induction ops with
  | nil => intro s _ _; rfl
  | cons op ops ih =>
    intro s hp hs
    simp only [runHistory, List.map_cons]
    have hst := step_asIs_state s op
    rw [ih _ (hst.1.trans hp) (hst.2.trans hs), step_asIs_outcome, runSpec_eq, hp, hs]

/-- The invariant behind it: no call - successful, failed, streamed or abandoned - changes the session's plan or its
stored api data. -/
theorem C07.session_state_invariant (s : Sess) (ops : List Op) :
    (runSess Cfg.asIs s ops).plan = s.plan ∧ (runSess Cfg.asIs s ops).stored = s.stored := by
  induction ops generalizing s with
  | nil => exact ⟨rfl, rfl⟩
  | cons op ops ih =>
    simp only [runSess]
    have hst := step_asIs_state s op
    have := ih (step Cfg.asIs s op).1
    exact ⟨this.1.trans hst.1, this.2.trans hst.2⟩

/-- Consequently the outcome of a call does not depend on what happened before it on the session. -/
theorem C07.run_independent_of_history (plan : Plan) (stored : Option ApiData) (h₁ h₂ : List Op) (op : Op) :
    (runHistory Cfg.asIs (prepare plan stored) (h₁ ++ [op])).getLast? =
    (runHistory Cfg.asIs (prepare plan stored) (h₂ ++ [op])).getLast? := by
  rw [C07.session_refines_spec, C07.session_refines_spec]
  simp

/-- In particular a failed run or an abandoned stream leaves no trace: the next call behaves as on a fresh session. -/
theorem C07.failure_leaves_no_trace (plan : Plan) (stored : Option ApiData) (bad next : Op) :
    (runHistory Cfg.asIs (prepare plan stored) [bad, next])[1]? = some (runSpec plan stored next) := by
  rw [C07.session_refines_spec]; rfl

/-- `run()` without api data uses the api data given to `prepare`; with api data it uses that and nothing else. -/
theorem C07.effective_api_data (plan : Plan) (stored : Option ApiData) (a : ApiData) (m : Mode) :
    runSpec plan stored (.run none m) = runSpec plan stored (.run stored m) ∧
    runSpec plan stored (.run (some a) m) = runSpec plan none (.run (some a) m) := by
  constructor
  · rw [runSpec_eq, runSpec_eq]; simp [Op.data, effective, outcomeOf]
    cases stored <;> rfl
  · rw [runSpec_eq, runSpec_eq]; simp [Op.data, effective]

/-! ### each of the three mechanisms is necessary (negation witnesses for the mutated configurations) -/

/-- without the deep copy of the plan a second THREADING run sees stale `step_is_done` flags -/
theorem C07.deepcopy_needed_witness :
    let plan : Plan := [{ id := 0, kind := .static [1, 2], requested := true, done := false }]
    let cfg : Cfg := { Cfg.asIs with copyPlan := false }
    runHistory cfg (prepare plan none) [.run none .threading, .run none .threading]
      ≠ [.run none .threading, .run none .threading].map (runSpec plan none) := by
  decide

/-- with a re-used orchestrator the second run returns the first run's tables as well -/
theorem C07.fresh_runner_needed_witness :
    let plan : Plan := [{ id := 0, kind := .static [1, 2], requested := true, done := false }]
    let cfg : Cfg := { Cfg.asIs with freshRunner := false }
    runHistory cfg (prepare plan none) [.run none .sync, .run none .sync]
      ≠ [.run none .sync, .run none .sync].map (runSpec plan none) := by
  decide

/-- if a run stored its api data, a later `run()` without api data would not use the prepared api data -/
theorem C07.stored_kept_needed_witness :
    let plan : Plan := [{ id := 0, kind := .api 1, requested := true, done := false }]
    let cfg : Cfg := { Cfg.asIs with keepStored := false }
    let ops : List Op := [.run (some (.data [5] [0])) .sync, .run none .sync]
    runHistory cfg (prepare plan (some (.data [1] [0]))) ops ≠ ops.map (runSpec plan (some (.data [1] [0]))) := by
  decide

/-! ## B. the caller's feature objects -/

/-- the default of `copy_features` is True at every entry point (table regenerated from the signatures on every run) -/
theorem C07.copy_features_default : ∀ p ∈ Gen.copyFeaturesDefaults, p.2 = true := by decide

/-- `run` / `stream_run` default to `api_data=None` and SYNC mode, as the model's `Op` assumes -/
theorem C07.run_defaults :
    (∀ p ∈ Gen.apiDataDefaultsNone, p.2 = true) ∧ (∀ p ∈ Gen.modeDefaults, p.2 = ["SYNC"]) := by decide

/-- With `copy_features=True` the caller's feature list is unchanged by a call, whatever the call does to its copy, and
the call computes on the same features as it would without copying. -/
theorem C07.features_copied (hasApi : Bool) (caller : List Feature) :
    (apiInit true hasApi caller).1 = caller ∧ (apiInit true hasApi caller).2 = (apiInit false hasApi caller).2 := by
  simp [apiInit]

/-- Hence any sequence of calls re-using the same feature objects works, call after call, on the same input as a call
with fresh equal objects. -/
theorem C07.features_reusable (caller : List Feature) (calls : List Bool) :
    calls.foldl (fun cur hasApi => (apiInit true hasApi cur).1) caller = caller := by
  induction calls with
  | nil => rfl
  | cons h hs ih => simpa [List.foldl_cons, apiInit] using ih

/-- with `copy_features=False` the caller's objects are modified (flag set, api option added) -/
theorem C07.features_not_copied_witness :
    (apiInit false true [{ name := 7, opts := [], requested := false, link := none }]).1
      ≠ [{ name := 7, opts := [], requested := false, link := none }] := by
  decide

/-- Object identity: for EVERY object graph the caller hands over (Feature objects whose options hold data, handles that
cannot be deep-copied, and nested Feature objects to any depth) and every set of requested objects, none of the caller's
objects is written by a call with `copy_features=True`: the copy shares only the un-copyable handles, and the engine
reaches only copies. -/
theorem C07.deepcopy_isolates_caller (h : Heap) (roots : List Nat) (fuel : Nat) :
    callerAfterCall true fuel h roots = h := by
  unfold callerAfterCall
  rw [take_touch h.length fuel _ _ (by intro r hr; obtain ⟨a, _, rfl⟩ := List.mem_map.mp hr; omega) (sep_deepcopy h)]
  simp [deepcopyHeap]

/-- … so any number of calls re-using the same objects sees, call after call, the objects a fresh caller would pass -/
theorem C07.nested_features_reusable (h : Heap) (calls : List (List Nat × Nat)) :
    calls.foldl (fun cur c => callerAfterCall true c.2 cur c.1) h = h := by
  induction calls with
  | nil => rfl
  | cons c cs ih => simpa [List.foldl_cons, C07.deepcopy_isolates_caller] using ih

/-- The per-key fallback matters: if one un-copyable value made the whole options dict fall back to a shallow copy, a
requested feature holding a handle and a nested feature would get that nested (caller-owned) object written. -/
theorem C07.per_key_fallback_needed_witness :
    let h : Heap := [{ name := 1, opts := [], touched := false },
                     { name := 2, opts := [(0, .feats [0]), (1, .handle 9), (2, .scalar 3)], touched := false }]
    callerAfterCall false 3 h [1] ≠ h ∧ callerAfterCall true 3 h [1] = h := by
  decide

/-! ## C. the caller's `links` set -/

/-- Full statement: "planning leaves the caller's links set unchanged".  It holds when no planned feature carries a link
that is not already in the set … -/
theorem C07.links_shared_partial (ls : List Nat) (feats : List Feature)
    (h : ∀ f ∈ feats, ∀ l, f.link = some l → l ∈ ls) :
    addFeatureLinks (some ls) feats = some ls := by
  unfold addFeatureLinks
  induction feats with
  | nil => rfl
  | cons f fs ih =>
    simp only [List.foldl_cons]
    have hf := h f (by simp)
    have ih' := ih (fun f' hf' => h f' (by simp [hf']))
    cases hl : f.link with
    | none => simpa using ih'
    | some l =>
      have : l ∈ ls := hf l hl
      simpa [this] using ih'

/-- … and fails otherwise: a feature carrying a link writes it into the caller's set. -/
theorem C07.links_shared_witness :
    addFeatureLinks (some []) [{ name := 1, opts := [], requested := true, link := some 4 }] ≠ some [] := by
  decide

/-! ## D. a `GlobalFilter` object shared between calls -/

/-- Re-preparing an equal request with the same `GlobalFilter` object adds only equal `SingleFilter`s to the sets of its
collection: the object is unchanged by the second call and the second plan gets the same filters as the first. -/
theorem C07.prepare_idempotent_gf (w : Groups) (gf : GF) (r : Req) :
    prepareGF w (prepareGF w gf r).1 r = ((prepareGF w gf r).1, (prepareGF w gf r).2) := by
  unfold prepareGF
  simp only
  have : (adds w gf.filters r).foldl addToCollection ((adds w gf.filters r).foldl addToCollection gf.collection)
      = (adds w gf.filters r).foldl addToCollection gf.collection :=
    foldl_add_of_subset (fun x hx => mem_foldl_add.mpr (Or.inr hx))
  rw [this]

/-- what a fresh `GlobalFilter` (empty collection) gives the feature set of group `g`: exactly the group's matched filters -/
theorem C07.gf_fresh (w : Groups) (filters : List UFilter) (r : Req) (g : Nat) (hg : g ∈ groupsOf r) :
    ∃ fs, relevant ((adds w filters r).foldl addToCollection []) g (setNames w filters r g) = .ok fs ∧
      sameSet fs (matched w filters g r.fw r.opts) = true := by
  have hmem : ∀ k f, (k, f) ∈ (adds w filters r).foldl addToCollection [] ↔
      k ∈ r.feats ∧ f ∈ matched w filters k.1 r.fw r.opts := by
    intro k f; rw [mem_foldl_add, mem_adds]; simp
  obtain ⟨fs, h1, h2, h3⟩ := relevantOver_uniform ((adds w filters r).foldl addToCollection []) g (setNames w filters r g)
    (matched w filters g r.fw r.opts) (keys ((adds w filters r).foldl addToCollection [])) [] (by
      intro k hk hkg _
      obtain ⟨f, hf⟩ := mem_keys.mp hk
      constructor
      · rw [sameSet_iff]; intro f'; rw [mem_setAt, hmem, hkg]
        exact ⟨fun h => h.2, fun h => ⟨((hmem k f).mp hf).1, h⟩⟩
      · exact List.ne_nil_of_mem (mem_setAt.mpr hf)) (Or.inl rfl)
  refine ⟨fs, h1, ?_⟩
  rcases h2 with h2 | h2
  · -- no key hit: then the group matched no filter at all
    subst h2
    rw [sameSet_iff]; intro f
    constructor
    · intro h; cases h
    · intro hf
      exfalso
      -- g ∈ groupsOf r gives a requested (g, n); its key is in the collection and hits
      have : ∃ n, (g, n) ∈ r.feats := by
        unfold groupsOf at hg
        rw [List.mem_eraseDups, List.mem_map] at hg
        obtain ⟨gn, hgn, rfl⟩ := hg; exact ⟨gn.2, hgn⟩
      obtain ⟨n, hn⟩ := this
      have hk : (g, n) ∈ keys ((adds w filters r).foldl addToCollection []) :=
        mem_keys.mpr ⟨f, (hmem (g, n) f).mpr ⟨hn, hf⟩⟩
      have hnames : (setNames w filters r g).contains n = true := by
        unfold setNames; simp only [List.contains_iff_mem, List.mem_append, List.mem_map, List.mem_filter]
        exact Or.inl ⟨(g, n), ⟨hn, by simp⟩, rfl⟩
      exact h3 (Or.inr ⟨(g, n), hk, rfl, hnames⟩) rfl
  · exact h2

/-- Full statement: "a request planned with a `GlobalFilter` that earlier calls have used gets the same filters as with
a fresh equal object".  It holds under the hypothesis that every entry the earlier calls left in the collection, for the
group at hand, is the group's matched filter set for *this* call's compute framework and options (e.g. all calls used the
same framework and options) … -/
theorem C07.gf_shared_partial (w : Groups) (gf : GF) (r : Req) (g : Nat)
    (huni : ∀ k f, (k, f) ∈ gf.collection → k.1 = g → f ∈ matched w gf.filters g r.fw r.opts)
    (hfull : ∀ k, k ∈ keys gf.collection → k.1 = g → ∀ f ∈ matched w gf.filters g r.fw r.opts, (k, f) ∈ gf.collection) :
    ∃ fs, relevant (prepareGF w gf r).1.collection g (setNames w gf.filters r g) = .ok fs ∧
      (fs = [] ∨ sameSet fs (matched w gf.filters g r.fw r.opts) = true) := by
  unfold prepareGF; simp only
  obtain ⟨fs, h1, h2, _⟩ := relevantOver_uniform ((adds w gf.filters r).foldl addToCollection gf.collection) g
    (setNames w gf.filters r g) (matched w gf.filters g r.fw r.opts)
    (keys ((adds w gf.filters r).foldl addToCollection gf.collection)) [] (by
      intro k hk hkg _
      obtain ⟨f, hf⟩ := mem_keys.mp hk
      constructor
      · rw [sameSet_iff]; intro f'; rw [mem_setAt, mem_foldl_add, mem_adds]
        constructor
        · rintro (h | ⟨_, h⟩)
          · exact huni k f' h hkg
          · rw [hkg] at h; exact h
        · intro hf'
          rcases mem_foldl_add.mp hf with h | h
          · exact Or.inl (hfull k (mem_keys.mpr ⟨f, h⟩) hkg f' hf')
          · exact Or.inr ⟨(mem_adds.mp h).1, by rw [hkg]; exact hf'⟩
      · exact List.ne_nil_of_mem (mem_setAt.mpr hf)) (Or.inl rfl)
  exact ⟨fs, h1, h2⟩

/-- … and fails otherwise: the same filter object used first for a request on framework 0, then for another feature of the
same group on framework 1, makes the second planning fail ("different filters for different features"), while a fresh
equal `GlobalFilter` plans it. -/
theorem C07.gf_shared_witness :
    let w : Groups := [[10, 11]]
    let gf0 : GF := { filters := [{ name := 10, spec := 1 }], collection := [] }
    let r1 : Req := { fw := 0, opts := 0, feats := [(0, 10)] }
    let r2 : Req := { fw := 1, opts := 0, feats := [(0, 11)] }
    (prepareGF w (prepareGF w gf0 r1).1 r2).2 = .error .differentFilters ∧
    (prepareGF w gf0 r2).2 = .ok [(0, [{ name := 10, fw := 1, opts := 0, spec := 1 }])] := by
  decide

/-- planning never touches the filters the user added -/
theorem C07.gf_filters_untouched (w : Groups) (gf : GF) (r : Req) : (prepareGF w gf r).1.filters = gf.filters := rfl

/-! ## non-vacuity -/

/-- a history mixing a failing run, an abandoned stream and plain runs on a three-step plan (api step, static root,
derived step) - the outcomes differ from call to call and follow the spec -/
example :
    let plan : Plan := [{ id := 4, kind := .apiRoot, requested := false, done := false },
                        { id := 1, kind := .static [1, 2], requested := false, done := false },
                        { id := 0, kind := .api 1, requested := true, done := false },
                        { id := 2, kind := .derived 1 10, requested := true, done := false }]
    runHistory Cfg.asIs (prepare plan (some (.data [1] [0])))
      [.run (some (.data [5] [1])) .sync, .stream (some (.data [3] [0])) .threading (.closeAfter 1), .run none .sync,
       .run (some .empty) .sync]
    = [.raised .flagRaised, .streamed [(0, [4])] none, .tables [(0, [2]), (2, [11, 12])], .raised .apiMissing] := by
  decide

/-- the hypotheses of `gf_shared_partial` hold after an earlier call with the same framework and options -/
example :
    let w : Groups := [[10, 11]]
    let gf0 : GF := { filters := [{ name := 10, spec := 1 }], collection := [] }
    let r1 : Req := { fw := 0, opts := 0, feats := [(0, 10)] }
    let r2 : Req := { fw := 0, opts := 0, feats := [(0, 11)] }
    (prepareGF w (prepareGF w gf0 r1).1 r2).2 = (prepareGF w gf0 r2).2 := by
  decide
