import MlodaVerif.Lemmas.PlanGen
import MlodaVerif.Lemmas.PlanAuGen
/-! # C04 – pieces of `execution_plan.py` / `joinstep_collection.py`: the machine translation equals `Model/PlanFull.lean`

`Gen/PlanGen.lean` is the translation (harness/pytrans.py + harness/extractors/pytrans_plan.py, every run) of
`ExecutionPlan.reduce_children_to_one_level`, `find_feature_uuids`, `get_parent_parents`, `invert_link_trekker`,
`retrieve_links_which_must_be_calculated_before`, `retrieve_nodes_which_must_be_calculated_before`, of `JoinStepCollection`
(`similar_dependent_joins_uuids`, `add`, `get_required_join_uuids`) and of `JoinStep.get_uuids`.  The hand-written model
`PlanFull` contains these functions as `reduceChildren`, `findGo` / `findFeatureUuids`, `parents.flatMap anc`, `childLinks`,
`retrieveLinks`, the `L.flatMap g.anc` part of `mkFg`, `similarUuids`, the `coll` update of `addJoinsteps`, `collOf`.

Every theorem is for ALL inputs.  Hypotheses are representation invariants only and are named in the doc comments: a Python `set`
is a duplicate-free list (`Nodup`), the keys of a dict are pairwise different.  A `defaultdict` READ inserts a missing key
(`DDict.read`, `KDict.readD`): the theorems show that the dicts the functions hand back look up the same values as before
(1, 3) or are unchanged (5, 6).  A Python set `update` keeps old elements in place and appends new ones, so a set built by
`update`s from the empty set is `List.eraseDups` (first occurrences) of the concatenation - the model's formulation.

No difference between translation and model was found in these functions.  Two things are worth knowing (see the report):
the model never inserts a key on `get_required_join_uuids` of a step that was never added (the translation, like the code,
does - `C04.gen3_get_required_missing` shows what is inserted), and the translation compares `JoinStep`s structurally while
`JoinStep.__eq__` compares `uuid`s; both agree when the uuids of the stored steps are pairwise different, the hypothesis of
`C04.gen3_get_required`. -/
open PyRt Gen.PlanGen PlanGenL

/-! ## 1. `reduce_children_to_one_level` -/

/-- **`reduce_children_to_one_level` is `PlanFull.reduceChildren`** on the lookups of `graph.adjacency_list`; the
`defaultdict(list)` it hands back looks up the same lists (the reads only inserted empty entries).
`hnd`: the Python set `children_uuids` is duplicate-free (`discard` on the copy = `List.erase`). -/
theorem C04.gen3_reduce_children (ch : PSet) (adj : NDict (List Nat)) (hnd : ch.Nodup) :
    ∃ adj', Plan.reduce_children_to_one_level ch () adj = .ok (PlanFull.reduceChildren (DDict.get adj) ch, adj') ∧
      ∀ k, DDict.get adj' k = DDict.get adj k := by
  have h := reduce_loop ch adj ch (adj, ch) hnd (fun _ => rfl)
  refine ⟨_, ?_, h.2⟩
  rw [reduce_unfold, h.1]
  rfl

example : Plan.reduce_children_to_one_level [1, 2, 3] () [(1, [2]), (2, [5])] = .ok ([1, 3], [(1, [2]), (2, [5]), (3, [])]) ∧
    PlanFull.reduceChildren (DDict.get [(1, [2]), (2, [5])]) [1, 2, 3] = [1, 3] ∧ ([1, 2, 3] : PSet).Nodup := by decide

/-- the invariant `hnd` cannot be dropped: on a list with a repeated element `discard` removes every copy, `List.erase` one -/
example : Plan.reduce_children_to_one_level [1, 1, 2] () [(2, [1])] = .ok ([2], [(2, [1]), (1, [])]) ∧
    PlanFull.reduceChildren (DDict.get [(2, [1])]) [1, 1, 2] = [1, 2] := by decide

/-! ## 2. `find_feature_uuids` -/

/-- **`find_feature_uuids` is `PlanFull.findFeatureUuids`**: the same dict, entry by entry, in the same key order.
`hnd`: the sets of `feature_set_collections` are duplicate-free.  (The model's `used` list and the code's
`already_used_parents` differ as lists and have the same members: `PlanGenL.find_loop`.) -/
theorem C04.gen3_find_feature_uuids (parents : PSet) (fsc : List PSet) (hnd : ∀ s ∈ fsc, s.Nodup) :
    Plan.find_feature_uuids parents fsc = .ok (PlanFull.findFeatureUuids parents fsc) := by
  rw [find_unfold, find_loop fsc hnd parents ([], []) [] (fun _ => Iff.rfl) (fun _ _ => rfl)]
  rfl

example : Plan.find_feature_uuids [4, 1, 2, 9] [[1, 2], [3, 4], [4, 5]] = .ok [(4, [3, 4, 5]), (1, [1, 2])] ∧
    PlanFull.findFeatureUuids [4, 1, 2, 9] [[1, 2], [3, 4], [4, 5]] = [(4, [3, 4, 5]), (1, [1, 2])] ∧
    (∀ s ∈ ([[1, 2], [3, 4], [4, 5]] : List PSet), s.Nodup) := by decide

/-- the invariant `hnd` cannot be dropped (`PSet.update` appends an argument's new elements as they come) -/
example : Plan.find_feature_uuids [1] [[1, 1]] = .ok [(1, [1, 1])] ∧ PlanFull.findFeatureUuids [1] [[1, 1]] = [(1, [1])] := by decide

/-! ## 3. `get_parent_parents` -/

/-- **`get_parent_parents`** returns a set with the members of `parents.flatMap anc` (`anc` = the lookups of
`parent_to_children_mapping`; the model inlines the function like this), and a `defaultdict(set)` that looks up the same sets. -/
theorem C04.gen3_get_parent_parents (parents : PSet) (p2c : NDict (List Nat)) :
    ∃ r p2c', Plan.get_parent_parents parents () p2c = .ok (r, p2c') ∧
      (∀ x, x ∈ r ↔ x ∈ parents.flatMap (DDict.get p2c)) ∧ (∀ k, DDict.get p2c' k = DDict.get p2c k) := by
  have h := gpp_loop p2c parents (p2c, []) (fun _ => rfl)
  refine ⟨_, _, gpp_unfold parents p2c, ?_, h.2⟩
  intro x
  rw [h.1, mem_foldl_update]
  simp

/-- … and when the stored sets are duplicate-free (`hnd`) the returned set is exactly `(parents.flatMap anc).eraseDups` -/
theorem C04.gen3_get_parent_parents_eq (parents : PSet) (p2c : NDict (List Nat)) (hnd : ∀ p ∈ parents, (DDict.get p2c p).Nodup) :
    ∃ p2c', Plan.get_parent_parents parents () p2c = .ok ((parents.flatMap (DDict.get p2c)).eraseDups, p2c') ∧
      (∀ k, DDict.get p2c' k = DDict.get p2c k) := by
  have h := gpp_loop p2c parents (p2c, []) (fun _ => rfl)
  refine ⟨_, ?_, h.2⟩
  rw [gpp_unfold, h.1, foldl_update _ _ _ hnd, U_nil]

example : Plan.get_parent_parents [1, 2, 3] () [(1, [7, 8]), (3, [8, 9])] = .ok ([7, 8, 9], [(1, [7, 8]), (3, [8, 9]), (2, [])]) ∧
    ([1, 2, 3].flatMap (DDict.get [(1, [7, 8]), (3, [8, 9])])).eraseDups = [7, 8, 9] ∧
    (∀ p ∈ ([1, 2, 3] : PSet), (DDict.get [(1, [7, 8]), (3, [8, 9])] p).Nodup) := by decide

example : Plan.get_parent_parents [3, 1] () [(1, [7, 8]), (3, [8, 9])] = .ok ([8, 9, 7], [(1, [7, 8]), (3, [8, 9])]) ∧
    ([3, 1].flatMap (DDict.get [(1, [7, 8]), (3, [8, 9])])) = [8, 9, 7, 8] := by decide

/-! ## 4. `invert_link_trekker` -/

/-- **`invert_link_trekker`**: the defaultdict it builds maps every uuid to the model's `childLinks` (same keys, same order),
and its keys are the uuids that have a link.  `hk`: the keys of `link_trekker.data` are pairwise different.
(Duplicate-freeness of the stored sets is not needed.) -/
theorem C04.gen3_invert_link_trekker (t : PTrek) (hk : (t.data.map (·.1)).Nodup) :
    ∃ d, Plan.invert_link_trekker t = .ok d ∧
      (∀ u, ((KDict.get? d u).getD []).map absK = PlanFull.childLinks (absData t) u) ∧
      (∀ u, u ∈ KDict.keys d ↔ PlanFull.childLinks (absData t) u ≠ []) := by
  refine ⟨_, invert_unfold t, fun u => invert_get t hk u, ?_⟩
  intro u
  rw [keys_invAll, childLinks_ne_nil]
  simp [KDict.keys]

example : Plan.invert_link_trekker ⟨[((⟨7⟩, 1, 2), [10, 11]), ((⟨8⟩, 2, 3), [11])]⟩ =
      .ok [(10, [(⟨7⟩, 1, 2)]), (11, [(⟨7⟩, 1, 2), (⟨8⟩, 2, 3)])] ∧
    PlanFull.childLinks (absData ⟨[((⟨7⟩, 1, 2), [10, 11]), ((⟨8⟩, 2, 3), [11])]⟩) 11 = [⟨7, 1, 2⟩, ⟨8, 2, 3⟩] ∧
    ((⟨[((⟨7⟩, 1, 2), [10, 11]), ((⟨8⟩, 2, 3), [11])]⟩ : PTrek).data.map (·.1)).Nodup := by decide

/-- `hk` cannot be dropped: an association list with a repeated key is not a dict (`new_dict[uuid]` is a set of keys) -/
example : Plan.invert_link_trekker ⟨[((⟨7⟩, 1, 2), [10]), ((⟨7⟩, 1, 2), [10])]⟩ = .ok [(10, [(⟨7⟩, 1, 2)])] ∧
    PlanFull.childLinks (absData ⟨[((⟨7⟩, 1, 2), [10]), ((⟨7⟩, 1, 2), [10])]⟩) 10 = [⟨7, 1, 2⟩, ⟨7, 1, 2⟩] := by decide

/-! ## 5. `retrieve_links_which_must_be_calculated_before` -/

/-- **`retrieve_links_which_must_be_calculated_before` is `PlanFull.retrieveLinks`** on the dict `invert_link_trekker` built,
which it hands back unchanged (the guarded defaultdict read inserts nothing).  `hk` as in 4. -/
theorem C04.gen3_retrieve_links (feats : List Nat) (t : PTrek) (hk : (t.data.map (·.1)).Nodup) :
    ∃ d, Plan.invert_link_trekker t = .ok d ∧
      Plan.retrieve_links_which_must_be_calculated_before feats d = .ok (PlanFull.retrieveLinks (absData t) feats, d) := by
  refine ⟨_, invert_unfold t, ?_⟩
  rw [rl_unfold, rl_loop, U_nil]
  have hf : (fun f => (getL (invAll t.data []) f).map (fun link => link.1.uuid)) =
      (fun f => (PlanFull.childLinks (absData t) f).map (·.link)) := by
    funext f
    rw [← invert_get t hk f, List.map_map]
    rfl
  rw [hf]
  rfl

example : Plan.retrieve_links_which_must_be_calculated_before [11, 12, 10] [(10, [(⟨7⟩, 1, 2)]), (11, [(⟨7⟩, 1, 2), (⟨8⟩, 2, 3)])] =
      .ok ([7, 8], [(10, [(⟨7⟩, 1, 2)]), (11, [(⟨7⟩, 1, 2), (⟨8⟩, 2, 3)])]) ∧
    PlanFull.retrieveLinks (absData ⟨[((⟨7⟩, 1, 2), [10, 11]), ((⟨8⟩, 2, 3), [11])]⟩) [11, 12, 10] = [7, 8] := by decide

/-! ## 6. `retrieve_nodes_which_must_be_calculated_before` -/

/-- **`retrieve_nodes_which_must_be_calculated_before`** is the `L.flatMap g.anc` part of `PlanFull.mkFg`'s `req`; the dict is
handed back unchanged (the guarded read inserts nothing).  `hnd`: the stored sets are duplicate-free. -/
theorem C04.gen3_retrieve_nodes (feats : List Nat) (p2c : NDict (List Nat)) (hnd : ∀ f ∈ feats, (DDict.get p2c f).Nodup) :
    Plan.retrieve_nodes_which_must_be_calculated_before feats p2c = .ok ((feats.flatMap (DDict.get p2c)).eraseDups, p2c) := by
  rw [rn_unfold, rn_loop, foldl_update _ _ _ hnd, U_nil]

/-- without the invariant: the same members, the dict unchanged -/
theorem C04.gen3_retrieve_nodes_mem (feats : List Nat) (p2c : NDict (List Nat)) :
    ∃ r, Plan.retrieve_nodes_which_must_be_calculated_before feats p2c = .ok (r, p2c) ∧
      ∀ x, x ∈ r ↔ x ∈ feats.flatMap (DDict.get p2c) := by
  refine ⟨_, by rw [rn_unfold, rn_loop], ?_⟩
  intro x
  rw [mem_foldl_update]
  simp

example : Plan.retrieve_nodes_which_must_be_calculated_before [3, 2, 1] [(1, [7, 8]), (3, [8, 9])] = .ok ([8, 9, 7], [(1, [7, 8]), (3, [8, 9])]) ∧
    ([3, 2, 1].flatMap (DDict.get [(1, [7, 8]), (3, [8, 9])])).eraseDups = [8, 9, 7] ∧
    (∀ f ∈ ([3, 2, 1] : List Nat), (DDict.get [(1, [7, 8]), (3, [8, 9])] f).Nodup) := by decide

/-- `hnd` cannot be dropped for the equality (the members agree in any case) -/
example : Plan.retrieve_nodes_which_must_be_calculated_before [1] [(1, [7, 7])] = .ok ([7, 7], [(1, [7, 7])]) ∧
    ([1].flatMap (DDict.get [(1, [7, 7])])).eraseDups = [7] := by decide

/-! ## 7. `JoinStepCollection`, `JoinStep.get_uuids` -/

/-- a `JoinStep` of the translation as a step of the model -/
def C04.absJ (j : PJoin) : PlanFull.PStep :=
  { kind := .join, uuid := j.uuid, outs := [j.uuid, j.link_uuid], fw := j.left_framework, fw2 := j.right_framework, link := some j.link_uuid }

/-- `collection` of the translation and `JState.coll` of the model hold the same entries in the same order (frameworks,
`get_uuids()`, stored set) -/
def C04.Rel (c : KDict PJoin PSet) (coll : List (PlanFull.PStep × List Nat)) : Prop :=
  c.map (fun e => (e.1.left_framework, e.1.right_framework, [e.1.uuid, e.1.link_uuid], e.2)) = coll.map (fun e => (e.1.fw, e.1.fw2, e.1.outs, e.2))

instance (c : KDict PJoin PSet) (coll : List (PlanFull.PStep × List Nat)) : Decidable (C04.Rel c coll) := by
  unfold C04.Rel; exact inferInstance

/-- `Rel`, and the uuids of the steps agree too -/
def C04.Rel' (c : KDict PJoin PSet) (coll : List (PlanFull.PStep × List Nat)) : Prop :=
  C04.Rel c coll ∧ c.map (fun e => (e.1.uuid, e.2)) = coll.map (fun e => (e.1.uuid, e.2))

instance (c : KDict PJoin PSet) (coll : List (PlanFull.PStep × List Nat)) : Decidable (C04.Rel' c coll) := by
  unfold C04.Rel'; exact inferInstance

/-- **`similar_dependent_joins_uuids` is `PlanFull.similarUuids`** -/
theorem C04.gen3_similar_uuids (self : Jsc.JscSelf) (coll : List (PlanFull.PStep × List Nat)) (lf rf : Nat)
    (hrel : C04.Rel self.collection coll) :
    Jsc.similar_dependent_joins_uuids self lf rf = .ok (PlanFull.similarUuids coll lf rf) := by
  have h : self.collection.map rowPy = coll.map rowM := hrel
  rw [similar_eq, similarUuids_eq, h]

example : Jsc.similar_dependent_joins_uuids ⟨[(⟨20, 7, 1, 2⟩, []), (⟨21, 8, 3, 4⟩, []), (⟨22, 7, 2, 5⟩, [20, 7])]⟩ 2 9 = .ok [20, 7, 22] ∧
    PlanFull.similarUuids [(C04.absJ ⟨20, 7, 1, 2⟩, []), (C04.absJ ⟨21, 8, 3, 4⟩, []), (C04.absJ ⟨22, 7, 2, 5⟩, [20, 7])] 2 9 = [20, 7, 22] ∧
    C04.Rel [(⟨20, 7, 1, 2⟩, []), (⟨21, 8, 3, 4⟩, []), (⟨22, 7, 2, 5⟩, [20, 7])]
      [(C04.absJ ⟨20, 7, 1, 2⟩, []), (C04.absJ ⟨21, 8, 3, 4⟩, []), (C04.absJ ⟨22, 7, 2, 5⟩, [20, 7])] := by decide

/-- **`JoinStepCollection.add` is the `coll` update of `PlanFull.addJoinsteps`**: for a step that is not yet a key, the new
entry goes to the end with the set `similarUuids` computes, for EVERY model step `js` with the frameworks and `get_uuids()` of
`j` (in particular `C04.absJ j`). -/
theorem C04.gen3_jsc_add (self : Jsc.JscSelf) (coll : List (PlanFull.PStep × List Nat)) (j : PJoin) (js : PlanFull.PStep)
    (hrel : C04.Rel self.collection coll) (hj : j ∉ KDict.keys self.collection)
    (hfw : js.fw = j.left_framework) (hfw2 : js.fw2 = j.right_framework) (houts : js.outs = [j.uuid, j.link_uuid]) :
    ∃ self', Jsc.add self j = .ok self' ∧
      self'.collection = self.collection ++ [(j, PlanFull.similarUuids coll js.fw js.fw2)] ∧
      C04.Rel self'.collection (coll ++ [(js, PlanFull.similarUuids coll js.fw js.fw2)]) := by
  have h : self.collection.map rowPy = coll.map rowM := hrel
  have hs : simT (self.collection.map rowPy) j.left_framework j.right_framework = PlanFull.similarUuids coll js.fw js.fw2 := by
    rw [similarUuids_eq, h, hfw, hfw2]
  refine ⟨_, add_eq self j, ?_, ?_⟩
  · simp only [kset_new _ _ _ hj, hs]
  · simp only [kset_new _ _ _ hj, hs]
    show (self.collection ++ [(j, _)]).map rowPy = (coll ++ [(js, _)]).map rowM
    rw [List.map_append, List.map_append, h]
    simp only [List.map_cons, List.map_nil, rowPy, rowM, hfw, hfw2, houts]

/-- with uuids: `Rel'` is preserved as well when `js.uuid = j.uuid` -/
theorem C04.gen3_jsc_add_uuid (self : Jsc.JscSelf) (coll : List (PlanFull.PStep × List Nat)) (j : PJoin) (js : PlanFull.PStep)
    (hrel : C04.Rel' self.collection coll) (hj : j ∉ KDict.keys self.collection)
    (hfw : js.fw = j.left_framework) (hfw2 : js.fw2 = j.right_framework) (houts : js.outs = [j.uuid, j.link_uuid]) (hu : js.uuid = j.uuid) :
    ∃ self', Jsc.add self j = .ok self' ∧ C04.Rel' self'.collection (coll ++ [(js, PlanFull.similarUuids coll js.fw js.fw2)]) := by
  obtain ⟨self', h1, h2, h3⟩ := C04.gen3_jsc_add self coll j js hrel.1 hj hfw hfw2 houts
  refine ⟨self', h1, h3, ?_⟩
  rw [h2, List.map_append, List.map_append, hrel.2]
  simp only [List.map_cons, List.map_nil, hu]

example : Jsc.add ⟨[(⟨20, 7, 1, 2⟩, []), (⟨21, 8, 3, 4⟩, [])]⟩ ⟨22, 7, 2, 5⟩ = .ok ⟨[(⟨20, 7, 1, 2⟩, []), (⟨21, 8, 3, 4⟩, []), (⟨22, 7, 2, 5⟩, [20, 7])]⟩ ∧
    C04.Rel' [(⟨20, 7, 1, 2⟩, []), (⟨21, 8, 3, 4⟩, [])] [(C04.absJ ⟨20, 7, 1, 2⟩, []), (C04.absJ ⟨21, 8, 3, 4⟩, [])] ∧
    (⟨22, 7, 2, 5⟩ : PJoin) ∉ KDict.keys ([(⟨20, 7, 1, 2⟩, []), (⟨21, 8, 3, 4⟩, [])] : KDict PJoin PSet) ∧
    PlanFull.similarUuids [(C04.absJ ⟨20, 7, 1, 2⟩, []), (C04.absJ ⟨21, 8, 3, 4⟩, [])] 2 5 = [20, 7] := by
  decide

/-- **`get_required_join_uuids` of a stored step is `PlanFull.collOf`** (the model keys the collection by the uuid of the step, as
`JoinStep.__eq__` does) and leaves the collection as it is.  `hnd`: the uuids of the stored steps are pairwise different. -/
theorem C04.gen3_get_required (self : Jsc.JscSelf) (coll : List (PlanFull.PStep × List Nat)) (j : PJoin)
    (hrel : C04.Rel' self.collection coll) (hnd : (self.collection.map (·.1.uuid)).Nodup) (hj : j ∈ KDict.keys self.collection) :
    Jsc.get_required_join_uuids self j = .ok (PlanFull.collOf (coll.map (fun e => (e.1.uuid, e.2))) j.uuid, self) := by
  cases hg : KDict.get? self.collection j with
  | none => exact absurd hj ((kget?_none_iff _ _).1 hg)
  | some v =>
    have h := collOf_get self.collection j v hnd hg
    have h2 : jcPy self.collection = coll.map (fun e => (e.1.uuid, e.2)) := hrel.2
    rw [← h2, h, get_required_eq, readD_some _ _ _ _ hg]

/-- **`get_required_join_uuids` of a step that was never added** (no stored step has its uuid): the empty set - `collOf` of the
model - and the READ of the defaultdict inserts the step with an empty set (the model does not record this insertion; such a
read does not happen in `create_execution_plan`, every join step of the plan was `add`ed). -/
theorem C04.gen3_get_required_missing (self : Jsc.JscSelf) (coll : List (PlanFull.PStep × List Nat)) (j : PJoin)
    (hrel : C04.Rel' self.collection coll) (hj : j.uuid ∉ self.collection.map (·.1.uuid)) :
    Jsc.get_required_join_uuids self j =
        .ok (PlanFull.collOf (coll.map (fun e => (e.1.uuid, e.2))) j.uuid, { collection := self.collection ++ [(j, [])] }) ∧
      PlanFull.collOf (coll.map (fun e => (e.1.uuid, e.2))) j.uuid = [] := by
  have h2 : jcPy self.collection = coll.map (fun e => (e.1.uuid, e.2)) := hrel.2
  have h := collOf_fresh self.collection j.uuid hj
  have hk : j ∉ KDict.keys self.collection := by
    intro hm
    apply hj
    simp only [KDict.keys, List.mem_map] at hm ⊢
    obtain ⟨x, hx, hxj⟩ := hm
    exact ⟨x, hx, by rw [hxj]⟩
  rw [← h2, h, get_required_eq, readD_none _ _ _ ((kget?_none_iff _ _).2 hk)]
  exact ⟨rfl, rfl⟩

/-- what the translation does for ANY step that is not a key (no `Rel` needed) -/
theorem C04.gen3_get_required_inserts (self : Jsc.JscSelf) (j : PJoin) (hj : j ∉ KDict.keys self.collection) :
    Jsc.get_required_join_uuids self j = .ok ([], { collection := self.collection ++ [(j, [])] }) := by
  rw [get_required_eq, readD_none _ _ _ ((kget?_none_iff _ _).2 hj)]

example : Jsc.get_required_join_uuids ⟨[(⟨20, 7, 1, 2⟩, []), (⟨22, 7, 2, 5⟩, [20, 7])]⟩ ⟨22, 7, 2, 5⟩ =
      .ok ([20, 7], ⟨[(⟨20, 7, 1, 2⟩, []), (⟨22, 7, 2, 5⟩, [20, 7])]⟩) ∧
    PlanFull.collOf ([(C04.absJ ⟨20, 7, 1, 2⟩, ([] : List Nat)), (C04.absJ ⟨22, 7, 2, 5⟩, [20, 7])].map (fun e => (e.1.uuid, e.2))) 22 = [20, 7] ∧
    (([(⟨20, 7, 1, 2⟩, []), (⟨22, 7, 2, 5⟩, [20, 7])] : KDict PJoin PSet).map (·.1.uuid)).Nodup := by decide

example : Jsc.get_required_join_uuids ⟨[(⟨20, 7, 1, 2⟩, [])]⟩ ⟨22, 7, 2, 5⟩ = .ok ([], ⟨[(⟨20, 7, 1, 2⟩, []), (⟨22, 7, 2, 5⟩, [])]⟩) ∧
    (22 : Nat) ∉ ([(⟨20, 7, 1, 2⟩, [])] : KDict PJoin PSet).map (·.1.uuid) := by decide

/-- outside the invariant "one uuid - one step": the translation compares `JoinStep`s field by field, `JoinStep.__eq__` and the
model compare uuids.  (Not reachable: every `JoinStep` draws a fresh `uuid4`.) -/
example : Jsc.get_required_join_uuids ⟨[(⟨20, 7, 1, 2⟩, [5])]⟩ ⟨20, 8, 1, 2⟩ = .ok ([], ⟨[(⟨20, 7, 1, 2⟩, [5]), (⟨20, 8, 1, 2⟩, [])]⟩) ∧
    PlanFull.collOf ([(C04.absJ ⟨20, 7, 1, 2⟩, [5])].map (fun e => (e.1.uuid, e.2))) 20 = [5] := by decide

/-- **`JoinStep.get_uuids`** is `{uuid, link.uuid}`: the `outs` of the model's join step -/
theorem C04.gen3_join_get_uuids (j : PJoin) :
    get_uuids j = .ok (PSet.ofList [j.uuid, j.link_uuid]) ∧
      (j.uuid ≠ j.link_uuid → get_uuids j = .ok (C04.absJ j).outs) ∧
      (j.uuid = j.link_uuid → get_uuids j = .ok [j.uuid]) := by
  refine ⟨rfl, ?_, ?_⟩
  · intro h
    have : j.link_uuid ≠ j.uuid := fun e => h e.symm
    simp [get_uuids, pure, Except.pure, PSet.ofList, PSet.add, C04.absJ, this]
  · intro h
    simp [get_uuids, pure, Except.pure, PSet.ofList, PSet.add, h]

example : get_uuids ⟨20, 7, 1, 2⟩ = .ok [20, 7] ∧ (C04.absJ ⟨20, 7, 1, 2⟩).outs = [20, 7] := by decide

/-! ## 8. `handle_append_or_union_joinstep` (`Gen/PlanAuGen.lean`) -/

/-- **`handle_append_or_union_joinstep` is `PlanFull.handleAppendUnion`**: the steps of the plan are the model's `PStep` records; the
first loop's `defaultdict(set)` is the model's list of `(left uuid, link uuid)` pairs, `fw.required_uuids.update(required)` the model's
`eraseDups` of the concatenation; both `ValueError("This should not happen.")` and the `StopIteration` of `next(iter(<empty set>))`
included.  The function returns the list it was given (whose step objects it changed in place): both components are the new plan.
Hypotheses = representation invariants: an APPEND / UNION JoinStep has a link, and its `required_uuids` is a set (duplicate-free). -/
theorem C04.gen3_handle_append_union (p : List PlanFull.PStep) (hl : ∀ s ∈ p, PlanFull.isAU s = true → s.link.isSome = true)
    (hr : ∀ s ∈ p, PlanFull.isAU s = true → s.req.Nodup) :
    Gen.PlanAuGen.handle_append_or_union_joinstep p = match PlanAuGenL.liftM (PlanFull.handleAppendUnion p) with
      | .ok q => .ok (q, q)
      | .error e => .error e :=
  PlanAuGenL.handle_bridge p hl hr

/-- non-vacuity: UUID1 - UUID2 : UUID2 - UUID3 - the union step whose right side is the left side of another one waits for that link -/
example : (Gen.PlanAuGen.handle_append_or_union_joinstep
      [{ kind := .join, jt := .union, link := some 50, lfu := [2], rfu := [3], req := [9] },
       { kind := .join, jt := .append, link := some 51, lfu := [1], rfu := [2], req := [8] }]).map (fun r => r.1.map (·.req)) =
    .ok [[9], [8, 50]] := by decide

example : (PlanFull.handleAppendUnion
      [{ kind := .join, jt := .union, link := some 50, lfu := [2], rfu := [3], req := [9] },
       { kind := .join, jt := .append, link := some 51, lfu := [1], rfu := [2], req := [8] }]).map (fun q => q.map (·.req)) =
    .ok [[9], [8, 50]] := by decide
