import MlodaVerif.Gen.TypeTables
/-! # C17 – the regenerated Arrow → DataType table contains the documented non-canonical spellings

`Gen.fromArrowTable` is printed from `DataType.from_arrow_type` of the tree under test on every run.  `C17.arrow_roundtrip`
(Props/C17.lean) only pins the 11 canonical images of `to_arrow_type`; the statements below pin the documented readings of
the other legal spellings, so that a tree whose `from_arrow_type` narrows them regenerates a table for which this file no
longer checks (the failing input is then found by `harness/corr/c17_spellings.py`). -/
open Gen

/-- large layouts and timezone-aware timestamps denote the same DataType as their plain spelling; every decimal128 is DECIMAL -/
theorem C17.from_arrow_documented_spellings :
    fromArrow "large_string" = some .STRING ∧ fromArrow "large_binary" = some .BINARY ∧
    fromArrow "timestamp[us, tz=UTC]" = some .TIMESTAMP_MICROS ∧
    fromArrow "decimal128(38, 18)" = some .DECIMAL ∧ fromArrow "decimal128(10, 2)" = some .DECIMAL := by
  decide

/-- widths and units the documentation does not list are not supported (a typed feature producing them is not checked) -/
theorem C17.from_arrow_documented_unsupported :
    ∀ s ∈ ["int8", "int16", "uint8", "uint16", "uint32", "uint64", "halffloat", "timestamp[s]", "timestamp[ns]",
           "list<item: int64>", "null", "time32[s]", "duration[us]"], fromArrow s = none := by
  decide
