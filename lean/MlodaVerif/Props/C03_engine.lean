import MlodaVerif.Lemmas.EngineOrder
import MlodaVerif.Lemmas.EngineFuel
import MlodaVerif.Lemmas.EngineFilter
import MlodaVerif.Lemmas.EngineGraph
import MlodaVerif.Lemmas.EngineWorldPlain
import MlodaVerif.Model.EngineWorld
/-! # C03 extension `engine`: what the Engine collects for planning (model: `Model/EngineColl.lean`)

`run w fuel L req = .ok st` is a successful `Engine.__init__` up to `setup_features_recursion` for the request `req`, the links `L` and the
world `w` (what resolution, the feature groups and the global filter answer, plus the set iteration orders).  Everything below holds for
every world, every request and every fuel; `PlainWorld` / `PlainReq` say that `input_features` / the filters / the request contain ordinary
features (no `link`, dependencies unflagged, request flagged as mlodaAPI does).

Vocabulary (Lemmas/EngineSafe.lean, EngineLive.lean, EngineTop.lean, EngineOrder.lean):
* `Proc w L req g f`   - `f` is a feature `_process_feature` prepares for group `g`: a requested one or, transitively, an input feature;
* `FilterMatch`, `filterKey`, `IndexMatch`, `indexKey` - the filter / linked-index features `_add_filter_feature` / `_add_index_feature` make for a prepared feature;
* `Legit` - prepared features and auxiliary features of prepared features; `InClosure` the same on keys; `Expanded` - entries that are not auxiliary;
* `NoShadow` - no requested feature is `==` to an auxiliary feature of ANOTHER prepared feature of its group (excludes F-C03-aux-shadows-request). -/
open EngineColl EngineWorld

/-! ## no duplicates -/

/-- no two collected features of one group are `==` (any world, any request) -/
theorem C03.engine_no_duplicates (w : World) (fuel : Nat) (L : Option (List Link)) (req : List Feat) (st : St)
    (h : run w fuel L req = .ok st) : st.coll.Pairwise (fun a b => ¬ (a.1 = b.1 ∧ a.2.key = b.2.key)) := run_nodup h

/-- the collection never shrinks or rewrites an entry: after a prefix of the request the entries are a prefix of the final collection -/
theorem C03.engine_collection_grows (w : World) (fuel : Nat) (s0 st : St) (pre post : List Feat)
    (h : procAll w fuel s0 (pre ++ post) = .ok st) : ∃ stp, procAll w fuel s0 pre = .ok stp ∧ ∃ extra, st.coll = stp.coll ++ extra := by
  obtain ⟨stp, h1, h2⟩ := procAll_append h
  exact ⟨stp, h1, (procAll_run w fuel post stp st h2).ext.1⟩

/-! ## the closure -/

/-- SOUND: every collected entry is a prepared feature (requested / transitive input) or a filter / linked-index feature of a prepared
feature of the same group that differs from it; `self.links` is still the set handed in -/
theorem C03.engine_closure_sound (w : World) (fuel : Nat) (L : Option (List Link)) (req : List Feat) (st : St) (hw : PlainWorld w)
    (hnl : ∀ q ∈ req, q.link = none) (h : run w fuel L req = .ok st) : st.links = L ∧ ∀ e ∈ st.coll, Legit w L req e.1 e.2 :=
  run_sound hw hnl h

/-- COMPLETE (any request): every requested feature is represented (by an `==` entry of its group) together with its filter and linked-index
features, and every non-auxiliary entry has all its input features and its own filter / linked-index features represented -/
theorem C03.engine_closure_complete (w : World) (fuel : Nat) (L : Option (List Link)) (req : List Feat) (st : St) (hw : PlainWorld w)
    (hnl : ∀ q ∈ req, q.link = none) (h : run w fuel L req = .ok st) :
    (∀ q ∈ req, ∀ g f, prepare w L q = .ok (g, f) → inColl st.coll g f.key = true ∧ AuxRep w L st.coll g f.key) ∧
    (∀ e ∈ st.coll, Expanded e.2 → InputsRep w L st.coll e.1 e.2.key ∧ AuxRep w L st.coll e.1 e.2.key) :=
  run_complete hw hnl h

/-- EXACT under `NoShadow`: a (group, key) is collected iff it is in the order-free closure of the request -/
theorem C03.engine_closure_exact_partial (w : World) (fuel : Nat) (L : Option (List Link)) (req : List Feat) (st : St) (hw : PlainWorld w)
    (hreq : PlainReq req) (hns : NoShadow w L req) (h : run w fuel L req = .ok st) (g : Nat) (k : Key) :
    inColl st.coll g k = true ↔ InClosure w L req g k := by
  have := coll_char hw hreq hns h g k
  constructor
  · intro hin
    rw [inColl_iff] at hin
    obtain ⟨e, he, hg, hk⟩ := hin
    exact ((this e.2.req).mp ⟨e, he, hg, hk, rfl⟩).1
  · intro hc
    by_cases hr : IsReqKey w L req g k
    · obtain ⟨e, he, hg, hk, _⟩ := (this true).mpr ⟨hc, by simp [hr]⟩
      exact inColl_iff.mpr ⟨e, he, hg, hk⟩
    · obtain ⟨e, he, hg, hk, _⟩ := (this false).mpr ⟨hc, by simp [hr]⟩
      exact inColl_iff.mpr ⟨e, he, hg, hk⟩

/-- each `==`-class of the closure is collected exactly once (what the planner needs for "computed exactly once") -/
theorem C03.engine_each_class_once (w : World) (fuel : Nat) (L : Option (List Link)) (req : List Feat) (st : St) (hw : PlainWorld w)
    (hreq : PlainReq req) (hns : NoShadow w L req) (h : run w fuel L req = .ok st) (g : Nat) (k : Key) (hc : InClosure w L req g k) :
    ∃ e ∈ st.coll, e.1 = g ∧ e.2.key = k ∧ ∀ e' ∈ st.coll, e'.1 = g → e'.2.key = k → e' = e := by
  have hin := (C03.engine_closure_exact_partial w fuel L req st hw hreq hns h g k).mpr hc
  rw [inColl_iff] at hin
  obtain ⟨e, he, hg, hk⟩ := hin
  exact ⟨e, he, hg, hk, fun e' he' hg' hk' => (run_nodup h).unique he' he (by rw [hg, hg']) (by rw [hk, hk'])⟩

/-- the failing side of the closure without `NoShadow`: a requested feature that finds an `==` auxiliary entry is not expanded - its
input features are NOT collected (request [z, a] below: `a` has the input `r`, but the filter feature `a` made for `z`'s group shadows it) -/
def shadowSpec : Spec :=
  { groups := [{ criteria := [[122], [97]], supported := [[122], [97]], dom := 0, cfws := [0], index := none, types := [],
                 inputs := some [([122], []), ([97], [{ feat := { key := { name := [114], grp := [], ctx := [], dom := none, cfw := none, dtype := none, child := none },
                                                                    req := false, uuid := 0, link := none }, pass := false }])], orders := [] },
               { criteria := [[114]], supported := [[114]], dom := 0, cfws := [0], index := none, types := [], inputs := none, orders := [] }],
    filters := some [{ key := { name := [97], grp := [], ctx := [], dom := none, cfw := none, dtype := none, child := none }, tp := 0 }],
    picks := [], scans := [], morders := [] }

def rq (n : Name) (u : Nat) : Feat :=
  { key := { name := n, grp := [], ctx := [], dom := none, cfw := none, dtype := none, child := none }, req := true, uuid := u, link := none }

def names (r : Except Err St) : Except Err (List (Nat × Name × Bool)) := r.map (fun st => st.coll.map (fun e => (e.1, e.2.key.name, e.2.req)))

theorem C03.engine_closure_complete_witness :
    names (run (tableWorld shadowSpec) 8 none [rq [122] 0, rq [97] 1]) = .ok [(0, [122], true), (0, [97], false)] ∧
    names (run (tableWorld shadowSpec) 8 none [rq [97] 0, rq [122] 1]) = .ok [(0, [97], true), (1, [114], false), (0, [122], true)] := by
  decide

/-! ## the requested flag -/

/-- a flagged entry is (the prepared form of) a requested feature -/
theorem C03.engine_requested_flag_sound (w : World) (fuel : Nat) (L : Option (List Link)) (req : List Feat) (st : St) (hw : PlainWorld w)
    (hnl : ∀ q ∈ req, q.link = none) (h : run w fuel L req = .ok st) :
    ∀ e ∈ st.coll, e.2.req = true → ∃ q ∈ req, prepare w L q = .ok (e.1, e.2) :=
  fun e he hr => ((run_sound hw hnl h).2 e he).flag hw hr

/-- under `NoShadow`: a collected feature is marked initially requested iff it `==` some requested feature -/
theorem C03.engine_requested_flag_exact_partial (w : World) (fuel : Nat) (L : Option (List Link)) (req : List Feat) (st : St)
    (hw : PlainWorld w) (hreq : PlainReq req) (hns : NoShadow w L req) (h : run w fuel L req = .ok st) :
    ∀ e ∈ st.coll, (e.2.req = true ↔ ∃ q ∈ req, ∃ f, prepare w L q = .ok (e.1, f) ∧ f.key = e.2.key) :=
  flag_exact hw hreq hns h

/-- the failing class exactly: the requested feature `q` (flagged, standing behind `pre` in the request) ends up represented by an
UNflagged entry iff an unflagged `==` entry of its group is already collected when its turn comes -/
theorem C03.engine_flag_lost_iff (w : World) (fuel : Nat) (L : Option (List Link)) (pre post : List Feat) (q : Feat) (st : St)
    (hq : q.req = true) (h : run w fuel L (pre ++ q :: post) = .ok st) :
    ∃ stp, procAll w fuel (st0 L (pre ++ q :: post)) pre = .ok stp ∧ ∀ g f, prepare w stp.links q = .ok (g, f) →
      ((∃ e ∈ st.coll, e.1 = g ∧ e.2.key = f.key ∧ e.2.req = false) ↔ (∃ e ∈ stp.coll, e.1 = g ∧ e.2.key = f.key ∧ e.2.req = false)) :=
  flag_lost_iff hq (by simp [st0, NoDupKeys]) (run_ok h)

/-- … and such an unflagged, child-less entry is always a filter feature or a linked-index feature made for ANOTHER prepared feature of the group -/
theorem C03.engine_flag_lost_is_aux (w : World) (fuel : Nat) (L : Option (List Link)) (req : List Feat) (st : St) (hw : PlainWorld w)
    (hreq : PlainReq req) (h : run w fuel L req = .ok st) (e : Nat × Feat) (he : e ∈ st.coll) (hr : e.2.req = false) (hc : e.2.key.child = none) :
    ∃ p, Proc w L req e.1 p ∧ p.key ≠ e.2.key ∧
      ((∃ m, FilterMatch w e.1 p.key m ∧ filterKey w e.1 m = e.2.key) ∨ (∃ ix, IndexMatch w L e.1 ix ∧ indexKey w e.1 p.key ix = .ok e.2.key)) :=
  ((run_sound hw (fun q hq => (hreq q hq).1) h).2 e he).aux hw hreq hr hc

/-- F-C03-aux-shadows-request as a closed witness (replayed on the real Engine by `harness/corr/c03_engine.py`, suite `engine_witness`):
groups A{x,k} (index k), B{y,j} (index j), links {inner(A.k, B.j)}: request [x, k] loses the flag of k, request [k, x] keeps it -/
def auxSpec : Spec :=
  { groups := [{ criteria := [[120], [107]], supported := [[120], [107]], dom := 0, cfws := [0], index := some [[[107]]], types := [], inputs := none, orders := [] },
               { criteria := [[121], [106]], supported := [[121], [106]], dom := 0, cfws := [0], index := some [[[106]]], types := [], inputs := none, orders := [] }],
    filters := none, picks := [], scans := [], morders := [] }
def auxLinks : Option (List Link) := some [{ jt := 0, lg := 0, li := [[107]], rg := 1, ri := [[106]] }]

theorem C03.engine_aux_shadows_request_witness :
    names (run (tableWorld auxSpec) 5 auxLinks [rq [120] 0, rq [107] 1]) = .ok [(0, [120], true), (0, [107], false)] ∧
    names (run (tableWorld auxSpec) 5 auxLinks [rq [107] 0, rq [120] 1]) = .ok [(0, [107], true), (0, [120], true)] := by
  decide

/-- the hypothesis of the partial theorems is met by the good order of the witness world and violated by nothing else than the shadowing -/
example : PlainReq [rq [107] 0, rq [120] 1] := by
  intro q hq
  simp only [List.mem_cons, List.mem_nil_iff, or_false] at hq
  rcases hq with rfl | rfl <;> exact ⟨rfl, rfl, rfl⟩

/-! ## order independence -/

/-- the collected SET of (group, key, flag) does not depend on the order of the request list, on the iteration order of the
`input_features` sets / `global_filter.filters`, nor on the iteration orders of the engine's own sets - under `NoShadow` -/
theorem C03.engine_order_independent_partial (w1 w2 : World) (f1 f2 : Nat) (L : Option (List Link)) (req1 req2 : List Feat) (s1 s2 : St)
    (hsame : SameUpToOrder w1 w2) (hperm : req1.Perm req2) (hw : PlainWorld w1) (hreq : PlainReq req1) (hns : NoShadow w1 L req1)
    (h1 : run w1 f1 L req1 = .ok s1) (h2 : run w2 f2 L req2 = .ok s2) (g : Nat) (k : Key) (b : Bool) :
    (∃ e ∈ s1.coll, e.1 = g ∧ e.2.key = k ∧ e.2.req = b) ↔ (∃ e ∈ s2.coll, e.1 = g ∧ e.2.key = k ∧ e.2.req = b) := by
  have hmem : ∀ q, q ∈ req1 ↔ q ∈ req2 := fun q => hperm.mem_iff
  have hreq2 : PlainReq req2 := fun q hq => hreq q ((hmem q).mpr hq)
  rw [coll_char hw hreq hns h1 g k b, coll_char (hsame.plain hw) hreq2 (hsame.noShadow hmem hns) h2 g k b]
  constructor
  · intro ⟨a, c⟩
    exact ⟨hsame.inClosure (fun q => (hmem q).mp) a,
      c.trans ⟨hsame.isReqKey (fun q => (hmem q).mp), hsame.symm.isReqKey (fun q => (hmem q).mpr)⟩⟩
  · intro ⟨a, c⟩
    exact ⟨hsame.symm.inClosure (fun q => (hmem q).mpr) a,
      c.trans ⟨hsame.symm.isReqKey (fun q => (hmem q).mpr), hsame.isReqKey (fun q => (hmem q).mp)⟩⟩

/-- without `NoShadow` the order matters: the two orders of the witness request collect different flagged sets -/
theorem C03.engine_order_dependent_witness :
    [rq [120] 0, rq [107] 1].Perm [rq [107] 1, rq [120] 0] ∧
    (names (run (tableWorld auxSpec) 5 auxLinks [rq [120] 0, rq [107] 1])).map (·.filter (·.2.2)) = .ok [(0, [120], true)] ∧
    (names (run (tableWorld auxSpec) 5 auxLinks [rq [107] 1, rq [120] 0])).map (·.filter (·.2.2)) = .ok [(0, [107], true), (0, [120], true)] := by
  refine ⟨List.Perm.swap _ _ _, by decide, by decide⟩

/-- a link given through a request feature (`Feature(..., link=…)`, `add_feature_link_to_links`) also makes the order matter: groups touched
before the carrying feature get no index feature (F-C03E-feature-link-after-consumer) -/
def rqLink (n : Name) (u : Nat) : Feat := { rq n u with link := some { jt := 0, lg := 0, li := [[107]], rg := 1, ri := [[106]] } }

theorem C03.engine_feature_link_order_witness :
    names (run (tableWorld auxSpec) 5 none [rq [120] 0, rqLink [121] 1]) = .ok [(0, [120], true), (1, [121], true), (1, [106], false)] ∧
    names (run (tableWorld auxSpec) 5 none [rqLink [121] 1, rq [120] 0]) = .ok [(1, [121], true), (1, [106], false), (0, [120], true), (0, [107], false)] := by
  decide

/-! ## auxiliary features -/

/-- an index feature is only collected when a link of `self.links` names that index of that group: with no link for group `g` and no global
filter every entry of `g` is a non-auxiliary one -/
theorem C03.engine_index_feature_only_with_link (w : World) (fuel : Nat) (L : Option (List Link)) (req : List Feat) (st : St) (hw : PlainWorld w)
    (hreq : PlainReq req) (h : run w fuel L req = .ok st) (e : Nat × Feat) (he : e ∈ st.coll) (hnf : w.filters = none) :
    Expanded e.2 ∨ ∃ p ix, Proc w L req e.1 p ∧ IndexMatch w L e.1 ix ∧ indexKey w e.1 p.key ix = .ok e.2.key := by
  by_cases hex : Expanded e.2
  · exact Or.inl hex
  · right
    have hr : e.2.req = false := by
      cases hh : e.2.req with
      | false => rfl
      | true => exact absurd (Or.inl hh) hex
    have hc : e.2.key.child = none := by
      cases hh : e.2.key.child with
      | none => rfl
      | some o => exact absurd (Or.inr (by rw [hh]; simp)) hex
    obtain ⟨p, hp, _, haux⟩ := C03.engine_flag_lost_is_aux w fuel L req st hw hreq h e he hr hc
    rcases haux with ⟨m, ⟨fl, _, hfl, _⟩, _⟩ | ⟨ix, hm, hk⟩
    · rw [hnf] at hfl; simp at hfl
    · exact ⟨p, ix, hp, hm, hk⟩

/-- … in particular without links (`links=None`) and without a global filter nothing auxiliary is collected -/
theorem C03.engine_no_aux_without_links_and_filter (w : World) (fuel : Nat) (req : List Feat) (st : St) (hw : PlainWorld w)
    (hreq : PlainReq req) (h : run w fuel none req = .ok st) (hnf : w.filters = none) : ∀ e ∈ st.coll, Expanded e.2 := by
  intro e he
  rcases C03.engine_index_feature_only_with_link w fuel none req st hw hreq h e he hnf with h1 | ⟨_, _, _, ⟨_, _, _, _, hl, _⟩, _⟩
  · exact h1
  · simp at hl

/-- one filter feature per matching filter: for every non-auxiliary entry and every filter of the global filter that matches it
(`identity_matched_filters`), the filter feature is represented in the entry's group; and conversely (`engine_flag_lost_is_aux`) -/
theorem C03.engine_filter_feature_per_matching_filter (w : World) (fuel : Nat) (L : Option (List Link)) (req : List Feat) (st : St)
    (hw : PlainWorld w) (hnl : ∀ q ∈ req, q.link = none) (h : run w fuel L req = .ok st) (e : Nat × Feat) (he : e ∈ st.coll)
    (hex : Expanded e.2) (fl : List Filt) (flt m : Filt) (hfl : w.filters = some fl) (hflt : flt ∈ fl)
    (hm : matchFilter w e.1 e.2.key flt = .ok (some m)) : inColl st.coll e.1 (filterKey w e.1 m) = true :=
  ((run_complete hw hnl h).2 e he hex).2.1 m ⟨fl, flt, hfl, hflt, hm⟩

/-- what a matched filter feature carries (`unify_options`, `domain`, `compute_framework`): name, data type, type/parameter and
`child_options` of the user's filter feature; a context option of the processed feature stays OUT of the group options and IN the context
(the defect fixed in /repo HEAD), a group option of the processed feature that the filter does not have is taken over as group option;
options the filter feature has itself are kept -/
theorem C03.engine_filter_feature_options (w : World) (g : Nat) (f : Key) (flt m : Filt) (hm : matchFilter w g f flt = .ok (some m))
    (hdis : ∀ k, ohas f.grp k = true → ohas f.ctx k = false) :
    m.key.name = flt.key.name ∧ m.key.dtype = flt.key.dtype ∧ m.tp = flt.tp ∧ m.key.child = flt.key.child ∧
    (∀ k, ohas f.ctx k = true → ohas flt.key.grp k = false → ohas m.key.grp k = false) ∧
    (∀ k v, oget f.ctx k = some v → ohas flt.key.grp k = false → ohas flt.key.ctx k = false → oget m.key.ctx k = some v) ∧
    (∀ k v, oget f.grp k = some v → ohas flt.key.grp k = false → ohas flt.key.ctx k = false → oget m.key.grp k = some v) ∧
    (∀ k v, oget flt.key.grp k = some v → oget m.key.grp k = some v) ∧
    (∀ k v, oget flt.key.ctx k = some v → oget m.key.ctx k = some v) :=
  matchFilter_options hm hdis

/-- … the compute frameworks are the processed feature's unless the filter feature names one itself, the domain is the filter's own, else the
processed feature's, else the group's non-default domain -/
theorem C03.engine_filter_feature_cfw_domain (w : World) (g : Nat) (f : Key) (flt m : Filt) (hm : matchFilter w g f flt = .ok (some m)) :
    (cfwSet flt.key.cfw = false → m.key.cfw = f.cfw) ∧ (cfwSet flt.key.cfw = true → m.key.cfw = flt.key.cfw) ∧
    (∀ d, flt.key.dom = some d → m.key.dom = some d) ∧
    (flt.key.dom = none → ∀ d, f.dom = some d → m.key.dom = some d) ∧
    (flt.key.dom = none → f.dom = none → m.key.dom = if w.groupDom g ≠ defaultDom then some (w.groupDom g) else none) :=
  matchFilter_cfw_domain hm

/-- `GlobalFilter.domain` raises (instead of answering "no match") exactly when the filter feature has a domain, the processed feature has none
and the group's domain is another one (F-C03E-filter-domain-compare-raises) -/
theorem C03.engine_filter_domain_raises_iff (fdom featDom : Option Nat) (gd : Nat) :
    filterDomain fdom featDom gd = .error .domainFilter ↔ ∃ d, fdom = some d ∧ featDom = none ∧ gd ≠ d := by
  unfold filterDomain
  cases fdom with
  | none => cases featDom <;> simp <;> split <;> simp
  | some fd =>
    cases featDom with
    | none => by_cases hg : gd = fd <;> simp [hg]
    | some d => simp

/-- closed witness (replayed through the end-to-end suite): one root group {a, b} with the default domain, a filter on `Feature("a", domain=1)`,
request [b] -/
def fdomSpec : Spec :=
  { groups := [{ criteria := [[97], [98]], supported := [[97], [98]], dom := 0, cfws := [0], index := none, types := [], inputs := none, orders := [] }],
    filters := some [{ key := { name := [97], grp := [], ctx := [], dom := some 1, cfw := none, dtype := none, child := none }, tp := 0 }],
    picks := [], scans := [], morders := [] }

theorem C03.engine_filter_domain_raises_witness : run (tableWorld fdomSpec) 5 none [rq [98] 0] = .error .domainFilter := by decide

/-- the index feature (`create_index_feature`): first column of the index as name (then `set_feature_name`), the processed feature's options,
context and domain, ONE compute framework (`next(iter(frameworks))`), no data type, no `child_options`, not flagged -/
theorem C03.engine_index_feature_fields (w : World) (g : Nat) (f xf : Feat) (ix : List Name) (u : Nat) (h : indexFeat w g f ix u = .ok xf) :
    xf.key.grp = f.key.grp ∧ xf.key.ctx = f.key.ctx ∧ xf.key.dom = f.key.dom ∧ xf.key.cfw = some [getCfw w f.key.cfw] ∧ xf.key.dtype = none ∧
    xf.key.child = none ∧ xf.req = false ∧ xf.link = none ∧ xf.uuid = u := by
  unfold indexFeat at h
  cases ix with
  | nil => simp at h
  | cons n rest =>
    simp only [Except.ok.injEq] at h
    subst h
    exact ⟨rfl, rfl, rfl, rfl, rfl, rfl, rfl, rfl, rfl⟩

/-! ## iteration order of the engine's own sets -/

/-- F-C03E-domain-mix-scan-raises: group R (domain 1) offers `a`; c1 <- {a}, c2 <- {a with domain 1}, c3 <- {a}.  When the third dependency
arrives the engine walks R's set {a (no domain), a (domain 1)} looking for the `==` entry: in insertion order it finds it first, in the other
order `Feature.__eq__` compares a domain with `None` first and raises -/
def dmixTm (d : Option Nat) : TSpec :=
  { feat := { key := { name := [97], grp := [], ctx := [], dom := d, cfw := none, dtype := none, child := none }, req := false, uuid := 0, link := none },
    pass := false }
def dmixDer (n : Name) (d : Option Nat) : GSpec :=
  { criteria := [n], supported := [n], dom := 0, cfws := [0], index := none, types := [], inputs := some [(n, [dmixTm d])], orders := [] }
def dmixSpec (scans : List (List Nat)) : Spec :=
  { groups := [{ criteria := [[97]], supported := [[97]], dom := 1, cfws := [0], index := none, types := [], inputs := none, orders := [] },
               dmixDer [99, 49] none, dmixDer [99, 50] (some 1), dmixDer [99, 51] none],
    filters := none, picks := [], scans := scans, morders := [] }

theorem C03.engine_scan_order_dependent_witness :
    (run (tableWorld (dmixSpec [[0, 1]])) 6 none [rq [99, 49] 0, rq [99, 50] 1, rq [99, 51] 2]).toOption.isSome = true ∧
    run (tableWorld (dmixSpec [[1, 0]])) 6 none [rq [99, 49] 0, rq [99, 50] 1, rq [99, 51] 2] = .error .domainScan := by
  decide

/-! ## recursion depth -/

/-- more fuel never changes a successful collection -/
theorem C03.engine_fuel_mono (w : World) (fuel : Nat) (L : Option (List Link)) (req : List Feat) (st : St)
    (h : run w fuel L req = .ok st) (extra : Nat) : run w (fuel + extra) L req = .ok st := run_fuel_mono h extra

/-- ENOUGH FUEL: when some rank of the prepared features goes down along `input_features` (an acyclic world of finite depth), `rank + 2` levels of
recursion are enough - the run ends in a collection or in one of the engine's ValueErrors, never in `Err.fuel` -/
theorem C03.engine_enough_fuel (w : World) (rank : Key → Nat) (hres : ∀ L k, w.resolve L k ≠ .error .fuel)
    (hrank : ∀ L g p ts t u t' g' f', w.inputs g p = some ts → t ∈ ts → mkInput p t u = .ok t' → prepare w L t' = .ok (g', f') →
      rank f'.key < rank p)
    (n : Nat) (L : Option (List Link)) (req : List Feat) (hreq : ∀ q ∈ req, ∀ L' g f, prepare w L' q = .ok (g, f) → rank f.key < n) :
    run w (n + 1) L req ≠ .error .fuel := run_enough_fuel rank hres hrank n L req hreq

/-- a group whose input features never repeat (`input_features(name) = {Feature(name + "q")}`) exhausts every recursion budget: the real
engine ends in RecursionError (replayed by the harness, suite `engine_witness`) -/
theorem C03.engine_unbounded_chain_exhausts_fuel (fuel : Nat) : run chainWorld fuel none chainRequest = .error .fuel :=
  chain_exhausts fuel

/-- a SELF-dependent feature (z <- {z}) does not recurse without bound: the second `z` dependency is `==` to the first, is not collected again,
and the engine leaves the self-loop `z -> z` in `feature_link_parents` to the graph stage (which then fails, C01_graph) -/
def selfSpec : Spec :=
  { groups := [{ criteria := [[122]], supported := [[122]], dom := 0, cfws := [0], index := none, types := [],
                 inputs := some [([122], [{ feat := { key := { name := [122], grp := [], ctx := [], dom := none, cfw := none, dtype := none, child := none },
                                                      req := false, uuid := 0, link := none }, pass := false }])], orders := [] }],
    filters := none, picks := [], scans := [], morders := [] }

theorem C03.engine_self_dependency_terminates_witness :
    (run (tableWorld selfSpec) 4 none [rq [122] 0]).map (fun st => (st.coll.map (fun e => (e.2.uuid, e.2.key.child.isSome)), st.flp)) =
      .ok ([(0, false), (1, true)], [(0, [1]), (1, [1])]) := by
  decide

/-! ## uuids, `feature_link_parents`, the graph handed to the planner (`Graph.buildGraph`, Model/Graph.lean) -/

/-- the collected features carry pairwise different uuids (given that the requested features do), and `feature_link_parents` has exactly the
collected uuids as keys -/
theorem C03.engine_uuids_distinct (w : World) (fuel : Nat) (L : Option (List Link)) (req : List Feat) (st : St) (hw : PlainWorld w)
    (hnl : ∀ q ∈ req, q.link = none) (hnd : (req.map (·.uuid)).Nodup) (h : run w fuel L req = .ok st) :
    (st.coll.map (fun e => e.2.uuid)).Nodup ∧ (Graph.dkeys st.flp).Nodup ∧ ∀ k, k ∈ Graph.dkeys st.flp ↔ ∃ e ∈ st.coll, e.2.uuid = k := by
  have hU := (run_runU hw hnl hnd h).uinv
  exact ⟨hU.nodup, hU.kn, fun k => (hU.keys k).trans mem_uuids⟩

/-- the nodes of the graph are exactly the uuids of the collected features (no dangling parent: `BuildGraph.property_mapping[parent]` exists) -/
theorem C03.engine_graph_nodes_exact (w : World) (fuel : Nat) (L : Option (List Link)) (req : List Feat) (st : St) (hw : PlainWorld w)
    (hnl : ∀ q ∈ req, q.link = none) (hnd : (req.map (·.uuid)).Nodup) (h : run w fuel L req = .ok st) (n : Nat) :
    n ∈ (graphOf st).nodes ↔ ∃ e ∈ st.coll, e.2.uuid = n := by
  have hR := run_runU hw hnl hnd h
  have hU := hR.uinv
  rw [nodes_graphOf]
  constructor
  · intro ⟨e, he, hn⟩
    have hk : e.1 ∈ Graph.dkeys st.flp := List.mem_map.mpr ⟨e, he, rfl⟩
    rcases hn with hn | hn
    · rw [hn]; exact mem_uuids.mp ((hU.keys _).mp hk)
    · have hv : Graph.dget st.flp e.1 = e.2 := Graph.dget_of_mem hU.kn (by cases e; exact he)
      obtain ⟨ek, hek, hku⟩ := mem_uuids.mp ((hU.keys _).mp hk)
      have hok := hR.fresh e.1 (by simp [st0, Graph.dkeys]) hk ek hek hku
      obtain ⟨_, _, _, _, g, f3, _, _, _, _, ep, hep, _, hpu, _⟩ := hok.1 n (by rw [hv]; exact hn)
      exact ⟨ep, hep, hpu⟩
  · intro ⟨e, he, hu⟩
    have hk : n ∈ Graph.dkeys st.flp := (hU.keys n).mpr (mem_uuids.mpr ⟨e, he, hu⟩)
    exact ⟨(n, Graph.dget st.flp n), mem_flp_of_key hk, Or.inl rfl⟩

/-- SOUND: an edge parent -> child of the graph means: the child is a collected feature, and the parent is the collected representative of
one of the child's input features - or of a filter / linked-index feature made for one of those input features -/
theorem C03.engine_edges_sound (w : World) (fuel : Nat) (L : Option (List Link)) (req : List Feat) (st : St) (hw : PlainWorld w)
    (hnl : ∀ q ∈ req, q.link = none) (hnd : (req.map (·.uuid)).Nodup) (h : run w fuel L req = .ok st) (p c : Nat)
    (hedge : c ∈ Graph.children (graphOf st) p) :
    ∃ ec ∈ st.coll, ec.2.uuid = c ∧ ∃ ts t n t' g f3, w.inputs ec.1 ec.2.key = some ts ∧ t ∈ ts ∧ mkInput ec.2.key t n = .ok t' ∧
      prepare w L t' = .ok (g, f3) ∧
      ∃ ep ∈ st.coll, ep.1 = g ∧ ep.2.uuid = p ∧ (ep.2.key = f3.key ∨ AuxKeyOf w L g f3.key ep.2.key) := by
  have hR := run_runU hw hnl hnd h
  have hU := hR.uinv
  rw [children_graphOf hU.kn] at hedge
  have hk : c ∈ Graph.dkeys st.flp := Graph.mem_dkeys_of_mem_dget hedge
  obtain ⟨ec, hec, hcu⟩ := mem_uuids.mp ((hU.keys c).mp hk)
  have hok := hR.fresh c (by simp [st0, Graph.dkeys]) hk ec hec hcu
  obtain ⟨ts, t, n, t', g, f3, h1, h2, h3, h4, h5⟩ := hok.1 p hedge
  exact ⟨ec, hec, hcu, ts, t, n, t', g, f3, h1, h2, h3, h4, h5⟩

/-- COMPLETE: for every non-auxiliary collected feature and every input feature of it, the collected representative of that input feature
(the surviving `==` entry of its group) is a parent: the graph has the edge representative -> feature -/
theorem C03.engine_edges_complete (w : World) (fuel : Nat) (L : Option (List Link)) (req : List Feat) (st : St) (hw : PlainWorld w)
    (hnl : ∀ q ∈ req, q.link = none) (hnd : (req.map (·.uuid)).Nodup) (h : run w fuel L req = .ok st) (ec : Nat × Feat) (hec : ec ∈ st.coll)
    (hex : Expanded ec.2) (ts : List Feat) (t t' : Feat) (n g : Nat) (f3 : Feat) (hin : w.inputs ec.1 ec.2.key = some ts) (ht : t ∈ ts)
    (hmk : mkInput ec.2.key t n = .ok t') (hp : prepare w L t' = .ok (g, f3)) :
    ∃ ep ∈ st.coll, ep.1 = g ∧ ep.2.key = f3.key ∧ ec.2.uuid ∈ Graph.children (graphOf st) ep.2.uuid := by
  have hR := run_runU hw hnl hnd h
  have hU := hR.uinv
  have hk : ec.2.uuid ∈ Graph.dkeys st.flp := (hU.keys _).mpr (mem_uuids.mpr ⟨ec, hec, rfl⟩)
  have hok := hR.fresh ec.2.uuid (by simp [st0, Graph.dkeys]) hk ec hec rfl
  obtain ⟨ep, hep, h1, h2, h3⟩ := hok.2 hex ts t n t' g f3 hin ht hmk hp
  exact ⟨ep, hep, h1, h2, (children_graphOf hU.kn _ _).mpr h3⟩

/-- EXACT without auxiliary features (no global filter, `links=None`): parent -> child is an edge iff the parent is the collected
representative of an input feature of the child -/
theorem C03.engine_edges_exact_partial (w : World) (fuel : Nat) (req : List Feat) (st : St) (hw : PlainWorld w) (hreq : PlainReq req)
    (hnd : (req.map (·.uuid)).Nodup) (hnf : w.filters = none) (h : run w fuel none req = .ok st) (ep ec : Nat × Feat)
    (hep : ep ∈ st.coll) (hec : ec ∈ st.coll) :
    ec.2.uuid ∈ Graph.children (graphOf st) ep.2.uuid ↔
      ∃ ts t n t' f3, w.inputs ec.1 ec.2.key = some ts ∧ t ∈ ts ∧ mkInput ec.2.key t n = .ok t' ∧ prepare w none t' = .ok (ep.1, f3) ∧ f3.key = ep.2.key := by
  have hnl : ∀ q ∈ req, q.link = none := fun q hq => (hreq q hq).1
  have hU := (run_runU hw hnl hnd h).uinv
  constructor
  · intro hedge
    obtain ⟨ec', hec', hcu, ts, t, n, t', g, f3, h1, h2, h3, h4, ep', hep', hg, hpu, hk⟩ :=
      C03.engine_edges_sound w fuel none req st hw hnl hnd h _ _ hedge
    have e1 : ec' = ec := entry_unique hU.nodup hec' hec hcu
    have e2 : ep' = ep := entry_unique hU.nodup hep' hep hpu
    subst e1; subst e2
    rcases hk with hk | hk
    · exact ⟨ts, t, n, t', f3, h1, h2, h3, by rw [hg]; exact h4, hk.symm⟩
    · rcases hk with ⟨m, ⟨fl, _, hfl, _⟩, _⟩ | ⟨ix, ⟨_, _, _, _, hl, _⟩, _⟩
      · rw [hnf] at hfl; simp at hfl
      · simp at hl
  · intro ⟨ts, t, n, t', f3, h1, h2, h3, h4, hk⟩
    have hex := C03.engine_no_aux_without_links_and_filter w fuel req st hw hreq h hnf ec hec
    obtain ⟨ep', hep', hg, hk', hedge⟩ := C03.engine_edges_complete w fuel none req st hw hnl hnd h ec hec hex ts t t' n ep.1 f3 h1 h2 h3 h4
    have : ep' = ep := (run_nodup h).unique hep' hep hg (by rw [hk', hk])
    rw [← this]; exact hedge

/-- the statement "edge iff input feature" is false with a global filter: z <- {a, b} (both of one root group), filter on `a`: when `b` is
processed the filter feature `a` is met a second time under the child `z`, and `z` gets the unflagged filter feature as a third parent -/
def auxEdgeSpec : Spec :=
  { groups := [{ criteria := [[97], [98]], supported := [[97], [98]], dom := 0, cfws := [0], index := none, types := [], inputs := none, orders := [] },
               { criteria := [[122]], supported := [[122]], dom := 0, cfws := [0], index := none, types := [],
                 inputs := some [([122], [{ feat := { key := { name := [97], grp := [], ctx := [], dom := none, cfw := none, dtype := none, child := none },
                                                      req := false, uuid := 0, link := none }, pass := false },
                                          { feat := { key := { name := [98], grp := [], ctx := [], dom := none, cfw := none, dtype := none, child := none },
                                                      req := false, uuid := 0, link := none }, pass := false }])], orders := [] }],
    filters := some [{ key := { name := [97], grp := [], ctx := [], dom := none, cfw := none, dtype := none, child := none }, tp := 0 }],
    picks := [], scans := [], morders := [] }

theorem C03.engine_aux_edge_witness :
    (run (tableWorld auxEdgeSpec) 5 none [rq [122] 0]).map (fun st =>
      (st.coll.map (fun e => (e.2.uuid, e.2.key.name, e.2.key.child.isSome)), (graphOf st).edges)) =
    .ok ([(0, [122], false), (1, [97], true), (3, [97], false), (2, [98], true)], [(1, 0), (2, 0), (3, 0)]) := by
  decide

/-- non-vacuity of the edge theorems: the diamond w <- {z, a}, z <- {a, b}: `a` is reached by two routes and collected once; 4 edges -/
def diamondSpec : Spec :=
  let tm (n : Name) : TSpec := { feat := { key := { name := n, grp := [], ctx := [], dom := none, cfw := none, dtype := none, child := none },
                                           req := false, uuid := 0, link := none }, pass := false }
  { groups := [{ criteria := [[97], [98]], supported := [[97], [98]], dom := 0, cfws := [0], index := none, types := [], inputs := none, orders := [] },
               { criteria := [[122], [119]], supported := [[122], [119]], dom := 0, cfws := [0], index := none, types := [],
                 inputs := some [([122], [tm [97], tm [98]]), ([119], [tm [122], tm [97]])], orders := [] }],
    filters := none, picks := [], scans := [], morders := [] }

example : (run (tableWorld diamondSpec) 6 none [rq [119] 0]).map (fun st =>
      (st.coll.map (fun e => (e.2.uuid, e.2.key.name)), st.flp)) =
    .ok ([(0, [119]), (1, [122]), (3, [97]), (4, [98])], [(0, [1, 3]), (1, [3, 4]), (3, []), (4, [])]) := by
  decide

/-! ## non-vacuity: concrete worlds meet the hypotheses of the theorems above -/

/-- `PlainWorld` for the worlds of the witnesses (a decidable condition on the spec) -/

example : PlainWorld (tableWorld auxSpec) := tableWorld_plain (by decide)
example : PlainWorld (tableWorld shadowSpec) := tableWorld_plain (by decide)
example : PlainWorld (tableWorld diamondSpec) := tableWorld_plain (by decide)
example : NoShadow (tableWorld diamondSpec) none [rq [119] 0] := noShadow_of_no_aux rfl

theorem C03.engine_example_prepare_x : prepare (tableWorld auxSpec) auxLinks (rq [120] 0) = .ok (0, { rq [120] 0 with key := { (rq [120] 0).key with cfw := some [0] } }) := by decide
theorem C03.engine_example_prepare_y : prepare (tableWorld auxSpec) auxLinks (rq [121] 1) = .ok (1, { rq [121] 1 with key := { (rq [121] 1).key with cfw := some [0] } }) := by decide

example : NoShadow (tableWorld auxSpec) auxLinks [rq [120] 0, rq [121] 1] := by
  intro q hq g f hp p _ _
  refine ⟨?_, ?_⟩
  · intro m ⟨fl, _, hfl, _⟩
    simp [tableWorld, auxSpec] at hfl
  · intro ix xk ⟨ixs, ls, l, hix, _, hmem, _⟩ hk
    have hfn : f.key.name = [120] ∨ f.key.name = [121] := by
      simp only [List.mem_cons, List.mem_nil_iff, or_false] at hq
      rcases hq with rfl | rfl
      · rw [C03.engine_example_prepare_x] at hp
        simp only [Except.ok.injEq, Prod.mk.injEq] at hp
        left; rw [← hp.2]; rfl
      · rw [C03.engine_example_prepare_y] at hp
        simp only [Except.ok.injEq, Prod.mk.injEq] at hp
        right; rw [← hp.2]; rfl
    have hxn : xk.name = [107] ∨ xk.name = [106] := by
      match g with
      | 0 =>
        have : ixs = [[[107]]] := by simpa [tableWorld, gspec, auxSpec] using hix.symm
        subst this
        simp only [List.mem_singleton] at hmem
        subst hmem
        simp only [indexKey, Except.ok.injEq] at hk
        left; rw [← hk]; rfl
      | 1 =>
        have : ixs = [[[106]]] := by simpa [tableWorld, gspec, auxSpec] using hix.symm
        subst this
        simp only [List.mem_singleton] at hmem
        subst hmem
        simp only [indexKey, Except.ok.injEq] at hk
        right; rw [← hk]; rfl
      | n + 2 =>
        simp [tableWorld, gspec, auxSpec] at hix
    intro heq
    rw [heq] at hxn
    rcases hfn with h1 | h1 <;> rcases hxn with h2 | h2 <;> rw [h1] at h2 <;> simp at h2

/-- `PlainReq` and distinct uuids of a concrete request; the exactness theorems then apply to the diamond world (closure, flags, edges) -/
example : PlainReq [rq [119] 0] ∧ ([rq [119] 0].map (·.uuid)).Nodup := by
  refine ⟨?_, by decide⟩
  intro q hq
  simp only [List.mem_singleton] at hq
  subst hq
  exact ⟨rfl, rfl, rfl⟩

example (st : St) (h : run (tableWorld diamondSpec) 6 none [rq [119] 0] = .ok st) (e : Nat × Feat) (he : e ∈ st.coll) :
    (e.2.req = true ↔ ∃ q ∈ [rq [119] 0], ∃ f, prepare (tableWorld diamondSpec) none q = .ok (e.1, f) ∧ f.key = e.2.key) :=
  C03.engine_requested_flag_exact_partial _ 6 none _ st (tableWorld_plain (by decide))
    (by intro q hq; simp only [List.mem_singleton] at hq; subst hq; exact ⟨rfl, rfl, rfl⟩) (noShadow_of_no_aux rfl) h e he

/-- non-vacuity of `C03.engine_enough_fuel`: in the diamond world the rank "w ↦ 2, z ↦ 1, everything else ↦ 0" goes down along `input_features` -/
def drank (k : Key) : Nat := if Select.baseName k.name = [119] then 2 else if Select.baseName k.name = [122] then 1 else 0


example : ∀ (L : Option (List Link)) g p ts t u t' g' f', (tableWorld diamondSpec).inputs g p = some ts → t ∈ ts → mkInput p t u = .ok t' →
    prepare (tableWorld diamondSpec) L t' = .ok (g', f') → drank f'.key < drank p := by
  intro L g p ts t u t' g' f' hin ht hmk hp
  have hn' : t'.key.name = t.key.name := (mkInput_fields hmk).2.2.2.2
  match g with
  | 0 => simp [tableWorld, inputsOf, gspec, diamondSpec] at hin
  | n + 2 => simp [tableWorld, inputsOf, gspec, diamondSpec] at hin
  | 1 =>
    by_cases hz : Select.baseName p.name = [122]
    · have hts : ∀ x ∈ ts, x.key.name = [97] ∨ x.key.name = [98] := by
        simp [tableWorld, inputsOf, gspec, diamondSpec, hz] at hin
        subst hin
        intro x hx
        simp at hx
        rcases hx with rfl | rfl <;> simp
      have hp1 : drank p = 1 := by simp [drank, hz]
      have hb : Select.baseName t'.key.name = t'.key.name := by
        rw [hn']; rcases hts t ht with h | h <;> rw [h] <;> decide
      have hf : drank f'.key = 0 := by
        unfold drank
        rw [tw_name_plain _ hp hb, hn']
        rcases hts t ht with h | h <;> rw [h] <;> decide
      omega
    · by_cases hw : Select.baseName p.name = [119]
      · have hts : ∀ x ∈ ts, x.key.name = [122] ∨ x.key.name = [97] := by
          simp [tableWorld, inputsOf, gspec, diamondSpec, hw] at hin
          subst hin
          intro x hx
          simp at hx
          rcases hx with rfl | rfl <;> simp
        have hp1 : drank p = 2 := by simp [drank, hw]
        have hb : Select.baseName t'.key.name = t'.key.name := by
          rw [hn']; rcases hts t ht with h | h <;> rw [h] <;> decide
        have hf : drank f'.key ≤ 1 := by
          unfold drank
          rw [tw_name_plain _ hp hb, hn']
          rcases hts t ht with h | h <;> rw [h] <;> decide
        omega
      · have hz' : (([122] : List Nat) == Select.baseName p.name) = false := by
          rw [beq_eq_false_iff_ne]; exact fun h => hz h.symm
        have hw' : (([119] : List Nat) == Select.baseName p.name) = false := by
          rw [beq_eq_false_iff_ne]; exact fun h => hw h.symm
        simp [tableWorld, inputsOf, gspec, diamondSpec, List.find?, hz', hw'] at hin
