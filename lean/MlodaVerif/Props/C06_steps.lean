import MlodaVerif.Lemmas.StepRefine
import MlodaVerif.Lemmas.StepSerial
import MlodaVerif.Lemmas.StepParam
import MlodaVerif.Lemmas.StepInplace
import MlodaVerif.Lemmas.StepMp
import MlodaVerif.Props.C06
/-! # C06, extension `steps`: what a step reads and writes, statement by statement

`Model/StepExec.lean` models `FeatureGroupStep.execute` / `ComputeFramework.run_calculation`, `TransformFrameworkStep.execute`
and `JoinStep.execute` as programs of micro-steps, one per read or write of `cfw.data` / `from_cfw.data` (plus the group's
`calculate_feature`, which may change the table object in place), on compute-framework objects that hold *references* to
table objects.  A schedule is a list of step ids; every entry lets that step execute its next micro-step.  SYNC runs every
step back to back, THREADING allows every interleaving the orchestrator's `required_uuids` permit.

The theorems: (1) the begin/finish protocol of `Exec` (C01/C02/C06) is what the statements do when a step is not
interrupted, so every SYNC run is an `Exec` run and returns the reference values; (2) steps that share no object commute,
hence schedules that keep steps sharing an object apart all give the SYNC state; (3) which columns exist never depends on
the values, and for two new-table siblings the lost update happens *exactly* when one step reads before and writes after the
other's write (all 924 interleavings, all tables); (4) groups that extend the table they are handed in place never lose a
column however they interleave; (5) the count-based upload test of `run_calculation` against the subset test of the drop
protocol; (6) which executor runs a step. -/
open Sched Exec StepExec

variable {V : Type}

/-! ## 1. the statements of an uninterrupted step are `Exec`'s begin / finish -/

/-- one feature-group step, its six micro-steps run back to back on the shared object: the object ends up holding a new table
object whose content is what `Exec` writes at `finish` for the snapshot taken at `begin` - the table the object held when the
step started, extended by the step's columns computed from that very table -/
theorem C06.steps_step_is_begin_finish (cfg : Cfg V) (p : Plan) (i : Nat) (st : Step) (hp : p[i]? = some st)
    (σ : MSt V) (o : Obj V) (ho : σ.objs = [o]) (hl : σ.locs[i]? = some {}) (hv : Valid o o.data) :
    dataOf (mrun (descsOf cfg p) σ (List.replicate 6 i)) 0 = some (written cfg ((tableAt o o.data).getD []) st.outs) := by
  have h6 : List.replicate 6 i = List.replicate 2 i ++ List.replicate 4 i := by simp [List.replicate]
  have hb := begin_block cfg p σ i st o hp hl ho hv
  have hlt : i < σ.locs.length := by
    rcases Nat.lt_or_ge i σ.locs.length with h | h
    · exact h
    · rw [List.getElem?_eq_none h] at hl; cases hl
  rw [h6]
  unfold mrun
  rw [List.foldl_append]
  have hb' : List.foldl (mstep (descsOf cfg p)) σ (List.replicate 2 i) = { objs := [o], locs := σ.locs.set i (beginLoc o) } := hb
  rw [hb']
  obtain ⟨l', hf⟩ := finish_block cfg p { objs := [o], locs := σ.locs.set i (beginLoc o) } i st o (beginLoc o) hp
    (by simp [List.getElem?_set_self hlt]) rfl rfl rfl
  have hf' : List.foldl (mstep (descsOf cfg p)) { objs := [o], locs := σ.locs.set i (beginLoc o) } (List.replicate 4 i) = _ := hf
  rw [hf']
  simp [dataOf, finishObj, tableAt, storeNew, beginLoc]

/-- **refinement**: run the statement-level model of a plan along any list of orchestrator / worker events (`begin i` = the
statements of step i up to the read of `self.data`, `finish i` = the rest), serialised (`atomic = true`: SYNC,
MULTIPROCESSING) or not (THREADING at the granularity of these two blocks).  At every moment the shared object holds exactly
`Exec`'s store and the scheduler state is `Exec`'s: `Exec`'s begin / finish protocol is what the code does. -/
theorem C06.steps_refines_exec (cfg : Cfg V) (p : Plan) (hd : DisjointOuts p) (atomic : Bool) (fw : Fw) (evs : List Ev) :
    absStore (xrun cfg atomic p (xinit fw p) evs).m = (erun cfg atomic p einit evs).store ∧
    (xrun cfg atomic p (xinit fw p) evs).s = (erun cfg atomic p einit evs).s := by
  have h := xinv_run hd atomic fw evs (cfg := cfg)
  obtain ⟨o, ho, _, hst, _⟩ := h.obj
  refine ⟨?_, h.s_eq⟩
  simp [absStore, dataOf, ho, hst]

/-- hence every serialised statement-level run that returns holds, for every uuid of the plan, its reference value
(composition with `C06.result_is_reference`) -/
theorem C06.steps_sync_result_is_reference (cfg : Cfg V) (ref : Nat → V) (p : Plan) (hd : DisjointOuts p) (hne : NonemptyOuts p)
    (hpc : ParentsCovered p cfg.parents) (href : IsRef cfg ref) (fw : Fw) (evs : List Ev)
    (hret : (xrun cfg true p (xinit fw p) evs).s.returned = true) :
    ∀ c ∈ allOuts p, lookup (absStore (xrun cfg true p (xinit fw p) evs).m) c = some (ref c) := by
  obtain ⟨h1, h2⟩ := C06.steps_refines_exec cfg p hd true fw evs
  rw [h2] at hret
  rw [h1]
  exact C06.result_is_reference cfg ref p hd hne hpc href evs hret

-- non-vacuity: the diamond of `C06.thread_lost_update_witness`, its SYNC event list, on a pandas object
example :
    let cfg : Cfg Nat := { parents := fun c => if c = 11 then [10] else if c = 12 then [10] else if c = 13 then [11, 12] else [],
                           compute := fun c vs => if c = 10 then 5 else if c = 11 then (vs.headD none).getD 0 + 1
                                        else if c = 12 then (vs.headD none).getD 0 * 2
                                        else ((vs.headD none).getD 0) + ((vs.getD 1 none).getD 0) }
    let p : Plan := [{ outs := [10], req := [] }, { outs := [11], req := [10] }, { outs := [12], req := [10] },
                     { outs := [13], req := [11, 12] }]
    let evs := [Ev.loopHead, .scan 0, .begin 0, .finish 0, .loopHead, .scan 0, .scan 1, .begin 1, .finish 1, .scan 2, .begin 2,
                .finish 2, .loopHead, .scan 1, .scan 2, .scan 3, .begin 3, .finish 3, .loopHead, .scan 3, .loopHead]
    (xrun cfg true p (xinit .pandas p) evs).s.returned = true ∧
    lookup (absStore (xrun cfg true p (xinit .pandas p) evs).m) 13 = some 16 := by
  decide +kernel

/-! ## 2. steps that share no object do not interfere -/

/-- micro-steps of two different steps commute unless one of the steps writes an object the other reads or writes -/
theorem C06.steps_independent_commute (ds : List (Desc V)) (σ : MSt V) (i j : Nat) (hij : i ≠ j) (hs : shares ds i j = false) :
    mstep ds (mstep ds σ i) j = mstep ds (mstep ds σ j) i :=
  mstep_comm ds σ i j (by simp [dep, hij, hs])

/-- **no interference**: two schedules with the same number of micro-steps per step in which every pair of different steps
that share an object is kept apart (all micro-steps of one before all micro-steps of the other, in the same order in both
schedules) end in the same state - objects, table objects, registers, everything.  Steps that share no object may be
interleaved arbitrarily.  (MULTIPROCESSING: the per-object FIFO queue keeps the steps of one object apart by construction.) -/
theorem C06.steps_serialised_no_interference (ds : List (Desc V)) (σ : MSt V) (l₁ l₂ : List Nat)
    (hcount : ∀ i, l₁.count i = l₂.count i)
    (hord : ∀ i j, i ≠ j → shares ds i j = true → (Before l₁ i j ∧ Before l₂ i j) ∨ (Before l₁ j i ∧ Before l₂ j i)) :
    mrun ds σ l₁ = mrun ds σ l₂ :=
  mrun_eq_of_ordered ds σ l₁ l₂ hcount hord

/-- plan-level version.  `before i j` = the orchestrator starts j only after i has ended (`required_uuids`, transitively).  If
every two steps that share an object are ordered by `before` (decidable on the exported plan), then all schedules that respect
`before` - every THREADING interleaving the orchestrator permits - lead to the same state. -/
theorem C06.steps_plan_serial_schedule_independent (ds : List (Desc V)) (before : Nat → Nat → Bool) (σ : MSt V)
    (hplan : ∀ i j, i ≠ j → shares ds i j = true → before i j = true ∨ before j i = true)
    (l₁ l₂ : List Nat) (hcount : ∀ i, l₁.count i = l₂.count i)
    (h₁ : ∀ i j, before i j = true → Before l₁ i j) (h₂ : ∀ i j, before i j = true → Before l₂ i j) :
    mrun ds σ l₁ = mrun ds σ l₂ := by
  apply mrun_eq_of_ordered ds σ l₁ l₂ hcount
  intro i j hij hs
  rcases hplan i j hij hs with h | h
  · exact Or.inl ⟨h₁ i j h, h₂ i j h⟩
  · exact Or.inr ⟨h₁ j i h, h₂ j i h⟩

/-- the SYNC schedule (every step back to back, in an order in which `before`-earlier steps come first) is one of them: the
common state of the theorem above is the SYNC state -/
theorem C06.steps_sync_schedule_respects (n : Nat → Nat) (order : List Nat) (hnd : order.Nodup) (before : Nat → Nat → Bool)
    (hirr : ∀ i, before i i = false)
    (htopo : ∀ i j, before i j = true → ∀ a b, order = a ++ j :: b → i ∉ b) :
    ∀ i j, before i j = true → Before (serial n order) i j := by
  intro i j hb
  have hij : i ≠ j := by intro e; subst e; rw [hirr] at hb; cases hb
  exact before_serial n order hnd i j hij (htopo i j hb)

-- non-vacuity: root (object 0), two siblings on object 0, a transform step 0 → 1 and a consumer on object 1; the two
-- siblings share object 0 and are NOT ordered: the plan-level hypothesis fails for them (this is the lost-update plan) ...
example :
    let ds : List (Desc Nat) := [{ obj := 0, src := 0 }, { obj := 0, src := 0 }, { obj := 0, src := 0 },
                                 { kind := .tfs, obj := 1, src := 0 }, { obj := 1, src := 1 }]
    shares ds 1 2 = true ∧ shares ds 1 4 = false ∧ shares ds 3 1 = true := by decide
-- ... while a schedule that keeps them apart and interleaves the consumer on object 1 with nothing else satisfies `Before`
example : Before [1, 1, 1, 2, 2, 2] 1 2 ∧ ¬ Before [1, 2, 1, 2, 1, 2] 1 2 ∧ Before (serial (fun _ => 3) [1, 2]) 1 2 := by decide

/-! ## 3. the lost update, exactly -/

/-- **which columns exist where never depends on the values**: mapping every value through `g` commutes with every run,
provided the steps' parameter functions commute with `g`.  With `W = Unit`: the columns of every table after any schedule
are those of the value-free run of the same machine. -/
theorem C06.steps_cols_value_independent {W : Type} (g : V → W) (ds : List (Desc V)) (ds' : List (Desc W)) (h : DsRel g ds ds')
    (σ : MSt V) (l : List Nat) (o : Nat) :
    dataOf (mrun ds' (smap g σ) l) o = (dataOf (mrun ds σ l) o).map (tmap g) := by
  rw [mrun_map h, dataOf_map]

/-- two new-table feature-group steps (value-free instance) on an object holding a table with column 0 -/
def C06.uA : Desc Unit := { obj := 0, src := 0, style := .fresh, outs := [1], fn := fun _ => some [(1, ())] }
def C06.uB : Desc Unit := { obj := 0, src := 0, style := .fresh, outs := [2], fn := fun _ => some [(2, ())] }
def C06.u0 (fw : Fw) : MSt Unit := { objs := [{ fw := fw, cells := [[(0, ())]], data := .ref 0 }], locs := [{}, {}] }

/-- the lost-update pattern: A's read (its 2nd micro-step) before B's write (B's 4th), A's write (its 4th) after it -/
def C06.lostPattern (l : List Nat) : Bool :=
  decide (posOf l 0 2 < posOf l 1 4) && decide (posOf l 1 4 < posOf l 0 4)

theorem C06.steps_lost_update_table (fw : Fw) :
    (interleave (List.replicate 6 0) (List.replicate 6 1)).all (fun l =>
      (lookup ((dataOf (mrun [C06.uA, C06.uB] (C06.u0 fw) l) 0).getD []) 2).isNone == C06.lostPattern l) = true := by
  cases fw <;> decide +kernel

/-- **the lost update, exactly.**  Two sibling new-table groups A (adds column 1) and B (adds column 2) on one object that
holds a table with column 0, each computing its column by an arbitrary function of the table it is handed; any value type,
any framework.  For EVERY interleaving of their micro-steps (all 924): B's column is missing from the object's table at the
end **iff** A read `self.data` before B's write and wrote after it.  (Symmetrically for A.)  In every other interleaving both
columns are there, as in SYNC. -/
theorem C06.steps_thread_lost_update_iff (fA fB : Option (Table V) → V) (v0 : V) (fw : Fw) :
    let A : Desc V := { obj := 0, src := 0, style := .fresh, outs := [1], fn := fun t => some [(1, fA t)] }
    let B : Desc V := { obj := 0, src := 0, style := .fresh, outs := [2], fn := fun t => some [(2, fB t)] }
    let σ₀ : MSt V := { objs := [{ fw := fw, cells := [[(0, v0)]], data := .ref 0 }], locs := [{}, {}] }
    ∀ l ∈ interleave (List.replicate 6 0) (List.replicate 6 1),
      (lookup ((dataOf (mrun [A, B] σ₀ l) 0).getD []) 2 = none ↔
        (posOf l 0 2 < posOf l 1 4 ∧ posOf l 1 4 < posOf l 0 4)) := by
  intro A B σ₀ l hl
  have hrel : DsRel (fun _ : V => ()) [A, B] [C06.uA, C06.uB] := by
    refine ⟨rfl, ?_⟩
    intro i d d' hd hd'
    match i with
    | 0 =>
      simp only [List.getElem?_cons_zero, Option.some.injEq] at hd hd'
      subst hd; subst hd'
      exact ⟨rfl, rfl, rfl, rfl, rfl, rfl, rfl, rfl, rfl, rfl, fun _ => rfl, fun _ => rfl, fun _ => rfl, fun _ => rfl, fun _ _ => by simp [tmap, C06.uA, C06.uB, A, B]⟩
    | 1 =>
      simp only [List.getElem?_cons_succ, List.getElem?_cons_zero, Option.some.injEq] at hd hd'
      subst hd; subst hd'
      exact ⟨rfl, rfl, rfl, rfl, rfl, rfl, rfl, rfl, rfl, rfl, fun _ => rfl, fun _ => rfl, fun _ => rfl, fun _ => rfl, fun _ _ => by simp [tmap, C06.uA, C06.uB, A, B]⟩
    | n + 2 => simp at hd
  have hσ : smap (fun _ : V => ()) σ₀ = C06.u0 fw := rfl
  have htab := C06.steps_lost_update_table fw
  rw [List.all_eq_true] at htab
  have hthis := htab l hl
  rw [← lookup_none_map (fun _ : V => ()) (mrun [A, B] σ₀ l) 0 2, ← mrun_map hrel, hσ]
  simp only [C06.lostPattern, beq_iff_eq] at hthis
  rw [← Option.isNone_iff_eq_none, hthis]
  simp

/-- positive direction, for any number of steps and any step kinds: if the two siblings are kept apart the state is the
state of the serial schedule (a special case of `C06.steps_serialised_no_interference`) -/
theorem C06.steps_thread_lost_update_partial (ds : List (Desc V)) (σ : MSt V) (l : List Nat) (a b : Nat)
    (honly : ∀ i ∈ l, i = a ∨ i = b) (hb : Before l a b) :
    mrun ds σ l = mrun ds σ (List.replicate (l.count a) a ++ List.replicate (l.count b) b) := by
  have hl : l = List.replicate (l.count a) a ++ List.replicate (l.count b) b := by
    have : StepTrace.proj l a b = l := by
      unfold StepTrace.proj
      rw [List.filter_eq_self]
      intro i hi
      rcases honly i hi with h | h <;> simp [h]
    unfold Before blockOrder at hb
    rw [this] at hb
    exact hb
  rw [← hl]

/-- closed witness with values, at statement level (replayed on the real classes by the harness): root a = 5 (column 10),
M: m = a + 1 (11), N: n = a * 2 (12), Z: z = m + n (13), all new-table groups on one pandas object.  M reads, N reads, N
computes and writes, M computes and writes back its own copy: column n is gone, Z's `calculate_feature` raises (KeyError →
"missing Links" ValueError).  The same steps back to back give z = 16. -/
theorem C06.steps_thread_lost_update_witness :
    let get (t : Option (Table Nat)) (c : Nat) : Option Nat := lookup (t.getD []) c
    let ds : List (Desc Nat) :=
      [{ obj := 0, src := 0, outs := [10], fn := fun _ => some [(10, 5)] },
       { obj := 0, src := 0, outs := [11], fn := fun t => (get t 10).map (fun a => [(11, a + 1)]) },
       { obj := 0, src := 0, outs := [12], fn := fun t => (get t 10).map (fun a => [(12, a * 2)]) },
       { obj := 0, src := 0, outs := [13], fn := fun t => (get t 11).bind (fun m => (get t 12).map (fun n => [(13, m + n)])) }]
    let σ₀ : MSt Nat := StepExec.init [{ fw := .pandas }] 4
    let lost := [0, 0, 0, 0, 0, 0, 1, 1, 2, 2, 2, 2, 2, 2, 1, 1, 1, 1, 3, 3, 3]
    let sync := [0, 0, 0, 0, 0, 0, 1, 1, 1, 1, 1, 1, 2, 2, 2, 2, 2, 2, 3, 3, 3, 3, 3, 3]
    ((mrun ds σ₀ lost).locs[3]?.map (·.err)) = some (some Err.calcRaised) ∧
    lookup ((dataOf (mrun ds σ₀ lost) 0).getD []) 12 = none ∧
    lookup ((dataOf (mrun ds σ₀ lost) 0).getD []) 11 = some 6 ∧
    lookup ((dataOf (mrun ds σ₀ sync) 0).getD []) 13 = some 16 := by
  decide +kernel

/-! ## 4. in-place groups do not lose columns -/

/-- **groups that extend the table they are handed and return the same object never lose a column.**  Any number of in-place
feature-group steps on one object that holds a table object, any interleaving of their micro-steps (they all hold the same
object): the object is never replaced, no column of the table ever disappears, and every step that is past its insertion has
all its columns in the table. -/
theorem C06.steps_inplace_groups_do_not_lose (ds : List (Desc V)) (hall : ∀ d ∈ ds, InplaceFG d) (o : Obj V) (r : Nat)
    (hdata : o.data = .ref r) (hr : r < o.cells.length) (l : List Nat) :
    let σ := mrun ds { objs := [o], locs := List.replicate ds.length {} } l
    (∃ o', σ.objs = [o'] ∧ o'.data = .ref r) ∧
    (∀ c ∈ colsOf ((o.cells[r]?).getD []), c ∈ cellCols σ r) ∧
    (∀ (i : Nat) (d : Desc V) (l' : Local V), ds[i]? = some d → σ.locs[i]? = some l' → 3 ≤ l'.pc → ∀ c ∈ d.outs, c ∈ cellCols σ r) := by
  intro σ
  have h0 : KInv ds r ({ objs := [o], locs := List.replicate ds.length {} } : MSt V) := by
    refine ⟨⟨o, rfl, hdata, hr⟩, ?_⟩
    intro i d l' _ hl
    simp only [List.getElem?_replicate] at hl
    split at hl
    · cases hl; exact ⟨fun h => absurd h (by show ¬ 2 ≤ 0; omega), fun h => absurd h (by show ¬ 3 ≤ 0; omega)⟩
    · cases hl
  obtain ⟨hk, hmono⟩ := kinv_run hall l h0
  obtain ⟨o', h1, h2, _⟩ := hk.obj
  refine ⟨⟨o', h1, h2⟩, ?_, ?_⟩
  · intro c hc
    apply hmono
    simpa [cellCols] using hc
  · intro i d l' hd hl h3
    exact (hk.regs i d l' hd hl).2 h3

-- non-vacuity: two in-place groups interleaved in the lost-update pattern of section 3: both columns are there
example :
    let ds : List (Desc Unit) := [{ obj := 0, src := 0, style := .inplace, outs := [1], fn := fun _ => some [(1, ())] },
                                  { obj := 0, src := 0, style := .inplace, outs := [2], fn := fun _ => some [(2, ())] }]
    let σ := mrun ds { objs := [{ fw := .pandas, cells := [[(0, ())]], data := .ref 0 }], locs := [{}, {}] } [0, 0, 1, 1, 1, 1, 0, 0, 0, 0, 1, 1]
    cellCols σ 0 = [1, 2, 0] := by decide

/-- it is the *kind of group*, not pandas: the same interleaving with the PyArrow array path (`calculate_feature` returns only
the new column, `PyArrowTable.transform` does `self.data.append_column`) loses column 2 - `append_column` builds a new table
from the table read at that moment.  And as soon as ONE overlapping sibling is a new-table group, in-place and Series groups
lose columns too: the new-table group installs a copy taken before their insertion (3), a Series group's insertion goes into
the frame that the new-table group replaces before the Series group's `return self.data` (4: it loses its OWN column), and an
in-place group re-installs the object it was handed after the new-table group's write (5: the NEW-TABLE group's column is gone). -/
theorem C06.steps_array_and_mixed_groups_lose_witness :
    let colA : Desc Unit := { obj := 0, src := 0, style := .column, outs := [1], fn := fun _ => some [(1, ())] }
    let colB : Desc Unit := { obj := 0, src := 0, style := .column, outs := [2], fn := fun _ => some [(2, ())] }
    let inB : Desc Unit := { obj := 0, src := 0, style := .inplace, outs := [2], fn := fun _ => some [(2, ())] }
    let σ (fw : Fw) : MSt Unit := { objs := [{ fw := fw, cells := [[(0, ())]], data := .ref 0 }], locs := [{}, {}] }
    -- (1) PyArrow array path: A appends (reads), B appends and writes, A writes
    colsOf ((dataOf (mrun [colA, colB] (σ .pyarrow) [0, 0, 0, 0, 1, 1, 1, 1, 1, 0, 0, 0, 1, 1]) 0).getD []) = [1, 0] ∧
    -- (2) the pandas Series path with the same interleaving keeps both (the frame object itself is extended)
    colsOf ((dataOf (mrun [colA, colB] (σ .pandas) [0, 0, 0, 0, 0, 1, 1, 1, 1, 1, 1, 1, 0, 0, 0, 0, 1, 1]) 0).getD []) = [2, 1, 0] ∧
    -- (3) new-table A copies before in-place B inserts, and writes last: B's column is lost although B worked in place
    colsOf ((dataOf (mrun [C06.uA, inB] (σ .pandas) [0, 0, 0, 1, 1, 1, 1, 1, 1, 0, 0, 0]) 0).getD []) = [1, 0] ∧
    -- (4) new-table A writes between Series group B's insertion and B's `return self.data`: B re-installs A's frame, without b
    colsOf ((dataOf (mrun [C06.uA, colB] (σ .pandas) [0, 0, 1, 1, 1, 0, 1, 1, 0, 1, 1, 0, 1, 1, 0]) 0).getD []) = [1, 0] ∧
    -- (5) in-place B writes back the object it was handed after new-table A's write: A's column is gone
    colsOf ((dataOf (mrun [C06.uA, inB] (σ .pandas) [0, 0, 1, 1, 1, 0, 0, 0, 1, 0, 1, 1]) 0).getD []) = [2, 0] := by
  decide +kernel

/-! ## 5. the upload decision of `run_calculation` -/

/-- `len(children_if_root) > len(tracker) + len(features)` ("keep the data, more steps follow") **agrees** with the subset test
of the drop protocol ("not every child is calculated yet") whenever the tracker and the step's features are disjoint sets of
children of the object -/
theorem C06.steps_upload_decision_agree (children tracker feats : List Nat) (hc : children.Nodup) (ht : tracker.Nodup)
    (hf : feats.Nodup) (htc : ∀ x ∈ tracker, x ∈ children) (hfc : ∀ x ∈ feats, x ∈ children) (hdisj : ∀ x ∈ tracker, x ∉ feats) :
    keepCount children tracker feats = !allCalculated children tracker feats := by
  have hu : (tracker ++ feats).Nodup := by
    rw [List.nodup_append]
    exact ⟨ht, hf, fun a ha b hb e => hdisj a ha (e ▸ hb)⟩
  have hsub : tracker ++ feats ⊆ children := by
    intro x hx
    rcases List.mem_append.mp hx with h | h
    · exact htc x h
    · exact hfc x h
  cases hall : allCalculated children tracker feats with
  | true =>
    -- children ⊆ tracker ∪ feats, so the count test says "upload"
    have hsub' : children ⊆ tracker ++ feats := by
      intro x hx
      simp only [allCalculated, List.all_eq_true, Bool.or_eq_true, decide_eq_true_eq] at hall
      exact List.mem_append.mpr (hall x hx)
    have := List.Nodup.length_le_of_subset hc hsub'
    simp only [List.length_append] at this
    simp [keepCount]; omega
  | false =>
    -- some child c is neither tracked nor computed now: tracker ∪ feats ⊆ children \ {c}
    simp only [allCalculated, List.all_eq_false, Bool.or_eq_true, decide_eq_true_eq, not_or] at hall
    obtain ⟨c, hc1, hc2, hc3⟩ := hall
    have hsub'' : tracker ++ feats ⊆ children.erase c := by
      intro x hx
      have hxc : x ≠ c := by
        intro e; subst e
        rcases List.mem_append.mp hx with h | h
        · exact hc2 h
        · exact hc3 h
      exact (List.mem_erase_of_ne hxc).mpr (hsub hx)
    have h1 := List.Nodup.length_le_of_subset hu hsub''
    rw [List.length_erase_of_mem hc1] at h1
    have hpos : 0 < children.length := List.length_pos_of_mem hc1
    simp only [List.length_append] at h1
    simp [keepCount]; omega

/-- the count test never uploads too LATE: when every child is calculated it says "upload", whatever the tracker contains -/
theorem C06.steps_upload_decision_never_late (children tracker feats : List Nat) (hc : children.Nodup)
    (hall : allCalculated children tracker feats = true) : keepCount children tracker feats = false := by
  have hsub' : children ⊆ tracker ++ feats := by
    intro x hx
    simp only [allCalculated, List.all_eq_true, Bool.or_eq_true, decide_eq_true_eq] at hall
    exact List.mem_append.mpr (hall x hx)
  have := List.Nodup.length_le_of_subset hc hsub'
  simp only [List.length_append] at this
  simp [keepCount]; omega

/-- but it uploads too EARLY as soon as the tracker holds uuids that are not children of the object (features of a step that
was handed this object although it belongs to another one, see F-C09-latejoin / F-C02-cfw-*): children {1,2,3}, tracker {8,9},
the step computes {1} - the count test uploads and replaces `data` by the key string although 2 and 3 are still to be computed
here; likewise when the step's features are not children -/
theorem C06.steps_upload_decision_too_early_witness :
    keepCount [1, 2, 3] [8, 9] [1] = false ∧ allCalculated [1, 2, 3] [8, 9] [1] = false ∧
    keepCount [1, 2] [] [7, 8] = false ∧ allCalculated [1, 2] [] [7, 8] = false := by decide

/-- what uploading too early does in MULTIPROCESSING (statement level; replayed on the real worker functions and end to end):
object 0 has children {1, 2}, its tracker holds the foreign uuids {8, 9} (two features of steps that were handed this object
although they are not its children - the joined left object of a same-framework join).  Step A (feature 1) runs as a worker
command: `2 > 2 + 1` is false, the data is uploaded and `self.data` / the worker's `data` variable become the KEY STRING; the
next feature-group command B (feature 2) is handed that string by `run_calculation` (`self.data = data`) and its
`calculate_feature` raises.  With an honest tracker the same two commands succeed. -/
theorem C06.steps_mp_key_string_witness :
    let A : MDesc Unit := { obj := 0, src := 0, outs := [11], feats := [1], fn := fun t => t.map (fun _ => [(11, ())]) }
    let B : MDesc Unit := { obj := 0, src := 0, outs := [12], feats := [2], fn := fun t => t.map (fun _ => [(12, ())]) }
    let slot (tracker : List Nat) : Slot Unit :=
      { obj := { fw := .pyarrow, cells := [[(10, ())]], data := .ref 0, children := [1, 2], tracker := tracker }, dataV := .ref 0 }
    let run (tracker : List Nat) := mpRun [A, B] { slots := [slot tracker], results := [none, none] } [.step 0, .step 1]
    ((run [8, 9]).slots[0]?.map (fun w => (w.dataV, w.err, w.stored.map colsOf))) = some (Val.key, some Err.calcRaised, some [11, 10]) ∧
    ((run []).slots[0]?.map (fun w => (w.err, (tableAt w.obj w.obj.data).map colsOf))) = some (none, some [12, 11, 10]) := by
  decide +kernel

-- non-vacuity of the agreement theorem's hypotheses
example : keepCount [1, 2, 3] [1] [2] = true ∧ allCalculated [1, 2, 3] [1] [2] = false ∧
    keepCount [1, 2, 3] [1, 3] [2] = false ∧ allCalculated [1, 2, 3] [1, 3] [2] = true := by decide

/-! ## 5b. MULTIPROCESSING: one FIFO queue per object -/

/-- worker commands (a step executed by the worker of its object, the drop command after a step, the orchestrator's collection
of a result through the store) commute unless one of them writes the worker / dataset the other reads or writes -/
theorem C06.steps_mp_independent_commute (ds : List (MDesc V)) (σ : MPSt V) (c₁ c₂ : Cmd) (h : mpIndep ds c₁ c₂ = true) :
    mpCmd ds (mpCmd ds σ c₁) c₂ = mpCmd ds (mpCmd ds σ c₂) c₁ :=
  mpCmd_comm ds σ c₁ c₂ h

/-- **per-object FIFO is enough**: two global orders of the same worker commands that agree on the relative order of every two
commands that are not independent (same worker - its queue is FIFO -, or an upload and the download / collection that reads
it) end in the same state: workers, datasets in the store, collected results.  Which worker process gets to run when is
irrelevant; in particular every MULTIPROCESSING run equals the run that executes the commands in SYNC order. -/
theorem C06.steps_mp_fifo_schedule_independent (ds : List (MDesc V)) (σ : MPSt V) (cs₁ cs₂ : List Cmd)
    (h : ∀ m n, mpDep ds m n = true →
      StepTrace.proj (cs₁.map encodeCmd) m n = StepTrace.proj (cs₂.map encodeCmd) m n) :
    mpRun ds σ cs₁ = mpRun ds σ cs₂ := by
  rw [mpRun_eq_run, mpRun_eq_run]
  exact StepTrace.run_eq_of_proj (commutes_mp ds) (mpDep_refl ds) (mpDep_symm ds) _ _ h σ

-- non-vacuity: two feature-group steps on different objects and their drop commands; the two workers' commands interleaved
-- differently; and commands of one worker are dependent
example :
    let ds : List (MDesc Unit) := [{ obj := 0, src := 0, feats := [1] }, { obj := 1, src := 1, feats := [2] }]
    mpIndep ds (.step 0) (.step 1) = true ∧ mpIndep ds (.step 0) (.drop 0) = false ∧ mpIndep ds (.collect 0) (.drop 1) = true ∧
    (∀ m ∈ [0, 2, 3, 5], ∀ n ∈ [0, 2, 3, 5], mpDep ds m n = true →
      StepTrace.proj ([Cmd.step 0, .drop 0, .step 1, .drop 1].map encodeCmd) m n =
      StepTrace.proj ([Cmd.step 1, .step 0, .drop 1, .drop 0].map encodeCmd) m n) := by decide

/-! ## 6. which executor runs a step -/

/-- `Step.get_parallelization_mode()` offers all three modes, so `_get_execution_function` (`CfwReg.executionFunction`, table in
`C02.exec_mode_priority`) picks the executor from the run's mode set alone: worker processes if MULTIPROCESSING was asked for,
else threads if THREADING was, else inline - for every list of requested modes -/
theorem C06.steps_mode_dispatch (reg : List CfwReg.Mode) :
    CfwReg.executionFunction reg [.sync, .thread, .mp] =
      if reg.contains .mp then .mp else if reg.contains .thread then .thread else .sync := by
  have : reg.filter (fun m => [CfwReg.Mode.sync, .thread, .mp].contains m) = reg := by
    rw [List.filter_eq_self]
    intro m _
    cases m <;> rfl
  simp only [CfwReg.executionFunction, this]

/-- in particular a run asked for SYNC only executes every step inline (the serialised schedules of sections 1 and 2), and any
mode set containing MULTIPROCESSING uses the per-object worker queues -/
theorem C06.steps_mode_dispatch_cases :
    CfwReg.executionFunction [.sync] [.sync, .thread, .mp] = .sync ∧
    CfwReg.executionFunction [.thread] [.sync, .thread, .mp] = .thread ∧
    CfwReg.executionFunction [.sync, .thread] [.sync, .thread, .mp] = .thread ∧
    CfwReg.executionFunction [.thread, .mp] [.sync, .thread, .mp] = .mp ∧
    CfwReg.executionFunction [] [.sync, .thread, .mp] = .sync := by decide
