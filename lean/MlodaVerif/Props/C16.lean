import MlodaVerif.Model.Config
open Chain Config Gen.Chain

theorem C16.chainSep_is_double_underscore : chainSep = ['_', '_'] := by decide
