import MlodaVerif.Lemmas.ChainResolve
import MlodaVerif.Model.Config
/-! # C16 - name-chained, option-configured and JSON-configured features are equivalent

Model: `Model/Chain.lean` (grammar, matching, inputs, parameters, resolution), `Model/Config.lean` (JSON loader);
vocabularies, separators, suffix patterns and PROPERTY_MAPPING flags in `Gen/ChainConsts.lean` are regenerated from
`/repo` on every run, so every `decide` over "the whole table" is re-checked against the code as it is now.

All theorems quantify over *every* well-formed chain (any depth, any source names, any positive window size); nothing is
bounded.  Where mloda violates the property the full statement is kept in a comment, a `_partial` theorem is proved under
the decidable hypothesis that excludes the defect, and a `_witness` theorem proves the failure on a concrete input. -/
open Chain Config Gen.Chain

/-! ## rendering facts -/

theorem Chain.render_step (c : Chain) (op : Op) : (Chain.step c op).render = c.render ++ chainSep ++ op.suffix := rfl

theorem Chain.wfU_render (c : Chain) (h : c.wfU = true) : c.render ≠ [] ∧ ∀ ch ∈ c.render, ch ≠ '&' := by
  induction c with
  | src ns =>
    match ns, h with
    | [n], h =>
      obtain ⟨h1, _, h3, _⟩ := srcOk_elim (by simpa [Chain.wfU] using h)
      exact ⟨by simpa [Chain.render, joinWith] using h1, by simpa [Chain.render, joinWith] using h3⟩
    | [], h => simp [Chain.wfU] at h
    | _ :: _ :: _, h => simp [Chain.wfU] at h
  | step c op ih =>
    simp only [Chain.wfU, Bool.and_eq_true] at h
    obtain ⟨⟨hc, hok⟩, _⟩ := h
    obtain ⟨g, _, _, hf⟩ := sufFacts_of_ok op hok
    obtain ⟨hne, hamp⟩ := ih hc
    refine ⟨by simp [Chain.render_step, hne], ?_⟩
    intro ch hch
    simp only [Chain.render_step, List.mem_append] at hch
    rcases hch with (hch | hch) | hch
    · exact hamp ch hch
    · have : chainSep = ['_', '_'] := by decide
      rw [this] at hch
      intro he; subst he; simp at hch
    · exact hf.noAmp ch hch

/-! ## left to right: the last suffix is the operation applied last -/

/-- **left_to_right.** For every chain `c` (any depth) and vocabulary operation `op`, the name of `c ▷ op` splits at its
*last* `__` into the name of `c` and the suffix of `op`; the group of `op` parses it to `(operation, source = name of c)`,
claims it, and is the only built-in (modelled) group that does. -/
theorem C16.left_to_right (c : Chain) (op : Op) (hc : c.wfU = true) (hop : op.ok = true) :
    rsplitOnce chainSep (Chain.step c op).render = some (c.render, op.suffix) ∧
    (∃ g cfg, groupAt op.gid = some g ∧
      parseFeatureName chainSep [g.toks] (Chain.step c op).render = .ok (some (some cfg, c.render))) ∧
    matchingGroups (Chain.step c op).render emptyOpts = .ok [op.gid] := by
  obtain ⟨g, hg, hmod, hf⟩ := sufFacts_of_ok op hop
  obtain ⟨caps, hm, hcfg⟩ := hf.matched
  obtain ⟨hne, _⟩ := Chain.wfU_render c hc
  obtain ⟨cfg, hcfg'⟩ := Option.isSome_iff_exists.mp hcfg
  refine ⟨?_, ⟨g, cfg, hg, ?_⟩, ?_⟩
  · rw [Chain.render_step, chainSep_eq]; exact rsplitOnce_append _ _ hf.sufok
  · rw [Chain.render_step, parseFeatureName_append g.toks _ _ caps hne hf.sufok hm, hcfg']
  · rw [Chain.render_step]; exact matchingGroups_rendered op.gid g hg hmod _ _ caps hne hf.sufok hm hcfg

/-- the parameters the group will compute with are exactly the ones written in the last suffix (any window size) -/
theorem C16.params_read_back (c : Chain) (op : Op) (hc : c.wfU = true) (hop : op.ok = true) :
    ∃ g, groupAt op.gid = some g ∧ extractParams g emptyOpts (Chain.step c op).render = .ok op.params := by
  obtain ⟨g, hg, _, hf⟩ := sufFacts_of_ok op hop
  exact ⟨g, hg, by rw [Chain.render_step]; exact hf.params _ (Chain.wfU_render c hc).1⟩

/-! ## parse ∘ render = id, at any depth -/

theorem mixin_single_count (op : Op) (g : Group) (hg : groupAt op.gid = some g) (har : op.arityOk 1 = true) (s : Str)
    (hs : ∀ ch ∈ s, ch ≠ '&') : validateCount g (splitOn inputSep s).length = .ok () := by
  have : splitOn inputSep s = [s] := splitOn_of_not_mem _ _ (by simpa [inputSep] using hs)
  rw [this]
  exact validateCount_of_arity g 1 (arityOk_elim hg har)

theorem parse_render_unary (c : Chain) (h : c.wfU = true) : ∀ fuel, c.depth < fuel → parseAll fuel c.render = some c := by
  induction c with
  | src ns =>
    intro fuel hf
    match ns, h with
    | [n], h =>
      obtain ⟨_, h2, _, _⟩ := srcOk_elim (by simpa [Chain.wfU] using h)
      cases fuel with
      | zero => simp [Chain.depth] at hf
      | succ f => simpa [parseAll, Chain.render, joinWith] using resolveFeat_leaf f n h2
    | [], h => simp [Chain.wfU] at h
    | _ :: _ :: _, h => simp [Chain.wfU] at h
  | step c op ih =>
    intro fuel hf
    simp only [Chain.wfU, Bool.and_eq_true] at h
    obtain ⟨⟨hc, hok⟩, har⟩ := h
    obtain ⟨hne, hamp⟩ := Chain.wfU_render c hc
    cases fuel with
    | zero => simp [Chain.depth] at hf
    | succ f =>
      have hdf : c.depth < f := by simp [Chain.depth] at hf; omega
      obtain ⟨g, hg, hstep⟩ := resolveStep_rendered op hok c.render hne
        (fun g' hg' _ => mixin_single_count op g' hg' har c.render hamp)
        (fun g' hg' hk => by
          -- a two-input group cannot have arity 1
          have hmod : modelled g' = true := by
            obtain ⟨g'', hg'', hm'', _⟩ := sufFacts_of_ok op hok
            rw [hg'] at hg''; cases hg''; exact hm''
          rcases kinds (mem_modelledGroups (groupAt_mem hg') hmod) with ⟨hk', _⟩ | ⟨hk', _, _⟩ | ⟨_, hmin, _⟩
          · rw [hk] at hk'; exact absurd hk' (by decide)
          · rw [hk] at hk'; exact absurd hk' (by decide)
          · have := arityOk_elim hg' har
            simp [hmin] at this)
      have hmain : (nameInputs g c.render).main = [mkFeat c.render] := by
        have hmod : modelled g = true := by
          obtain ⟨g'', hg'', hm'', _⟩ := sufFacts_of_ok op hok
          rw [hg] at hg''; cases hg''; exact hm''
        rcases kinds (mem_modelledGroups (groupAt_mem hg) hmod) with ⟨hk, _⟩ | ⟨hk, _, _⟩ | ⟨hk, hmin, _⟩
        · have : splitOn inputSep c.render = [c.render] := splitOn_of_not_mem _ _ (by simpa [inputSep] using hamp)
          simp [nameInputs, hk, this, dedupe_single]
        · have hne1 : (twName == mixinName) = false := by decide
          simp [nameInputs, hk, hne1]
        · have := arityOk_elim hg har
          simp [hmin] at this
      have ih' := ih hc f hdf
      simp only [parseAll] at ih' ⊢
      rw [Chain.render_step]
      simp only [resolveFeat, featName_mkFeat, featOpts_mkFeat, hstep, hmain, ih', Option.map_some]

/-- **parse_render.** Resolving the rendered name of any well-formed chain - a unary spine of any depth, or one
multi-input operation over its `&`-joined sources - returns exactly that chain: the groups in order, their parameters
and the source names.  (`fuel` only has to exceed the depth.) -/
theorem C16.parse_render (c : Chain) (h : c.wf = true) (fuel : Nat) (hf : c.depth < fuel) : parseAll fuel c.render = some c := by
  match c, h with
  | .src ns, h => exact parse_render_unary (.src ns) (by simpa [Chain.wf] using h) fuel hf
  | .step (.step c' op') op, h => exact parse_render_unary _ (by simpa [Chain.wf] using h) fuel hf
  | .step (.src ns) op, h =>
    simp only [Chain.wf] at h
    by_cases h2 : 2 ≤ ns.length
    · simp only [h2, if_true, Bool.and_eq_true, List.all_eq_true] at h
      obtain ⟨⟨⟨hsrc, hdist⟩, hok⟩, har⟩ := h
      have hnamp : ∀ n ∈ ns, ∀ d ∈ n, d ≠ inputSep := fun n hn => by simpa [inputSep] using (srcOk_elim (hsrc n hn)).2.2.1
      have hnne : ns ≠ [] := by intro hn; subst hn; simp at h2
      have hsplit : splitOn inputSep (joinWith inputSep ns) = ns := splitOn_joinWith inputSep ns hnne hnamp
      have hrne : joinWith inputSep ns ≠ [] := by
        obtain ⟨a, r, rfl⟩ := List.exists_cons_of_ne_nil hnne
        exact joinWith_ne_nil inputSep _ ⟨a, by simp, (srcOk_elim (hsrc a (by simp))).1⟩ (fun n hn => (srcOk_elim (hsrc n hn)).1)
      cases fuel with
      | zero => simp at hf
      | succ f =>
        cases f with
        | zero => simp [Chain.depth] at hf
        | succ f' =>
          obtain ⟨g0, hg0, hmod0, _⟩ := sufFacts_of_ok op hok
          obtain ⟨g, hg, hstep⟩ := resolveStep_rendered op hok (joinWith inputSep ns) hrne
            (fun g' hg' _ => by rw [hsplit]; exact validateCount_of_arity g' _ (arityOk_elim hg' har))
            (fun g' hg' hk => by
              have hmod : modelled g' = true := by rw [hg'] at hg0; cases hg0; exact hmod0
              rcases kinds (mem_modelledGroups (groupAt_mem hg') hmod) with ⟨hk', _⟩ | ⟨hk', _, _⟩ | ⟨_, hmin, hmax⟩
              · rw [hk] at hk'; exact absurd hk' (by decide)
              · rw [hk] at hk'; exact absurd hk' (by decide)
              · have := arityOk_elim hg' har
                simp only [hmin, hmax, Bool.and_eq_true, decide_eq_true_eq] at this
                have hlen : ns.length = 2 := by omega
                match ns, hlen with
                | [a, b], _ =>
                  have ha : ∀ d ∈ a, d ≠ '&' := by simpa [inputSep] using hnamp a (by simp)
                  simp [joinWith, inputSep, splitOnce_append '&' a b ha])
          have hmod : modelled g = true := by rw [hg] at hg0; cases hg0; exact hmod0
          have hmain : (nameInputs g (joinWith inputSep ns)).main = ns.map mkFeat := by
            rcases kinds (mem_modelledGroups (groupAt_mem hg) hmod) with ⟨hk, _⟩ | ⟨hk, _, hmax⟩ | ⟨hk, hmin, hmax⟩
            · simp [nameInputs, hk, hsplit, dedupe_mkFeat ns hdist]
            · have := arityOk_elim hg har
              simp only [hmax, Bool.and_eq_true, decide_eq_true_eq] at this
              omega
            · have := arityOk_elim hg har
              simp only [hmin, hmax, Bool.and_eq_true, decide_eq_true_eq] at this
              have hlen : ns.length = 2 := by omega
              match ns, hlen, hdist with
              | [a, b], _, hd =>
                have ha : ∀ d ∈ a, d ≠ '&' := by simpa [inputSep] using hnamp a (by simp)
                have hne1 : (geoName == mixinName) = false := by decide
                have hne2 : (geoName == twName) = false := by decide
                have := dedupe_mkFeat [a, b] hd
                simp only [List.map] at this
                simp [nameInputs, hk, hne1, hne2, joinWith, inputSep, splitOnce_append '&' a b ha, this]
          have hleaf : (ns.map mkFeat).all isLeaf = true := by
            simp only [List.all_eq_true, List.mem_map]
            rintro _ ⟨n, hn, rfl⟩
            exact isLeaf_mkFeat n (srcOk_elim (hsrc n hn)).2.1
          have hnames : (ns.map mkFeat).mapM featName? = some ns := by
            clear hsplit hstep hmain hleaf hrne hnamp hsrc hdist har h2 hnne hf
            induction ns with
            | nil => rfl
            | cons a r ih => simp [List.mapM_cons, featName_mkFeat, ih]
          simp only [parseAll, Chain.render, resolveFeat, featName_mkFeat, featOpts_mkFeat, hstep, hmain]
          match ns, h2, hleaf, hnames with
          | a :: b :: r, _, hleaf, hnames =>
            simp only [List.map_cons] at hleaf hnames ⊢
            simp only [hleaf, hnames, if_true, Option.map_some]
    · simp only [h2, if_false] at h
      exact parse_render_unary _ h fuel hf

/-! ## malformed names are rejected -/

/-- **malformed_rejected (no source).** A name that is just `__<suffix>` of a vocabulary operation matches that group's
pattern but has no source: `parse_feature_name` raises, for every operation and every window size -/
theorem C16.no_source_rejected (op : Op) (hop : op.ok = true) :
    ∃ g, groupAt op.gid = some g ∧ parseFeatureName chainSep [g.toks] (chainSep ++ op.suffix) = .error (.value "no-source") := by
  obtain ⟨g, hg, _, hf⟩ := sufFacts_of_ok op hop
  obtain ⟨caps, hm, _⟩ := hf.matched
  exact ⟨g, hg, parseFeatureName_no_source g.toks op.suffix caps hf.sufok hm⟩

/-- … and consequently no modelled group claims such a name: `match_feature_group_criteria` of its own group swallows the
`ValueError` and answers False -/
theorem C16.no_source_unclaimed (op : Op) (hop : op.ok = true) (o : Opts) :
    ∃ g, groupAt op.gid = some g ∧ matchCriteria g (chainSep ++ op.suffix) o = .ok false := by
  obtain ⟨g, hg, hmod, hf⟩ := sufFacts_of_ok op hop
  obtain ⟨caps, hm, _⟩ := hf.matched
  refine ⟨g, hg, ?_⟩
  unfold matchCriteria matchConfiguration
  rw [parseFeatureName_no_source g.toks op.suffix caps hf.sufok hm]
  simp [hmod]

/-- **malformed_rejected (in-feature count).** For a group with the default `input_features`, a name whose source part
splits on `&` into fewer than MIN or more than MAX inputs is rejected - whatever the options say -/
theorem C16.count_violation_rejected (op : Op) (hop : op.ok = true) (g : Group) (hg : groupAt op.gid = some g)
    (hk : g.inputImpl = mixinName) (s : Str) (hs : s ≠ []) (o : Opts)
    (hbad : (splitOn inputSep s).length < g.minIn ∨ ∃ m, g.maxIn = some m ∧ m < (splitOn inputSep s).length) :
    ∃ e, inputFeatures g o (s ++ chainSep ++ op.suffix) = .error (.value e) := by
  obtain ⟨g', hg', hmod, hf⟩ := sufFacts_of_ok op hop
  rw [hg] at hg'; cases hg'
  obtain ⟨caps, hm, hcfg⟩ := hf.matched
  obtain ⟨cfg, hcfg'⟩ := Option.isSome_iff_exists.mp hcfg
  have hp := parseFeatureName_append g.toks s op.suffix caps hs hf.sufok hm
  rw [hcfg'] at hp
  have hse : s.isEmpty = false := by cases s <;> simp_all
  rcases kinds (mem_modelledGroups (groupAt_mem hg) hmod) with ⟨_, hsep⟩ | ⟨hk', _, _⟩ | ⟨hk', _, _⟩
  · unfold inputFeatures inputFeaturesMixin
    simp only [hk, beq_self_eq_true, if_true, hsep]
    rw [hp]
    simp only [bind, Except.bind, pure, Except.pure, hse, Bool.not_false, if_true]
    unfold validateCount
    rcases hbad with hlt | ⟨m, hm', hgt⟩
    · exact ⟨"too-few-in-features", by simp [hlt]⟩
    · by_cases hlt : (splitOn inputSep s).length < g.minIn
      · exact ⟨"too-few-in-features", by simp [hlt]⟩
      · exact ⟨"too-many-in-features", by simp [hlt, hm', hgt]⟩
  · rw [hk] at hk'; exact absurd hk' (by decide)
  · rw [hk] at hk'; exact absurd hk' (by decide)

/-! ## `~` : sub-columns -/

theorem columnSep_eq : columnSep = '~' := by decide

/-- the loader's `name~index` is undone by `get_column_base_feature` for every `~`-free name (so also for every rendered
chain name) and every index -/
theorem C16.column_base_roundtrip (name idx : Str) (h : ∀ c ∈ name, c ≠ '~') : columnBase (withColumnIndex name idx) = name := by
  unfold columnBase withColumnIndex
  rw [splitOn_append columnSep name idx (by simpa [columnSep_eq] using h)]
  rfl

/-- FULL STATEMENT (false): "`base~i__suffix` names the operation applied to sub-column `i` of `base`".
`FeatureGroup.match_feature_group_criteria` takes `get_column_base_feature(name)` = everything before the FIRST `~`, i.e.
it also drops the chain suffix: -/
theorem C16.tilde_base_swallows_suffix_witness :
    columnBase "m~1__sum_aggr".toList = "m".toList ∧
    parseAll 5 "m~1__sum_aggr".toList = some (.step (.src ["m~1".toList]) ⟨0, [.s "sum".toList]⟩) := by decide

/-! ## known grammar defects (negation witnesses, replayed on the real code by the harness) -/

/-- FULL STATEMENT (false): "`parse_render` for every spine, also when the first operation takes several inputs".
A multi-input operation followed by another suffix cannot be read back: the later group splits its whole source on `&`. -/
theorem C16.amp_then_suffix_witness :
    parseAll 9 "p&q__euclidean_distance__sum_aggr".toList = none ∧
    parseAll 9 "p&q__euclidean_distance".toList = some (.step (.src ["p".toList, "q".toList]) ⟨5, [.s "euclidean".toList]⟩) ∧
    (match inputFeatures gAggregatedFeatureGroup emptyOpts "p&q__euclidean_distance__sum_aggr".toList with
      | .error (.value t) => t == "too-many-in-features"
      | _ => false) = true := by decide

/-- a third `&` input is not rejected by the geo-distance group at planning time: it is read as the inputs `pa` and `pb&pc` -/
theorem C16.geo_three_inputs_witness :
    (inputFeatures gGeoDistanceFeatureGroup emptyOpts "pa&pb&pc__euclidean_distance".toList).toOption.map
        (fun i => i.main.map featName?) = some [some "pa".toList, some "pb&pc".toList] := by decide

/-- patterns that end in `([\w]+)$` also match names that continue with further suffixes (`\w` contains `_`) -/
theorem C16.word_terminated_pattern_swallows_witness :
    (matchPattern gForecastingFeatureGroup.toks "x__linear_forecast_7day__sum_aggr".toList).isSome = true ∧
    (matchPattern gAggregatedFeatureGroup.toks "x__linear_forecast_7day__sum_aggr".toList).isSome = true ∧
    (matchPattern gSklearnPipelineFeatureGroup.toks "x__sklearn_pipeline_a__sum_aggr".toList).isSome = true := by decide

/-! ## non-vacuity -/

/-- a depth-3 chain with an arbitrary window size meets `wf`, renders to the expected name and is read back -/
example :
    let c : Chain := .step (.step (.step (.src ["x_1".toList]) ⟨6, [.s "mean".toList]⟩) ⟨11, [.s "sum".toList, .n 365, .s "day".toList]⟩)
      ⟨0, [.s "max".toList]⟩
    c.wf = true ∧ c.render = "x_1__mean_imputed__sum_365_day_window__max_aggr".toList ∧ parseAll 4 c.render = some c := by decide

example :
    let c : Chain := .step (.src ["pa".toList, "pb".toList]) ⟨5, [.s "haversine".toList]⟩
    c.wf = true ∧ c.render = "pa&pb__haversine_distance".toList ∧ parseAll 2 c.render = some c := by decide

/-- the first suffix is *not* the one applied last: reversing the suffix order gives a different chain -/
example : parseAll 4 "x__sum_aggr__mean_imputed".toList ≠ parseAll 4 "x__mean_imputed__sum_aggr".toList := by decide
