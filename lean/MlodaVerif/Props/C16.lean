import MlodaVerif.Lemmas.ChainRender
import MlodaVerif.Lemmas.ChainOptLevel
import MlodaVerif.Model.Config
/-! # C16 - name-chained, option-configured and JSON-configured features are equivalent

Model: `Model/Chain.lean` (grammar, matching, inputs, parameters, resolution), `Model/Config.lean` (JSON loader);
vocabularies, separators, suffix patterns and PROPERTY_MAPPING flags in `Gen/ChainConsts.lean` are regenerated from
`/repo` on every run, so every `decide` over "the whole table" is re-checked against the code as it is now.

All theorems quantify over *every* well-formed chain (any depth, any source names, any positive window size); nothing is
bounded.  Where mloda violates the property the full statement is kept in a comment, a `_partial` theorem is proved under
the decidable hypothesis that excludes the defect, and a `_witness` theorem proves the failure on a concrete input. -/
open Chain Config Gen.Chain

/-! ## left to right: the last suffix is the operation applied last -/

/-- **left_to_right.** For every chain `c` (any depth) and vocabulary operation `op`, the name of `c ▷ op` splits at its
*last* `__` into the name of `c` and the suffix of `op`; the group of `op` parses it to `(operation, source = name of c)`,
claims it, and is the only built-in (modelled) group that does. -/
theorem C16.left_to_right (c : Chain) (op : Op) (hc : c.wfU = true) (hop : op.ok = true) :
    rsplitOnce chainSep (Chain.step c op).render = some (c.render, op.suffix) ∧
    (∃ g cfg, groupAt op.gid = some g ∧
      parseFeatureName chainSep [g.toks] (Chain.step c op).render = .ok (some (some cfg, c.render))) ∧
    matchingGroups (Chain.step c op).render emptyOpts = .ok [op.gid] := by
  obtain ⟨g, hg, hmod, hf⟩ := sufFacts_of_ok op hop
  obtain ⟨caps, hm, hcfg⟩ := hf.matched
  obtain ⟨hne, _⟩ := Chain.wfU_render c hc
  obtain ⟨cfg, hcfg'⟩ := Option.isSome_iff_exists.mp hcfg
  refine ⟨?_, ⟨g, cfg, hg, ?_⟩, ?_⟩
  · rw [Chain.render_step, chainSep_eq]; exact rsplitOnce_append _ _ hf.sufok
  · rw [Chain.render_step, parseFeatureName_append g.toks _ _ caps hne hf.sufok hm, hcfg']
  · rw [Chain.render_step]; exact matchingGroups_rendered op.gid g hg hmod _ _ caps hne hf.sufok hm hcfg

/-- the parameters the group will compute with are exactly the ones written in the last suffix (any window size) -/
theorem C16.params_read_back (c : Chain) (op : Op) (hc : c.wfU = true) (hop : op.ok = true) :
    ∃ g, groupAt op.gid = some g ∧ extractParams g emptyOpts (Chain.step c op).render = .ok op.params := by
  obtain ⟨g, hg, _, hf⟩ := sufFacts_of_ok op hop
  exact ⟨g, hg, by rw [Chain.render_step]; exact hf.params _ (Chain.wfU_render c hc).1⟩

/-! ## parse ∘ render = id, at any depth -/

/-- **parse_render.** Resolving the rendered name of any well-formed chain - a unary spine of any depth, or one
multi-input operation over its `&`-joined sources - returns exactly that chain: the groups in order, their parameters
and the source names.  (`fuel` only has to exceed the depth.) -/
theorem C16.parse_render (c : Chain) (h : c.wf = true) (fuel : Nat) (hf : c.depth < fuel) : parseAll fuel c.render = some c := by
  match c, h with
  | .src ns, h => exact parse_render_unary (.src ns) (by simpa [Chain.wf] using h) fuel hf
  | .step (.step c' op') op, h => exact parse_render_unary _ (by simpa [Chain.wf] using h) fuel hf
  | .step (.src ns) op, h =>
    simp only [Chain.wf] at h
    by_cases h2 : 2 ≤ ns.length
    · simp only [h2, if_true, Bool.and_eq_true, List.all_eq_true] at h
      obtain ⟨⟨⟨hsrc, hdist⟩, hok⟩, har⟩ := h
      have hnamp : ∀ n ∈ ns, ∀ d ∈ n, d ≠ inputSep := fun n hn => by simpa [inputSep] using (srcOk_elim (hsrc n hn)).2.2.1
      have hnne : ns ≠ [] := by intro hn; subst hn; simp at h2
      have hsplit : splitOn inputSep (joinWith inputSep ns) = ns := splitOn_joinWith inputSep ns hnne hnamp
      have hrne : joinWith inputSep ns ≠ [] := by
        obtain ⟨a, r, rfl⟩ := List.exists_cons_of_ne_nil hnne
        exact joinWith_ne_nil inputSep _ ⟨a, by simp, (srcOk_elim (hsrc a (by simp))).1⟩ (fun n hn => (srcOk_elim (hsrc n hn)).1)
      cases fuel with
      | zero => simp at hf
      | succ f =>
        cases f with
        | zero => simp [Chain.depth] at hf
        | succ f' =>
          obtain ⟨g0, hg0, hmod0, _⟩ := sufFacts_of_ok op hok
          obtain ⟨g, hg, hstep⟩ := resolveStep_rendered op hok (joinWith inputSep ns) hrne
            (fun g' hg' _ => by rw [hsplit]; exact validateCount_of_arity g' _ (arityOk_elim hg' har))
            (fun g' hg' hk => by
              have hmod : modelled g' = true := by rw [hg'] at hg0; cases hg0; exact hmod0
              rcases kinds (mem_modelledGroups (groupAt_mem hg') hmod) with ⟨hk', _⟩ | ⟨hk', _, _⟩ | ⟨_, hmin, hmax⟩
              · rw [hk] at hk'; exact absurd hk' (by decide)
              · rw [hk] at hk'; exact absurd hk' (by decide)
              · have := arityOk_elim hg' har
                simp only [hmin, hmax, Bool.and_eq_true, decide_eq_true_eq] at this
                have hlen : ns.length = 2 := by omega
                match ns, hlen with
                | [a, b], _ =>
                  have ha : ∀ d ∈ a, d ≠ '&' := by simpa [inputSep] using hnamp a (by simp)
                  simp [joinWith, inputSep, splitOnce_append '&' a b ha])
          have hmod : modelled g = true := by rw [hg] at hg0; cases hg0; exact hmod0
          have hmain : (nameInputs g (joinWith inputSep ns)).main = ns.map mkFeat := by
            rcases kinds (mem_modelledGroups (groupAt_mem hg) hmod) with ⟨hk, _⟩ | ⟨hk, _, hmax⟩ | ⟨hk, hmin, hmax⟩
            · simp [nameInputs, hk, hsplit, dedupe_mkFeat ns hdist]
            · have := arityOk_elim hg har
              simp only [hmax, Bool.and_eq_true, decide_eq_true_eq] at this
              omega
            · have := arityOk_elim hg har
              simp only [hmin, hmax, Bool.and_eq_true, decide_eq_true_eq] at this
              have hlen : ns.length = 2 := by omega
              match ns, hlen, hdist with
              | [a, b], _, hd =>
                have ha : ∀ d ∈ a, d ≠ '&' := by simpa [inputSep] using hnamp a (by simp)
                have hne1 : (geoName == mixinName) = false := by decide
                have hne2 : (geoName == twName) = false := by decide
                have := dedupe_mkFeat [a, b] hd
                simp only [List.map] at this
                simp [nameInputs, hk, hne1, hne2, joinWith, inputSep, splitOnce_append '&' a b ha, this]
          have hleaf : (ns.map mkFeat).all isLeaf = true := by
            simp only [List.all_eq_true, List.mem_map]
            rintro _ ⟨n, hn, rfl⟩
            exact isLeaf_mkFeat n (srcOk_elim (hsrc n hn)).2.1
          have hnames : (ns.map mkFeat).mapM featName? = some ns := by
            clear hsplit hstep hmain hleaf hrne hnamp hsrc hdist har h2 hnne hf
            induction ns with
            | nil => rfl
            | cons a r ih => simp [List.mapM_cons, featName_mkFeat, ih]
          simp only [parseAll, Chain.render, resolveFeat, featName_mkFeat, featOpts_mkFeat, hstep, hmain]
          match ns, h2, hleaf, hnames with
          | a :: b :: r, _, hleaf, hnames =>
            simp only [List.map_cons] at hleaf hnames ⊢
            simp only [hleaf, hnames, if_true, Option.map_some]
    · simp only [h2, if_false] at h
      exact parse_render_unary _ h fuel hf

/-! ## malformed names are rejected -/

/-- **malformed_rejected (no source).** A name that is just `__<suffix>` of a vocabulary operation matches that group's
pattern but has no source: `parse_feature_name` raises, for every operation and every window size -/
theorem C16.no_source_rejected (op : Op) (hop : op.ok = true) :
    ∃ g, groupAt op.gid = some g ∧ parseFeatureName chainSep [g.toks] (chainSep ++ op.suffix) = .error (.value "no-source") := by
  obtain ⟨g, hg, _, hf⟩ := sufFacts_of_ok op hop
  obtain ⟨caps, hm, _⟩ := hf.matched
  exact ⟨g, hg, parseFeatureName_no_source g.toks op.suffix caps hf.sufok hm⟩

/-- … and consequently no modelled group claims such a name: `match_feature_group_criteria` of its own group swallows the
`ValueError` and answers False -/
theorem C16.no_source_unclaimed (op : Op) (hop : op.ok = true) (o : Opts) :
    ∃ g, groupAt op.gid = some g ∧ matchCriteria g (chainSep ++ op.suffix) o = .ok false := by
  obtain ⟨g, hg, hmod, hf⟩ := sufFacts_of_ok op hop
  obtain ⟨caps, hm, _⟩ := hf.matched
  refine ⟨g, hg, ?_⟩
  unfold matchCriteria matchConfiguration
  rw [parseFeatureName_no_source g.toks op.suffix caps hf.sufok hm]
  simp [hmod]

/-- **malformed_rejected (in-feature count).** For a group with the default `input_features`, a name whose source part
splits on `&` into fewer than MIN or more than MAX inputs is rejected - whatever the options say -/
theorem C16.count_violation_rejected (op : Op) (hop : op.ok = true) (g : Group) (hg : groupAt op.gid = some g)
    (hk : g.inputImpl = mixinName) (s : Str) (hs : s ≠ []) (o : Opts)
    (hbad : (splitOn inputSep s).length < g.minIn ∨ ∃ m, g.maxIn = some m ∧ m < (splitOn inputSep s).length) :
    ∃ e, inputFeatures g o (s ++ chainSep ++ op.suffix) = .error (.value e) := by
  obtain ⟨g', hg', hmod, hf⟩ := sufFacts_of_ok op hop
  rw [hg] at hg'; cases hg'
  obtain ⟨caps, hm, hcfg⟩ := hf.matched
  obtain ⟨cfg, hcfg'⟩ := Option.isSome_iff_exists.mp hcfg
  have hp := parseFeatureName_append g.toks s op.suffix caps hs hf.sufok hm
  rw [hcfg'] at hp
  have hse : s.isEmpty = false := by cases s <;> simp_all
  rcases kinds (mem_modelledGroups (groupAt_mem hg) hmod) with ⟨_, hsep⟩ | ⟨hk', _, _⟩ | ⟨hk', _, _⟩
  · unfold inputFeatures inputFeaturesMixin
    simp only [hk, beq_self_eq_true, if_true, hsep]
    rw [hp]
    simp only [bind, Except.bind, pure, Except.pure, hse, Bool.not_false, if_true]
    unfold validateCount
    rcases hbad with hlt | ⟨m, hm', hgt⟩
    · exact ⟨"too-few-in-features", by simp [hlt]⟩
    · by_cases hlt : (splitOn inputSep s).length < g.minIn
      · exact ⟨"too-few-in-features", by simp [hlt]⟩
      · exact ⟨"too-many-in-features", by simp [hlt, hm', hgt]⟩
  · rw [hk] at hk'; exact absurd hk' (by decide)
  · rw [hk] at hk'; exact absurd hk' (by decide)

/-! ## `~` : sub-columns -/

/-- the loader's `name~index` is undone by `get_column_base_feature` for every `~`-free name (so also for every rendered
chain name) and every index -/
theorem C16.column_base_roundtrip (name idx : Str) (h : ∀ c ∈ name, c ≠ '~') : columnBase (withColumnIndex name idx) = name := by
  unfold columnBase withColumnIndex
  rw [splitOn_append columnSep name idx (by simpa [columnSep_eq] using h)]
  rfl

/-- FULL STATEMENT (false): "`base~i__suffix` names the operation applied to sub-column `i` of `base`".
`FeatureGroup.match_feature_group_criteria` takes `get_column_base_feature(name)` = everything before the FIRST `~`, i.e.
it also drops the chain suffix: -/
theorem C16.tilde_base_swallows_suffix_witness :
    columnBase "m~1__sum_aggr".toList = "m".toList ∧
    parseAll 5 "m~1__sum_aggr".toList = some (.step (.src ["m~1".toList]) ⟨0, [.s "sum".toList]⟩) := by decide

/-! ## known grammar defects (negation witnesses, replayed on the real code by the harness) -/

/-- FULL STATEMENT (false): "`parse_render` for every spine, also when the first operation takes several inputs".
A multi-input operation followed by another suffix cannot be read back: the later group splits its whole source on `&`. -/
theorem C16.amp_then_suffix_witness :
    parseAll 9 "p&q__euclidean_distance__sum_aggr".toList = none ∧
    parseAll 9 "p&q__euclidean_distance".toList = some (.step (.src ["p".toList, "q".toList]) ⟨5, [.s "euclidean".toList]⟩) ∧
    (match inputFeatures gAggregatedFeatureGroup emptyOpts "p&q__euclidean_distance__sum_aggr".toList with
      | .error (.value t) => t == "too-many-in-features"
      | _ => false) = true := by decide

/-- a third `&` input is not rejected by the geo-distance group at planning time: it is read as the inputs `pa` and `pb&pc` -/
theorem C16.geo_three_inputs_witness :
    (inputFeatures gGeoDistanceFeatureGroup emptyOpts "pa&pb&pc__euclidean_distance".toList).toOption.map
        (fun i => i.main.map featName?) = some [some "pa".toList, some "pb&pc".toList] := by decide

/-- patterns that end in `([\w]+)$` also match names that continue with further suffixes (`\w` contains `_`) -/
theorem C16.word_terminated_pattern_swallows_witness :
    (matchPattern gForecastingFeatureGroup.toks "x__linear_forecast_7day__sum_aggr".toList).isSome = true ∧
    (matchPattern gAggregatedFeatureGroup.toks "x__linear_forecast_7day__sum_aggr".toList).isSome = true ∧
    (matchPattern gSklearnPipelineFeatureGroup.toks "x__sklearn_pipeline_a__sum_aggr".toList).isSome = true := by decide

/-! ## non-vacuity -/

/-- a depth-3 chain with an arbitrary window size meets `wf`, renders to the expected name and is read back -/
example :
    let c : Chain := .step (.step (.step (.src ["x_1".toList]) ⟨6, [.s "mean".toList]⟩) ⟨11, [.s "sum".toList, .n 365, .s "day".toList]⟩)
      ⟨0, [.s "max".toList]⟩
    c.wf = true ∧ c.render = "x_1__mean_imputed__sum_365_day_window__max_aggr".toList ∧ parseAll 4 c.render = some c := by decide

example :
    let c : Chain := .step (.src ["pa".toList, "pb".toList]) ⟨5, [.s "haversine".toList]⟩
    c.wf = true ∧ c.render = "pa&pb__haversine_distance".toList ∧ parseAll 2 c.render = some c := by decide

/-- the first suffix is *not* the one applied last: reversing the suffix order gives a different chain -/
example : parseAll 4 "x__sum_aggr__mean_imputed".toList ≠ parseAll 4 "x__mean_imputed__sum_aggr".toList := by decide

/-! ## JSON configuration -/

/-- **malformed_rejected (JSON, what the loader checks).** Whatever else a document contains: if it is not an array, or
some item is neither a string nor an object, or an object has a key outside {name, options, in_features, group_options,
context_options, column_index}, or lacks `name` - loading raises. -/
theorem C16.json_malformed_rejected (fuel : Nat) (data : PV) :
    ((∀ l, data ≠ .list l) → ∃ e, loadFeaturesFuel fuel data = .error e) ∧
    (∀ l item, data = .list l → item ∈ l → itemShapeChecked item = false → ∃ e, loadFeaturesFuel fuel data = .error e) := by
  constructor
  · intro h
    cases data with
    | list l => exact absurd rfl (h l)
    | _ => exact ⟨_, rfl⟩
  · intro l item hd hmem hbad
    subst hd
    have hitem : ∃ e, parseItem item = .error e := by
      cases item with
      | str s => simp [itemShapeChecked] at hbad
      | dict kvs =>
        simp only [itemShapeChecked, Bool.and_eq_false_iff] at hbad
        simp only [parseItem, mkConfig]
        rcases hbad with hb | hb
        · have : (kvs.any fun kv => !allowedKeys.contains kv.1) = true := by
            simp only [List.all_eq_false] at hb
            obtain ⟨kv, hkv, hk⟩ := hb
            exact List.any_eq_true.mpr ⟨kv, hkv, by simpa using hk⟩
          exact ⟨Err.type "unexpected-keyword", by rw [if_pos this]; rfl⟩
        · by_cases hany : (kvs.any fun kv => !allowedKeys.contains kv.1) = true
          · exact ⟨Err.type "unexpected-keyword", by rw [if_pos hany]; rfl⟩
          · have hn : lookup kName kvs = none := by
              cases hl : lookup kName kvs with
              | none => rfl
              | some v => simp [hl] at hb
            exact ⟨Err.type "missing-name", by rw [if_neg hany, hn]; rfl⟩
      | _ => exact ⟨_, rfl⟩
    obtain ⟨e, he⟩ := hitem
    have hmap : ∃ e', l.mapM parseItem = .error e' := by
      clear hbad
      induction l with
      | nil => simp at hmem
      | cons x r ih =>
        rw [List.mapM_cons]
        cases hx : parseItem x with
        | error e1 => exact ⟨e1, rfl⟩
        | ok y =>
          rcases List.mem_cons.mp hmem with rfl | hr
          · rw [he] at hx; cases hx
          · obtain ⟨e', he'⟩ := ih hr
            exact ⟨e', by simp [bind, Except.bind, he']⟩
    obtain ⟨e', he'⟩ := hmap
    exact ⟨e', by simp [loadFeaturesFuel, parseJson, he', bind, Except.bind]⟩

/-- FULL STATEMENT (false): "every document that is invalid against the published `feature_config_schema()` is rejected".
The dataclass validates no types: a string for `in_features` becomes the set of its characters, a number as `name` or a
string as `column_index` is accepted. -/
theorem C16.schema_invalid_accepted_witness :
    let d1 : PV := .list [.dict [(kName, .str "a".toList), (kInFeatures, .str "abc".toList), (kContextOptions, .dict [("aggregation_type".toList, .str "sum".toList)])]]
    let d2 : PV := .list [.dict [(kName, .int 5)]]
    let d3 : PV := .list [.dict [(kName, .str "a".toList), (kColumnIndex, .str "1".toList)]]
    schemaValid d1 = false ∧ schemaValid d2 = false ∧ schemaValid d3 = false ∧
    (match loadFeatures d1 with
     | .ok [.feat _ _ ctx] => (lookup kInFeatures ctx).map (fun v => v.eqv (.fset [.str ['a'], .str ['b'], .str ['c']])) == some true
     | _ => false) = true ∧
    (match loadFeatures d2 with | .ok [.feat (.int 5) _ _] => true | _ => false) = true ∧
    (match loadFeatures d3 with | .ok [.feat (.str n) _ _] => n == "a~1".toList | _ => false) = true := by decide

/-- **the JSON form with `context_options` loads to the options form**: for every feature name, every option dictionary
without an `in_features` key and every non-empty list of input names, the loaded Feature has exactly those context
options plus `in_features` = the frozenset of the names, and no group options -/
theorem C16.json_ctx_form_loads (fuel : Nat) (nm : Str) (kv : List (Str × PV)) (ins : List Str) (hins : ins ≠ [])
    (hkv : lookup kInFeatures kv = none) :
    loadFeaturesFuel fuel (.list [.dict [(kName, .str nm), (kInFeatures, .list (ins.map PV.str)), (kContextOptions, .dict kv)]])
      = .ok [.feat (.str nm) [] (kv ++ [(kInFeatures, .fset (dedupe (ins.map PV.str)))])] := by
  have hall : (ins.map PV.str).all PV.hashable = true := by
    simp [List.all_eq_true, PV.hashable]
  have htr : (PV.list (ins.map PV.str)).truthy = true := by
    cases ins with
    | nil => exact absurd rfl hins
    | cons a r => simp [PV.truthy]
  have hset : ∀ (v : PV), setKey kInFeatures v kv = kv ++ [(kInFeatures, v)] := by
    intro v
    induction kv with
    | nil => rfl
    | cons x r ih =>
      obtain ⟨k, w⟩ := x
      simp only [lookup] at hkv
      split at hkv
      · simp at hkv
      · rename_i hne
        have hne' : (kInFeatures == k) = false := by simpa using hne
        simp [setKey, hne', ih hkv]
  have hk1 : lookup kName [(kName, PV.str nm), (kInFeatures, .list (ins.map PV.str)), (kContextOptions, .dict kv)] = some (.str nm) := by
    rfl
  simp only [loadFeaturesFuel, parseJson, List.mapM_cons, List.mapM_nil, parseItem, mkConfig, bind, Except.bind, pure, Except.pure,
    Except.map]
  have hallowed : ([(kName, PV.str nm), (kInFeatures, PV.list (ins.map PV.str)), (kContextOptions, PV.dict kv)].any
      fun kv => !allowedKeys.contains kv.1) = false := by
    rfl
  simp only [hallowed, hk1]
  have hl2 : lookup kOptions [(kName, PV.str nm), (kInFeatures, .list (ins.map PV.str)), (kContextOptions, .dict kv)] = none := by
    rfl
  have hl3 : lookup kInFeatures [(kName, PV.str nm), (kInFeatures, .list (ins.map PV.str)), (kContextOptions, .dict kv)]
      = some (.list (ins.map PV.str)) := by
    rfl
  have hl4 : lookup kGroupOptions [(kName, PV.str nm), (kInFeatures, .list (ins.map PV.str)), (kContextOptions, .dict kv)] = none := by
    rfl
  have hl5 : lookup kContextOptions [(kName, PV.str nm), (kInFeatures, .list (ins.map PV.str)), (kContextOptions, .dict kv)]
      = some (.dict kv) := by
    rfl
  have hl6 : lookup kColumnIndex [(kName, PV.str nm), (kInFeatures, .list (ins.map PV.str)), (kContextOptions, .dict kv)] = none := by
    rfl
  simp only [hl2, hl3, hl4, hl5, hl6, Option.getD, PV.truthy, List.isEmpty_nil, Bool.not_true, Bool.false_and, Bool.false_eq_true, if_false,
    loadItem, PV.isNone, Bool.not_false, Bool.or_true, if_true, htr, frozensetOf, hall, mkFeature, hasDuplicateKey, List.any_nil,
    bind, Except.bind, pure, Except.pure]
  cases kv with
  | nil =>
    simp [loadItem, PV.isNone, PV.truthy, frozensetOf, hall, mkFeature, hasDuplicateKey, setKey, bind, Except.bind, pure,
      Except.pure, Functor.map, Except.map, hins]
  | cons x r =>
    simp [loadItem, PV.isNone, PV.truthy, frozensetOf, hall, mkFeature, hasDuplicateKey, hset, bind, Except.bind, pure,
      Except.pure, Functor.map, Except.map, hins]

/-! ## options form: known defects (negation witnesses) -/

/-- FULL STATEMENT (false): "the str, list, frozenset and Feature spellings of `in_features` resolve alike".
A Python list (or set) makes `_process_found_property_value` raise TypeError (`frozenset([value])`), which
`match_feature_group_criteria` does not catch; the other spellings match and give the same single input. -/
theorem C16.list_spelling_witness :
    (match matchCriteria gAggregatedFeatureGroup "a1".toList (wAggOpts (.list [.str "x".toList])) with
     | .error (.type _) => true | _ => false) = true ∧
    (match matchCriteria gAggregatedFeatureGroup "a1".toList (wAggOpts (.set [.str "x".toList])) with
     | .error (.type _) => true | _ => false) = true ∧
    ([PV.str "x".toList, .fset [.str "x".toList], mkFeat "x".toList, .fset [mkFeat "x".toList]].all fun v =>
      (match matchCriteria gAggregatedFeatureGroup "a1".toList (wAggOpts v) with | .ok true => true | _ => false) &&
      (match inputFeatures gAggregatedFeatureGroup (wAggOpts v) "a1".toList with
       | .ok i => i.main.map featName? == [some "x".toList] | _ => false)) = true := by decide

/-- FULL STATEMENT (false): "an option-configured chain resolves like its chained name".
Two consecutive levels that set the same option key differently (median imputation of a bfill imputation) are rejected by
the engine's option merge, although each level on its own resolves and the name `x__bfill_imputed__median_imputed` does. -/
theorem C16.same_key_levels_witness :
    let f := wLevel "p1" "imputation_method" "median" (wLevel "p0" "imputation_method" "bfill" (.str "x".toList))
    let c : Chain := .step (.step (.src ["x".toList]) ⟨6, [.s "bfill".toList]⟩) ⟨6, [.s "median".toList]⟩
    resolveFeatProp 9 f = none ∧ resolveFeat 9 f = some c ∧ parseAll 9 c.render = some c := by decide

/-- FULL STATEMENT (false): "the nested JSON form (`options.in_features = {name, options}`) resolves like the name".
The loader turns it into nested Features with *group* options; the engine merges a consumer's group options into its
input feature, which is then claimed by two groups. -/
theorem C16.nested_group_options_witness :
    let doc : PV := .list [.dict [(kName, .str "agg2".toList), (kOptions, .dict [("aggregation_type".toList, .str "sum".toList),
      (kInFeatures, .dict [(kName, .str "imp1".toList), (kOptions, .dict [("imputation_method".toList, .str "mean".toList),
        (kInFeatures, .str "x".toList)])])])]]
    let f := wLevelG "agg2" "aggregation_type" "sum" (wLevelG "imp1" "imputation_method" "mean" (.str "x".toList))
    let c : Chain := .step (.step (.src ["x".toList]) ⟨6, [.s "mean".toList]⟩) ⟨0, [.s "sum".toList]⟩
    (match loadFeatures doc with | .ok [g] => g.eqv f | _ => false) = true ∧
    resolveFeat 9 f = some c ∧ resolveFeatProp 9 f = none ∧
    (match matchingGroups "imp1".toList ⟨[("imputation_method".toList, .str "mean".toList), (kInFeatures, .str "x".toList),
        ("aggregation_type".toList, .str "sum".toList)], []⟩ with
     | .ok l => l == [0, 6] | _ => false) = true := by decide


/-! ## the three notations agree at every level -/

/-- **options form, one level.** For every vocabulary operation of an option-configurable unary group (aggregation,
imputation, time window of any size, centrality, scaling), every placeholder name without `__` and every `in_features`
value in the str / frozenset / Feature spelling denoting the input feature `f`:
`Feature(placeholder, Options(context={<parameters>, in_features: v}))` is claimed by exactly the operation's group,
which extracts exactly the operation's parameters and asks for exactly the input `f`. -/
theorem C16.options_level (op : Op) (hok : op.ok = true) (hcfg : op.gid ≠ 10 ∧ op.gid ≠ 5) (har : op.arityOk 1 = true)
    (v f : PV) (hv : inValFeat v = some f) (ph : Str) (hph : hasInfix sep2 ph = false) :
    ∃ g ex, groupAt op.gid = some g ∧
      resolveStep ph (featOpts (optFeature ph g op.params v)) = .ok (some ⟨op.gid, op.params, ⟨[f], ex⟩⟩) :=
  resolveStep_level op hok hcfg.1 hcfg.2 har v f hv ph hph

/-- **notations_agree.** For every chain `c` (any depth) and option-configurable operation `op`: the chained name
`c ▷ op`, the options form (any admissible spelling of `in_features` denoting `f`) and the JSON form with
`context_options` + `in_features: [name of c]` all resolve, at this level, to the same group, the same parameters and
the input "`c`" - and the JSON document loads to precisely the options-form Feature. -/
theorem C16.notations_agree (c : Chain) (op : Op) (hc : c.wfU = true) (hok : op.ok = true) (hcfg : op.gid ≠ 10 ∧ op.gid ≠ 5)
    (har : op.arityOk 1 = true) (ph : Str) (hph : hasInfix sep2 ph = false) (fuel : Nat) :
    ∃ g exN exO, groupAt op.gid = some g ∧
      -- name form
      resolveStep (Chain.step c op).render emptyOpts = .ok (some ⟨op.gid, op.params, ⟨[mkFeat c.render], exN⟩⟩) ∧
      -- options form, in_features spelled frozenset({"<name of c>"}) (what the JSON loader produces) …
      resolveStep ph (featOpts (optFeature ph g op.params (.fset [.str c.render])))
        = .ok (some ⟨op.gid, op.params, ⟨[mkFeat c.render], exO⟩⟩) ∧
      -- … and every other admissible spelling `v` of an input `f` gives `f`
      (∀ v f, inValFeat v = some f → ∃ ex, resolveStep ph (featOpts (optFeature ph g op.params v))
        = .ok (some ⟨op.gid, op.params, ⟨[f], ex⟩⟩)) ∧
      -- JSON form
      loadFeaturesFuel fuel (.list [.dict [(kName, .str ph), (kInFeatures, .list [.str c.render]), (kContextOptions, .dict (optKV g op.params))]])
        = .ok [optFeature ph g op.params (.fset [.str c.render])] := by
  obtain ⟨hne, hamp⟩ := Chain.wfU_render c hc
  obtain ⟨g0, hg0, hmod0, _⟩ := sufFacts_of_ok op hok
  -- name form
  obtain ⟨g, hg, hstep⟩ := resolveStep_rendered op hok c.render hne
    (fun g' hg' _ => mixin_single_count op g' hg' har c.render hamp)
    (fun g' hg' hk => by
      have hmod : modelled g' = true := by rw [hg'] at hg0; cases hg0; exact hmod0
      rcases kinds (mem_modelledGroups (groupAt_mem hg') hmod) with ⟨hk', _⟩ | ⟨hk', _, _⟩ | ⟨_, hmin, _⟩
      · rw [hk] at hk'; exact absurd hk' (by decide)
      · rw [hk] at hk'; exact absurd hk' (by decide)
      · have := arityOk_elim hg' har
        simp [hmin] at this)
  have hmod : modelled g = true := by rw [hg] at hg0; cases hg0; exact hmod0
  have hmainN : ∃ ex, nameInputs g c.render = ⟨[mkFeat c.render], ex⟩ := by
    rcases kinds (mem_modelledGroups (groupAt_mem hg) hmod) with ⟨hk, _⟩ | ⟨hk, _, _⟩ | ⟨hk, hmin, _⟩
    · have : splitOn inputSep c.render = [c.render] := splitOn_of_not_mem _ _ (by simpa [inputSep] using hamp)
      exact ⟨[], by simp [nameInputs, hk, this, dedupe_single]⟩
    · have hne1 : (twName == mixinName) = false := by decide
      exact ⟨if referenceTimeKey == c.render then [] else [mkFeat referenceTimeKey], by simp [nameInputs, hk, hne1]⟩
    · have := arityOk_elim hg har
      simp [hmin] at this
  obtain ⟨exN, hexN⟩ := hmainN
  -- options form
  have hlevel : ∀ v f, inValFeat v = some f → ∃ ex, resolveStep ph (featOpts (optFeature ph g op.params v))
      = .ok (some ⟨op.gid, op.params, ⟨[f], ex⟩⟩) := by
    intro v f hv
    obtain ⟨g', ex, hg', h⟩ := resolveStep_level op hok hcfg.1 hcfg.2 har v f hv ph hph
    rw [hg] at hg'; cases hg'
    exact ⟨ex, h⟩
  obtain ⟨exO, hexO⟩ := hlevel (.fset [.str c.render]) (mkFeat c.render) rfl
  refine ⟨g, exN, exO, hg, by rw [Chain.render_step, hstep, hexN], hexO, hlevel, ?_⟩
  -- JSON form
  have hkin : kInFeatures = inFeaturesKey := by decide
  have hlk : lookup kInFeatures (optKV g op.params) = none := by
    rw [hkin]
    exact lookup_none_of_not_mem _ _ (fun kv hkv => requiredKeys_ne_in g kv.1 (zip_keys_subset _ _ kv hkv))
  have := C16.json_ctx_form_loads fuel ph (optKV g op.params) [c.render] (by simp) hlk
  simpa [optFeature, hkin, dedupe] using this
