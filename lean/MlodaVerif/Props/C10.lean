import MlodaVerif.Lemmas.Resolve
/-! # C10 - each feature resolves to one admissible feature group and compute framework, or is rejected

Model: `MlodaVerif/Model/Resolve.lean`.  All theorems quantify over arbitrary class universes (any number of classes, any
single-inheritance parent map, any criteria / domains / framework rules / index columns), collector settings, API framework
lists, feature settings and link sets; orders of Python sets and dicts are explicit list orders and order independence is
`List.Perm` invariance. -/
open Resolve

/-! ## Soundness -/

/-- membership of one entry of the accessible mapping: group rule ∩ engine frameworks ∩ loaded ∩ available -/
theorem C10.accessible_iff (W : World) (cfws : List Cfw) (fg : FG) (c : Cfw) :
    c ∈ accessibleOne W cfws fg ↔ c ∈ definition W fg ∧ c ∈ cfws ∧ c ∈ W.allCfw ∧ W.available c = true := by
  simp [accessibleOne, usableCfws, List.mem_filter]

/-- **resolve_sound**: a successful resolution names a class of the universe that the collector admits, whose criteria,
domain and index support fit the feature, together with a non-empty framework set that is exactly the intersection of API
argument, group rule, feature setting and availability. -/
theorem C10.resolve_sound (W : World) (pc : Option Collector) (fgs : List FG) (cfws : List Cfw) (f : Feature)
    (links : Option (List (Links.Index × Links.Index))) (fg : FG) (fws : List Cfw)
    (h : resolve W pc fgs cfws f links = .ok (fg, fws)) :
    fg ∈ fgs ∧ Spec.admissible W pc cfws f links fg = true ∧ fws ≠ [] ∧
      ∀ c, c ∈ fws ↔ c ∈ Spec.admissibleCfws W cfws f fg := by
  unfold resolve at h
  cases hacc : accessiblePlugins W pc fgs cfws with
  | error e => rw [hacc] at h; cases h
  | ok acc =>
    rw [hacc] at h
    simp only at h
    cases hid : identify W f links acc with
    | error e => rw [hid] at h; cases h
    | ok p =>
      obtain ⟨g, s⟩ := p
      rw [hid] at h
      simp only at h
      -- the identified pair is a kept member of the accessible mapping
      have hmem : (g, s) ∈ filterSubclasses W (filterLoop f links acc) := by
        have := validate_ok_iff.mp hid
        rw [this]; exact List.mem_singleton_self _
      obtain ⟨hin, hkeep, _⟩ := mem_candidates.mp hmem
      -- what the accessible mapping contains
      unfold accessiblePlugins at hacc
      simp only at hacc
      split at hacc
      · cases hacc
      · injection hacc with hacc
        subst hacc
        obtain ⟨g', hg', heq⟩ := List.mem_map.mp hin
        obtain ⟨hg'1, hg'2⟩ := List.mem_filter.mp hg'
        injection heq with hg hs
        subst hg
        simp only [keep, Bool.and_eq_true, Bool.not_eq_true', List.isEmpty_eq_false_iff] at hkeep
        obtain ⟨⟨⟨⟨hcrit, hdom⟩, hfw⟩, hlinks⟩, hne⟩ := hkeep
        have hsacc : ∀ c, c ∈ s ↔ c ∈ definition W g' ∧ c ∈ cfws ∧ c ∈ W.allCfw ∧ W.available c = true := by
          intro c; rw [← hs]; exact C10.accessible_iff W cfws g' c
        -- the feature-level setting
        cases hcf : f.cfw with
        | none =>
          simp only [setComputeFramework, hcf] at h
          injection h with h
          injection h with h1 h2
          subst h1; subst h2
          have hspec : ∀ c, c ∈ s ↔ c ∈ Spec.admissibleCfws W cfws f g' := by
            intro c
            rw [hsacc c]
            simp [Spec.admissibleCfws, hcf, List.mem_filter, and_assoc]
          refine ⟨hg'1, ?_, hne, hspec⟩
          simp only [Spec.admissible, Bool.and_eq_true, Bool.not_eq_true', List.isEmpty_eq_false_iff]
          refine ⟨⟨⟨⟨hg'2, hcrit⟩, hdom⟩, ?_⟩, hlinks⟩
          obtain ⟨c, hc⟩ := List.exists_mem_of_ne_nil _ hne
          exact List.ne_nil_of_mem ((hspec c).mp hc)
        | some r =>
          have hr : r ∈ s := by simpa [frameworkOk, hcf] using hfw
          have hr' : s.contains r = true := by simpa using hr
          simp only [setComputeFramework, hcf, hr', if_true] at h
          injection h with h
          injection h with h1 h2
          subst h1; subst h2
          have hspec : ∀ c, c ∈ [r] ↔ c ∈ Spec.admissibleCfws W cfws f g' := by
            intro c
            simp only [List.mem_singleton, Spec.admissibleCfws, hcf, List.mem_filter, Bool.and_eq_true,
              List.contains_iff_mem, beq_iff_eq]
            constructor
            · rintro rfl
              obtain ⟨a, b, c', d⟩ := (hsacc c).mp hr
              exact ⟨a, ⟨⟨⟨b, c'⟩, d⟩, rfl⟩⟩
            · rintro ⟨_, _, h⟩; exact h.symm
          refine ⟨hg'1, ?_, by simp, hspec⟩
          simp only [Spec.admissible, Bool.and_eq_true, Bool.not_eq_true', List.isEmpty_eq_false_iff]
          refine ⟨⟨⟨⟨hg'2, hcrit⟩, hdom⟩, ?_⟩, hlinks⟩
          exact List.ne_nil_of_mem ((hspec r).mp (List.mem_singleton_self r))

/-! ## Completeness: the outcome is decided by the candidates that survive, never by an arbitrary pick -/

/-- who survives the filter loop and the subclass filter: a kept entry of the accessible mapping that has no other kept
entry with an *equal* framework set whose class is a subclass of it -/
theorem C10.candidates_iff (W : World) (f : Feature) (links : Option (List (Links.Index × Links.Index)))
    (acc : List (FG × List Cfw)) (p : FG × List Cfw) :
    p ∈ filterSubclasses W (filterLoop f links acc) ↔
      p ∈ acc ∧ keep f links p = true ∧
        ¬ ∃ i ∈ acc, keep f links i = true ∧ (∀ c, c ∈ i.2 ↔ c ∈ p.2) ∧ i.1.id ≠ p.1.id ∧ W.isSub i.1.id p.1.id = true := by
  rw [mem_candidates]
  simp only [setEq_iff]

/-- **resolve_complete**: with the accessible mapping `acc`, no surviving candidate → "No feature groups found"; exactly
one → it is returned (with the feature-level framework applied); two or more → "Multiple feature groups found".  Nothing
is ever picked among several. -/
theorem C10.resolve_complete (W : World) (pc : Option Collector) (fgs : List FG) (cfws : List Cfw) (f : Feature)
    (links : Option (List (Links.Index × Links.Index))) (acc : List (FG × List Cfw))
    (hacc : accessiblePlugins W pc fgs cfws = .ok acc) :
    (filterSubclasses W (filterLoop f links acc) = [] → resolve W pc fgs cfws f links = .error .noGroup) ∧
    (∀ p, filterSubclasses W (filterLoop f links acc) = [p] →
        resolve W pc fgs cfws f links = .ok (p.1, match f.cfw with | some r => [r] | none => p.2)) ∧
    ((filterSubclasses W (filterLoop f links acc)).length ≥ 2 →
        resolve W pc fgs cfws f links = .error .multipleGroups) := by
  refine ⟨?_, ?_, ?_⟩
  · intro h
    simp [resolve, hacc, identify, h, validate]
  · intro p h
    have hmem : p ∈ filterSubclasses W (filterLoop f links acc) := by rw [h]; exact List.mem_singleton_self _
    obtain ⟨_, hkeep, _⟩ := mem_candidates.mp hmem
    simp only [keep, Bool.and_eq_true] at hkeep
    obtain ⟨⟨⟨⟨_, _⟩, hfw⟩, _⟩, _⟩ := hkeep
    obtain ⟨g, s⟩ := p
    cases hcf : f.cfw with
    | none => simp [resolve, hacc, identify, h, validate, setComputeFramework, hcf]
    | some r =>
      have hr : r ∈ s := by simpa [frameworkOk, hcf] using hfw
      simp [resolve, hacc, identify, h, validate, setComputeFramework, hcf, hr]
  · intro h
    match hl : filterSubclasses W (filterLoop f links acc), h with
    | a :: b :: t, _ => simp [resolve, hacc, identify, hl, validate]

/-- with distinct entries (a dict has distinct keys) "exactly one surviving candidate" can be read as uniqueness -/
theorem C10.unique_candidate (W : World) (f : Feature) (links : Option (List (Links.Index × Links.Index)))
    (acc : List (FG × List Cfw)) (hnd : acc.Nodup) (p : FG × List Cfw)
    (hp : p ∈ filterSubclasses W (filterLoop f links acc))
    (huniq : ∀ q ∈ filterSubclasses W (filterLoop f links acc), q = p) :
    filterSubclasses W (filterLoop f links acc) = [p] := by
  have hnd' : (filterSubclasses W (filterLoop f links acc)).Nodup := by
    unfold filterSubclasses filterLoop
    exact (hnd.filter _).filter _
  match hl : filterSubclasses W (filterLoop f links acc), hnd', hp, huniq with
  | [q], _, hp, _ => simp at hp; rw [hp]
  | a :: b :: t, hnd', _, huniq =>
    have ha := huniq a List.mem_cons_self
    have hb := huniq b (List.mem_cons_of_mem _ List.mem_cons_self)
    rw [List.nodup_cons] at hnd'
    exact absurd (by rw [ha, ← hb]; exact List.mem_cons_self) hnd'.1

/-! ## Independence of class definition order and hashing -/

/-- the accessible mapping may be walked in any order (dict over class objects whose hashes are addresses) -/
theorem C10.identify_order_independent (W : World) (f : Feature) (links : Option (List (Links.Index × Links.Index)))
    (acc acc' : List (FG × List Cfw)) (h : acc.Perm acc') : identify W f links acc = identify W f links acc' :=
  identify_perm W f links h

/-- **resolve_order_independent**: the whole outcome (group, framework set, or which error) is invariant under every
permutation of the loaded-class list and of the API framework list -/
theorem C10.resolve_order_independent (W : World) (pc : Option Collector) (fgs fgs' : List FG) (cfws cfws' : List Cfw)
    (f : Feature) (links : Option (List (Links.Index × Links.Index))) (h : fgs.Perm fgs') (hc : cfws.Perm cfws') :
    resolve W pc fgs cfws f links = resolve W pc fgs' cfws' f links := by
  -- the API list only matters through membership
  have hone : ∀ fg, accessibleOne W cfws fg = accessibleOne W cfws' fg := by
    intro fg
    unfold accessibleOne
    apply List.filter_congr
    intro c _
    exact contains_perm ((hc.filter _)) c
  have hfilt := h.filter (fun fg => applicable pc fg.id)
  unfold resolve accessiblePlugins
  simp only
  have hemp : (fgs.filter (fun fg => applicable pc fg.id)).isEmpty = (fgs'.filter (fun fg => applicable pc fg.id)).isEmpty := by
    rw [Bool.eq_iff_iff, List.isEmpty_iff, List.isEmpty_iff]
    constructor
    · intro e; rw [e] at hfilt; exact List.nil_perm.mp hfilt
    · intro e; rw [e] at hfilt; exact List.perm_nil.mp hfilt
  rw [hemp]
  by_cases he : (fgs'.filter (fun fg => applicable pc fg.id)).isEmpty = true
  · simp only [he, if_true]
  · simp only [he, Bool.false_eq_true, if_false]
    have hmap : ((fgs.filter (fun fg => applicable pc fg.id)).map (fun fg => (fg, accessibleOne W cfws fg))).Perm
        ((fgs'.filter (fun fg => applicable pc fg.id)).map (fun fg => (fg, accessibleOne W cfws' fg))) := by
      have : (fun fg => (fg, accessibleOne W cfws fg)) = (fun fg => (fg, accessibleOne W cfws' fg)) := by
        funext fg; rw [hone fg]
      rw [this]
      exact hfilt.map _
    rw [identify_perm W f links hmap]

/-! ## The framework -/

/-- **framework_admissible**: whichever element `get_compute_framework` takes (the head of the set in *any* iteration
order) is one of the admissible frameworks of the resolved group -/
theorem C10.framework_admissible (W : World) (pc : Option Collector) (fgs : List FG) (cfws : List Cfw) (f : Feature)
    (links : Option (List (Links.Index × Links.Index))) (fg : FG) (fws order : List Cfw) (c : Cfw)
    (h : resolve W pc fgs cfws f links = .ok (fg, fws)) (ho : order.Perm fws)
    (hc : getComputeFramework order = some c) :
    c ∈ definition W fg ∧ c ∈ cfws ∧ W.available c = true ∧ (∀ r, f.cfw = some r → c = r) := by
  obtain ⟨_, _, _, hspec⟩ := C10.resolve_sound W pc fgs cfws f links fg fws h
  have hmem : c ∈ order := by
    unfold getComputeFramework at hc
    exact List.mem_of_head? hc
  have := (hspec c).mp (ho.mem_iff.mp hmem)
  simp only [Spec.admissibleCfws, List.mem_filter, Bool.and_eq_true, List.contains_iff_mem] at this
  obtain ⟨h1, ⟨⟨⟨h2, _⟩, h4⟩, h5⟩⟩ := this
  refine ⟨h1, h2, h4, ?_⟩
  intro r hr
  rw [hr] at h5
  have : r = c := by simpa using h5
  exact this.symm

/- Full statement (FALSE for the code as it is): the framework picked does not depend on the set's iteration order,
     `order.Perm fws → getComputeFramework order = getComputeFramework fws`. -/

/-- **framework_choice_partial**: with a single admissible framework (in particular whenever the feature names one) the
pick is independent of hashing -/
theorem C10.framework_choice_partial (fws order : List Cfw) (c : Cfw) (h1 : fws = [c]) (ho : order.Perm fws) :
    getComputeFramework order = some c := by
  subst h1
  rw [List.perm_singleton.mp ho]; rfl

/-- NEGATION WITNESS: for two admissible frameworks the pick follows the iteration order of a set of class objects -/
theorem C10.framework_choice_witness :
    ∃ fws order : List Cfw, order.Perm fws ∧ getComputeFramework order ≠ getComputeFramework fws :=
  ⟨[0, 1], [1, 0], List.Perm.swap 0 1 [], by decide⟩

/-- a feature-level framework always wins over the group's set, and must be in it -/
theorem C10.feature_framework_wins (f : Feature) (cfws : List Cfw) (r : Cfw) (h : f.cfw = some r) :
    (r ∈ cfws → setComputeFramework f cfws = .ok [r]) ∧
    (r ∉ cfws → setComputeFramework f cfws = .error .featureFrameworkUnsupported) := by
  constructor
  · intro hr
    simp [setComputeFramework, h, hr]
  · intro hr
    simp [setComputeFramework, h, hr]

/-! ## "After preferring subclasses" -/

/- Full statement (FALSE for the code as it is - see the witness): a kept class is dropped as soon as another kept class
   is a strict subclass of it,
     `p ∈ filterSubclasses W kept ↔ p ∈ kept ∧ ¬ ∃ i ∈ kept, i.1.id ≠ p.1.id ∧ W.isSub i.1.id p.1.id`
   (this is what `mloda.steward.resolve_feature` / `plugin_docs._filter_subclasses` does). -/

/-- Partial form: when all kept candidates have the same framework set, the subclass filter is exactly "drop every class
that has a kept strict subclass" -/
theorem C10.prefer_subclass_partial (W : World) (f : Feature) (links : Option (List (Links.Index × Links.Index)))
    (acc : List (FG × List Cfw))
    (heq : ∀ i ∈ filterLoop f links acc, ∀ o ∈ filterLoop f links acc, setEq i.2 o.2 = true)
    (p : FG × List Cfw) :
    p ∈ filterSubclasses W (filterLoop f links acc) ↔
      p ∈ filterLoop f links acc ∧
        ¬ ∃ i ∈ filterLoop f links acc, i.1.id ≠ p.1.id ∧ W.isSub i.1.id p.1.id = true := by
  unfold filterSubclasses popped
  simp only [List.mem_filter, Bool.not_eq_true', Bool.eq_false_iff, ne_eq, List.any_eq_true, Bool.and_eq_true,
    bne_iff_ne, not_exists, not_and]
  constructor
  · rintro ⟨h1, h2⟩
    refine ⟨h1, ?_⟩
    intro i hi hne
    exact h2 i hi ⟨heq i hi p h1, hne⟩
  · rintro ⟨h1, h2⟩
    refine ⟨h1, ?_⟩
    rintro i hi ⟨_, hne⟩
    exact h2 i hi hne

/-- in every case a class is never returned while a kept strict subclass with an equal framework set exists -/
theorem C10.never_superclass_of_equal (W : World) (pc : Option Collector) (fgs : List FG) (cfws : List Cfw) (f : Feature)
    (links : Option (List (Links.Index × Links.Index))) (acc : List (FG × List Cfw)) (g : FG) (s : List Cfw)
    (_hacc : accessiblePlugins W pc fgs cfws = .ok acc) (hid : identify W f links acc = .ok (g, s)) :
    ¬ ∃ i ∈ acc, keep f links i = true ∧ (∀ c, c ∈ i.2 ↔ c ∈ s) ∧ i.1.id ≠ g.id ∧ W.isSub i.1.id g.id = true := by
  have hmem : (g, s) ∈ filterSubclasses W (filterLoop f links acc) := by
    rw [validate_ok_iff.mp hid]; exact List.mem_singleton_self _
  exact ((C10.candidates_iff W f links acc (g, s)).mp hmem).2.2

/-- NEGATION WITNESS (finding F-C10-subclass-framework-sets): parent rule {0,1}, child rule {0}, both match: the engine
answers "Multiple feature groups found" while the documented subclass preference (`resolve_feature`) selects the child. -/
theorem C10.prefer_subclass_witness :
    let P : FG := ⟨0, true, "default_domain", some [0, 1], none⟩
    let C : FG := ⟨1, true, "default_domain", some [0], none⟩
    resolve witnessWorld none [P, C] [0, 1] ⟨none, none⟩ none = .error .multipleGroups ∧
    resolveFeatureDoc witnessWorld [P, C] = .one 1 ∧
    resolve witnessWorld none [P, C] [0] ⟨none, none⟩ none = .ok (C, [0]) := by decide

/-! ## Links and index support in the filter loop -/

/- Full statement (FALSE for the code as it is): an empty link set behaves like no link set,
     `linksOk fg (some []) = linksOk fg none`. -/

/-- Partial form: for groups without index columns, or without a link set, links never influence the resolution; with a
non-empty link set a group with index columns is eligible iff some link index is a prefix of a supported index -/
theorem C10.linksOk_iff (fg : FG) (links : Option (List (Links.Index × Links.Index))) :
    (fg.indexCols = none → linksOk fg links = true) ∧ (links = none → linksOk fg links = true) ∧
    (∀ cols ls, fg.indexCols = some cols → links = some ls →
      (linksOk fg links = true ↔ ∃ l ∈ ls, (∃ s ∈ cols, l.1 <+: s) ∨ (∃ s ∈ cols, l.2 <+: s))) := by
  refine ⟨?_, ?_, ?_⟩
  · intro h; simp [linksOk, h]
  · intro h; subst h; unfold linksOk; cases fg.indexCols <;> rfl
  · intro cols ls h1 h2
    subst h2
    have key : ∀ i : Links.Index, (Links.supportsIndexOf (some cols) i == some true) = true ↔ ∃ s ∈ cols, i <+: s := by
      intro i
      have hp : ∀ a b : Links.Index, Links.isPartOf a b = true ↔ a <+: b := Links.isPartOf_iff
      simp only [Links.supportsIndexOf, beq_iff_eq, Option.some.injEq, List.any_eq_true, hp]
    simp only [linksOk, h1, List.any_eq_true, Bool.or_eq_true, key]

/-- NEGATION WITNESS (finding F-C10-empty-link-set): the only admissible group declares index columns; with `links=None`
it is resolved, with `links=set()` the request fails with "No feature groups found". -/
theorem C10.empty_links_witness :
    let I : FG := ⟨0, true, "default_domain", none, some [["k"]]⟩
    resolve witnessWorld none [I] [0] ⟨none, none⟩ none = .ok (I, [0]) ∧
    resolve witnessWorld none [I] [0] ⟨none, none⟩ (some []) = .error .noGroup ∧
    resolve witnessWorld none [I] [0] ⟨none, none⟩ (some [(["k"], ["z"])]) = .ok (I, [0]) := by decide

/-! ## Collector and API argument -/

/-- the plugin collector: disabled wins; an empty enabled set enables everything else -/
theorem C10.collector_iff (pc : Collector) (c : Cls) :
    applicable (some pc) c = true ↔ c ∉ pc.disabled ∧ (pc.enabled = [] ∨ c ∈ pc.enabled) := by
  unfold applicable
  by_cases hd : c ∈ pc.disabled
  · simp [hd]
  · by_cases he : pc.enabled = []
    · simp [hd, he]
    · have : pc.enabled.isEmpty = false := by simpa using he
      simp [hd, he, this]

/-- `SetupComputeFramework`: no / empty argument offers every loaded framework; otherwise exactly the loaded frameworks
named by the argument; a requested feature's own framework is always among the offered ones -/
theorem C10.setup_sound (W : World) (api : Option (List Cfw)) (requested : List (Option Cfw)) (a : List Cfw)
    (h : setupComputeFramework W api requested = .ok a) :
    ((api = none ∨ api = some []) → a = W.allCfw) ∧
    (∀ l, api = some l → l ≠ [] → a ≠ [] ∧ ∀ c, c ∈ a ↔ c ∈ W.allCfw ∧ c ∈ l) ∧
    (∀ r, some r ∈ requested → r ∈ a) := by
  unfold setupComputeFramework at h
  have hreq : ∀ (a' : List Cfw),
      (if requested.any (fun r => match r with | some c => !a'.contains c | none => false) = true
        then (Except.error Err.featureFrameworkNotOffered : Except Err (List Cfw)) else Except.ok a') = Except.ok a →
      a' = a ∧ ∀ r, some r ∈ requested → r ∈ a := by
    intro a' h'
    split at h'
    · cases h'
    · rename_i hany
      injection h' with h'
      subst h'
      refine ⟨rfl, ?_⟩
      intro r hr
      have := hany
      simp only [List.any_eq_true, not_exists, not_and] at this
      have := this (some r) hr
      simpa using this
  cases api with
  | none =>
    obtain ⟨h1, h2⟩ := hreq W.allCfw h
    exact ⟨fun _ => h1.symm, (fun l hl => by cases hl), h2⟩
  | some l0 =>
    cases l0 with
    | nil =>
      obtain ⟨h1, h2⟩ := hreq W.allCfw h
      exact ⟨fun _ => h1.symm, (fun l hl hne => by injection hl with hl; exact absurd hl.symm hne), h2⟩
    | cons x xs =>
      simp only at h
      by_cases he : (W.allCfw.filter (fun c => (x :: xs).contains c)).isEmpty = true
      · simp only [he, if_true] at h
        cases h
      · simp only [he, Bool.false_eq_true, if_false] at h
        obtain ⟨h1, h2⟩ := hreq _ h
        refine ⟨?_, ?_, h2⟩
        · rintro (hc | hc)
          · cases hc
          · injection hc with hc; cases hc
        · intro l hl _
          injection hl with hl
          subst hl
          subst h1
          refine ⟨by simpa using he, ?_⟩
          intro c
          simp only [List.mem_filter, List.contains_iff_mem]

/-! ## Non-vacuity -/

/-- a universe where every clause matters: wrong name, wrong domain, disabled, unavailable framework, and a
parent/child pair with equal framework sets of which the child is chosen -/
example :
    let W : World := { parent := fun c => if c = 5 then some 4 else none, allCfw := [0, 1, 2], available := fun c => c != 2 }
    let fgs : List FG := [⟨0, false, "d", none, none⟩, ⟨1, true, "other", none, none⟩, ⟨2, true, "d", none, none⟩,
                          ⟨3, true, "d", some [2], none⟩, ⟨4, true, "d", some [0, 1], none⟩, ⟨5, true, "d", some [1, 0], none⟩]
    let pc : Option Collector := some ⟨[2], []⟩
    resolve W pc fgs [0, 1, 2] ⟨some "d", none⟩ none = .ok (⟨5, true, "d", some [1, 0], none⟩, [1, 0]) ∧
    resolve W pc fgs.reverse [2, 1, 0] ⟨some "d", none⟩ none = .ok (⟨5, true, "d", some [1, 0], none⟩, [1, 0]) ∧
    resolve W pc fgs [0, 1, 2] ⟨some "d", some 1⟩ none = .ok (⟨5, true, "d", some [1, 0], none⟩, [1]) ∧
    resolve W none fgs [0, 1, 2] ⟨some "d", none⟩ none = .error .multipleGroups ∧
    resolve W pc fgs [2] ⟨some "d", none⟩ none = .error .noGroup ∧
    resolve W (some ⟨[], [9]⟩) fgs [0] ⟨none, none⟩ none = .error .noAccessibleGroups := by decide

example : setupComputeFramework witnessWorld (some [1, 7]) [some 1, none] = .ok [1] ∧
    setupComputeFramework witnessWorld (some [7]) [] = .error .noApiFramework ∧
    setupComputeFramework witnessWorld (some [1]) [some 0] = .error .featureFrameworkNotOffered ∧
    setupComputeFramework witnessWorld (some []) [some 0] = .ok [0, 1] := by decide
