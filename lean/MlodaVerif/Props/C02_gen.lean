import MlodaVerif.Lemmas.CfwGen
import MlodaVerif.Lemmas.CfwReg
/-! # C02 – the hand-written register model `CfwReg` equals the translation of cfw_manager.py

`Gen/CfwManagerGen.lean` is the translation (harness/pytrans.py + harness/extractors/pytrans_cfw.py, every run) of the methods
of `CfwManager`.  Every theorem below has the shape

    Gen.CfwManagerGen.<method> (toSelf s) args = lift … (CfwReg.<function> s args)

for EVERY model state `s` (`toSelf` / `ofSelf` are mutually inverse, `C02.gen_state_iso`, so this is every Python state too),
every argument and - for the two methods that contain / reach the `while` of `find_leftmost` - every fuel.  The theorems of
`Props/C02_cfw.lean` about `CfwReg` are therefore theorems about the translated code; some are restated on it at the end.

No difference between the hand-written model and the translation was found: all bridges are full equalities.  -/
open CfwReg PyRt Gen.CfwManagerGen CfwGen

/-- `toSelf` and `ofSelf` are mutually inverse: the model's states are exactly the Python states -/
theorem C02.gen_state_iso : (∀ s : Reg, ofSelf (toSelf s) = s) ∧ (∀ g : CfwMgr, toSelf (ofSelf g) = g) :=
  ⟨ofSelf_toSelf, toSelf_ofSelf⟩

/-- `__init__`: whatever the object was, the modelled fields start as the model's empty register `{}` -/
theorem C02.gen_init (g : CfwMgr) : init g = .ok (toSelf {}) := rfl

/-! ## registration -/

/-- `add_cfw_to_compute_frameworks` is `CfwReg.addCfw` -/
theorem C02.gen_add_cfw (s : Reg) (u : Uuid) (c : Cls) (ch : List Uuid) :
    add_cfw_to_compute_frameworks (toSelf s) u c ch = lift toSelf (addCfw s u c ch) := by
  unfold add_cfw_to_compute_frameworks addCfw
  simp only [toSelf, get?_eq_dget, set_eq_dset, dget_cfws, dset_cfws, Option.isSome_map]
  cases h : (dget s.cfws u).isSome with
  | true => simp [bind, Except.bind, throw, throwThe, MonadExceptOf.throw, toExc]
  | false => simp [pure, Except.pure]; rfl

/-- **a uuid is registered at most once**: a uuid that is a key of `compute_frameworks` is rejected with the ValueError and
nothing changes; a new one is appended at the END of the dict (so it is the last one `get_cfw_uuid` looks at) -/
theorem C02.gen_register_rejects_duplicate (s : Reg) (u : Uuid) (c : Cls) (ch : List Uuid) :
    add_cfw_to_compute_frameworks (toSelf s) u c ch =
      if u ∈ s.cfws.map (·.1) then .error (.valueError "UUID {} already exists in compute_frameworks")
      else .ok { toSelf s with compute_frameworks := (toSelf s).compute_frameworks ++ [(u, (c, ch))] } := by
  rw [C02.gen_add_cfw]
  unfold addCfw
  by_cases h : u ∈ s.cfws.map (·.1)
  · have : (dget s.cfws u).isSome = true := (dget_isSome_iff _ _).2 h
    simp [this, h, toExc]
  · have hn : dget s.cfws u = none := by
      cases hd : dget s.cfws u with
      | none => rfl
      | some v => exact absurd ((dget_isSome_iff _ _).1 (by simp [hd])) h
    rw [if_neg h]
    simp [hn, dset_of_none _ _ _ hn, toSelf, objPair]

example : add_cfw_to_compute_frameworks (toSelf { cfws := [(7, ⟨1, [3]⟩)] }) 7 2 [] =
    .error (.valueError "UUID {} already exists in compute_frameworks") := by rfl

/-! ## the merge relation -/

/-- `add_to_merge_relation` is `CfwReg.addMerge`: the right uuid points to the left one (overwriting what it pointed to), and
the left uuid becomes a self-loop only if it is not a key yet -/
theorem C02.gen_add_to_merge_relation (s : Reg) (l rt : Uuid) (c : Cls) :
    add_to_merge_relation (toSelf s) l rt c = .ok (toSelf (addMerge s l rt c)) := by
  unfold add_to_merge_relation addMerge addRel
  simp only [toSelf, has_eq_dget, set_eq_dset]
  cases h : (dget (dset s.rel rt (l, c)) l).isSome <;> simp [pure, Except.pure]

example : add_to_merge_relation (toSelf {}) 1 2 5 = .ok (toSelf { rel := [(2, (1, 5)), (1, (1, 5))] }) := by rfl

/-- one round of the translated `while` of `find_leftmost` on the loop state `(uuid, leftmost_uuid, looping)` -/
def flBody (rel : NDict (Nat × Nat)) (c : Nat) (st : Nat × Nat × Bool) : Except PyExc (ForInStep (Nat × Nat × Bool)) :=
  match NDict.getItem rel st.1 with
  | .error e => .error e
  | .ok v =>
    if (!!v.1 == st.1) = true then .ok (.done (st.1, st.2.1, false))
    else
      match NDict.getItem rel st.1 with
      | .error e => .error e
      | .ok v =>
        match NDict.getItem rel v.1 with
        | .error e => .error e
        | .ok v₁ =>
          if (v₁.2 == c) = true then .ok (.yield (v.1, v.1, st.2.2)) else .ok (.yield (v.1, st.2.1, st.2.2))

/-- what the translated function does after the loop: the fuel check -/
def flPost (rel : NDict (Nat × Nat)) (r : Except PyExc (Nat × Nat × Bool)) : Except PyExc Nat :=
  match r with
  | .error e => .error e
  | .ok v =>
    if v.2.2 = true then
      match NDict.getItem rel v.1 with
      | .error e => .error e
      | .ok v₁ => if (!v₁.1 == v.1) = true then .error .fuel else .ok v.2.1
    else .ok v.2.1

theorem find_leftmost_unfold (g : CfwMgr) (u c fuel : Nat) :
    find_leftmost g u c fuel =
      if (!NDict.has g.cfw_merge_relation u) = true then .ok u
      else flPost g.cfw_merge_relation (loopN (flBody g.cfw_merge_relation c) fuel (u, u, true)) := by
  unfold find_leftmost
  simp only [bind, Except.bind, pure, Except.pure, throw, throwThe, MonadExceptOf.throw]
  rw [forIn_range_eq_loopN, loopN_congr (g := flBody g.cfw_merge_relation c)]
  · split
    · rfl
    · generalize loopN (flBody g.cfw_merge_relation c) fuel (u, u, true) = r
      cases r with
      | error e => rfl
      | ok v =>
        simp only [flPost]
        split
        · cases NDict.getItem g.cfw_merge_relation v.1 <;> rfl
        · rfl
  · intro st
    simp only [flBody]
    cases NDict.getItem g.cfw_merge_relation st.1 with
    | error e => rfl
    | ok v =>
      simp only []
      split
      · rfl
      · cases NDict.getItem g.cfw_merge_relation v.1 <;> rfl

/-- the loop with the fuel check is the model's `leftLoop`, from every loop state whose `uuid` is a key -/
theorem flLoop_eq (rel : Rel) (c : Cls) : ∀ (n : Nat) (u p lm : Uuid) (cl : Cls), dget rel u = some (p, cl) →
    flPost rel (loopN (flBody rel c) n (u, lm, true)) = lift id (leftLoop rel c n u p lm) := by
  intro n
  induction n with
  | zero =>
    intro u p lm cl hu
    simp only [loopN, flPost, leftLoop, getItem_eq_dget, hu]
    by_cases hp : p = u <;> simp [hp, toExc]
  | succ n ih =>
    intro u p lm cl hu
    by_cases hp : p = u
    · simp [loopN, flBody, flPost, leftLoop, getItem_eq_dget, hu, hp]
    · cases hpp : dget rel p with
      | none => simp [loopN, flBody, flPost, leftLoop, getItem_eq_dget, hu, hp, hpp, toExc]
      | some q =>
        obtain ⟨pp, cl'⟩ := q
        have := ih p pp (if cl' == c then p else lm) cl' hpp
        by_cases hc : cl' = c
        · simp only [hc, beq_self_eq_true, if_true] at this
          simp [loopN, flBody, leftLoop, getItem_eq_dget, hu, hp, hpp, hc, this]
        · have hc' : (cl' == c) = false := by simpa using hc
          simp only [hc', Bool.false_eq_true, if_false] at this
          simp [loopN, flBody, leftLoop, getItem_eq_dget, hu, hp, hpp, hc, this]

/-- **`find_leftmost` is `CfwReg.findLeftmost`, for every fuel**: same uuid, same KeyError (a left uuid that is not a key),
and the translation is out of fuel exactly when the model is -/
theorem C02.gen_find_leftmost (s : Reg) (u : Uuid) (c : Cls) (fuel : Nat) :
    find_leftmost (toSelf s) u c fuel = lift id (findLeftmost s.rel fuel u c) := by
  rw [find_leftmost_unfold]
  unfold findLeftmost
  simp only [toSelf, has_eq_dget]
  cases hu : dget s.rel u with
  | none => simp
  | some q =>
    obtain ⟨p, cl⟩ := q
    simp only [Option.isSome_some, Bool.not_true, Bool.false_eq_true, if_false]
    exact flLoop_eq s.rel c fuel u p u cl hu

example : find_leftmost (toSelf { rel := [(3, (2, 9)), (2, (1, 8)), (1, (1, 9))] }) 3 9 2 = .ok 1 := by decide
example : find_leftmost (toSelf { rel := [(3, (2, 9)), (2, (1, 8)), (1, (1, 9))] }) 3 9 1 = .error .fuel := by decide

/-! ## look-up -/

/-- **`get_cfw_uuid` is `CfwReg.getCfwUuid`, for every fuel**: the FIRST entry of `compute_frameworks` (registration order)
whose class name is the requested one and whose `children_if_root` contains the feature uuid decides; the answer is
`find_leftmost` from that entry (its exceptions included); `None` when no entry matches -/
theorem C02.gen_get_cfw_uuid (s : Reg) (c : Cls) (f : Uuid) (fuel : Nat) :
    get_cfw_uuid (toSelf s) c f fuel = lift id (getCfwUuid s fuel c f) := by
  unfold get_cfw_uuid getCfwUuid
  simp only [bind, Except.bind, pure, Except.pure]
  rw [forIn_search (toSelf s).compute_frameworks (none, ()) _ (fun x => c == x.2.1 && PSet.has x.2.2 f)
    (fun x => match find_leftmost (toSelf s) x.1 x.2.1 fuel with | .error e => .error e | .ok v => .ok (some (some v), ()))]
  · have hP : ((fun x : Nat × (Nat × PSet) => c == x.2.1 && PSet.has x.2.2 f) ∘ objPair) = hit c f := by
      funext q
      simp only [Function.comp, objPair, hit, PSet.has, List.contains_eq_mem, Bool.beq_comm (a := c)]
      rfl
    simp only [toSelf, List.find?_map, hP]
    cases hq : s.cfws.find? (hit c f) with
    | none => rfl
    | some q =>
      have hc : q.2.cls = c := ((hit_iff c f q).1 (List.find?_some hq)).1
      have := C02.gen_find_leftmost s q.1 c fuel
      simp only [toSelf] at this
      simp only [Option.map_some, objPair, hc, this]
      cases findLeftmost s.rel fuel q.1 c <;> rfl
  · intro x hx
    simp only [hx]; rfl
  · intro x hx
    simp only [hx, if_true]
    cases find_leftmost (toSelf s) x.1 x.2.1 fuel <;> rfl

/-- the first match in registration order decides, later matching entries are not looked at -/
theorem C02.gen_get_cfw_uuid_first_match (s : Reg) (c : Cls) (f : Uuid) (fuel : Nat) (pre post : List (Uuid × Obj)) (a : Uuid × Obj)
    (hs : s.cfws = pre ++ a :: post) (hpre : ∀ q ∈ pre, ¬ (q.2.cls = c ∧ f ∈ q.2.children)) (ha : a.2.cls = c ∧ f ∈ a.2.children) :
    get_cfw_uuid (toSelf s) c f fuel = (find_leftmost (toSelf s) a.1 c fuel).map some := by
  rw [C02.gen_get_cfw_uuid, C02.gen_find_leftmost]
  have : s.cfws.find? (hit c f) = some a := by
    apply List.find?_eq_some_iff_append.mpr
    refine ⟨(hit_iff c f a).mpr ha, pre, post, hs, ?_⟩
    intro x hx
    cases hh : hit c f x
    · rfl
    · exact absurd ((hit_iff c f x).mp hh) (hpre x hx)
  unfold getCfwUuid
  simp only [this]
  cases findLeftmost s.rel fuel a.1 c <;> rfl

/-- `None` exactly when no registered object of that class lists the feature -/
theorem C02.gen_get_cfw_uuid_none_iff (s : Reg) (c : Cls) (f : Uuid) (fuel : Nat) :
    get_cfw_uuid (toSelf s) c f fuel = .ok none ↔ ∀ q ∈ s.cfws, ¬ (q.2.cls = c ∧ f ∈ q.2.children) := by
  rw [C02.gen_get_cfw_uuid, lift_eq_ok_iff]
  unfold getCfwUuid
  constructor
  · rintro ⟨o, h, ho⟩ q hq hc
    simp only [id] at ho; subst ho
    cases hf : s.cfws.find? (hit c f) with
    | none => have := List.find?_eq_none.mp hf q hq; rw [(hit_iff c f q).mpr hc] at this; simp at this
    | some w =>
      simp only [hf] at h
      cases hl : findLeftmost s.rel fuel w.1 c <;> simp [hl, Except.map] at h
  · intro h
    have : s.cfws.find? (hit c f) = none := by
      apply List.find?_eq_none.mpr
      intro q hq hh
      exact h q hq ((hit_iff c f q).mp hh)
    exact ⟨none, by simp [this], rfl⟩

example : get_cfw_uuid (toSelf { cfws := [(10, ⟨1, [5]⟩), (11, ⟨2, [5, 6]⟩), (12, ⟨2, [6]⟩)], rel := [(11, (12, 2)), (12, (12, 2))] }) 2 6 5
    = .ok (some 12) := by decide

/-- `get_initialized_compute_framework_uuid` is `CfwReg.getInitialized` (`cf_class.get_class_name()` = `c`) -/
theorem C02.gen_get_initialized (s : Reg) (c : Cls) (f : Uuid) (fuel : Nat) :
    get_initialized_compute_framework_uuid (toSelf s) () f c fuel = lift some (getInitialized s fuel c f) := by
  unfold get_initialized_compute_framework_uuid getInitialized
  simp only [bind, Except.bind, pure, Except.pure, C02.gen_get_cfw_uuid]
  cases getCfwUuid s fuel c f with
  | error e => rfl
  | ok o => cases o <;> simp [lift, toExc, throw, throwThe, MonadExceptOf.throw]

example : get_initialized_compute_framework_uuid (toSelf { cfws := [(10, ⟨1, [5]⟩)] }) () 6 1 0 =
    .error (.valueError "No compute framework registered.") := by decide
example : get_initialized_compute_framework_uuid (toSelf { cfws := [(10, ⟨1, [5]⟩)] }) () 5 1 0 = .ok (some 10) := by decide

/-- the `Optional` local is never returned as None: the result annotation `UUID` of the Python method is honoured -/
theorem C02.gen_get_initialized_never_none (g : CfwMgr) (cc : Unit) (c : Cls) (f : Uuid) (fuel : Nat) :
    get_initialized_compute_framework_uuid g cc f c fuel ≠ .ok none := by
  rw [← toSelf_ofSelf g, C02.gen_get_initialized]
  cases getInitialized (ofSelf g) fuel c f <;> simp [lift]

/-! ## error cell, location, artifacts, api data, side tables -/

theorem C02.gen_set_error (s : Reg) (m e : Option Nat) : set_error (toSelf s) m e = .ok (toSelf (setError s m e)) := rfl

theorem C02.gen_get_error (s : Reg) :
    get_error (toSelf s) = .ok s.error ∧ get_error_msg (toSelf s) = .ok s.msg ∧ get_error_exc_info (toSelf s) = .ok s.exc :=
  ⟨rfl, rfl, rfl⟩

/-- **the error cell holds the LAST report**: after `set_error(m₁, e₁)` and `set_error(m₂, e₂)` the flag is set and message /
exc_info are those of the second call - the first report is gone (and no other method writes the three fields:
`C02.gen_error_cell_only_written_by_set_error`) -/
theorem C02.gen_error_last_writer_wins (g g₁ g₂ : CfwMgr) (m₁ e₁ m₂ e₂ : Option Nat)
    (h₁ : set_error g m₁ e₁ = .ok g₁) (h₂ : set_error g₁ m₂ e₂ = .ok g₂) :
    get_error g₂ = .ok true ∧ get_error_msg g₂ = .ok m₂ ∧ get_error_exc_info g₂ = .ok e₂ := by
  simp only [set_error, pure, Except.pure, Except.ok.injEq] at h₁ h₂
  subst h₁ h₂
  exact ⟨rfl, rfl, rfl⟩

/-- none of the other state-changing methods touches `error`, `msg`, `exc_info` (whether it raises or not) -/
theorem C02.gen_error_cell_only_written_by_set_error (g g' : CfwMgr) (u v : Uuid) (c : Cls) (ch : List Uuid) (n a : Nat)
    (d : Option (List (Nat × Option Nat)))
    (h : add_cfw_to_compute_frameworks g u c ch = .ok g' ∨ add_to_merge_relation g u v c = .ok g' ∨ set_location g n = .ok g' ∨
      set_artifact_to_save g n a = .ok g' ∨ set_api_data g d = .ok g' ∨ add_uuid_flyway_datasets g u ch = .ok g' ∨
      add_column_names_to_cf_uuid g u ch = .ok g') :
    g'.error = g.error ∧ g'.msg = g.msg ∧ g'.exc_info = g.exc_info := by
  rcases h with h | h | h | h | h | h | h
  · unfold add_cfw_to_compute_frameworks at h
    simp only [bind, Except.bind, pure, Except.pure, throw, throwThe, MonadExceptOf.throw] at h
    split at h
    · simp at h
    · simp only [Except.ok.injEq] at h; subst h; exact ⟨rfl, rfl, rfl⟩
  · unfold add_to_merge_relation at h
    simp only [pure, Except.pure] at h
    split at h <;> (simp only [Except.ok.injEq] at h; subst h; exact ⟨rfl, rfl, rfl⟩)
  · unfold set_location at h
    simp only [pure, Except.pure] at h
    split at h <;> (simp only [Except.ok.injEq] at h; subst h; exact ⟨rfl, rfl, rfl⟩)
  · unfold set_artifact_to_save at h
    simp only [bind, Except.bind, pure, Except.pure, throw, throwThe, MonadExceptOf.throw] at h
    split at h
    · simp at h
    · simp only [Except.ok.injEq] at h; subst h; exact ⟨rfl, rfl, rfl⟩
  · simp only [set_api_data, pure, Except.pure, Except.ok.injEq] at h; subst h; exact ⟨rfl, rfl, rfl⟩
  · simp only [add_uuid_flyway_datasets, pure, Except.pure, Except.ok.injEq] at h; subst h; exact ⟨rfl, rfl, rfl⟩
  · simp only [add_column_names_to_cf_uuid, pure, Except.pure, Except.ok.injEq] at h; subst h; exact ⟨rfl, rfl, rfl⟩

/-- `set_error` never raises and changes nothing but the three error fields -/
theorem C02.gen_set_error_total (g : CfwMgr) (m e : Option Nat) :
    set_error g m e = .ok { g with error := true, msg := m, exc_info := e } := rfl

example : (do let g ← set_error (toSelf {}) (some 1) (some 2); let g ← set_error g (some 3) none; get_error_msg g) = .ok (some 3) := by rfl

theorem C02.gen_set_location (s : Reg) (loc : Nat) : set_location (toSelf s) loc = .ok (toSelf (setLocation s loc)) := by
  unfold set_location setLocation
  cases h : s.location with
  | none => simp [toSelf, h, pure, Except.pure]
  | some n =>
    cases n with
    | zero => simp [toSelf, h, strTruthy, pure, Except.pure]
    | succ k => simp [toSelf, h, strTruthy, pure, Except.pure]

theorem C02.gen_get_location (s : Reg) : get_location (toSelf s) = .ok s.location := rfl

/-- the first non-empty location stays -/
theorem C02.gen_location_first_nonempty_wins (g : CfwMgr) (n loc : Nat) (h : g.location = some (n + 1)) :
    set_location g loc = .ok g := by
  simp [set_location, h, strTruthy, pure, Except.pure]

/-- …but an EMPTY string that was stored first is replaced -/
theorem C02.gen_location_empty_string_replaced_witness :
    (do let g ← init (toSelf {}); let g ← set_location g 0; let g ← set_location g 7; get_location g) = .ok (some 7) := by decide

theorem C02.gen_set_artifact (s : Reg) (n a : Nat) : set_artifact_to_save (toSelf s) n a = lift toSelf (setArtifact s n a) := by
  unfold set_artifact_to_save setArtifact
  simp only [toSelf, has_eq_dget, set_eq_dset]
  cases h : (dget s.artifacts n).isSome with
  | true => simp [bind, Except.bind, throw, throwThe, MonadExceptOf.throw, toExc]
  | false => simp [pure, Except.pure]; rfl

theorem C02.gen_get_artifacts (s : Reg) : get_artifacts (toSelf s) = .ok s.artifacts := rfl
theorem C02.gen_get_compute_frameworks (s : Reg) : get_compute_frameworks (toSelf s) = .ok (s.cfws.map objPair) := rfl

theorem C02.gen_api_data_set (s : Reg) (d : Option (List (Nat × Option Nat))) :
    set_api_data (toSelf s) d = .ok (toSelf (setApiData s d)) := rfl

/-- `get_api_data_by_name` is `CfwReg.getApiData`: ValueError "No api data set." before `set_api_data`, the "not found"
ValueError for an absent key AND for a key whose value is None, the value otherwise -/
theorem C02.gen_api_data_get (s : Reg) (k : Nat) : get_api_data_by_name (toSelf s) k = lift some (getApiData s k) := by
  unfold get_api_data_by_name getApiData
  cases hd : s.apiData with
  | none => simp [toSelf, hd, bind, Except.bind, throw, throwThe, MonadExceptOf.throw, toExc]
  | some d =>
    simp only [toSelf, hd, Opt.deref, get?_eq_dget]
    cases hk : dget d k with
    | none => simp [hk, bind, Except.bind, throw, throwThe, MonadExceptOf.throw, toExc]
    | some v => cases v <;> simp [hk, bind, Except.bind, pure, Except.pure, throw, throwThe, MonadExceptOf.throw, toExc]

/-- a stored None is indistinguishable from a missing key; a falsy value (0) is returned -/
theorem C02.gen_api_data_none_value_witness :
    get_api_data_by_name (toSelf { apiData := some [(1, none), (2, some 0)] }) 1 = .error (.valueError "Api data with key {} not found.") ∧
    get_api_data_by_name (toSelf { apiData := some [(1, none), (2, some 0)] }) 3 = .error (.valueError "Api data with key {} not found.") ∧
    get_api_data_by_name (toSelf { apiData := some [(1, none), (2, some 0)] }) 2 = .ok (some 0) := by decide

/-- the result is never None (the method either raises or returns a value) and the AttributeError of `None.get` is
unreachable: the `is None` test comes first -/
theorem C02.gen_api_data_never_none (g : CfwMgr) (k : Nat) :
    get_api_data_by_name g k ≠ .ok none ∧ get_api_data_by_name g k ≠ .error .attributeError := by
  rw [← toSelf_ofSelf g, C02.gen_api_data_get]
  cases h : getApiData (ofSelf g) k with
  | ok v => simp [lift]
  | error e => cases e <;> simp [lift, toExc]

theorem C02.gen_flyway (s : Reg) (u : Uuid) (ds : List Uuid) :
    add_uuid_flyway_datasets (toSelf s) u ds = .ok (toSelf (addFlyway s u ds)) ∧
    get_uuid_flyway_datasets (toSelf s) u = .ok (getFlyway s u) := by
  constructor
  · simp [add_uuid_flyway_datasets, addFlyway, toSelf, set_eq_dset, pure, Except.pure]
  · simp [get_uuid_flyway_datasets, getFlyway, toSelf, get?_eq_dget, pure, Except.pure]

/-- `get_column_names` of a uuid nothing was stored for is a KeyError (unlike `get_uuid_flyway_datasets`, which answers None) -/
theorem C02.gen_col_names (s : Reg) (u : Uuid) (cs : List Nat) :
    add_column_names_to_cf_uuid (toSelf s) u cs = .ok (toSelf (addColNames s u cs)) ∧
    get_column_names (toSelf s) u = lift id (getColNames s u) := by
  constructor
  · simp [add_column_names_to_cf_uuid, addColNames, toSelf, set_eq_dset, pure, Except.pure]
  · simp only [get_column_names, getColNames, toSelf, getItem_eq_dget]
    cases dget s.colNames u <;> rfl

/-! ## consequences for the translated code (theorems of `Props/C02_cfw.lean` carried over the bridge) -/

/-- in a forest-shaped merge relation the translated `find_leftmost` returns within `len(cfw_merge_relation)` rounds of its
`while`, from every start uuid and for every class name -/
theorem C02.gen_find_leftmost_terminates_on_forest (g : CfwMgr) (hf : Forest g.cfw_merge_relation) (u : Uuid) (c : Cls) :
    ∃ v, find_leftmost g u c g.cfw_merge_relation.length = .ok v := by
  obtain ⟨v, hv⟩ := findLeftmost_terminates g.cfw_merge_relation hf u c
  refine ⟨v, ?_⟩
  have := C02.gen_find_leftmost (ofSelf g) u c g.cfw_merge_relation.length
  rw [toSelf_ofSelf] at this
  rw [this]
  show lift id (findLeftmost g.cfw_merge_relation _ u c) = _
  rw [hv]; rfl

/-- **a two-cycle makes the real loop spin**: after `add_to_merge_relation(1, 2, c)` and `add_to_merge_relation(2, 1, c)` the
translated `find_leftmost` is out of fuel at EVERY fuel - the Python call never returns -/
theorem C02.gen_merge_cycle_spins_witness (fuel : Nat) :
    (do let g ← add_to_merge_relation (toSelf {}) 1 2 0; let g ← add_to_merge_relation g 2 1 0; find_leftmost g 1 0 fuel)
      = .error .fuel := by
  have h1 : add_to_merge_relation (toSelf {}) 1 2 0 = .ok (toSelf { rel := [(2, (1, 0)), (1, (1, 0))] }) := by rfl
  have h2 : add_to_merge_relation (toSelf { rel := [(2, (1, 0)), (1, (1, 0))] }) 2 1 0 = .ok (toSelf { rel := [(2, (1, 0)), (1, (2, 0))] }) := by rfl
  simp only [h1, h2, bind, Except.bind, C02.gen_find_leftmost, findLeftmost, dget]
  simp [(spin_aux fuel 1).1, toExc]
