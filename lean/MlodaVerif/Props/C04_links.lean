import MlodaVerif.Lemmas.LinkOrderQueue
import MlodaVerif.Lemmas.LinkOrderPerm
import MlodaVerif.Lemmas.LinkOrderRel
import MlodaVerif.Lemmas.LinkOrderReorder
import MlodaVerif.Lemmas.LinkOrderAdd
/-! # C04 (extension `links`) - the code that orders joins inside the planner

Model: `Model/LinkOrder.lean` (`LinkTrekker`, `ResolveLinks.add_links_to_queue`, `ResolveComputeFrameworks`).
All theorems quantify over every queue / dict / iteration order; closed witnesses (`decide`) show where the full
statement is false for the code.  `l ∈ order[k]` reads "link `l` waits for link `k`" (`rel o k l`).
-/
open LinkOrder

/-! ## `order_queue_by_trekker_order` -/

/-- every feature-group entry of the planned queue is kept, in the same relative order - for every `orders`, every
iteration order of the sets of `issue_collector`, every queue -/
theorem C04.link_queue_keeps_non_links (orders : Order) (ords : Nat → List Key) (q : List PEl) :
    nonLinks (orderQueue orders ords q) = nonLinks q := by
  rw [orderQueue_eq, oqRun_nonLinks]; simp [nonLinks]

/-- nothing is invented: every element of the result is an element of the input -/
theorem C04.link_queue_no_new_links (orders : Order) (ords : Nat → List Key) (q : List PEl) :
    ∀ x ∈ orderQueue orders ords q, x ∈ q := by
  rw [orderQueue_eq]
  exact oqRun_mem orders ords q {} (· ∈ q) (by simp) (by simp) (fun x hx => hx)

/-- the guarantee the code really gives: a link entry `p` is only ever placed behind an entry of EVERY link `k` with
`p.link ∈ orders[k]` (for every input, no hypothesis) -/
theorem C04.link_queue_respects_order (orders : Order) (ords : Nat → List Key) (q pre post : List PEl) (p : Key)
    (h : orderQueue orders ords q = pre ++ .link p :: post) :
    ∀ e ∈ orders, p.link ∈ e.2 → ∃ d, PEl.link d ∈ pre ∧ d.link = e.1 := by
  have hr := (oqRun_rinv ords q ({} : OQ) (orders := orders) ⟨trivial, by simp⟩).1
  rw [← orderQueue_eq, h] at hr
  intro e he hu
  rcases respectsFrom_split hr e he hu with h' | h'
  · simp at h'
  · exact mem_linkIds.mp h'

/-- a queue that already respects `orders` is returned unchanged - whatever the dict order of `orders` and the
iteration orders are (so on such queues the function is deterministic) -/
theorem C04.link_queue_unchanged_of_consistent (orders : Order) (ords : Nat → List Key) (q : List PEl)
    (h : respectsFrom orders [] q) : orderQueue orders ords q = q := by
  rw [orderQueue_eq, oqRun_consistent orders ords q {} rfl h]; rfl

/-- with pairwise different link uuids in the queue, the result is the input minus some link entries: a link entry
can get LOST but is never doubled -/
theorem C04.link_queue_subperm_partial (orders : Order) (ords : Nat → List Key) (q : List PEl) (hn : (linkIds q).Nodup) :
    ∃ lost : List Key, q.Perm (orderQueue orders ords q ++ lost.map PEl.link) :=
  orderQueue_account orders ords q hn

/-- ... in particular no link entry occurs twice in the result.
Full statement ("a link occurs at most as often as in the input") is false: `C04.link_queue_links_nodup_witness`. -/
theorem C04.link_queue_links_nodup_partial (orders : Order) (ords : Nat → List Key) (q : List PEl) (hn : (linkIds q).Nodup) :
    (linkKeys (orderQueue orders ords q)).Nodup :=
  orderQueue_links_nodup orders ords q hn

/-- two trekker keys of ONE link (same uuid, different frameworks) in the queue: the link filed under it is appended
again every time an entry with that uuid is appended -/
theorem C04.link_queue_links_nodup_witness :
    orderQueue [(5, [7])] (fun _ => []) [.link ⟨7, 0, 1⟩, .link ⟨5, 0, 1⟩, .link ⟨5, 0, 2⟩] =
      [.link ⟨5, 0, 1⟩, .link ⟨7, 0, 1⟩, .link ⟨5, 0, 2⟩, .link ⟨7, 0, 1⟩] := by decide

/-- the result is a permutation of the input when (decidable hypothesis `Depth1`) link uuids are pairwise
different, every link waits for at most one link, awaited links do not wait themselves and are in the queue.
Full statement (a permutation for every acyclic `orders`) is false: see the three witnesses below. -/
theorem C04.link_queue_perm_partial (orders : Order) (ords : Nat → List Key) (q : List PEl) (h : Depth1 orders q) :
    (orderQueue orders ords q).Perm q :=
  orderQueue_perm_of_depth1 orders ords q h

/-- non-vacuity: a queue in which two links are too early satisfies `Depth1`, and is really reordered -/
example : Depth1 [(0, [1, 2])] [.link ⟨1, 0, 1⟩, .fg 9, .link ⟨2, 0, 1⟩, .link ⟨0, 1, 2⟩, .fg 8] :=
  ⟨by decide, by decide, by decide, by decide⟩
example : orderQueue [(0, [1, 2])] (fun _ => []) [.link ⟨1, 0, 1⟩, .fg 9, .link ⟨2, 0, 1⟩, .link ⟨0, 1, 2⟩, .fg 8] =
    [.fg 9, .link ⟨0, 1, 2⟩, .link ⟨1, 0, 1⟩, .link ⟨2, 0, 1⟩, .fg 8] := by decide

/-- a link that waits for TWO links that are both still to come is filed under one of them only, re-checked once,
and lost (`orders` acyclic, all uuids different).  Reached by real requests (finding F-C04L-lost-waits-for-two). -/
theorem C04.link_queue_drops_link_witness :
    orderQueue [(0, [2]), (1, [2])] (fun _ => []) [.link ⟨2, 0, 1⟩, .link ⟨0, 1, 2⟩, .fg 7, .link ⟨1, 2, 3⟩] =
      [.link ⟨0, 1, 2⟩, .fg 7, .link ⟨1, 2, 3⟩] := by decide

/-- "acyclic and every link waits for at most one link" is NOT enough: in the chain 2 → 1 → 0 met in the wrong order
link 1 is re-added when 0 arrives, but nobody looks at what was filed under 1 -/
theorem C04.link_queue_drops_chain_witness :
    orderQueue [(1, [2]), (0, [1])] (fun _ => []) [.link ⟨2, 0, 1⟩, .link ⟨1, 1, 2⟩, .link ⟨0, 2, 3⟩] =
      [.link ⟨0, 2, 3⟩, .link ⟨1, 1, 2⟩] := by decide

/-- links on a cycle of three (only cycles of two are broken by `drop_dependency…`) are all lost -/
theorem C04.link_queue_drops_cycle_witness :
    orderQueue [(0, [1]), (1, [2]), (2, [0])] (fun _ => []) [.link ⟨0, 0, 1⟩, .link ⟨1, 1, 2⟩, .link ⟨2, 2, 0⟩, .fg 3] = [.fg 3] := by
  decide

/-! ### determinism of `order_queue_by_trekker_order` -/

/-- the dict order of `orders` decides whether a link survives: same relation, same queue, other insertion order -/
theorem C04.link_queue_dict_order_witness :
    orderQueue [(0, [2]), (1, [2])] (fun _ => []) [.link ⟨2, 0, 1⟩, .link ⟨1, 2, 3⟩, .link ⟨0, 1, 2⟩] =
      [.link ⟨1, 2, 3⟩, .link ⟨0, 1, 2⟩, .link ⟨2, 0, 1⟩] ∧
    orderQueue [(1, [2]), (0, [2])] (fun _ => []) [.link ⟨2, 0, 1⟩, .link ⟨1, 2, 3⟩, .link ⟨0, 1, 2⟩] =
      [.link ⟨1, 2, 3⟩, .link ⟨0, 1, 2⟩] := by decide

/-- the iteration order of the SET `issue_collector[k]` (hash order of tuples of Link objects, so it follows the hash
seed) decides whether a link survives -/
theorem C04.link_queue_set_order_witness :
    orderQueue [(0, [1, 2]), (1, [2])] (fun _ => [⟨1, 0, 1⟩, ⟨2, 0, 1⟩]) [.link ⟨1, 0, 1⟩, .link ⟨2, 0, 1⟩, .link ⟨0, 1, 2⟩] =
      [.link ⟨0, 1, 2⟩, .link ⟨1, 0, 1⟩, .link ⟨2, 0, 1⟩] ∧
    orderQueue [(0, [1, 2]), (1, [2])] (fun _ => [⟨2, 0, 1⟩, ⟨1, 0, 1⟩]) [.link ⟨1, 0, 1⟩, .link ⟨2, 0, 1⟩, .link ⟨0, 1, 2⟩] =
      [.link ⟨0, 1, 2⟩, .link ⟨1, 0, 1⟩] := by decide

/-- every enumeration of a set is obtained from some `ord` argument (so "for all `ords`" = for all iteration orders) -/
theorem C04.iter_order_realised (ord s : List Key) (h : ord.Nodup) (hm : ∀ x, x ∈ ord ↔ x ∈ s) : iterSet ord s = ord :=
  iterSet_realises h hm

/-! ## `order_links_by_frameworks` -/

/-- what the double loop computes, before circular dependencies are dropped: `l` waits for `k` iff some trekker
key of `l` has as RIGHT framework the LEFT framework of some trekker key of `k`, unless that is also the left
framework of `l`'s key; what was in `order` before stays (the second call in `links` only adds) -/
theorem C04.order_relation_iff (keys : List Key) (o : Order) (k l : Nat) :
    rel (orderRaw keys o) k l ↔
      rel o k l ∨ ∃ tk ∈ keys, ∃ ok ∈ keys, (tk.link ≠ ok.link ∧ tk.right = ok.left ∧ ok.left ≠ tk.left) ∧ k = ok.link ∧ l = tk.link := by
  rw [orderRaw_eq, rel_orderRaw2]; rfl

/-- the relation does not depend on the insertion order of `data` … -/
theorem C04.order_relation_perm_invariant (keys keys' : List Key) (h : keys.Perm keys') (k l : Nat) :
    rel (orderRaw keys []) k l ↔ rel (orderRaw keys' []) k l := by
  simp only [C04.order_relation_iff]
  constructor
  · rintro (h' | ⟨tk, htk, ok, hok, hc⟩)
    · exact Or.inl h'
    · exact Or.inr ⟨tk, h.mem_iff.mp htk, ok, h.mem_iff.mp hok, hc⟩
  · rintro (h' | ⟨tk, htk, ok, hok, hc⟩)
    · exact Or.inl h'
    · exact Or.inr ⟨tk, h.mem_iff.mpr htk, ok, h.mem_iff.mpr hok, hc⟩

/-- … but the ORDER OF THE KEYS of `order` does (and that order is what `order_queue_by_trekker_order` files links by) -/
theorem C04.order_relation_key_order_witness :
    dkeys (orderRaw [⟨0, 0, 1⟩, ⟨1, 1, 2⟩, ⟨2, 1, 3⟩] []) = [1, 2] ∧
    dkeys (orderRaw [⟨0, 0, 1⟩, ⟨2, 1, 3⟩, ⟨1, 1, 2⟩] []) = [2, 1] := by decide

/-- `order` stays a dict (no key twice) -/
theorem C04.order_relation_keys_nodup (keys : List Key) (o : Order) (h : (dkeys o).Nodup) : (dkeys (orderRaw keys o)).Nodup := by
  rw [orderRaw_eq]; exact nodup_dkeys_orderRaw2 h

/-- postcondition of `drop_dependency_in_case_of_circular_dependencies`: no two links wait for each other any more;
only edges of 2-cycles were removed; the keys of `order` are unchanged -/
theorem C04.drop_circular_no_two_cycles (data : List (Key × List Nat)) (o o' : Order)
    (h : dropCircular data o = .ok o') (hn : (dkeys o).Nodup) :
    dkeys o' = dkeys o ∧ (∀ a b, a ≠ b → ¬(rel o' a b ∧ rel o' b a)) ∧
    (∀ k l, rel o' k l → rel o k l) ∧ (∀ k l, rel o k l → rel o' k l ∨ rel o l k) := by
  obtain ⟨h1, h2, h3, h4⟩ := dropCircular_spec h hn
  exact ⟨h1, h3, h2, h4⟩

/-- `order_links_by_frameworks` on a fresh trekker never raises ("Link not found in data!" is unreachable then) and
leaves no 2-cycle -/
theorem C04.order_links_ok (t : Trekker) (h0 : t.order = []) :
    ∃ t', orderLinksByFrameworks t = .ok t' ∧ t'.data = t.data ∧ t'.dataOrdered = t.dataOrdered ∧
      ∀ a b, a ≠ b → ¬(rel t'.order a b ∧ rel t'.order b a) := by
  have hcov : Covered t.data (dkeys (orderRaw (dkeys t.data) t.order)) := by
    intro k hk
    rw [orderRaw_eq, h0] at hk
    rcases dkeys_orderRaw2_sub hk with h | ⟨ok, hok, rfl⟩
    · simp at h
    · obtain ⟨v, hv⟩ := mem_dkeys.mp hok
      exact ⟨(ok, v), hv, rfl⟩
  obtain ⟨o', ho'⟩ := dropOuter_ok (o := orderRaw (dkeys t.data) t.order) hcov hcov
  have hn : (dkeys (orderRaw (dkeys t.data) t.order)).Nodup := by
    rw [h0]; exact C04.order_relation_keys_nodup _ _ (by simp)
  have hspec := dropCircular_spec (data := t.data) (o := orderRaw (dkeys t.data) t.order) ho' hn
  refine ⟨{ t with order := o' }, ?_, rfl, rfl, hspec.2.2.1⟩
  simp only [orderLinksByFrameworks, dropCircular]
  rw [ho']

/-- cycles of THREE survive (nothing looks for them): the three links of a framework ring wait for each other -/
theorem C04.order_links_three_cycle_witness :
    (orderLinksByFrameworks { data := [(⟨0, 0, 1⟩, [0]), (⟨1, 1, 2⟩, [0]), (⟨2, 2, 0⟩, [0])] }).toOption.map (·.order) =
      some [(1, [0]), (2, [1]), (0, [2])] := by decide

/-- which direction of a 2-cycle is dropped follows the number of dependants, ties are broken by the dict order of
`order`, i.e. by the insertion order of `data`: not invariant under permutation of `data` -/
theorem C04.drop_circular_data_order_witness :
    (orderLinksByFrameworks { data := [(⟨0, 0, 1⟩, [0]), (⟨1, 1, 0⟩, [0])] }).toOption.map (·.order) = some [(1, [0]), (0, [])] ∧
    (orderLinksByFrameworks { data := [(⟨1, 1, 0⟩, [0]), (⟨0, 0, 1⟩, [0])] }).toOption.map (·.order) = some [(0, [1]), (1, [])] := by
  decide

/-! ## `order_ordered_ids_by_relation` -/

/-- when no two keys are sent to the same `pos_marker` slot (decidable: `lps` is the list of remembered positions)
the new `order` is a permutation of the old one (entries, not just keys) -/
theorem C04.reorder_is_perm_partial (o : Order) (hn : (dkeys o).Nodup) (hl : (lps o o 0).Nodup) : (reorder o).Perm o :=
  reorder_perm o hn hl

example : (lps [(3, [7]), (1, [3]), (2, []), (4, [2])] [(3, [7]), (1, [3]), (2, []), (4, [2])] 0).Nodup ∧
    reorder [(3, [7]), (1, [3]), (2, []), (4, [2])] = [(1, [3]), (4, [2]), (3, [7]), (2, [])] := by decide

/-- the full statement is false: two keys that are members of the same later entry get the same slot, the collision
handling (`range(latest_position, len(pos_marker))` is empty) overwrites: key 1 and its set are LOST from `order` -/
theorem C04.reorder_is_perm_witness :
    reorder [(1, [8]), (2, [9]), (3, [1, 2])] = [(3, [1, 2]), (2, [9])] := by decide

/-- the collision handling (`for i in range(latest_position, len(pos_marker))`) is dead code: when it is reached
`len(pos_marker) ≤ o_pos < latest_position`, the range is empty, so a second key for an occupied slot ALWAYS overwrites
the first one (for every `order`): the loop equals the loop without it -/
theorem C04.reorder_collision_handling_dead (o : Order) :
    reorderLoop o o 0 ([], []) = reorderLoopPlain o o 0 ([], []) :=
  reorderLoop_eq_plain o o 0 [] [] (by simp)

/-- what the function is for: every key ends up AFTER the keys it is a member of - under the hypotheses of
`C04.reorder_is_perm_partial` and when no MOVED key has a key of `order` among its members (decidable; `dfList` = the moved
entries with their remembered positions).  Full statement is false: `C04.reorder_misorders_chain_witness`. -/
theorem C04.reorder_respects_partial (o : Order) (hn : (dkeys o).Nodup) (hl : (lps o o 0).Nodup)
    (hH : ∀ d ∈ dfList o o 0, ∀ eo ∈ o, eo.1 ∉ d.2.2)
    (ei eo : Nat × List Nat) (hi : ei ∈ o) (ho : eo ∈ o) (hm : eo.1 ∈ ei.2) (hne : ei ≠ eo) :
    before (reorder o) ei eo :=
  reorder_respects o hn hl hH ei eo hi ho hm hne

example : (dkeys [(3, [7]), (1, [3]), (2, []), (4, [2])]).Nodup ∧ (lps [(3, [7]), (1, [3]), (2, []), (4, [2])] [(3, [7]), (1, [3]), (2, []), (4, [2])] 0).Nodup ∧
    (∀ d ∈ dfList [(3, [7]), (1, [3]), (2, []), (4, [2])] [(3, [7]), (1, [3]), (2, []), (4, [2])] 0,
      ∀ eo ∈ [(3, [7]), (1, [3]), (2, []), (4, [2])], eo.1 ∉ d.2.2) := by decide

/-- the order the function is meant to establish ("a key comes after the keys it is a member of") is NOT established
for a chain met in the wrong order: 1 waits for 2, 2 waits for 3; result 3, 1, 2 -/
theorem C04.reorder_misorders_chain_witness :
    dkeys (reorder [(1, []), (2, [1]), (3, [2])]) = [3, 1, 2] := by decide

/-! ## `create_data_ordered` -/

/-- whenever `create_data_ordered` returns (i.e. passes `validate_data_consistency`), `data_ordered` holds exactly the
keys of `data`, each once; `data` and `order` are untouched -/
theorem C04.data_ordered_perm (t t' : Trekker) (h : createDataOrdered t = .ok t')
    (hd : (dkeys t.data).Nodup) (ho : (dkeys t.dataOrdered).Nodup) :
    (dkeys t'.dataOrdered).Perm (dkeys t.data) ∧ t'.data = t.data ∧ t'.order = t.order :=
  createDataOrdered_perm h hd ho

/-- and it does return when `data_ordered` has no stale key - in particular on the first call -/
theorem C04.data_ordered_ok (t : Trekker) (hd : (dkeys t.data).Nodup) (ho : (dkeys t.dataOrdered).Nodup)
    (hsub : ∀ k ∈ dkeys t.dataOrdered, k ∈ dkeys t.data) : ∃ t', createDataOrdered t = .ok t' :=
  createDataOrdered_ok hd ho hsub

/-- "fill ordered dict by priority": on the first call every key whose link is a key of `order` precedes every key whose
link is not -/
theorem C04.data_ordered_priority (t t' : Trekker) (h0 : t.dataOrdered = []) (h : createDataOrdered t = .ok t')
    (a b : Key) (ha : a ∈ dkeys t.data) (hb : b ∈ dkeys t.data) (hal : a.link ∈ dkeys t.order) (hbl : b.link ∉ dkeys t.order) :
    before (dkeys t'.dataOrdered) a b :=
  createDataOrdered_priority h0 h a b ha hb hal hbl

example : (createDataOrdered { data := [(⟨0, 0, 1⟩, [4]), (⟨1, 1, 2⟩, [4, 5]), (⟨2, 0, 0⟩, [6])], order := [(1, [0])] }).toOption.map
    (fun t => dkeys t.dataOrdered) = some [⟨1, 1, 2⟩, ⟨0, 0, 1⟩, ⟨2, 0, 0⟩] := by decide

/-- the ORDER of `data_ordered` follows the insertion order of `data` wherever `order` says nothing -/
theorem C04.data_ordered_order_witness :
    (createDataOrdered { data := [(⟨0, 0, 0⟩, [4]), (⟨1, 0, 0⟩, [4])] }).toOption.map (fun t => dkeys t.dataOrdered) = some [⟨0, 0, 0⟩, ⟨1, 0, 0⟩] ∧
    (createDataOrdered { data := [(⟨1, 0, 0⟩, [4]), (⟨0, 0, 0⟩, [4])] }).toOption.map (fun t => dkeys t.dataOrdered) = some [⟨1, 0, 0⟩, ⟨0, 0, 0⟩] := by
  decide

/-! ## `add_links_to_queue` -/

/-- the uuid queue is kept -/
theorem C04.add_links_keeps_queue (ordered : List (Key × List Nat)) (q : List Nat) : uuidsOf (addLinks ordered q) = q := by
  obtain ⟨R, L, h1, h2, _⟩ := addLinksLoop_spec ordered q [] [] (by simp)
  simp only [addLinks, h1]; simpa using h2

/-- every trekker key is inserted at most once, and it is inserted iff some queued uuid depends on it -/
theorem C04.add_links_each_once (ordered : List (Key × List Nat)) (q : List Nat) :
    (linksOf (addLinks ordered q)).Nodup ∧
    ∀ k, QItem.link k ∈ addLinks ordered q ↔ ∃ s, (k, s) ∈ ordered ∧ ∃ u ∈ q, u ∈ s := by
  obtain ⟨R, L, h1, _, h3, h4, h5⟩ := addLinksLoop_spec ordered q [] [] (by simp)
  simp only [addLinks, h1, List.nil_append] at h4 ⊢
  refine ⟨by rw [h3]; exact h4, ?_⟩
  intro k
  rw [← mem_linksOf, h3, h5 k]; simp

/-- … directly before the FIRST queue uuid that depends on it (and after every earlier uuid) -/
theorem C04.add_links_before_first_user (ordered : List (Key × List Nat)) (hn : (dkeys ordered).Nodup)
    (k : Key) (s : List Nat) (hk : (k, s) ∈ ordered) (q1 q2 : List Nat) (u : Nat) (hu : u ∈ s) (hq1 : ∀ x ∈ q1, x ∉ s) :
    ∃ pre post, addLinks ordered (q1 ++ u :: q2) = pre ++ QItem.link k :: post ∧ uuidsOf pre = q1 ∧ uuidsOf post = u :: q2 := by
  obtain ⟨R1, L1, a1, a2, a3, a4, a5⟩ := addLinksLoop_spec ordered q1 [] [] (by simp)
  simp only [List.nil_append] at a1 a4
  have hk1 : k ∉ L1 := by
    intro hh
    obtain ⟨_, s', hs', x, hx, hxs⟩ := (a5 k).mp hh
    have : s' = s := by
      have e1 := dget_of_mem_nodup hn hs'
      have e2 := dget_of_mem_nodup hn hk
      rw [e1] at e2; exact Option.some.inj e2
    exact hq1 x hx (this ▸ hxs)
  obtain ⟨L2, b1, b2, b3⟩ := addLinksFor_spec u ordered R1 L1
  have hk2 : k ∈ L2 := (b3 k).mpr ⟨hk1, s, hk, hu⟩
  obtain ⟨La, Lb, hsplit⟩ := List.append_of_mem hk2
  have hjn : (L1 ++ L2).Nodup := by
    rw [List.nodup_append]
    exact ⟨a4, b2, fun a ha b hb hab => ((b3 b).mp hb).1 (hab ▸ ha)⟩
  obtain ⟨R3, L3, c1, c2, _⟩ := addLinksLoop_spec ordered q2 (R1 ++ L2.map QItem.link ++ [.uuid u]) (L1 ++ L2) hjn
  refine ⟨R1 ++ La.map QItem.link, Lb.map QItem.link ++ [.uuid u] ++ R3, ?_, ?_, ?_⟩
  · simp only [addLinks]
    rw [addLinksLoop_append, a1]
    simp only [addLinksLoop]
    rw [b1, c1, hsplit]
    simp
  · simp [uuidsOf_append, uuidsOf_map_link, a2]
  · simp [uuidsOf_append, uuidsOf_map_link, uuidsOf, c2]

example : addLinks [(⟨1, 1, 2⟩, [5, 6]), (⟨0, 0, 1⟩, [6])] [4, 6, 5] =
    [.uuid 4, .link ⟨1, 1, 2⟩, .link ⟨0, 0, 1⟩, .uuid 6, .uuid 5] := by decide

/-- WHICH links are inserted does not depend on the order of `data_ordered` (only where they go does) -/
theorem C04.add_links_link_set_perm_invariant (ordered ordered' : List (Key × List Nat)) (h : ordered.Perm ordered') (q : List Nat) (k : Key) :
    QItem.link k ∈ addLinks ordered q ↔ QItem.link k ∈ addLinks ordered' q := by
  rw [(C04.add_links_each_once ordered q).2 k, (C04.add_links_each_once ordered' q).2 k]
  constructor
  · rintro ⟨s, hs, hu⟩; exact ⟨s, h.mem_iff.mp hs, hu⟩
  · rintro ⟨s, hs, hu⟩; exact ⟨s, h.mem_iff.mpr hs, hu⟩

/-- for one queue uuid the links come in the order of `ordered` (= `data_ordered`): the output depends on that order -/
theorem C04.add_links_order_witness :
    addLinks [(⟨0, 0, 1⟩, [6]), (⟨1, 1, 2⟩, [6])] [6] = [.link ⟨0, 0, 1⟩, .link ⟨1, 1, 2⟩, .uuid 6] ∧
    addLinks [(⟨1, 1, 2⟩, [6]), (⟨0, 0, 1⟩, [6])] [6] = [.link ⟨1, 1, 2⟩, .link ⟨0, 0, 1⟩, .uuid 6] := by decide
