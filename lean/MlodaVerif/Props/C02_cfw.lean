import MlodaVerif.Lemmas.CfwReg
/-! # C02, extension `cfw` - which compute-framework object a step reads and writes

`Exec` (C02 / C06) assumes that every step of a plan is handed the right compute-framework object.  The code that decides
this is `CfwManager` (`cfw_manager.py`) and the placement half of `ComputeFrameworkExecutor`
(`compute_framework_executor.py`), modelled in `Model/CfwReg.lean`.  All theorems quantify over arbitrary registers /
relations / histories unless they are called `…_witness` (closed counter-examples, replayed on the real code by
`harness/corr/c02_cfw.py`). -/
open CfwReg

/-! ## 1. `get_cfw_uuid` / `find_leftmost` -/

/-- What `find_leftmost(o, c)` returns, exactly: `o` itself when `o` has no entry; otherwise, along the chain
`o → left(o) → left(left(o)) → … → self-loop` (at most `fuel` steps), the LAST node whose own entry is labelled `c` - or `o`
when no node after `o` is labelled `c`.  The label of an entry is the `cls_name` given to the `add_to_merge_relation` call
that wrote it, i.e. the class of the node's *left* neighbour, not of the node. -/
theorem C02.find_leftmost_spec (rel : Rel) (fuel : Nat) (o u : Uuid) (c : Cls) (h : findLeftmost rel fuel o c = .ok u) :
    (dget rel o = none ∧ u = o) ∨
    ∃ path, Chain rel o path ∧ path.length ≤ fuel ∧
      ((u = o ∧ ∀ x ∈ path, label rel x ≠ some c) ∨
       ∃ pre post, path = pre ++ u :: post ∧ label rel u = some c ∧ ∀ x ∈ post, label rel x ≠ some c) := by
  unfold findLeftmost at h
  cases ho : dget rel o with
  | none => simp [ho] at h; exact Or.inl ⟨rfl, h.symm⟩
  | some q =>
    obtain ⟨p, cl⟩ := q
    simp only [ho] at h
    obtain ⟨path, hch, hlen, hv⟩ := leftLoop_ok_chain rel c fuel o p o u cl ho h
    right
    refine ⟨path, hch, hlen, ?_⟩
    rcases pickLast_spec rel c o path with ⟨h1, h2⟩ | ⟨pre, post, h1, h2, h3⟩
    · left; exact ⟨hv.trans h1, h2⟩
    · right; rw [← hv] at h1 h2; exact ⟨pre, post, h1, h2, h3⟩

/-- … and conversely: whenever the chain above `o` ends within the fuel, that node is returned (no error) -/
theorem C02.find_leftmost_complete (rel : Rel) (fuel : Nat) (o : Uuid) (c : Cls) (path : List Uuid)
    (hch : Chain rel o path) (hlen : path.length ≤ fuel) : findLeftmost rel fuel o c = .ok (pickLast rel c o path) := by
  obtain ⟨p, cl, ho⟩ := hch.head_entry
  unfold findLeftmost
  simp only [ho]
  exact leftLoop_of_chain rel c path fuel o p o cl ho hch hlen

/-- homogeneous chains (every entry labelled with the class asked for - the case of joins inside one framework): the
result is the root of the chain, the node that is its own `left` -/
theorem C02.find_leftmost_root_of_homogeneous (rel : Rel) (fuel : Nat) (o u : Uuid) (c : Cls) (path : List Uuid)
    (hch : Chain rel o path) (hlen : path.length ≤ fuel) (hne : path ≠ []) (hlab : ∀ x ∈ path, label rel x = some c)
    (h : findLeftmost rel fuel o c = .ok u) : some u = path.getLast? := by
  rw [C02.find_leftmost_complete rel fuel o c path hch hlen] at h
  simp only [Except.ok.injEq] at h
  rcases pickLast_spec rel c o path with ⟨_, h2⟩ | ⟨pre, post, h1, _, h3⟩
  · cases path with
    | nil => exact absurd rfl hne
    | cons q rest => exact absurd (hlab q (by simp)) (h2 q (by simp))
  · cases post with
    | nil => rw [h1, ← h]; simp
    | cons y ys =>
      have : y ∈ path := by rw [h1]; simp
      exact absurd (hlab y this) (h3 y (by simp))

/-- `get_cfw_uuid(c, f) = u`: some registered object `o` of class `c` lists `f` among its `children_if_root`, it is the
FIRST such object in registration order, and `u = find_leftmost(o, c)` (see `find_leftmost_spec`).  Nothing is promised
about the class of `u` itself (`cfw_lookup_class_mismatch_witness`). -/
theorem C02.cfw_lookup_sound (r : Reg) (fuel : Nat) (c : Cls) (f u : Uuid) (h : getCfwUuid r fuel c f = .ok (some u)) :
    ∃ pre o ob post, r.cfws = pre ++ (o, ob) :: post ∧ ob.cls = c ∧ f ∈ ob.children ∧
      (∀ q ∈ pre, ¬ (q.2.cls = c ∧ f ∈ q.2.children)) ∧ findLeftmost r.rel fuel o c = .ok u := by
  unfold getCfwUuid at h
  cases hf : r.cfws.find? (hit c f) with
  | none => simp [hf] at h
  | some q =>
    simp only [hf] at h
    obtain ⟨hq, pre, post, hsplit, hpre⟩ := List.find?_eq_some_iff_append.mp hf
    obtain ⟨o, ob⟩ := q
    have hq' := (hit_iff c f (o, ob)).mp hq
    refine ⟨pre, o, ob, post, hsplit, hq'.1, hq'.2, ?_, ?_⟩
    · intro x hx hc
      have := hpre x hx
      rw [(hit_iff c f x).mpr hc] at this
      simp at this
    · cases hl : findLeftmost r.rel fuel o c with
      | error e => simp [hl, Except.map] at h
      | ok v => simp [hl, Except.map] at h; rw [h]

/-- `get_cfw_uuid` returns None exactly when no registered object of that class lists the feature uuid -/
theorem C02.cfw_lookup_none_iff (r : Reg) (fuel : Nat) (c : Cls) (f : Uuid) :
    getCfwUuid r fuel c f = .ok none ↔ ∀ q ∈ r.cfws, ¬ (q.2.cls = c ∧ f ∈ q.2.children) := by
  unfold getCfwUuid
  constructor
  · intro h q hq hc
    cases hf : r.cfws.find? (hit c f) with
    | none => have := List.find?_eq_none.mp hf q hq; rw [(hit_iff c f q).mpr hc] at this; simp at this
    | some w =>
      simp only [hf] at h
      cases hl : findLeftmost r.rel fuel w.1 c <;> simp [hl, Except.map] at h
  · intro h
    have : r.cfws.find? (hit c f) = none := by
      apply List.find?_eq_none.mpr
      intro q hq hh
      exact h q hq ((hit_iff c f q).mp hh)
    simp [this]

/-- first match wins: with a matching object `a` before which nothing matches, whatever is registered behind it is
irrelevant -/
theorem C02.cfw_lookup_first_match (r : Reg) (fuel : Nat) (c : Cls) (f : Uuid) (pre post : List (Uuid × Obj)) (a : Uuid × Obj)
    (hs : r.cfws = pre ++ a :: post) (ha : a.2.cls = c ∧ f ∈ a.2.children)
    (hpre : ∀ q ∈ pre, ¬ (q.2.cls = c ∧ f ∈ q.2.children)) :
    getCfwUuid r fuel c f = (findLeftmost r.rel fuel a.1 c).map some := by
  unfold getCfwUuid
  have : r.cfws.find? (hit c f) = some a := by
    apply List.find?_eq_some_iff_append.mpr
    refine ⟨(hit_iff c f a).mpr ha, pre, post, hs, ?_⟩
    intro x hx
    have := hpre x hx
    cases hh : hit c f x
    · rfl
    · exact absurd ((hit_iff c f x).mp hh) this
  simp [this]

/-- Under the invariant "children lists of registered objects of one class are pairwise disjoint" the object found does
not depend on the registration order: every permutation of `compute_frameworks` gives the same answer.
Full statement (without the invariant) is false: `cfw_lookup_order_witness`; and real plans do violate the invariant - a
transform step copies the `children_if_root` of its source object, so A → B → A chains and two transform steps into one
framework register same-class objects with overlapping children (open findings F-C02-fw-round-trip,
F-C02-two-tfs-same-target). -/
theorem C02.cfw_lookup_unique_partial (r r' : Reg) (hp : r.cfws.Perm r'.cfws) (hrel : r'.rel = r.rel)
    (hd : DisjointSameClass r.cfws) (fuel : Nat) (c : Cls) (f : Uuid) : getCfwUuid r fuel c f = getCfwUuid r' fuel c f := by
  unfold getCfwUuid
  have : r.cfws.find? (hit c f) = r'.cfws.find? (hit c f) := by
    apply find?_perm_of_unique _ _ _ hp
    intro a ha b hb h1 h2
    have h1' := (hit_iff c f a).mp h1
    have h2' := (hit_iff c f b).mp h2
    exact hd a ha b hb (h1'.1.trans h2'.1.symm) f h1'.2 h2'.2
  rw [this, hrel]

example : DisjointSameClass [(1, ⟨0, [5, 6]⟩), (2, ⟨0, [7]⟩), (3, ⟨1, [5, 7]⟩)] := by
  intro a ha b hb hc f hfa hfb
  simp at ha hb
  rcases ha with rfl | rfl | rfl <;> rcases hb with rfl | rfl | rfl <;> simp_all

/-- two objects of class 0 that both list feature 5 (what a transform step's copy of `children_if_root` produces): the
answer is whichever was registered first -/
theorem C02.cfw_lookup_order_witness :
    getCfwUuid { cfws := [(1, ⟨0, [5, 6]⟩), (2, ⟨0, [5]⟩)] } 0 0 5 = .ok (some 1) ∧
    getCfwUuid { cfws := [(2, ⟨0, [5]⟩), (1, ⟨0, [5, 6]⟩)] } 0 0 5 = .ok (some 2) := by decide

/-- the object returned for class 1 can be an object registered under class 0: three merges with alternating class
labels, `find_leftmost(10, 1)` stops at 20 because 20's entry carries the label of its left neighbour -/
theorem C02.cfw_lookup_class_mismatch_witness :
    let r : Reg := { cfws := [(10, ⟨1, [5]⟩), (20, ⟨0, [6]⟩), (30, ⟨1, [7]⟩), (40, ⟨0, [8]⟩)],
                     rel := runAdds [] [(20, 10, 0), (30, 20, 1), (40, 30, 0)] }
    getCfwUuid r r.rel.length 1 5 = .ok (some 20) ∧ (dget r.cfws 20).map (·.cls) = some 0 := by decide

/-! ## 2. registration -/

theorem C02.cfw_register_rejects_duplicate (r : Reg) (u : Uuid) (c : Cls) (ch : List Uuid) :
    (addCfw r u c ch = .error .dupUuid ↔ u ∈ r.cfws.map (·.1)) ∧
    (u ∉ r.cfws.map (·.1) → addCfw r u c ch = .ok { r with cfws := r.cfws ++ [(u, ⟨c, ch⟩)] }) := by
  constructor
  · rw [← dget_isSome_iff]
    unfold addCfw
    by_cases h : (dget r.cfws u).isSome <;> simp [h]
  · intro hn
    have : dget r.cfws u = none := by
      cases h : dget r.cfws u with
      | none => rfl
      | some v => exact absurd ((dget_isSome_iff r.cfws u).mp (by simp [h])) hn
    simp [addCfw, this, dset_of_none]

/-- every call leaves `compute_frameworks` as it is or appends one entry with a new uuid -/
theorem C02.cfw_ops_append_only (r : Reg) (o : Op) :
    (applyOp r o).1.cfws = r.cfws ∨ ∃ u ob, u ∉ r.cfws.map (·.1) ∧ (applyOp r o).1.cfws = r.cfws ++ [(u, ob)] := by
  cases o with
  | register u c ch =>
    by_cases h : u ∈ r.cfws.map (·.1)
    · left
      have := ((C02.cfw_register_rejects_duplicate r u c ch).1).mpr h
      simp [applyOp, this]
    · right
      have := (C02.cfw_register_rejects_duplicate r u c ch).2 h
      exact ⟨u, ⟨c, ch⟩, h, by simp [applyOp, this]⟩
  | lookup c f => left; simp only [applyOp]; split <;> rfl
  | lookupInit c f => left; simp only [applyOp]; split <;> rfl
  | merge l rt c => left; rfl
  | leftmost u c => left; simp only [applyOp]; split <;> rfl
  | setLocation loc => left; simp only [applyOp, setLocation]; split <;> rfl
  | setError m e => left; rfl
  | setArtifact n a => left; simp only [applyOp, setArtifact]; by_cases h : (dget r.artifacts n).isSome <;> simp [h]
  | setApiData d => left; rfl
  | getApiData k => left; simp only [applyOp]; split <;> rfl
  | addColNames u cs => left; rfl
  | getColNames u => left; simp only [applyOp]; split <;> rfl
  | addFlyway u ds => left; rfl
  | getFlyway u => left; rfl

/-- for every history of calls: the uuids in `compute_frameworks` stay pairwise different and nothing ever leaves it
(earlier content is a prefix of later content) -/
theorem C02.cfw_registry_history_invariant (ops : List Op) (r : Reg) (hn : (r.cfws.map (·.1)).Nodup) :
    ((runOps r ops).cfws.map (·.1)).Nodup ∧ ∃ more, (runOps r ops).cfws = r.cfws ++ more := by
  induction ops generalizing r with
  | nil => exact ⟨hn, [], by simp [runOps]⟩
  | cons o rest ih =>
    simp only [runOps, List.foldl_cons]
    rcases C02.cfw_ops_append_only r o with h | ⟨u, ob, hu, h⟩
    · have := ih (applyOp r o).1 (by rw [h]; exact hn)
      rw [h] at this; exact this
    · have hn' : ((applyOp r o).1.cfws.map (·.1)).Nodup := by
        rw [h]; simp only [List.map_append, List.map_cons, List.map_nil]
        exact List.nodup_append.mpr ⟨hn, by simp, by intro a ha b hb; simp at hb; subst hb; intro e; exact hu (e ▸ ha)⟩
      obtain ⟨h1, more, h2⟩ := ih (applyOp r o).1 hn'
      refine ⟨h1, (u, ob) :: more, ?_⟩
      simp only [runOps] at h2
      rw [h2, h]; simp

/-- a look-up that succeeded keeps succeeding with the same answer across registrations (the new object goes to the end
of the iteration order; the merge relation is not touched) -/
theorem C02.cfw_registry_grows_monotonically (r r' : Reg) (u : Uuid) (c' : Cls) (ch : List Uuid) (fuel : Nat) (c : Cls) (f v : Uuid)
    (hreg : addCfw r u c' ch = .ok r') (h : getCfwUuid r fuel c f = .ok (some v)) : getCfwUuid r' fuel c f = .ok (some v) := by
  unfold addCfw at hreg
  by_cases hd : (dget r.cfws u).isSome
  · simp [hd] at hreg
  · simp only [hd] at hreg
    have hnone : dget r.cfws u = none := by simpa using hd
    simp only [Bool.false_eq_true, ↓reduceIte, Except.ok.injEq] at hreg
    subst hreg
    unfold getCfwUuid at h ⊢
    simp only [dset_of_none _ _ _ hnone]
    cases hf : r.cfws.find? (hit c f) with
    | none => simp [hf] at h
    | some q =>
      simp only [hf] at h
      simp only [List.find?_append, hf, Option.some_or]
      exact h

/-- … whereas a miss is not stable: the same look-up hits after a registration (so `add_compute_framework` creates an
object only for the first step that asks) -/
theorem C02.cfw_lookup_miss_not_stable_witness :
    getCfwUuid {} 0 0 5 = .ok none ∧ (addCfw {} 1 0 [5]).toOption.map (fun r => getCfwUuid r 0 0 5) = some (.ok (some 1)) := by
  decide

/-- … and across merges, as long as the merge does not touch the chain above the object found first: `right` is not
reached from it (`reaches … = false`: decidable walk).  `merge_changes_lookup_witness` shows the other case. -/
theorem C02.cfw_lookup_stable_under_merge (r : Reg) (l rt : Uuid) (cl : Cls) (fuel n : Nat) (c : Cls) (f v : Uuid) (q : Uuid × Obj)
    (hq : r.cfws.find? (hit c f) = some q) (hna : reaches r.rel n q.1 rt = false)
    (h : getCfwUuid r fuel c f = .ok (some v)) : getCfwUuid (addMerge r l rt cl) fuel c f = .ok (some v) := by
  unfold getCfwUuid at h ⊢
  simp only [addMerge, hq] at h ⊢
  cases hl : findLeftmost r.rel fuel q.1 c with
  | error e => simp [hl, Except.map] at h
  | ok w =>
    simp [hl, Except.map] at h
    rw [findLeftmost_addRel r.rel l rt cl c fuel q.1 w (not_anc_of_reaches_false r.rel n q.1 rt hna) hl]
    simp [Except.map, h]

theorem C02.merge_changes_lookup_witness :
    let r : Reg := { cfws := [(1, ⟨0, [5]⟩), (2, ⟨0, [6]⟩)] }
    getCfwUuid r 1 0 5 = .ok (some 1) ∧ getCfwUuid (addMerge r 2 1 0) 2 0 5 = .ok (some 2) := by decide

/-! ## 3. the merge relation: termination of `find_leftmost` -/

/-- For EVERY history of `add_to_merge_relation(left, right, cls)` calls in which each call satisfies the (decidable)
discipline "`right` is `left` itself, or `right` is not on the chain above `left` in the relation built so far", the
relation stays a forest and `find_leftmost` returns for every start uuid and class within `len(cfw_merge_relation)`
iterations, without a KeyError.  (Invariant `Forest` by induction over the history; pigeonhole on the keys.)
Full statement (all histories) is false: `merge_cycle_spins_witness`. -/
theorem C02.merge_find_leftmost_terminates_partial (h : List (Uuid × Uuid × Cls)) (hd : disciplined [] h = true)
    (u : Uuid) (c : Cls) : ∃ v, findLeftmost (runAdds [] h) (runAdds [] h).length u c = .ok v :=
  findLeftmost_terminates _ (forest_runAdds [] forest_nil h hd) u c

/-- the simpler history-level discipline "a uuid is never `right` after it has been `left`" (unless `right = left`) is
enough too -/
theorem C02.merge_never_right_after_left_terminates (h : List (Uuid × Uuid × Cls)) (hd : neverRightAfterLeft [] h = true)
    (u : Uuid) (c : Cls) : ∃ v, findLeftmost (runAdds [] h) (runAdds [] h).length u c = .ok v :=
  findLeftmost_terminates _ (forest_runAdds_simple [] [] forest_nil (by intro u p cl hu; simp [dget] at hu) h hd) u c

/-- … hence every look-up of a register whose merge relation was built that way returns (an object or None) -/
theorem C02.cfw_lookup_total_partial (r : Reg) (h : List (Uuid × Uuid × Cls)) (hd : disciplined [] h = true)
    (hrel : r.rel = runAdds [] h) (c : Cls) (f : Uuid) : ∃ res, getCfwUuid r r.rel.length c f = .ok res := by
  unfold getCfwUuid
  cases hf : r.cfws.find? (hit c f) with
  | none => exact ⟨none, rfl⟩
  | some q =>
    obtain ⟨v, hv⟩ := C02.merge_find_leftmost_terminates_partial h hd q.1 c
    rw [← hrel] at hv
    exact ⟨some v, by simp [hv, Except.map]⟩

/-- a join step passes as `left` the object `find_leftmost` returned; when that object is the root of its chain (or has no
entry yet) the call keeps the relation a forest WHATEVER `right` is - the worst case is `right = left`, a self-loop.  (So
with one class label per chain, `find_leftmost_root_of_homogeneous`, no sequence of join steps can make the loop spin;
observed end to end: a triangle of links A-B, B-C, C-A ends in add_to_merge_relation(X, X).) -/
theorem C02.merge_with_root_left_keeps_forest (rel : Rel) (hf : Forest rel) (l rt : Uuid) (c : Cls)
    (hl : dget rel l = none ∨ ∃ cl, dget rel l = some (l, cl)) :
    Forest (addRel rel l rt c) ∧ ∀ u c', ∃ v, findLeftmost (addRel rel l rt c) (addRel rel l rt c).length u c' = .ok v := by
  have hfor : Forest (addRel rel l rt c) := by
    apply forest_addRel rel hf l rt c
    by_cases h : rt = l
    · exact Or.inl h
    · exact Or.inr (fun ha => h (anc_of_root hl ha))
  exact ⟨hfor, fun u c' => findLeftmost_terminates _ hfor u c'⟩

-- non-vacuity: B joined into A, then C into A, then A into D (a uuid that has been `left` becomes `right`: allowed by the
-- general discipline, not by the simple one)
example : disciplined [] [(1, 2, 0), (1, 3, 0), (4, 1, 0)] = true := by decide
example : neverRightAfterLeft [] [(1, 2, 0), (1, 3, 0), (4, 1, 0)] = false := by decide
example : neverRightAfterLeft [] [(1, 2, 0), (1, 3, 0), (1, 4, 1)] = true := by decide

/-- the two-call history add(A,B); add(B,A): `find_leftmost(A)` runs out of every amount of fuel - the real call never
returns (replayed under a timer by the suite `cfw_spin`) -/
theorem C02.merge_cycle_spins_witness :
    disciplined [] [(1, 2, 0), (2, 1, 0)] = false ∧
    ∀ fuel, findLeftmost (runAdds [] [(1, 2, 0), (2, 1, 0)]) fuel 1 0 = .error .fuel := by
  refine ⟨by decide, ?_⟩
  intro fuel
  have hrel : runAdds [] [(1, 2, 0), (2, 1, 0)] = [(2, (1, 0)), (1, (2, 0))] := by decide
  rw [hrel]
  simp only [findLeftmost, dget]
  simp
  exact (spin_aux fuel 1).1

/-! ## 4. `prepare_execute_step` -/

/-- Which object a FeatureGroupStep gets.  If the call returns `(v, x')` then either
* `x' = x` and `v` is what `get_cfw_uuid` finds for the first of `tfs_ids` (iteration order) that hits, or - when none
  hits - for `any_uuid`: an EXISTING object; or
* nothing hits (`get_cfw_uuid` is None for every tfs id and for `any_uuid`), `v` is the fresh uuid, it was not registered,
  and it is now registered LAST with the step's class and `children_if_root`, and is in the collection. -/
theorem C02.prepare_fg_step_object (x x' : Exe) (fuel : Nat) (fresh v : Uuid) (c : Cls) (tfs : List Uuid) (a : Option Uuid) (ch : List Uuid)
    (h : prepareExecuteStep x fuel fresh (.fg c tfs a ch) = .ok (v, x')) :
    (x' = x ∧ ((∃ t, firstHit x.reg fuel c tfs = .ok (some (t, v))) ∨
               (firstHit x.reg fuel c tfs = .ok none ∧ ∃ a', a = some a' ∧ getCfwUuid x.reg fuel c a' = .ok (some v)))) ∨
    (v = fresh ∧ firstHit x.reg fuel c tfs = .ok none ∧ (∃ a', a = some a' ∧ getCfwUuid x.reg fuel c a' = .ok none) ∧
      fresh ∉ x.reg.cfws.map (·.1) ∧ x'.reg.cfws = x.reg.cfws ++ [(fresh, ⟨c, ch⟩)] ∧ x'.reg.rel = x.reg.rel ∧
      dget x'.coll fresh = some ⟨c, ch⟩) := by
  simp only [prepareExecuteStep] at h
  cases hfh : firstHit x.reg fuel c tfs with
  | error e => simp [hfh] at h
  | ok o =>
    cases o with
    | some tv =>
      obtain ⟨t, w⟩ := tv
      simp [hfh] at h
      obtain ⟨rfl, rfl⟩ := h
      left; exact ⟨rfl, Or.inl ⟨t, rfl⟩⟩
    | none =>
      simp only [hfh] at h
      cases a with
      | none => simp at h
      | some a' =>
        simp only at h
        cases hg : getCfwUuid x.reg fuel c a' with
        | error e => simp [hg] at h
        | ok o2 =>
          cases o2 with
          | some w =>
            simp [hg] at h
            obtain ⟨rfl, rfl⟩ := h
            left; exact ⟨rfl, Or.inr ⟨rfl, a', rfl, hg⟩⟩
          | none =>
            simp only [hg, initCfw] at h
            right
            by_cases hin : fresh ∈ x.reg.cfws.map (·.1)
            · have := ((C02.cfw_register_rejects_duplicate x.reg fresh c ch).1).mpr hin
              simp [this] at h
            · have := (C02.cfw_register_rejects_duplicate x.reg fresh c ch).2 hin
              simp only [this, Except.ok.injEq, Prod.mk.injEq] at h
              obtain ⟨h1, h2⟩ := h
              subst h2
              exact ⟨h1.symm, rfl, ⟨a', rfl, hg⟩, hin, rfl, rfl, dget_dset_self _ _ _⟩

/-- … in short: a feature-group step that is prepared successfully CREATES an object iff no registered object of its class
lists any of its tfs ids or its `any_uuid`; otherwise it is handed an existing one and the executor is unchanged -/
theorem C02.prepare_fg_creates_iff (x x' : Exe) (fuel : Nat) (fresh v : Uuid) (c : Cls) (tfs : List Uuid) (a : Uuid) (ch : List Uuid)
    (h : prepareExecuteStep x fuel fresh (.fg c tfs (some a) ch) = .ok (v, x')) :
    (x'.reg.cfws ≠ x.reg.cfws ↔ ∀ t ∈ tfs ++ [a], ∀ q ∈ x.reg.cfws, ¬ (q.2.cls = c ∧ t ∈ q.2.children)) ∧
    (x'.reg.cfws = x.reg.cfws → x' = x) := by
  have found : ∀ t, t ∈ tfs ++ [a] → getCfwUuid x.reg fuel c t = .ok (some v) →
      ¬ ∀ t ∈ tfs ++ [a], ∀ q ∈ x.reg.cfws, ¬ (q.2.cls = c ∧ t ∈ q.2.children) := by
    intro t ht hg hall
    obtain ⟨pre, o, ob, post, hs, h1, h2, _, _⟩ := C02.cfw_lookup_sound x.reg fuel c t v hg
    exact hall t ht (o, ob) (by rw [hs]; simp) ⟨h1, h2⟩
  rcases C02.prepare_fg_step_object x x' fuel fresh v c tfs (some a) ch h with ⟨hx, hh | ⟨_, a', ha, hg⟩⟩ | ⟨_, hfh, ⟨a', ha, hg⟩, _, hcf, _, _⟩
  · obtain ⟨t, ht⟩ := hh
    obtain ⟨hm, hg⟩ := firstHit_some x.reg fuel c tfs t v ht
    subst hx
    exact ⟨⟨fun hne => absurd rfl hne, fun hall => absurd hall (found t (by simp [hm]) hg)⟩, fun _ => rfl⟩
  · simp at ha; subst ha; subst hx
    exact ⟨⟨fun hne => absurd rfl hne, fun hall => absurd hall (found a (by simp) hg)⟩, fun _ => rfl⟩
  · simp at ha; subst ha
    have hne : x'.reg.cfws ≠ x.reg.cfws := by
      rw [hcf]; intro e
      have := congrArg List.length e
      simp at this
    refine ⟨⟨fun _ => ?_, fun _ => hne⟩, fun e => absurd e hne⟩
    intro t ht
    simp at ht
    rcases ht with ht | rfl
    · exact (C02.cfw_lookup_none_iff x.reg fuel c t).mp ((firstHit_none_iff x.reg fuel c tfs).mp hfh t ht)
    · exact (C02.cfw_lookup_none_iff x.reg fuel c t).mp hg

/-- Corollary - two feature-group steps of one class, prepared one after the other on an executor whose merge relation
is empty, neither carrying tfs ids, the first one finding nothing (it creates the object): the second step is handed THE
SAME object iff its `any_uuid` is among the `children_if_root` the first step registered; otherwise (and if no older
object lists it) it creates its own. -/
theorem C02.prepare_fg_same_object_iff (x x₁ x₂ : Exe) (fuel : Nat) (f₁ f₂ v₁ v₂ : Uuid) (c : Cls) (a₁ a₂ : Uuid) (ch₁ ch₂ : List Uuid)
    (hrel : x.reg.rel = []) (hmiss₁ : getCfwUuid x.reg fuel c a₁ = .ok none) (hmiss₂ : getCfwUuid x.reg fuel c a₂ = .ok none)
    (h₁ : prepareExecuteStep x fuel f₁ (.fg c [] (some a₁) ch₁) = .ok (v₁, x₁))
    (h₂ : prepareExecuteStep x₁ fuel f₂ (.fg c [] (some a₂) ch₂) = .ok (v₂, x₂)) :
    (v₂ = v₁ ↔ a₂ ∈ ch₁) ∧ v₁ = f₁ := by
  rcases C02.prepare_fg_step_object x x₁ fuel f₁ v₁ c [] (some a₁) ch₁ h₁ with ⟨_, h | ⟨_, a', ha, hg⟩⟩ | ⟨hv, _, _, hnin, hcf, hr, _⟩
  · obtain ⟨t, ht⟩ := h; simp [firstHit] at ht
  · simp at ha; subst ha; rw [hmiss₁] at hg; simp at hg
  · refine ⟨?_, hv⟩
    subst hv
    have hnone : ∀ q ∈ x.reg.cfws, ¬ (q.2.cls = c ∧ a₂ ∈ q.2.children) := (C02.cfw_lookup_none_iff x.reg fuel c a₂).mp hmiss₂
    have hrel₁ : x₁.reg.rel = [] := by rw [hr, hrel]
    -- the look-up of the second step in the register after the first
    have hlook : getCfwUuid x₁.reg fuel c a₂ = if a₂ ∈ ch₁ then .ok (some v₁) else .ok none := by
      by_cases hin : a₂ ∈ ch₁
      · rw [C02.cfw_lookup_first_match x₁.reg fuel c a₂ x.reg.cfws [] (v₁, ⟨c, ch₁⟩) hcf ⟨rfl, hin⟩ hnone]
        simp [hin, hrel₁, findLeftmost, dget, Except.map]
      · simp only [hin, if_false]
        apply (C02.cfw_lookup_none_iff x₁.reg fuel c a₂).mpr
        intro q hq
        rw [hcf] at hq
        simp at hq
        rcases hq with hq | hq
        · exact hnone q hq
        · subst hq; simp [hin]
    rcases C02.prepare_fg_step_object x₁ x₂ fuel f₂ v₂ c [] (some a₂) ch₂ h₂ with ⟨_, h | ⟨_, a', ha, hg⟩⟩ | ⟨hv₂, _, ⟨a', ha, hg⟩, hnin₂, _⟩
    · obtain ⟨t, ht⟩ := h; simp [firstHit] at ht
    · simp at ha; subst ha
      rw [hlook] at hg
      by_cases hin : a₂ ∈ ch₁
      · simp [hin] at hg; simp [hin, hg]
      · simp [hin] at hg
    · simp at ha; subst ha
      rw [hlook] at hg
      by_cases hin : a₂ ∈ ch₁
      · simp [hin] at hg
      · simp only [hin, iff_false]
        intro e
        apply hnin₂
        have : f₂ = v₁ := hv₂.symm.trans e
        rw [hcf, this]; simp

/-- A TransformFrameworkStep always gets a NEW object: its uuid is the step's own uuid, not registered before, registered
now (last) under the target class with the children of the source object - the object `get_cfw_uuid(from_class, r)` finds
for the first required uuid `r` (iteration order) that hits - plus the link id if the step has one. -/
theorem C02.prepare_tfs_fresh_object (x x' : Exe) (fuel : Nat) (fresh v : Uuid) (fc tc : Cls) (req : List Uuid) (link : Option Uuid)
    (su : Uuid) (ru : Option Uuid) (h : prepareExecuteStep x fuel fresh (.tfs fc tc req link su ru) = .ok (v, x')) :
    v = su ∧ su ∉ x.reg.cfws.map (·.1) ∧
    ∃ r src srcObj, firstHit x.reg fuel fc req = .ok (some (r, src)) ∧ dget x.coll src = some srcObj ∧
      x'.reg.cfws = x.reg.cfws ++ [(su, ⟨tc, tfsChildren srcObj.children link⟩)] ∧
      x'.reg.rel = x.reg.rel := by
  simp only [prepareExecuteStep] at h
  cases hfh : firstHit x.reg fuel fc req with
  | error e => simp [hfh] at h
  | ok o =>
    cases o with
    | none => simp [hfh] at h
    | some rs =>
      obtain ⟨r, src⟩ := rs
      simp only [hfh] at h
      cases hc : dget x.coll src with
      | none => simp [hc] at h
      | some srcObj =>
        simp only [hc, initCfw] at h
        by_cases hin : su ∈ x.reg.cfws.map (·.1)
        · have := ((C02.cfw_register_rejects_duplicate x.reg su tc (tfsChildren srcObj.children link)).1).mpr hin
          simp [this] at h
        · have := (C02.cfw_register_rejects_duplicate x.reg su tc (tfsChildren srcObj.children link)).2 hin
          simp only [this, Except.ok.injEq, Prod.mk.injEq] at h
          obtain ⟨h1, h2⟩ := h
          subst h2
          exact ⟨h1.symm, hin, r, src, srcObj, rfl, hc, rfl, rfl⟩

/-- … so preparing the same transform step a second time is rejected (ValueError "already exists"), whatever happened in
between -/
theorem C02.prepare_tfs_twice_rejected (x : Exe) (fuel : Nat) (fresh : Uuid) (fc tc : Cls) (req : List Uuid) (link : Option Uuid)
    (su : Uuid) (ru : Option Uuid) (hreg : su ∈ x.reg.cfws.map (·.1)) :
    ∀ v x', prepareExecuteStep x fuel fresh (.tfs fc tc req link su ru) ≠ .ok (v, x') := by
  intro v x' h
  exact (C02.prepare_tfs_fresh_object x x' fuel fresh v fc tc req link su ru h).2.1 hreg

/-- A JoinStep works on the object `get_cfw_uuid` finds for the left framework class and the FIRST element (iteration
order) of `left_framework_uuids`; nothing is registered.  Empty set: StopIteration; no object: "This should not occur". -/
theorem C02.prepare_join_uses_left (x : Exe) (fuel : Nat) (fresh : Uuid) (lc : Cls) (lefts : List Uuid) (lk : Uuid) (rights : List Uuid) :
    prepareExecuteStep x fuel fresh (.join lc lefts lk rights) =
      match lefts with
      | [] => .error .stopIteration
      | f :: _ => match getCfwUuid x.reg fuel lc f with
        | .error e => .error e
        | .ok none => .error .notOccur
        | .ok (some u) => .ok (u, x) := by
  cases lefts <;> rfl

/-- after a join step has run, look-ups that used to end at the right object end at the left one: for same-class objects
not merged before, `find_leftmost(right)` = left.  (This is how a later step that descends from the right source only is
handed the joined left object - whose data may already have been dropped, see the finding on right-only consumers.) -/
theorem C02.join_redirects_right_to_left (rel : Rel) (l rt : Uuid) (c : Cls) (hne : l ≠ rt) (hl : dget rel l = none) (fuel : Nat) :
    findLeftmost (addRel rel l rt c) (fuel + 1) rt c = .ok l := by
  have h1 := addRel_right rel l rt c
  have h2 := addRel_left_new rel l rt c hne hl
  simp only [findLeftmost, h1, leftLoop]
  have : (l == rt) = false := by simp [hne]
  simp only [this, h2]
  cases fuel <;> simp [leftLoop]

/-- Why the pre-look-up `for tfs_id in step.tfs_ids` never finds anything in a link-free plan: there the planner puts the
uuid of a TransformFrameworkStep into `tfs_ids`, but `get_cfw_uuid` searches the `children_if_root` of the registered
objects, and a uuid `t` that no feature-group step lists and that is no transform step's link id is never listed by any
object - for every sequence of prepared steps: new objects get the step's own children or a copy of an existing object's
children (plus the link id).  The consumer of a transform step is therefore always resolved through `any_uuid`, i.e. through
the FIRST registered same-class object whose copied children contain it (`cfw_lookup_first_match`) - the root cause of the
open findings F-C02-fw-round-trip and F-C02-two-tfs-same-target.  (e2e: 503 of 503 pre-look-ups of link-free plans miss.) -/
theorem C02.tfs_id_never_listed (t : Uuid) (fuel : Nat) (steps : List (Step × Uuid)) (hs : ∀ sf ∈ steps, StepAvoids t sf.1)
    (us : List Uuid) (x' : Exe) (h : placeAll {} fuel steps = .ok (us, x')) :
    ∀ c, getCfwUuid x'.reg fuel c t = .ok none := by
  have hu : Unlisted t x' := unlisted_placeAll t fuel steps hs {} x' us ⟨(by intro q hq; exact absurd hq List.not_mem_nil), (by intro q hq; exact absurd hq List.not_mem_nil)⟩ h
  intro c
  apply (C02.cfw_lookup_none_iff x'.reg fuel c t).mpr
  intro q hq hc
  exact hu.1 q hq hc.2

-- non-vacuity: root step, transform step (uuid 50) copying its children, consumer carrying tfs id 50: the pre-look-up misses
example : (placeAll {} 0 [(.fg 0 [] (some 1) [1, 2], 10), (.tfs 0 1 [1] none 50 none, 0), (.fg 1 [50] (some 2) [2], 11)]).toOption.map (·.1)
    = some [10, 50, 50] := by decide
example : ∀ sf ∈ [(Step.fg 0 [] (some 1) [1, 2], 10), (Step.tfs 0 1 [1] none 50 none, 0), (Step.fg 1 [50] (some 2) [2], 11)], StepAvoids 50 sf.1 := by
  intro sf h; simp at h; rcases h with rfl | rfl | rfl <;> simp [StepAvoids]

/-! ## 5. `_get_execution_function` (finite table: all 8 × 8 mode sets) -/

/-- MULTIPROCESSING if both sides allow it, else THREADING if both allow it, else SYNC (also when they share no mode) -/
theorem C02.exec_mode_priority : ∀ a ∈ allModeSets, ∀ b ∈ allModeSets,
    executionFunction a b = if a.contains .mp && b.contains .mp then .mp else if a.contains .thread && b.contains .thread then .thread else .sync := by
  decide

/-! ## 6. error cell, artifacts, api_data -/

/-- no operation of the manager ever clears the error flag: once set it stays set for every continuation of the history -/
theorem C02.error_never_cleared (ops : List Op) (r : Reg) (h : r.error = true) : (runOps r ops).error = true := by
  induction ops generalizing r with
  | nil => exact h
  | cons o rest ih =>
    simp only [runOps, List.foldl_cons]
    apply ih
    cases ho : isSetError o
    · rw [(applyOp_error_cell r o ho).1]; exact h
    · cases o <;> simp [isSetError] at ho
      simp [applyOp, setError]

/-- last writer wins: after any history, message and traceback are those of the LAST `set_error` call (earlier failures
are overwritten, not kept) -/
theorem C02.error_last_writer_wins (pre post : List Op) (r : Reg) (m e : Option Nat) (hpost : ∀ o ∈ post, isSetError o = false) :
    let r' := runOps r (pre ++ [.setError m e] ++ post)
    r'.error = true ∧ r'.msg = m ∧ r'.exc = e := by
  have key : ∀ (post : List Op) (r : Reg), (∀ o ∈ post, isSetError o = false) →
      (runOps r post).error = r.error ∧ (runOps r post).msg = r.msg ∧ (runOps r post).exc = r.exc := by
    intro post
    induction post with
    | nil => intro r _; exact ⟨rfl, rfl, rfl⟩
    | cons o rest ih =>
      intro r hp
      simp only [runOps, List.foldl_cons]
      have h1 := applyOp_error_cell r o (hp o (by simp))
      have h2 := ih (applyOp r o).1 (fun o' ho' => hp o' (by simp [ho']))
      simp only [runOps] at h2
      exact ⟨h2.1.trans h1.1, h2.2.1.trans h1.2.1, h2.2.2.trans h1.2.2⟩
  simp only [runOps, List.foldl_append, List.foldl_cons, List.foldl_nil]
  have := key post (applyOp (List.foldl (fun r o => (applyOp r o).1) r pre) (.setError m e)).1 hpost
  simp only [runOps] at this
  rw [this.1, this.2.1, this.2.2]
  simp [applyOp, setError]

/-- `set_location` keeps the first non-empty location for the rest of every history (None and the empty string are replaced) -/
theorem C02.location_first_nonempty_wins (ops : List Op) (r : Reg) (n : Nat) (h : r.location = some (n + 1)) :
    (runOps r ops).location = some (n + 1) := by
  induction ops generalizing r with
  | nil => exact h
  | cons o rest ih => simp only [runOps, List.foldl_cons]; exact ih _ (applyOp_location r o n h)

theorem C02.location_empty_string_replaced_witness :
    (runOps {} [.setLocation 0, .setLocation 4, .setLocation 5]).location = some 4 := by decide

/-- an artifact name is written once: a second `set_artifact_to_save` with the same name raises and changes nothing -/
theorem C02.artifact_duplicate_rejected (r : Reg) (n a : Nat) :
    (setArtifact r n a = .error .dupArtifact ↔ n ∈ r.artifacts.map (·.1)) ∧
    (n ∉ r.artifacts.map (·.1) → ∃ r', setArtifact r n a = .ok r' ∧ dget r'.artifacts n = some a ∧ r'.artifacts = r.artifacts ++ [(n, a)]) := by
  constructor
  · rw [← dget_isSome_iff]
    unfold setArtifact
    by_cases h : (dget r.artifacts n).isSome <;> simp [h]
  · intro hn
    have : dget r.artifacts n = none := by
      cases h : dget r.artifacts n with
      | none => rfl
      | some v => exact absurd ((dget_isSome_iff r.artifacts n).mp (by simp [h])) hn
    refine ⟨{ r with artifacts := dset r.artifacts n a }, by simp [setArtifact, this], dget_dset_self _ _ _, dset_of_none _ _ _ this⟩

/-- `get_api_data_by_name` returns a value exactly when the key is present with a value that is not None - a missing key
and a stored None raise the same ValueError; every other stored value is returned as it is, falsy ones (0) included -/
theorem C02.api_data_lookup_iff (r : Reg) (k v : Nat) :
    getApiData r k = .ok v ↔ ∃ d, r.apiData = some d ∧ dget d k = some (some v) := by
  unfold getApiData
  cases hd : r.apiData with
  | none => simp
  | some d =>
    cases hk : dget d k with
    | none => simp [hk]
    | some o => cases o <;> simp [hk]

theorem C02.api_data_missing_key_raises (r : Reg) (k : Nat) (d : List (Nat × Option Nat)) (hd : r.apiData = some d)
    (hk : dget d k = none ∨ dget d k = some none) : getApiData r k = .error .apiKeyMissing := by
  unfold getApiData
  rcases hk with hk | hk <;> simp [hd, hk]

/-- a stored None cannot be told from a missing key, a stored 0 is returned; before `set_api_data`: "No api data set." -/
theorem C02.api_data_none_value_witness :
    getApiData (setApiData {} (some [(1, none), (2, some 0)])) 1 = .error .apiKeyMissing ∧
    getApiData (setApiData {} (some [(1, none), (2, some 0)])) 3 = .error .apiKeyMissing ∧
    getApiData (setApiData {} (some [(1, none), (2, some 0)])) 2 = .ok 0 ∧
    getApiData {} 1 = .error .noApiData := by decide

/-! ## 7. connection to `Exec`: the shared-object hypothesis -/

/-- `Exec` (C02.refines_partial, C06) models a link-free plan on ONE store: every step reads and writes the same
compute-framework object.  Placement delivers exactly that when the plan's feature-group steps are all of one class,
carry no tfs ids, and every later step's `any_uuid` is among the `children_if_root` the first (root) step registers:
started on an empty executor, every step is handed the object created for the first one, and nothing else is ever
registered.  (`fresh i` are arbitrary - the uuid4 draws.) -/
theorem C02.exec_shared_object_hypothesis (c : Cls) (a₀ : Uuid) (ch₀ : List Uuid) (f₀ : Uuid) (fuel : Nat)
    (rest : List (Step × Uuid))
    (hrest : ∀ sf ∈ rest, ∃ a ch, sf.1 = .fg c [] (some a) ch ∧ a ∈ ch₀) :
    ∃ x', placeAll {} fuel ((.fg c [] (some a₀) ch₀, f₀) :: rest) = .ok (List.replicate (rest.length + 1) f₀, x') ∧
      x'.reg.cfws = [(f₀, ⟨c, ch₀⟩)] ∧ x'.reg.rel = [] := by
  -- the state after the first step, kept by every later step
  let x₁ : Exe := { reg := { cfws := [(f₀, ⟨c, ch₀⟩)] }, coll := [(f₀, ⟨c, ch₀⟩)] }
  have hfirst : prepareExecuteStep {} fuel f₀ (.fg c [] (some a₀) ch₀) = .ok (f₀, x₁) := by
    simp [prepareExecuteStep, firstHit, getCfwUuid, initCfw, addCfw, dget, dset, x₁]
  have hkeep : ∀ (rest : List (Step × Uuid)), (∀ sf ∈ rest, ∃ a ch, sf.1 = .fg c [] (some a) ch ∧ a ∈ ch₀) →
      placeAll x₁ fuel rest = .ok (List.replicate rest.length f₀, x₁) := by
    intro rest
    induction rest with
    | nil => intro _; rfl
    | cons sf more ih =>
      intro h
      obtain ⟨a, ch, hs, ha⟩ := h sf (by simp)
      obtain ⟨st, fr⟩ := sf
      simp only at hs; subst hs
      have hstep : prepareExecuteStep x₁ fuel fr (.fg c [] (some a) ch) = .ok (f₀, x₁) := by
        simp [prepareExecuteStep, firstHit, getCfwUuid, hit, ha, findLeftmost, dget, Except.map, x₁]
      simp only [placeAll, hstep, ih (fun sf' h' => h sf' (by simp [h'])), List.length_cons, List.replicate_succ]
  refine ⟨x₁, ?_, rfl, rfl⟩
  simp only [placeAll, hfirst, hkeep rest hrest, List.replicate_succ]

-- non-vacuity: a root step registering children {1,2,3} and two consumers represented by 2 and 3
example : ∀ sf ∈ [(Step.fg 0 [] (some 2) [2], 11), (Step.fg 0 [] (some 3) [3], 12)], ∃ a ch, sf.1 = .fg 0 [] (some a) ch ∧ a ∈ [1, 2, 3] := by
  intro sf h; simp at h; rcases h with rfl | rfl <;> simp

/-- … and the hypothesis matters: a later step whose `any_uuid` the root step did not list gets an object of its own, so
the plan no longer runs on one store (what happens to a consumer reached only through a transform step's copy) -/
theorem C02.exec_shared_object_witness :
    (placeAll {} 0 [(.fg 0 [] (some 1) [1, 2], 10), (.fg 0 [] (some 3) [3], 11)]).toOption.map (·.1) = some [10, 11] := by decide
