import MlodaVerif.Lemmas.OptionsHash
import MlodaVerif.Lemmas.OptionsInv
import MlodaVerif.Lemmas.OptionsMerge
import MlodaVerif.Lemmas.OptionsIdent
import MlodaVerif.Lemmas.OptionsGroup
import MlodaVerif.Lemmas.OptionsLevels
import MlodaVerif.Model.OptSpec
import MlodaVerif.Lemmas.OptionsEquiv
/-! # C15 — group options split computations, context never does; identities are consistent

Models: `Model/PyVal.lean` (Python values, `==`, `_make_hashable`), `Model/Options.lean` (`Options`, validators,
`Features.merge_options`), `Model/OptIdent.lean` (`__eq__`/`__hash__` of Feature, Options, HashableDict, Index, JoinSpec,
Link, FilterParameterImpl, SingleFilter), `Model/OptGroup.lean` (grouping keyed by the hash *value*, dependency levels).

The built-in `hash` is an arbitrary function `H : PyVal → K` into any key type that respects Python equality
(`Respects H`); `hash(obj)` of a mloda object is `H obj.hashVal`.  Nothing else is assumed about it — in particular not
injectivity; where a statement needs it, it is an explicit hypothesis and the excluded point is a witness theorem. -/

open PyVal (pyEq pyNe mh wf hashable)
open PyDict (keys)
open OptIdent OptInv

/-! ## 1. `_make_hashable` and the value level -/

/-- `_make_hashable` respects `==` on every pair of values a Python program can build (nested dict/list/set/tuple,
any nesting depth, any insertion order) -/
theorem C15.make_hashable_respects_eq (v w : PyVal) (hv : wf v = true) (hw : wf w = true)
    (h : pyEq v w = true) : pyEq (mh v) (mh w) = true :=
  OptHash.mh_pyEq v w hv hw h

/-- after `_make_hashable` the built-in `hash` cannot raise `TypeError: unhashable` -/
theorem C15.make_hashable_hashable (v : PyVal) (hv : wf v = true) : hashable (mh v) = true :=
  OptHash.mh_hashable v hv

/-- `_make_hashable` is the identity on hashable values (so `frozenset(_make_hashable(x) for x in s)` is `frozenset(s)`) -/
theorem C15.make_hashable_id_on_hashable (v : PyVal) (h : hashable v = true) : mh v = v :=
  OptHash.mh_of_hashable v h

example : pyEq (.dict [("a", .int 1), ("b", .list [.float 3 1, .set [.int 2]])])
               (.dict [("b", .list [.float 6 2, .frozenset [.float 2 0]]), ("a", .bool true)]) = true := by decide
example : mh (.dict [("b", .list [.int 1]), ("a", .dict [("z", .none)])])
    = .tuple [.tuple [.str "a", .tuple [.tuple [.str "z", .none]]], .tuple [.str "b", .tuple [.int 1]]] := by rfl

/-! ## 2. equality / hash coherence of the identity classes: `a == b → hash(a) == hash(b)` -/

/-- `Options`: equality and hash both read the group only, and agree -/
theorem C15.options_eq_hash_coherent {K : Type} (H : PyVal → K) (hH : C15.Respects H) (a b : Options)
    (ha : wf (.dict a.group) = true) (hb : wf (.dict b.group) = true) (h : a.eq b = true) :
    H a.hashVal = H b.hashVal :=
  hH _ _ (options_coherent a b ha hb h)

/-- context is excluded from `Options.__eq__` and `Options.__hash__` -/
theorem C15.options_context_irrelevant (a : Options) (c : PyDict) (p : List String) :
    ({ a with context := c, propagate := p } : Options).hashVal = a.hashVal ∧
    ∀ b, ({ a with context := c, propagate := p } : Options).eq b = a.eq b := ⟨rfl, fun _ => rfl⟩

theorem C15.hashableDict_eq_hash_coherent {K : Type} (H : PyVal → K) (hH : C15.Respects H) (a b : HashableDictId)
    (ha : wf (.dict a.data) = true) (hb : wf (.dict b.data) = true) (h : a.eq b = true) :
    H a.hashVal = H b.hashVal :=
  hH _ _ (OptHash.mh_pyEq _ _ ha hb h)

theorem C15.index_eq_hash_coherent {K : Type} (H : PyVal → K) (hH : C15.Respects H) (a b : IndexId)
    (h : a.eq b = true) : H a.hashVal = H b.hashVal := hH _ _ h

theorem C15.joinSpec_eq_hash_coherent {K : Type} (H : PyVal → K) (hH : C15.Respects H) (a b : JoinSpecId)
    (h : a.eq b = true) : H a.hashVal = H b.hashVal := by
  apply hH
  simp only [JoinSpecId.eq, Bool.and_eq_true, beq_iff_eq, IndexId.eq] at h
  simp [JoinSpecId.hashVal, IndexId.hashVal, pyEq, PyVal.eqList, h.1, h.2]

/-- `Link`: both methods read (join type, the two class names, the two indexes) -/
theorem C15.link_eq_hash_coherent {K : Type} (H : PyVal → K) (hH : C15.Respects H) (a b : LinkId)
    (h : a.eq b = true) : H a.hashVal = H b.hashVal := by
  apply hH
  simp only [LinkId.eq, Bool.and_eq_true, beq_iff_eq, IndexId.eq] at h
  obtain ⟨⟨⟨⟨h1, h2⟩, h3⟩, h4⟩, h5⟩ := h
  simp [LinkId.hashVal, IndexId.hashVal, pyEq, PyVal.eqList, h1, h2, h3, h4, h5]

/-- `FilterParameterImpl` (frozen dataclass over the sorted item tuple) -/
theorem C15.filterParam_eq_hash_coherent {K : Type} (H : PyVal → K) (hH : C15.Respects H) (a b : FilterParamId)
    (h : a.eq b = true) : H a.hashVal = H b.hashVal := hH _ _ h

/- Full statement for `Feature` (FALSE of the code as it is):
     ∀ a b, a.eq b = .ok true → H a.hashVal = H b.hashVal
   `Feature.__hash__` rewrites a copy of `child_options.group[in_features]` from `Feature` objects it finds through
   `child_options.get(in_features)` (group or context; the last frozenset element in iteration order), while
   `Feature.__eq__` compares `child_options` by group only.  Witnesses below; the partial theorem excludes exactly the
   child options whose `in_features` entry is a `Feature` or a frozenset holding one. -/
theorem C15.feature_eq_hash_coherent_partial {K : Type} (H : PyVal → K) (hH : C15.Respects H) (a b : FeatureId)
    (hwa : wf (.dict a.options.group) = true) (hwb : wf (.dict b.options.group) = true)
    (hca : ∀ o, a.child = some o → wf (.dict o.group) = true) (hcb : ∀ o, b.child = some o → wf (.dict o.group) = true)
    (hfa : FeatureId.featFree a.child = true) (hfb : FeatureId.featFree b.child = true)
    (h : a.eq b = .ok true) : H a.hashVal = H b.hashVal :=
  hH _ _ (feature_hashVal_pyEq a b hwa hwb hca hcb hfa hfb h)

/-- witness 1: the `in_features` entry sits in the child's *context* (ignored by `==`) and names different Features -/
theorem C15.feature_eq_hash_witness_context :
    ∃ a b : FeatureId, a.eq b = .ok true ∧ pyEq a.hashVal b.hashVal = false :=
  ⟨{ name := "p", options := ⟨[], [], []⟩, domain := none, cfw := none, dtype := none,
     child := some ⟨[], [("in_features", .frozenset [.feat "x" 0])], []⟩ },
   { name := "p", options := ⟨[], [], []⟩, domain := none, cfw := none, dtype := none,
     child := some ⟨[], [("in_features", .frozenset [.feat "y" 0])], []⟩ }, by rfl, by decide⟩

/-- witness 2: equal frozensets of Features iterated in different orders (the last element wins) -/
theorem C15.feature_eq_hash_witness_order :
    ∃ a b : FeatureId, a.eq b = .ok true ∧ pyEq a.hashVal b.hashVal = false :=
  ⟨{ name := "p", options := ⟨[], [], []⟩, domain := none, cfw := none, dtype := none,
     child := some ⟨[("in_features", .frozenset [.feat "f1" 0, .feat "f3" 0])], [], []⟩ },
   { name := "p", options := ⟨[], [], []⟩, domain := none, cfw := none, dtype := none,
     child := some ⟨[("in_features", .frozenset [.feat "f3" 0, .feat "f1" 0])], [], []⟩ }, by rfl, by decide⟩

/-- `SingleFilter` inherits the coherence (and the exclusion) of its filter feature -/
theorem C15.singleFilter_eq_hash_coherent_partial {K : Type} (H : PyVal → K) (hH : C15.Respects H) (a b : SingleFilterId)
    (hwa : wf (.dict a.feature.options.group) = true) (hwb : wf (.dict b.feature.options.group) = true)
    (hca : ∀ o, a.feature.child = some o → wf (.dict o.group) = true)
    (hcb : ∀ o, b.feature.child = some o → wf (.dict o.group) = true)
    (hfa : FeatureId.featFree a.feature.child = true) (hfb : FeatureId.featFree b.feature.child = true)
    (h : a.eq b = .ok true) : H a.hashVal = H b.hashVal := by
  unfold SingleFilterId.eq at h
  obtain ⟨h1, h⟩ := andE_ok_true h
  obtain ⟨h2, h3⟩ := andE_ok_true h
  simp only [Except.ok.injEq] at h2 h3
  apply hH
  have hf := feature_hashVal_pyEq a.feature b.feature hwa hwb hca hcb hfa hfb h1
  have ht : a.ftype = b.ftype := by simpa using h2
  have h3' : pyEq a.param.raw b.param.raw = true := by
    simpa [FilterParamId.eq, pyEq, PyVal.eqList] using h3
  simp [SingleFilterId.hashVal, FilterParamId.hashVal, pyEq, PyVal.eqList, hf, ht, h3']

/-- `Feature.__eq__` raises (does not answer) exactly when all earlier fields agree and one side has a domain, the
other none — non-vacuity of the `Except` in the model -/
example : FeatureId.eq { name := "a", options := ⟨[], [], []⟩, domain := some "d", cfw := none, dtype := none, child := none }
    { name := "a", options := ⟨[], [], []⟩, domain := none, cfw := none, dtype := none, child := none }
    = .error .domainCompare := by rfl

/-! ## 3. a key is never present in both group and context — for every operation sequence -/

/-- the constructor establishes the invariant -/
theorem C15.disjoint_initially (g c : PyDict) (p : List String) (o : Options)
    (hg : (keys g).Nodup) (hc : (keys c).Nodup) (h : Options.init g c p = .ok o) :
    o.Disjoint ∧ o.PropOk := by
  have := init_inv h hg hc; exact ⟨this.1, this.2.1⟩

/-- every call of every mutating method keeps it — whether it returns or raises (state after the raise included) -/
theorem C15.disjoint_preserved_by_every_operation (o : Options) (op : Options.Op) (h : SInv o) :
    SInv (o.step op).1 := step_inv op h

/-- **for all operation sequences** (add / add_to_group / add_to_context / set / update_with_protected_keys /
merge_options, with arbitrary arguments, raised calls included): the object still has no key in both group and context,
its propagate keys are still context keys, and both dictionaries are still duplicate free -/
theorem C15.disjoint_invariant (g c : PyDict) (p : List String) (o : Options)
    (hg : (keys g).Nodup) (hc : (keys c).Nodup) (h : Options.init g c p = .ok o) (ops : List Options.Op) :
    (o.run ops).Disjoint ∧ (o.run ops).PropOk ∧ (keys (o.run ops).group).Nodup ∧ (keys (o.run ops).context).Nodup :=
  run_inv ops (init_inv h hg hc)

/-- the constructor rejects exactly the overlapping dictionaries -/
theorem C15.init_rejects_overlap (g c : PyDict) (p : List String) (k : String) (hg : k ∈ keys g) (hc : k ∈ keys c) :
    Options.init g c p = .error .dupKeys := by
  unfold Options.init
  rw [if_pos (List.any_eq_true.mpr ⟨k, hg, has_iff.mpr hc⟩)]

/-- non-vacuity: a history with accepted and rejected calls -/
example : ((Options.mk [("a", .int 1)] [("c", .int 2)] ["c"]).run
    [.addToGroup "c" (.int 2), .set "c" (.int 5), .addToContext "a" (.int 1), .add "b" (.list [])]).group
    = [("a", .int 1), ("b", .list [])] := by rfl
example : ((Options.mk [("a", .int 1)] [("c", .int 2)] ["c"]).step (.addToGroup "c" (.int 2))).2 = some .inContext := by decide

/-! ## 4. option propagation from the dependent feature (child) to its input (parent) -/

/-- `merge_options` is `update_with_protected_keys` once the conflict scan has passed -/
theorem C15.merge_eq_update (parent child : Options) (pk : List String) (hpk : parent.protectedKeys = .ok pk)
    (hc : Options.mergeConflict parent child pk = false) :
    parent.mergeOptions child = parent.updateWith child pk := by
  unfold Options.mergeOptions Options.updateWithProtectedKeys
  simp [hpk, hc]

/-- `in_features` is always protected (the table is regenerated from the code on every run) -/
theorem C15.in_features_always_protected (parent : Options) (pk : List String) (h : parent.protectedKeys = .ok pk) :
    "in_features" ∈ pk := by
  unfold Options.protectedKeys at h
  simp only at h
  split at h
  · cases hi : Options.iterProtected (parent.get Gen.OptionConsts.chainerKey) with
    | error e => simp [hi, Except.map] at h
    | ok ks => simp [hi, Except.map] at h; subst h; exact List.mem_append_left _ (by decide)
  · cases h; decide

/-- protected keys: whatever the outcome of the merge, the parent's own entries under a protected key are untouched
and nothing of the child arrives under them ("Protected keys in 'other' are NOT merged into 'self'") -/
theorem C15.merge_protected (parent child : Options) (pk : List String) (hpk : parent.protectedKeys = .ok pk)
    (k : String) (hk : k ∈ pk) :
    (parent.mergeOptions child).1.group.get? k = parent.group.get? k ∧
    (parent.mergeOptions child).1.context.get? k = parent.context.get? k := by
  unfold Options.mergeOptions Options.updateWithProtectedKeys
  simp only [hpk]
  split
  · exact ⟨rfl, rfl⟩
  · exact OptMerge.updateWith_protected parent child pk hk

/-- a non-protected key carried by both with `!=` values raises and leaves the parent unchanged
("ValueError: If non-protected keys have conflicting values") -/
theorem C15.merge_conflict_raises (parent child : Options) (pk : List String) (hpk : parent.protectedKeys = .ok pk)
    (kc kp : String × PyVal) (hc : kc ∈ child.items) (hp : kp ∈ parent.items) (hk : kc.1 = kp.1) (hn : kp.1 ∉ pk)
    (hv : pyNe kc.2 kp.2 = true) :
    parent.mergeOptions child = (parent, some .mergeConflict) := by
  have : Options.mergeConflict parent child pk = true := by
    unfold Options.mergeConflict
    refine List.any_eq_true.mpr ⟨kc, hc, List.any_eq_true.mpr ⟨kp, hp, ?_⟩⟩
    have : pk.contains kp.1 = false := by
      apply Bool.eq_false_iff.mpr; intro h; exact hn (List.contains_iff_mem.mp h)
    simp only [hk, this, hv, beq_self_eq_true, Bool.not_false, Bool.and_self]
  unfold Options.mergeOptions
  simp [hpk, this]

/-- on success every non-protected group option of the child is a group option of the parent, with the child's value -/
theorem C15.merge_group_flows (parent child : Options) (pk : List String) (hpk : parent.protectedKeys = .ok pk)
    (hn : (keys child.group).Nodup) (hok : (parent.mergeOptions child).2 = none)
    (k : String) (v : PyVal) (hk : k ∉ pk) (hv : child.group.get? k = some v) :
    (parent.mergeOptions child).1.group.get? k = some v := by
  unfold Options.mergeOptions Options.updateWithProtectedKeys at hok ⊢
  simp only [hpk] at hok ⊢
  split
  · rename_i h; simp [h] at hok
  · rename_i h
    simp only [h] at hok
    exact OptMerge.updateWith_group_flows parent child pk hn hok hk hv

/-- context stays local: a context option of the child outside its `propagate_context_keys` never reaches the parent -/
theorem C15.merge_context_local (parent child : Options) (pk : List String) (hpk : parent.protectedKeys = .ok pk)
    (k : String) (hk : k ∉ child.propagate) :
    (parent.mergeOptions child).1.context.get? k = parent.context.get? k := by
  unfold Options.mergeOptions Options.updateWithProtectedKeys
  simp only [hpk]
  split
  · rfl
  · exact OptMerge.updateWith_context_local parent child pk (Or.inl hk)

/-- on success the (non-protected) `propagate_context_keys` of the child arrive in the parent's context -/
theorem C15.merge_context_flows (parent child : Options) (pk : List String) (hpk : parent.protectedKeys = .ok pk)
    (hn : (keys child.context).Nodup) (hok : (parent.mergeOptions child).2 = none)
    (k : String) (v : PyVal) (hp : k ∈ child.propagate) (hk : k ∉ pk) (hv : child.context.get? k = some v) :
    (parent.mergeOptions child).1.context.get? k = some v := by
  unfold Options.mergeOptions Options.updateWithProtectedKeys at hok ⊢
  simp only [hpk] at hok ⊢
  split
  · rename_i h; simp [h] at hok
  · rename_i h
    simp only [h] at hok
    exact OptMerge.updateWith_context_flows parent child pk hn hok hp hk hv

/-- nothing the parent had is lost, whatever the outcome -/
theorem C15.merge_keeps_parent_keys (parent child : Options) (k : String) :
    (k ∈ keys parent.group → k ∈ keys (parent.mergeOptions child).1.group) ∧
    (k ∈ keys parent.context → k ∈ keys (parent.mergeOptions child).1.context) := by
  unfold Options.mergeOptions Options.updateWithProtectedKeys
  split
  · exact ⟨id, id⟩
  · split
    · exact ⟨id, id⟩
    · exact OptMerge.updateWith_keeps_keys parent child _

/-- a non-protected group key of the child that lives in the parent's *context* raises
("ValueError: If non-protected keys conflict between group and context") -/
theorem C15.update_group_context_conflict_raises (o other : Options) (pk : List String) (k : String)
    (hk : k ∉ pk) (hg : k ∈ keys other.group) (hc : k ∈ keys o.context) :
    o.updateWith other pk = (o, some .groupCtxConflict) :=
  OptMerge.updateWith_cross_raises o other pk hk hg hc

/-- non-vacuity: protected key kept, group option and propagated context key flow, local context stays -/
example : ((Options.mk [("in_features", .str "mine")] [] []).mergeOptions
    (Options.mk [("in_features", .str "yours"), ("g", .int 1)] [("s", .int 7), ("c", .int 2)] ["s"]))
    = (Options.mk [("in_features", .str "mine"), ("g", .int 1)] [("s", .int 7)] [], none) := by rfl
example : ((Options.mk [("g", .int 9)] [] []).mergeOptions (Options.mk [("g", .int 1)] [] [])).2
    = some .mergeConflict := by decide
example : ((Options.mk [("g", .int 9), ("feature_chainer_parser_key", .frozenset [.str "g"])] [] []).mergeOptions
    (Options.mk [("g", .int 1)] [] [])).1.group.get? "g" = some (.int 9) := by rfl

/-! ## 5. grouping of a feature group's features — keyed by the key VALUE (`==`), since commit dc1e740 -/

section grouping
open OptGroup OptEquiv

/-- context never enters a grouping key: replacing the context (and the propagate set) of a feature changes neither
`similarity_key()` / `base_similarity_key()` nor their hashes -/
theorem C15.context_never_enters_keys (f : FeatureId) (c : PyDict) (p : List String) :
    let f' : FeatureId := { f with options := { f.options with context := c, propagate := p } }
    f'.simKey = f.simKey ∧ f'.baseKey = f.baseKey ∧ f'.simVal = f.simVal ∧ f'.baseVal = f.baseVal :=
  ⟨rfl, rfl, rfl, rfl⟩

/-- `==` keys hash equal, for every admissible hash function — what makes "dict lookup = first stored key that is `==`"
the right reading of the hash table keyed by `similarity_key()` -/
theorem C15.similarity_key_eq_hash_coherent {K : Type} (H : PyVal → K) (hH : C15.Respects H) (f g : FeatureId)
    (hf : wf (.dict f.options.group) = true) (hg : wf (.dict g.options.group) = true) :
    (pyEq f.baseKey g.baseKey = true → C15.baseHash H f = C15.baseHash H g) ∧
    (pyEq f.simKey g.simKey = true → C15.simHash H f = C15.simHash H g) := by
  constructor
  · intro h
    apply hH
    simp only [FeatureId.baseKey, pyEq_tuple2, Bool.and_eq_true] at h
    have e := OptHash.mh_pyEq _ _ hf hg h.1
    simp only [FeatureId.baseVal, Options.hashVal, pyEq_tuple2, e, h.2, Bool.and_self]
  · intro h
    apply hH
    unfold FeatureId.simKey FeatureId.simVal at *
    cases hfd : f.dtype <;> cases hgd : g.dtype <;> simp only [hfd, hgd] at h ⊢
    · simp only [FeatureId.baseKey, pyEq_tuple2, Bool.and_eq_true] at h
      have e := OptHash.mh_pyEq _ _ hf hg h.1
      simp only [FeatureId.baseVal, Options.hashVal, pyEq_tuple2, e, h.2, Bool.and_self]
    · simp [FeatureId.baseKey, pyEq_tuple23] at h
    · simp [FeatureId.baseKey, pyEq_tuple32] at h
    · simp only [pyEq_tuple3, Bool.and_eq_true] at h
      have e := OptHash.mh_pyEq _ _ hf hg h.1.1
      simp only [Options.hashVal, pyEq_tuple3, e, h.1.2, h.2, Bool.and_self]

/-- every feature is placed in exactly one group, once -/
theorem C15.grouping_is_partition (pick : List FeatureId → Option FeatureId) (fs : List FeatureId) :
    (OptGroupEq.members (C15.grouping pick fs)).Perm fs :=
  OptGroupQ.groupBy_members_perm _ _ _ _ fs

theorem C15.base_key_eq_iff_agree (f g : FeatureId) : pyEq f.baseKey g.baseKey = true ↔ C15.AgreeBase f g := by
  simp only [FeatureId.baseKey, C15.AgreeBase, Options.eq, pyEq_tuple2, Bool.and_eq_true]

/-- **two features share a group exactly when group options `==`, framework `==` and the declared types are
compatible** — unconditionally in the hash (collisions are harmless now), for every `next(iter(group))` choice and every
iteration order of the feature set; the only hypothesis beyond "values a Python program can build" is that the
agreeing typed features carry one declared type (otherwise "an undeclared type agrees with any" is not transitive) -/
theorem C15.grouping_iff (pick : List FeatureId → Option FeatureId) (hpick : OptGroupEq.PickOk pick)
    (fs : List FeatureId) (hwf : ∀ f ∈ fs, wf f.baseKey = true) (huniq : C15.UniqueTypedPerBase fs) :
    ∀ f ∈ fs, ∀ g ∈ fs, SameGroup (C15.grouping pick fs) f g ↔ (C15.AgreeBase f g ∧ C15.Compat f g) := by
  haveI : DecidableEq PyVal := fun a b => Classical.propDecidable (a = b)
  have hwfs : ∀ f ∈ fs, wf f.simKey = true := by
    intro f hf
    have := hwf f hf
    unfold FeatureId.simKey
    cases f.dtype with
    | none => exact this
    | some t =>
      simp only [FeatureId.baseKey, wf, PyVal.wfL, Bool.and_eq_true] at this ⊢
      refine ⟨this.1, this.2.1, ?_⟩
      simp
  let S : List PyVal := fs.map FeatureId.simKey ++ fs.map FeatureId.baseKey
  have hS : ∀ k ∈ S, wf k = true := by
    intro k hk
    rcases List.mem_append.mp hk with h | h
    · obtain ⟨f, hf, rfl⟩ := List.mem_map.mp h; exact hwfs f hf
    · obtain ⟨f, hf, rfl⟩ := List.mem_map.mp h; exact hwf f hf
  have hequiv : OptGroupQ.EquivOn pyEq S :=
    ⟨fun a ha => pyEq_refl a (hS a ha), fun a ha b hb h => pyEq_symm (hS a ha) (hS b hb) h,
     fun a ha b hb c hc h1 h2 => pyEq_trans (hS a ha) (hS b hb) (hS c hc) h1 h2⟩
  have hshape : OptGroupQ.KeyShape (keq := pyEq) C15.isTyped FeatureId.simKey FeatureId.baseKey fs := by
    refine ⟨?_, ?_, ?_⟩
    · intro f _ g _ tf tg h
      unfold C15.isTyped at tf tg
      unfold FeatureId.simKey at h
      cases hfd : f.dtype with
      | none => rw [hfd] at tf; cases tf
      | some a =>
        cases hgd : g.dtype with
        | none => rw [hgd] at tg; cases tg
        | some b =>
          simp only [hfd, hgd, pyEq_tuple3, Bool.and_eq_true] at h
          simp only [FeatureId.baseKey, pyEq_tuple2, h.1.1, h.1.2, Bool.and_self]
    · intro f hf g hg tf tg h
      have ha := (C15.base_key_eq_iff_agree f g).mp h
      have ht := huniq f hf g hg tf tg ha
      unfold C15.isTyped at tf tg
      unfold FeatureId.simKey
      cases hfd : f.dtype with
      | none => rw [hfd] at tf; cases tf
      | some a =>
        cases hgd : g.dtype with
        | none => rw [hgd] at tg; cases tg
        | some b =>
          rw [hfd, hgd] at ht; cases ht
          simp only [FeatureId.baseKey, pyEq_tuple2, Bool.and_eq_true] at h
          simp only [pyEq_tuple3, h.1, h.2, pyEq_obj_refl, Bool.and_self]
    · intro f _ g _ tf tg
      unfold C15.isTyped at tf tg
      unfold FeatureId.simKey
      cases hfd : f.dtype with
      | none => rw [hfd] at tf; cases tf
      | some a => simp only [FeatureId.baseKey, pyEq_tuple32]
  intro f hf g hg
  have key := OptGroupQ.groupBy_same_iff (keq := pyEq) (S := S) hequiv C15.isTyped FeatureId.simKey FeatureId.baseKey pick
    (fun x hx => List.mem_append.mpr (Or.inl (List.mem_map.mpr ⟨x, hx, rfl⟩)))
    (fun x hx => List.mem_append.mpr (Or.inr (List.mem_map.mpr ⟨x, hx, rfl⟩)))
    hpick hshape f hf g hg
  unfold C15.grouping
  rw [key, C15.base_key_eq_iff_agree]
  constructor
  · intro ha
    refine ⟨ha, ?_⟩
    unfold C15.Compat
    cases hfd : f.dtype with
    | none => trivial
    | some a =>
      cases hgd : g.dtype with
      | none => trivial
      | some b =>
        have := huniq f hf g hg (by simp [C15.isTyped, hfd]) (by simp [C15.isTyped, hgd]) ha
        rw [hfd, hgd] at this; cases this; rfl
  · exact fun h => h.1

/-- **context never splits**: two features that differ only in their context options (same group dictionary, framework
and declared type) are in one group -/
theorem C15.context_never_splits (pick : List FeatureId → Option FeatureId) (hpick : OptGroupEq.PickOk pick)
    (fs : List FeatureId) (hwf : ∀ f ∈ fs, wf f.baseKey = true) (huniq : C15.UniqueTypedPerBase fs)
    (f g : FeatureId) (hf : f ∈ fs) (hg : g ∈ fs)
    (hgroup : f.options.group = g.options.group) (hcfw : f.cfw = g.cfw) (hdt : f.dtype = g.dtype) :
    SameGroup (C15.grouping pick fs) f g := by
  apply (C15.grouping_iff pick hpick fs hwf huniq f hf g hg).mpr
  have hr := pyEq_refl _ (hwf f hf)
  refine ⟨?_, ?_⟩
  · rw [← C15.base_key_eq_iff_agree]
    have : g.baseKey = f.baseKey := by unfold FeatureId.baseKey; rw [hgroup, hcfw]
    rw [this]; exact hr
  · unfold C15.Compat; rw [← hdt]; cases f.dtype <;> simp

/-! ### hash collisions: still facts about hashing, no longer about grouping -/

/-- `hash(-1) == hash(-2)` in CPython: for every hash function with that collision whose tuple hash is a function of the
element hashes, the option sets `{'x': -1}` and `{'x': -2}` are `!=` but hash equal (`Options.__hash__` and both
similarity hashes) -/
theorem C15.options_hash_collision_int {K : Type} (H : PyVal → K) (hT : C15.TupleCong H)
    (hcol : H (.int (-1)) = H (.int (-2))) :
    (C15.featX (.int (-1))).options.eq (C15.featX (.int (-2))).options = false ∧
    H (C15.featX (.int (-1))).options.hashVal = H (C15.featX (.int (-2))).options.hashVal ∧
    C15.baseHash H (C15.featX (.int (-1))) = C15.baseHash H (C15.featX (.int (-2))) := by
  have e1 : (C15.featX (.int (-1))).options.hashVal = .tuple [.tuple [.str "x", .int (-1)]] := by rfl
  have e2 : (C15.featX (.int (-2))).options.hashVal = .tuple [.tuple [.str "x", .int (-2)]] := by rfl
  have hh : H (C15.featX (.int (-1))).options.hashVal = H (C15.featX (.int (-2))).options.hashVal := by
    rw [e1, e2]
    apply hT; simp only [List.map_cons, List.map_nil, List.cons.injEq, and_true]
    apply hT; simp only [List.map_cons, List.map_nil, List.cons.injEq, and_true, true_and]
    exact hcol
  refine ⟨by decide, hh, ?_⟩
  unfold C15.baseHash FeatureId.baseVal
  apply hT; simp only [List.map_cons, List.map_nil, List.cons.injEq, and_true]
  exact ⟨hh, rfl⟩

/-- `_make_hashable` maps a list and the equal tuple, a dict and its sorted item tuple to the same value: these option
sets are `!=` but hash equal under EVERY hash function -/
theorem C15.options_hash_collision_make_hashable :
    ((C15.featX (.list [.int 1])).options.eq (C15.featX (.tuple [.int 1])).options = false ∧
     (C15.featX (.list [.int 1])).options.hashVal = (C15.featX (.tuple [.int 1])).options.hashVal) ∧
    ((C15.featX (.dict [("q", .int 1)])).options.eq (C15.featX (.tuple [.tuple [.str "q", .int 1]])).options = false ∧
     (C15.featX (.dict [("q", .int 1)])).options.hashVal = (C15.featX (.tuple [.tuple [.str "q", .int 1]])).options.hashVal) :=
  ⟨⟨by decide, by rfl⟩, ⟨by decide, by rfl⟩⟩

/-- **the repaired grouping separates the colliding option sets**: `{'x': -1}` / `{'x': -2}`, `[1]` / `(1,)`,
`{'q': 1}` / `(('q', 1),)` end in different groups, for every choice function -/
theorem C15.grouping_separates_collisions (pick : List FeatureId → Option FeatureId) (hpick : OptGroupEq.PickOk pick)
    (a b : PyVal)
    (hab : (a, b) = (.int (-1), .int (-2)) ∨ (a, b) = (.list [.int 1], .tuple [.int 1]) ∨
           (a, b) = (.dict [("q", .int 1)], .tuple [.tuple [.str "q", .int 1]])) :
    ¬ SameGroup (C15.grouping pick [C15.featX a, { C15.featX b with name := "b" }])
        (C15.featX a) { C15.featX b with name := "b" } := by
  intro hs
  have huniq : C15.UniqueTypedPerBase [C15.featX a, { C15.featX b with name := "b" }] := by
    intro f hf g hg tf _
    simp only [List.mem_cons, List.mem_singleton, List.not_mem_nil, or_false] at hf
    rcases hf with rfl | rfl <;> simp [C15.isTyped, C15.featX] at tf
  have hwf : ∀ f ∈ [C15.featX a, { C15.featX b with name := "b" }], wf f.baseKey = true := by
    intro f hf
    simp only [List.mem_cons, List.mem_singleton, List.not_mem_nil, or_false] at hf
    rcases hab with h | h | h <;> cases h <;> rcases hf with rfl | rfl <;> decide
  have := (C15.grouping_iff pick hpick _ hwf huniq _ (by simp) _ (by simp)).mp hs
  have hne : (C15.featX a).options.eq ({ C15.featX b with name := "b" } : FeatureId).options = false := by
    rcases hab with h | h | h <;> cases h <;> decide
  rw [this.1.1] at hne; cases hne

/-- non-vacuity: `{'x': 1}` typed/untyped features with different contexts group together, `{'x': 2}`, and the colliding
`{'x': -1}` / `{'x': -2}` apart -/
example :
    (C15.grouping List.head?
      [{ (C15.featX (.int 1)) with name := "t", dtype := some 3 }, { (C15.featX (.int 2)) with name := "u" },
       { (C15.featX (.float 2 1)) with name := "v", options := ⟨[("x", .float 2 1)], [("c", .int 9)], []⟩ },
       { (C15.featX (.int (-1))) with name := "m1" }, { (C15.featX (.int (-2))) with name := "m2" }]).map
      (fun e => e.2.map (·.name)) = [["t", "v"], ["u"], ["m1"], ["m2"]] := by rfl

end grouping

/-! ## 6. dependency levels inside one group ("… and neither depends on the other") -/

open OptGroup in
/-- the levels of `_split_features_by_dependency_levels` cover the group's features exactly once — cyclic or not -/
theorem C15.levels_cover (ids : List Nat) (deps : Nat → List Nat) :
    (splitLevels ids deps).flatten.Perm ids := by
  unfold splitLevels
  simp only
  split
  · simp
  · exact levelLoop_cover _ ids.length ids [] (Nat.le_refl _)

open OptGroup in
/-- for an acyclic dependency relation (a rank function decreasing along dependencies): no feature of a level depends
on a feature of the same level, i.e. features computed in one call never depend on each other -/
theorem C15.levels_independent (ids : List Nat) (deps : Nat → List Nat) (rank : Nat → Nat)
    (hacyc : ∀ u ∈ ids, ∀ d ∈ deps u, d ∈ ids → rank d < rank u) :
    ∀ L ∈ splitLevels ids deps, ∀ u ∈ L, ∀ v ∈ L, u ∈ ids → v ∈ ids → v ∉ deps u := by
  intro L hL u hu v hv hui hvi hdep
  have hintra : v ∈ (deps u).filter (fun d => ids.contains d) :=
    List.mem_filter.mpr ⟨hdep, List.contains_iff_mem.mpr hvi⟩
  unfold splitLevels at hL
  simp only at hL
  split at hL
  · rename_i hall
    rw [List.all_eq_true] at hall
    have := hall u hui
    simp only [List.isEmpty_iff] at this
    rw [this] at hintra; cases hintra
  · have hw := levelLoop_wellLayered (fun u => (deps u).filter (fun d => ids.contains d)) ids rank
      (fun u d hd => List.contains_iff_mem.mp (List.mem_filter.mp hd).2)
      (fun u hu d hd => hacyc u hu d (List.mem_filter.mp hd).1 (List.contains_iff_mem.mp (List.mem_filter.mp hd).2))
      ids.length ids [] (fun x hx => Or.inr hx) (fun x hx => hx) (fun x hx => by cases hx)
    exact wellLayered_independent _ _ _ hw L hL u hu v hv hintra

example : OptGroup.splitLevels [1, 2, 3, 4] (fun u => if u = 2 then [1] else if u = 4 then [2, 9] else [])
    = [[1, 3], [2], [4]] := by decide
