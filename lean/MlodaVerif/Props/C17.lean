import MlodaVerif.Model.TypeCheck
/-! # C17 - declared feature types are enforced exactly as documented

The tables in `Gen.TypeTables` are regenerated from `/repo` on every run; the theorems below are therefore
re-checked against what the code says now. The quantifier over (declared, actual) is a finite 11×11 table, so
case analysis + `decide` is a complete proof, not a sample. -/
open Gen TypeCheck

/-- the code's strict table is exactly the documented widening table -/
theorem C17.strict_table_eq_doc : ∀ d a : DType, strictCompat d a = Doc.strict d a := by
  intro d a; cases d <;> cases a <;> decide

/-- the code's lenient table is exactly the documented category rule -/
theorem C17.lenient_table_eq_doc : ∀ d a : DType, looseCompat d a = Doc.lenient d a := by
  intro d a; cases d <;> cases a <;> decide

/-- strict is at least as demanding as lenient -/
theorem C17.strict_implies_lenient : ∀ d a : DType, strictCompat d a = true → looseCompat d a = true := by
  intro d a; cases d <;> cases a <;> decide

/-- both tables are reflexive: a column of exactly the declared type always passes -/
theorem C17.exact_always_ok : ∀ d : DType, strictCompat d d = true ∧ looseCompat d d = true := by
  intro d; cases d <;> decide

/-- `from_arrow_type (to_arrow_type d) = d` for each of the supported types -/
theorem C17.arrow_roundtrip : ∀ d : DType, fromArrow (toArrow d) = some d := by
  intro d; cases d <;> decide

/-- the enum listing is complete (so quantifying over `DType.all` is quantifying over the type) -/
theorem C17.all_complete : ∀ d : DType, d ∈ DType.all := by
  intro d; cases d <;> decide

/-- `validate` raises a mismatch iff some feature violates its declaration; and the mismatch it reports is one. -/
theorem C17.validate_iff (cols : List Col) (fs : List Feat) :
    (validate cols fs ≠ .ok) ↔ ∃ f ∈ fs, (checkOne cols f).isSome := by
  induction fs with
  | nil => simp [validate]
  | cons f fs ih =>
    unfold validate
    cases h : checkOne cols f with
    | some o =>
      have ho : o ≠ .ok := by
        unfold checkOne at h
        repeat' split at h
        all_goals first | (simp at h; done) | (simp at h; obtain ⟨_, rfl⟩ := h; simp)
      simp [ho, h]
    | none => simp [ih, h]

/-- `checkOne` flags a feature exactly when it is declared, its column is present with a supported type and the
selected table (strict iff the option is true) says incompatible -/
theorem C17.checkOne_iff (cols : List Col) (f : Feat) :
    (checkOne cols f).isSome ↔
      ∃ d a, f.declared = some d ∧ cols.find? (fun c => c.1 == f.name) = some (f.name, some a) ∧
        (if f.strictOpt.getD false then strictCompat d a else looseCompat d a) = false := by
  unfold checkOne
  constructor
  · intro h
    split at h
    · simp at h
    · rename_i d hd
      split at h
      · simp at h
      · simp at h
      · rename_i nm a hfind
        have hn : nm = f.name := by
          have := List.find?_some hfind; simpa using this
        subst hn
        refine ⟨d, a, hd, hfind, ?_⟩
        by_cases hs : f.strictOpt.getD false = true
        · simp [hs] at h ⊢; by_cases hc : strictCompat d a = true
          · simp [hc] at h
          · simpa using hc
        · simp [hs] at h ⊢; by_cases hc : looseCompat d a = true
          · simp [hc] at h
          · simpa using hc
  · rintro ⟨d, a, hd, hfind, hc⟩
    simp only [hd, hfind]
    by_cases hs : f.strictOpt.getD false = true
    · simp [hs] at hc ⊢; simp [hc]
    · simp [hs] at hc ⊢; simp [hc]

/-- undeclared features are never type-checked -/
theorem C17.undeclared_never_checked (cols : List Col) (f : Feat) (h : f.declared = none) :
    checkOne cols f = none := by
  unfold checkOne; simp [h]

/-- whether `validate` raises does not depend on the iteration order of the feature set -/
theorem C17.validate_raises_perm (cols : List Col) (fs gs : List Feat) (hp : fs.Perm gs) :
    (validate cols fs ≠ .ok) ↔ (validate cols gs ≠ .ok) := by
  rw [C17.validate_iff, C17.validate_iff]
  constructor
  · rintro ⟨f, hf, h⟩; exact ⟨f, hp.mem_iff.mp hf, h⟩
  · rintro ⟨f, hf, h⟩; exact ⟨f, hp.mem_iff.mpr hf, h⟩

/-- the API strict flag reaches exactly the typed features, and leaves untyped ones unchanged -/
theorem C17.strict_flag_propagation (f : Feat) :
    (f.declared.isSome → (propagateStrict true f).strictOpt = some true) ∧
    (f.declared = none → propagateStrict true f = f) ∧ propagateStrict false f = f := by
  unfold propagateStrict
  refine ⟨?_, ?_, ?_⟩
  · intro h; simp [h]
  · intro h; simp [h]
  · simp

/-- conflicting declarations between request and feature group are rejected at prepare time, equal ones accepted -/
theorem C17.conflict_rejected (r g : DType) :
    (r ≠ g → setDataType (some r) (some g) = .error ()) ∧ setDataType (some r) (some r) = .ok (some r) := by
  unfold setDataType; constructor
  · intro h; simp [h]
  · simp

/-- with the strict option a lenient-only pair is rejected; without it accepted (non-vacuity of the distinction) -/
example : checkOne [("c", some .DOUBLE)] ⟨"c", some .INT32, some true⟩ = some (.mismatch "c" .INT32 .DOUBLE)
    ∧ checkOne [("c", some .DOUBLE)] ⟨"c", some .INT32, none⟩ = none := by decide

example : validate [("a", some .STRING), ("b", some .INT64)] [⟨"b", some .INT64, none⟩, ⟨"a", some .INT32, none⟩]
    = .mismatch "a" .INT32 .STRING := by decide
