import MlodaVerif.Lemmas.SchedFail
/-! # C08 - a failure anywhere in a run is reported to the caller, never swallowed

`fail i` is the event "the worker executing step i raised" (calculation, validation, extender-wrapped call,
transformation, merge, api_data lookup, upload: all are positions inside `step.execute`, which every executor wraps in
`except Exception: cfw_register.set_error(...)`).  The theorems hold for every plan with disjoint non-empty outputs, every
interleaving and every position of the fault, in batch (`returned`) and streaming (`yielded`) form. -/
open Sched

/-- once a step has failed the run can never return normally - whatever happens afterwards -/
theorem C08.fail_never_returns (p : Plan) (hd : DisjointOuts p) (hne : NonemptyOuts p) (evs : List Ev) (i : Nat)
    (hfail : i ∈ (run p init evs).failed) (more : List Ev) : (run p init (evs ++ more)).returned = false := by
  have hr : Reach p (run p init (evs ++ more)) := ⟨_, rfl⟩
  have hi := sinv_reach hd hr
  have hf := finv_reach hr
  cases hret : (run p init (evs ++ more)).returned with
  | false => rfl
  | true =>
    exfalso
    have hnil := no_failed_of_all_finished hd hne hi (hf.ret_fin hret)
    have hmem : i ∈ (run p init (evs ++ more)).failed := by
      rw [run_append]; exact failed_mono_run p more _ hfail
    rw [hnil] at hmem; simp at hmem

/-- what is raised is the error of a step that really failed (never a made-up or stale one) -/
theorem C08.raises_original (p : Plan) (hd : DisjointOuts p) (evs : List Ev) (e : Nat)
    (h : (run p init evs).raised = some e) : e ∈ (run p init evs).failed ∧ Ev.fail e ∈ evs := by
  have hi := sinv_reach hd ⟨evs, rfl⟩
  have hf := hi.raised_failed e h
  exact ⟨hf, failed_has_fail_event p evs init hf (by simp [init])⟩

/-- bounded: after a failure the very next loop head ends the run by raising the stored error
(in SYNC mode: the current pass over the plan completes, then the loop head raises) -/
theorem C08.next_loop_head_raises (p : Plan) (hd : DisjointOuts p) (hne : NonemptyOuts p) (evs : List Ev)
    (hfail : (run p init evs).failed ≠ []) (hnh : halted (run p init evs) = false) :
    (stepEv p (run p init evs) Ev.loopHead).raised = (run p init evs).err ∧
      (stepEv p (run p init evs) Ev.loopHead).raised.isSome = true ∧
      (stepEv p (run p init evs) Ev.loopHead).returned = false := by
  generalize hs : run p init evs = s at *
  have hr : Reach p s := ⟨evs, hs.symm⟩
  have hi := sinv_reach hd hr
  have herr := hi.err_of_failed hfail
  obtain ⟨e, he⟩ := Option.isSome_iff_exists.mp herr
  have hnh' := hnh
  simp only [halted, Bool.or_eq_false_iff] at hnh'
  have hcond : ¬ ((allOuts p).all (· ∈ s.finished) = true ∧ s.finished ≠ []) := by
    rintro ⟨hall, _⟩
    exact hfail (no_failed_of_all_finished hd hne hi hall)
  simp only [stepEv, halted, hnh'.1, hnh'.2, Bool.or_self, Bool.false_eq_true, ↓reduceIte, hcond, he]
  simp [hnh'.2]

/-- a raise and a normal return exclude each other: results are never handed out by a run that raised -/
theorem C08.no_partial_results (p : Plan) (evs : List Ev) :
    ¬ ((run p init evs).raised.isSome = true ∧ (run p init evs).returned = true) :=
  (finv_reach ⟨evs, rfl⟩).excl

/-- streaming: nothing is yielded after the raise (items yielded before the fault stay a prefix) -/
theorem C08.stream_nothing_after_raise (p : Plan) (evs more : List Ev)
    (h : (run p init evs).raised.isSome = true) :
    (run p init (evs ++ more)).yielded = (run p init evs).yielded := by
  rw [run_append]
  exact halted_yielded_run p more _ (by simp [halted, h])

/-- non-vacuity: step 1 fails while step 2 is still running; the next loop head raises error 1 -/
example :
    let p : Plan := [{ outs := [10], req := [] }, { outs := [11], req := [10] }, { outs := [12], req := [10] }]
    let evs := [Ev.loopHead, .scan 0, .begin 0, .finish 0, .scan 1, .scan 2, .loopHead, .scan 0, .scan 1, .scan 2,
                .begin 1, .begin 2, .fail 1, .loopHead, .finish 2, .scan 2]
    (run p init evs).raised = some 1 ∧ (run p init evs).returned = false ∧ (run p init evs).collected = [0] := by
  decide
