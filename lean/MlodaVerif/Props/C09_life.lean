import MlodaVerif.Lemmas.LifeCount
import MlodaVerif.Lemmas.LifeWorker
import MlodaVerif.Props.C09
/-! # C09, extension `life`: DataLifecycleManager and the drop protocol across the orchestrator

Model: `Model/Lifecycle.lean` (`Life.step` - the orchestrator's events on `executor.cfw_collection`, `track_data_to_drop`,
`result_data_collection`, `finished_ids`, the flight store; `Life.wloop` - the worker process; `Life.poll` / `Life.waitDrop` -
the WorkerManager's side of the result queues).  All theorems quantify over every event list / command list / queue content.
`Life.run s evs` processes events until one raises; `(run ..).2.1` is the log of `drop_last_data` calls. -/
open Store Life

/-! ## nothing is dropped too early -/

/-- NO PREMATURE DROP (both paths, SET inclusion).  Take any error-free history `pre` and any next event `e`.  Every
`drop_last_data` call that `e` makes is justified by what finished steps reported BEFORE it:
* through the children tracker (in-process path): `e` is the processing of a done feature-group step on that very object and
  every uuid of the object's `children_if_root` (as registered) is among the uuids reported to that object by `pre ++ [e]`;
* through `track_data_to_drop` (tracked path): `e` is `drop_data_for_finished_cfws` and every id of the tracked entry is in
  `finished_ids`, which holds exactly the uuids of the steps marked finished by `pre`. -/
theorem C09.life_no_premature_drop (loc : Bool) (store : List Nat) (pre : List Ev) (e : Ev) (d : DropRec)
    (hpre : (run (init loc store) pre).2.2 = none) (hd : d ∈ (step (run (init loc store) pre).1 e).2.1) :
    (d.tracked = false → ∃ st F req ob, e = .fgDone d.obj st F req ∧ dget (run (init loc store) pre).1.objs d.obj = some ob ∧
        Ev.register d.obj ob.cfw.children ∈ pre ∧ ∀ x ∈ ob.cfw.children, x ∈ reportedIn d.obj (pre ++ [e])) ∧
    (d.tracked = true → e = .periodic ∧ ∃ ids, (d.obj, ids) ∈ (run (init loc store) pre).1.track ∧ ∀ i ∈ ids, i ∈ finishedIn pre) := by
  have w := WF1.ofRun loc store pre hpre
  constructor
  · intro ht
    obtain ⟨st, F, req, ob, he, hob, _, hall, _, _⟩ := step_drops_report _ e d hd ht
    refine ⟨st, F, req, ob, he, hob, w.childrenReg _ ob hob, ?_⟩
    intro x hx
    rw [reportedIn_append, List.mem_append]
    rcases hall x hx with h | h
    · exact Or.inl (w.trackerSub _ ob hob x h)
    · right; subst he; simp [reportedIn, h]
  · intro ht
    obtain ⟨he, ids, hm, hf⟩ := step_drops_tracked _ e d hd ht
    exact ⟨he, ids, hm, fun i hi => (w.finishedIff i).mp (hf i hi)⟩

/-- the whole-run form: every tracker-path entry of the drop log of an error-free run belongs to an object that was registered
in the run with children that were all reported to it in the run -/
theorem C09.life_drop_log_justified (loc : Bool) (store : List Nat) (evs : List Ev) (d : DropRec)
    (hok : (run (init loc store) evs).2.2 = none) (hd : d ∈ (run (init loc store) evs).2.1) (ht : d.tracked = false) :
    ∃ ch, Ev.register d.obj ch ∈ evs ∧ ∀ x ∈ ch, x ∈ reportedIn d.obj evs := by
  -- induction over the run, generalised over the history already processed
  suffices H : ∀ (es h : List Ev) (s : LS), WF1 h s → (run s es).2.2 = none → d ∈ (run s es).2.1 → d.tracked = false →
      ∃ ch, Ev.register d.obj ch ∈ h ++ es ∧ ∀ x ∈ ch, x ∈ reportedIn d.obj (h ++ es) by
    simpa using H evs [] (init loc store) (WF1.atInit loc store) hok hd ht
  intro es
  induction es with
  | nil => intro h s _ _ hd; simp [run_nil] at hd
  | cons e es ih =>
    intro h s w hok hd ht
    rcases opt_cases (step s e).2.2 with he | ⟨err, he⟩
    · rw [run_cons_ok s e es he] at hok hd
      simp only [List.mem_append] at hd
      rcases hd with hd | hd
      · obtain ⟨st, F, req, ob, hev, hob, _, hall, _, _⟩ := step_drops_report s e d hd ht
        refine ⟨ob.cfw.children, List.mem_append_left _ (w.childrenReg _ ob hob), ?_⟩
        intro x hx
        rw [reportedIn_append, List.mem_append]
        rcases hall x hx with h1 | h1
        · exact Or.inl (w.trackerSub _ ob hob x h1)
        · right; subst hev; simp [reportedIn, h1]
      · have := ih (h ++ [e]) (step s e).1 (WF1.next e w he) hok hd ht
        simpa [List.append_assoc] using this
    · rw [run_cons_err s e es err he] at hok; cases hok

/-- a COUNT based test (`len(tracker) >= len(children)`) in place of the set inclusion breaks the statement: children {1, 2},
one report {1, 7} (7 = a feature that is not a child of this object, as reported by a step that was handed the object through a
join) - two uuids are tracked, the data is dropped, child 2 was never reported; the real (set based) test keeps the data -/
theorem C09.life_count_test_unsound_witness :
    (reportCountBased { children := [1, 2] } [1, 7]).2 = .dropped none ∧ 2 ∉ (reportCountBased { children := [1, 2] } [1, 7]).1.tracker ∧
    (report { children := [1, 2] } [1, 7]).2 = .no := by decide

/-- the drop test of the real protocol IS set inclusion: the report drops iff every child is in the tracker or in the report -/
theorem C09.life_drop_iff_all_children (c : Cfw) (F : List Nat) :
    (∃ k, (report c F).2 = .dropped k) ↔ ∀ x ∈ c.children, x ∈ c.tracker ∨ x ∈ F :=
  report_dropped_iff c F

/-- the object's `children_if_root` never changes and is what `init_compute_framework` registered -/
theorem C09.life_children_fixed (loc : Bool) (store : List Nat) (evs : List Ev) (o : Nat) (ob : Obj)
    (hok : (run (init loc store) evs).2.2 = none) (hob : dget (run (init loc store) evs).1.objs o = some ob) :
    Ev.register o ob.cfw.children ∈ evs ∧ (∀ x ∈ ob.cfw.tracker, x ∈ reportedIn o evs) ∧ (∀ k, ob.cfw.dataKey = some k → k = o) :=
  let w := WF1.ofRun loc store evs hok
  ⟨w.childrenReg o ob hob, w.trackerSub o ob hob, fun k hk => w.keyOwn o ob k hob hk⟩

/-! ## no double drop; `cfw_to_delete` bookkeeping -/

/-- DROP AT MOST ONCE PER TRACKING, for every run (also one that raises): the number of `drop_cfw_data(o)` calls never exceeds
the number of events that (re)wrote `track_data_to_drop[o]` -/
theorem C09.life_drop_at_most_once (loc : Bool) (store : List Nat) (evs : List Ev) (o : Nat) :
    trackedDrops o (run (init loc store) evs).2.1 ≤ nTrack o evs := by
  rcases run_split (init loc store) evs with hok | ⟨pre, e, post, err, hevs, hpre, _, _, hlog, _⟩
  · have := (WFC.ofRun o loc store evs hok).count
    omega
  · have w := WFC.ofRun o loc store pre hpre
    rw [hlog, trackedDrops_append, hevs]
    have h1 := step_trackedDrops_le (run (init loc store) pre).1 e o w.nodup
    have h2 := w.count
    have h3 := nTrack_mono o pre (e :: post)
    omega

/-- ... and while the entry is still there, one more drop is still owed (error-free runs) -/
theorem C09.life_drop_at_most_once_tracked (loc : Bool) (store : List Nat) (evs : List Ev) (o : Nat)
    (hok : (run (init loc store) evs).2.2 = none) :
    trackedDrops o (run (init loc store) evs).2.1 + (if o ∈ dkeys (run (init loc store) evs).1.track then 1 else 0) ≤ nTrack o evs :=
  (WFC.ofRun o loc store evs hok).count

/-- within one call of `drop_data_for_finished_cfws` no object is dropped twice -/
theorem C09.life_periodic_drops_nodup (loc : Bool) (store : List Nat) (pre : List Ev)
    (hpre : (run (init loc store) pre).2.2 = none) :
    ((step (run (init loc store) pre).1 .periodic).2.1.map (·.obj)).Nodup := by
  have hn := (WF12.ofRun loc store pre hpre).2.trackNodup
  show ((periodic (run (init loc store) pre).1).2.1.map (·.obj)).Nodup
  rcases periodic_cases (run (init loc store) pre).1 with ⟨_, hs⟩ | ⟨_, err, _, hs⟩ | ⟨_, _, hs⟩
  · rw [hs]; simp
  · rw [hs]; simp only; rw [(periodicGo_log _ _ _).1]
    exact List.Nodup.sublist (periodicGo_del_sublist _ _ _) hn
  · rw [hs]; simp only; rw [(periodicGo_log _ _ _).1]
    exact List.Nodup.sublist (periodicGo_del_sublist _ _ _) hn

/-- `cfw_to_delete` BOOKKEEPING: a call of `drop_data_for_finished_cfws` that does not raise (and has a non-empty
`finished_ids`) drops exactly the tracked objects all of whose ids are finished - each once, in dict order - and afterwards
exactly those entries are gone and all others are unchanged -/
theorem C09.life_tracked_entry_removed_after_drop (loc : Bool) (store : List Nat) (pre : List Ev)
    (hpre : (run (init loc store) pre).2.2 = none)
    (hne : (run (init loc store) pre).1.finished ≠ [])
    (hok : (step (run (init loc store) pre).1 .periodic).2.2 = none) :
    (step (run (init loc store) pre).1 .periodic).1.track =
      (run (init loc store) pre).1.track.filter (fun p => !(p.2.all (fun i => decide (i ∈ (run (init loc store) pre).1.finished)))) ∧
    (step (run (init loc store) pre).1 .periodic).2.1.map (·.obj) =
      ((run (init loc store) pre).1.track.filter (fun p => p.2.all (fun i => decide (i ∈ (run (init loc store) pre).1.finished)))).map (·.1) ∧
    ∀ d ∈ (step (run (init loc store) pre).1 .periodic).2.1, d.tracked = true := by
  have hn := (WF12.ofRun loc store pre hpre).2.trackNodup
  generalize (run (init loc store) pre).1 = s at *
  have hok' : (periodic s).2.2 = none := hok
  show (periodic s).1.track = _ ∧ (periodic s).2.1.map (·.obj) = _ ∧ ∀ d ∈ (periodic s).2.1, d.tracked = true
  rcases periodic_cases s with ⟨hf, _⟩ | ⟨_, err, _, hs⟩ | ⟨_, hgo, hs⟩
  · exact absurd hf hne
  · rw [hs] at hok'; cases hok'
  · have hdel := periodicGo_del s.finished s.track s hgo
    rw [hs]
    refine ⟨?_, ?_, (periodicGo_log _ _ _).2⟩
    · simp only [(periodicGo_frame _ _ _).1]
      apply List.filter_congr
      intro p hp
      rw [hdel]
      by_cases hall : (p.2.all fun i => decide (i ∈ s.finished)) = true
      · have : p.1 ∈ List.map (·.1) (s.track.filter (fun p => p.2.all fun i => decide (i ∈ s.finished))) :=
          List.mem_map.mpr ⟨p, List.mem_filter.mpr ⟨hp, hall⟩, rfl⟩
        simp [hall, this]
      · have : p.1 ∉ List.map (·.1) (s.track.filter (fun p => p.2.all fun i => decide (i ∈ s.finished))) := by
          intro hin
          obtain ⟨p', hp', he⟩ := List.mem_map.mp hin
          obtain ⟨hp'm, hp'all⟩ := List.mem_filter.mp hp'
          have h1 := dget_of_mem_nodup hn (show (p'.1, p'.2) ∈ s.track from hp'm)
          have h2 := dget_of_mem_nodup hn (show (p.1, p.2) ∈ s.track from hp)
          rw [he, h2] at h1
          have heq : p.2 = p'.2 := Option.some.inj h1
          rw [heq] at hall
          exact hall hp'all
        simp [hall, this]
    · simp only; rw [(periodicGo_log _ _ _).1, hdel]

/-- with orchestrator events only, `drop_cfw_data` never meets a tracked uuid without object: the call cannot raise KeyError -/
theorem C09.life_periodic_never_raises (loc : Bool) (store : List Nat) (pre : List Ev)
    (hpre : (run (init loc store) pre).2.2 = none) (horch : ∀ e ∈ pre, orchEv e = true) :
    (step (run (init loc store) pre).1 .periodic).2.2 = none := by
  have hk := (WF12.ofRun loc store pre hpre).2.trackKeys horch
  generalize (run (init loc store) pre).1 = s at *
  have hgo := periodicGo_no_error s.finished s.track s hk
  show (periodic s).2.2 = none
  rcases periodic_cases s with ⟨_, hs⟩ | ⟨_, err, herr, _⟩ | ⟨_, _, hs⟩
  · rw [hs]
  · rw [hgo] at herr; cases herr
  · rw [hs]

/-! ## ... and not too late -/

/-- EVENTUALLY DROPPED (in-process path, orchestrator events only).  Let `e` process a done feature-group step with at least one
feature on an object that was never handed to a worker, after which every uuid of the object's `children_if_root` has been
reported to it.  Then this very event calls `drop_last_data` on the object (its data is gone), and after the next
`drop_data_for_finished_cfws` - which cannot raise - nothing of that object stays tracked. -/
theorem C09.life_eventually_dropped (loc : Bool) (store : List Nat) (pre : List Ev) (o st : Nat) (F : List Nat) (req : Bool) (ob : Obj)
    (horch : ∀ e ∈ pre, orchEv e = true) (hns : ∀ e ∈ pre, e ≠ Ev.spawn o) (hF : F ≠ [])
    (hok : (run (init loc store) (pre ++ [.fgDone o st F req])).2.2 = none)
    (hob : dget (run (init loc store) pre).1.objs o = some ob)
    (hall : ∀ x ∈ ob.cfw.children, x ∈ reportedIn o (pre ++ [.fgDone o st F req])) :
    (∃ d ∈ (step (run (init loc store) pre).1 (.fgDone o st F req)).2.1, d.obj = o ∧ d.tracked = false) ∧
    (∃ ob', dget (run (init loc store) (pre ++ [.fgDone o st F req])).1.objs o = some ob' ∧ ob'.cfw.dataKey = none ∧ ob'.table = false) ∧
    (step (run (init loc store) (pre ++ [.fgDone o st F req])).1 .periodic).2.2 = none ∧
    o ∉ dkeys (step (run (init loc store) (pre ++ [.fgDone o st F req])).1 .periodic).1.track := by
  have hpre := run_prefix_ok _ pre _ hok
  have w1 := WF1.ofRun loc store pre hpre
  have w' := WF12.ofRun loc store _ hok
  have horch' : ∀ e ∈ pre ++ [Ev.fgDone o st F req], orchEv e = true := by
    intro e he; rcases List.mem_append.mp he with h | h
    · exact horch e h
    · simp at h; subst h; rfl
  have hns' : ∀ e ∈ pre ++ [Ev.fgDone o st F req], e ≠ Ev.spawn o := by
    intro e he; rcases List.mem_append.mp he with h | h
    · exact hns e h
    · simp at h; subst h; simp
  rw [run_snoc_ok _ pre _ hpre] at hok w' ⊢
  simp only at hok w' ⊢
  generalize hs : (run (init loc store) pre).1 = s at *
  obtain ⟨hq, hrep⟩ := w1.inproc o hns ob hob
  -- every child is in the tracker or in F: the report drops
  have hall' : ∀ x ∈ ob.cfw.children, x ∈ ob.cfw.tracker ∨ x ∈ F := by
    intro x hx
    have := hall x hx
    rw [reportedIn_append, List.mem_append] at this
    rcases this with h | h
    · exact Or.inl (hrep x h)
    · right; simpa [reportedIn] using h
  obtain ⟨k, hk⟩ := (report_dropped_iff ob.cfw F).mpr hall'
  rcases fgDone_cases s o st F req with ⟨hg, _⟩ | ⟨ob1, err, _, hst⟩ | ⟨ob1, hg, _, hst⟩
  · rw [hob] at hg; cases hg
  · have : (step s (.fgDone o st F req)).2.2 = some err := by show (fgDone s o st F req).2.2 = _; rw [hst]
    rw [this] at hok; cases hok
  · rw [hob] at hg; cases hg
    have hst' : step s (.fgDone o st F req) = _ := hst
    have hrecs : dropRecs s.loc o ob F = [⟨o, false, if s.loc then k else none, hasData ob⟩] := by
      simp only [dropRecs, hq, hk]
    have hobj : dropObj ob F = { ob with cfw := (report ob.cfw F).1, table := false } := by
      rw [dropObj_none F hq, hk]
    refine ⟨?_, ?_, ?_, ?_⟩
    · rw [hst']; simp only [hrecs]
      exact ⟨_, List.mem_singleton.mpr rfl, rfl, rfl⟩
    · rw [hst']; simp only
      refine ⟨dropObj ob F, dget_dset_self _ _ _, ?_, ?_⟩
      · rw [hobj]; exact (report_dropped_key _ _ _ hk).2
      · rw [hobj]
    · -- the periodic call after it does not raise: every tracked key has an object
      have hkeys := w'.2.trackKeys horch'
      have hgo := periodicGo_no_error (step s (.fgDone o st F req)).1.finished (step s (.fgDone o st F req)).1.track _ hkeys
      show (periodic (step s (.fgDone o st F req)).1).2.2 = none
      rcases periodic_cases (step s (.fgDone o st F req)).1 with ⟨_, hp⟩ | ⟨_, err, herr, _⟩ | ⟨_, _, hp⟩
      · rw [hp]
      · rw [hgo] at herr; cases herr
      · rw [hp]
    · -- o's entry (if any) lists children(o) ⊆ finished_ids, so it is deleted
      generalize hs2 : (step s (.fgDone o st F req)).1 = s2 at *
      have hfin : s2.finished ≠ [] := by
        intro hnil
        obtain ⟨x, hx⟩ := List.exists_mem_of_ne_nil F hF
        have : x ∈ s2.finished := (w'.1.finishedIff x).mpr (by
          rw [finishedIn_append, List.mem_append]; right; simp [finishedIn, hx])
        rw [hnil] at this; cases this
      have hkeys := w'.2.trackKeys horch'
      have hgo := periodicGo_no_error s2.finished s2.track s2 hkeys
      show o ∉ dkeys (periodic s2).1.track
      rcases periodic_cases s2 with ⟨hf, _⟩ | ⟨_, err, herr, _⟩ | ⟨_, _, hp⟩
      · exact absurd hf hfin
      · rw [hgo] at herr; cases herr
      · rw [hp]
        simp only [(periodicGo_frame _ _ _).1]
        have hkf := dkeys_filter_key s2.track (fun k => decide (k ∉ (periodicGo s2.finished s2.track s2).2.1))
        rw [hkf]
        intro hin
        obtain ⟨hin1, hin2⟩ := List.mem_filter.mp hin
        simp only [decide_eq_true_eq] at hin2
        apply hin2
        rw [periodicGo_del s2.finished s2.track s2 hgo]
        obtain ⟨ids, hget⟩ := dget_of_mem_dkeys hin1
        obtain ⟨ob2, hob2, hids⟩ := w'.2.trackIds horch' o hns' ids hget
        have hch : ob2.cfw.children = ob.cfw.children := by
          have := w'.1.childrenReg o ob2 hob2
          -- the object is the one of `pre`, carried through the step
          obtain ⟨ob3, hp3, hc3⟩ := obj_children_next s (.fgDone o st F req) o ob hob
          rw [hs2] at hp3
          rw [hob2] at hp3; cases hp3; exact hc3
        refine List.mem_map.mpr ⟨(o, ids), List.mem_filter.mpr ⟨dget_mem hget, ?_⟩, rfl⟩
        simp only [List.all_eq_true, decide_eq_true_eq]
        intro i hi
        rw [hids, hch] at hi
        exact (w'.1.finishedIff i).mpr (reportedIn_sub_finishedIn o _ i (hall i hi))

/-- the opposite direction of "not too early" for one in-process report: if a child is still missing, nothing is dropped -/
theorem C09.life_kept_while_child_missing (s : LS) (o st : Nat) (F : List Nat) (req : Bool) (ob : Obj) (x : Nat)
    (hob : dget s.objs o = some ob) (hq : ob.queue = none) (hx : x ∈ ob.cfw.children) (hnt : x ∉ ob.cfw.tracker) (hnf : x ∉ F) :
    (step s (.fgDone o st F req)).2.1 = [] := by
  have hno : ¬ ∃ k, (report ob.cfw F).2 = .dropped k := by
    intro h
    rcases (report_dropped_iff ob.cfw F).mp h x hx with h1 | h1
    · exact hnt h1
    · exact hnf h1
  rcases fgDone_cases s o st F req with ⟨_, hst⟩ | ⟨ob1, err, _, hst⟩ | ⟨ob1, hg, _, hst⟩
  · show (fgDone s o st F req).2.1 = []; rw [hst]
  · show (fgDone s o st F req).2.1 = []; rw [hst]
  · rw [hob] at hg; cases hg
    show (fgDone s o st F req).2.1 = []; rw [hst]
    simp only [dropRecs, hq]
    cases hd : (report ob.cfw F).2 with
    | dropped k => exact absurd ⟨k, hd⟩ hno
    | pending => rfl
    | no => rfl

/-! ## result_data_collection -/

/-- RESULTS ONCE.  Along every error-free run: `result_data_collection` never has two entries for one step uuid; every entry
(still collected or already yielded) belongs to a processed step with initially requested features; if no step uuid is processed
twice, the yielded and the still collected step uuids together are a permutation of the requested processed steps (nothing is
lost, nothing is duplicated - the multiset "drained ∪ remaining" is invariant under `pop`); and without `pop` (batch `compute`)
the collection lists them in processing order -/
theorem C09.life_results_once (loc : Bool) (store : List Nat) (evs : List Ev) (hok : (run (init loc store) evs).2.2 = none) :
    (dkeys (run (init loc store) evs).1.results).Nodup ∧
    (∀ k, k ∈ dkeys (run (init loc store) evs).1.results ∨ k ∈ dkeys (run (init loc store) evs).1.yielded → k ∈ reqSteps evs) ∧
    ((fgSteps evs).Nodup → List.Perm (dkeys (run (init loc store) evs).1.yielded ++ dkeys (run (init loc store) evs).1.results) (reqSteps evs)) ∧
    ((∀ e ∈ evs, e ≠ Ev.pop) → (fgSteps evs).Nodup →
      dkeys (run (init loc store) evs).1.results = reqSteps evs ∧ (run (init loc store) evs).1.yielded = []) :=
  let w := WF3.ofRun loc store evs hok
  ⟨w.resultsNodup, w.resultsFrom, w.permResults, w.noPop⟩

/-- `get_results` returns the values in insertion order and raises exactly on an empty collection -/
theorem C09.life_get_results_order (s : LS) :
    (s.results ≠ [] → getResults s = .ok (s.results.map (·.2))) ∧ (s.results = [] → getResults s = .error .noResults) := by
  constructor
  · intro h; cases hr : s.results with
    | nil => exact absurd hr h
    | cons p t => simp [getResults, hr]
  · intro h; simp [getResults, h]

/-- `pop_result_data_collection` drains LIFO: one `pop` moves exactly the newest entry to the yielded list; draining everything
yields the reverse insertion order and leaves the collection empty -/
theorem C09.life_pop_lifo (s : LS) :
    (∀ p rest, s.results = rest ++ [p] → (step s .pop).1.results = rest ∧ (step s .pop).1.yielded = s.yielded ++ [p]) ∧
    (s.results = [] → (step s .pop).1 = s) ∧
    ((popAll s).results = [] ∧ (popAll s).yielded = s.yielded ++ s.results.reverse) := by
  refine ⟨?_, ?_, rfl, rfl⟩
  · intro p rest h
    have hl : s.results.getLast? = some p := by rw [h]; simp
    have hd : s.results.dropLast = rest := by rw [h]; simp
    have hst : step s .pop = ({ s with results := s.results.dropLast, yielded := s.yielded ++ [p] }, [], none) := by
      simp only [step, hl]
    rw [hst]
    exact ⟨hd, rfl⟩
  · intro h
    simp only [step, h, List.getLast?_nil]

/-- `popAll` is what repeated `pop` does: n pops drain a collection of n entries completely, newest first -/
theorem C09.life_pop_all_is_repeated_pop (s : LS) (n : Nat) (h : s.results.length = n) :
    (run s (List.replicate n .pop)).1 = popAll s ∧ (run s (List.replicate n .pop)).2.2 = none := by
  induction n generalizing s with
  | zero =>
    have : s.results = [] := List.length_eq_zero_iff.mp h
    cases s with
    | mk objs track flyway results yielded finished store loc =>
      simp only at this
      subst this
      simp [run_nil, popAll]
  | succ n ih =>
    have hne : s.results ≠ [] := by intro he; rw [he] at h; cases h
    obtain ⟨p, hp⟩ : ∃ p, s.results.getLast? = some p := by
      cases hl : s.results.getLast? with
      | none => exact absurd (List.getLast?_eq_none_iff.mp hl) hne
      | some p => exact ⟨p, rfl⟩
    have hst : step s .pop = ({ s with results := s.results.dropLast, yielded := s.yielded ++ [p] }, [], none) := by
      simp only [step, hp]
    have hok : (step s .pop).2.2 = none := by rw [hst]
    rw [List.replicate_succ, run_cons_ok s .pop _ hok, hst]
    have hlen : ({ s with results := s.results.dropLast, yielded := s.yielded ++ [p] } : LS).results.length = n := by
      simp [h]
    obtain ⟨h1, h2⟩ := ih _ hlen
    refine ⟨?_, h2⟩
    rw [h1]
    have hsplit := eq_dropLast_append_of_getLast? hp
    simp only [popAll]
    rw [List.append_assoc]
    congr 2
    conv => rhs; rw [hsplit]
    simp

/-! ## the clean-up in `finally` -/

/-- a run of the orchestrator is a run of the store-level model of `Model/Store.lean` (registrations, uploads, drops) -/
theorem C09.life_refines_store (s : LS) (evs : List Ev) : ∃ sevs, toRun (run s evs).1 = srun (toRun s) sevs :=
  run_refines s evs

/-- FINAL CLEAN-UP COVERS ALL.  Whatever the event list was and whether or not it raised: after `_drop_remaining_flight_data`
no key of this run's objects is in the store; and if the store held none of the run's keys before, it holds nothing it did
not hold before (composition of the refinement with `C09.store_clean_after_run` / `C09.store_restored`) -/
theorem C09.life_final_cleanup_covers_all (store : List Nat) (evs : List Ev) :
    (∀ k ∈ (compute (init true store) evs).1.store, k ∉ dkeys (compute (init true store) evs).1.objs) ∧
    ((∀ k ∈ store, k ∉ dkeys (compute (init true store) evs).1.objs) → ∀ k ∈ (compute (init true store) evs).1.store, k ∈ store) := by
  obtain ⟨sevs, href⟩ := run_refines (init true store) evs
  have hloc : (run (init true store) evs).1.loc = true := by
    suffices H : ∀ (es : List Ev) (s : LS), s.loc = true → (run s es).1.loc = true from H evs _ rfl
    intro es
    induction es with
    | nil => intro s h; exact h
    | cons e es ih =>
      intro s h
      have hstep : (step s e).1.loc = true := by
        obtain ⟨sv, hsv⟩ := step_refines s e
        -- `loc` is never written
        cases e with
        | fgDone o st F req =>
          rcases fgDone_cases s o st F req with ⟨_, hs⟩ | ⟨ob1, err, _, hs⟩ | ⟨ob1, _, _, hs⟩ <;>
            (show (fgDone s o st F req).1.loc = true; rw [hs]; exact h)
        | periodic =>
          show (periodic s).1.loc = true
          rcases periodic_cases s with ⟨_, hs⟩ | ⟨_, err, _, hs⟩ | ⟨_, _, hs⟩
          · rw [hs]; exact h
          · rw [hs]; simp only; rw [(periodicGo_frame _ _ _).2.2.2.2.2.1]; exact h
          · rw [hs]; simp only; rw [(periodicGo_frame _ _ _).2.2.2.2.2.1]; exact h
        | otherDone ids => exact h
        | setFlyway o ids => exact h
        | trackFlyway o ids => exact h
        | pop => simp only [step]; split <;> exact h
        | register o ch => simp only [step]; split <;> exact h
        | spawn o => simp only [step]; split <;> exact h
        | ran o => simp only [step]; split <;> exact h
        | uploadKeep o =>
          simp only [step]; split
          · exact h
          · split
            · exact h
            · split <;> exact h
        | uploadReplace o =>
          simp only [step]; split
          · exact h
          · split
            · exact h
            · split <;> exact h
      rcases opt_cases (step s e).2.2 with he | ⟨err, he⟩
      · rw [run_cons_ok s e es he]; exact ih _ hstep
      · rw [run_cons_err s e es err he]; exact hstep
  have hfin : toRun (compute (init true store) evs).1 = finalDrop (srun (toRun (init true store)) sevs) := by
    show toRun (finalCleanup (run (init true store) evs).1) = _
    rw [finalCleanup_toRun _ hloc, href]
  have hobjs : dkeys (compute (init true store) evs).1.objs = (srun (toRun (init true store)) sevs).keys := by
    show dkeys (finalCleanup (run (init true store) evs).1).objs = _
    rw [finalCleanup_objs, ← href]; rfl
  have hstore : (compute (init true store) evs).1.store = (finalDrop (srun (toRun (init true store)) sevs)).store := by
    rw [← hfin]; rfl
  constructor
  · intro k hk
    rw [hobjs]; rw [hstore] at hk
    exact (C09.store_clean_after_run (toRun (init true store)) sevs).1 k hk
  · intro hfresh k hk
    rw [hstore] at hk
    have := C09.store_restored (toRun (init true store)) sevs (by
      intro q hq; rw [← hobjs]; exact hfresh q hq) k hk
    exact this

/-- without a location nothing is ever uploaded or removed: the store is untouched by any run -/
theorem C09.life_no_location_store_untouched (store : List Nat) (evs : List Ev) :
    (compute (init false store) evs).1.store = store := by
  suffices H : ∀ (es : List Ev) (s : LS), s.loc = false → (run s es).1.loc = false ∧ (run s es).1.store = s.store by
    have := H evs (init false store) rfl
    show (finalCleanup (run (init false store) evs).1).store = store
    simp only [finalCleanup, this.1]
    exact this.2
  intro es
  induction es with
  | nil => intro s h; exact ⟨h, rfl⟩
  | cons e es ih =>
    intro s h
    have hstep : (step s e).1.loc = false ∧ (step s e).1.store = s.store := by
      cases e with
      | fgDone o st F req =>
        rcases fgDone_cases s o st F req with ⟨_, hs⟩ | ⟨ob1, err, _, hs⟩ | ⟨ob1, _, _, hs⟩
        · show (fgDone s o st F req).1.loc = false ∧ (fgDone s o st F req).1.store = _; rw [hs]; exact ⟨h, rfl⟩
        · show (fgDone s o st F req).1.loc = false ∧ (fgDone s o st F req).1.store = _; rw [hs]; exact ⟨h, rfl⟩
        · show (fgDone s o st F req).1.loc = false ∧ (fgDone s o st F req).1.store = _; rw [hs]
          refine ⟨h, ?_⟩
          have : dropKey s.loc ob1 F = none := by
            simp only [dropKey, h]
            split
            · split <;> simp
            · rfl
          simp only [this, rm]
      | periodic =>
        show (periodic s).1.loc = false ∧ (periodic s).1.store = _
        have hgo : ∀ (items : List (Nat × List Nat)) (s' : LS), s'.loc = false → (periodicGo s.finished items s').1.store = s'.store := by
          intro items
          induction items with
          | nil => intro s' _; rfl
          | cons p t iht =>
            intro s' hl
            obtain ⟨o1, ids⟩ := p
            simp only [periodicGo]
            split
            · split
              · rfl
              · rw [iht _ (by simpa using hl)]; simp [hl, rm]
            · exact iht s' hl
        rcases periodic_cases s with ⟨_, hs⟩ | ⟨_, err, _, hs⟩ | ⟨_, _, hs⟩
        · rw [hs]; exact ⟨h, rfl⟩
        · rw [hs]; simp only; exact ⟨by rw [(periodicGo_frame _ _ _).2.2.2.2.2.1]; exact h, hgo _ _ h⟩
        · rw [hs]; simp only; exact ⟨by rw [(periodicGo_frame _ _ _).2.2.2.2.2.1]; exact h, hgo _ _ h⟩
      | otherDone ids => exact ⟨h, rfl⟩
      | setFlyway o ids => exact ⟨h, rfl⟩
      | trackFlyway o ids => exact ⟨h, rfl⟩
      | pop => simp only [step]; split <;> exact ⟨h, rfl⟩
      | register o ch => simp only [step]; split <;> exact ⟨h, rfl⟩
      | spawn o => simp only [step]; split <;> exact ⟨h, rfl⟩
      | ran o => simp only [step]; split <;> exact ⟨h, rfl⟩
      | uploadKeep o =>
        simp only [step]; split
        · exact ⟨h, rfl⟩
        · simp [h]
      | uploadReplace o =>
        simp only [step]; split
        · exact ⟨h, rfl⟩
        · simp [h]
    rcases opt_cases (step s e).2.2 with he | ⟨err, he⟩
    · rw [run_cons_ok s e es he]
      have := ih _ hstep.1
      exact ⟨this.1, by rw [this.2, hstep.2]⟩
    · rw [run_cons_err s e es err he]; exact hstep

/-! ## the worker process -/

/-- every result message answers a step command, at most one per command and in command order: the ids of the `done` messages
are a sub-sequence of the ids of the step commands (for every command list and every start state) -/
theorem C09.life_worker_results_sublist (o : Nat) (w : WS) (cmds : List WCmd) :
    ∃ l, doneIds (wloop o w cmds).out = doneIds w.out ++ l ∧ List.Sublist l (stepIds cmds) :=
  wloop_done_sublist o cmds w

/-- a drop command never yields a step result: without step commands there is no `done` message -/
theorem C09.life_worker_drop_yields_no_result (o : Nat) (w : WS) (cmds : List WCmd) (h : stepIds cmds = []) :
    doneIds (wloop o w cmds).out = doneIds w.out := by
  obtain ⟨l, h1, h2⟩ := wloop_done_sublist o cmds w
  rw [h] at h2
  rw [h1, List.sublist_nil.mp h2, List.append_nil]

/-- a worker that is still in its loop at the end has answered EVERY step command exactly once, in order -/
theorem C09.life_worker_all_answered (o : Nat) (w : WS) (cmds : List WCmd) (h : (wloop o w cmds).alive = true) :
    doneIds (wloop o w cmds).out = doneIds w.out ++ stepIds cmds :=
  wloop_alive_all_done o cmds w h

/-- FALSE in general: "every step command yields exactly one result message".  A step that raises yields none (the error flag
is set instead and the worker leaves its loop), and a command behind a drop that emptied the object is never read -/
theorem C09.life_worker_one_result_per_step_witness :
    doneIds (wloop 1 { cfw := { children := [10] } } [.step 50 false .raise false, .step 51 false .table false]).out = [] ∧
    (wloop 1 { cfw := { children := [10] } } [.step 50 false .raise false, .step 51 false .table false]).error = true ∧
    doneIds (wloop 1 { cfw := { children := [10] } } [.drop [10], .step 51 false .table false]).out = [] ∧
    (wloop 1 { cfw := { children := [10] } } [.drop [10], .step 51 false .table false]).unread = 1 := by decide

/-- the worker's copy of the tracker holds only uuids named by drop commands it has read; its `children_if_root` never changes -/
theorem C09.life_worker_tracker (o : Nat) (w : WS) (cmds : List WCmd) :
    (wloop o w cmds).cfw.children = w.cfw.children ∧
    ∀ x ∈ (wloop o w cmds).cfw.tracker, x ∈ w.cfw.tracker ∨ ∃ F ∈ dropCmds cmds, x ∈ F :=
  ⟨wloop_children o cmds w, wloop_tracker o cmds w⟩

/-- the worker drops its data (and stops) on a drop command only when every child of the object has been named by a drop
command read so far (SET inclusion again) -/
theorem C09.life_worker_drop_not_premature (o : Nat) (children : List Nat) (pre : List WCmd) (F : List Nat) (k : Option Nat)
    (h : (report (wloop o { cfw := { children := children } } pre).cfw F).2 = .dropped k) :
    ∀ x ∈ children, ∃ G ∈ dropCmds (pre ++ [.drop F]), x ∈ G := by
  intro x hx
  have hc := wloop_children o pre { cfw := { children := children } }
  have hall := (report_dropped_iff _ F).mp ⟨k, h⟩ x (by rw [hc]; exact hx)
  rw [dropCmds_snoc]
  rcases hall with h1 | h1
  · rcases wloop_tracker o pre _ x h1 with h2 | ⟨G, hG, hxG⟩
    · cases h2
    · exact ⟨G, List.mem_append_left _ hG, hxG⟩
  · exact ⟨F, by simp, h1⟩

/-! ## the orchestrator's side of the result queues -/

/-- `poll_result_queues` never loses a step result: every step uuid that was collected or queued before is collected or queued
afterwards, and nothing is invented -/
theorem C09.life_poll_keeps_results (qs : List (List Msg)) (coll : List Nat) (u : Nat) :
    (u ∈ (poll qs coll).2 ∨ ∃ q ∈ (poll qs coll).1, Msg.done u ∈ q) ↔ (u ∈ coll ∨ ∃ q ∈ qs, Msg.done u ∈ q) :=
  poll_keeps qs coll u

/-- every result queue is polled in every call, whatever the others hold (a late DROP_COMPLETE is taken off and skipped):
each queue loses exactly its head -/
theorem C09.life_poll_polls_every_queue (qs : List (List Msg)) (coll : List Nat) : (poll qs coll).1 = qs.map List.tail :=
  poll_tails qs coll

/-- before the repair (fix 4cba3bf) the poll raised exactly when the head of some queue was a DROP_COMPLETE tuple (`UUID(tuple)`) -/
theorem C09.life_poll_unrepaired_raises_iff (qs : List (List Msg)) (coll : List Nat) :
    (pollUnrepaired qs coll).2.2 = true ↔ ∃ q ∈ qs, ∃ o t, q = Msg.dropComplete o :: t :=
  pollUnrepaired_raises_iff qs coll

/-- WHAT THE WAIT DOES WITH OTHER MESSAGES: `wait_for_drop_completion` consumes the matching DROP_COMPLETE and nothing else.
Whatever was queued and whatever arrives while it waits (step results, DROP_COMPLETEs of other objects) is still queued
afterwards - as a multiset; after a timeout everything is still there -/
theorem C09.life_wait_consumes_only_matching (o : Nat) (sched : List (List Msg)) (q : List Msg) :
    ((waitDrop o sched q).2 = true → ∃ n, n ≤ sched.length ∧
        List.Perm (Msg.dropComplete o :: (waitDrop o sched q).1) (q ++ (sched.take n).flatten)) ∧
    ((waitDrop o sched q).2 = false → List.Perm (waitDrop o sched q).1 (q ++ sched.flatten)) :=
  waitDrop_perm o sched q

/-- ... but not their order: a step result in front of the DROP_COMPLETE is put back BEHIND the one that followed it -/
theorem C09.life_wait_reorders_witness :
    waitDrop 5 [[], [], []] [.done 1, .dropComplete 5, .done 2] = ([.done 2, .done 1], true) := by decide

/-- a DROP_COMPLETE that arrives after the wait timed out stays in the queue.  UNREPAIRED poll: it was taken for a step result,
`UUID(("DROP_COMPLETE", uuid))` raised (the run died although every step had succeeded), the message was gone and the step
result behind it still queued - found here, repaired in /repo by fix 4cba3bf.  REPAIRED poll: it is skipped, the queues behind
it are still polled, the step result is collected by the next poll -/
theorem C09.life_late_drop_complete_poisons_poll_witness :
    waitDrop 5 [[], []] [] = ([], false) ∧
    pollUnrepaired [[.dropComplete 5, .done 1], [.done 2]] [] = ([[.done 1], [.done 2]], [], true) ∧
    poll [[.dropComplete 5, .done 1], [.done 2]] [] = ([[.done 1], []], [2]) ∧
    poll (poll [[.dropComplete 5, .done 1], [.done 2]] []).1 (poll [[.dropComplete 5, .done 1], [.done 2]] []).2 = ([[], []], [2, 1]) := by decide

/-! ## closed witnesses about what the protocol does NOT do -/

/-- an upload whose key is ignored (`need_to_upload`, join / transform uploads, requested results in a worker) leaves the
object's data a table: the children tracker later drops the table but removes nothing from the store; the key is only removed
by the clean-up in `finally` -/
theorem C09.life_upload_keep_leaks_until_final_witness :
    (run (init true []) [.register 1 [10], .ran 1, .uploadKeep 1, .fgDone 1 50 [10] false]).1.store = [1] ∧
    (run (init true []) [.register 1 [10], .ran 1, .uploadKeep 1, .fgDone 1 50 [10] false]).2.1 = [⟨1, false, none, true⟩] ∧
    (compute (init true []) [.register 1 [10], .ran 1, .uploadKeep 1, .fgDone 1 50 [10] false]).1.store = [] := by decide

/-- the worker path: the orchestrator's own copy of the object never receives a report, so the tracked entry of an object
whose dataset was uploaded by its worker is "dropped" on a copy without data - no key leaves the store before `finally` -/
theorem C09.life_tracked_drop_on_main_copy_is_noop_witness :
    (run { loc := true, store := [1] } [.register 1 [10], .spawn 1, .setFlyway 1 [10], .fgDone 1 50 [10] false, .periodic]).2.1
      = [⟨1, true, none, false⟩] ∧
    (run { loc := true, store := [1] } [.register 1 [10], .spawn 1, .setFlyway 1 [10], .fgDone 1 50 [10] false, .periodic]).1.store = [1] ∧
    (run { loc := true, store := [1] } [.register 1 [10], .spawn 1, .setFlyway 1 [10], .fgDone 1 50 [10] false, .periodic]).1.track = [] := by
  decide

/-- a double `drop_last_data` does happen (children tracker, then the stale tracked entry) - the second call finds no data -/
theorem C09.life_second_drop_is_empty_witness :
    (run (init true []) [.register 1 [10, 11], .ran 1, .uploadReplace 1, .fgDone 1 50 [10] false, .fgDone 1 51 [11] false, .periodic]).2.1
      = [⟨1, false, some 1, true⟩, ⟨1, true, none, false⟩] := by decide

/-! ## non-vacuity of the hypotheses above -/

-- an error-free history in which both kinds of drops happen
example : (run (init true [7]) [.register 1 [10, 11], .ran 1, .uploadReplace 1, .fgDone 1 50 [10] false, .otherDone [11], .periodic,
      .register 2 [12], .ran 2, .fgDone 2 51 [12] true]).2.2 = none ∧
    (run (init true [7]) [.register 1 [10, 11], .ran 1, .uploadReplace 1, .fgDone 1 50 [10] false, .otherDone [11], .periodic,
      .register 2 [12], .ran 2, .fgDone 2 51 [12] true]).2.1 = [⟨1, true, some 1, true⟩, ⟨2, false, none, true⟩] := by decide

-- hypotheses of `C09.life_eventually_dropped`: orchestrator events, never spawned, non-empty F, error-free, all children reported
example : let pre : List Ev := [.register 1 [10, 11], .ran 1, .fgDone 1 50 [10] false]
    (∀ e ∈ pre, orchEv e = true) ∧ (∀ e ∈ pre, e ≠ Ev.spawn 1) ∧
    (run (init false []) (pre ++ [.fgDone 1 51 [11] true])).2.2 = none ∧
    (∃ ob, dget (run (init false []) pre).1.objs 1 = some ob ∧ ∀ x ∈ ob.cfw.children, x ∈ reportedIn 1 (pre ++ [.fgDone 1 51 [11] true])) := by
  refine ⟨by decide, by decide, by decide, ?_⟩
  exact ⟨_, rfl, by decide⟩

-- hypotheses of `C09.life_tracked_entry_removed_after_drop`: error-free, finished non-empty, the periodic call does not raise
example : let pre : List Ev := [.register 1 [10, 11], .ran 1, .uploadReplace 1, .fgDone 1 50 [10] false, .otherDone [11]]
    (run (init true []) pre).2.2 = none ∧ (run (init true []) pre).1.finished ≠ [] ∧
    (step (run (init true []) pre).1 .periodic).2.2 = none ∧ (run (init true []) pre).1.track ≠ [] := by decide

-- hypotheses of `C09.life_results_once`: distinct step uuids, some requested, with a pop in between
example : (fgSteps [.register 1 [10, 11], .ran 1, .fgDone 1 50 [10] true, Ev.pop, .fgDone 1 51 [11] true]).Nodup ∧
    (run (init false []) [.register 1 [10, 11], .ran 1, .fgDone 1 50 [10] true, Ev.pop, .fgDone 1 51 [11] true]).2.2 = none ∧
    dkeys (run (init false []) [.register 1 [10, 11], .ran 1, .fgDone 1 50 [10] true, Ev.pop, .fgDone 1 51 [11] true]).1.yielded = [50] := by decide

-- a worker that is alive at the end (hypothesis of `C09.life_worker_all_answered`) after steps and a non-final drop command
example : (wloop 1 { cfw := { children := [10, 11] } } [.step 50 true .table false, .drop [10], .step 51 false .key false]).alive = true := by decide

-- a wait that finds its message while two more arrive (hypothesis `found = true` of `C09.life_wait_consumes_only_matching`)
example : (waitDrop 5 [[.done 3], [.dropComplete 5], [.done 4], []] [.done 1]) = ([.done 3, .done 4, .done 1], true) := by decide
