import MlodaVerif.Lemmas.SchedInv
import MlodaVerif.Gen.RunLoop
/-! # C04 – the return condition of the model's loop head is the translated `while` test of `compute`

`while to_finish_ids != finished_ids or len(finished_ids) == 0` (translated every run into `Gen.RunLoop.computeWhileCond`).
After one full pass `to_finish_ids` holds every uuid of the plan (`C01.gen_loop_body_to_finish`); in a reachable state
`finished` only holds uuids of collected steps (`SInv.fin_owner`), so set equality with `allOuts p` is the model's
"every uuid of the plan is finished". -/
open Sched PyRt Gen.RunLoop

/-- the model's return test at the loop head -/
def returnsNow (p : Plan) (s : St) : Bool := (allOuts p).all (· ∈ s.finished) && !s.finished.isEmpty

theorem C04.gen_while_cond_is_loop_head (p : Plan) (s : St) (hd : DisjointOuts p) (hr : Reach p s) :
    computeWhileCond (allOuts p) s.finished = .ok (!returnsNow p s) := by
  have hi := sinv_reach hd hr
  have hsub : s.finished.all (· ∈ allOuts p) = true := by
    apply List.all_eq_true.2
    intro u hu
    obtain ⟨i, st, _, hp, hmem⟩ := hi.fin_owner u hu
    have : st ∈ p := List.mem_of_getElem? hp
    simp only [allOuts, decide_eq_true_eq, List.mem_flatMap]
    exact ⟨st, this, hmem⟩
  unfold computeWhileCond returnsNow
  simp only [PSet.eq, hsub, Bool.and_true, pure, Except.pure]
  cases h : s.finished with
  | nil => simp
  | cons a t => simp

/-- the stream loop tests the same condition -/
theorem C04.gen_stream_while_cond_eq : computeStreamWhileCond = computeWhileCond := rfl

example : computeWhileCond [1, 2] [2, 1] = .ok false := by rfl
example : computeWhileCond [] [] = .ok true := by rfl
