import MlodaVerif.Lemmas.SchedOrder
import MlodaVerif.Lemmas.PlanOK
import MlodaVerif.Lemmas.Exec
/-! # C01 - every feature is computed once, and only after all of its inputs

Theorems about the orchestrator model `Sched` for *every* plan with disjoint, non-empty step outputs (decided on every
exported real plan by the harness, proved for the link-free planner core in `Props/C04`), for *every* event list, i.e.
every interleaving of main-loop visits, worker begins, completions and failures - SYNC, THREADING and MULTIPROCESSING
executions are particular event lists. -/
open Sched

/-- a step is handed to a worker at most once, and enters its calculation at most once -/
theorem C01.at_most_once (p : Plan) (hd : DisjointOuts p) (evs : List Ev) (i : Nat) :
    (run p init evs).started.count i ≤ 1 ∧ (run p init evs).begun.count i ≤ 1 := by
  have h := (rinv_reach hd evs).2
  exact ⟨List.nodup_iff_count.mp h.started_nodup i, List.nodup_iff_count.mp h.begun_nodup i⟩

/-- when a step's calculation begins, every uuid it requires has been produced by a step whose execution completed
earlier in the event list (a `finish` event strictly before this `begin`) -/
theorem C01.after_required (p : Plan) (hd : DisjointOuts p) (pre : List Ev) (i : Nat) (st : Step)
    (hst : p[i]? = some st)
    (hbegin : i ∉ (run p init pre).begun ∧ i ∈ (run p init (pre ++ [Ev.begin i])).begun) :
    ∀ u ∈ st.req, ∃ j sj, p[j]? = some sj ∧ u ∈ sj.outs ∧ Ev.finish j ∈ pre := by
  intro u hu
  have hrun : run p init (pre ++ [Ev.begin i]) = stepEv p (run p init pre) (Ev.begin i) := by
    simp [run, List.foldl_append]
  rw [hrun] at hbegin
  obtain ⟨_, hstarted⟩ := begun_new hbegin.2 hbegin.1
  obtain ⟨j, sj, h1, h2, h3⟩ := (rinv_reach hd pre).1 i hstarted st hst u hu
  exact ⟨j, sj, h1, h2, done_has_finish_event p pre init h3 (by simp [init])⟩

/-- transitivity is proved, not assumed: if every *direct* parent of each produced feature is among the step's
required uuids, then when a step is started *every* ancestor of every feature it produces has been produced by a
completed step -/
theorem C01.ancestors_first (p : Plan) (parents : Nat → List Nat) (hd : DisjointOuts p)
    (hpc : ParentsCovered p parents) (evs : List Ev) (i : Nat) (st : Step) (hst : p[i]? = some st)
    (hstarted : i ∈ (run p init evs).started) :
    ∀ f ∈ st.outs, ∀ a, Anc parents a f → ∃ j sj, p[j]? = some sj ∧ a ∈ sj.outs ∧ Ev.finish j ∈ evs := by
  intro f hf a ha
  obtain ⟨j, sj, h1, h2, h3⟩ := ainv_reach hd hpc evs i hstarted st hst f hf a ha
  exact ⟨j, sj, h1, h2, done_has_finish_event p evs init h3 (by simp [init])⟩

/-- a step begins only after it was started, and is started only with an open gate: all required uuids finished -/
theorem C01.begin_needs_gate (p : Plan) (s : St) (i : Nat) (h : i ∈ (stepEv p s (Ev.begin i)).begun)
    (hn : i ∉ s.begun) : i ∈ s.started := (begun_new h hn).2

/-- on normal return every step of the plan was started exactly once, began at most once and completed -/
theorem C01.exactly_once_on_return (p : Plan) (hd : DisjointOuts p) (hne : NonemptyOuts p) (evs : List Ev)
    (hret : (run p init evs).returned = true) (i : Nat) (st : Step) (hst : p[i]? = some st) :
    (run p init evs).started.count i = 1 ∧ i ∈ (run p init evs).done ∧ Ev.finish i ∈ evs := by
  have hall := returned_all_finished (p := p) evs init (by simp [init]) hret
  have hi := (rinv_reach hd evs).2
  obtain ⟨u, hu⟩ := List.exists_mem_of_ne_nil _ (hne st (List.mem_of_getElem? hst))
  have hufin : u ∈ (run p init evs).finished := by
    simp only [List.all_eq_true, decide_eq_true_eq] at hall
    apply hall
    simp only [allOuts, List.mem_flatMap]
    exact ⟨st, List.mem_of_getElem? hst, hu⟩
  obtain ⟨j, sj, hj1, hj2, hj3⟩ := hi.fin_owner u hufin
  have : j = i := hd j i sj st hj2 hst u hj3 hu
  subst this
  have hdone := hi.coll_sub j hj1
  have hstarted := hi.begun_sub j (hi.done_sub j hdone)
  refine ⟨?_, hdone, done_has_finish_event p evs init hdone (by simp [init])⟩
  have := List.nodup_iff_count.mp hi.started_nodup j
  have h1 : 0 < (run p init evs).started.count j := List.count_pos_iff.mpr hstarted
  omega

/-- the four one-line gate functions have the set semantics the orchestrator relies on -/
theorem C01.gate_semantics (req outs finished running : List Nat) :
    (canRun req outs finished running = true ↔ (∀ u ∈ req, u ∈ finished) ∧ (∀ u ∈ outs, u ∉ running)) ∧
    (isStepDone outs finished = true ↔ ∀ u ∈ outs, u ∈ finished) := by
  simp [canRun, isStepDone]

/-- trace acceptance is sound: what the driver accepts for a real run's event log *is* a behaviour of the model (its
worker events are exactly the observed ones, each enabled where it occurred), so the theorems above apply to it -/
theorem C01.accepts_sound (p : Plan) (obs : List Obs) (evs : List Ev) (h : acceptsGo p init obs = some evs) :
    evs.filter isWorkerEv = obs.map Obs.toEv :=
  acceptsGo_sound p obs init evs h

/-- the executable structural checks the driver runs on every exported real plan imply the theorems' hypotheses -/
theorem C01.plan_checks_sound (p : Plan) (parents : List (Nat × List Nat))
    (h1 : disjointOutsB p = true) (h2 : nonemptyOutsB p = true) (h3 : parentsCoveredB p parents = true) :
    DisjointOuts p ∧ NonemptyOuts p ∧ ParentsCovered p (parentsOf parents) :=
  ⟨disjointOutsB_sound h1, nonemptyOutsB_sound h2, parentsCoveredB_sound h3⟩

/-- "their columns are present in the data it receives" - PARTIAL: proved for steps sharing one compute-framework object
under a serialising executor (SYNC, MULTIPROCESSING: one worker with a FIFO queue per object).  While a step is open its
snapshot holds, for every direct parent of every feature it computes, that parent's (reference) value.  Under THREADING
the statement is false: `C06.thread_lost_update_witness`. -/
theorem C01.columns_present_partial {V : Type} (cfg : Exec.Cfg V) (ref : Nat → V) (p : Plan) (hd : DisjointOuts p)
    (hpc : ParentsCovered p cfg.parents) (href : Exec.IsRef cfg ref) (evs : List Ev) (i : Nat) (st : Step)
    (hst : p[i]? = some st) (hopen : Exec.Open (Exec.erun cfg true p Exec.einit evs).s i) :
    ∀ c ∈ st.outs, ∀ a ∈ cfg.parents c,
      (Exec.lookup (Exec.snapOf (Exec.erun cfg true p Exec.einit evs) i) a).isSome = true := by
  intro c hc a ha
  have hi := Exec.einv_run hd hpc href (V := V) evs
  rw [hi.open_snap i hopen]
  have hstarted := hi.sinv.begun_sub i hopen.1
  obtain ⟨j, sj, hj1, hj2, hj3⟩ := hi.rinv i hstarted st hst a (hpc i st hst c hc a ha)
  obtain ⟨w, hw⟩ := (hi.store_has a).mpr ⟨j, sj, hj3, hj1, hj2⟩
  simp [hw]

/-- non-vacuity: a diamond plan (0 → 1, 0 → 2, {1,2} → 3) with disjoint non-empty outs; one schedule in which the two
middle steps overlap runs every step exactly once and returns -/
example :
    let p : Plan := [{ outs := [10], req := [] }, { outs := [11], req := [10] }, { outs := [12], req := [10] }, { outs := [13], req := [11, 12] }]
    let evs := [Ev.loopHead, .scan 0, .begin 0, .finish 0, .scan 1, .scan 0, .scan 1, .scan 2, .begin 2, .begin 1,
                .finish 1, .finish 2, .scan 3, .scan 1, .scan 2, .scan 3, .begin 3, .finish 3, .scan 3, .loopHead]
    disjointOutsB p = true ∧ nonemptyOutsB p = true ∧ (run p init evs).returned = true ∧
      (run p init evs).started = [3, 2, 1, 0] := by decide
