import MlodaVerif.Lemmas.RelPyDict
import MlodaVerif.Lemmas.RelAlgebra
import MlodaVerif.Lemmas.RelLibSem
import MlodaVerif.Gen.JoinDispatch
/-! # C12 - every framework's merge engine implements the same relational operators

`Rel.joinSpec` is the property text (nested loops: all matching pairs, null padding, differently named keys both kept,
null keys never match; append = bag concatenation; union = duplicate-free concatenation). `TableEq` is equality up to
row order, column order and null representation.

FULL STATEMENT (false of the code that exists, kept visible):

    ∀ t lk rk L R order,  TableEq (PyDictMerge.merge t lk rk L R order) (joinSpec t lk rk (tcols L) (tcols R) L R)

and the same for `PandasMerge.merge` / `ArrowMerge.merge`. What is proved: the statement for the pure-Python engine under
explicit decidable hypotheses (`pydict_join_eq_spec_partial`, `pydict_union_partial`, `append_is_bag_concat`), closed
negation witnesses for every dropped hypothesis, the dispatch table regenerated from /repo, algebra of the spec, and for
the two library engines the statement relative to the named library semantics (`PandasSem`, `ArrowSem` - assumptions,
differential-tested by harness/corr/c12.py). -/
open Rel

/-! ## the pure-Python engine -/

/-- the side that `PythonDictMergeEngine` turns into a `{key: row}` dict has no two rows with the same key -/
def C12.IndexedSideUnique (t : JoinType) (lk rk : List Col) (L R : Table) : Prop :=
  match t with
  | .inner | .left => UniqueKeys rk R
  | .right => UniqueKeys lk L
  | .outer => UniqueKeys lk L ∧ UniqueKeys rk R
  | _ => True

/-- the side whose keys are looked up in that dict has no null in a key (outer join: both sides) -/
def C12.ProbeSideNoNull (t : JoinType) (lk rk : List Col) (L R : Table) : Prop :=
  match t with
  | .inner | .left => NoNullKeys lk L
  | .right => NoNullKeys rk R
  | .outer => NoNullKeys lk L ∧ NoNullKeys rk R
  | _ => True

instance (t : JoinType) (lk rk : List Col) (L R : Table) : Decidable (C12.IndexedSideUnique t lk rk L R) := by
  unfold C12.IndexedSideUnique; cases t <;> infer_instance
instance (t : JoinType) (lk rk : List Col) (L R : Table) : Decidable (C12.ProbeSideNoNull t lk rk L R) := by
  unfold C12.ProbeSideNoNull; cases t <;> infer_instance

/-- **inner / left / right / full-outer join of the PythonDict engine = the relational join**, as bags of rows up to
column order and null representation, for ALL tables, key lists and (for outer) iteration orders of the key set, provided
rows are dicts (`RowsWF`), the indexed side has unique keys, the probing side has no null keys and the tables share no
column name other than same-named key columns. -/
theorem C12.pydict_join_eq_spec_partial (t : JoinType) (lk rk : List Col) (L R : Table) (order : List Key)
    (ht : t = .inner ∨ t = .left ∨ t = .right ∨ t = .outer)
    (wfL : RowsWF L) (wfR : RowsWF R) (ho : NoOverlap lk rk L R)
    (hu : C12.IndexedSideUnique t lk rk L R) (hn : C12.ProbeSideNoNull t lk rk L R)
    (hord : t = .outer → PyDictMerge.ValidOrder lk rk L R order) :
    TableEq (PyDictMerge.merge t lk rk L R order) (joinSpec t lk rk (tcols L) (tcols R) L R) := by
  rcases ht with rfl | rfl | rfl | rfl
  · exact pydict_inner_tableEq wfL wfR hu hn ho
  · exact pydict_left_tableEq wfL wfR hu hn ho
  · exact pydict_right_tableEq wfL wfR hu hn ho
  · exact pydict_outer_tableEq wfL wfR hu.1 hu.2 hn.1 hn.2 ho (hord rfl)

/-- the canonical enumeration of `all_keys` is a valid iteration order, so the theorem is not vacuous for outer joins -/
theorem C12.allKeys_valid (lk rk : List Col) (L R : Table) :
    PyDictMerge.ValidOrder lk rk L R (PyDictMerge.allKeys lk rk L R) := by
  unfold PyDictMerge.ValidOrder PyDictMerge.allKeys
  refine ⟨nodup_undup _, fun k => ?_⟩
  rw [mem_undup, List.mem_append]

/-- the result of the outer join does not depend on the hash order of the key set -/
theorem C12.pydict_outer_order_irrelevant (lk rk : List Col) (L R : Table) (o₁ o₂ : List Key)
    (h₁ : PyDictMerge.ValidOrder lk rk L R o₁) (h₂ : PyDictMerge.ValidOrder lk rk L R o₂) :
    (PyDictMerge.outer lk rk L R o₁).Perm (PyDictMerge.outer lk rk L R o₂) := by
  unfold PyDictMerge.outer
  refine List.Perm.map _ (perm_of_nodup_of_mem_iff h₁.1 h₂.1 (fun k => ?_))
  rw [h₁.2 k, h₂.2 k]

private def wL : Table := [[("k", some 1), ("a", some 10)], [("k", some 2), ("a", some 11)]]
private def wR : Table := [[("k", some 2), ("b", some 20)], [("k", some 3), ("b", none)]]

/-- non-vacuity: a two-row example meets all hypotheses of `pydict_join_eq_spec_partial` for the outer join -/
example : RowsWF wL ∧ RowsWF wR ∧ NoOverlap ["k"] ["k"] wL wR ∧ C12.IndexedSideUnique .outer ["k"] ["k"] wL wR ∧
    C12.ProbeSideNoNull .outer ["k"] ["k"] wL wR := by decide
/-- … and the outer join of it has three rows on both sides of the equation -/
example : (PyDictMerge.merge .outer ["k"] ["k"] wL wR (PyDictMerge.allKeys ["k"] ["k"] wL wR)).length = 3 ∧
    (joinSpec .outer ["k"] ["k"] (tcols wL) (tcols wR) wL wR).length = 3 := by decide

/-- dropped hypothesis `UniqueKeys`: two right rows with the key of one left row - the relational join has two rows,
the engine returns one (the dict index keeps the last row per key) -/
theorem C12.pydict_dup_keys_differs_witness :
    ¬ TableEq (PyDictMerge.merge .inner ["k"] ["k"] [[("k", some 1), ("a", some 10)]]
                [[("k", some 1), ("b", some 20)], [("k", some 1), ("b", some 21)]] [])
              (joinSpec .inner ["k"] ["k"] ["k", "a"] ["k", "b"] [[("k", some 1), ("a", some 10)]]
                [[("k", some 1), ("b", some 20)], [("k", some 1), ("b", some 21)]]) := by
  intro h
  have := h [("k", some 1), ("a", some 10), ("b", some 20)]
  revert this; decide

/-- dropped hypothesis `NoNullKeys`: Python's `(None,) == (None,)`, so null keys join; relationally they never match -/
theorem C12.pydict_null_keys_match_witness :
    ¬ TableEq (PyDictMerge.merge .inner ["k"] ["k"] [[("k", none), ("a", some 10)]] [[("k", none), ("b", some 20)]] [])
              (joinSpec .inner ["k"] ["k"] ["k", "a"] ["k", "b"] [[("k", none), ("a", some 10)]] [[("k", none), ("b", some 20)]]) := by
  intro h
  have := h [("a", some 10), ("b", some 20)]
  revert this; decide

/-- dropped hypothesis `NoOverlap`: `{**l, **r}` lets the right value of a same-named non-key column replace the left one -/
theorem C12.pydict_overlap_override_witness :
    ¬ TableEq (PyDictMerge.merge .inner ["k"] ["k"] [[("k", some 1), ("c", some 10)]] [[("k", some 1), ("c", some 20)]] [])
              (joinSpec .inner ["k"] ["k"] ["k", "c"] ["k", "c"] [[("k", some 1), ("c", some 10)]] [[("k", some 1), ("c", some 20)]]) := by
  intro h
  have := h [("k", some 1), ("c", some 10), ("c", some 20)]
  revert this; decide

/-! ## append and union -/

/-- append is the bag concatenation on all three engines (pandas null-pads to the common schema; pyarrow demands equal
schemas and rejects otherwise) -/
theorem C12.append_is_bag_concat (lk rk ls rs : List Col) (L R : Table) (order : List Key) :
    PyDictMerge.merge .append lk rk L R order = Rel.append L R ∧
    (∃ out, PandasMerge.merge .append lk rk ls rs L R = .ok out ∧ TableEq out (Rel.append L R)) ∧
    (ls = rs → ArrowMerge.merge .append lk rk ls rs L R = .ok (Rel.append L R)) ∧
    (ls ≠ rs → ∃ e, ArrowMerge.merge .append lk rk ls rs L R = .error e) := by
  refine ⟨rfl, ⟨_, rfl, pandas_concat_tableEq ls rs L R⟩, ?_, ?_⟩
  · intro h; simp [ArrowMerge.merge, h, Rel.append]
  · intro h; exact ⟨"Schemas of the tables do not match for append operation.", by simp [ArrowMerge.merge, h]⟩

/-- FULL: `PyDictMerge.union lk rk L R = Rel.union L R`. PARTIAL: same key columns on both sides and, among all rows,
equal keys ⇔ equal rows. Then the engine returns exactly the duplicate-free concatenation (same rows, same order). -/
theorem C12.pydict_union_partial (ks : List Col) (L R : Table) (order : List Key)
    (H : ∀ x ∈ L ++ R, ∀ y ∈ L ++ R, (keyOf ks x = keyOf ks y ↔ RowEq x y)) :
    PyDictMerge.merge .union ks ks L R order = joinSpec .union ks ks (tcols L) (tcols R) L R :=
  pydict_union_eq H

/-- two different rows with the same key: the union must keep both, `_union_join` keeps one -/
theorem C12.pydict_union_witness :
    ¬ TableEq (PyDictMerge.merge .union ["k"] ["k"] [[("k", some 1), ("a", some 7)]] [[("k", some 1), ("a", some 8)]] [])
              (Rel.union [[("k", some 1), ("a", some 7)]] [[("k", some 1), ("a", some 8)]]) := by
  intro h
  have := h [("k", some 1), ("a", some 8)]
  revert this; decide

/-- the spec's union is what the property text says: no two rows of it are equal (up to column order and nulls), it
contains only rows of `L ++ R`, and every row of `L ++ R` is represented -/
theorem C12.union_is_duplicate_free_concat (L R : Table) :
    (Rel.union L R).Pairwise (fun a b => ¬ RowEq a b) ∧ (∀ y ∈ Rel.union L R, y ∈ L ++ R) ∧
      (∀ x ∈ L ++ R, ∃ y ∈ Rel.union L R, RowEq y x) :=
  union_spec L R

/-- pandas: `drop_duplicates` after `concat` is the spec's union of the null-padded tables -/
theorem C12.pandas_union_is_dedup (lk rk ls rs : List Col) (L R : Table) :
    PandasMerge.merge .union lk rk ls rs L R = .ok (dedup (PandasSem.concat ls rs L R)) := rfl

/-- pyarrow: union is rejected for every input -/
theorem C12.arrow_union_unimplemented (lk rk ls rs : List Col) (L R : Table) :
    ∃ e, ArrowMerge.merge .union lk rk ls rs L R = .error e := ⟨_, rfl⟩

/-! ## the dispatch of `BaseMergeEngine.merge` (table regenerated from /repo at every run) -/

/-- every `JoinType` member is sent to the method implementing the intended operator, with
(left_data, right_data, left_index, right_index) passed through in that order; there are no other members; anything
else raises -/
theorem C12.dispatch_total :
    (∀ t : JoinType, ∃ v, (t.pyName, v, t.method, true) ∈ Gen.joinDispatch) ∧
    Gen.joinDispatch.map (·.1) = JoinType.all.map JoinType.pyName ∧
    Gen.joinDispatchOther = "raise:ValueError" := by
  refine ⟨fun t => ?_, by decide, by decide⟩
  cases t
  · exact ⟨"inner", by decide⟩
  · exact ⟨"left", by decide⟩
  · exact ⟨"right", by decide⟩
  · exact ⟨"outer", by decide⟩
  · exact ⟨"append", by decide⟩
  · exact ⟨"union", by decide⟩

theorem C12.jointype_all_complete : ∀ t : JoinType, t ∈ JoinType.all := by
  intro t; cases t <;> decide

/-! ## algebra of the spec (unbounded) -/

/-- the inner join has exactly one row per matching pair - duplicate keys multiply -/
theorem C12.inner_all_matching_pairs (lk rk : List Col) (L R : Table) (x : Row) :
    x ∈ innerJoin lk rk L R ↔ ∃ l ∈ L, ∃ r ∈ R, matchesK lk rk l r = true ∧ x = combine (coalesced lk rk) l r :=
  mem_innerJoin

theorem C12.inner_row_count (lk rk : List Col) (L R : Table) :
    (innerJoin lk rk L R).length = (L.map (fun l => R.countP (matchesK lk rk l))).sum :=
  length_innerJoin lk rk L R

/-- inner join is commutative up to row and column order -/
theorem C12.inner_comm (lk rk : List Col) (L R : Table) (wfL : RowsWF L) (wfR : RowsWF R) :
    TableEq (innerJoin lk rk L R) (innerJoin rk lk R L) :=
  innerJoin_comm wfL wfR

/-- right join = left join with the sides exchanged -/
theorem C12.right_eq_left_swapped (lk rk ls : List Col) (L R : Table) (wfL : RowsWF L) (wfR : RowsWF R) :
    TableEq (joinSpec .right lk rk ls [] L R) (joinSpec .left rk lk [] ls R L) :=
  rightJoin_eq_leftJoin_swapped wfL wfR

/-- left join = inner join + one null-padded row per left row without partner -/
theorem C12.left_eq_inner_plus_unmatched (lk rk rs : List Col) (L R : Table) :
    (leftJoin lk rk rs L R).Perm
      (innerJoin lk rk L R ++ (L.filter (fun l => R.all (fun r => !matchesK lk rk l r))).map (padRight (coalesced lk rk) rs)) :=
  leftJoin_eq_inner_append_unmatched lk rk rs L R

/-- a null in a key never matches anything -/
theorem C12.null_keys_never_match (lk rk : List Col) (l r : Row) (h : noNull (keyOf lk l) = false) :
    matchesK lk rk l r = false := by
  simp [matchesK, h]

/-! ## the two library engines, relative to the named library semantics -/

/-- pandas engine = spec whenever the left keys contain no null and no non-key column name is shared: the only deviations
of `pd.merge` from the relational join are null keys matching each other and the `_x` / `_y` renaming -/
theorem C12.pandas_sem_eq_spec_partial (t : JoinType) (lk rk ls rs : List Col) (L R : Table)
    (ht : t = .inner ∨ t = .left ∨ t = .right ∨ t = .outer)
    (hkl : ∀ c ∈ lk, c ∈ ls) (hkr : ∀ c ∈ rk, c ∈ rs)
    (hn : NoNullKeys lk L) (hov : PandasSem.overlap (coalesced lk rk) ls rs = []) :
    PandasMerge.merge t lk rk ls rs L R = .ok (joinSpec t lk rk ls rs L R) :=
  pandas_merge_eq_spec ht hkl hkr hn hov

theorem C12.pandas_null_keys_match_witness :
    ∃ out, PandasMerge.merge .inner ["k"] ["k"] ["k", "a"] ["k", "b"] [[("k", none), ("a", some 10)]] [[("k", none), ("b", some 20)]] = .ok out ∧
      ¬ TableEq out (joinSpec .inner ["k"] ["k"] ["k", "a"] ["k", "b"] [[("k", none), ("a", some 10)]] [[("k", none), ("b", some 20)]]) := by
  refine ⟨[[("k", none), ("a", some 10), ("b", some 20)]], by rfl, ?_⟩
  intro h
  have := h [("a", some 10), ("b", some 20)]
  revert this; decide

/-- pyarrow engine with equally named keys: inner and left joins are literally the spec, for all tables (null keys,
duplicate keys and overlapping columns included) -/
theorem C12.arrow_sem_eq_spec_same_keys (t : JoinType) (ht : t = .inner ∨ t = .left) (ks : List Col) (hks : ks ≠ [])
    (ls rs : List Col) (hkl : ∀ c ∈ ks, c ∈ ls) (hkr : ∀ c ∈ ks, c ∈ rs) (L R : Table) :
    ArrowMerge.merge t ks ks ls rs L R = .ok (joinSpec t ks ks ls rs L R) :=
  arrow_inner_left_eq_spec ht hks hkl hkr L R

theorem C12.arrow_sem_right_same_keys (ks : List Col) (hks : ks ≠ []) (ls rs : List Col)
    (hkl : ∀ c ∈ ks, c ∈ ls) (hkr : ∀ c ∈ ks, c ∈ rs) (L R : Table) (wfL : RowsWF L) (wfR : RowsWF R) :
    ∃ out, ArrowMerge.merge .right ks ks ls rs L R = .ok out ∧ TableEq out (joinSpec .right ks ks ls rs L R) :=
  arrow_right_tableEq hks hkl hkr wfL wfR

theorem C12.arrow_sem_outer_same_keys (ks : List Col) (hks : ks ≠ []) (hnd : ks.Nodup) (ls rs : List Col)
    (hkl : ∀ c ∈ ks, c ∈ ls) (hkr : ∀ c ∈ ks, c ∈ rs) (L R : Table) (wfR : RowsWF R) :
    ∃ out, ArrowMerge.merge .outer ks ks ls rs L R = .ok out ∧ TableEq out (joinSpec .outer ks ks ls rs L R) :=
  arrow_outer_tableEq hks hnd hkl hkr wfR

/-- differently named single keys, RIGHT join: the left key column is lost and the helper column `mloda_right_index`
leaks into the result -/
theorem C12.arrow_right_diff_keys_witness :
    ∃ out, ArrowMerge.merge .right ["lk"] ["rk"] ["lk", "a"] ["rk", "b"] [[("lk", some 2), ("a", some 10)]] [[("rk", some 2), ("b", some 20)]] = .ok out ∧
      ¬ TableEq out (joinSpec .right ["lk"] ["rk"] ["lk", "a"] ["rk", "b"] [[("lk", some 2), ("a", some 10)]] [[("rk", some 2), ("b", some 20)]]) := by
  refine ⟨[[("a", some 10), ("rk", some 2), ("b", some 20), ("mloda_right_index", some 2)]], by rfl, ?_⟩
  intro h
  have := h [("lk", some 2), ("a", some 10), ("rk", some 2), ("b", some 20)]
  revert this; decide
