import MlodaVerif.Lemmas.LinkGenTop
/-! # C04 – the link-ordering code in the model (`Model/LinkOrder.lean`) equals the machine translation of the Python source

`Gen/LinkOrderGen.lean` is the translation (harness/pytrans.py, spec harness/extractors/pytrans_links.py, every run) of ALL of
`LinkTrekker`, `ResolveLinks.add_links_to_queue` (resolve_links.py), `validate_data_consistency` and of
`order_queue_by_trekker_order`, `access_link_by_child_uuid`, `resolve_trekked_links`, `trekker_right_left_adjuster`
(resolve_compute_frameworks.py).  In the translation the `set` objects stored in `data` / `data_ordered` / `order` are HANDLES into a
heap of set objects, so the sharing of one object between `data[k]` and `data_ordered[k]` is a consequence of the translation, not an
input; the hand-written model records it in its `alias` flag.  The theorems below say, for EVERY Python-side state `s` with heap `h` that
satisfies the representation invariant `LinkGen.WF` (set objects of `data` / `order` pairwise different, a `data_ordered` object either
the one `data` holds under the same key or shared with nothing, dict keys distinct, links canonical: different link objects have
different uuids), that each translated function, read through the abstraction `absT` (handle ↦ set, link record ↦ uuid,
alias flag := "same handle"), IS the model's function - the value on a normal return, the exception otherwise - and that the invariant is
kept (so the statements chain).  `mapV x f`: the value of a normal return through `f`; `liftM`: a model result with its error string as
the `PyExc` it stands for (`LinkGen.toExc`).  An edit of one of the Python functions changes the generated definition and the
corresponding proof stops checking. -/
open LinkOrder PyRt Gen.LinkOrderGen LinkGen

/-! ### `LinkTrekker` -/

/-- `LinkTrekker.__init__`: the empty trekker, which satisfies the invariant and is the model's `{}` -/
theorem C04.gen2_init (L : Links) (s : Trk.TrekkerSelf) (h : SHeap) (hn : ∀ r, (SHeap.get h r).Nodup) :
    ∃ s', Trk.init s = .ok s' ∧ WF L s' h ∧ absT s' h = {} :=
  ⟨_, init_eq s, wf_empty L h hn, absT_empty h⟩

/-- `update(key, value)` = `LinkOrder.update` (incl. the mirrored mutation of an aliased `data_ordered` entry); never raises -/
theorem C04.gen2_update (L : Links) {s : Trk.TrekkerSelf} {h : SHeap} (hwf : WF L s h) {key : PKey} (hk : CanonK L key) (u : Nat) :
    mapV (Trk.update s key u h) (fun r => absT r.2 r.1) = .ok (LinkOrder.update (absT s h) (absK key) u) :=
  update_bridge L hwf hk u

theorem C04.gen2_update_wf (L : Links) {s s' : Trk.TrekkerSelf} {h h' : SHeap} (hwf : WF L s h) {key : PKey} (hk : CanonK L key) (u : Nat)
    (he : Trk.update s key u h = .ok (h', s')) : WF L s' h' :=
  update_wf L hwf hk u he

/-- `get_position` = `LinkOrder.getPosition`, "Link not found in data ordered!" otherwise -/
theorem C04.gen2_get_position (L : Links) {s : Trk.TrekkerSelf} {h : SHeap} (hwf : WF L s h) {link : PLink} (hl : Canon L link) (l r : Nat) :
    Trk.get_position s link l r =
      match getPosition (absT s h).dataOrdered ⟨link.uuid, l, r⟩ with
      | some p => .ok p
      | none => .error (.valueError "Link not found in data ordered!") :=
  get_position_bridge L hwf hl l r

/-- `insert_at_position` for a new key = `LinkOrder.insertAt` (`list.insert`, then `OrderedDict(items)`) -/
theorem C04.gen2_insert_at_position (L : Links) {s : Trk.TrekkerSelf} {h : SHeap} (hwf : WF L s h) {key : PKey}
    (hnew : key ∉ s.data_ordered.map (·.1)) (ref pos : Nat) :
    ∃ s', Trk.insert_at_position s key ref pos = .ok s' ∧ s'.data = s.data ∧ s'.order = s.order ∧
      absDord s.data s'.data_ordered h =
        insertAt (absDord s.data s.data_ordered h) pos (absK key, (decide (KDict.get? s.data key = some ref), SHeap.get h ref)) :=
  ⟨_, insert_at_position_bridge L hwf hnew ref pos, rfl, rfl, Trek.absDord_insert _ _ _ _ _ _⟩

/-- **`invert_link` = `LinkOrder.invertLink`**: every state change (new key plugged behind the old one or `add` on the existing
object, the `defaultdict` reads, `remove`, deletion of both entries when the set got empty) and every exception (ValueError, the three
KeyErrors) -/
theorem C04.gen2_invert_link (L : Links) {s : Trk.TrekkerSelf} {h : SHeap} (hwf : WF L s h) {link : PLink} (hl : Canon L link) (l r u : Nat) :
    mapV (Trk.invert_link s link l r u h) (fun x => absT x.2 x.1) = liftM (invertLink (absT s h) ⟨link.uuid, l, r⟩ u) :=
  invert_link_bridge L hwf hl l r u

theorem C04.gen2_invert_link_wf (L : Links) {s s' : Trk.TrekkerSelf} {h h' : SHeap} (hwf : WF L s h) {link : PLink} (hl : Canon L link)
    (l r u : Nat) (he : Trk.invert_link s link l r u h = .ok (h', s')) : WF L s' h' :=
  invert_link_wf L hwf hl l r u he

/-- the nested function `adjust_order` (closure variable `k_in` = its argument `k_int`) = `LinkOrder.adjustOrder` -/
theorem C04.gen2_adjust_order (L : Links) {s : Trk.TrekkerSelf} {h : SHeap} (hwf : WF L s h) (data : KDict PKey Nat) (kOut kIn : Nat) :
    mapV (Trk.adjust_order s data kOut kIn kIn h) (fun h' => absOrder s.order h') =
      liftM (adjustOrder (absData data h) (absOrder s.order h) kOut kIn) :=
  adjust_order_bridge hwf data kOut kIn

/-- `drop_dependency_in_case_of_circular_dependencies` = `LinkOrder.dropCircular`; only set objects of `order` change -/
theorem C04.gen2_drop_dependency (L : Links) {s : Trk.TrekkerSelf} {h : SHeap} (hwf : WF L s h) :
    mapV (Trk.drop_dependency_in_case_of_circular_dependencies s h) (fun h' => absOrder s.order h') =
      liftM (dropCircular (absData s.data h) (absOrder s.order h)) :=
  drop_dependency_bridge hwf

theorem C04.gen2_drop_dependency_frame (L : Links) {s : Trk.TrekkerSelf} {h h' : SHeap} (hwf : WF L s h)
    (hr : Trk.drop_dependency_in_case_of_circular_dependencies s h = .ok h') :
    h'.length = h.length ∧ (∀ r, r ∉ s.order.map (·.2) → SHeap.get h' r = SHeap.get h r) ∧ WF L s h' ∧
      absData s.data h' = absData s.data h ∧ absDord s.data s.data_ordered h' = absDord s.data s.data_ordered h := by
  obtain ⟨h1, h2, _, h4, h5, h6⟩ := drop_dependency_frame hwf hr
  exact ⟨h1, h2, h4, h5, h6⟩

/-- **`order_links_by_frameworks` = `LinkOrder.orderLinksByFrameworks`** (the double loop with the chained comparison, then the drop of
2-cycles) -/
theorem C04.gen2_order_links_by_frameworks (L : Links) {s : Trk.TrekkerSelf} {h : SHeap} (hwf : WF L s h) :
    mapV (Trk.order_links_by_frameworks s h) (fun r => absT r.2 r.1) = liftM (orderLinksByFrameworks (absT s h)) :=
  order_links_bridge hwf

theorem C04.gen2_order_links_by_frameworks_wf (L : Links) {s s' : Trk.TrekkerSelf} {h h' : SHeap} (hwf : WF L s h)
    (hr : Trk.order_links_by_frameworks s h = .ok (h', s')) : WF L s' h' ∧ s'.data = s.data ∧ s'.data_ordered = s.data_ordered :=
  order_links_wf hwf hr

/-- **`order_ordered_ids_by_relation` = `LinkOrder.reorder`** (the `pos_marker` arithmetic, `max`, `move_to_end`, "`self.order` is only
replaced when something was remembered"); it never raises and only reads the heap -/
theorem C04.gen2_order_ordered_ids_by_relation (L : Links) {s : Trk.TrekkerSelf} {h : SHeap} (hwf : WF L s h) :
    ∃ s', Trk.order_ordered_ids_by_relation s h = .ok s' ∧ absT s' h = { absT s h with order := reorder (absT s h).order } ∧ WF L s' h := by
  obtain ⟨s', hr, _, _, _, hw, _, _⟩ := reorder_bridge hwf
  exact ⟨s', hr, Ord.reorder_absT hwf hr, hw⟩

/-- `ResolveLinkValidator.validate_data_consistency` -/
theorem C04.gen2_validate_data_consistency (data d d' : KDict PKey Nat) (h : SHeap) :
    validate_data_consistency d d' =
      LinkGen.liftM (if (absData d h).length ≠ (absDord data d' h).length then .error "ValueError: Data and data_ordered have different lengths" else .ok ()) :=
  validate_data_consistency_bridge data d d' h

/-- **`create_data_ordered` = `LinkOrder.createDataOrdered`**: `self.data_ordered[k] = v` stores the OBJECT of `data[k]`, so the entry is
aliased afterwards (flag `true` in the model) -/
theorem C04.gen2_create_data_ordered (L : Links) {s : Trk.TrekkerSelf} {h : SHeap} (hwf : WF L s h) :
    mapV (Trk.create_data_ordered s) (fun s' => absT s' h) = liftM (createDataOrdered (absT s h)) :=
  create_data_ordered_bridge L hwf

theorem C04.gen2_create_data_ordered_wf (L : Links) {s s' : Trk.TrekkerSelf} {h : SHeap} (hwf : WF L s h)
    (he : Trk.create_data_ordered s = .ok s') : WF L s' h :=
  create_data_ordered_wf L hwf he

/-- **`get_ordered_data` = `LinkOrder.getOrderedData`** -/
theorem C04.gen2_get_ordered_data (L : Links) {s : Trk.TrekkerSelf} {h : SHeap} (hwf : WF L s h) :
    mapV (Trk.get_ordered_data s h) (fun r => absT r.2.2 r.2.1) = liftM (getOrderedData (absT s h)) :=
  get_ordered_data_bridge L hwf

theorem C04.gen2_get_ordered_data_wf (L : Links) {s s' : Trk.TrekkerSelf} {h h' : SHeap} {d : KDict PKey Nat} (hwf : WF L s h)
    (he : Trk.get_ordered_data s h = .ok (d, h', s')) : WF L s' h' ∧ d = s'.data_ordered :=
  get_ordered_data_wf L hwf he

/-! ### `ResolveLinks.add_links_to_queue` -/

/-- **`add_links_to_queue` = `LinkOrder.addLinksToQueue`**: the queue with the link entries and the trekker afterwards -/
theorem C04.gen2_add_links_to_queue (L : Links) (self : RL.RLSelf) {h : SHeap} (hwf : WF L self.link_trekker h) :
    mapV (RL.add_links_to_queue self h) (fun r => (r.1.map absQ, absT r.2.2.link_trekker r.2.1)) =
      liftM (addLinksToQueue (absT self.link_trekker h) self.queue) :=
  add_links_to_queue_bridge L self hwf

theorem C04.gen2_add_links_to_queue_wf (L : Links) (self self' : RL.RLSelf) {h h' : SHeap} {q : List Gen.LinkOrderGen.QItem}
    (hwf : WF L self.link_trekker h) (he : RL.add_links_to_queue self h = .ok (q, h', self')) :
    WF L self'.link_trekker h' ∧ self'.queue = self.queue :=
  add_links_to_queue_wf L self self' hwf he

/-! ### `ResolveComputeFrameworks` -/

/-- **`order_queue_by_trekker_order` = `LinkOrder.orderQueue`** for every state, every queue of canonical entries and every
iteration order `ordsM` of the sets of `issue_collector` (no invariant needed: the function only reads `order`) -/
theorem C04.gen2_order_queue_by_trekker_order (L : Links) (q : List Gen.LinkOrderGen.PEl) (s : Trk.TrekkerSelf) (h : SHeap)
    (ordsM : Nat → List Key) (hq : ∀ p ∈ q, CanonP L p) :
    mapV (Rcf.order_queue_by_trekker_order q s h (fun k => (ordsM k).map (fun key => Gen.LinkOrderGen.PEl.link (concK L key)))) (·.map absP)
      = .ok (orderQueue (absOrder s.order h) ordsM (q.map absP)) :=
  order_queue_bridge L q s h ordsM hq

/-- `access_link_by_child_uuid` = `LinkOrder.accessLinks` (every state) -/
theorem C04.gen2_access_link_by_child_uuid (child : Nat) (s : Trk.TrekkerSelf) (h : SHeap) :
    mapV (Rcf.access_link_by_child_uuid child s h) (·.map absK) = .ok (accessLinks (absT s h) child) :=
  access_bridge child s h

/-- **`resolve_trekked_links` = `LinkOrder.resolveTrekked`** with `jt` read off the link records (`jtOf`: `JoinType.RIGHT`, another
member, not a member), both ValueErrors included -/
theorem C04.gen2_resolve_trekked_links (L : Links) (self : Rcf.RcfSelf) (trekked : List PKey) (cfws : PSet) (hc : ∀ k ∈ trekked, CanonK L k) :
    mapV (Rcf.resolve_trekked_links self trekked cfws) (fun r => (r.1, r.2.to_invert_trekker_collection.map absK))
      = liftM (resolveTrekked (fun n => jtOf (L.link n).jointype) (trekked.map absK) cfws (self.to_invert_trekker_collection.map absK)) :=
  resolve_bridge L self trekked cfws hc

/-- **`trekker_right_left_adjuster` = `LinkOrder.adjuster`** (the snapshots `deepcopy(…)`, one `invert_link` per collected uuid; the
collection is emptied) -/
theorem C04.gen2_trekker_right_left_adjuster (L : Links) {s : Trk.TrekkerSelf} {h : SHeap} (hwf : WF L s h) (self : Rcf.RcfSelf) (feat : PSet)
    (hc : ∀ k ∈ self.to_invert_trekker_collection, CanonK L k) :
    mapV (Rcf.trekker_right_left_adjuster self s feat h) (fun x => (absT x.1 x.2.1, x.2.2.to_invert_trekker_collection)) =
      liftM ((adjuster feat (self.to_invert_trekker_collection.map absK) (absT s h)).map (fun t => (t, []))) :=
  adjuster_bridge L hwf self feat hc

theorem C04.gen2_trekker_right_left_adjuster_wf (L : Links) {s s' : Trk.TrekkerSelf} {h h' : SHeap} (hwf : WF L s h) (self self' : Rcf.RcfSelf)
    (feat : PSet) (hc : ∀ k ∈ self.to_invert_trekker_collection, CanonK L k)
    (he : Rcf.trekker_right_left_adjuster self s feat h = .ok (s', h', self')) : WF L s' h' :=
  adjuster_wf L hwf self self' feat hc he

/-- the error table is injective on the strings the model uses: no two model errors are identified by the bridge -/
theorem C04.gen2_toExc_injective :
    ∀ a ∈ ["KeyError", "StopIteration", "ValueError: Link not found in data ordered!", "ValueError: Link not found in data!",
        "ValueError: Data and data_ordered have different lengths", "ValueError: This jointype is not implemented",
        "ValueError: No new compute frameworks have been found."],
    ∀ b ∈ ["KeyError", "StopIteration", "ValueError: Link not found in data ordered!", "ValueError: Link not found in data!",
        "ValueError: Data and data_ordered have different lengths", "ValueError: This jointype is not implemented",
        "ValueError: No new compute frameworks have been found."], toExc a = toExc b → a = b := by decide

/-! ### non-vacuity: concrete states satisfy the hypotheses, and the functions do something on them -/

/-- a state with one ALIASED entry (`data[(l1,10,20)]` and `data_ordered[(l1,10,20)]` are one object) and one that is not -/
example : WF Trek.exL Trek.exS Trek.exH := Trek.exWF

/-- the aliasing is visible: `update((l1,10,20), 9)` changes BOTH `data` and `data_ordered` of the abstraction, `update((l2,20,30), 9)`
only `data` -/
example : (Trk.update Trek.exS (Trek.exLink 1, 10, 20) 9 Trek.exH).map (fun r => ((absT r.2 r.1).data, (absT r.2 r.1).dataOrdered)) =
    .ok ([(⟨1, 10, 20⟩, [5, 6, 9]), (⟨2, 20, 30⟩, [7])], [(⟨1, 10, 20⟩, (true, [5, 6, 9])), (⟨2, 20, 30⟩, (false, [7, 8]))]) := by decide

example : (Trk.update Trek.exS (Trek.exLink 2, 20, 30) 9 Trek.exH).map (fun r => ((absT r.2 r.1).data, (absT r.2 r.1).dataOrdered)) =
    .ok ([(⟨1, 10, 20⟩, [5, 6]), (⟨2, 20, 30⟩, [7, 9])], [(⟨1, 10, 20⟩, (true, [5, 6])), (⟨2, 20, 30⟩, (false, [7, 8]))]) := by decide

/-- a framework circle: `order_links_by_frameworks` records both directions and drops one -/
example : WF Ord.exL Ord.exS Ord.exH := Ord.exWF
example : (orderLinksByFrameworks (absT Ord.exS Ord.exH)).map (·.order) = .ok [(2, [1]), (1, [])] := by decide

/-- the whole `get_ordered_data` on it: the link that has to wait comes second; the entries are aliased afterwards -/
example : mapV (Trk.get_ordered_data Ord.exS Ord.exH) (fun r => (absT r.2.2 r.2.1).dataOrdered) =
    .ok [(⟨2, 20, 10⟩, (true, [101, 102])), (⟨1, 10, 20⟩, (true, [100]))] := by decide

/-- `add_links_to_queue` on it: each link directly before its first dependant -/
example : mapV (RL.add_links_to_queue { queue := [102, 100, 101], link_trekker := Ord.exS } Ord.exH) (fun r => r.1.map absQ) =
    .ok [.link ⟨2, 20, 10⟩, .uuid 102, .link ⟨1, 10, 20⟩, .uuid 100, .uuid 101] := by decide
