import MlodaVerif.Model.Store
import MlodaVerif.Gen.Tracker
/-! # C09 – the hand-written drop tracker `Store.report` equals the translation of compute_framework.py

`Gen/Tracker.lean` is the translation (harness/pytrans.py, every run) of
`ComputeFramework.add_already_calculated_children_and_drop_if_possible`.  -/
open Store PyRt Gen.Tracker

/-- the fields of a model object the Python method reads -/
def toCfwSelf (c : Cfw) : CfwSelf :=
  { already_calculated_children_tracker := c.tracker, children_if_root := c.children,
    object_ids := List.replicate c.objectIds 0 }

/-- **`add_already_calculated_children_and_drop_if_possible` is `Store.report`**: same tracker afterwards, `True` + a call
of `drop_last_data` exactly when the model drops, the children set when the model says `pending`, `False` otherwise. -/
theorem C09.gen_tracker_is_report (c : Cfw) (ch : List Nat) :
    addChildrenAndDrop (toCfwSelf c) ch () [] =
      .ok (match (report c ch).2 with
           | .dropped _ => .bool true
           | .pending => .set c.children
           | .no => .bool false,
           toCfwSelf (report c ch).1,
           match (report c ch).2 with
           | .dropped _ => ["drop_last_data"]
           | _ => []) := by
  unfold addChildrenAndDrop report toCfwSelf
  simp only [PSet.update, PSet.issubset, pure, Except.pure, List.length_replicate]
  by_cases h1 : (c.children.all fun x => decide (x ∈ c.tracker ++ ch.filter (fun x => decide (x ∉ c.tracker)))) = true
  · simp only [h1, ↓reduceIte, List.nil_append]
    split
    · rfl
    · rename_i h; exact absurd h1 h
  · by_cases h2 : c.objectIds > 0
    · simp only [h1, h2, ↓reduceIte, decide_true, Bool.false_eq_true]
      split
      · rename_i h; exact absurd h h1
      · rfl
    · simp only [h1, h2, ↓reduceIte, decide_false, Bool.false_eq_true]
      split
      · rename_i h; exact absurd h h1
      · rfl

/-- the subset test is what decides the drop: it happens iff every child is in the updated tracker -/
theorem C09.gen_tracker_drops_iff_all_children (c : Cfw) (ch : List Nat) :
    (∃ s l, addChildrenAndDrop (toCfwSelf c) ch () [] = .ok (.bool true, s, l)) ↔
      ∀ x ∈ c.children, x ∈ c.tracker ∨ x ∈ ch := by
  rw [C09.gen_tracker_is_report]
  unfold report
  by_cases h1 : (c.children.all fun x => decide (x ∈ c.tracker ++ ch.filter (fun x => decide (x ∉ c.tracker)))) = true
  · simp only [h1, if_true]
    constructor
    · intro _ x hx
      have := (List.all_eq_true.1 h1) x hx
      simp at this
      rcases this with h | h
      · exact .inl h
      · exact .inr h.1
    · intro _; exact ⟨_, _, rfl⟩
  · have hno : ¬ ∀ x ∈ c.children, x ∈ c.tracker ∨ x ∈ ch := by
      intro hall
      apply h1
      apply List.all_eq_true.2
      intro x hx
      rcases hall x hx with h | h
      · simp [h]
      · by_cases ht : x ∈ c.tracker <;> simp [h, ht]
    by_cases h2 : c.objectIds > 0
    · simp only [h1, h2, ↓reduceIte, Bool.false_eq_true]
      constructor
      · rintro ⟨s, l, h⟩; simp at h
      · intro hall; exact absurd hall hno
    · simp only [h1, h2, ↓reduceIte, Bool.false_eq_true]
      constructor
      · rintro ⟨s, l, h⟩; simp at h
      · intro hall; exact absurd hall hno

example : addChildrenAndDrop (toCfwSelf { children := [1, 2], tracker := [1] }) [2, 7] () [] =
    .ok (.bool true, { already_calculated_children_tracker := [1, 2, 7], children_if_root := [1, 2], object_ids := [] }, ["drop_last_data"]) := by rfl
