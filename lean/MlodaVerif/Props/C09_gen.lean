import MlodaVerif.Model.Store
import MlodaVerif.Gen.Tracker
import MlodaVerif.Gen.JoinAll
import MlodaVerif.Lemmas.PyRt
/-! # C09 – the hand-written drop tracker `Store.report` equals the translation of compute_framework.py

`Gen/Tracker.lean` is the translation (harness/pytrans.py, every run) of
`ComputeFramework.add_already_calculated_children_and_drop_if_possible`.  -/
open Store PyRt Gen.Tracker

/-- the fields of a model object the Python method reads -/
def toCfwSelf (c : Cfw) : CfwSelf :=
  { already_calculated_children_tracker := c.tracker, children_if_root := c.children,
    object_ids := List.replicate c.objectIds 0 }

/-- **`add_already_calculated_children_and_drop_if_possible` is `Store.report`**: same tracker afterwards, `True` + a call
of `drop_last_data` exactly when the model drops, the children set when the model says `pending`, `False` otherwise. -/
theorem C09.gen_tracker_is_report (c : Cfw) (ch : List Nat) :
    addChildrenAndDrop (toCfwSelf c) ch () [] =
      .ok (match (report c ch).2 with
           | .dropped _ => .bool true
           | .pending => .set c.children
           | .no => .bool false,
           toCfwSelf (report c ch).1,
           match (report c ch).2 with
           | .dropped _ => ["drop_last_data"]
           | _ => []) := by
  unfold addChildrenAndDrop report toCfwSelf
  simp only [PSet.update, PSet.issubset, pure, Except.pure, List.length_replicate]
  by_cases h1 : (c.children.all fun x => decide (x ∈ c.tracker ++ ch.filter (fun x => decide (x ∉ c.tracker)))) = true
  · simp only [h1, ↓reduceIte, List.nil_append]
    split
    · rfl
    · rename_i h; exact absurd h1 h
  · by_cases h2 : c.objectIds > 0
    · simp only [h1, h2, ↓reduceIte, decide_true, Bool.false_eq_true]
      split
      · rename_i h; exact absurd h h1
      · rfl
    · simp only [h1, h2, ↓reduceIte, decide_false, Bool.false_eq_true]
      split
      · rename_i h; exact absurd h h1
      · rfl

/-- the subset test is what decides the drop: it happens iff every child is in the updated tracker -/
theorem C09.gen_tracker_drops_iff_all_children (c : Cfw) (ch : List Nat) :
    (∃ s l, addChildrenAndDrop (toCfwSelf c) ch () [] = .ok (.bool true, s, l)) ↔
      ∀ x ∈ c.children, x ∈ c.tracker ∨ x ∈ ch := by
  rw [C09.gen_tracker_is_report]
  unfold report
  by_cases h1 : (c.children.all fun x => decide (x ∈ c.tracker ++ ch.filter (fun x => decide (x ∉ c.tracker)))) = true
  · simp only [h1, if_true]
    constructor
    · intro _ x hx
      have := (List.all_eq_true.1 h1) x hx
      simp at this
      rcases this with h | h
      · exact .inl h
      · exact .inr h.1
    · intro _; exact ⟨_, _, rfl⟩
  · have hno : ¬ ∀ x ∈ c.children, x ∈ c.tracker ∨ x ∈ ch := by
      intro hall
      apply h1
      apply List.all_eq_true.2
      intro x hx
      rcases hall x hx with h | h
      · simp [h]
      · by_cases ht : x ∈ c.tracker <;> simp [h, ht]
    by_cases h2 : c.objectIds > 0
    · simp only [h1, h2, ↓reduceIte, Bool.false_eq_true]
      constructor
      · rintro ⟨s, l, h⟩; simp at h
      · intro hall; exact absurd hall hno
    · simp only [h1, h2, ↓reduceIte, Bool.false_eq_true]
      constructor
      · rintro ⟨s, l, h⟩; simp at h
      · intro hall; exact absurd hall hno

example : addChildrenAndDrop (toCfwSelf { children := [1, 2], tracker := [1] }) [2, 7] () [] =
    .ok (.bool true, { already_calculated_children_tracker := [1, 2, 7], children_if_root := [1, 2], object_ids := [] }, ["drop_last_data"]) := by rfl


/-! ## `WorkerManager.join_all` (translated into `Gen/JoinAll.lean`) -/
section JoinAll
open Gen.JoinAll

/-- terminating or joining task `t` raises (`terminate` is only called on processes) -/
def taskFails (isP jf tf : Nat → Bool) (t : Nat) : Bool := (isP t && tf t) || jf t

/-- the calls that complete for task `t`, in order -/
def attempt (isP jf tf : Nat → Bool) (t : Nat) : List String :=
  (if isP t && !tf t then ["terminate:" ++ toString t] else []) ++
  (if !(isP t && tf t) && !jf t then ["join:" ++ toString t] else [])

theorem joinAll_foldl (tasks : List Nat) (isP jf tf : Nat → Bool) (log : List String) (f : Bool) :
    tasks.foldl (fun (s : List String × Bool) t => (s.1 ++ attempt isP jf tf t, s.2 || taskFails isP jf tf t)) (log, f)
      = (log ++ tasks.flatMap (attempt isP jf tf), f || tasks.any (taskFails isP jf tf)) := by
  induction tasks generalizing log f with
  | nil => simp
  | cons a t ih => simp [ih, List.append_assoc, Bool.or_assoc]

/-- **the loop of `join_all` visits every task, whatever failed before**: for every task list and every choice of
failing terminate / join calls the loop never raises, its flag is "some task failed", and the completed calls are exactly
each task's own attempt, in task order - a failure of one task removes nothing from the attempts of the others. -/
theorem C09.gen_join_all_loop (tasks : List Nat) (isP jf tf : Nat → Bool) (log : List String) :
    joinAllLoop ⟨tasks⟩ isP jf tf log =
      .ok (tasks.any (taskFails isP jf tf), log ++ tasks.flatMap (attempt isP jf tf)) := by
  unfold joinAllLoop
  simp only [bind, Except.bind, pure, Except.pure]
  rw [PyRt.forIn_yield_spec tasks _ (fun t (s : List String × Bool) => (s.1 ++ attempt isP jf tf t, s.2 || taskFails isP jf tf t))]
  · rw [joinAll_foldl]; simp
  · intro t s
    by_cases h1 : isP t <;> by_cases h2 : tf t <;> by_cases h3 : jf t <;> simp [h1, h2, h3, attempt, taskFails]

/-- every task whose own terminate / join do not raise is joined, even when other tasks fail -/
theorem C09.gen_join_all_every_healthy_task_joined (tasks : List Nat) (isP jf tf : Nat → Bool) (t : Nat)
    (ht : t ∈ tasks) (hok : taskFails isP jf tf t = false) :
    ∃ f l, joinAllLoop ⟨tasks⟩ isP jf tf [] = .ok (f, l) ∧ ("join:" ++ toString t) ∈ l := by
  refine ⟨_, _, C09.gen_join_all_loop tasks isP jf tf [], ?_⟩
  simp only [List.nil_append, List.mem_flatMap]
  refine ⟨t, ht, ?_⟩
  simp only [taskFails, Bool.or_eq_false_iff] at hok
  simp [attempt, hok.1, hok.2]

/-- `join_all` raises "Error while joining tasks" exactly when some terminate / join raised - and only after the loop -/
theorem C09.gen_join_all_raises_iff (tasks : List Nat) (isP jf tf : Nat → Bool) (log : List String) :
    Gen.JoinAll.joinAll ⟨tasks⟩ isP jf tf log =
      if tasks.any (taskFails isP jf tf) then .error (.exception "Error while joining tasks")
      else .ok (log ++ tasks.flatMap (attempt isP jf tf)) := by
  unfold Gen.JoinAll.joinAll
  simp only [bind, Except.bind, pure, Except.pure]
  rw [PyRt.forIn_yield_spec tasks _ (fun t (s : List String × Bool) => (s.1 ++ attempt isP jf tf t, s.2 || taskFails isP jf tf t))]
  · rw [joinAll_foldl]
    by_cases h : tasks.any (taskFails isP jf tf) <;> simp [h, throw, throwThe, MonadExceptOf.throw]
  · intro t s
    by_cases h1 : isP t <;> by_cases h2 : tf t <;> by_cases h3 : jf t <;> simp [h1, h2, h3, attempt, taskFails]

/-- the hand-written `Store.joinAll` reports failure exactly when the translated `join_all` raises
(the model has one failure predicate per task: terminate-or-join) -/
theorem C09.gen_join_all_is_model (w : WM) (isP jf tf : Nat → Bool) :
    (Store.joinAll w (taskFails isP jf tf)).2 = true ↔
      Gen.JoinAll.joinAll ⟨w.tasks⟩ isP jf tf [] = .error (.exception "Error while joining tasks") := by
  rw [C09.gen_join_all_raises_iff]
  by_cases h : w.tasks.any (taskFails isP jf tf) <;> simp [Store.joinAll, h]

example : joinAllLoop ⟨[1, 2, 3]⟩ (fun t => t == 2) (fun t => t == 1) (fun _ => false) [] =
    .ok (true, ["terminate:2", "join:2", "join:3"]) := by rfl

end JoinAll
