import MlodaVerif.Model.Builtin
import MlodaVerif.Model.BuiltinImpute
import MlodaVerif.Model.BuiltinWindow
import MlodaVerif.Model.BuiltinText
open Builtin

theorem C19.agg_var_ddof_witness :
    (Pd.series "var").map (· [some 1, some 2]) = some ⟨some (1/2), false⟩ ∧
    (Pa.reduce "var").map (· [some 1, some 2]) = some ⟨some (1/4), false⟩ := by decide +kernel
