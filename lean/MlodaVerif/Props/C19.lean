import MlodaVerif.Gen.BuiltinVocab
import MlodaVerif.Lemmas.Builtin
import MlodaVerif.Lemmas.BuiltinText
/-! # C19 - built-in feature groups give the same values on every compute framework

Full statement: for every multi-framework built-in group (aggregation, missing-value imputation, time windows, text
cleaning), every operation / parameter and every input column, all framework implementations return the same values.

The statement is **false** of the code as it is.  Below, per (group, operation, framework pair):
* an *agreement theorem* for all columns (induction over the lists), under the exact hypothesis it needs, or
* a closed *negation witness* (`decide +kernel`) where the implementations differ; each witness is an input of the
  end-to-end differential run (`harness/corr/c19.py`) and a known finding in `findings.d/C19.json`.

Standing: `Pd.*` / `Pa.*` and the pandas halves of the imputation / window / text models are models of *library
conventions* (assumed, validated only by the differential run); the PythonDict halves and the Python loops of the PyArrow
groups are modelled from mloda's own code.  Numbers are exact rationals; `std` is represented by its square. -/
open Builtin Builtin.Text Gen.BuiltinVocab

/-! ## the vocabularies read from the code are exactly what the models dispatch on (finite tables: `decide`) -/

/-- every operation name in the code's vocabularies has a model on every framework implementing the group -/
theorem C19.vocab_covered :
    (∀ op ∈ aggregationTypes, (Pd.series op).isSome ∧ (Pa.reduce op).isSome) ∧
    (∀ op ∈ imputationMethods, (Method.ofString? op).isSome) ∧
    (∀ op ∈ windowFunctions, (Pd.rolling op).isSome ∧ (Pa.window op).isSome) ∧
    (∀ op ∈ cleaningOperations, (Op.ofString? op).isSome) := by decide

/-- the framework implementations that exist are the ones modelled (a new implementation breaks this theorem) -/
theorem C19.implementations_modelled :
    implementations = [("aggr", ["pd", "pa"]), ("impute", ["pd", "pa", "py"]), ("window", ["pd", "pa"]), ("text", ["pd", "py"])] ∧
    nltkAvailable = false := by decide

/-! ## aggregation: Pandas vs PyArrow -/

/-- min / max / avg / mean / count / median agree on **every** column (median: middle-of-sorted = linear 0.5-quantile) -/
theorem C19.agg_agree (op : String) (hop : op ∈ ["min", "max", "avg", "mean", "count", "median"])
    (c : List (Option Rat)) : pandasAggr op c = arrowAggr op c := by
  simp only [List.mem_cons, List.not_mem_nil, or_false] at hop
  rcases hop with rfl | rfl | rfl | rfl | rfl | rfl
  · rfl
  · rfl
  · rfl
  · rfl
  · rfl
  · show some _ = some _
    simp [median_eq_quantileHalf]

/-- the two median conventions coincide on every list of numbers -/
theorem C19.agg_median_agree (l : List Rat) : medianR l = quantileHalfR l := median_eq_quantileHalf l

/-- sum agrees exactly on the columns with at least one valid value -/
theorem C19.agg_sum_agree (c : List (Option Rat)) (h : valid c ≠ []) : pandasAggr "sum" c = arrowAggr "sum" c := by
  show some _ = some _
  simp [h]

/-- ... and differs on the all-null column (pandas 0, pyarrow null) -/
theorem C19.agg_sum_allnull_witness :
    pandasAggr "sum" [none, none] = some [⟨some 0, false⟩, ⟨some 0, false⟩] ∧
    arrowAggr "sum" [none, none] = some [⟨none, false⟩, ⟨none, false⟩] := by decide +kernel

/- FULL STATEMENT (false): ∀ c, pandasAggr "var" c = arrowAggr "var" c   (likewise "std") -/

/-- var / std agree (both 0) on columns whose ≥ 2 valid values are all equal -/
theorem C19.agg_var_agree_constant (c : List (Option Rat)) (v : Rat) (hc : ∀ x ∈ valid c, x = v)
    (hn : 2 ≤ (valid c).length) :
    pandasAggr "var" c = arrowAggr "var" c ∧ pandasAggr "std" c = arrowAggr "std" c ∧
    pandasAggr "var" c = some (List.replicate c.length ⟨some 0, false⟩) := by
  have h1 : varR 1 (valid c) = some 0 := by
    have hne : ((valid c).length : Rat) ≠ 0 := natCast_ne_zero (by omega)
    have : ¬ ((valid c).length ≤ 1) := by omega
    simp only [varR, this, if_false, sumR_const v _ hc]
    rw [Rat.mul_comm, Rat.mul_div_cancel hne, ssd_const v _ hc]
    rw [Rat.div_def, Rat.zero_mul]
  have h0 : varR 0 (valid c) = some 0 := by
    have hne : ((valid c).length : Rat) ≠ 0 := natCast_ne_zero (by omega)
    have : ¬ ((valid c).length ≤ 0) := by omega
    simp only [varR, this, if_false, sumR_const v _ hc]
    rw [Rat.mul_comm, Rat.mul_div_cancel hne, ssd_const v _ hc]
    rw [Rat.div_def, Rat.zero_mul]
  refine ⟨?_, ?_, ?_⟩
  · show some _ = some _
    simp [h1, h0]
  · show some _ = some _
    simp [h1, h0]
  · show some _ = some _
    simp [h1]

/-- the exact relation between the two conventions: `(n-1)·sample variance = n·population variance` -/
theorem C19.agg_var_relation (l : List Rat) (hn : 2 ≤ l.length) :
    ∃ p a, varR 1 l = some p ∧ varR 0 l = some a ∧ p * ((l.length - 1 : Nat) : Rat) = a * (l.length : Rat) := by
  have h1 : ¬ (l.length ≤ 1) := by omega
  have h0 : ¬ (l.length ≤ 0) := by omega
  refine ⟨ssd (sumR l / (l.length : Rat)) l / ((l.length - 1 : Nat) : Rat),
    ssd (sumR l / (l.length : Rat)) l / ((l.length - 0 : Nat) : Rat), by simp [varR, h1], by simp [varR, h0], ?_⟩
  rw [Rat.div_mul_cancel (natCast_ne_zero (by omega)), Nat.sub_zero, Rat.div_mul_cancel (natCast_ne_zero (by omega))]

/-- sample (pandas, ddof = 1) vs population (pyarrow, ddof = 0) variance -/
theorem C19.agg_var_ddof_witness :
    pandasAggr "var" [some 1, some 2] = some [⟨some (1/2), false⟩, ⟨some (1/2), false⟩] ∧
    arrowAggr "var" [some 1, some 2] = some [⟨some (1/4), false⟩, ⟨some (1/4), false⟩] := by decide +kernel

/-- a single valid value: pandas null, pyarrow 0 -/
theorem C19.agg_var_single_witness :
    pandasAggr "std" [some 3] = some [⟨none, true⟩] ∧ arrowAggr "std" [some 3] = some [⟨some 0, true⟩] := by
  decide +kernel

/-! ## imputation: Pandas vs PyArrow vs PythonDict -/

section impute
variable {α : Type} [DecidableEq α]

/-- ffill: the three implementations are extensionally equal on every column (any value type, any options) -/
theorem C19.impute_ffill_agree (o : Ops α) (isInt : Bool) (const : Option α) (c : List (Option α)) :
    pandasImpute o .ffill const c = dictImpute o .ffill const c ∧
    arrowImpute o isInt .ffill const c = dictImpute o .ffill const c := by
  constructor
  · simp only [pandasImpute, dictImpute, pdFfill_eq_loop]
  · simp only [arrowImpute, dictImpute]
    cases h : hasNull c with
    | false => simp [(hasNull_iff_nullCount c).mp h]
    | true =>
      have : nullCount c ≠ 0 := fun h0 => by simp [(hasNull_iff_nullCount c).mpr h0] at h
      simp [this]

/-- bfill: likewise -/
theorem C19.impute_bfill_agree (o : Ops α) (isInt : Bool) (const : Option α) (c : List (Option α)) :
    pandasImpute o .bfill const c = dictImpute o .bfill const c ∧
    arrowImpute o isInt .bfill const c = dictImpute o .bfill const c := by
  constructor
  · simp only [pandasImpute, dictImpute, pdBfill_eq_loop]
  · simp only [arrowImpute, dictImpute]
    cases h : hasNull c with
    | false => simp [(hasNull_iff_nullCount c).mp h]
    | true =>
      have : nullCount c ≠ 0 := fun h0 => by simp [(hasNull_iff_nullCount c).mpr h0] at h
      simp [this]

/-- ffill is idempotent -/
theorem C19.ffill_idempotent (o : Ops α) (const : Option α) (c : List (Option α)) :
    dictImpute o .ffill const (dictImpute o .ffill const c) = dictImpute o .ffill const c := by
  simp only [dictImpute]
  cases h : hasNull c with
  | false => simp [h]
  | true =>
    simp only [Bool.not_true, Bool.false_eq_true, if_false]
    cases h2 : hasNull (ffillLoop none c) <;> simp [ffillLoop_idem]

/-- after ffill no null follows a valid entry: a column starting with a value has no null left -/
theorem C19.ffill_complete_after_first_valid (o : Ops α) (const : Option α) (a : α) (c : List (Option α)) :
    hasNull (dictImpute o .ffill const (some a :: c)) = false := by
  simp only [dictImpute]
  cases h : hasNull (some a :: c) with
  | false => simp [h]
  | true => simp [ffillLoop, hasNull_cons_some, ffillLoop_some_noNull]

/-- constant imputation (non-integer column): all three agree on every column and leave no null -/
theorem C19.impute_constant_agree (o : Ops α) (v : α) (c : List (Option α)) :
    pandasImpute o .constant (some v) c = dictImpute o .constant (some v) c ∧
    arrowImpute o false .constant (some v) c = dictImpute o .constant (some v) c ∧
    hasNull (dictImpute o .constant (some v) c) = false := by
  refine ⟨by simp only [pandasImpute, dictImpute], ?_, ?_⟩
  · simp only [arrowImpute, dictImpute]
    cases h : hasNull c with
    | false => simp [(hasNull_iff_nullCount c).mp h]
    | true =>
      have : nullCount c ≠ 0 := fun h0 => by simp [(hasNull_iff_nullCount c).mpr h0] at h
      simp [this]
  · simp only [dictImpute]
    cases h : hasNull c with
    | false => simp [h]
    | true => simp [fillWith_some_noNull]

end impute

/-- the same guard on all three: constant imputation without a constant is rejected by the shared base class -/
theorem C19.constant_requires_value (α : Type) :
    constantGuard Method.constant (none : Option α) = .error "Constant value must be provided" := rfl

/-- mean imputation of a non-integer numeric column: all three agree on every column -/
theorem C19.impute_mean_agree (const : Option Rat) (c : List (Option Rat)) :
    pandasImpute ratOps .mean const c = dictImpute ratOps .mean const c ∧
    arrowImpute ratOps false .mean const c = dictImpute ratOps .mean const c := by
  have hd : dictImpute ratOps .mean const c = if !hasNull c then c else fillWith (meanR (valid c)) c := by
    simp only [dictImpute, ratOps]
    by_cases hv : (valid c).isEmpty
    · have : valid c = [] := by simpa using hv
      simp [this, meanR, fillWith_none]
    · simp [hv]
  constructor
  · rw [hd]; simp only [pandasImpute, ratOps]
  · rw [hd]; simp only [arrowImpute, ratOps]
    cases h : hasNull c with
    | false => simp [(hasNull_iff_nullCount c).mp h]
    | true =>
      have : nullCount c ≠ 0 := fun h0 => by simp [(hasNull_iff_nullCount c).mpr h0] at h
      simp [this]

/-- median imputation of a non-integer numeric column: all three agree on every column -/
theorem C19.impute_median_agree (const : Option Rat) (c : List (Option Rat)) :
    pandasImpute ratOps .median const c = dictImpute ratOps .median const c ∧
    arrowImpute ratOps false .median const c = dictImpute ratOps .median const c := by
  have hd : dictImpute ratOps .median const c = if !hasNull c then c else fillWith (medianR (valid c)) c := by
    simp only [dictImpute, ratOps]
    by_cases hv : (valid c).isEmpty
    · have : valid c = [] := by simpa using hv
      simp [this, medianR, isort, fillWith_none]
    · simp [hv]
  constructor
  · rw [hd]; simp only [pandasImpute, ratOps]
  · rw [hd]; simp only [arrowImpute, ratOps, ← median_eq_quantileHalf]
    cases h : hasNull c with
    | false => simp [(hasNull_iff_nullCount c).mp h]
    | true =>
      have : nullCount c ≠ 0 := fun h0 => by simp [(hasNull_iff_nullCount c).mpr h0] at h
      simp [this]

/-- mean imputation leaves no null as soon as the column has one valid value -/
theorem C19.impute_mean_no_null (const : Option Rat) (c : List (Option Rat)) (h : valid c ≠ []) :
    hasNull (pandasImpute ratOps .mean const c) = false := by
  simp only [pandasImpute, ratOps]
  cases hn : hasNull c with
  | false => simp [hn]
  | true =>
    have : meanR (valid c) = some (sumR (valid c) / ((valid c).length : Rat)) := by simp [meanR, h]
    simp [this, fillWith_some_noNull]

/-- integer column on PyArrow: `pc.fill_null` truncates the fractional mean (pandas / python-dict keep 5/2) -/
theorem C19.impute_mean_int_trunc_witness :
    arrowImpute ratOps true .mean none [some 1, none, some 4] = [some 1, some 2, some 4] ∧
    pandasImpute ratOps .mean none [some 1, none, some 4] = [some 1, some (5/2), some 4] ∧
    dictImpute ratOps .mean none [some 1, none, some 4] = [some 1, some (5/2), some 4] := by decide +kernel

/- FULL STATEMENT (false): ∀ c, pandasImpute o .mode k c = dictImpute o .mode k c = arrowImpute o i .mode k c -/

/-- mode: pandas (smallest) and python-dict (first seen) agree whenever the most frequent valid value is unique -/
theorem C19.impute_mode_pandas_dict_agree_unique {α : Type} [DecidableEq α] (o : Ops α) (const : Option α)
    (c : List (Option α)) (h : ∀ x ∈ modes (valid c), ∀ y ∈ modes (valid c), x = y) :
    pandasImpute o .mode const c = dictImpute o .mode const c := by
  simp only [pandasImpute, dictImpute, smallestMode_eq_firstSeen o.le (valid c) h]
  by_cases hv : (valid c).isEmpty
  · have : valid c = [] := by simpa using hv
    simp [this, firstSeenMode, fillWith_none]
  · simp [hv]

/-- mode: pyarrow (value_counts incl. null) and python-dict agree whenever some value is more frequent than null -/
theorem C19.impute_mode_arrow_dict_agree {α : Type} [DecidableEq α] (o : Ops α) (isInt : Bool) (const : Option α)
    (c : List (Option α)) (v : α) (hv : v ∈ valid c) (hlt : nullCount c < (valid c).count v) :
    arrowImpute o isInt .mode const c = dictImpute o .mode const c := by
  have hne : (valid c).isEmpty = false := by
    cases hvc : valid c with
    | nil => simp [hvc] at hv
    | cons _ _ => rfl
  simp only [arrowImpute, dictImpute, firstSeenMode_with_nulls c v hv hlt, hne]
  cases h : hasNull c with
  | false => simp [(hasNull_iff_nullCount c).mp h]
  | true =>
    have : nullCount c ≠ 0 := fun h0 => by simp [(hasNull_iff_nullCount c).mpr h0] at h
    cases hm : firstSeenMode (valid c) with
    | none => simp [this, fillWith_none]
    | some m => simp [this]

/-- tie between 3 and 1: pandas fills with the smallest (1), pyarrow and python-dict with the first seen (3) -/
theorem C19.impute_mode_tie_witness :
    pandasImpute ratOps .mode none [some 3, some 1, none, some 1, some 3] = [some 3, some 1, some 1, some 1, some 3] ∧
    dictImpute ratOps .mode none [some 3, some 1, none, some 1, some 3] = [some 3, some 1, some 3, some 1, some 3] ∧
    arrowImpute ratOps false .mode none [some 3, some 1, none, some 1, some 3] = [some 3, some 1, some 3, some 1, some 3] := by
  decide +kernel

/-- null is the most frequent "value" for pyarrow: nothing is imputed -/
theorem C19.impute_mode_arrow_null_witness :
    arrowImpute ratOps false .mode none [none, some 1, none] = [none, some 1, none] ∧
    dictImpute ratOps .mode none [none, some 1, none] = [some 1, some 1, some 1] ∧
    pandasImpute ratOps .mode none [none, some 1, none] = [some 1, some 1, some 1] := by decide +kernel

/-! ### grouped imputation -/

/-- grouped ffill / bfill: pandas (`groupby.transform(ffill)`) and python-dict (loop over the group's rows) agree for every
column and every key assignment (numeric columns; on string columns python-dict raises, see the witness below) -/
theorem C19.impute_grouped_fill_agree (const : Option Rat) (keys : List Nat) (c : List (Option Rat)) :
    dictGrouped ratOps .ffill const keys c = .ok (pandasGrouped ratOps .ffill const keys c) ∧
    dictGrouped ratOps .bfill const keys c = .ok (pandasGrouped ratOps .bfill const keys c) := by
  have e1 : (pdFfill : List (Option Rat) → _) = ffillLoop none := funext pdFfill_eq_loop
  have e2 : (pdBfill : List (Option Rat) → _) = fun g => (bfillLoop g).1 := funext pdBfill_eq_loop
  constructor
  · simp only [dictGrouped, pandasGrouped, e1, ratOps]
    cases hasNull c <;> simp
  · simp only [dictGrouped, pandasGrouped, e2, ratOps]
    cases hasNull c <;> simp

/-- grouped ffill on PyArrow compares group-local with global indices (rows of group b / a get later / wrong values) -/
theorem C19.impute_grouped_ffill_arrow_witness :
    arrowGrouped ratOps false .ffill none [0, 0, 1, 1, 0, 1, 2, 0] [some 1, none, some 2, none, none, some (1/2), none, some 4]
      = [some 1, some 1, some 2, some (1/2), some 4, some (1/2), none, some 4] ∧
    pandasGrouped ratOps .ffill none [0, 0, 1, 1, 0, 1, 2, 0] [some 1, none, some 2, none, none, some (1/2), none, some 4]
      = [some 1, some 1, some 2, some 2, some 1, some (1/2), none, some 4] ∧
    dictGrouped ratOps .ffill none [0, 0, 1, 1, 0, 1, 2, 0] [some 1, none, some 2, none, none, some (1/2), none, some 4]
      = .ok [some 1, some 1, some 2, some 2, some 1, some (1/2), none, some 4] := by
  decide +kernel

/-- grouped mode with an all-null group: python-dict falls back to the overall mode, pandas leaves the null -/
theorem C19.impute_grouped_mode_fallback_witness :
    pandasGrouped ratOps .mode none [0, 0, 1, 2] [some 1, none, some 2, none] = [some 1, some 1, some 2, none] ∧
    dictGrouped ratOps .mode none [0, 0, 1, 2] [some 1, none, some 2, none] = .ok [some 1, some 1, some 2, some 1] := by
  decide +kernel

/-- grouped imputation of a string column: python-dict raises (statistics.mean of strings), pandas imputes -/
theorem C19.impute_grouped_string_dict_witness :
    dictGrouped strOps .ffill none [1, 1, 0, 1] [some "", some "", some "B", none] =
      .error "TypeError: statistics.mean of non-numeric values" ∧
    pandasGrouped strOps .ffill none [1, 1, 0, 1] [some "", some "", some "B", none] = [some "", some "", some "B", some ""] := by
  decide +kernel

/-! ## time windows: Pandas vs PyArrow -/

/- FULL STATEMENT (false): ∀ op w times c, pandasWindow op w times c = arrowWindow op w times c -/

/-- on rows already ordered by reference time, every window function except std / var gives the same column on both
frameworks, for every window size and every value column -/
theorem C19.window_agree_sorted (op : String)
    (hop : op ∈ ["sum", "min", "max", "avg", "mean", "count", "median", "first", "last"])
    (w : Nat) (times : List Int) (c : List (Option Rat)) (hs : times.Pairwise (· ≤ ·)) :
    pandasWindow op w times c = arrowWindow op w times c := by
  unfold pandasWindow arrowWindow
  rw [rolling_eq_window op hop, sortIdx_of_sorted times hs]
  cases Pa.window op with
  | none => rfl
  | some f =>
    simp only [Option.map_some]
    congr 1
    have hl : (windowsSorted f w (takeIdx c (List.range times.length))).length = times.length := by
      simp [windowsSorted, takeIdx]
    have := unsort_range (windowsSorted f w (takeIdx c (List.range times.length)))
    rw [hl] at this
    exact this.symm

/-- unsorted time column: pandas leaves the results in time order, pyarrow returns them to their rows -/
theorem C19.window_unsorted_witness :
    pandasWindow "sum" 2 [3, 1, 2, 0] [some 1, some 3, some 2, some 4] =
      some [⟨some 4, false⟩, ⟨some 7, false⟩, ⟨some 5, false⟩, ⟨some 3, false⟩] ∧
    arrowWindow "sum" 2 [3, 1, 2, 0] [some 1, some 3, some 2, some 4] =
      some [⟨some 3, false⟩, ⟨some 7, false⟩, ⟨some 5, false⟩, ⟨some 4, false⟩] := by decide +kernel

/-- rolling var: pandas sample variance (null for one observation), pyarrow population variance -/
theorem C19.window_var_ddof_witness :
    pandasWindow "var" 2 [0, 1] [some 1, some 2] = some [⟨none, false⟩, ⟨some (1/2), false⟩] ∧
    arrowWindow "var" 2 [0, 1] [some 1, some 2] = some [⟨some 0, false⟩, ⟨some (1/4), false⟩] := by decide +kernel

/-! ## text cleaning: Pandas vs PythonDict -/

/- FULL STATEMENT (false): ∀ ops c, pandasClean ops c = .ok (dictClean ops c) -/

/-- every sequence of cleaning operations gives the same result on both frameworks for every null-free column whose
strings contain none of the characters on which the two regex engines' `\s` differ (\v, 0x1c–0x1f) -/
theorem C19.text_agree (ops : List Op) (c : List Str) (h : ∀ s ∈ c, ∀ ch ∈ s, oddSpace ch = false) :
    pandasClean ops (c.map some) = .ok (dictClean ops (c.map some)) := by
  have hnn : (c.map some).any (·.isNone) = false := by simp
  simp only [pandasClean, hnn, Bool.false_and, Bool.false_eq_true, if_false, dictClean, List.map_map]
  congr 1
  apply List.map_congr_left
  intro s hs
  simp [foldl_agree ops s (h s hs)]

/-- null entry: python-dict cleans "", pandas keeps the null or raises -/
theorem C19.text_null_witness :
    pandasClean [.normalizeWhitespace] [some "a".toList, none] = .ok [some "a".toList, none] ∧
    dictClean [.normalizeWhitespace] [some "a".toList, none] = [some "a".toList, some []] ∧
    pandasClean [.normalize] [some "a".toList, none] = .error "TypeError/AttributeError on a null entry" := by decide

/-- vertical tab: white space for Python's `re`, not for the RE2 engine behind pandas' str Series -/
theorem C19.text_whitespace_witness :
    pandasClean [.normalizeWhitespace] [some "a\x0bb".toList] = .ok [some "a\x0bb".toList] ∧
    dictClean [.normalizeWhitespace] [some "a\x0bb".toList] = [some "a b".toList] := by decide

/-! ## non-vacuity: concrete non-trivial values meeting the hypotheses (tests, not proofs of the property) -/

example : pandasAggr "median" [some 3, none, some 1, some 2, some 5] = some (List.replicate 5 ⟨some (5/2), false⟩) := by decide +kernel
example : valid [some (1 : Rat), none, some 2] ≠ [] ∧ pandasAggr "sum" [some 1, none, some 2] = some (List.replicate 3 ⟨some 3, false⟩) := by decide +kernel
example : (∀ x ∈ valid [some (2 : Rat), none, some 2], x = 2) ∧ 2 ≤ (valid [some (2 : Rat), none, some 2]).length := by decide +kernel
example : dictImpute ratOps .ffill none [none, some 1, none, none, some 2, none] = [none, some 1, some 1, some 1, some 2, some 2] := by decide +kernel
example : pandasImpute ratOps .bfill none [none, some 1, none, none, some 2, none] = [some 1, some 1, some 2, some 2, some 2, none] := by decide +kernel
example : pandasImpute ratOps .mean none [some 1, none, some 2] = [some 1, some (3/2), some 2] := by decide +kernel
example : (∀ x ∈ modes (valid [some (2 : Rat), none, some 1, some 2]), ∀ y ∈ modes (valid [some (2 : Rat), none, some 1, some 2]), x = y) ∧
    pandasImpute ratOps .mode none [some 2, none, some 1, some 2] = [some 2, some 2, some 1, some 2] := by decide +kernel
example : nullCount [some (2 : Rat), none, some 1, some 2] < (valid [some (2 : Rat), none, some 1, some 2]).count 2 ∧
    arrowImpute ratOps false .mode none [some 2, none, some 1, some 2] = [some 2, some 2, some 1, some 2] := by decide +kernel
example : pandasGrouped ratOps .ffill none [0, 1, 0, 1] [some 1, some 2, none, none] = [some 1, some 2, some 1, some 2] := by decide +kernel
example : ([0, 2, 5] : List Int).Pairwise (· ≤ ·) ∧
    arrowWindow "avg" 2 [0, 2, 5] [some 1, none, some 4] = some [⟨some 1, false⟩, ⟨some 1, false⟩, ⟨some 4, false⟩] := by decide +kernel
example : (∀ s ∈ ["  Hello,  World! ".toList], ∀ ch ∈ s, oddSpace ch = false) ∧
    dictClean [.normalize, .removePunctuation, .normalizeWhitespace] [some "  Hello,  World! ".toList] = [some "hello world".toList] := by decide
example : dictClean [.removeUrls] [some "see http://x.y/z or me@a.co now".toList] = [some "see  or  now".toList] := by decide
