import MlodaVerif.Lemmas.Links
/-! # C18 - link sets are validated; the applicable link follows the documented rules

Model: `MlodaVerif/Model/Links.lean` (hierarchies as parent maps with derived MRO, `Link.__eq__` on names,
`LinkValidator.validate_links`, `_find_matching_links`, `_select_most_specific_links`, `Index.is_a_part_of_`,
`supports_index`).  Every theorem quantifies over all hierarchies / link lists / classes; `decide` is used only for
closed negation witnesses and non-vacuity examples. -/
open Links

/-! ## Validation -/

/-- `validate_links` accepts exactly when no link has a non-`JoinType` type and no ordered pair of the set trips one of
the three coded checks. -/
theorem C18.validate_iff (H : Hier) (ls : List Link) :
    validateLinks H ls = .ok ↔
      (∀ l ∈ ls, l.jt ≠ .invalid) ∧
      ∀ i ∈ ls, ∀ j ∈ ls, doubleBad H i j = false ∧ conflictBad H i j = false ∧ rightBad H i j = false := by
  unfold validateLinks
  constructor
  · intro h
    split at h
    · cases h
    · rename_i hinv
      split at h
      · cases h
      · rename_i hd
        split at h
        · cases h
        · rename_i hc
          split at h
          · cases h
          · rename_i hr
            refine ⟨?_, ?_⟩
            · intro l hl hjt
              have := List.find?_eq_none.mp hinv l hl
              simp [hjt] at this
            · intro i hi j hj
              exact ⟨firstPair_eq_none.mp hd i hi j hj, firstPair_eq_none.mp hc i hi j hj,
                     firstPair_eq_none.mp hr i hi j hj⟩
  · rintro ⟨hinv, hp⟩
    have h0 : ls.find? (fun l => l.jt == .invalid) = none := by
      apply List.find?_eq_none.mpr
      intro l hl; simpa using hinv l hl
    have h1 : firstPair (doubleBad H) ls = none := firstPair_eq_none.mpr (fun i hi j hj => (hp i hi j hj).1)
    have h2 : firstPair (conflictBad H) ls = none := firstPair_eq_none.mpr (fun i hi j hj => (hp i hi j hj).2.1)
    have h3 : firstPair (rightBad H) ls = none := firstPair_eq_none.mpr (fun i hi j hj => (hp i hi j hj).2.2)
    simp [h0, h1, h2, h3]

/-- the pair named in the error message really trips the corresponding coded check -/
theorem C18.validate_reported_pair (H : Hier) (ls : List Link) (a b : Nat) :
    (validateLinks H ls = .double a b → ∃ i ∈ ls, ∃ j ∈ ls, i.uid = a ∧ j.uid = b ∧ doubleBad H i j = true) ∧
    (validateLinks H ls = .conflict a b → ∃ i ∈ ls, ∃ j ∈ ls, i.uid = a ∧ j.uid = b ∧ conflictBad H i j = true) ∧
    (validateLinks H ls = .rightJoin a b → ∃ i ∈ ls, ∃ j ∈ ls, i.uid = a ∧ j.uid = b ∧ rightBad H i j = true) := by
  unfold validateLinks
  refine ⟨?_, ?_, ?_⟩ <;> intro h <;> (repeat' split at h) <;> try (cases h; done)
  all_goals
    rename_i i j hf
    obtain ⟨hi, hj, hp⟩ := firstPair_some hf
    injection h with h1 h2
    exact ⟨i, hi, j, hj, h1, h2, hp⟩

/-- which check fires (or acceptance) as a function of the *set* only -/
theorem C18.validate_kind_eq (H : Hier) (ls : List Link) :
    (validateLinks H ls).kind =
      if ls.any (fun l => l.jt == .invalid) then 1
      else if ls.any (fun i => ls.any (fun j => doubleBad H i j)) then 2
      else if ls.any (fun i => ls.any (fun j => conflictBad H i j)) then 3
      else if ls.any (fun i => ls.any (fun j => rightBad H i j)) then 4 else 0 := by
  rw [← firstPair_isSome, ← firstPair_isSome, ← firstPair_isSome]
  have hfind : ls.any (fun l => l.jt == .invalid) = (ls.find? (fun l => l.jt == .invalid)).isSome := by
    induction ls with
    | nil => rfl
    | cons a as ih =>
      simp only [List.any_cons, List.find?_cons]
      cases h : (a.jt == JoinType.invalid) <;> simp [ih]
  rw [hfind]
  unfold validateLinks
  cases ls.find? (fun l => l.jt == .invalid) with
  | some l => simp [VOutcome.kind]
  | none =>
    cases firstPair (doubleBad H) ls with
    | some p => simp [VOutcome.kind]
    | none =>
      cases firstPair (conflictBad H) ls with
      | some p => simp [VOutcome.kind]
      | none =>
        cases firstPair (rightBad H) ls with
        | some p => simp [VOutcome.kind]
        | none => simp [VOutcome.kind]

/-- acceptance and the error class do not depend on the iteration order of the set (hashing) -/
theorem C18.validate_kind_perm (H : Hier) (ls ls' : List Link) (h : ls.Perm ls') :
    (validateLinks H ls).kind = (validateLinks H ls').kind := by
  rw [C18.validate_kind_eq, C18.validate_kind_eq, h.any_eq, anyPair_perm h, anyPair_perm (p := conflictBad H) h,
    anyPair_perm (p := rightBad H) h]

/- Full statement of the property's first clause (FALSE for the code as it is - see the witness below):
     `validateLinks H ls = .ok → Spec.contradictory ls = false`
   i.e. every link set containing "two different joins between the same pair", "different join types for one ordered
   pair" or "right joins sharing a left group" is rejected. -/

/-- Partial form: on real sets (no two `__eq__` links) that contain no two links over the same *ordered* pair with the
same relational join type (the finding's input class), an accepted set contains none of the three contradictions of the
property, nor a right join whose left group is reused. -/
theorem C18.validate_vs_property_partial (H : Hier) (ls : List Link)
    (hset : ∀ i ∈ ls, ∀ j ∈ ls, linkEq H i j = true → i = j)
    (hno : ∀ i ∈ ls, ∀ j ∈ ls, i.left = j.left → i.right = j.right → i.jt = j.jt →
      i = j ∨ i.jt.stacking = true ∨ i.left = i.right)
    (hok : validateLinks H ls = .ok) :
    Spec.contradictory ls = false ∧ Spec.rightLeftReuse ls = false := by
  obtain ⟨_, hp⟩ := (C18.validate_iff H ls).mp hok
  -- two different links of the set are never `__eq__`
  have hne : ∀ i ∈ ls, ∀ j ∈ ls, Spec.differ i j = true → linkEq H i j = false := by
    intro i hi j hj hd
    cases h : linkEq H i j with
    | false => rfl
    | true => have := hset i hi j hj h; subst this; rw [differ_self] at hd; cases hd
  have hdb : ∀ i ∈ ls, ∀ j ∈ ls, Spec.differ i j = true → i.left = j.right → i.right = j.left →
      i.jt.stacking = true := by
    intro i hi j hj hd h1 h2
    cases hs : i.jt.stacking with
    | true => rfl
    | false =>
      have := (hp i hi j hj).1
      rw [Bool.eq_false_iff] at this
      exact absurd (doubleBad_iff.mpr ⟨hne i hi j hj hd, h1, h2, hs⟩) this
  have hdiff_symm : ∀ i j : Link, Spec.differ i j = true → Spec.differ j i = true := by
    intro i j h; rw [differ_iff] at h ⊢
    rcases h with h | h | h | h | h
    · exact Or.inl (Ne.symm h)
    · exact Or.inr (Or.inl (Ne.symm h))
    · exact Or.inr (Or.inr (Or.inl (Ne.symm h)))
    · exact Or.inr (Or.inr (Or.inr (Or.inl (Ne.symm h))))
    · exact Or.inr (Or.inr (Or.inr (Or.inr (Ne.symm h))))
  constructor
  · rw [Bool.eq_false_iff]
    intro hc
    simp only [Spec.contradictory, List.any_eq_true, Bool.or_eq_true] at hc
    obtain ⟨i, hi, j, hj, hc⟩ := hc
    rcases hc with (hc | hc) | hc
    · -- two different joins between the same pair
      obtain ⟨hd, hpair, hst⟩ := twoJoins_iff.mp hc
      have hrev : i.left = j.right → i.right = j.left → False := by
        intro h1 h2
        have s1 := hdb i hi j hj hd h1 h2
        have s2 := hdb j hj i hi (hdiff_symm i j hd) h2.symm h1.symm
        exact hst ⟨s1, s2⟩
      rcases hpair with ⟨h1, h2⟩ | ⟨h1, h2⟩
      · by_cases hjt : i.jt = j.jt
        · rcases hno i hi j hj h1 h2 hjt with rfl | hs | hself
          · rw [differ_self] at hd; cases hd
          · exact hst ⟨hs, hjt ▸ hs⟩
          · exact hrev (by rw [hself, h2]) (by rw [← hself, h1])
        · have := (hp i hi j hj).2.1
          rw [Bool.eq_false_iff] at this
          exact this (conflictBad_iff.mpr ⟨hne i hi j hj hd, h1, h2, hjt⟩)
      · exact hrev h1 h2
    · -- different join types for one ordered pair
      obtain ⟨h1, h2, hjt⟩ := typeConflict_iff.mp hc
      have hd : Spec.differ i j = true := differ_iff.mpr (Or.inl hjt)
      have := (hp i hi j hj).2.1
      rw [Bool.eq_false_iff] at this
      exact this (conflictBad_iff.mpr ⟨hne i hi j hj hd, h1, h2, hjt⟩)
    · -- right joins sharing a left group
      obtain ⟨hd, hr, _, hl⟩ := rightShare_iff.mp hc
      have := (hp i hi j hj).2.2
      rw [Bool.eq_false_iff] at this
      exact this (rightBad_iff.mpr ⟨hr, hne i hi j hj hd, Or.inl hl⟩)
  · rw [Bool.eq_false_iff]
    intro hc
    simp only [Spec.rightLeftReuse, List.any_eq_true, Bool.and_eq_true, Bool.or_eq_true, beq_iff_eq] at hc
    obtain ⟨i, hi, j, hj, ⟨hd, hr⟩, hl⟩ := hc
    have := (hp i hi j hj).2.2
    rw [Bool.eq_false_iff] at this
    exact this (rightBad_iff.mpr ⟨hr, hne i hi j hj hd, hl⟩)

/-- Conversely every rejection is explained: a non-`JoinType` join type, one of the property's contradictions, or the
documented over-rejection (a right join's left group occurs in another link).  Unconditional. -/
theorem C18.validate_reject_explained (H : Hier) (ls : List Link) (hinv : ∀ l ∈ ls, l.jt ≠ .invalid)
    (hrej : validateLinks H ls ≠ .ok) :
    Spec.contradictory ls = true ∨ Spec.rightLeftReuse ls = true := by
  have hnb : ¬ ∀ i ∈ ls, ∀ j ∈ ls,
      doubleBad H i j = false ∧ conflictBad H i j = false ∧ rightBad H i j = false :=
    fun hb => hrej ((C18.validate_iff H ls).mpr ⟨hinv, hb⟩)
  simp only [Classical.not_forall] at hnb
  obtain ⟨i, hi, j, hj, hc⟩ := hnb
  · have key : doubleBad H i j = true ∨ conflictBad H i j = true ∨ rightBad H i j = true := by
      cases h1 : doubleBad H i j <;> cases h2 : conflictBad H i j <;> cases h3 : rightBad H i j <;> simp_all
    rcases key with h | h | h
    · obtain ⟨hne, h1, h2, hs⟩ := doubleBad_iff.mp h
      left
      simp only [Spec.contradictory, List.any_eq_true, Bool.or_eq_true]
      refine ⟨i, hi, j, hj, Or.inl (Or.inl (twoJoins_iff.mpr ⟨differ_of_not_linkEq hne, Or.inr ⟨h1, h2⟩, ?_⟩))⟩
      rintro ⟨a, _⟩; rw [hs] at a; cases a
    · obtain ⟨_, h1, h2, hjt⟩ := conflictBad_iff.mp h
      left
      simp only [Spec.contradictory, List.any_eq_true, Bool.or_eq_true]
      exact ⟨i, hi, j, hj, Or.inl (Or.inr (typeConflict_iff.mpr ⟨h1, h2, hjt⟩))⟩
    · obtain ⟨hr, hne, hl⟩ := rightBad_iff.mp h
      right
      simp only [Spec.rightLeftReuse, List.any_eq_true, Bool.and_eq_true, Bool.or_eq_true, beq_iff_eq]
      exact ⟨i, hi, j, hj, ⟨differ_of_not_linkEq hne, hr⟩, hl⟩

/-- NEGATION WITNESS (finding F-C18-same-pair-same-type, DESIGN O15): `{inner(A.k1,B.k1), inner(A.k2,B.k2)}` is accepted
although it contains two different joins between the same pair. -/
theorem C18.validate_vs_property_witness :
    let ls : List Link := [⟨.inner, 0, 1, ["k1"], ["k1"], 0⟩, ⟨.inner, 0, 1, ["k2"], ["k2"], 1⟩]
    validateLinks witnessHier ls = .ok ∧ Spec.contradictory ls = true := by decide

/-- non-vacuity: the hypotheses of `validate_vs_property_partial` hold for a real 3-link chain, which is accepted -/
example :
    let ls : List Link := [⟨.inner, 0, 1, ["k"], ["k"], 0⟩, ⟨.left, 1, 2, ["k"], ["k"], 1⟩, ⟨.append, 2, 0, ["k"], ["k"], 2⟩]
    validateLinks witnessHier ls = .ok ∧ Spec.contradictory ls = false ∧ Spec.rightLeftReuse ls = false := by decide

/-- non-vacuity: each of the three coded checks fires on its textbook input -/
example : validateLinks witnessHier [⟨.inner, 0, 1, ["k"], ["k"], 0⟩, ⟨.inner, 1, 0, ["k"], ["k"], 1⟩] = .double 0 1 := by decide
example : validateLinks witnessHier [⟨.inner, 0, 1, ["k"], ["k"], 0⟩, ⟨.left, 0, 1, ["k"], ["k"], 1⟩] = .conflict 0 1 := by decide
example : validateLinks witnessHier [⟨.right, 0, 1, ["k"], ["k"], 0⟩, ⟨.right, 0, 2, ["k"], ["k"], 1⟩] = .rightJoin 0 1 := by decide
/-- the documented exemption: APPEND in both directions is accepted -/
example : validateLinks witnessHier [⟨.append, 0, 1, ["k"], ["k"], 0⟩, ⟨.append, 1, 0, ["k"], ["k"], 1⟩] = .ok := by decide

/-! ## Matching -/

/-- **exact first**: if some link names exactly the two classes, the result is precisely the exact-class links -/
theorem C18.exact_first (H : Hier) (ls : List Link) (x y : Cls) (h : ∃ l ∈ ls, l.left = x ∧ l.right = y) :
    findMatchingLinks H ls x y = ls.filter (fun l => l.left == x && l.right == y) := by
  have : ¬ NoExact ls x y := by
    obtain ⟨l, hl, hc⟩ := h
    exact fun hn => hn l hl hc
  rw [find_of_exact this]; rfl

/-- every returned link belongs to the set and both its sides are the class itself or an ancestor -/
theorem C18.match_sound (H : Hier) (ls : List Link) (x y : Cls) (l : Link) (h : l ∈ findMatchingLinks H ls x y) :
    l ∈ ls ∧ H.isSub x l.left = true ∧ H.isSub y l.right = true := by
  by_cases hn : NoExact ls x y
  · rw [find_of_noExact hn] at h
    obtain ⟨hl, _⟩ := mem_select.mp h
    obtain ⟨hl1, hl2⟩ := List.mem_filter.mp hl
    simp only [matchesPoly, Bool.and_eq_true] at hl2
    exact ⟨hl1, hl2.1, hl2.2⟩
  · rw [find_of_exact hn] at h
    obtain ⟨hl1, hl2⟩ := List.mem_filter.mp h
    simp only [matchesExact, Bool.and_eq_true, beq_iff_eq] at hl2
    refine ⟨hl1, ?_, ?_⟩
    · rw [hl2.1]; exact isSub_self H x
    · rw [hl2.2]; exact isSub_self H y

/-- **never a sibling mismatch**: a self link (both sides the same class) is only ever returned for one and the same
concrete class on both sides - for all hierarchies, unconditionally -/
theorem C18.never_sibling (H : Hier) (ls : List Link) (x y : Cls) (l : Link)
    (h : l ∈ findMatchingLinks H ls x y) (hself : l.left = l.right) : x = y := by
  by_cases hn : NoExact ls x y
  · rw [find_of_noExact hn] at h
    obtain ⟨_, d, hd, _⟩ := mem_select.mp h
    simp only [score, hself, beq_self_eq_true, if_true] at hd
    split at hd
    · rename_i hc
      simp only [Bool.and_eq_true, beq_iff_eq] at hc
      exact hc.1
    · cases hd
  · rw [find_of_exact hn] at h
    obtain ⟨_, hl2⟩ := List.mem_filter.mp h
    simp only [matchesExact, Bool.and_eq_true, beq_iff_eq] at hl2
    rw [← hl2.1, ← hl2.2, hself]

/-- **closest wins** (and nothing else): without an exact link the result is exactly the polymorphically matching
links that the per-link rule admits with the least distance -/
theorem C18.closest_wins (H : Hier) (ls : List Link) (x y : Cls) (hn : ∀ l ∈ ls, ¬ (l.left = x ∧ l.right = y))
    (l : Link) :
    l ∈ findMatchingLinks H ls x y ↔
      l ∈ ls ∧ matchesPoly H l x y = true ∧
        ∃ d, score H x y l = some d ∧
          ∀ m ∈ ls, matchesPoly H m x y = true → ∀ d', score H x y m = some d' → d ≤ d' := by
  rw [find_of_noExact hn, mem_select]
  simp only [List.mem_filter]
  constructor
  · rintro ⟨⟨h1, h2⟩, d, hd, hmin⟩
    exact ⟨h1, h2, d, hd, fun m hm hp d' hd' => hmin m ⟨hm, hp⟩ d' hd'⟩
  · rintro ⟨h1, h2, d, hd, hmin⟩
    exact ⟨⟨h1, h2⟩, d, hd, fun m hm d' hd' => hmin m hm.1 hm.2 d' hd'⟩

/-- in the balanced branch the distance that is compared is the common inheritance distance of the two sides -/
theorem C18.score_balanced (H : Hier) (x y : Cls) (l : Link) (h : Spec.admissible H x y l = true) :
    score H x y l = some (H.dist x l.left) ∧ H.dist x l.left = H.dist y l.right := by
  have hp := admissible_poly h
  simp only [Spec.admissible, Bool.and_eq_true, beq_iff_eq, Bool.or_eq_true, bne_iff_ne] at h
  obtain ⟨⟨⟨_, _⟩, hd⟩, hs⟩ := h
  refine ⟨?_, hd⟩
  simp only [score]
  by_cases h1 : l.left = l.right
  · have hxy : x = y := by
      rcases hs with hs | hs
      · exact absurd h1 hs
      · exact hs
    simp [h1, hxy, ← hd]
  · have h1' : (l.left == l.right) = false := by simpa using h1
    simp [h1', hd]

/- Full statement of the matching clause (FALSE for the code as it is - see `asymmetric_witness`):
     `∀ H ls x y, findMatchingLinks H ls x y = Spec.findLinks H ls x y`
   ("an exact-class link if one exists, otherwise only links whose sides are ancestors at equal inheritance distance
   (same concrete class for self links), the closest one winning"). -/

/-- Partial form: whenever no link of the set falls into the asymmetric input class for the pair (link classes
unrelated, one side exact, the other a proper ancestor) the code returns exactly what the property describes - same
links, same order - for all hierarchies. -/
theorem C18.balanced_only_partial (H : Hier) (ls : List Link) (x y : Cls)
    (h : ∀ l ∈ ls, asymmetricAdmitted H x y l = false) :
    findMatchingLinks H ls x y = Spec.findLinks H ls x y := by
  by_cases hn : NoExact ls x y
  · have hex : ls.filter (fun l => l.left == x && l.right == y) = [] := by
      apply List.filter_eq_nil_iff.mpr
      intro l hl
      simpa using hn l hl
    rw [find_of_noExact hn]
    simp only [Spec.findLinks, hex, List.isEmpty_nil, Bool.not_true, Bool.false_eq_true, if_false]
    -- per link: score = documented rule
    have hsc : ∀ l ∈ ls, matchesPoly H l x y = true →
        score H x y l = if Spec.admissible H x y l then some (H.dist x l.left) else none :=
      fun l hl hp => score_eq hp (h l hl)
    -- the candidate distances on both sides
    have hmemc : ∀ m, m ∈ ls.filter (Spec.admissible H x y) ↔ m ∈ ls ∧ Spec.admissible H x y m = true := by
      intro m; exact List.mem_filter
    unfold selectMostSpecific
    simp only
    cases hmin : minOf (((ls.filter (fun l => matchesPoly H l x y)).filterMap
        (fun l => (score H x y l).map (fun d => (l, d)))).map (·.2)) with
    | none =>
      -- no candidate on the code side, hence none on the documented side
      have hnil := minOf_eq_none.mp hmin
      have : ls.filter (Spec.admissible H x y) = [] := by
        apply List.filter_eq_nil_iff.mpr
        intro m hm hadm
        have hp := admissible_poly hadm
        have hs := hsc m hm hp
        rw [hadm] at hs
        have : H.dist x m.left ∈ ((ls.filter (fun l => matchesPoly H l x y)).filterMap
            (fun l => (score H x y l).map (fun d => (l, d)))).map (·.2) := by
          simp only [List.mem_map, List.mem_filterMap, Option.map_eq_some_iff, List.mem_filter]
          exact ⟨(m, H.dist x m.left), ⟨m, ⟨hm, hp⟩, H.dist x m.left, by simpa using hs, rfl⟩, rfl⟩
        rw [hnil] at this; cases this
      simp [this]
    | some m0 =>
      obtain ⟨hm1, hm2⟩ := minOf_spec hmin
      dsimp only
      rw [select_eq_filter, List.filter_filter, List.filter_filter]
      apply List.filter_congr
      intro l hl
      -- distances of candidates
      have hds : ∀ d', d' ∈ ((ls.filter (fun l => matchesPoly H l x y)).filterMap
            (fun l => (score H x y l).map (fun d => (l, d)))).map (·.2) ↔
          ∃ m ∈ ls, Spec.admissible H x y m = true ∧ H.dist x m.left = d' := by
        intro d'
        simp only [List.mem_map, List.mem_filterMap, Option.map_eq_some_iff, List.mem_filter]
        constructor
        · rintro ⟨p, ⟨m, ⟨hm, hp⟩, d, hd, rfl⟩, rfl⟩
          have hs := hsc m hm hp
          rw [hd] at hs
          by_cases hadm : Spec.admissible H x y m = true
          · rw [hadm] at hs; simp at hs; exact ⟨m, hm, hadm, hs.symm⟩
          · simp [hadm] at hs
        · rintro ⟨m, hm, hadm, rfl⟩
          have hp := admissible_poly hadm
          have hs := hsc m hm hp
          rw [hadm] at hs
          exact ⟨(m, H.dist x m.left), ⟨m, ⟨hm, hp⟩, H.dist x m.left, by simpa using hs, rfl⟩, rfl⟩
      by_cases hadm : Spec.admissible H x y l = true
      · have hp := admissible_poly hadm
        have hs := hsc l hl hp
        rw [hadm] at hs
        simp only [if_true] at hs
        simp only [hs, hp, hadm, Bool.and_true]
        rw [Bool.eq_iff_iff]
        simp only [beq_iff_eq, Option.some.injEq, List.all_eq_true, decide_eq_true_eq, hmemc]
        constructor
        · intro he m hm
          rw [he]; exact hm2 _ ((hds _).mpr ⟨m, hm.1, hm.2, rfl⟩)
        · intro hall
          obtain ⟨m, hm, hadm', hmd⟩ := (hds m0).mp hm1
          have h1 : H.dist x l.left ≤ m0 := hmd ▸ hall m ⟨hm, hadm'⟩
          have h2 : m0 ≤ H.dist x l.left := hm2 _ ((hds _).mpr ⟨l, hl, hadm, rfl⟩)
          exact Nat.le_antisymm h1 h2
      · have hadm' : Spec.admissible H x y l = false := by simpa using hadm
        by_cases hp : matchesPoly H l x y = true
        · have hs := hsc l hl hp
          rw [hadm'] at hs
          simp [hs, hadm']
        · have hp' : matchesPoly H l x y = false := by simpa using hp
          simp [hp', hadm']
  · rw [find_of_exact hn]
    have : (ls.filter (fun l => l.left == x && l.right == y)).isEmpty = false := by
      rw [Bool.eq_false_iff]
      intro he
      apply hn
      intro l hl hc
      have : l ∈ ls.filter (fun l => l.left == x && l.right == y) := by
        simp [List.mem_filter, hl, hc.1, hc.2]
      rw [List.isEmpty_iff.mp he] at this
      cases this
    simp only [Spec.findLinks, this, Bool.not_false, if_true]
    rfl

/-- NEGATION WITNESS (finding F-C18-asymmetric): `class A; class A1(A); class C`; the link `(A, C)` is returned for the
pair `(A1, C)` (distances 1 and 0) although the documented rule admits only equal distances. -/
theorem C18.asymmetric_witness :
    let ls : List Link := [⟨.inner, 0, 2, ["k"], ["k"], 7⟩]
    findMatchingLinks witnessHier ls 3 2 = ls ∧ Spec.findLinks witnessHier ls 3 2 = [] ∧
      asymmetricAdmitted witnessHier 3 2 ⟨.inner, 0, 2, ["k"], ["k"], 7⟩ = true := by decide

/-- the asymmetric rule can also add a link next to a balanced one that the property alone would select -/
example :
    let H : Hier := { parent := fun c => if c = 1 then some 0 else if c = 3 then some 2 else none,
                      name := fun c => toString c, indexDecl := fun _ => none }
    let ls : List Link := [⟨.inner, 0, 2, ["k"], ["k"], 0⟩, ⟨.inner, 1, 2, ["k"], ["k"], 1⟩]
    (findMatchingLinks H ls 1 3).map (·.uid) = [0, 1] ∧ (Spec.findLinks H ls 1 3).map (·.uid) = [0] := by decide

/-- the set of returned links does not depend on the iteration order of the link set -/
theorem C18.find_perm (H : Hier) (ls ls' : List Link) (x y : Cls) (hp : ls.Perm ls') :
    (findMatchingLinks H ls x y).Perm (findMatchingLinks H ls' x y) := by
  by_cases hn : NoExact ls x y
  · have hn' : NoExact ls' x y := fun l hl => hn l (hp.mem_iff.mpr hl)
    rw [find_of_noExact hn, find_of_noExact hn']
    have hf := hp.filter (fun l => matchesPoly H l x y)
    have hld := hf.filterMap (fun l => (score H x y l).map (fun d => (l, d)))
    unfold selectMostSpecific
    simp only
    rw [minOf_perm (hld.map (·.2))]
    cases minOf (((ls'.filter (fun l => matchesPoly H l x y)).filterMap
        (fun l => (score H x y l).map (fun d => (l, d)))).map (·.2)) with
    | none => exact List.Perm.refl _
    | some m => exact ((hld.filter _).map _)
  · have hn' : ¬ NoExact ls' x y := fun h => hn (fun l hl => h l (hp.mem_iff.mp hl))
    rw [find_of_exact hn, find_of_exact hn']
    exact hp.filter _

/-- non-vacuity: sibling classes 1,2 under 0 - the base self link serves (1,1) and (2,2) but not (1,2);
an exact link beats the base link; in a chain 0 <- 1 <- 3 the closer of two balanced links wins -/
example :
    let H : Hier := { parent := fun c => if c = 1 ∨ c = 2 then some 0 else if c = 3 then some 1 else none,
                      name := fun c => toString c, indexDecl := fun _ => none }
    let base : Link := ⟨.inner, 0, 0, ["k"], ["k"], 0⟩
    let mid : Link := ⟨.left, 1, 1, ["k"], ["k"], 1⟩
    findMatchingLinks H [base] 1 1 = [base] ∧ findMatchingLinks H [base] 2 2 = [base] ∧
    findMatchingLinks H [base] 1 2 = [] ∧ findMatchingLinks H [base, mid] 1 1 = [mid] ∧
    findMatchingLinks H [base, mid] 3 3 = [mid] ∧ findMatchingLinks H [base, mid] 2 2 = [base] := by decide

/-! ## Where validation is applied -/

/-- links given to the API are validated before anything is planned: what the engine plans with was accepted -/
theorem C18.engine_validates_api (H : Hier) (api : List Link) (out : List Link)
    (h : engineLinks H (some api) [] = .ok out) : out = api ∧ validateLinks H api = .ok := by
  unfold engineLinks validateLinksOpt at h
  split at h
  · rename_i hv
    simp at h
    exact ⟨h.symm, hv⟩
  · cases h

/- Full statement (FALSE for the code as it is): `engineLinks H api fl = .ok out → Spec.contradictory out = false`
   (under the hypotheses of `validate_vs_property_partial`). -/

/-- NEGATION WITNESS (finding F-C18-feature-links-unvalidated): the reversed pair `{inner(A,B), inner(B,A)}` attached to
input features reaches the planner, although `validate_links` rejects the very same set. -/
theorem C18.feature_links_unvalidated_witness :
    let ls : List Link := [⟨.inner, 0, 1, ["k"], ["k"], 0⟩, ⟨.inner, 1, 0, ["k"], ["k"], 1⟩]
    (engineLinks witnessHier none ls).toOption = some ls ∧ Spec.contradictory ls = true ∧ validateLinks witnessHier ls = .double 0 1 := by
  decide

/-! ## MRO facts the matching rules rest on -/

/-- for every well-formed parent map (bases created before subclasses) `issubclass` as modelled through the derived MRO
is exactly "same class or ancestor" -/
theorem C18.isSub_iff_ancestor (H : Hier) (hwf : H.WF) (c p : Cls) : H.isSub c p = true ↔ Anc H.parent c p := by
  unfold Hier.isSub Hier.mro
  rw [List.contains_iff_mem]
  exact mem_mroAux_iff H.parent hwf c c (Nat.le_refl c) p

/-- distance 0 means the class itself (so "exact" and "distance 0 on both sides" coincide) -/
theorem C18.dist_zero_iff (H : Hier) (c p : Cls) : H.dist c p = 0 ↔ c = p := by
  obtain ⟨t, ht⟩ := mro_head H c
  unfold Hier.dist
  rw [ht]
  by_cases h : c = p
  · subst h; simp [List.idxOf?, List.findIdx?_cons]
  · have hne : (c == p) = false := by simpa using h
    simp only [List.idxOf?, List.findIdx?_cons, hne, h, iff_false]
    cases List.findIdx? (fun x => x == p) t with
    | none => simp
    | some i => simp

/-! ## Index support -/

/-- `Index.is_a_part_of_` is the prefix relation on column tuples - all lengths, all alphabets -/
theorem C18.isPartOf_iff_prefix {α : Type} [DecidableEq α] (a b : List α) : isPartOf a b = true ↔ a <+: b :=
  isPartOf_iff a b

/-- `supports_index`: `None` exactly when the group declares no index columns; otherwise `True` exactly when the index is a
prefix of one of the supported indexes -/
theorem C18.supportsIndex_iff {α : Type} [DecidableEq α] (cols : Option (List (List α))) (i : List α) :
    (supportsIndexOf cols i = none ↔ cols = none) ∧
    ∀ sup, cols = some sup →
      (supportsIndexOf cols i = some true ↔ ∃ s ∈ sup, i <+: s) ∧
      (supportsIndexOf cols i = some false ↔ ∀ s ∈ sup, ¬ i <+: s) := by
  constructor
  · cases cols <;> simp [supportsIndexOf]
  · intro sup h
    subst h
    constructor
    · simp only [supportsIndexOf, Option.some.injEq, List.any_eq_true, C18.isPartOf_iff_prefix]
    · simp only [supportsIndexOf, Option.some.injEq]
      rw [Bool.eq_false_iff]
      simp only [ne_eq, List.any_eq_true, C18.isPartOf_iff_prefix, not_exists, not_and]

/-- `index_columns` is inherited: the nearest class in the MRO that overrides it decides -/
theorem C18.indexColumns_nearest (H : Hier) (c a : Cls) (pre post : List Cls) (r : Option (List Index))
    (hm : H.mro c = pre ++ a :: post) (hpre : ∀ b ∈ pre, H.indexDecl b = none) (ha : H.indexDecl a = some r) :
    H.indexColumns c = r := by
  unfold Hier.indexColumns
  rw [hm, List.findSome?_append]
  have : pre.findSome? H.indexDecl = none := List.findSome?_eq_none_iff.mpr hpre
  simp [this, ha]

/-- non-vacuity for the index clause -/
example : isPartOf ["a"] ["a", "b"] = true ∧ isPartOf ["b"] ["a", "b"] = false ∧ isPartOf ([] : List String) ["a"] = true ∧
    isPartOf ["a", "b", "c"] ["a", "b"] = false ∧
    supportsIndexOf (some [["a", "b"], ["c"]]) ["a"] = some true ∧ supportsIndexOf (some [["a", "b"]]) ["b"] = some false ∧
    supportsIndexOf (none : Option (List (List String))) ["b"] = none := by decide

/-! ## Set semantics of `Link.__eq__` and the second-line check after matching -/

/-- a Python set built from links keeps one representative of every `__eq__` class (equality on class *names*), no two
survivors are equal, and nothing new appears -/
theorem C18.mkSet_spec (H : Hier) (ls : List Link) :
    (∀ m ∈ mkSet H ls, m ∈ ls) ∧ (∀ l ∈ ls, ∃ m ∈ mkSet H ls, linkEq H m l = true) ∧
    (mkSet H ls).Pairwise (fun a b => linkEq H a b = false) := by
  induction ls with
  | nil => simp [mkSet]
  | cons a as ih =>
    obtain ⟨ih1, ih2, ih3⟩ := ih
    simp only [mkSet]
    refine ⟨?_, ?_, ?_⟩
    · intro m hm
      rcases List.mem_cons.mp hm with rfl | hm
      · exact List.mem_cons_self
      · exact List.mem_cons_of_mem _ (ih1 m (List.mem_filter.mp hm).1)
    · intro l hl
      rcases List.mem_cons.mp hl with rfl | hl
      · exact ⟨l, List.mem_cons_self, linkEq_refl H l⟩
      · obtain ⟨m, hm, hml⟩ := ih2 l hl
        by_cases ham : linkEq H a m = true
        · exact ⟨a, List.mem_cons_self, linkEq_trans ham hml⟩
        · refine ⟨m, List.mem_cons_of_mem _ (List.mem_filter.mpr ⟨hm, ?_⟩), hml⟩
          simpa using ham
    · rw [List.pairwise_cons]
      refine ⟨?_, ih3.sublist List.filter_sublist⟩
      intro m hm
      have := (List.mem_filter.mp hm).2
      simpa using this

/-- names, not classes, decide equality: two links over different classes that happen to share `__name__` collapse into
one set element (modelled as the code does it; outside the property's clauses, reported as an observation) -/
example :
    let H : Hier := { parent := fun _ => none, name := fun c => if c = 2 then "B" else "A", indexDecl := fun _ => none }
    mkSet H [⟨.inner, 0, 2, ["k"], ["k"], 0⟩, ⟨.inner, 1, 2, ["k"], ["k"], 1⟩] = [⟨.inner, 0, 2, ["k"], ["k"], 0⟩] := by
  decide

/-- `ResolveLinkValidator.validate_no_conflicting_join_types` raises exactly when two links that are actually used name
the same ordered pair of classes with different join types - whatever the dict order -/
theorem C18.resolve_conflict_iff (used : List Link) :
    resolveConflict used = true ↔
      ∃ a ∈ used, ∃ b ∈ used, a.left = b.left ∧ a.right = b.right ∧ a.jt ≠ b.jt := by
  unfold resolveConflict
  rw [resolveConflictLoop_iff]
  constructor
  · rintro (⟨l, _, jt, h1, _⟩ | h)
    · simp [look] at h1
    · exact h
  · intro h; exact Or.inr h

example : resolveConflict [⟨.inner, 0, 1, ["k"], ["k"], 0⟩, ⟨.inner, 1, 2, ["k"], ["k"], 1⟩, ⟨.left, 0, 1, ["j"], ["j"], 2⟩] = true ∧
    resolveConflict [⟨.inner, 0, 1, ["k"], ["k"], 0⟩, ⟨.inner, 0, 1, ["j"], ["j"], 2⟩] = false := by decide
