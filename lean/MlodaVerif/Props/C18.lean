import MlodaVerif.Lemmas.Links
/-! # C18 - link sets are validated; the applicable link follows the documented rules

Model: `MlodaVerif/Model/Links.lean` (hierarchies as parent maps with derived MRO, `Link.__eq__` on names,
`LinkValidator.validate_links`, `_find_matching_links`, `_select_most_specific_links`, `Index.is_a_part_of_`,
`supports_index`).  Every theorem quantifies over all hierarchies / link lists / classes; `decide` is used only for
closed negation witnesses and non-vacuity examples. -/
open Links

/-! ## Validation -/

/-- `validate_links` accepts exactly when no link has a non-`JoinType` type and no ordered pair of the set trips one of
the three coded checks. -/
theorem C18.validate_iff (H : Hier) (ls : List Link) :
    validateLinks H ls = .ok ↔
      (∀ l ∈ ls, l.jt ≠ .invalid) ∧
      ∀ i ∈ ls, ∀ j ∈ ls, doubleBad H i j = false ∧ conflictBad H i j = false ∧ rightBad H i j = false := by
  unfold validateLinks
  constructor
  · intro h
    split at h
    · cases h
    · rename_i hinv
      split at h
      · cases h
      · rename_i hd
        split at h
        · cases h
        · rename_i hc
          split at h
          · cases h
          · rename_i hr
            refine ⟨?_, ?_⟩
            · intro l hl hjt
              have := List.find?_eq_none.mp hinv l hl
              simp [hjt] at this
            · intro i hi j hj
              exact ⟨firstPair_eq_none.mp hd i hi j hj, firstPair_eq_none.mp hc i hi j hj,
                     firstPair_eq_none.mp hr i hi j hj⟩
  · rintro ⟨hinv, hp⟩
    have h0 : ls.find? (fun l => l.jt == .invalid) = none := by
      apply List.find?_eq_none.mpr
      intro l hl; simpa using hinv l hl
    have h1 : firstPair (doubleBad H) ls = none := firstPair_eq_none.mpr (fun i hi j hj => (hp i hi j hj).1)
    have h2 : firstPair (conflictBad H) ls = none := firstPair_eq_none.mpr (fun i hi j hj => (hp i hi j hj).2.1)
    have h3 : firstPair (rightBad H) ls = none := firstPair_eq_none.mpr (fun i hi j hj => (hp i hi j hj).2.2)
    simp [h0, h1, h2, h3]

/-- the pair named in the error message really trips the corresponding coded check -/
theorem C18.validate_reported_pair (H : Hier) (ls : List Link) (a b : Nat) :
    (validateLinks H ls = .double a b → ∃ i ∈ ls, ∃ j ∈ ls, i.uid = a ∧ j.uid = b ∧ doubleBad H i j = true) ∧
    (validateLinks H ls = .conflict a b → ∃ i ∈ ls, ∃ j ∈ ls, i.uid = a ∧ j.uid = b ∧ conflictBad H i j = true) ∧
    (validateLinks H ls = .rightJoin a b → ∃ i ∈ ls, ∃ j ∈ ls, i.uid = a ∧ j.uid = b ∧ rightBad H i j = true) := by
  unfold validateLinks
  refine ⟨?_, ?_, ?_⟩ <;> intro h <;> (repeat' split at h) <;> try (cases h; done)
  all_goals
    rename_i i j hf
    obtain ⟨hi, hj, hp⟩ := firstPair_some hf
    injection h with h1 h2
    exact ⟨i, hi, j, hj, h1, h2, hp⟩

/-- which check fires (or acceptance) as a function of the *set* only -/
theorem C18.validate_kind_eq (H : Hier) (ls : List Link) :
    (validateLinks H ls).kind =
      if ls.any (fun l => l.jt == .invalid) then 1
      else if ls.any (fun i => ls.any (fun j => doubleBad H i j)) then 2
      else if ls.any (fun i => ls.any (fun j => conflictBad H i j)) then 3
      else if ls.any (fun i => ls.any (fun j => rightBad H i j)) then 4 else 0 := by
  rw [← firstPair_isSome, ← firstPair_isSome, ← firstPair_isSome]
  have hfind : ls.any (fun l => l.jt == .invalid) = (ls.find? (fun l => l.jt == .invalid)).isSome := by
    induction ls with
    | nil => rfl
    | cons a as ih =>
      simp only [List.any_cons, List.find?_cons]
      cases h : (a.jt == JoinType.invalid) <;> simp [ih]
  rw [hfind]
  unfold validateLinks
  cases ls.find? (fun l => l.jt == .invalid) with
  | some l => simp [VOutcome.kind]
  | none =>
    cases firstPair (doubleBad H) ls with
    | some p => simp [VOutcome.kind]
    | none =>
      cases firstPair (conflictBad H) ls with
      | some p => simp [VOutcome.kind]
      | none =>
        cases firstPair (rightBad H) ls with
        | some p => simp [VOutcome.kind]
        | none => simp [VOutcome.kind]

/-- acceptance and the error class do not depend on the iteration order of the set (hashing) -/
theorem C18.validate_kind_perm (H : Hier) (ls ls' : List Link) (h : ls.Perm ls') :
    (validateLinks H ls).kind = (validateLinks H ls').kind := by
  rw [C18.validate_kind_eq, C18.validate_kind_eq, h.any_eq, anyPair_perm h, anyPair_perm (p := conflictBad H) h,
    anyPair_perm (p := rightBad H) h]
