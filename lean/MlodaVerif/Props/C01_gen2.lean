import MlodaVerif.Lemmas.GraphGen
/-! # C01 – the hand-written graph model `Model/Graph.lean` equals the translation of graph.py

`Gen/GraphGen.lean` is the translation (harness/pytrans.py + harness/extractors/pytrans_graph.py, every run) of the methods of
`Graph`: `add_node`, `add_edge`, `create_in_degree`, `dfs`, `iterate_nodes_and_edges`, `get_direct_parents_for_each_child`,
`set_direct_parents_for_each_child`, `get_all_parents_for_each_child`, `set_all_parents_for_each_child`,
`set_root_parents_by_direct_`.  The three recursive methods are translated with `fuel` = remaining Python frames
(`PyExc.recursion` = RecursionError); a `defaultdict` read inserts its key (`DDict.read`), so the translation touches the dicts
as it goes, while the model reads through the lookup function of the dict on entry and appends the touched keys afterwards -
the theorems show that this is the same.  `GraphGen.abs : GraphSelf → Graph.G` maps the Python values to the model state (keys of
`nodes` / `edges`, `visited` reversed); every theorem holds for EVERY Python state and every fuel.

One difference was found: the ORDER in which `set_all_parents_for_each_child` inserts the (root) keys it reads into
`parents_by_direct_` (`C01.gen2_set_all_key_order_differs_witness`); everything else is an equality. -/
open Graph PyRt Gen.GraphGen GraphGen

/-! ## building -/

/-- `add_node` is `Graph.addNode` -/
theorem C01.gen2_add_node (s : GraphSelf) (n p : Nat) : (add_node s n p).map abs = .ok (addNode (abs s) n) := by
  simp [add_node, addNode, abs, Except.map, pure, Except.pure, keys_set]

/-- `add_edge` is `Graph.addEdge` (the edge key, and `adjacency_list[parent].append(child)` on the defaultdict) -/
theorem C01.gen2_add_edge (s : GraphSelf) (p c e : Nat) : (add_edge s p c e).map abs = .ok (addEdge (abs s) p c) := by
  simp [add_edge, addEdge, abs, Except.map, pure, Except.pure, keys_aset, appendAt_eq]
  split <;> rename_i h <;> simp [h]

/-- `create_in_degree` is `Graph.createInDegree` (same dict, same key order) -/
theorem C01.gen2_create_in_degree (s : GraphSelf) : create_in_degree s = .ok (createInDegree (abs s).adj) :=
  create_in_degree_eq s

/-! ## `dfs`, `iterate_nodes_and_edges` -/

/-- **`dfs` is `Graph.dfs`, for every fuel**: RecursionError exactly when the model runs out of frames; otherwise the model
visited `new` (most recent first) and the Python object has these appended to `visited`, the model's queue, and the keys
`new` inserted into `adjacency_list` in visiting order.  `ch` is any function that agrees with the lookups of the dict. -/
theorem C01.gen2_dfs (ch : Nat → List Nat) (fuel : Nat) (s : GraphSelf) (node : Nat) (hch : ∀ k, dget s.adjacency_list k = ch k) :
    match Graph.dfs ch fuel node ⟨s.visited.reverse, s.queue⟩ with
    | none => Gen.GraphGen.dfs s node fuel = .error .recursion
    | some ds => ∃ new, ds.vis = new ++ s.visited.reverse ∧
        Gen.GraphGen.dfs s node fuel =
          .ok { s with visited := s.visited ++ new.reverse, queue := ds.queue, adjacency_list := touchAll s.adjacency_list new.reverse } :=
  dfs_bridge ch fuel s node hch

/-- **`iterate_nodes_and_edges` is `Graph.iterate`** (roots by in-degree, the queue, `visited`, the keys the DFS inserted) -/
theorem C01.gen2_iterate (s : GraphSelf) (fuel : Nat) :
    (iterate_nodes_and_edges s fuel).map abs = lift id (iterate fuel (abs s)) := by
  unfold iterate_nodes_and_edges iterate
  have hcid : create_in_degree { s with visited := [] } = .ok (createInDegree s.adjacency_list) := create_in_degree_eq _
  simp only [bind, Except.bind, pure, Except.pure, hcid]
  rw [PyRt.forIn_yield_spec (NDict.keys s.nodes) _ (fun node st => rootStepC node st)]
  · have hroots := rootsComp (createInDegree s.adjacency_list) (NDict.keys s.nodes) (createInDegree s.adjacency_list, []) (fun k => iget_eq _ k)
    simp only [List.nil_append] at hroots
    simp only [hroots]
    rw [LifeGen.forIn_foldlM _ _ _ (fun s r => Gen.GraphGen.dfs s r fuel)]
    · have hrel := rootsRel (dget s.adjacency_list) fuel ((NDict.keys s.nodes).filter (fun n => iget (createInDegree s.adjacency_list) n == 0))
        { s with visited := [], roots := (NDict.keys s.nodes).filter (fun n => iget (createInDegree s.adjacency_list) n == 0),
                 queue := (NDict.keys s.nodes).filter (fun n => iget (createInDegree s.adjacency_list) n == 0) } (fun _ => rfl)
      simp only [List.reverse_nil] at hrel
      have habs : (abs s).nodes = NDict.keys s.nodes := rfl
      have hadj : (abs s).adj = s.adjacency_list := rfl
      simp only [habs, hadj]
      cases hm : List.foldlM (fun ds r => Graph.dfs (dget s.adjacency_list) fuel r ds)
          { vis := [], queue := (NDict.keys s.nodes).filter (fun n => iget (createInDegree s.adjacency_list) n == 0) }
          ((NDict.keys s.nodes).filter (fun n => iget (createInDegree s.adjacency_list) n == 0)) with
      | none =>
        rw [hm] at hrel
        simp only [DfsRel] at hrel
        simp [hrel, Except.map, lift, toExc]
      | some ds =>
        rw [hm] at hrel
        obtain ⟨new, hnew, hr⟩ := hrel
        simp only [List.append_nil] at hnew
        simp only [hr, Except.map, lift, id, Except.ok.injEq]
        simp [abs, after, hnew]
        rfl
    · intro a st
      cases Gen.GraphGen.dfs st a fuel <;> rfl
  · intro a st
    unfold rootStepC
    split <;> rfl

/-! ## direct parents -/

/-- **`get_direct_parents_for_each_child` is `Graph.directGo`, for every fuel** (`tch`: what the model has recorded so far) -/
theorem C01.gen2_get_direct (ch : Nat → List Nat) (fuel : Nat) (s : GraphSelf) (parent : Nat) (children tch : List Nat)
    (hch : ∀ k, dget s.adjacency_list k = ch k) :
    match directGo ch fuel parent children ⟨s.parents_by_direct_, tch⟩ with
    | none => get_direct_parents_for_each_child s parent children fuel = .error .recursion
    | some ps => ∃ new, ps.tch = new ++ tch ∧
        get_direct_parents_for_each_child s parent children fuel =
          .ok { s with parents_by_direct_ := ps.pbd, adjacency_list := touchAll s.adjacency_list new.reverse } :=
  direct_bridge ch fuel s parent children tch hch

/-- **`set_direct_parents_for_each_child` is `Graph.setDirect`**, including the RuntimeError of the `for` over the defaultdict
that the recursion's reads have grown -/
theorem C01.gen2_set_direct (s : GraphSelf) (fuel : Nat) :
    (set_direct_parents_for_each_child s fuel).map abs = lift id (setDirect fuel (abs s)) := by
  unfold set_direct_parents_for_each_child setDirect
  simp only [bind, Except.bind, pure, Except.pure, throw, throwThe, MonadExceptOf.throw]
  rw [LifeGen.forIn_foldlM _ _ _ (setDirStep fuel s.adjacency_list.length)]
  · rw [setDirect_loop fuel s.adjacency_list s.adjacency_list s rfl]
    have h1 : (abs s).adj = s.adjacency_list := rfl
    have h2 : (abs s).pbd = s.parents_by_direct_ := rfl
    rw [h1, h2]
    cases setDirectLoop fuel s.adjacency_list s.adjacency_list s.parents_by_direct_ <;> rfl
  · intro a st
    simp only [setDirStep]
    cases get_direct_parents_for_each_child st a.1 a.2 fuel with
    | error e => rfl
    | ok v => simp only []; split <;> rfl

/-! ## all parents -/

/-- **`get_all_parents_for_each_child` is `Graph.allGo`, for every fuel**: the same set; `parents_by_direct_` afterwards is
the old dict with keys read, and the keys read are exactly the elements of the returned set -/
theorem C01.gen2_get_all (pb : Nat → List Nat) (c fuel : Nat) (s : GraphSelf) (ps : List Nat) (hpb : ∀ k, dget s.parents_by_direct_ k = pb k) :
    match allGo pb fuel ps with
    | none => get_all_parents_for_each_child s c ps fuel = .error .recursion
    | some res => ∃ tch, get_all_parents_for_each_child s c ps fuel =
          .ok (res, { s with parents_by_direct_ := touchAll s.parents_by_direct_ tch }) ∧ ∀ x, x ∈ tch ↔ x ∈ res :=
  all_bridge pb c fuel s ps hpb

/-- **`set_all_parents_for_each_child` is `Graph.setAll`** up to the order in which the keys read in `parents_by_direct_` are
inserted: same exception, the same `parent_to_children_mapping`, and `parents_by_direct_` is the old dict with the keys
`tch` read - the model inserts the same SET of keys (`T`) in another order (C01.gen2_set_all_key_order_differs_witness) -/
theorem C01.gen2_set_all (s : GraphSelf) (fuel : Nat) :
    match setAll fuel (abs s) with
    | .error e => set_all_parents_for_each_child s fuel = .error (toExc e)
    | .ok g' => ∃ tch T, set_all_parents_for_each_child s fuel = .ok (afterAll s tch g'.p2c) ∧
        g' = { abs s with p2c := g'.p2c, pbd := touchAll s.parents_by_direct_ T } ∧ ∀ x, x ∈ tch ↔ x ∈ T := by
  unfold set_all_parents_for_each_child setAll
  simp only [bind, Except.bind, pure, Except.pure]
  rw [LifeGen.forIn_foldlM _ _ _ (setAllStep fuel)]
  · have h := setAll_loop fuel (dget s.parents_by_direct_) s.parents_by_direct_ s [] (fun _ => rfl)
    have h1 : (abs s).pbd = s.parents_by_direct_ := rfl
    have h2 : (abs s).p2c = s.parent_to_children_mapping := rfl
    rw [h1, h2]
    cases hm : setAllLoop fuel (dget s.parents_by_direct_) s.parents_by_direct_ (s.parent_to_children_mapping, []) with
    | none =>
      rw [hm] at h
      simp only [h, toExc]
    | some r =>
      rw [hm] at h
      obtain ⟨tch, hr, hmem⟩ := h
      obtain ⟨p2c, T⟩ := r
      simp only [hr]
      refine ⟨tch, T, rfl, rfl, ?_⟩
      intro x; rw [hmem x]; simp
  · intro a st
    simp only [setAllStep]
    cases get_all_parents_for_each_child st a.1 a.2 fuel <;> rfl

/-- consequence: every lookup in `parents_by_direct_` and its SET of keys are the model's -/
theorem C01.gen2_set_all_lookups (s s' : GraphSelf) (g' : G) (fuel : Nat) (hm : setAll fuel (abs s) = .ok g')
    (hs : set_all_parents_for_each_child s fuel = .ok s') :
    (abs s').p2c = g'.p2c ∧ (∀ k, dget (abs s').pbd k = dget g'.pbd k) ∧ (∀ k, k ∈ dkeys (abs s').pbd ↔ k ∈ dkeys g'.pbd) := by
  have h := C01.gen2_set_all s fuel
  rw [hm] at h
  obtain ⟨tch, T, h1, h2, h3⟩ := h
  rw [hs] at h1
  cases h1
  rw [h2]
  refine ⟨rfl, fun k => ?_, fun k => ?_⟩
  · simp [abs, afterAll, dget_touchAll]
  · simp only [abs, afterAll, mem_dkeys_touchAll, h3 k]

/-- DIFFERENCE (key order only): child 1 has the direct parents {2, 4}, 2 has the parent 3; 3 and 4 are roots, so reading
them inserts them.  The code reads depth-first (2, 3, then 4): keys 1, 2, 3, 4.  The model inserts the returned set
`{2, 4, 3}` afterwards: keys 1, 2, 4, 3.  (`parents` is a Python set, so even the real order depends on its iteration order;
the model's documented residue: "keys of empty entries are compared as sets".) -/
theorem C01.gen2_set_all_key_order_differs_witness :
    (set_all_parents_for_each_child ⟨[], [], [], [], [], [], [(1, [2, 4]), (2, [3])], [], []⟩ 5).map (fun s => dkeys s.parents_by_direct_) =
      .ok [1, 2, 3, 4] ∧
    (setAll 5 { pbd := [(1, [2, 4]), (2, [3])] }).map (fun g => dkeys g.pbd) = .ok [1, 2, 4, 3] := by
  decide +kernel

/-! ## roots among the ancestors -/

/-- `set_root_parents_by_direct_` is `Graph.setRoots` -/
theorem C01.gen2_set_root_parents (s : GraphSelf) : (set_root_parents_by_direct_ s).map abs = .ok (setRoots (abs s)) := by
  unfold set_root_parents_by_direct_
  simp only [bind, Except.bind, pure, Except.pure]
  have inner : ∀ (child : Nat) (parents : List Nat) (r : GraphSelf),
      forIn parents r (fun parent r => (if PSet.has r.roots parent = true then
          Except.ok (ForInStep.yield { r with child_with_root := DDict.addAt r.child_with_root child parent })
        else Except.ok (ForInStep.yield r) : Except PyExc _)) = .ok (parents.foldl (fun s p => rootStep child p s) r) := by
    intro child parents r
    rw [PyRt.forIn_yield_spec parents _ (fun p s => rootStep child p s)]
    intro a s
    unfold rootStep
    split <;> rfl
  simp only [inner]
  rw [PyRt.forIn_yield_spec s.parent_to_children_mapping _ (fun (e : Nat × List Nat) s => e.2.foldl (fun s p => rootStep e.1 p s) s) (fun _ _ => rfl)]
  simp only [rootOuter, Except.map, setRoots, abs]

/-! ## the whole preparation -/

/-- **the whole preparation is `Graph.prepare`**: same exception; on success every field of the graph object is the model's,
`parents_by_direct_` up to the order of the keys inserted by reads (same lookups, same key set) -/
theorem C01.gen2_prepare (s : GraphSelf) (fuel : Nat) :
    match prepare fuel (abs s) with
    | .error e => preparePy s fuel = .error (toExc e)
    | .ok g' => ∃ s', preparePy s fuel = .ok s' ∧ { abs s' with pbd := g'.pbd } = g' ∧
        (∀ k, dget (abs s').pbd k = dget g'.pbd k) ∧ (∀ k, k ∈ dkeys (abs s').pbd ↔ k ∈ dkeys g'.pbd) := by
  unfold prepare preparePy
  have h1 := C01.gen2_iterate s fuel
  cases hm1 : iterate fuel (abs s) with
  | error e => rw [hm1] at h1; simp [map_abs_err h1, bind, Except.bind]
  | ok g1 =>
    rw [hm1] at h1
    obtain ⟨s1, hs1, ha1⟩ := map_abs_ok h1
    subst ha1
    simp only [hs1, bind, Except.bind]
    have h2 := C01.gen2_set_direct s1 fuel
    cases hm2 : setDirect fuel (abs s1) with
    | error e => rw [hm2] at h2; simp [map_abs_err h2]
    | ok g2 =>
      rw [hm2] at h2
      obtain ⟨s2, hs2, ha2⟩ := map_abs_ok h2
      subst ha2
      simp only [hs2]
      have h3 := C01.gen2_set_all s2 fuel
      cases hm3 : setAll fuel (abs s2) with
      | error e => rw [hm3] at h3; simp [h3]
      | ok g3 =>
        rw [hm3] at h3
        obtain ⟨tch, T, hs3, hg3, hmem⟩ := h3
        simp only [hs3]
        have h4 := C01.gen2_set_root_parents (afterAll s2 tch g3.p2c)
        cases hr : set_root_parents_by_direct_ (afterAll s2 tch g3.p2c) with
        | error e => rw [hr] at h4; simp [Except.map] at h4
        | ok s4 =>
          rw [hr] at h4
          simp only [Except.map, Except.ok.injEq] at h4
          refine ⟨s4, rfl, ?_, ?_, ?_⟩
          · rw [h4, hg3]; simp [setRoots, abs, afterAll]
          · intro k; rw [h4, hg3]; simp [setRoots, abs, afterAll, dget_touchAll]
          · intro k; rw [h4, hg3]; simp only [setRoots, abs, afterAll, mem_dkeys_touchAll, hmem k]

/-! ## non-vacuity: closed runs of the translation -/

open LifeGen in
example : ((do let s ← add_node ⟨[], [], [], [], [], [], [], [], []⟩ 1 0; let s ← add_node s 2 0; let s ← add_edge s 1 2 0
               iterate_nodes_and_edges s 10) : Except PyExc GraphSelf).map (fun (s : GraphSelf) => (s.roots, s.queue, s.visited, s.adjacency_list)) =
    .ok ([1], [1, 2], [1, 2], [(1, [2]), (2, [])]) := by decide +kernel

open LifeGen in
example : (Gen.GraphGen.dfs ⟨[], [], [(1, [2]), (2, [1])], [], [1], [], [], [], []⟩ 1 1).map (fun (s : GraphSelf) => s.queue) = .error .recursion := by decide +kernel
