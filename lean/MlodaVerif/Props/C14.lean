import MlodaVerif.Lemmas.Transform
/-! # C14 - moving data between compute frameworks preserves it

Model: `Model/Transform.lean`.  What Lean proves is the part of the property that is mloda's own logic: the registry
built by `add`, the chain returned by `get_transformation_chain`, the orientation chosen by `identify_orientation`, the
application loop of `TransformFrameworkStep.transform`, `ComputeFramework.transform`, `upload_table` and
`convert_flyserver_data_back` - for ANY registry satisfying the registration invariant (`RegInv`), any data-framework
types and any hop semantics.

What Lean does NOT prove: that the installed hops (`pa.Table.from_pandas`, `Table.to_pandas`, `Table.from_pylist`,
`Table.to_pylist`) preserve values.  That is the hypothesis `HopPreserves sem` - an assumption about pandas / pyarrow,
checked only by the harness (which evaluates the very relation `≈ₜ` defined here on the real outputs, and an
independent oracle).  `chain_preserves` etc. say: IF every hop preserves up to `≈ₜ` THEN so does every direct, chained,
round-trip and flight transformation, because mloda's glue only composes hops.

`decide` is used for the finite `Gen/Transformers` registry (whole table) and for closed witnesses.
-/
open Transform

/-- `≈ₜ` (null ≡ NaN; a nullable integer column ≈ its exact float widening; everything else literal) is an equivalence -/
theorem C14.approx_equiv :
    (∀ a : Table, a ≈ₜ a) ∧ (∀ a b : Table, a ≈ₜ b → b ≈ₜ a) ∧ (∀ a b c : Table, a ≈ₜ b → b ≈ₜ c → a ≈ₜ c) :=
  ⟨approx_refl, fun _ _ => approx_symm, fun _ _ _ => approx_trans⟩

/-- `≈ₜ` keeps what the property lists literally: column names in order, and the number of rows of every column -/
theorem C14.approx_names_rows (a b : Table) (h : a ≈ₜ b) :
    a.map Col.name = b.map Col.name ∧ a.map (fun c => c.cells.length) = b.map (fun c => c.cells.length) := by
  have hn : ∀ t : Table, (normTable t).map Col.name = t.map Col.name := by
    intro t; simp [normTable, normCol, List.map_map, Function.comp_def]
  have hl : ∀ t : Table, (normTable t).map (fun c => c.cells.length) = t.map (fun c => c.cells.length) := by
    intro t; simp [normTable, normCol, List.map_map, Function.comp_def]
  unfold Approx at h
  exact ⟨by rw [← hn a, ← hn b, h], by rw [← hl a, ← hl b, h]⟩

/-- closed witnesses of what `≈ₜ` tolerates and what it does not (finite, `decide`):
null ≈ NaN; nullable int column ≈ its float widening; but -0.0 ≉ 0.0, a non-nullable int column ≉ its float version,
an inexact widening (2^53+1 -> 2^53) is not tolerated, row order and column order matter, "" ≉ null, a zero-row table
that lost its columns or a table that gained an index column is not ≈ the original (the outputs of the recorded
findings are rejected by the relation). -/
theorem C14.approx_witnesses :
    ([⟨"x", [.flt 1, .null]⟩] ≈ₜ [⟨"x", [.flt 1, .nan]⟩]) ∧
    ([⟨"x", [.int 1, .null]⟩] ≈ₜ [⟨"x", [.flt 1, .nan]⟩]) ∧
    ¬ ([⟨"x", [.negZero]⟩] ≈ₜ [⟨"x", [.flt 0]⟩]) ∧
    ¬ ([⟨"x", [.int 1, .int 2]⟩] ≈ₜ [⟨"x", [.flt 1, .flt 2]⟩]) ∧
    ¬ ([⟨"x", [.int 9007199254740993, .null]⟩] ≈ₜ [⟨"x", [.flt 9007199254740992, .nan]⟩]) ∧
    ¬ ([⟨"x", [.int 1, .int 2]⟩] ≈ₜ [⟨"x", [.int 2, .int 1]⟩]) ∧
    ¬ ([⟨"x", [.int 1]⟩, ⟨"y", [.int 2]⟩] ≈ₜ [⟨"y", [.int 2]⟩, ⟨"x", [.int 1]⟩]) ∧
    ¬ ([⟨"x", [.str ""]⟩] ≈ₜ [⟨"x", [.null]⟩]) ∧
    ¬ ([⟨"x", []⟩] ≈ₜ ([] : Table)) ∧
    ¬ ([⟨"k", [.int 5]⟩] ≈ₜ [⟨"k", [.int 5]⟩, ⟨"__index_level_0__", [.int 10]⟩]) := by decide +kernel

/-- The registration invariant - every entry's transformer connects exactly the two distinct types of its key - holds
for every registry that `initilize_transformer` can build, whatever classes are discovered and in whatever order of the
subclass set (only transformers between two distinct types are assumed). -/
theorem C14.registry_inv {F : Type} [DecidableEq F] (ts : List (Tr F × Bool)) (reg : Registry F)
    (hne : ∀ p ∈ ts, p.1.fw ≠ p.1.other) (h : initRegistry ts [] = .ok reg) : RegInv reg :=
  initRegistry_inv ts [] reg (by intro e he; cases he) hne h

/-- `identify_orientation` is right: for a transformer connecting `a` and `b` it answers with the direction whose source
is `a` and whose target is `b` -/
theorem C14.orientation_correct {F : Type} [DecidableEq F] (t : Tr F) (a b : F) (hc : Connects t a b) :
    ∃ dir, identifyOrientation t a b = .ok (some dir) ∧ t.src dir = a ∧ t.dst dir = b := by
  obtain ⟨hne, h | h⟩ := hc
  · exact ⟨.left, by simp [identifyOrientation, hne, h.1, h.2], h.1, h.2⟩
  · have hne' : ¬ (b = a) := fun e => hne e.symm
    exact ⟨.right, by simp [identifyOrientation, hne, hne', h.1, h.2], h.2, h.1⟩

/-- ... and it answers `None` exactly when one of the two types does not belong to the transformer -/
theorem C14.orientation_none {F : Type} [DecidableEq F] (t : Tr F) (a b : F) (hne : a ≠ b) :
    identifyOrientation t a b = .ok none ↔ ¬ ((a = t.fw ∨ a = t.other) ∧ (b = t.fw ∨ b = t.other)) := by
  unfold identifyOrientation
  simp only [hne, if_false]
  constructor
  · intro h hb
    simp only [hb, and_self, if_true] at h
    split at h
    · cases h
    · split at h <;> cases h
  · intro h; simp [h]

/-- chain_well_typed.  For any registry with the registration invariant, any two types and a value of the source type:
`TransformFrameworkStep.transform` either finds no path (and raises KeyError), or applies every hop of the returned
chain to a value of that hop's source type in the matching orientation (no `illTyped`, no orientation error, no unbound
intermediate target) and the result has the target type; the only other possible failure is the library call itself. -/
theorem C14.chain_well_typed {F : Type} [DecidableEq F] (reg : Registry F) (hinv : RegInv reg) (pa : Option F)
    (sem : Sem F) (hnn : NoNone sem) (fromT toT : F) (d : Data F) (hd : d.ty = fromT) :
    (getTransformationChain reg pa fromT toT = none ∧ fromT ≠ toT ∧
        tfsTransform reg pa sem fromT toT (some d) = .error .noPath) ∨
    (∃ d', tfsTransform reg pa sem fromT toT (some d) = .ok (some d') ∧ d'.ty = toT) ∨
    (∃ m, tfsTransform reg pa sem fromT toT (some d) = .error (.hop m)) := by
  rcases tfsTransform_typed hinv pa hnn fromT toT d hd with h | h
  · left; exact h
  · right
    generalize tfsTransform reg pa sem fromT toT (some d) = r at h
    match r, h with
    | .ok (some d'), h => left; exact ⟨d', rfl, h⟩
    | .error (.hop m), _ => right; exact ⟨m, rfl⟩

/-- a returned chain is a path: it composes from the source to the target type through registered entries -/
theorem C14.chain_is_path {F : Type} [DecidableEq F] (reg : Registry F) (hinv : RegInv reg) (pa : Option F)
    (fromT toT : F) (chain : List (Tr F)) (h : getTransformationChain reg pa fromT toT = some chain) :
    IsPath reg chain fromT toT ∧ (chain.length = 1 ∨ chain.length = 2) := by
  refine ⟨chain_isPath hinv h, ?_⟩
  unfold getTransformationChain at h
  split at h
  · simp at h; subst h; simp
  · split at h
    · cases h
    · split at h
      · simp at h; subst h; simp
      · cases h

/-- chain_preserves.  IF every hop preserves tables up to `≈ₜ` (assumption about pandas/pyarrow) THEN every direct or
chained transformation does - by induction over the chain; no hypothesis on the registry is needed. -/
theorem C14.chain_preserves {F : Type} [DecidableEq F] (reg : Registry F) (pa : Option F) (sem : Sem F)
    (hp : HopPreserves sem) (fromT toT : F) (d d' : Data F)
    (h : tfsTransform reg pa sem fromT toT (some d) = .ok (some d')) : d'.tbl ≈ₜ d.tbl :=
  tfsTransform_preserves pa hp fromT toT d d' h

/-- ... for chains of any length (the loop itself, any chain, any registry) -/
theorem C14.loop_preserves {F : Type} [DecidableEq F] (reg : Registry F) (sem : Sem F) (hp : HopPreserves sem) (toT : F)
    (chain : List (Tr F)) (cur : F) (stale : Option F) (d d' : Data F)
    (h : tfsLoop reg sem toT chain cur stale (some d) = .ok (some d')) : d'.tbl ≈ₜ d.tbl :=
  Transform.loop_preserves hp toT chain cur stale d d' h

/-- `transformer_map`'s iteration order follows the iteration order of a *set* of classes and differs between processes;
`TransformFrameworkStep.transform` iterates the dict to find the intermediate type.  The result does not depend on that
order: two registries with the same content (equal lookups) give the same outcome. -/
theorem C14.order_independent {F : Type} [DecidableEq F] (reg1 reg2 : Registry F) (h1 : RegInv reg1) (h2 : RegInv reg2)
    (hl : ∀ k, lookup reg1 k = lookup reg2 k) (pa : Option F) (sem : Sem F) (fromT toT : F) (d : Option (Data F)) :
    tfsTransform reg1 pa sem fromT toT d = tfsTransform reg2 pa sem fromT toT d :=
  tfsTransform_order_independent h1 h2 hl pa sem fromT toT d

/-- round trips: there and back again gives a table ≈ the original, of the original type -/
theorem C14.roundtrip_preserves {F : Type} [DecidableEq F] (reg : Registry F) (hinv : RegInv reg) (pa : Option F)
    (sem : Sem F) (hp : HopPreserves sem) (hnn : NoNone sem) (a b : F) (d d1 d2 : Data F) (hd : d.ty = a)
    (h1 : tfsTransform reg pa sem a b (some d) = .ok (some d1))
    (h2 : tfsTransform reg pa sem b a (some d1) = .ok (some d2)) : d2.tbl ≈ₜ d.tbl ∧ d2.ty = a := by
  refine ⟨approx_trans (tfsTransform_preserves pa hp b a d1 d2 h2) (tfsTransform_preserves pa hp a b d d1 h1), ?_⟩
  have t1 : d1.ty = b := by
    rcases tfsTransform_typed hinv pa hnn a b d hd with ⟨_, _, h⟩ | h
    · rw [h1] at h; cases h
    · rw [h1] at h; exact h
  rcases tfsTransform_typed hinv pa hnn b a d1 t1 with ⟨_, _, h⟩ | h
  · rw [h2] at h; cases h
  · rw [h2] at h; exact h

/-- `ComputeFramework.transform` (direct transformer only; unchanged data when none is registered) -/
theorem C14.cfw_transform {F : Type} [DecidableEq F] (reg : Registry F) (hinv : RegInv reg) (sem : Sem F)
    (hp : HopPreserves sem) (hnn : NoNone sem) (expected : F) (d d' : Data F)
    (h : cfwTransform reg sem expected d = .ok d') :
    d'.tbl ≈ₜ d.tbl ∧ ((lookup reg (d.ty, expected)).isSome → d'.ty = expected) := by
  refine ⟨cfwTransform_preserves hp expected d d' h, ?_⟩
  intro hs
  obtain ⟨t, ht⟩ := Option.isSome_iff_exists.mp hs
  rcases cfwTransform_typed hinv hnn expected d ht with ⟨m, hm⟩ | ⟨d'', h', hty⟩
  · rw [h] at hm; cases hm
  · rw [h] at h'; cases h'; exact hty

/-- flight upload + `convert_flyserver_data_back`: ≈ the original; and of the framework's own type when that type is
`pa.Table` or registered against it -/
theorem C14.flight_roundtrip {F : Type} [DecidableEq F] (reg : Registry F) (hinv : RegInv reg) (sem : Sem F)
    (hp : HopPreserves sem) (hnn : NoNone sem) (pa expected : F) (d d' : Data F) (hd : d.ty = expected)
    (hreg : expected = pa ∨ ((lookup reg (expected, pa)).isSome ∧ (lookup reg (pa, expected)).isSome))
    (h : flightRoundTrip reg sem pa expected d = .ok (some d')) : d'.tbl ≈ₜ d.tbl ∧ d'.ty = expected := by
  refine ⟨flightRoundTrip_preserves hp pa expected d d' h, ?_⟩
  have := flightRoundTrip_typed hinv hnn pa expected d hd hreg
  rw [h] at this; exact this

/-- As coded, `TransformFrameworkStep.execute` with a flight location hands the *downloaded Arrow table* to
`transform` although `transform` starts from the producer's own data type.  Full statement (false):
  `∀ from to, from ≠ to → WellTyped to (tfsExecuteFlight reg sem pa from to d)`.
Partial: it is the plain transformation when the producer's type is `pa.Table` itself. -/
theorem C14.tfs_flight_partial {F : Type} [DecidableEq F] (reg : Registry F) (sem : Sem F) (pa toT : F) (d : Data F)
    (hd : d.ty = pa) : tfsExecuteFlight reg sem pa pa toT d = tfsTransform reg (some pa) sem pa toT (some d) := by
  simp [tfsExecuteFlight, uploadTable, hd]

/-! ### the installed registry (`Gen/Transformers`, finite: `decide` is complete) -/

/-- the installed registry satisfies the registration invariant -/
theorem C14.gen_registry_inv : RegInv Installed.reg := by decide

/-- ... and is exactly what `add` builds from the registered classes -/
theorem C14.gen_registry_built :
    ∃ r, initRegistry (Installed.trs.map (fun t => (t, true))) [] = .ok r ∧
      ∀ a ∈ Gen.Fw.all, ∀ b ∈ Gen.Fw.all, lookup r (a, b) = lookup Installed.reg (a, b) := by
  refine ⟨_, rfl, ?_⟩
  decide

/-- every ordered pair of distinct installed frameworks has a chain: one hop if `pa.Table` is an end, two otherwise -/
theorem C14.gen_all_pairs_connected :
    ∀ a ∈ Installed.fws, ∀ b ∈ Installed.fws, a ≠ b →
      ∃ c, getTransformationChain Installed.reg (some Gen.paTable) a b = some c ∧
        c.length = (if a = Gen.paTable ∨ b = Gen.paTable then 1 else 2) := by decide

/-- negation witness for the full statement above: in the installed registry, with perfect hops, a flight-mode
transform step whose producer is not on Arrow applies its first hop to an Arrow table - for *every* such pair -/
theorem C14.tfs_flight_witness :
    ∀ a ∈ Installed.fws, ∀ b ∈ Installed.fws, a ≠ b →
      (failsWith (tfsExecuteFlight Installed.reg Installed.idSem Gen.paTable a b ⟨a, []⟩) .illTyped = true ↔ a ≠ Gen.paTable) := by
  decide

/-! ### non-vacuity (tests on literals) -/

/-- a two-hop chain in the installed registry, applied by the loop with identity hops: result has the target type -/
example :
    ∃ a ∈ Installed.fws, ∃ b ∈ Installed.fws, a ≠ b ∧ a ≠ Gen.paTable ∧ b ≠ Gen.paTable ∧
      (tfsTransform Installed.reg (some Gen.paTable) Installed.idSem a b (some ⟨a, [⟨"x", [.int 1, .null]⟩]⟩)).toOption.map
        (fun o => o.map (fun d => (d.ty == b, d.tbl))) = some (some (true, [⟨"x", [.int 1, .null]⟩])) := by
  decide

/-- `HopPreserves` and `NoNone` are satisfiable -/
example : HopPreserves Installed.idSem ∧ NoNone Installed.idSem := by
  constructor
  · intro t dir tb tb' h; simp [Installed.idSem] at h; subst h; exact approx_refl _
  · intro t dir tb h; simp [Installed.idSem] at h

/-- ... and a pandas-like hop (ints of a nullable column widened to floats, null -> NaN) preserves this table up to `≈ₜ`
although it changes every cell -/
example : ([⟨"k", [.flt 3, .nan, .flt (-7)]⟩] : Table) ≈ₜ [⟨"k", [.int 3, .null, .int (-7)]⟩] := by decide +kernel
