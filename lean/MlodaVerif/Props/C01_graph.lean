import MlodaVerif.Lemmas.GraphPlan
import MlodaVerif.Props.C01
import MlodaVerif.Props.C04
/-! # C01 (extension `graph`) - the dependency-graph closure behind the ancestor sets of C01 / C04

`Props/C01` and `Props/C04` take the ancestor function `anc` (= `Graph.parent_to_children_mapping`) as a parameter with
hypotheses (direct parents covered, closed, acyclic).  Here the code that computes it - `mloda/core/prepare/graph/graph.py`,
model `Model/Graph.lean` - is the object: for every sequence of `add_node` / `add_edge` calls (every graph; hypotheses are
stated where needed) the fields computed by `iterate_nodes_and_edges` and the three `set_*` passes are characterised, and the
hypotheses of the planner-core theorems are discharged for `anc := allParents` of a graph prepared by the modelled code.

`Reach ch a c` = there is a non-empty edge path `a → … → c`.  `prepare fuel g` = what the engine does to the graph before
planning; `fuel` = available Python frames, `Err.recursion` = `RecursionError`, `Err.dictChanged` = `RuntimeError: dictionary
changed size during iteration`. -/
open Sched Graph

/-! ### when the preparation succeeds -/

/-- enough frames: on an acyclic graph all of whose edge endpoints were added as nodes, `|nodes| + 1` frames are enough for
`dfs`, `get_direct_parents_for_each_child` and `get_all_parents_for_each_child`, and the `for` loop over the growing
defaultdict never raises (every child became a key during the DFS) -/
theorem C01.graph_fuel_bound_suffices (g : G) (hw : WF g) (hc : Closed g) (hf : Fresh g) (hac : Acyclic (children g))
    (fuel : Nat) (hfuel : fuelBound g ≤ fuel) : ∃ g', prepare fuel g = .ok g' :=
  prepare_total hw hc hf hac hfuel

/-- ... in particular for every graph made by `BuildGraph.build_graph_from_feature_links` from an acyclic parent relation -/
theorem C01.graph_buildGraph_prepares (flp : List (Nat × List Nat)) (hac : Acyclic (children (buildGraph flp)))
    (fuel : Nat) (hfuel : fuelBound (buildGraph flp) ≤ fuel) : ∃ g', prepare fuel (buildGraph flp) = .ok g' :=
  prepare_total (wf_build _) (closed_buildGraph flp) (fresh_build _) hac hfuel

/-- a graph with a cycle is never prepared, whatever the number of frames: the direct-parent recursion has no visited set
(the real code raises RecursionError; if another key touches a missing key first, RuntimeError) -/
theorem C01.graph_cycle_never_prepared (g : G) (hw : WF g) (v : Nat) (hcyc : Reach (children g) v v) (fuel : Nat) :
    ∃ e, prepare fuel g = .error e :=
  prepare_cycle hw hcyc

/-- hence a prepared graph is acyclic: acyclicity is not an assumption of the theorems below, it follows from success -/
theorem C01.graph_prepared_is_acyclic (g g' : G) (hw : WF g) (fuel : Nat) (h : prepare fuel g = .ok g') :
    Acyclic (children g) := by
  intro v hv
  obtain ⟨e, he⟩ := prepare_cycle (fuel := fuel) hw hv
  rw [h] at he; cases he

/-- closed witness: root 0 → 1 → 2 → 1; fifty frames are exhausted in `set_direct_parents_for_each_child`
(replayed on the real code: RecursionError at the same call) -/
theorem C01.graph_cycle_exhausts_fuel_witness :
    let g := build [.node 0, .node 1, .node 2, .edge 0 1, .edge 1 2, .edge 2 1]
    (iterate 50 g).toOption.map (·.queue) = some [0, 1, 2] ∧
      ((iterate 50 g).toOption.map (setDirect 50)) = some (.error .recursion) ∧ prepare 50 g = .error .recursion := by
  dsimp only
  decide +kernel

/-- closed witness of the other failure: `set_direct_parents_for_each_child` before `iterate_nodes_and_edges` reads
`adjacency_list[1]` while iterating over the dict (replayed on the real code: RuntimeError) -/
theorem C01.graph_dict_changed_witness :
    setDirect 10 (build [.node 0, .node 1, .edge 0 1]) = .error .dictChanged := by
  decide +kernel

/-! ### direct parents, all parents -/

/-- `parents_by_direct_[c]` is exactly the set of `p` with an edge `(p, c)` - for every graph on which the passes return -/
theorem C01.graph_direct_parents_exact (g g' : G) (hw : WF g) (hf : Fresh g) (fuel : Nat) (h : prepare fuel g = .ok g')
    (c p : Nat) : p ∈ directParents g' c ↔ c ∈ children g p :=
  (prepare_spec hw hf h).direct c p

/-- ... stated on the calls: `p ∈ parents_by_direct_[c]` iff `add_edge(p, c)` was called -/
theorem C01.graph_direct_parents_are_edges (ops : List Op) (g' : G) (fuel : Nat) (h : prepare fuel (build ops) = .ok g')
    (c p : Nat) : p ∈ directParents g' c ↔ Op.edge p c ∈ ops := by
  rw [C01.graph_direct_parents_exact _ g' (wf_build ops) (fresh_build ops) fuel h, mem_children_build]

/-- `parent_to_children_mapping[c]` is exactly the set of `a` with a non-empty edge path `a → … → c`: the transitive closure -/
theorem C01.graph_all_parents_is_closure (g g' : G) (hw : WF g) (hf : Fresh g) (fuel : Nat) (h : prepare fuel g = .ok g')
    (c a : Nat) : a ∈ allParents g' c ↔ Reach (children g) a c :=
  (prepare_spec hw hf h).all c a

/-- no uuid is its own ancestor -/
theorem C01.graph_acyclic_no_self_ancestor (g g' : G) (hw : WF g) (hf : Fresh g) (fuel : Nat) (h : prepare fuel g = .ok g')
    (u : Nat) : u ∉ allParents g' u := by
  intro hu
  exact C01.graph_prepared_is_acyclic g g' hw fuel h u ((C01.graph_all_parents_is_closure g g' hw hf fuel h u u).mp hu)

/-- hypothesis `hpar` of `C04.planCore_parentsCovered`: the ancestor set contains the direct parents -/
theorem C01.graph_all_parents_covers_direct (g g' : G) (hw : WF g) (hf : Fresh g) (fuel : Nat) (h : prepare fuel g = .ok g') :
    ∀ f, ∀ a ∈ directParents g' f, a ∈ allParents g' f := by
  intro f a ha
  rw [C01.graph_all_parents_is_closure g g' hw hf fuel h]
  exact .edge ((C01.graph_direct_parents_exact g g' hw hf fuel h f a).mp ha)

/-- the ancestor sets are transitively closed, and (hypothesis `hcl` of the planner-core theorems) on a graph whose edge
endpoints are nodes every ancestor is in the queue, i.e. is planned -/
theorem C01.graph_all_parents_closed (g g' : G) (hw : WF g) (hf : Fresh g) (fuel : Nat) (h : prepare fuel g = .ok g') :
    (∀ a b c, a ∈ allParents g' b → b ∈ allParents g' c → a ∈ allParents g' c) ∧
    (Closed g → ∀ f a, a ∈ allParents g' f → a ∈ g'.queue ∧ f ∈ g'.queue) := by
  have P := prepare_spec hw hf h
  have hac := C01.graph_prepared_is_acyclic g g' hw fuel h
  refine ⟨?_, ?_⟩
  · intro a b c hab hbc
    rw [C01.graph_all_parents_is_closure g g' hw hf fuel h] at hab hbc ⊢
    exact hab.trans hbc
  · intro hc f a ha
    obtain ⟨g1, hi, _, hq, _, _⟩ := P.iter
    have hreach := (P.all f a).mp ha
    have hqa := iterated_queue_all hc hac hi
    rw [hq]
    obtain ⟨c, hca, _⟩ := hreach.first
    obtain ⟨p, hp, _⟩ := hreach.last
    exact ⟨(hqa a).mpr (hc.keys a (mem_dkeys_of_mem_dget hca)), (hqa f).mpr (hc.kids p f hp)⟩

/-- hypothesis `hacyc` of `C04.planCore_wellRanked_partial`: the number of ancestors is a rank that strictly decreases
from a uuid to each of its ancestors -/
theorem C01.graph_rank (g g' : G) (hw : WF g) (hf : Fresh g) (fuel : Nat) (h : prepare fuel g = .ok g') (u a : Nat)
    (ha : a ∈ allParents g' u) : (allParents g' a).length < (allParents g' u).length := by
  have P := prepare_spec hw hf h
  have hself := C01.graph_acyclic_no_self_ancestor g g' hw hf fuel h a
  have htr := (C01.graph_all_parents_closed g g' hw hf fuel h).1
  have := nodup_subset_length_le (a :: allParents g' a) (allParents g' u)
    (List.nodup_cons.mpr ⟨hself, P.allNodup a⟩)
    (by intro x hx
        rcases List.mem_cons.mp hx with rfl | hx
        · exact ha
        · exact htr x a u hx ha)
  simp only [List.length_cons] at this
  omega

/-- permuting the order of the `add_node` / `add_edge` calls does not change `parent_to_children_mapping` (as sets) -/
theorem C01.graph_order_independent (ops1 ops2 : List Op) (hperm : ops1.Perm ops2) (g1 g2 : G) (f1 f2 : Nat)
    (h1 : prepare f1 (build ops1) = .ok g1) (h2 : prepare f2 (build ops2) = .ok g2) (c a : Nat) :
    a ∈ allParents g1 c ↔ a ∈ allParents g2 c := by
  rw [C01.graph_all_parents_is_closure _ g1 (wf_build ops1) (fresh_build ops1) f1 h1,
      C01.graph_all_parents_is_closure _ g2 (wf_build ops2) (fresh_build ops2) f2 h2]
  have hsub : ∀ (o1 o2 : List Op), o1.Perm o2 → ∀ x y, y ∈ children (build o1) x → y ∈ children (build o2) x := by
    intro o1 o2 hp x y hy
    rw [mem_children_build] at hy ⊢
    exact hp.mem_iff.mp hy
  exact ⟨Reach.mono (hsub ops1 ops2 hperm), Reach.mono (hsub ops2 ops1 hperm.symm)⟩

/-- ... and neither does it change whether the graph is prepared: the frame bound is the same for both orders -/
theorem C01.graph_order_independent_success (ops1 ops2 : List Op) (hperm : ops1.Perm ops2) (hc : Closed (build ops1))
    (hac : Acyclic (children (build ops1))) (fuel : Nat) (hfuel : fuelBound (build ops1) ≤ fuel) :
    (∃ g1, prepare fuel (build ops1) = .ok g1) ∧ (∃ g2, prepare fuel (build ops2) = .ok g2) := by
  refine ⟨prepare_total (wf_build _) hc (fresh_build _) hac hfuel, ?_⟩
  have hmemn : ∀ n, n ∈ (build ops2).nodes ↔ n ∈ (build ops1).nodes := by
    intro n; rw [mem_nodes_build, mem_nodes_build]; exact hperm.symm.mem_iff
  have hmemc : ∀ x y, y ∈ children (build ops2) x ↔ y ∈ children (build ops1) x := by
    intro x y; rw [mem_children_build, mem_children_build]; exact hperm.symm.mem_iff
  have hc2 : Closed (build ops2) := by
    apply closed_build
    intro p c he
    have he1 : Op.edge p c ∈ ops1 := hperm.symm.mem_iff.mp he
    have hpc : c ∈ children (build ops1) p := (mem_children_build ops1 p c).mpr he1
    have hp1 := hc.keys p (mem_dkeys_of_mem_dget hpc)
    have hc1 := hc.kids p c hpc
    rw [mem_nodes_build] at hp1 hc1
    exact ⟨hperm.mem_iff.mp hp1, hperm.mem_iff.mp hc1⟩
  have hac2 : Acyclic (children (build ops2)) := fun v hv => hac v (hv.mono (fun x y h => (hmemc x y).mp h))
  have hlen : (build ops2).nodes.length ≤ (build ops1).nodes.length :=
    nodup_subset_length_le _ _ (wf_build ops2).nodes (fun x hx => (hmemn x).mp hx)
  exact prepare_total (wf_build _) hc2 (fresh_build _) hac2 (by unfold fuelBound at hfuel ⊢; omega)

/-! ### roots and the queue -/

/-- the roots are the nodes without an incoming edge, in node order -/
theorem C01.graph_roots_exact (g g' : G) (hw : WF g) (hf : Fresh g) (fuel : Nat) (h : prepare fuel g = .ok g') (r : Nat) :
    r ∈ g'.roots ↔ r ∈ g.nodes ∧ ∀ p, r ∉ children g p := by
  obtain ⟨g1, hi, hr, _⟩ := (prepare_spec hw hf h).iter
  rw [hr]; exact hi.rootsIff r

/-- no uuid is queued twice - on every graph, cyclic ones included (only `iterate_nodes_and_edges` has to return) -/
theorem C01.graph_queue_nodup (g g1 : G) (hw : WF g) (fuel : Nat) (h : iterate fuel g = .ok g1) : g1.queue.Nodup :=
  (iterate_spec hw h).queueNodup

/-- the queue starts with the roots and holds exactly the roots and the uuids reachable from a root, each once -/
theorem C01.graph_queue_exactly_reachable (g g1 : G) (hw : WF g) (fuel : Nat) (h : iterate fuel g = .ok g1) :
    (∃ rest, g1.queue = g1.roots ++ rest) ∧
    (∀ x, x ∈ g1.queue ↔ x ∈ g1.roots ∨ ∃ r ∈ g1.roots, Reach (children g) r x) ∧
    (∀ x, g1.queue.count x ≤ 1) := by
  have hi := iterate_spec hw h
  exact ⟨hi.queuePrefix, hi.queueIff, fun x => List.nodup_iff_count.mp hi.queueNodup x⟩

/-- the DFS never runs out of frames on a graph whose edge endpoints are nodes - cycles included (it has a visited set) -/
theorem C01.graph_iterate_total (g : G) (hw : WF g) (hc : Closed g) (fuel : Nat) (hfuel : fuelBound g ≤ fuel) :
    ∃ g1, iterate fuel g = .ok g1 :=
  iterate_total hw hc hfuel

/-- on an acyclic graph whose edge endpoints are nodes the queue is the node set: every feature is planned -/
theorem C01.graph_queue_all_nodes (g g' : G) (hw : WF g) (hc : Closed g) (hf : Fresh g) (fuel : Nat)
    (h : prepare fuel g = .ok g') (x : Nat) : x ∈ g'.queue ↔ x ∈ g.nodes := by
  obtain ⟨g1, hi, _, hq, _⟩ := (prepare_spec hw hf h).iter
  rw [hq]
  exact iterated_queue_all hc (C01.graph_prepared_is_acyclic g g' hw fuel h) hi x

/-- the queue is NOT a topological order (diamond 0 → {1, 2} → 3: the DFS queues 3 before its parent 2): running a step only
after its inputs is the orchestrator's job (`required_uuids`), not the queue's -/
theorem C01.graph_queue_not_topological_witness :
    let g := buildGraph [(3, [1, 2]), (1, [0]), (2, [0]), (0, [])]
    (prepare (fuelBound g) g).toOption.map (fun g' => (g'.queue, allParents g' 3)) = some ([0, 1, 3, 2], [1, 2, 0]) := by
  dsimp only
  decide +kernel

/-! ### roots among the ancestors -/

/-- `child_with_root[c]` = the roots among the ancestors of `c` -/
theorem C01.graph_child_with_root (g g' : G) (hw : WF g) (hf : Fresh g) (fuel : Nat) (h : prepare fuel g = .ok g') (c r : Nat) :
    r ∈ dget g'.cwr c ↔ r ∈ g'.roots ∧ r ∈ allParents g' c := by
  have P := prepare_spec hw hf h
  rw [P.root, C01.graph_all_parents_is_closure g g' hw hf fuel h]
  exact Iff.rfl

/-- every non-root node of a graph whose edge endpoints are nodes has at least one root ancestor -/
theorem C01.graph_child_has_root (g g' : G) (hw : WF g) (hc : Closed g) (hf : Fresh g) (fuel : Nat)
    (h : prepare fuel g = .ok g') (c : Nat) (hcn : c ∈ g.nodes) (hnr : c ∉ g'.roots) : ∃ r, r ∈ dget g'.cwr c := by
  have P := prepare_spec hw hf h
  have hq := (C01.graph_queue_all_nodes g g' hw hc hf fuel h c).mpr hcn
  obtain ⟨g1, hi, hr, hqq, _⟩ := P.iter
  rw [hqq] at hq
  rcases (hi.queueIff c).mp hq with h1 | ⟨r, hr1, hreach⟩
  · exact absurd (hr ▸ h1) hnr
  · exact ⟨r, (P.root c r).mpr ⟨hr ▸ hr1, hreach⟩⟩

/-! ### what the planner reads -/

/-- `retrieve_nodes_which_must_be_calculated_before` = union of the ancestor sets of the step's features (the `req` of `PlanCore`) -/
theorem C01.graph_required_before_exact (p2c : Dict) (fs : List Nat) (x : Nat) :
    x ∈ requiredBefore p2c fs ↔ ∃ f ∈ fs, x ∈ dget p2c f := by
  unfold requiredBefore
  suffices h : ∀ acc, x ∈ fs.foldl (fun acc f => sunion acc (dget p2c f)) acc ↔ x ∈ acc ∨ ∃ f ∈ fs, x ∈ dget p2c f by
    simpa using h []
  induction fs with
  | nil => intro acc; simp
  | cons f fs ih =>
    intro acc
    simp only [List.foldl_cons, ih, mem_sunion, List.mem_cons]
    constructor
    · rintro ((h | h) | ⟨f', hf', h⟩)
      · exact Or.inl h
      · exact Or.inr ⟨f, Or.inl rfl, h⟩
      · exact Or.inr ⟨f', Or.inr hf', h⟩
    · rintro (h | ⟨f', rfl | hf', h⟩)
      · exact Or.inl (Or.inl h)
      · exact Or.inl (Or.inr h)
      · exact Or.inr ⟨f', hf', h⟩

/-- ... which is, as a set, the `req` that `PlanCore.stepsOfBucket` gives a step (`(L.flatMap anc).eraseDups` with `anc = allParents`) -/
theorem C01.graph_required_matches_planCore (g' : G) (L : List Nat) (x : Nat) :
    x ∈ requiredBefore g'.p2c L ↔ x ∈ (L.flatMap (allParents g')).eraseDups := by
  rw [C01.graph_required_before_exact, List.mem_eraseDups, List.mem_flatMap]
  exact Iff.rfl

/-- `get_nodes_with_same_feature_group_class`: the group of class `k` holds exactly the queued uuids of that class -/
theorem C01.graph_groups_exact (cls : Nat → Nat) (queue : List Nat) (k x : Nat) :
    x ∈ dget (nodesPerGroup cls queue) k ↔ x ∈ queue ∧ cls x = k := by
  unfold nodesPerGroup
  suffices h : ∀ d : Dict, x ∈ dget (queue.foldl (fun d n => dadd d (cls n) n) d) k ↔ x ∈ dget d k ∨ (x ∈ queue ∧ cls x = k) by
    simpa [dget] using h []
  induction queue with
  | nil => intro d; simp
  | cons n q ih =>
    intro d
    simp only [List.foldl_cons, ih, mem_dget_dadd, List.mem_cons]
    constructor
    · rintro ((h | ⟨h1, h2⟩) | ⟨h1, h2⟩)
      · exact Or.inl h
      · exact Or.inr ⟨Or.inl h2, h2 ▸ h1⟩
      · exact Or.inr ⟨Or.inr h1, h2⟩
    · rintro (h | ⟨h1 | h1, h2⟩)
      · exact Or.inl (Or.inl h)
      · exact Or.inl (Or.inr ⟨h1 ▸ h2, h1⟩)
      · exact Or.inr ⟨h1, h2⟩

/-! ### composition with the scheduler / planner-core theorems -/

/-- C01 for a graph prepared by the modelled code: take ANY graph built by `add_node` / `add_edge` on which the passes return,
hand its `parent_to_children_mapping` to the planner core with any partition of features into buckets; then in every run of
the orchestrator (every event list), when a step has been started every feature with an edge path to one of its features has
been produced by a step that completed.  Composes `graph_all_parents_covers_direct`, `C04.planCore_partition`,
`C04.planCore_parentsCovered` and `C01.ancestors_first`; no hypothesis about `anc` is left. -/
theorem C01.graph_plan_ancestors_first (g g' : G) (hw : WF g) (hf : Fresh g) (fuel : Nat) (h : prepare fuel g = .ok g')
    (buckets : List (List Nat)) (hnd : buckets.flatten.Nodup) (evs : List Ev) (i : Nat) (st : Step)
    (hst : (PlanCore.planCore (allParents g') buckets)[i]? = some st)
    (hstarted : i ∈ (run (PlanCore.planCore (allParents g') buckets) init evs).started) :
    ∀ f ∈ st.outs, ∀ a, Reach (children g) a f →
      ∃ j sj, (PlanCore.planCore (allParents g') buckets)[j]? = some sj ∧ a ∈ sj.outs ∧ Ev.finish j ∈ evs := by
  intro f hfo a ha
  have hd := (C04.planCore_partition (allParents g') buckets hnd).1
  have hpc := C04.planCore_parentsCovered (allParents g') (directParents g') buckets
    (C01.graph_all_parents_covers_direct g g' hw hf fuel h)
  exact C01.ancestors_first _ (directParents g') hd hpc evs i st hst hstarted f hfo a
    (Graph.anc_of_reach (C01.graph_direct_parents_exact g g' hw hf fuel h) ha)

/-- C04 for a graph prepared by the modelled code: the hypotheses "closed" and "acyclic inside each bucket" of
`C04.planCore_runs_to_completion` are discharged (`graph_all_parents_closed`, `graph_rank`); what remains is about the
grouping only: the buckets partition the queue and form a DAG (`rb`) - false for mutually dependent groups, see
`C04.mutual_groups_witness`. -/
theorem C01.graph_plan_runs_to_completion (g g' : G) (hw : WF g) (hc : Closed g) (hf : Fresh g) (fuel : Nat)
    (h : prepare fuel g = .ok g') (buckets : List (List Nat)) (rb : Nat → Nat)
    (hnd : buckets.flatten.Nodup) (hne : ∀ b ∈ buckets, b ≠ []) (hne' : buckets ≠ [])
    (hcover : ∀ x, x ∈ g'.queue → x ∈ buckets.flatten)
    (hsame : ∀ b ∈ buckets, ∀ f ∈ b, ∀ k ∈ b, rb f = rb k)
    (hrb : ∀ b ∈ buckets, ∀ f ∈ b, ∀ a ∈ allParents g' f, a ∉ b → rb a < rb f)
    (evs : List Ev)
    (hmax : ∀ e, ¬ Progress (PlanCore.planCore (allParents g') buckets) (run (PlanCore.planCore (allParents g') buckets) init evs) e) :
    halted (run (PlanCore.planCore (allParents g') buckets) init evs) = true := by
  apply C04.planCore_runs_to_completion (allParents g') buckets rb (fun u => (allParents g' u).length) hnd hne hne'
    ?_ hsame hrb ?_ evs hmax
  · intro f _ a ha
    exact hcover a (((C01.graph_all_parents_closed g g' hw hf fuel h).2 hc f a ha).1)
  · intro b _ u _ d hd _
    exact C01.graph_rank g g' hw hf fuel h u d hd

/-! ### non-vacuity (tests on literals, not proofs of the property) -/

/-- the diamond built the way `BuildGraph` does: every field after the preparation -/
example :
    let g := buildGraph [(3, [1, 2]), (1, [0]), (2, [0]), (0, [])]
    prepare (fuelBound g) g = .ok
      { nodes := [3, 1, 2, 0], edges := [(1, 3), (2, 3), (0, 1), (0, 2)], adj := [(1, [3]), (2, [3]), (0, [1, 2]), (3, [])],
        roots := [0], queue := [0, 1, 3, 2], visited := [2, 3, 1, 0], pbd := [(3, [1, 2]), (1, [0]), (2, [0]), (0, [])],
        p2c := [(3, [1, 2, 0]), (1, [0]), (2, [0])], cwr := [(3, [0]), (1, [0]), (2, [0])] } := by
  dsimp only
  decide +kernel

/-- the hypotheses of `graph_fuel_bound_suffices` hold for it (acyclicity because it was prepared) -/
example : let g := buildGraph [(3, [1, 2]), (1, [0]), (2, [0]), (0, [])]
    WF g ∧ Closed g ∧ Fresh g ∧ Acyclic (children g) ∧ fuelBound g = 5 := by
  refine ⟨wf_build _, closed_buildGraph _, fresh_build _, ?_, by decide⟩
  have hp : ∃ g', prepare 5 (buildGraph [(3, [1, 2]), (1, [0]), (2, [0]), (0, [])]) = .ok g' := by
    cases h : prepare 5 (buildGraph [(3, [1, 2]), (1, [0]), (2, [0]), (0, [])]) with
    | ok g' => exact ⟨g', rfl⟩
    | error e =>
      have : (prepare 5 (buildGraph [(3, [1, 2]), (1, [0]), (2, [0]), (0, [])])).toOption.isSome = true := by decide +kernel
      rw [h] at this; cases this
  obtain ⟨g', hg'⟩ := hp
  exact C01.graph_prepared_is_acyclic _ g' (wf_build _) 5 hg'

/-- the planner core on the prepared diamond with buckets [[0], [1, 2], [3]]: three of the four steps wait for uuid 0 -/
example :
    let g := buildGraph [(3, [1, 2]), (1, [0]), (2, [0]), (0, [])]
    (prepare (fuelBound g) g).toOption.map (fun g' =>
      (PlanCore.planCore (allParents g') [[0], [1, 2], [3]]).map (fun st => (st.outs, st.req))) =
      some [([0], []), ([1, 2], [0]), ([3], [1, 2, 0])] := by
  dsimp only
  decide +kernel

/-- duplicate edges and an isolated node: duplicates stay in `adjacency_list`, the sets do not see them -/
example :
    (prepare 9 (build [.node 0, .node 1, .node 7, .edge 0 1, .edge 0 1])).toOption.map
      (fun g' => (g'.adj, g'.roots, (g'.queue, g'.p2c))) = some ([(0, [1, 1]), (1, []), (7, [])], [0, 7], ([0, 7, 1], [(1, [0])])) := by
  decide +kernel
