import MlodaVerif.Lemmas.SchedFail
import MlodaVerif.Lemmas.PlanOK
import MlodaVerif.Lemmas.PlanCore
import MlodaVerif.Lemmas.PlanCoreRank
/-! # C04 (scheduler half) - every accepted plan can run to completion

`WellRanked p` is "each prerequisite a step waits for is produced by some step of the plan and the wait-for relation is
acyclic" (a rank function strictly decreasing along requirements).  The harness decides it for every exported real plan
(`planOK`), and `Props/C04Plan` proves it for the link-free planner core. -/
open Sched

/-- `planOK`, the check the driver decides on every exported real plan, implies the hypotheses of the theorems below -/
theorem C04.planOK_sound (p : Plan) (h : planOK p = true) : NonemptyOuts p ∧ DisjointOuts p ∧ WellRanked p :=
  Sched.planOK_sound h

/-- deadlock freedom: while `compute` has neither returned nor raised, some event strictly decreases the measure -/
theorem C04.deadlock_free (p : Plan) (hd : DisjointOuts p) (hne : NonemptyOuts p) (hwr : WellRanked p) (hp : p ≠ [])
    (evs : List Ev) (hnh : halted (run p init evs) = false) : ∃ e, Progress p (run p init evs) e :=
  Sched.deadlock_free hd hne hwr hp ⟨evs, rfl⟩ hnh

/-- no event ever increases the measure, so along *any* event list at most `4·|p| + 1` events make progress:
a run cannot go on making progress forever -/
theorem C04.progress_bounded (p : Plan) (evs : List Ev) : progressCount p init evs ≤ 4 * p.length + 1 := by
  have := Sched.progress_bounded p init evs
  have := mu_init p
  omega

/-- together: a maximal run (one in which no further event makes progress) has returned or raised -/
theorem C04.maximal_run_halts (p : Plan) (hd : DisjointOuts p) (hne : NonemptyOuts p) (hwr : WellRanked p)
    (hp : p ≠ []) (evs : List Ev) (hmax : ∀ e, ¬ Progress p (run p init evs) e) :
    halted (run p init evs) = true := by
  cases h : halted (run p init evs) with
  | true => rfl
  | false =>
    obtain ⟨e, he⟩ := C04.deadlock_free p hd hne hwr hp evs h
    exact absurd he (hmax e)

/-- a dangling requirement (a required uuid no step produces) makes normal return impossible: such a plan spins
until an error or forever - the harness's watchdog detects exactly this class -/
theorem C04.dangling_never_returns (p : Plan) (hd : DisjointOuts p) (hne : NonemptyOuts p) (i : Nat) (st : Step)
    (hst : p[i]? = some st) (u : Nat) (hu : u ∈ st.req)
    (hdang : ∀ (j : Nat) (sj : Step), p[j]? = some sj → u ∉ sj.outs) (evs : List Ev) :
    (run p init evs).returned = false := by
  cases hret : (run p init evs).returned with
  | false => rfl
  | true =>
    exfalso
    obtain ⟨h1, _, _⟩ := (show (run p init evs).started.count i = 1 ∧ i ∈ (run p init evs).done ∧ Ev.finish i ∈ evs from by
      -- inline copy of exactly_once_on_return's argument
      have hall := returned_all_finished (p := p) evs init (by simp [init]) hret
      have hi := (rinv_reach hd evs).2
      obtain ⟨w, hw⟩ := List.exists_mem_of_ne_nil _ (hne st (List.mem_of_getElem? hst))
      have hwfin : w ∈ (run p init evs).finished := by
        simp only [List.all_eq_true, decide_eq_true_eq] at hall
        apply hall; simp only [allOuts, List.mem_flatMap]; exact ⟨st, List.mem_of_getElem? hst, hw⟩
      obtain ⟨j, sj, hj1, hj2, hj3⟩ := hi.fin_owner w hwfin
      have : j = i := hd j i sj st hj2 hst w hj3 hw
      subst this
      have hdone := hi.coll_sub j hj1
      have hstarted := hi.begun_sub j (hi.done_sub j hdone)
      refine ⟨?_, hdone, done_has_finish_event p evs init hdone (by simp [init])⟩
      have := List.nodup_iff_count.mp hi.started_nodup j
      have h1 : 0 < (run p init evs).started.count j := List.count_pos_iff.mpr hstarted
      omega)
    have hstarted : i ∈ (run p init evs).started := List.count_pos_iff.mp (by omega)
    obtain ⟨j, sj, hj1, hj2, _⟩ := (rinv_reach hd evs).1 i hstarted st hst u hu
    exact hdang j sj hj1 hj2

/-- a wait-for cycle among steps makes normal return impossible, even when the *feature* graph is acyclic: this is what
happens when two feature groups depend on each other's features (G1 = {a, b}, G2 = {g, f}, b needs g, f needs a): the
planner puts {a, b} and {g, f} into one step each, each step waits for a uuid of the other, and `compute` spins. The
harness confirms the spin on the real code (known finding F-C04-mutual-groups); `planOK` rejects such plans. -/
theorem C04.wait_cycle_never_returns (p : Plan) (hd : DisjointOuts p) (hne : NonemptyOuts p) (C : Nat → Prop)
    (hC : ∀ (i : Nat) (st : Step), C i → p[i]? = some st →
      ∃ u ∈ st.req, ∃ j sj, C j ∧ p[j]? = some sj ∧ u ∈ sj.outs)
    (i : Nat) (st : Step) (hci : C i) (hst : p[i]? = some st) (evs : List Ev) :
    (run p init evs).returned = false := by
  cases hret : (run p init evs).returned with
  | false => rfl
  | true =>
    exfalso
    have hall := returned_all_finished (p := p) evs init (by simp [init]) hret
    have hi := (rinv_reach hd evs).2
    obtain ⟨w, hw⟩ := List.exists_mem_of_ne_nil _ (hne st (List.mem_of_getElem? hst))
    have hwfin : w ∈ (run p init evs).finished := by
      simp only [List.all_eq_true, decide_eq_true_eq] at hall
      apply hall; simp only [allOuts, List.mem_flatMap]; exact ⟨st, List.mem_of_getElem? hst, hw⟩
    obtain ⟨j, sj, hj1, hj2, hj3⟩ := hi.fin_owner w hwfin
    have : j = i := hd j i sj st hj2 hst w hj3 hw
    subst this
    exact cyclic_never_starts hd C hC evs j hci (hi.begun_sub j (hi.done_sub j (hi.coll_sub j hj1)))

/-- the concrete two-group witness: plan [R → {r}], [{a, b} needs r, g], [{g, f} needs r, a] is rejected by `planOK` -/
theorem C04.mutual_groups_witness :
    planOK [{ outs := [0], req := [] }, { outs := [1, 2], req := [0, 4] }, { outs := [4, 3], req := [0, 1] }] = false := by
  decide

/-! ### the link-free planner core (`PlanCore.planCore` = levels + required sets of `run_feature_group`) -/

/-- the steps of the planner core partition the features: every feature uuid is the output of exactly one step -/
theorem C04.planCore_partition (anc : Nat → List Nat) (buckets : List (List Nat)) (hnd : buckets.flatten.Nodup) :
    DisjointOuts (PlanCore.planCore anc buckets) ∧ (allOuts (PlanCore.planCore anc buckets)).Perm buckets.flatten := by
  have hp := PlanCore.allOuts_planCore_perm anc buckets
  exact ⟨nodup_flatMap_disjoint _ (hp.nodup_iff.mpr hnd), hp⟩

/-- no step of the planner core is empty (so `currently_running_step` never meets an empty set) -/
theorem C04.planCore_nonempty (anc : Nat → List Nat) (buckets : List (List Nat)) (hne : ∀ b ∈ buckets, b ≠ []) :
    NonemptyOuts (PlanCore.planCore anc buckets) := by
  intro st hst
  obtain ⟨b, hb, L, hL, rfl⟩ := PlanCore.mem_planCore hst
  exact PlanCore.splitLevels_nonempty b anc (hne b hb) L hL

/-- every step of the planner core waits for every ancestor - in particular every direct parent - of what it computes -/
theorem C04.planCore_parentsCovered (anc parents : Nat → List Nat) (buckets : List (List Nat))
    (hpar : ∀ f, ∀ a ∈ parents f, a ∈ anc f) : ParentsCovered (PlanCore.planCore anc buckets) parents := by
  intro i st hst f hf a ha
  obtain ⟨b, hb, L, hL, rfl⟩ := PlanCore.mem_planCore (List.mem_of_getElem? hst)
  simp only [List.mem_eraseDups, List.mem_flatMap]
  exact ⟨f, hf, hpar f a ha⟩

/-- closed: if the ancestors of planned features are planned features, every required uuid is produced by a step -/
theorem C04.planCore_closed (anc : Nat → List Nat) (buckets : List (List Nat))
    (hcl : ∀ f ∈ buckets.flatten, ∀ a ∈ anc f, a ∈ buckets.flatten) :
    ∀ st ∈ PlanCore.planCore anc buckets, ∀ u ∈ st.req, ∃ sj ∈ PlanCore.planCore anc buckets, u ∈ sj.outs := by
  intro st hst u hu
  obtain ⟨b, hb, L, hL, rfl⟩ := PlanCore.mem_planCore hst
  simp only [List.mem_eraseDups, List.mem_flatMap] at hu
  obtain ⟨f, hf, hua⟩ := hu
  have hfb : f ∈ b := (PlanCore.splitLevels_cover b anc).mem_iff.mp (List.mem_flatten.mpr ⟨L, hL, hf⟩)
  have hfin : f ∈ buckets.flatten := List.mem_flatten.mpr ⟨b, hb, hfb⟩
  have hu' : u ∈ allOuts (PlanCore.planCore anc buckets) :=
    (PlanCore.allOuts_planCore_perm anc buckets).mem_iff.mpr (hcl f hfin u hua)
  simp only [allOuts, List.mem_flatMap] at hu'
  exact hu'

/-- PARTIAL (the full statement "every plan of the planner core is acyclic" is false: next theorem): when the buckets
(feature-group class x similarity key) form a DAG - a rank `rb`, constant on each bucket, strictly decreasing along
dependencies that leave the bucket - and the dependencies inside each bucket are acyclic, the wait-for relation of the
plan is closed and acyclic.  Levels inside a bucket are handled by `_split_features_by_dependency_levels` (index of the
level), dependencies between buckets by `rb`. -/
theorem C04.planCore_wellRanked_partial (anc : Nat → List Nat) (buckets : List (List Nat)) (rb r : Nat → Nat)
    (hnd : buckets.flatten.Nodup) (hne : ∀ b ∈ buckets, b ≠ [])
    (hcl : ∀ f ∈ buckets.flatten, ∀ a ∈ anc f, a ∈ buckets.flatten)
    (hsame : ∀ b ∈ buckets, ∀ f ∈ b, ∀ g ∈ b, rb f = rb g)
    (hrb : ∀ b ∈ buckets, ∀ f ∈ b, ∀ a ∈ anc f, a ∉ b → rb a < rb f)
    (hacyc : ∀ b ∈ buckets, ∀ u ∈ b, ∀ d ∈ anc u, d ∈ b → r d < r u) :
    WellRanked (PlanCore.planCore anc buckets) :=
  PlanCore.planCore_wellRanked anc buckets rb r hnd hne hcl hsame hrb hacyc

/-- hence such requests can always run to completion: every maximal run of the planner core's plan has halted -/
theorem C04.planCore_runs_to_completion (anc : Nat → List Nat) (buckets : List (List Nat)) (rb r : Nat → Nat)
    (hnd : buckets.flatten.Nodup) (hne : ∀ b ∈ buckets, b ≠ []) (hne' : buckets ≠ [])
    (hcl : ∀ f ∈ buckets.flatten, ∀ a ∈ anc f, a ∈ buckets.flatten)
    (hsame : ∀ b ∈ buckets, ∀ f ∈ b, ∀ g ∈ b, rb f = rb g)
    (hrb : ∀ b ∈ buckets, ∀ f ∈ b, ∀ a ∈ anc f, a ∉ b → rb a < rb f)
    (hacyc : ∀ b ∈ buckets, ∀ u ∈ b, ∀ d ∈ anc u, d ∈ b → r d < r u)
    (evs : List Ev) (hmax : ∀ e, ¬ Progress (PlanCore.planCore anc buckets) (run (PlanCore.planCore anc buckets) init evs) e) :
    halted (run (PlanCore.planCore anc buckets) init evs) = true := by
  have hp : PlanCore.planCore anc buckets ≠ [] := by
    cases buckets with
    | nil => exact absurd rfl hne'
    | cons b rest =>
      intro h
      have hb : b ≠ [] := hne b (by simp)
      have hlev := PlanCore.splitLevels_cover b anc
      have : (OptGroup.splitLevels b anc) ≠ [] := by
        intro hnil; rw [hnil] at hlev; simp at hlev; exact hb hlev
      obtain ⟨L, hL⟩ := List.exists_mem_of_ne_nil _ this
      have := PlanCore.planCore_mem_of (anc := anc) (buckets := b :: rest) (by simp) hL
      rw [h] at this; cases this
  exact C04.maximal_run_halts _ (C04.planCore_partition anc buckets hnd).1 (C04.planCore_nonempty anc buckets hne)
    (C04.planCore_wellRanked_partial anc buckets rb r hnd hne hcl hsame hrb hacyc) hp evs hmax

/-- non-vacuity of the hypotheses: a diamond over three groups with a two-level group.
features 0 (root) | 1, 2 (group A: 2 depends on 1) | 3 (group B: depends on 1 and 2) -/
example :
    let anc : Nat → List Nat := fun f => if f = 1 then [0] else if f = 2 then [0, 1] else if f = 3 then [0, 1, 2] else []
    (PlanCore.planCore anc [[0], [1, 2], [3]]).map (fun st => (st.outs, st.req)) =
      [([0], []), ([1], [0]), ([2], [0, 1]), ([3], [0, 1, 2])] ∧ planOK (PlanCore.planCore anc [[0], [1, 2], [3]]) = true := by
  decide

/-- PARTIAL: the planner core does *not* always yield an acyclic wait-for relation - `C04.mutual_groups_witness` is a
plan it builds (buckets [[0],[1,2],[4,3]] with anc 1 = [0], 2 = [4,0], 4 = [0], 3 = [1,0]) -/
theorem C04.planCore_builds_mutual_groups_witness :
    let anc : Nat → List Nat := fun f => if f = 1 then [0] else if f = 2 then [0, 4] else if f = 4 then [0] else if f = 3 then [0, 1] else []
    (PlanCore.planCore anc [[0], [1, 2], [4, 3]]).map (fun st => (st.outs, st.req)) = [([0], []), ([1, 2], [0, 4]), ([4, 3], [0, 1])] ∧
      planOK (PlanCore.planCore anc [[0], [1, 2], [4, 3]]) = false := by
  decide

/-- the empty plan is the excluded point of the termination theorem: `compute` never leaves its loop
(`len(finished_ids) == 0` keeps the condition true) - DESIGN O16, `run_all([])` spins -/
theorem C04.empty_plan_spins (evs : List Ev) : halted (run ([] : Plan) init evs) = false := by
  suffices ∀ s : St, halted s = false → s.finished = [] → s.err = none → s.started = [] → s.begun = [] →
      halted (run ([] : Plan) s evs) = false from
    this init (by simp [init, halted]) (by simp [init]) (by simp [init]) (by simp [init]) (by simp [init])
  induction evs with
  | nil => intro s h _ _ _ _; exact h
  | cons e es ih =>
    intro s h hf he hs hb
    have hh := h
    simp only [halted, Bool.or_eq_false_iff] at hh
    have hstep : stepEv ([] : Plan) s e = s ∨ ∃ y, stepEv ([] : Plan) s e = { s with yielded := y, pending := [] } := by
      cases e with
      | scan i => left; simp [stepEv, h]
      | begin i => left; simp [stepEv, hs]
      | finish i => left; simp [stepEv, hb]
      | fail i => left; simp [stepEv, hs]
      | loopHead => right; exact ⟨s.yielded ++ s.pending.reverse, by simp [stepEv, halted, hh.1, hh.2, hf, he]⟩
    rcases hstep with h1 | ⟨y, h1⟩
    · simp only [run, List.foldl_cons, h1]; exact ih s h hf he hs hb
    · simp only [run, List.foldl_cons, h1]
      exact ih _ (by simpa [halted] using h) hf he hs hb
