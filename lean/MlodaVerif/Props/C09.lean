import MlodaVerif.Model.Store
import MlodaVerif.Lemmas.SchedFail
/-! # C09 - after a run nothing is left behind: no workers, no stored datasets

Bookkeeping only: that `terminate()+join()` really ends an OS process, that daemon feeder threads exit and that a Flight
`do_action` is durable is observed by the harness, not proved. -/
open Store

/-- every worker ever started is in `tasks` (it is appended before `start`) -/
theorem C09.live_subset_tasks (spawns : List (Nat × Bool)) :
    ∀ t ∈ (spawns.foldl (fun w ts => spawn w ts.1 ts.2) ({} : WM)).live,
      t ∈ (spawns.foldl (fun w ts => spawn w ts.1 ts.2) ({} : WM)).tasks := by
  suffices ∀ w : WM, (∀ t ∈ w.live, t ∈ w.tasks) →
      ∀ t ∈ (spawns.foldl (fun w ts => spawn w ts.1 ts.2) w).live,
        t ∈ (spawns.foldl (fun w ts => spawn w ts.1 ts.2) w).tasks from this {} (by simp)
  induction spawns with
  | nil => intro w h; exact h
  | cons s rest ih =>
    intro w h
    apply ih
    intro t ht
    simp only [spawn] at ht ⊢
    split at ht
    · simp; exact Or.inl (h t ht)
    · simp at ht ⊢; rcases ht with ht | ht
      · exact Or.inl (h t ht)
      · exact Or.inr ht

/-- whatever was spawned, whether the loop returned or raised: after `compute` no worker of the run is live
(when terminate/join work); and a failing join is reported, never swallowed -/
theorem C09.workers_all_joined (spawns : List (Nat × Bool)) (loop : Outcome) (joinFails : Nat → Bool) :
    (∀ t, joinFails t = false) → (compute spawns loop joinFails).1.live = [] ∧ (compute spawns loop joinFails).2 = loop := by
  intro hj
  have hsub := C09.live_subset_tasks spawns
  simp only [compute, joinAll]
  constructor
  · apply List.filter_eq_nil_iff.mpr
    intro t ht
    simp [hj t, hsub t ht]
  · have : (List.foldl (fun w ts => spawn w ts.1 ts.2) ({} : WM) spawns).tasks.any joinFails = false := by
      simp [hj]
    cases loop <;> simp [this]

theorem C09.tasks_are_spawns (spawns : List (Nat × Bool)) (w : WM) :
    (spawns.foldl (fun w ts => spawn w ts.1 ts.2) w).tasks = w.tasks ++ spawns.map (·.1) := by
  induction spawns generalizing w with
  | nil => simp
  | cons s rest ih =>
    simp only [List.foldl_cons, List.map_cons]
    rw [ih (spawn w s.1 s.2)]
    simp [spawn, List.append_assoc]

/-- `join_all` visits every task even if earlier joins fail, and then raises: a failing join is never swallowed -/
theorem C09.join_failure_reported (spawns : List (Nat × Bool)) (loop : Outcome) (joinFails : Nat → Bool) (t : Nat)
    (ht : t ∈ spawns.map (·.1)) (hf : joinFails t = true) : (compute spawns loop joinFails).2 = .raised := by
  have hany : (spawns.foldl (fun w ts => spawn w ts.1 ts.2) ({} : WM)).tasks.any joinFails = true := by
    rw [C09.tasks_are_spawns]
    simp only [List.any_eq_true]
    exact ⟨t, by simp only [List.mem_append]; exact Or.inr ht, hf⟩
  simp only [compute, joinAll, hany]
  cases loop <;> simp

/-- no premature drop: when a report triggers the drop, every uuid in `children_if_root` has been reported, i.e. every
consumer registered on the object has been calculated (reports come only from processed steps) -/
theorem C09.drop_not_premature (c : Cfw) (ch : List Nat) (k : Option Nat) (h : (report c ch).2 = .dropped k) :
    ∀ x ∈ c.children, x ∈ c.tracker ∨ x ∈ ch := by
  intro x hx
  simp only [report] at h
  split at h
  · rename_i hall
    simp only [List.all_eq_true, decide_eq_true_eq] at hall
    have := hall x hx
    simp at this
    rcases this with h1 | h1
    · exact Or.inl h1
    · exact Or.inr h1.1
  · split at h <;> simp at h

theorem C09.report_tracker (c : Cfw) (r : List Nat) (x : Nat) :
    x ∈ (report c r).1.tracker ↔ x ∈ c.tracker ∨ x ∈ r := by
  have key : x ∈ c.tracker ++ r.filter (fun y => decide (y ∉ c.tracker)) ↔ x ∈ c.tracker ∨ x ∈ r := by
    simp only [List.mem_append, List.mem_filter, decide_eq_true_eq]
    constructor
    · rintro (h | h)
      · exact Or.inl h
      · exact Or.inr h.1
    · rintro (h | h)
      · exact Or.inl h
      · by_cases hx : x ∈ c.tracker
        · exact Or.inl hx
        · exact Or.inr ⟨h, hx⟩
  simp only [report]
  split
  · exact key
  · split <;> exact key

/-- the tracker is exactly what was there plus everything reported -/
theorem C09.tracker_reports (c : Cfw) (rs : List (List Nat)) (x : Nat) :
    x ∈ (reports c rs).tracker ↔ x ∈ c.tracker ∨ ∃ r ∈ rs, x ∈ r := by
  induction rs generalizing c with
  | nil => simp [reports]
  | cons r rest ih =>
    have := ih (report c r).1
    simp only [reports, List.foldl_cons] at this ⊢
    rw [this, C09.report_tracker]
    simp only [List.mem_cons, exists_eq_or_imp]
    constructor
    · rintro ((h | h) | h)
      · exact Or.inl h
      · exact Or.inr (Or.inl h)
      · exact Or.inr (Or.inr h)
    · rintro (h | h | h)
      · exact Or.inl (Or.inl h)
      · exact Or.inl (Or.inr h)
      · exact Or.inr h

/-- an object's dataset stays in the store as long as some uuid of `children_if_root` is never reported: this is how a
run leaks on the unrepaired tree - after a failure (the failed step's features are never reported) and even after a
successful run when `children_if_root` contains a link uuid (only feature uuids are ever reported). PARTIAL: the store
is clean after the object-level protocol only if every child is eventually reported. -/
theorem C09.leak_without_report (c : Cfw) (rs : List (List Nat)) (k : Nat) (x : Nat) (hk : c.dataKey = some k)
    (hx : x ∈ c.children) (hnt : x ∉ c.tracker) (hnr : ∀ r ∈ rs, x ∉ r) : (reports c rs).dataKey = some k := by
  induction rs generalizing c with
  | nil => simpa [reports] using hk
  | cons r rest ih =>
    simp only [reports, List.foldl_cons]
    have hr : x ∉ r := hnr r (by simp)
    have hnt' : x ∉ (report c r).1.tracker := by
      rw [C09.report_tracker]; intro h; rcases h with h | h
      · exact hnt h
      · exact hr h
    have hstep : (report c r).1.dataKey = some k ∧ (report c r).1.children = c.children := by
      simp only [report]
      split
      · rename_i hall
        exfalso
        simp only [List.all_eq_true, decide_eq_true_eq] at hall
        have := hall x hx
        simp at this
        rcases this with h | h
        · exact hnt h
        · exact hr h.1
      · split <;> simp [hk]
    exact ih (report c r).1 hstep.1 (hstep.2 ▸ hx) hnt' (fun q hq => hnr q (by simp [hq]))

/-- concrete leak on the unrepaired protocol: children {1, 2, link 9}; the features 1 and 2 are reported, the link uuid
never is - the dataset key 77 is still held after a *successful* run -/
theorem C09.leak_on_success_witness :
    (reports { children := [1, 2, 9], dataKey := some 77, objectIds := 1 } [[1], [2]]).dataKey = some 77 := by
  decide

/-- the repaired run-level clean-up: whatever happened during the run - any sequence of registrations, uploads and
drops, ended by return or by raise - after `finalDrop` no key of the run's objects is in the store, and nothing else
was touched -/
theorem C09.store_clean_after_run (r0 : Run) (evs : List SEv) :
    (∀ k ∈ (finalDrop (srun r0 evs)).store, k ∉ (srun r0 evs).keys) ∧
    (∀ k ∈ (srun r0 evs).store, k ∉ (srun r0 evs).keys → k ∈ (finalDrop (srun r0 evs)).store) := by
  constructor
  · intro k hk; simp [finalDrop] at hk; exact hk.2
  · intro k hk hn; simp [finalDrop, hk, hn]

theorem C09.keys_mono (r : Run) (es : List SEv) (x : Nat) (hx : x ∈ r.keys) : x ∈ (srun r es).keys := by
  induction es generalizing r with
  | nil => exact hx
  | cons e es ih =>
    apply ih
    cases e with
    | register k => simp only [sstep]; split
                    · exact hx
                    · simp [hx]
    | upload k => simp only [sstep]; split <;> exact hx
    | drop k => exact hx

/-- only keys of the run's own objects are ever uploaded by the run -/
theorem C09.run_adds_only_own_keys (r0 : Run) (evs : List SEv) :
    ∀ k ∈ (srun r0 evs).store, k ∈ r0.store ∨ k ∈ (srun r0 evs).keys := by
  induction evs generalizing r0 with
  | nil => intro k hk; exact Or.inl hk
  | cons e rest ih =>
    intro k hk
    rcases ih (sstep r0 e) k hk with h | h
    · cases e with
      | register q => simp only [sstep] at h; exact Or.inl h
      | upload q =>
        simp only [sstep] at h
        split at h
        · rename_i hin
          split at h
          · exact Or.inl h
          · simp at h; rcases h with h | h
            · exact Or.inl h
            · subst h; right
              exact C09.keys_mono (sstep r0 (.upload k)) rest k (by simp [sstep, hin])
        · exact Or.inl h
      | drop q => simp only [sstep] at h; simp at h; exact Or.inl h.1
    · exact Or.inr h

/-- together: a store that did not contain any of the run's keys before is exactly as before after the repaired run -/
theorem C09.store_restored (r0 : Run) (evs : List SEv) (hfresh : ∀ k ∈ r0.store, k ∉ (srun r0 evs).keys) :
    ∀ k ∈ (finalDrop (srun r0 evs)).store, k ∈ r0.store := by
  intro k hk
  simp [finalDrop] at hk
  rcases C09.run_adds_only_own_keys r0 evs k hk.1 with h | h
  · exact h
  · exact absurd h hk.2

example : (compute [(1, false), (2, true), (3, false)] .raised (fun _ => false)).1.live = [] := by decide
