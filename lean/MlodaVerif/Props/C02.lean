import MlodaVerif.Lemmas.Exec
import MlodaVerif.Lemmas.SchedFail
import MlodaVerif.Model.ApiRoute
/-! # C02 - returned values equal the reference evaluation of the feature graph

`Exec` computes each column with an arbitrary function `compute c` of its direct parents' values; `ref` is *the*
bottom-up evaluation (`IsRef`).  The plan is arbitrary: any way of spreading the features over steps (feature groups,
option groups, dependency levels) that keeps outputs disjoint and makes each step wait for the direct parents of what
it computes - exactly the structural facts the driver decides on every exported real plan.  Full statement (also joins,
several compute-framework objects, THREADING) is false of the code (C06 witness, C05 findings); proved here: link-free
plans on one compute-framework object under a serialising executor (SYNC, MULTIPROCESSING). -/
open Sched Exec

variable {V : Type}

/-- every value held for a uuid of the plan when the run returns is the reference value -/
theorem C02.refines_partial (cfg : Cfg V) (ref : Nat → V) (p : Plan) (hd : DisjointOuts p) (hne : NonemptyOuts p)
    (hpc : ParentsCovered p cfg.parents) (href : IsRef cfg ref) (evs : List Ev)
    (hret : (erun cfg true p einit evs).s.returned = true) (c : Nat) (hc : c ∈ allOuts p) :
    lookup (erun cfg true p einit evs).store c = some (ref c) := by
  have hi := einv_run hd hpc href (V := V) evs
  have hf := finv_reach (erun_reach cfg true p evs)
  have hall := hf.ret_fin hret
  have hcfin : c ∈ (erun cfg true p einit evs).s.finished := by
    simp only [List.all_eq_true, decide_eq_true_eq] at hall; exact hall c hc
  obtain ⟨j, sj, hj1, hj2, hj3⟩ := hi.sinv.fin_owner c hcfin
  obtain ⟨v, hv⟩ := (hi.store_has c).mpr ⟨j, sj, hi.sinv.coll_sub j hj1, hj2, hj3⟩
  rw [hv, hi.store_ok c v hv]

/-- at *every* moment of *every* run (not only at return) nothing wrong is ever in the data: each value present is the
reference value of its column -/
theorem C02.never_wrong (cfg : Cfg V) (ref : Nat → V) (p : Plan) (hd : DisjointOuts p)
    (hpc : ParentsCovered p cfg.parents) (href : IsRef cfg ref) (evs : List Ev) (c : Nat) (v : V)
    (h : lookup (erun cfg true p einit evs).store c = some v) : v = ref c :=
  (einv_run hd hpc href (V := V) evs).store_ok c v h

/-- the result does not depend on how the features are spread over steps: two plans (two groupings / level splits /
orders) for the same uuids return the same values -/
theorem C02.grouping_independent (cfg : Cfg V) (ref : Nat → V) (p₁ p₂ : Plan)
    (hd₁ : DisjointOuts p₁) (hne₁ : NonemptyOuts p₁) (hpc₁ : ParentsCovered p₁ cfg.parents)
    (hd₂ : DisjointOuts p₂) (hne₂ : NonemptyOuts p₂) (hpc₂ : ParentsCovered p₂ cfg.parents)
    (href : IsRef cfg ref) (evs₁ evs₂ : List Ev)
    (h₁ : (erun cfg true p₁ einit evs₁).s.returned = true) (h₂ : (erun cfg true p₂ einit evs₂).s.returned = true)
    (c : Nat) (hc₁ : c ∈ allOuts p₁) (hc₂ : c ∈ allOuts p₂) :
    lookup (erun cfg true p₁ einit evs₁).store c = lookup (erun cfg true p₂ einit evs₂).store c := by
  rw [C02.refines_partial cfg ref p₁ hd₁ hne₁ hpc₁ href evs₁ h₁ c hc₁,
      C02.refines_partial cfg ref p₂ hd₂ hne₂ hpc₂ href evs₂ h₂ c hc₂]

/-- the calculation of a step sees, for every direct parent of what it computes, the reference value
(C01's "their columns are present in the data it receives", same hypotheses) -/
theorem C02.inputs_present (cfg : Cfg V) (ref : Nat → V) (p : Plan) (hd : DisjointOuts p)
    (hpc : ParentsCovered p cfg.parents) (href : IsRef cfg ref) (evs : List Ev) (i : Nat) (st : Step)
    (hst : p[i]? = some st) (hopen : Open (erun cfg true p einit evs).s i) :
    ∀ c ∈ st.outs, ∀ a ∈ cfg.parents c, lookup (snapOf (erun cfg true p einit evs) i) a = some (ref a) := by
  intro c hc a ha
  have hi := einv_run hd hpc href (V := V) evs
  rw [hi.open_snap i hopen]
  have hstarted := hi.sinv.begun_sub i hopen.1
  obtain ⟨j, sj, hj1, hj2, hj3⟩ := hi.rinv i hstarted st hst a (hpc i st hst c hc a ha)
  obtain ⟨w, hw⟩ := (hi.store_has a).mpr ⟨j, sj, hj3, hj1, hj2⟩
  rw [hw, hi.store_ok a w hw]

/-! ### api_data routing -/
open ApiRoute

/-- with pairwise disjoint column lists the key chosen for a column is the unique key listing it, whatever the
registration order -/
theorem C02.api_route_unique (reg : Registry) (hdj : DisjointCols reg) (kv : String × List String) (hkv : kv ∈ reg)
    (col : String) (hcol : col ∈ kv.2) : route reg col = some kv.1 := by
  unfold route
  cases hfind : reg.find? (fun kv => kv.2.contains col) with
  | none =>
    have := List.find?_eq_none.mp hfind kv hkv
    simp [hcol] at this
  | some w =>
    have hw := List.find?_some hfind
    have hmem := List.mem_of_find?_eq_some hfind
    simp at hw
    have : w = kv := hdj w hmem kv hkv col hw hcol
    simp [this]

theorem C02.api_route_perm (reg reg' : Registry) (hp : reg.Perm reg') (hdj : DisjointCols reg) (col : String) :
    route reg col = route reg' col := by
  have hdj' : DisjointCols reg' := by
    intro a ha b hb c hca hcb
    exact hdj a (hp.mem_iff.mpr ha) b (hp.mem_iff.mpr hb) c hca hcb
  cases h : reg.find? (fun kv => kv.2.contains col) with
  | none =>
    have hnone := List.find?_eq_none.mp h
    have : reg'.find? (fun kv => kv.2.contains col) = none := by
      apply List.find?_eq_none.mpr
      intro x hx; exact hnone x (hp.mem_iff.mpr hx)
    unfold route; rw [h, this]
  | some w =>
    have hw := List.find?_some h
    have hmem := List.mem_of_find?_eq_some h
    simp at hw
    rw [C02.api_route_unique reg hdj w hmem col hw, C02.api_route_unique reg' hdj' w (hp.mem_iff.mp hmem) col hw]

/-- a column that no key lists is rejected (ValueError), never routed to some default -/
theorem C02.api_route_missing (reg : Registry) (col : String) (h : ∀ kv ∈ reg, col ∉ kv.2) : route reg col = none := by
  unfold route
  have : reg.find? (fun kv => kv.2.contains col) = none := by
    apply List.find?_eq_none.mpr
    intro x hx; simp [h x hx]
  rw [this]; rfl

/-- overlapping column lists: first match wins, so the routing depends on the registration order (negation witness
for layouts outside the hypothesis) -/
theorem C02.api_route_overlap_witness :
    route [("A", ["x", "y"]), ("B", ["x"])] "x" = some "A" ∧ route [("B", ["x"]), ("A", ["x", "y"])] "x" = some "B" := by
  decide

example : DisjointCols [("A", ["x", "y"]), ("B", ["z"])] := by
  intro a ha b hb c hca hcb
  simp at ha hb
  rcases ha with rfl | rfl <;> rcases hb with rfl | rfl <;> simp_all
