import MlodaVerif.Model.Options
import MlodaVerif.Gen.OptionsAcc
/-! # C15 – the accessor methods of `Options` in the model equal the translation of options.py

`Gen/OptionsAcc.lean` is the translation (harness/pytrans.py, every run) of `Options.get`, `set`, `__contains__`, `items`,
`keys`.  `get` is what every feature group reads its configuration through (`Options.get`, `FeatureSet.get_options_key`):
"group first, and a group value is returned whatever it is - `0`, `False`, `""` included; only then the context". -/
open PyRt

theorem PyDict.has_iff_get?_isSome (d : PyDict) (k : String) : PyDict.has d k = (PyDict.get? d k).isSome := by
  unfold PyDict.has PyDict.get? PyDict.keys
  induction d with
  | nil => simp
  | cons kv t ih =>
    obtain ⟨a, v⟩ := kv
    by_cases h : k = a
    · subst h; simp [List.lookup]
    · have h' : (k == a) = false := by simpa using h
      simp only [List.map_cons, List.contains_cons, h', Bool.false_or, List.lookup]
      simpa using ih

/-- `Options.get` never raises and is the model's `Options.get` -/
theorem C15.gen_get (o : Options) (k : String) : Gen.OptionsAcc.get o k = .ok (o.get k) := by
  unfold Gen.OptionsAcc.get Options.get
  rw [PyDict.has_iff_get?_isSome]
  cases h : PyDict.get? o.group k with
  | none => simp [h, pure, Except.pure]
  | some v => simp [h, PyDict.getItem, bind, Except.bind, pure, Except.pure]

/-- a key that is in the group is answered from the group, whatever the value (falsy values included) -/
theorem C15.gen_get_group_value_wins (o : Options) (k : String) (v : PyVal) (h : PyDict.get? o.group k = some v) :
    Gen.OptionsAcc.get o k = .ok v := by
  rw [C15.gen_get]; simp [Options.get, h]

theorem C15.gen_set (o : Options) (k : String) (v : PyVal) : Gen.OptionsAcc.setKey o k v = .ok (o.setKey k v) := by
  unfold Gen.OptionsAcc.setKey Options.setKey
  by_cases h1 : PyDict.has o.group k <;> by_cases h2 : PyDict.has o.context k <;> simp [h1, h2, pure, Except.pure]

theorem C15.gen_contains (o : Options) (k : String) : Gen.OptionsAcc.contains o k = .ok (o.contains k) := by
  simp [Gen.OptionsAcc.contains, Options.contains, pure, Except.pure]

theorem C15.gen_items (o : Options) : Gen.OptionsAcc.items o = .ok o.items := by
  simp [Gen.OptionsAcc.items, Options.items, pure, Except.pure]

theorem C15.gen_keys (o : Options) : Gen.OptionsAcc.allKeys o = .ok o.allKeys := by
  simp [Gen.OptionsAcc.allKeys, Options.allKeys, pure, Except.pure]

/-- non-vacuity: a falsy group value is returned, the context is not consulted -/
example : Gen.OptionsAcc.get { group := [("factor", .int 0)], context := [("other", .int 5)], propagate := [] } "factor" = .ok (.int 0) := by
  rfl
