import MlodaVerif.Lemmas.Select
import MlodaVerif.Lemmas.SelectFlags
import MlodaVerif.Gen.SelectApi
/-! # C03 - the result contains exactly the requested features' columns

Model: `MlodaVerif/Model/Select.lean`.  Vocabulary (`OwnCol`, `Clash`, `NoPrefixClash`, `NoSelfClash`) in
`Lemmas/Select.lean`.  All theorems quantify over arbitrary lists (= arbitrary set iteration orders, arbitrary graphs);
`decide` appears only in closed negation witnesses and non-vacuity examples. -/
open Select

/-! ## A. `identify_naming_convention` -/

/-- The selection, for every ordering mode and every iteration order, is exactly
`{c ∈ cols | ∃ q ∈ requested, c = q ∨ c starts with q ++ "~"}`. -/
theorem C03.select_exact (req cols : List Name) (o : ColOrder) (out : List Name)
    (h : identify req cols o = .ok out) (c : Name) :
    c ∈ out ↔ c ∈ cols ∧ ∃ q ∈ req, (c = q ∨ (q ++ [tilde]) <+: c) := by
  unfold identify at h
  simp only at h
  split at h
  · cases h
  · cases o <;> simp only [Except.ok.injEq] at h <;> subst h
    · simp [mem_selectedSet, matchesQ_iff]
    · simp [mem_sortNames, mem_selectedSet, matchesQ_iff]
    · rw [mem_blocks]; simp only [mem_selectedSet, matchesQ_iff]
      constructor
      · rintro ⟨⟨hc, _⟩, h2⟩; exact ⟨hc, h2⟩
      · rintro ⟨hc, h2⟩; exact ⟨⟨hc, h2⟩, h2⟩

/-- The only failure is "no column matches", and it is raised exactly then (the function never invents a column and
never fails on a non-empty selection). -/
theorem C03.select_error_iff (req cols : List Name) (o : ColOrder) :
    (∃ e, identify req cols o = .error e) ↔ ¬ ∃ c ∈ cols, ∃ q ∈ req, OwnCol q c := by
  unfold identify
  simp only
  by_cases hs : (selectedSet req cols).isEmpty = true
  · simp only [hs, if_true]
    have : selectedSet req cols = [] := by simpa using hs
    constructor
    · rintro _ ⟨c, hc, q, hq, hm⟩
      have : c ∈ selectedSet req cols := mem_selectedSet.mpr ⟨hc, q, hq, matchesQ_iff_own.mpr hm⟩
      simp_all
    · intro _; exact ⟨_, rfl⟩
  · simp only [hs]
    have hne : selectedSet req cols ≠ [] := by simpa using hs
    obtain ⟨c, hc⟩ := List.exists_mem_of_ne_nil _ hne
    obtain ⟨hc1, q, hq, hm⟩ := mem_selectedSet.mp hc
    constructor
    · rintro ⟨e, he⟩; cases o <;> simp at he
    · intro hn; exact absurd ⟨c, hc1, q, hq, matchesQ_iff_own.mp hm⟩ hn

/-- a successful selection is never empty -/
theorem C03.select_nonempty (req cols : List Name) (o : ColOrder) (out : List Name)
    (h : identify req cols o = .ok out) : out ≠ [] := by
  have hsel : selectedSet req cols ≠ [] := by
    unfold identify at h; simp only at h; split at h
    · cases h
    · rename_i hne; simpa using hne
  obtain ⟨c, hc⟩ := List.exists_mem_of_ne_nil _ hsel
  obtain ⟨hc1, q, hq, hm⟩ := mem_selectedSet.mp hc
  have : c ∈ out := (C03.select_exact req cols o out h c).mpr ⟨hc1, q, hq, matchesQ_iff.mp hm⟩
  exact List.ne_nil_of_mem this

/-- Under the hygiene hypothesis `NoPrefixClash requested others` no column of a non-requested feature (intermediate,
index, filter feature …) is selected. -/
theorem C03.select_no_foreign (req others cols : List Name) (o : ColOrder) (out : List Name)
    (hyg : NoPrefixClash req others) (h : identify req cols o = .ok out) :
    ∀ f ∈ others, ∀ c, OwnCol f c → c ∉ out := by
  intro f hf c hown hc
  obtain ⟨_, q, hq, hm⟩ := (C03.select_exact req cols o out h c).mp hc
  exact hyg q hq f hf (clash_of_common_col hm hown)

/-- The hygiene hypothesis holds whenever feature names contain no `~` and requested / non-requested names are
disjoint (the situation of every ordinary request). -/
theorem C03.hygiene_of_noTilde (req others : List Name)
    (hr : ∀ q ∈ req, tilde ∉ q) (ho : ∀ f ∈ others, tilde ∉ f) (hd : ∀ q ∈ req, q ∉ others) :
    NoPrefixClash req others := by
  intro q hq f hf
  exact not_clash_of_noTilde (hr q hq) (ho f hf) (fun e => hd q hq (e ▸ hf))

/-- `alphabetical`: the output is sorted (Python string order) and is a permutation of the selection. -/
theorem C03.select_alphabetical_sorted (req cols out : List Name)
    (h : identify req cols .alphabetical = .ok out) :
    out.Pairwise (fun a b => lexLe a b = true) ∧ out.Perm (selectedSet req cols) := by
  unfold identify at h
  simp only at h
  split at h
  · cases h
  · simp only [Except.ok.injEq] at h; subst h
    exact ⟨sortNames_sorted _, sortNames_perm _⟩

/-- `lexLe` really is a linear order, so "sorted" has its usual meaning. -/
theorem C03.lexLe_linear_order :
    (∀ a b c : Name, lexLe a b = true → lexLe b c = true → lexLe a c = true) ∧
    (∀ a b : Name, lexLe a b = true ∨ lexLe b a = true) ∧
    (∀ a b : Name, lexLe a b = true → lexLe b a = true → a = b) := by
  refine ⟨lexLe_trans, ?_, lexLe_antisymm⟩
  intro a b; simpa using lexLe_total a b

/-- Order independence: permuting the request (request order, hash seed of the `FeatureName` set) and the column set
(hash seed of the `str` set) leaves the `alphabetical` result *identical*, and the `None` result the same set; whether
the call fails is also unaffected. -/
theorem C03.select_perm_invariant (req req' cols cols' : List Name) (hr : req.Perm req') (hc : cols.Perm cols') :
    identify req cols .alphabetical = identify req' cols' .alphabetical ∧
    (∀ o, (identify req cols o).isOk = (identify req' cols' o).isOk) ∧
    (∀ out out', identify req cols .unordered = .ok out → identify req' cols' .unordered = .ok out' → out.Perm out') := by
  have hp := selectedSet_perm hr hc
  have he : (selectedSet req cols).isEmpty = (selectedSet req' cols').isEmpty := by
    rw [Bool.eq_iff_iff]; simp only [List.isEmpty_iff]
    constructor
    · intro h; rw [h] at hp; exact List.perm_nil.mp hp.symm |> fun x => by simpa using x
    · intro h; rw [h] at hp; simpa using hp
  refine ⟨?_, ?_, ?_⟩
  · unfold identify; simp only [he, sortNames_eq_of_perm hp]
  · intro o; unfold identify; simp only [he]
    split <;> cases o <;> rfl
  · intro out out' h1 h2
    unfold identify at h1 h2; simp only at h1 h2
    split at h1
    · cases h1
    · split at h2
      · cases h2
      · simp only [Except.ok.injEq] at h1 h2; subst h1; subst h2; exact hp

/-- `request_order`: the output is the concatenation, **in the order of the list passed in**, of each feature's sorted
own columns (`ownBlock`).  In the code the list passed in is the iteration order of a `set` of `FeatureName`. -/
theorem C03.request_order_follows_passed (passed cols out : List Name)
    (h : identify passed cols .requestOrder = .ok out) :
    out = passed.flatMap (ownBlock cols) ∧
    ∀ q, (ownBlock cols q).Pairwise (fun a b => lexLe a b = true) ∧ ∀ c, c ∈ ownBlock cols q ↔ (c ∈ cols ∧ OwnCol q c) := by
  constructor
  · unfold identify at h
    simp only at h
    split at h
    · cases h
    · simp only [Except.ok.injEq] at h; subst h
      apply flatMap_congr'
      intro q hq
      exact block_selectedSet hq
  · intro q
    exact ⟨sortNames_sorted _, fun c => by simp [ownBlock, mem_sortNames, List.mem_filter, matchesQ_iff_own]⟩

/-- Full statement of the property ("with `request_order` columns follow the request"): `out = FollowsRequest user cols`
for the user's list `user`.  It holds under the explicit hypothesis that the set iterates in request order … -/
theorem C03.request_order_partial (user passed cols out : List Name) (hpass : passed = user)
    (h : identify passed cols .requestOrder = .ok out) : out = user.flatMap (ownBlock cols) := by
  subst hpass; exact (C03.request_order_follows_passed _ _ _ h).1

/-- … and fails otherwise: a permutation of the user's request (another hash seed) gives a different column order. -/
theorem C03.request_order_witness :
    ∃ user passed cols out : List Name, passed.Perm user ∧ identify passed cols .requestOrder = .ok out ∧
      out ≠ user.flatMap (ownBlock cols) :=
  ⟨[[98], [116], [97]], [[116], [98], [97]], [[97], [98], [116]], [[116], [98], [97]], by decide, by decide, by decide⟩

/-- With `request_order` the same columns are returned as with the other modes, each once, provided distinct requested
names cannot own the same column (`NoSelfClash`). -/
theorem C03.request_order_same_columns (req cols out : List Name) (hc : cols.Nodup) (hs : NoSelfClash req)
    (h : identify req cols .requestOrder = .ok out) : out.Nodup ∧ out.Perm (selectedSet req cols) := by
  have hout := (C03.request_order_follows_passed req cols out h).1
  have hnd : out.Nodup := by
    subst hout
    unfold List.Nodup
    rw [List.pairwise_flatMap]
    constructor
    · intro q _
      exact (sortNames_perm _).nodup_iff.mpr (List.Nodup.sublist List.filter_sublist hc)
    · refine List.Pairwise.imp ?_ hs
      intro a b hab x hx y hy hxy
      subst hxy
      simp only [ownBlock, mem_sortNames, List.mem_filter, matchesQ_iff_own] at hx hy
      exact hab (clash_of_common_col hx.2 hy.2)
  refine ⟨hnd, (List.perm_ext_iff_of_nodup hnd (selectedSet_nodup hc)).mpr ?_⟩
  intro c
  rw [C03.select_exact req cols .requestOrder out h c, mem_selectedSet]
  simp only [matchesQ_iff]

/-- without `NoSelfClash` the `request_order` branch returns a column twice (request `a` and `a~1`) -/
theorem C03.request_order_duplicate_witness :
    identify [[97], [97, 126, 49]] [[97], [97, 126, 49]] .requestOrder = .ok [[97], [97, 126, 49], [97, 126, 49]] := by
  decide

/-! ## B. sub-column requests -/

/-- Property text: "a `name~i` request yields only that column".  True whenever the requested name reaches the selection
unchanged (`set_feature_name` did not normalise it) and no `name~i~…` column exists. -/
theorem C03.subcolumn_partial (supported cols : List Name) (n : Name) (o : ColOrder) (out : List Name)
    (hnorm : setFeatureName supported n = n) (hnd : cols.Nodup) (hnest : ∀ c ∈ cols, ¬ (n ++ [tilde]) <+: c)
    (h : identify [setFeatureName supported n] cols o = .ok out) : out = [n] := by
  rw [hnorm] at h
  have hmem : ∀ c, c ∈ out ↔ c = n := by
    intro c
    rw [C03.select_exact _ _ _ _ h c]
    constructor
    · rintro ⟨hc, q, hq, h1 | h1⟩
      · simp at hq; subst hq; exact h1
      · simp at hq; subst hq; exact absurd h1 (hnest c hc)
    · rintro rfl
      have hne : out ≠ [] := C03.select_nonempty _ _ _ _ h
      obtain ⟨x, hx⟩ := List.exists_mem_of_ne_nil _ hne
      obtain ⟨hxc, q, hq, h1⟩ := (C03.select_exact _ _ _ _ h x).mp hx
      simp at hq; subst hq
      rcases h1 with h1 | h1
      · subst h1; exact ⟨hxc, _, by simp, Or.inl rfl⟩
      · exact absurd h1 (hnest x hxc)
  have hsel : selectedSet [n] cols ≠ [] ∧ (selectedSet [n] cols).Nodup := by
    refine ⟨?_, selectedSet_nodup hnd⟩
    unfold identify at h; simp only at h; split at h
    · cases h
    · rename_i hne; simpa using hne
  have hnodup : out.Nodup := by
    cases o
    · unfold identify at h; simp only at h; split at h
      · cases h
      · simp only [Except.ok.injEq] at h; subst h; exact hsel.2
    · exact (C03.select_alphabetical_sorted _ _ _ h).2.nodup_iff.mpr hsel.2
    · refine (C03.request_order_same_columns [n] cols out hnd ?_ h).1
      simp [NoSelfClash]
  have : out.Perm [n] := (List.perm_ext_iff_of_nodup hnodup (by simp)).mpr (by intro c; simp [hmem c])
  exact List.perm_singleton.mp this

/-- What the code does instead when the base name is in `feature_names_supported`: the request is normalised to the
base name and **every** `base~*` column is returned. -/
theorem C03.subcolumn_normalised_selects_all (supported cols : List Name) (n : Name) (o : ColOrder) (out : List Name)
    (hne : baseName n ≠ n) (hsup : baseName n ∈ supported)
    (h : identify [setFeatureName supported n] cols o = .ok out) :
    ∀ c ∈ cols, (baseName n ++ [tilde]) <+: c → c ∈ out := by
  have hn : setFeatureName supported n = baseName n := by
    unfold setFeatureName; simp [hne, hsup]
  rw [hn] at h
  intro c hc hp
  exact (C03.select_exact _ _ _ _ h c).mpr ⟨hc, _, by simp, Or.inr hp⟩

/-- negation witness of the full sub-column statement: request `mc~1`, group supporting `mc`, columns `mc~0,mc~1,mc~2` -/
theorem C03.subcolumn_witness :
    identify [setFeatureName [[109, 99]] [109, 99, 126, 49]] [[109, 99, 126, 48], [109, 99, 126, 49], [109, 99, 126, 50]] .alphabetical
      = .ok [[109, 99, 126, 48], [109, 99, 126, 49], [109, 99, 126, 50]] ∧
    identify [[109, 99, 126, 49]] [[109, 99, 126, 48], [109, 99, 126, 49], [109, 99, 126, 50]] .alphabetical
      = .ok [[109, 99, 126, 49]] := by
  decide

/-! ## C. who carries `initial_requested_data` -/

/-- Unconditionally: a flag in the engine's collection always stems from a request feature, stored under its group and
normalised name - no dependency, filter feature or index column is ever flagged by the engine itself. -/
theorem C03.only_requested_flagged (w : World) (fuel : Nat) (req : List Name) (coll : List Entry)
    (h : processRequest w fuel req = .ok coll) (gid : Nat) (n : Name) :
    n ∈ flaggedOf coll gid → ∃ q ∈ req, reqKey w q = some (gid, n) := by
  rw [mem_flaggedOf]
  rintro ⟨e, he, rfl, rfl, hr⟩
  exact ((processRequest_inv h).sound e he hr).2

/-- Full statement ("every requested feature is flagged, whatever the order of the request and whether or not it is also
a filter / index feature") holds under the decidable hygiene hypothesis `noAuxClash`: the flagged names of every group
are exactly the request's. -/
theorem C03.flags_exact_partial (w : World) (fuel : Nat) (req : List Name) (coll : List Entry)
    (h : processRequest w fuel req = .ok coll) (hyg : noAuxClash w req = true) (gid : Nat) (n : Name) :
    n ∈ flaggedOf coll gid ↔ ∃ q ∈ req, reqKey w q = some (gid, n) := by
  constructor
  · exact C03.only_requested_flagged w fuel req coll h gid n
  · rintro ⟨q, hq, hk⟩
    rw [mem_flaggedOf]
    have := flagged_complete (w := w) (fuel := fuel) req [] [] coll (FlagInv.nil w) (by simp) hyg h q (by simpa using hq) _ hk
    exact this

/-- … hence, under hygiene, the flags do not depend on the order of the request list. -/
theorem C03.flags_perm_invariant_partial (w : World) (fuel : Nat) (req req' : List Name) (coll coll' : List Entry)
    (hp : req.Perm req') (h : processRequest w fuel req = .ok coll) (h' : processRequest w fuel req' = .ok coll')
    (hyg : noAuxClash w req = true) (gid : Nat) (n : Name) :
    n ∈ flaggedOf coll gid ↔ n ∈ flaggedOf coll' gid := by
  have hyg' : noAuxClash w req' = true := by
    unfold noAuxClash at *
    rw [List.all_eq_true] at *
    intro q hq; exact hyg q (hp.mem_iff.mpr hq)
  rw [C03.flags_exact_partial w fuel req coll h hyg, C03.flags_exact_partial w fuel req' coll' h' hyg']
  constructor
  · rintro ⟨q, hq, hk⟩; exact ⟨q, hp.mem_iff.mp hq, hk⟩
  · rintro ⟨q, hq, hk⟩; exact ⟨q, hp.mem_iff.mpr hq, hk⟩

/-- Negation witness of the full statement: group 0 = `{ka, x}` with linked index column `ka`.  Request `[x, ka]` loses
the flag of `ka` (the index feature added while processing `x` is equal to it), request `[ka, x]` keeps it. -/
theorem C03.flags_witness :
    let w : World := { groups := [{ criteria := [[107, 97], [120]], supported := [[107, 97], [120]], parents := [], index := [[107, 97]] }], filters := [] }
    (processRequest w 2 [[120], [107, 97]]).map (fun c => flaggedOf c 0) = .ok [[120]] ∧
    (processRequest w 2 [[107, 97], [120]]).map (fun c => flaggedOf c 0) = .ok [[107, 97], [120]] := by
  decide

/-! ## D. the returned tables -/

/-- A step contributes a table iff it carries a flagged feature, and the table is the selection by the flagged names. -/
theorem C03.step_table_iff (fw : Fw) (o : ColOrder) (s : Step) :
    (s.flagged = [] → stepTable fw o s = .ok none) ∧
    (s.flagged ≠ [] → stepTable fw o s = (selectCols fw s.flagged s.cols o).map some) := by
  unfold stepTable
  constructor
  · intro h; simp [h]
  · intro h; simp [h]

/-- the columns of a returned table, on every framework, are those `identify` selects -/
theorem C03.selectCols_mem (fw : Fw) (req cols : List Name) (o : ColOrder) (out : List Name)
    (h : selectCols fw req cols o = .ok out) (c : Name) :
    c ∈ out ↔ c ∈ cols ∧ ∃ q ∈ req, OwnCol q c := by
  cases fw
  · exact C03.select_exact req cols o out h c
  · exact C03.select_exact req cols o out h c
  · unfold selectCols at h
    simp only at h
    cases hi : identify req cols o with
    | error e => rw [hi] at h; cases h
    | ok out' =>
      rw [hi] at h; simp only [Except.map, Except.ok.injEq] at h; subst h
      rw [List.mem_eraseDups]; exact C03.select_exact req cols o out' hi c

/-- End to end, for every plan (list of steps with their flagged names and data columns): if each step's data contains
a column of each of its flagged features, flagged names never clash with each other (`NoSelfClash`) nor with a
non-requested feature (`NoPrefixClash`), then the run succeeds, **every requested feature appears in a returned table**
(its own step's), **in no other step's table**, and **no table contains a column of a non-requested feature**. -/
theorem C03.tables_exact_partial (fw : Fw) (o : ColOrder) (steps : List Step) (others : List Name)
    (hcomp : ∀ s ∈ steps, ∀ q ∈ s.flagged, ∃ c ∈ s.cols, OwnCol q c)
    (hself : NoSelfClash (steps.flatMap (·.flagged)))
    (hyg : NoPrefixClash (steps.flatMap (·.flagged)) others) :
    ∃ ts, results fw o steps = .ok ts ∧
      (∀ s ∈ steps, ∀ q ∈ s.flagged, ∃ t, stepTable fw o s = .ok (some t) ∧ t ∈ ts ∧ ∃ c ∈ t, OwnCol q c) ∧
      steps.Pairwise (fun s₁ s₂ =>
        (∀ q ∈ s₁.flagged, ∀ t, stepTable fw o s₂ = .ok (some t) → ∀ c ∈ t, ¬ OwnCol q c) ∧
        (∀ q ∈ s₂.flagged, ∀ t, stepTable fw o s₁ = .ok (some t) → ∀ c ∈ t, ¬ OwnCol q c)) ∧
      (∀ t ∈ ts, ∀ f ∈ others, ∀ c, OwnCol f c → c ∉ t) := by
  -- every step with a flagged feature yields a table
  have hstep : ∀ s ∈ steps, s.flagged ≠ [] → ∃ t, stepTable fw o s = .ok (some t) ∧
      ∀ c, c ∈ t ↔ c ∈ s.cols ∧ ∃ q ∈ s.flagged, OwnCol q c := by
    intro s hs hne
    obtain ⟨q, hq⟩ := List.exists_mem_of_ne_nil _ hne
    obtain ⟨c, hc, hown⟩ := hcomp s hs q hq
    have hid : ∃ out, identify s.flagged s.cols o = .ok out := by
      cases hi : identify s.flagged s.cols o with
      | ok out => exact ⟨out, rfl⟩
      | error e => exact absurd ⟨c, hc, q, hq, hown⟩ ((C03.select_error_iff _ _ o).mp ⟨e, hi⟩)
    obtain ⟨out, hout⟩ := hid
    have hsel : ∃ t, selectCols fw s.flagged s.cols o = .ok t := by
      cases fw <;> simp [selectCols, hout, Except.map]
    obtain ⟨t, ht⟩ := hsel
    refine ⟨t, ?_, C03.selectCols_mem fw _ _ o t ht⟩
    rw [(C03.step_table_iff fw o s).2 hne, ht]; rfl
  have hall : ∀ s ∈ steps, ∃ t, stepTable fw o s = .ok t := by
    intro s hs
    by_cases hne : s.flagged = []
    · exact ⟨none, (C03.step_table_iff fw o s).1 hne⟩
    · obtain ⟨t, ht, _⟩ := hstep s hs hne; exact ⟨some t, ht⟩
  obtain ⟨ts, hts⟩ := results_of_all_ok hall
  -- a table only holds columns owned by flagged names of its own step
  have htab : ∀ s ∈ steps, ∀ t, stepTable fw o s = .ok (some t) → ∀ c ∈ t, ∃ q ∈ s.flagged, OwnCol q c := by
    intro s hs t ht c hc
    by_cases hne : s.flagged = []
    · rw [(C03.step_table_iff fw o s).1 hne] at ht; cases ht
    · obtain ⟨t', ht', hmem⟩ := hstep s hs hne
      rw [ht'] at ht; cases ht
      exact ((hmem c).mp hc).2
  refine ⟨ts, hts, ?_, ?_, ?_⟩
  · intro s hs q hq
    have hne : s.flagged ≠ [] := List.ne_nil_of_mem hq
    obtain ⟨t, ht, hmem⟩ := hstep s hs hne
    obtain ⟨c, hc, hown⟩ := hcomp s hs q hq
    exact ⟨t, ht, (mem_results hts t).mpr ⟨s, hs, ht⟩, c, (hmem c).mpr ⟨hc, q, hq, hown⟩, hown⟩
  · have hp : steps.Pairwise (fun s₁ s₂ => ∀ x ∈ s₁.flagged, ∀ y ∈ s₂.flagged, ¬ Clash x y) := by
      unfold NoSelfClash at hself; rw [List.pairwise_flatMap] at hself; exact hself.2
    -- strengthen with membership to use `htab`
    have hp' : steps.Pairwise (fun s₁ s₂ => s₁ ∈ steps ∧ s₂ ∈ steps ∧ ∀ x ∈ s₁.flagged, ∀ y ∈ s₂.flagged, ¬ Clash x y) := by
      rw [List.pairwise_iff_forall_sublist] at hp ⊢
      intro a b hab
      have ha : a ∈ steps := hab.subset (by simp)
      have hb : b ∈ steps := hab.subset (by simp)
      exact ⟨ha, hb, hp hab⟩
    refine List.Pairwise.imp ?_ hp'
    rintro s₁ s₂ ⟨h1, h2, hcl⟩
    constructor
    · intro q hq t ht c hc hown
      obtain ⟨q', hq', hown'⟩ := htab s₂ h2 t ht c hc
      exact hcl q hq q' hq' (clash_of_common_col hown hown')
    · intro q hq t ht c hc hown
      obtain ⟨q', hq', hown'⟩ := htab s₁ h1 t ht c hc
      exact hcl q' hq' q hq (clash_of_common_col hown' hown)
  · intro t ht f hf c hown hc
    obtain ⟨s, hs, hst⟩ := (mem_results hts t).mp ht
    obtain ⟨q, hq, hown'⟩ := htab s hs t hst c hc
    exact hyg q (List.mem_flatMap.mpr ⟨s, hs, hq⟩) f hf (clash_of_common_col hown' hown)

/-! ## D'. every planned feature lands in exactly one feature set (= one step, one result table) -/

/-- For every set of planned features of a group - any mix of declared data types, untyped features and options, in any
iteration order - the feature sets built by `group_features_by_compute_framework_and_options` are a partition: each
feature is a member of exactly one feature set (the members, with multiplicity, are a permutation of the input). -/
theorem C03.grouping_partition (fs : List TFeat) : (members (groupByType fs)).Perm fs := by
  unfold groupByType
  simp only
  refine (members_foldl_join _ _).trans ?_
  refine ((members_foldl_insert _ []).append_right _).trans ?_
  simp only [members, List.flatMap_nil, List.nil_append]
  exact List.filter_append_perm _ fs

/-- … and the feature sets respect the split: all members share the set's options, typed members its data type. -/
theorem C03.grouping_respects_keys (fs : List TFeat) :
    ∀ b ∈ groupByType fs, ∀ f ∈ b.2, f.opt = b.1.1 ∧ (f.dtype.isSome → f.dtype = b.1.2) := by
  unfold groupByType
  simp only
  have h1 : ∀ (l : List TFeat) (bs : List Bucket), (∀ b ∈ bs, KeyOK b) →
      ∀ b ∈ l.foldl (fun bs f => insertBucket bs (f.opt, f.dtype) f) bs, KeyOK b := by
    intro l
    induction l with
    | nil => intro bs h; simpa using h
    | cons f l ih => intro bs h; simp only [List.foldl_cons]; exact ih _ (keyOK_insertBucket bs f h)
  have h2 : ∀ (l : List TFeat) (bs : List Bucket), (∀ f ∈ l, f.dtype = none) → (∀ b ∈ bs, KeyOK b) →
      ∀ b ∈ l.foldl joinFirst bs, KeyOK b := by
    intro l
    induction l with
    | nil => intro bs _ h; simpa using h
    | cons f l ih =>
      intro bs hl h
      simp only [List.foldl_cons]
      exact ih _ (fun x hx => hl x (by simp [hx])) (keyOK_joinFirst bs f (hl f (by simp)) h)
  intro b hb
  exact h2 _ _ (by intro f hf; have := (List.mem_filter.mp hf).2; cases hd : f.dtype <;> simp_all) (h1 _ [] (by simp)) b hb

/-- The early exit matters: if an untyped feature joined EVERY typed feature set with equal options, a request mixing two
declared types and an untyped feature would put that feature into two feature sets (two steps, two tables). -/
theorem C03.grouping_first_match_needed_witness :
    let fs : List TFeat := [{ name := [97], opt := 0, dtype := some 1 }, { name := [98], opt := 0, dtype := some 2 },
                            { name := [99], opt := 0, dtype := none }]
    (members (groupByTypeAll fs)).length = 4 ∧ (members (groupByType fs)).length = 3 := by
  decide

/-! ## E. accepted `column_ordering` values (table regenerated from the code on every run) -/

/-- the model's guard accepts exactly the strings the code accepts, on every probe the extractor tried, both in
`identify_naming_convention` and in `mlodaAPI.__init__` -/
theorem C03.orderings_table :
    ∀ p ∈ Gen.orderingProbes, (parseOrder (some p.1)).isOk = p.2.1 ∧ (parseOrder (some p.1)).isOk = p.2.2 := by
  decide

/-! ## non-vacuity -/

/-- hygiene hypotheses are satisfiable together with a non-trivial selection: request `{mc, a}` over columns
`a, b, mc~0, mc~1, idx` selects `a, mc~0, mc~1`, sorted -/
example : NoPrefixClash [[109, 99], [97]] [[98], [105, 100, 120]] ∧ NoSelfClash [[109, 99], [97]] ∧
    identify [[109, 99], [97]] [[98], [109, 99, 126, 49], [97], [105, 100, 120], [109, 99, 126, 48]] .alphabetical
      = .ok [[97], [109, 99, 126, 48], [109, 99, 126, 49]] := by decide

/-- `noAuxClash` holds for a request that mixes a dependency and a derived feature, with a filter on a non-requested column -/
example :
    let w : World := { groups := [{ criteria := [[97], [98]], supported := [[97], [98]], parents := [], index := [] },
                                  { criteria := [[122]], supported := [[122]], parents := [([122], [[97]])], index := [] }], filters := [[98]] }
    noAuxClash w [[122], [97]] = true ∧
    (processRequest w 3 [[122], [97]]).map (fun c => (flaggedOf c 0, flaggedOf c 1)) = .ok ([[97]], [[122]]) := by decide

/-- the hypotheses of `tables_exact_partial` hold for a two-step plan whose second step's data also contains the first
step's column -/
example :
    let steps : List Step := [{ flagged := [[97]], cols := [[97], [98]] }, { flagged := [[122]], cols := [[97], [122]] }]
    NoSelfClash (steps.flatMap (·.flagged)) ∧ NoPrefixClash (steps.flatMap (·.flagged)) [[98]] ∧
    results .pyarrow .requestOrder steps = .ok [[[97]], [[122]]] := by decide
