import MlodaVerif.Lemmas.Exec
import MlodaVerif.Lemmas.SchedFail
/-! # C06 - results do not depend on the execution mode

Data-flow model `Exec`: every step of a link-free single-framework plan works on one shared compute-framework object;
it snapshots `cfw.data` at `begin` and writes its extended copy back at `finish`.  SYNC and MULTIPROCESSING serialise
the steps of one object (`atomic = true`; MP: one worker process with a FIFO command queue per object), THREADING does
not.  Theorems are for every plan with disjoint outputs whose steps require the direct parents of what they compute,
every interleaving, and any value type and column functions. -/
open Sched Exec

variable {V : Type}

/-- under a serialised executor, whenever the run returns, the shared data holds for every uuid of the plan exactly its
reference value - whatever the interleaving of main-loop visits and worker events was -/
theorem C06.result_is_reference (cfg : Cfg V) (ref : Nat → V) (p : Plan) (hd : DisjointOuts p) (hne : NonemptyOuts p)
    (hpc : ParentsCovered p cfg.parents) (href : IsRef cfg ref) (evs : List Ev)
    (hret : (erun cfg true p einit evs).s.returned = true) :
    ∀ c ∈ allOuts p, lookup (erun cfg true p einit evs).store c = some (ref c) := by
  intro c hc
  have hi := einv_run hd hpc href (V := V) evs
  have hr := erun_reach cfg true p evs
  have hf := finv_reach hr
  have hall := hf.ret_fin hret
  -- the producer of c is collected, hence done
  simp only [allOuts, List.mem_flatMap] at hc
  obtain ⟨st, hst, hcst⟩ := hc
  obtain ⟨i, hlt, rfl⟩ := List.mem_iff_getElem.mp hst
  have hget : p[i]? = some p[i] := List.getElem?_eq_getElem hlt
  have hcfin : c ∈ (erun cfg true p einit evs).s.finished := by
    simp only [List.all_eq_true, decide_eq_true_eq] at hall
    apply hall; simp only [allOuts, List.mem_flatMap]; exact ⟨p[i], hst, hcst⟩
  obtain ⟨j, sj, hj1, hj2, hj3⟩ := hi.sinv.fin_owner c hcfin
  have hjdone := hi.sinv.coll_sub j hj1
  obtain ⟨v, hv⟩ := (hi.store_has c).mpr ⟨j, sj, hjdone, hj2, hj3⟩
  rw [hv, hi.store_ok c v hv]

/-- schedule independence: two returning runs of the same plan under serialised executors - any two interleavings,
SYNC or MULTIPROCESSING - end with the same value for every uuid of the plan -/
theorem C06.schedule_independent (cfg : Cfg V) (ref : Nat → V) (p : Plan) (hd : DisjointOuts p) (hne : NonemptyOuts p)
    (hpc : ParentsCovered p cfg.parents) (href : IsRef cfg ref) (evs₁ evs₂ : List Ev)
    (h₁ : (erun cfg true p einit evs₁).s.returned = true) (h₂ : (erun cfg true p einit evs₂).s.returned = true) :
    ∀ c ∈ allOuts p, lookup (erun cfg true p einit evs₁).store c = lookup (erun cfg true p einit evs₂).store c := by
  intro c hc
  rw [C06.result_is_reference cfg ref p hd hne hpc href evs₁ h₁ c hc,
      C06.result_is_reference cfg ref p hd hne hpc href evs₂ h₂ c hc]

/-- under a serialised executor at most one step of the shared object is open at any time, and an open step's
snapshot is the current data: nobody else writes while it computes -/
theorem C06.serialised_no_interference (cfg : Cfg V) (ref : Nat → V) (p : Plan) (hd : DisjointOuts p)
    (hpc : ParentsCovered p cfg.parents) (href : IsRef cfg ref) (evs : List Ev) (i j : Nat)
    (hi : Open (erun cfg true p einit evs).s i) (hj : Open (erun cfg true p einit evs).s j) :
    i = j ∧ snapOf (erun cfg true p einit evs) i = (erun cfg true p einit evs).store := by
  have h := einv_run hd hpc href (V := V) evs
  exact ⟨h.one_open i j hi hj, h.open_snap i hi⟩

/-- THREADING, PARTIAL: an un-serialised run in which no step begins while another step of the shared object is open
(`QuietBegins`: the hypothesis `NoSharedCfwOverlap` of the design, as a property of the run) is step by step the
serialised run - hence returns the reference values, like SYNC and MULTIPROCESSING -/
theorem C06.thread_eq_serialised_partial (cfg : Cfg V) (p : Plan) (evs : List Ev)
    (hq : QuietBegins cfg p (einit : ESt V) evs) :
    erun cfg false p einit evs = erun cfg true p einit evs :=
  (erun_atomic_irrelevant cfg p evs einit hq).symm

theorem C06.thread_result_is_reference_partial (cfg : Cfg V) (ref : Nat → V) (p : Plan) (hd : DisjointOuts p)
    (hne : NonemptyOuts p) (hpc : ParentsCovered p cfg.parents) (href : IsRef cfg ref) (evs : List Ev)
    (hq : QuietBegins cfg p (einit : ESt V) evs) (hret : (erun cfg false p einit evs).s.returned = true) :
    ∀ c ∈ allOuts p, lookup (erun cfg false p einit evs).store c = some (ref c) := by
  rw [C06.thread_eq_serialised_partial cfg p evs hq] at hret ⊢
  exact C06.result_is_reference cfg ref p hd hne hpc href evs hret

/-- THREADING (no serialisation): the lost update is a behaviour of the model.  Root a (uuid 10), M computes m=a+1
(uuid 11), N computes n=a*2 (uuid 12), Z computes z=m+n (uuid 13).  Interleaving begin M, begin N, finish N,
finish M: M writes back its own copy of the data, dropping column n; Z then computes from a missing column
(here: the value 0 stands for "missing"), so z ≠ reference.  The same event list under a serialised executor is fine. -/
theorem C06.thread_lost_update_witness :
    let cfg : Cfg Nat := { parents := fun c => if c = 11 then [10] else if c = 12 then [10] else if c = 13 then [11, 12] else [],
                           compute := fun c vs => if c = 10 then 5 else if c = 11 then (vs.headD none).getD 0 + 1
                                        else if c = 12 then (vs.headD none).getD 0 * 2
                                        else ((vs.headD none).getD 0) + ((vs.getD 1 none).getD 0) }
    let p : Plan := [{ outs := [10], req := [] }, { outs := [11], req := [10] }, { outs := [12], req := [10] },
                     { outs := [13], req := [11, 12] }]
    let evs := [Ev.loopHead, .scan 0, .begin 0, .finish 0, .loopHead, .scan 0, .scan 1, .scan 2, .begin 1, .begin 2,
                .finish 2, .finish 1, .loopHead, .scan 1, .scan 2, .scan 3, .begin 3, .finish 3, .loopHead, .scan 3,
                .loopHead]
    (erun cfg false p einit evs).s.returned = true ∧
    lookup (erun cfg false p einit evs).store 12 = none ∧          -- column n was lost
    lookup (erun cfg false p einit evs).store 13 = some 6 ∧        -- z computed without n: 6 + 0
    lookup (erun cfg true p einit (evs ++ [.begin 2, .finish 2, .loopHead, .scan 2, .scan 3, .begin 3, .finish 3, .loopHead, .scan 3, .loopHead])).store 13
      = some 16 := by                                               -- serialised: z = (5+1) + (5*2)
  decide +kernel

/-- non-vacuity of the hypotheses: the diamond above satisfies them -/
example :
    let parents : Nat → List Nat := fun c => if c = 11 then [10] else if c = 12 then [10] else if c = 13 then [11, 12] else []
    let p : Plan := [{ outs := [10], req := [] }, { outs := [11], req := [10] }, { outs := [12], req := [10] },
                     { outs := [13], req := [11, 12] }]
    disjointOutsB p = true ∧ nonemptyOutsB p = true ∧
      (p.all fun st => st.outs.all fun f => (parents f).all fun a => decide (a ∈ st.req)) = true := by decide
