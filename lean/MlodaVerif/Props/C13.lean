import MlodaVerif.Lemmas.SchedFail
import MlodaVerif.Model.Store
/-! # C13 - streaming yields the same results as the batch call

`compute_stream` is `compute` plus a drain of the result collection at the end of every pass (`popitem`, last in first
out).  In the model both run on the same state: `results` is what the batch call returns, `yielded` what the generator
has produced so far.  All theorems hold for every plan with disjoint non-empty outputs and every event list. -/
open Sched

/-- on normal return the yielded items are exactly the batch results, as multisets -/
theorem C13.stream_eq_batch (p : Plan) (evs : List Ev) (hret : (run p init evs).returned = true) :
    ((run p init evs).yielded).Perm (results p (run p init evs)) := by
  have hf := finv_reach (p := p) ⟨evs, rfl⟩
  have hp := hf.halt_pending (by simp [halted, hret])
  have := hf.yperm
  rw [hp, List.append_nil] at this
  exact this.trans (List.reverse_perm _).symm

/-- nothing is yielded twice, at any point of any run -/
theorem C13.no_duplicates (p : Plan) (hd : DisjointOuts p) (evs : List Ev) :
    ((run p init evs).yielded).Nodup := by
  have hf := finv_reach (p := p) ⟨evs, rfl⟩
  have hi := sinv_reach hd ⟨evs, rfl⟩
  have hn : ((run p init evs).collected.filter (hasResult p)).Nodup := hi.coll_nodup.filter _
  have := hf.yperm.nodup_iff.mpr hn
  exact (List.nodup_append.mp this).1

/-- nothing is lost: on return every result-bearing step of the plan has been yielded exactly once -/
theorem C13.no_loss (p : Plan) (hd : DisjointOuts p) (hne : NonemptyOuts p) (evs : List Ev)
    (hret : (run p init evs).returned = true) (i : Nat) (st : Step) (hst : p[i]? = some st)
    (hres : hasResult p i = true) : (run p init evs).yielded.count i = 1 := by
  have hr : Reach p (run p init evs) := ⟨evs, rfl⟩
  have hi := sinv_reach hd hr
  have hf := finv_reach hr
  -- i is collected: all outs finished at return, its head's owner is i
  obtain ⟨u, hu⟩ := List.exists_mem_of_ne_nil _ (hne st (List.mem_of_getElem? hst))
  have hall := hf.ret_fin hret
  have hufin : u ∈ (run p init evs).finished := by
    simp only [List.all_eq_true, decide_eq_true_eq] at hall
    apply hall; simp only [allOuts, List.mem_flatMap]; exact ⟨st, List.mem_of_getElem? hst, hu⟩
  obtain ⟨j, sj, hj1, hj2, hj3⟩ := hi.fin_owner u hufin
  have : j = i := hd j i sj st hj2 hst u hj3 hu
  subst this
  have hmem : j ∈ (run p init evs).yielded := by
    have hperm := C13.stream_eq_batch p evs hret
    apply hperm.mem_iff.mpr
    simp [results, hj1, hres]
  have hnd := C13.no_duplicates p hd evs
  have h1 := List.nodup_iff_count.mp hnd j
  have h2 : 0 < (run p init evs).yielded.count j := List.count_pos_iff.mpr hmem
  omega

/-- every yielded item is a completed, collected step's table (never a partial one) -/
theorem C13.yield_complete (p : Plan) (hd : DisjointOuts p) (evs : List Ev) (i : Nat)
    (h : i ∈ (run p init evs).yielded) : i ∈ (run p init evs).done ∧ hasResult p i = true := by
  have hr : Reach p (run p init evs) := ⟨evs, rfl⟩
  have hi := sinv_reach hd hr
  have hf := finv_reach hr
  refine ⟨hi.coll_sub i (hi.yielded_coll i h), ?_⟩
  have : i ∈ (run p init evs).collected.filter (hasResult p) :=
    hf.yperm.mem_iff.mp (List.mem_append_left _ h)
  simp at this; exact this.2

/-- a consumer that stops after k items has seen a prefix of what a full drain of the same run yields -/
theorem C13.prefix (p : Plan) (evs more : List Ev) :
    (run p init evs).yielded <+: (run p init (evs ++ more)).yielded := by
  rw [run_append]; exact prefix_run p more _

/-- abandoning or failing the generator releases the run's workers: closing the generator (or an exception thrown into
it) is an exception raised at the `yield` inside the loop of `compute_stream`, so the `finally: self.join()` of
`compute_stream` runs exactly as on any raise - whatever was spawned before the consumer stopped, no worker stays live
(bookkeeping model `Store.compute`; that terminate()/join() end an OS process is observed by the harness) -/
theorem C13.stream_close_releases (spawns : List (Nat × Bool)) (joinFails : Nat → Bool) (h : ∀ t, joinFails t = false) :
    (Store.compute spawns .raised joinFails).1.live = [] := by
  have hsub : ∀ (w : Store.WM), (∀ t ∈ w.live, t ∈ w.tasks) →
      ∀ t ∈ (spawns.foldl (fun w ts => Store.spawn w ts.1 ts.2) w).live,
        t ∈ (spawns.foldl (fun w ts => Store.spawn w ts.1 ts.2) w).tasks := by
    induction spawns with
    | nil => intro w hw; exact hw
    | cons s rest ih =>
      intro w hw
      apply ih
      intro t ht
      simp only [Store.spawn] at ht ⊢
      split at ht
      · simp; exact Or.inl (hw t ht)
      · simp at ht ⊢; rcases ht with ht | ht
        · exact Or.inl (hw t ht)
        · exact Or.inr ht
  simp only [Store.compute, Store.joinAll]
  apply List.filter_eq_nil_iff.mpr
  intro t ht
  simp [h t, hsub {} (by simp) t ht]

/-- non-vacuity: two result steps collected in one pass are yielded in `popitem` (reverse) order -/
example :
    let p : Plan := [{ outs := [10], req := [] }, { outs := [11], req := [] }]
    let evs := [Ev.loopHead, .scan 0, .scan 1, .begin 0, .begin 1, .finish 1, .finish 0, .loopHead, .scan 0, .scan 1,
                .loopHead]
    (run p init evs).returned = true ∧ (run p init evs).yielded = [1, 0] ∧ results p (run p init evs) = [0, 1] := by
  decide
