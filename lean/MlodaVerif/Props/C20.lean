import MlodaVerif.Lemmas.Extender
/-! # C20 - extenders see every wrapped call, in priority order, without changing results

Model: `Model/Extender.lean` (`getFunctionExtender`, `runChain` = `_CompositeExtender.__call__` as coded, `runHook` =
body of `run_calculate_feature` / `run_validate_*_features`).  All theorems quantify over *every* list of extenders (any
length, any priorities incl. ties, any declared hooks, any raise pattern), every set-iteration order, every wrapped
function (stateful, possibly raising: `w k` is the outcome of its k-th call) and every start value `n` of the call
counter.  `decide` is used only for closed witnesses and for the finite `Gen.Hooks` table.

What the text of the property says, and where it is stated:
* "each registered extender is invoked for every call of the kinds it declares" - `every_declared_called`,
  `not_declared_not_called`, `step_covers_all`, `all_steps_covered`, `hooks_*`.
* "several extenders on one kind nest in ascending priority order" - `ascending_priority` (always),
  `ascending_priority_exact` / `passthrough_identity` (exact trace when nothing is re-run).
* "a pass-through extender leaves results identical" - `passthrough_identity`, `result_identity_pure`.
* "an exception raised by one extender of a chain is logged and skipped without losing the wrapped call or the other
  extenders" - `raise_skipped`, `every_declared_called`; the code's way of skipping re-runs the inner chain when the
  extender had already called through: `raise_after_duplicates`, `calls_bound`, `all_raise_after_pow`,
  `raise_after_result_witness` (the result changes only if the wrapped function is not idempotent).
* a single matching extender is called without the protecting `try` - `single_extender_unprotected` (model fact: a
  "chain" in the property's sense needs two extenders).
* the set-iteration order matters only among equal priorities - `perm_invariance`, `perm_invariance_distinct`,
  `tie_order_witness`.
-/
open Extender Gen

/-- Whatever subset of the extenders raises, before or after calling through, and whatever the wrapped function
does: every extender of the set that declares hook `h` is entered during a wrapped call of kind `h`. -/
theorem C20.every_declared_called {α : Type} (w : Wrapped α) (exts : List Ext) (h : Hook) (n : Nat) (e : Ext)
    (he : e ∈ exts) (hw : e.wraps.contains h = true) : Ev.enter e ∈ (runHook w exts h n).trace := by
  have hm : e ∈ matching exts h := (mem_matching exts h e).mpr ⟨he, hw⟩
  unfold runHook
  rcases getFE_cases exts h with ⟨h0, hg⟩ | ⟨e', h1, hg⟩ | ⟨h2, hg⟩ <;> rw [hg]
  · rw [h0] at hm; cases hm
  · rw [h1] at hm; simp at hm; subst hm
    simp only [runSelected, extCall]
    cases e.beh <;> simp
    split <;> simp
  · exact enter_mem w _ n e ((sortPrio_perm _).mem_iff.mpr hm)

/-- only extenders of the set that declare the hook are ever entered -/
theorem C20.not_declared_not_called {α : Type} (w : Wrapped α) (exts : List Ext) (h : Hook) (n : Nat) (b : Ext)
    (hb : b ∈ entries (runHook w exts h n).trace) : b ∈ exts ∧ b.wraps.contains h = true := by
  rw [← mem_matching]
  unfold runHook at hb
  rcases getFE_cases exts h with ⟨h0, hg⟩ | ⟨e', h1, hg⟩ | ⟨h2, hg⟩ <;> rw [hg] at hb
  · simp [runSelected, callWrapped, entries] at hb
  · rw [h1]
    simp only [runSelected, extCall, callWrapped] at hb
    cases hbeh : e'.beh <;> simp [hbeh, entries] at hb
    · split at hb <;> simp [entries] at hb <;> simp [hb]
    · simp [hb]
    · simp [hb]
  · exact (sortPrio_perm _).mem_iff.mp (entries_sub w _ n b hb)

/-- Nesting order: at the moment an extender `b` is entered, every matching extender of strictly smaller priority has
already been entered during this wrapped call - for every raise pattern, every iteration order, ties included. -/
theorem C20.ascending_priority {α : Type} (w : Wrapped α) (exts : List Ext) (h : Hook) (n k : Nat) (a b : Ext)
    (hk : (entries (runHook w exts h n).trace)[k]? = some b)
    (ha : a ∈ exts) (hw : a.wraps.contains h = true) (hlt : a.priority < b.priority) :
    a ∈ (entries (runHook w exts h n).trace).take k := by
  have hm : a ∈ matching exts h := (mem_matching exts h a).mpr ⟨ha, hw⟩
  have hb := C20.not_declared_not_called w exts h n b (List.mem_of_getElem? hk)
  rw [← mem_matching] at hb
  unfold runHook at hk ⊢
  rcases getFE_cases exts h with ⟨h0, hg⟩ | ⟨e', h1, hg⟩ | ⟨h2, hg⟩ <;> rw [hg] at hk ⊢
  · rw [h0] at hm; cases hm
  · rw [h1] at hm hb; simp at hm hb; subst hm; subst hb; omega
  · exact ascending w _ (sortPrio_sorted _) n k b hk a ((sortPrio_perm _).mem_iff.mpr hm) hlt

/-- If no matching extender raises *after* calling through and the wrapped call itself succeeds, every matching
extender is entered exactly once, in the stable priority order, and the wrapped function is called exactly once. -/
theorem C20.ascending_priority_exact {α : Type} (w : Wrapped α) (exts : List Ext) (h : Hook) (n : Nat) (v : α)
    (hv : w n = some v) (hna : ∀ e ∈ matching exts h, e.beh ≠ .raiseAfter)
    (hchain : 2 ≤ (matching exts h).length ∨ ∀ e ∈ matching exts h, e.beh = .pass) :
    entries (runHook w exts h n).trace = sortPrio (matching exts h) ∧
    (entries (runHook w exts h n).trace).Pairwise (fun a b => a.priority ≤ b.priority) ∧
    (runHook w exts h n).calls = n + 1 ∧ (runHook w exts h n).out = some v := by
  have key : entries (runHook w exts h n).trace = sortPrio (matching exts h) ∧
      (runHook w exts h n).calls = n + 1 ∧ (runHook w exts h n).out = some v := by
    unfold runHook
    rcases getFE_cases exts h with ⟨h0, hg⟩ | ⟨e', h1, hg⟩ | ⟨h2, hg⟩ <;> rw [hg]
    · simp [runSelected, callWrapped, entries, h0, sortPrio, hv]
    · have hp : e'.beh = .pass := by
        rcases hchain with hl | hp
        · rw [h1] at hl; simp at hl
        · exact hp e' (by rw [h1]; simp)
      simp [runSelected, extCall, callWrapped, hp, hv, entries, h1, sortPrio, insertPrio]
    · have hna' : ∀ e ∈ sortPrio (matching exts h), e.beh ≠ .raiseAfter :=
        fun e he => hna e ((sortPrio_perm _).mem_iff.mp he)
      exact no_rerun w _ hna' n v hv
  refine ⟨key.1, ?_, key.2⟩
  rw [key.1]; exact sortPrio_sorted _

/-- All matching extenders pass through: the trace is exactly enter (ascending priority) - wrapped call - exit
(descending), the wrapped function is called exactly once and its result is returned unchanged. -/
theorem C20.passthrough_identity {α : Type} (w : Wrapped α) (exts : List Ext) (h : Hook) (n : Nat) (v : α)
    (hv : w n = some v) (hp : ∀ e ∈ exts, e.wraps.contains h = true → e.beh = .pass) :
    runHook w exts h n =
      ⟨(sortPrio (matching exts h)).map Ev.enter ++ [Ev.call] ++ (sortPrio (matching exts h)).reverse.map Ev.exit,
       n + 1, some v⟩ := by
  have hp' : ∀ e ∈ matching exts h, e.beh = .pass := fun e he =>
    let ⟨a, b⟩ := (mem_matching exts h e).mp he; hp e a b
  unfold runHook
  rcases getFE_cases exts h with ⟨h0, hg⟩ | ⟨e', h1, hg⟩ | ⟨h2, hg⟩ <;> rw [hg]
  · simp [runSelected, callWrapped, h0, sortPrio, hv]
  · have := hp' e' (by rw [h1]; simp)
    simp [runSelected, extCall, callWrapped, this, hv, h1, sortPrio, insertPrio]
  · exact passthrough w _ (fun e he => hp' e ((sortPrio_perm _).mem_iff.mp he)) n v hv

/-- A chain (two or more matching extenders): every raising extender is logged, the wrapped function is still called,
and what the chain returns (or raises) is the outcome of the *last* call of the wrapped function.  Together with
`every_declared_called` (the others are still entered) this is "logged and skipped without losing the wrapped call or
the other extenders". -/
theorem C20.raise_skipped {α : Type} (w : Wrapped α) (exts : List Ext) (h : Hook) (n : Nat)
    (h2 : 2 ≤ (matching exts h).length) :
    (∀ e ∈ exts, e.wraps.contains h = true → e.beh ≠ .pass → Ev.logged e ∈ (runHook w exts h n).trace) ∧
    1 ≤ countCalls (runHook w exts h n).trace ∧
    n + countCalls (runHook w exts h n).trace = (runHook w exts h n).calls ∧
    (runHook w exts h n).out = w ((runHook w exts h n).calls - 1) := by
  unfold runHook
  rcases getFE_cases exts h with ⟨h0, hg⟩ | ⟨e', h1, hg⟩ | ⟨_, hg⟩ <;> rw [hg]
  · rw [h0] at h2; simp at h2
  · rw [h1] at h2; simp at h2
  · simp only [runSelected]
    refine ⟨?_, ?_, count_calls w _ n, out_last w _ n⟩
    · intro e he hw hb
      exact logged_mem w _ n e ((sortPrio_perm _).mem_iff.mpr ((mem_matching exts h e).mpr ⟨he, hw⟩)) hb
    · have := count_calls w (sortPrio (matching exts h)) n
      have := calls_gt w (sortPrio (matching exts h)) n; omega

/-- Result identity for an idempotent wrapped function (every call gives the same outcome `r`, as a pure
`calculate_feature` / `validate_*` does): a chain returns `r` whatever raises; a single extender returns it if it
passes through; no extender returns it trivially. -/
theorem C20.result_identity_pure {α : Type} (w : Wrapped α) (r : Option α) (hw : ∀ k, w k = r)
    (exts : List Ext) (h : Hook) (n : Nat)
    (hchain : 2 ≤ (matching exts h).length ∨ ∀ e ∈ matching exts h, e.beh = .pass) :
    (runHook w exts h n).out = r := by
  by_cases h2 : 2 ≤ (matching exts h).length
  · rw [(C20.raise_skipped w exts h n h2).2.2.2]; exact hw _
  · have hp : ∀ e ∈ matching exts h, e.beh = .pass := by
      rcases hchain with h | h
      · exact absurd h h2
      · exact h
    unfold runHook
    rcases getFE_cases exts h with ⟨h0, hg⟩ | ⟨e', h1, hg⟩ | ⟨h2', hg⟩ <;> rw [hg]
    · simp [runSelected, callWrapped, hw]
    · have := hp e' (by rw [h1]; simp)
      simp only [runSelected, extCall, callWrapped, this, hw]
      cases r <;> rfl
    · exact absurd h2' h2

/-- As coded: when an extender of a chain raises *after* it called through, the `except` branch calls the inner
function again - the wrapped feature-group function runs at least twice for one wrapped call. -/
theorem C20.raise_after_duplicates {α : Type} (w : Wrapped α) (exts : List Ext) (h : Hook) (n : Nat) (e : Ext)
    (h2 : 2 ≤ (matching exts h).length) (he : e ∈ exts) (hw : e.wraps.contains h = true) (hb : e.beh = .raiseAfter) :
    n + 2 ≤ (runHook w exts h n).calls ∧ 2 ≤ countCalls (runHook w exts h n).trace := by
  have hc := (C20.raise_skipped w exts h n h2).2.2.1
  suffices n + 2 ≤ (runHook w exts h n).calls by omega
  unfold runHook
  rcases getFE_cases exts h with ⟨h0, hg⟩ | ⟨e', h1, hg⟩ | ⟨_, hg⟩ <;> rw [hg]
  · rw [h0] at h2; simp at h2
  · rw [h1] at h2; simp at h2
  · exact raise_after_dup w _ n e ((sortPrio_perm _).mem_iff.mpr ((mem_matching exts h e).mpr ⟨he, hw⟩)) hb

/-- the number of calls of the wrapped function per wrapped call is between 1 and 2^(chain length) -/
theorem C20.calls_bound {α : Type} (w : Wrapped α) (es : List Ext) (n : Nat) :
    n + 1 ≤ (runChain w es n).calls ∧ (runChain w es n).calls ≤ n + 2 ^ es.length :=
  ⟨calls_gt w es n, calls_le_pow w es n⟩

/-- ... and the upper bound is attained: k extenders that all raise after calling through give exactly 2^k calls -/
theorem C20.all_raise_after_pow {α : Type} (w : Wrapped α) (es : List Ext) (hall : ∀ e ∈ es, e.beh = .raiseAfter)
    (n : Nat) : (runChain w es n).calls = n + 2 ^ es.length := Extender.all_raise_after_pow w es hall n

/-- closed witness: with a *stateful* wrapped function (k-th call returns k) a chain `[pass, raiseAfter]` returns 1,
the run without extenders returns 0 - the duplicate call is observable exactly when the function is not idempotent. -/
theorem C20.raise_after_result_witness :
    let a : Ext := ⟨1, 1, [.FEATURE_GROUP_CALCULATE_FEATURE], .pass⟩
    let b : Ext := ⟨2, 2, [.FEATURE_GROUP_CALCULATE_FEATURE], .raiseAfter⟩
    let w : Wrapped Nat := fun k => some k
    (runHook w [a, b] .FEATURE_GROUP_CALCULATE_FEATURE 0).out = some 1 ∧
    (runHook w [] .FEATURE_GROUP_CALCULATE_FEATURE 0).out = some 0 ∧
    (runHook w [a, b] .FEATURE_GROUP_CALCULATE_FEATURE 0).trace =
      [.enter a, .enter b, .call, .logged b, .call, .exit a] := by decide

/-- closed witness: the *global* entry order need not be monotone when an outer extender raises after calling
through (entries 1,2,3,2,3) - which is why `ascending_priority` is stated per entry, not as sortedness of the list -/
theorem C20.ascending_global_witness :
    let a : Ext := ⟨1, 1, [], .raiseAfter⟩
    let b : Ext := ⟨2, 2, [], .pass⟩
    let c : Ext := ⟨3, 3, [], .pass⟩
    (entries (runChain (fun _ => some ()) [a, b, c] 0).trace).map (·.id) = [1, 2, 3, 2, 3] := by decide

/-- Model fact (as coded): with exactly one matching extender there is no composite and no `try`: an extender that
raises before calling through loses the wrapped call and the exception propagates; one that raises afterwards
propagates too. -/
theorem C20.single_extender_unprotected {α : Type} (w : Wrapped α) (exts : List Ext) (h : Hook) (n : Nat) (e : Ext)
    (hm : matching exts h = [e]) :
    (e.beh = .raiseBefore → runHook w exts h n = ⟨[.enter e], n, none⟩) ∧
    (e.beh = .raiseAfter → runHook w exts h n = ⟨[.enter e, .call], n + 1, none⟩) := by
  unfold runHook
  rcases getFE_cases exts h with ⟨h0, hg⟩ | ⟨e', h1, hg⟩ | ⟨h2, hg⟩ <;> rw [hg]
  · rw [hm] at h0; cases h0
  · rw [hm] at h1; simp at h1; subst h1
    constructor <;> intro hb <;> simp [runSelected, extCall, callWrapped, hb]
  · rw [hm] at h2; simp at h2

/-- The result of a wrapped call depends on the iteration order of the extender set only through the relative order
of extenders with equal priority. -/
theorem C20.perm_invariance {α : Type} (w : Wrapped α) (l1 l2 : List Ext) (h : Hook) (n : Nat)
    (hties : ∀ p : Int, l1.filter (fun e => e.priority == p) = l2.filter (fun e => e.priority == p)) :
    runHook w l1 h n = runHook w l2 h n := by
  have hm : ∀ p : Int, (matching l1 h).filter (fun e => e.priority == p) = (matching l2 h).filter (fun e => e.priority == p) := by
    intro p
    have := congrArg (List.filter (fun e : Ext => e.wraps.contains h)) (hties p)
    simpa [matching, List.filter_filter, Bool.and_comm] using this
  have hs := sortPrio_congr _ _ hm
  have hlen : (matching l1 h).length = (matching l2 h).length := by
    rw [← (sortPrio_perm (matching l1 h)).length_eq, ← (sortPrio_perm (matching l2 h)).length_eq, hs]
  unfold runHook
  rcases getFE_cases l1 h with ⟨a0, ag⟩ | ⟨a, a1, ag⟩ | ⟨a2, ag⟩ <;>
    rcases getFE_cases l2 h with ⟨b0, bg⟩ | ⟨b, b1, bg⟩ | ⟨b2, bg⟩ <;> rw [ag, bg]
  all_goals first
    | (rw [hs]; done)
    | (rw [a1, b1] at hs; simp [sortPrio, insertPrio] at hs; subst hs; rfl)
    | (exfalso; simp_all; done)
    | (exfalso; simp_all; omega)

/-- ... in particular with pairwise distinct priorities the iteration order (hash seed, pickled copy) is irrelevant -/
theorem C20.perm_invariance_distinct {α : Type} (w : Wrapped α) (l1 l2 : List Ext) (h : Hook) (n : Nat)
    (hp : l1.Perm l2) (hd : l1.Pairwise (fun a b => a.priority ≠ b.priority)) :
    runHook w l1 h n = runHook w l2 h n := by
  apply C20.perm_invariance
  intro p
  have h1 := filter_len_le_one p l1 hd
  have hperm := hp.filter (fun e => e.priority == p)
  generalize l1.filter (fun e => e.priority == p) = f1 at *
  generalize l2.filter (fun e => e.priority == p) = f2 at *
  match f1, h1, hperm with
  | [], _, hperm => exact (List.Perm.nil_eq hperm)
  | [x], _, hperm => exact (List.singleton_perm.mp hperm)

/-- closed witness: among equal priorities the iteration order of the set decides the nesting -/
theorem C20.tie_order_witness :
    let a : Ext := ⟨1, 5, [.VALIDATE_INPUT_FEATURE], .pass⟩
    let b : Ext := ⟨2, 5, [.VALIDATE_INPUT_FEATURE], .pass⟩
    let w : Wrapped Unit := fun _ => some ()
    (entries (runHook w [a, b] .VALIDATE_INPUT_FEATURE 0).trace).map (·.id) = [1, 2] ∧
    (entries (runHook w [b, a] .VALIDATE_INPUT_FEATURE 0).trace).map (·.id) = [2, 1] := by decide

/-- every compute-framework object created by the executor during a run carries the run's extender set -/
theorem C20.all_steps_covered (exts : List Ext) (uuids : List Nat) :
    ∀ c ∈ ((Exec.start exts).run uuids).collection, c.exts = exts := by
  suffices ∀ (x : Exec), (∀ c ∈ x.collection, c.exts = x.registerExts) →
      (∀ c ∈ (x.run uuids).collection, c.exts = x.registerExts) ∧ (x.run uuids).registerExts = x.registerExts from
    (this (Exec.start exts) (by simp [Exec.start])).1
  induction uuids with
  | nil => intro x hx; exact ⟨hx, rfl⟩
  | cons u us ih =>
    intro x hx
    have := ih (x.initComputeFramework u) (by
      intro c hc
      simp [Exec.initComputeFramework] at hc ⊢
      rcases hc with rfl | hc
      · rfl
      · exact hx c hc)
    simpa [Exec.run, Exec.initComputeFramework] using this

/-- `Gen.Hooks` (regenerated from /repo each run; finite table, `decide` is complete): `run_calculation` consults
validate-input, calculate, validate-output in this order, each exactly once, each around the feature-group function
of that kind; and each single `run_*` method consults exactly its own hook. -/
theorem C20.hooks_run_calculation :
    consults "run_calculation" =
      [(.VALIDATE_INPUT_FEATURE, "validate_input_features"), (.FEATURE_GROUP_CALCULATE_FEATURE, "calculate_feature"),
       (.VALIDATE_OUTPUT_FEATURE, "validate_output_features")] ∧
    consults "run_validate_input_features" = [(.VALIDATE_INPUT_FEATURE, "validate_input_features")] ∧
    consults "run_calculate_feature" = [(.FEATURE_GROUP_CALCULATE_FEATURE, "calculate_feature")] ∧
    consults "run_validate_output_features" = [(.VALIDATE_OUTPUT_FEATURE, "validate_output_features")] := by decide

/-- every member of `ExtenderHook` is consulted by `run_calculation` (no declared kind is dead) -/
theorem C20.hooks_complete : ∀ h : Hook, h ∈ (consults "run_calculation").map (·.1) := by
  intro h; cases h <;> decide

/-- A step whose framework holds data before and after (`run_calculation` as modelled) and that completes: every
extender is entered in the segment of each kind it declares. -/
theorem C20.step_covers_all (exts : List Ext) (wIn wCalc wOut : Wrapped Unit) (e : Ext) (h : Hook)
    (hok : (runCalculation exts true true wIn wCalc wOut).ok = true)
    (he : e ∈ exts) (hw : e.wraps.contains h = true) :
    ∃ tr, (h, tr) ∈ (runCalculation exts true true wIn wCalc wOut).segs ∧ Ev.enter e ∈ tr := by
  unfold runCalculation at hok ⊢
  simp only [if_true] at hok ⊢
  by_cases h1 : (runHook wIn exts .VALIDATE_INPUT_FEATURE 0).out.isSome = true
  · by_cases h2 : (runHook wCalc exts .FEATURE_GROUP_CALCULATE_FEATURE 0).out.isSome = true
    · simp only [h1, h2, Bool.not_true, Bool.false_eq_true, if_false] at hok ⊢
      cases h with
      | VALIDATE_INPUT_FEATURE => exact ⟨_, by simp, C20.every_declared_called wIn exts _ 0 e he hw⟩
      | FEATURE_GROUP_CALCULATE_FEATURE => exact ⟨_, by simp, C20.every_declared_called wCalc exts _ 0 e he hw⟩
      | VALIDATE_OUTPUT_FEATURE => exact ⟨_, by simp, C20.every_declared_called wOut exts _ 0 e he hw⟩
    · simp [h1, h2] at hok
  · simp [h1] at hok

/-! ### non-vacuity (tests on literals, not proofs of the property) -/

/-- a three-extender chain with a tie, a raiser before and a raiser after: hypotheses of `raise_skipped` hold and the
trace is non-trivial -/
example :
    let a : Ext := ⟨1, 10, [.FEATURE_GROUP_CALCULATE_FEATURE], .raiseBefore⟩
    let b : Ext := ⟨2, 5, Hook.all, .raiseAfter⟩
    let c : Ext := ⟨3, 10, [.FEATURE_GROUP_CALCULATE_FEATURE, .VALIDATE_OUTPUT_FEATURE], .pass⟩
    let r := runHook (fun _ => some (7 : Nat)) [c, a, b] .FEATURE_GROUP_CALCULATE_FEATURE 0
    2 ≤ (matching [c, a, b] .FEATURE_GROUP_CALCULATE_FEATURE).length ∧
    r.trace = [.enter b, .enter c, .enter a, .logged a, .call, .exit c, .logged b, .enter c, .enter a, .logged a, .call, .exit c] ∧
    r.calls = 2 ∧ r.out = some 7 := by decide

/-- hypotheses of `passthrough_identity` / `ascending_priority_exact` are satisfiable with ≥ 2 matching extenders -/
example :
    let a : Ext := ⟨1, 10, Hook.all, .pass⟩
    let b : Ext := ⟨2, -3, [.VALIDATE_OUTPUT_FEATURE], .pass⟩
    (runHook (fun _ => some true) [a, b] .VALIDATE_OUTPUT_FEATURE 4) =
      ⟨[.enter b, .enter a, .call, .exit a, .exit b], 5, some true⟩ := by decide

/-- `perm_invariance`'s hypothesis holds for a genuine reordering (distinct priorities) -/
example :
    let a : Ext := ⟨1, 1, [], .pass⟩
    let b : Ext := ⟨2, 2, [], .pass⟩
    ∀ p : Int, [a, b].filter (fun e => e.priority == p) = [b, a].filter (fun e => e.priority == p) := by
  intro a b p
  by_cases h1 : (1 : Int) = p <;> by_cases h2 : (2 : Int) = p <;> simp [a, b, h1, h2]
  omega

/-- a complete step in the sense of `step_covers_all` -/
example :
    let a : Ext := ⟨1, 1, Hook.all, .pass⟩
    let b : Ext := ⟨2, 2, [.VALIDATE_INPUT_FEATURE], .raiseBefore⟩
    (runCalculation [a, b] true true (fun _ => some ()) (fun _ => some ()) (fun _ => some ())).ok = true := by decide
