import MlodaVerif.Lemmas.Filter
import MlodaVerif.Lemmas.FilterTime
/-! # C11 - global filters keep exactly the rows that satisfy them, on every framework

Model: `Model/Filter.lean` (PythonDict engine statement by statement; `ArrowSem` / `PandasSem` are *assumed* library
semantics, differential-tested on every run), `Model/Time.lean`. The dispatch table `Gen.filterDispatch` is regenerated
from `/repo` before every build.

Full statement of the property ("identically on every compute framework") is FALSE of the code; the file keeps the
full-strength statements for the PythonDict engine and the composition logic, proves `engines_agree_partial` under an
explicit decidable guard, and proves closed negation witnesses (`*_witness`) for each way the frameworks differ. -/
open Filter Gen

/-! ## dispatch (finite table regenerated from the code: `decide` over the whole table is a complete proof) -/

/-- each of the six filter types named by the property reaches the hook of that name; anything else is "custom" -/
theorem C11.dispatch_table :
    filterDispatch "range" = .do_range_filter ∧ filterDispatch "min" = .do_min_filter ∧
    filterDispatch "max" = .do_max_filter ∧ filterDispatch "equal" = .do_equal_filter ∧
    filterDispatch "regex" = .do_regex_filter ∧
    filterDispatch "categorical_inclusion" = .do_categorical_inclusion_filter ∧
    unknownDispatch = .do_custom_filter ∧
    filterTypes = ["min", "max", "equal", "range", "regex", "categorical_inclusion"] := by decide

/-- all three built-in engines apply their filters after the calculation (`final_filters() = True`) -/
theorem C11.final_filters_on : ∀ p ∈ finalFilters, p.2 = true := by decide

/-! ## the PythonDict engine implements the specification -/

/-- `PythonDictFilterEngine.do_filter` keeps exactly the rows whose cell satisfies the filter - for every filter type, both
`max` parameter styles, and ALL row lists, provided every non-null cell can be ordered against the bounds (the guard;
outside it Python raises `TypeError`, see `pydict_raises_incomparable`). -/
theorem C11.pydict_eq_spec (raw : RawFilter) (f : Filter) (rows : List Row)
    (hp : raw.parse = .ok f) (hc : ∀ r ∈ rows, f.comparableWith (r.get raw.col) = true) :
    PyDict.doFilter raw rows = .ok (rows.filter (fun r => sat f (r.get raw.col))) := by
  unfold RawFilter.parse at hp
  unfold PyDict.doFilter
  cases hd : filterDispatch raw.ftype <;> simp only [hd] at hp ⊢
  · -- range
    unfold PyDict.doRange
    by_cases hn : raw.min = .null ∨ raw.max = .null
    · simp [hn] at hp
    · simp only [hn, if_false] at hp ⊢
      cases hp
      cases he : raw.maxExclusive <;> simp only [Bool.false_eq_true, if_false, if_true]
      all_goals
        apply filterE_ok; intro r hr
        exact rangeCell_eq _ _ _ _ (by simpa [he] using hc r hr)
  · -- min
    unfold PyDict.doMin
    by_cases hn : raw.value = .null
    · simp [hn] at hp
    · simp only [hn, if_false] at hp ⊢
      cases hp
      apply filterE_ok; intro r hr; exact minCell_eq _ _ (hc r hr)
  · -- max, both parameter styles
    unfold PyDict.doMax
    by_cases hm : raw.max = .null
    · simp only [hm, ne_eq, not_true_eq_false, if_false] at hp ⊢
      by_cases hv : raw.value = .null
      · simp [hv] at hp
      · simp only [hv, not_false_eq_true, if_true, if_false] at hp ⊢
        cases hp
        apply filterE_ok; intro r hr; exact maxCell_eq _ _ _ (hc r hr)
    · simp only [hm, ne_eq, not_false_eq_true, if_true, if_false] at hp ⊢
      by_cases hmin : raw.min = .null
      · simp only [hmin, not_true_eq_false, if_false] at hp ⊢
        cases hp
        cases he : raw.maxExclusive <;> simp only [Bool.false_eq_true, if_false, if_true]
        all_goals
          apply filterE_ok; intro r hr
          exact maxCell_eq _ _ _ (by simpa [he] using hc r hr)
      · simp [hmin] at hp
  · -- equal
    unfold PyDict.doEqual
    by_cases hn : raw.value = .null
    · simp [hn] at hp
    · simp only [hn, if_false] at hp ⊢
      cases hp; rfl
  · -- regex
    unfold PyDict.doRegex
    cases hv : raw.value with
    | str s =>
      simp only [hv] at hp ⊢
      cases hpat : parsePattern s <;> simp only [hpat] at hp ⊢
      · cases hp
      · cases hp; rfl
    | _ => simp only [hv] at hp ⊢; cases hp
  · -- categorical inclusion
    unfold PyDict.doIsin
    cases hv : raw.values <;> simp only [hv] at hp ⊢ <;> cases hp <;> rfl
  · cases hp

/-- unusable parameters / unknown filter types: the engine raises exactly the error the parameter reading predicts
(`ValueError` for missing parameters, `NotImplementedError` for a custom type, `TypeError` for a non-string pattern),
whatever the rows - also on an empty table -/
theorem C11.pydict_rejects (raw : RawFilter) (e : Err) (rows : List Row) (hp : raw.parse = .error e) :
    PyDict.doFilter raw rows = .error e := by
  unfold RawFilter.parse at hp
  unfold PyDict.doFilter
  cases hd : filterDispatch raw.ftype <;> simp only [hd] at hp ⊢
  · unfold PyDict.doRange
    by_cases hn : raw.min = .null ∨ raw.max = .null
    · simp only [hn, if_true] at hp ⊢; cases hp; rfl
    · simp [hn] at hp
  · unfold PyDict.doMin
    by_cases hn : raw.value = .null
    · simp only [hn, if_true] at hp ⊢; cases hp; rfl
    · simp [hn] at hp
  · unfold PyDict.doMax
    by_cases hm : raw.max = .null
    · simp only [hm, ne_eq, not_true_eq_false, if_false] at hp ⊢
      by_cases hv : raw.value = .null
      · simp only [hv, not_true_eq_false, if_false] at hp ⊢; cases hp; rfl
      · simp [hv] at hp
    · simp only [hm, ne_eq, not_false_eq_true, if_true] at hp ⊢
      by_cases hmin : raw.min = .null
      · simp [hmin] at hp
      · simp only [hmin, not_false_eq_true, if_true] at hp ⊢; cases hp; rfl
  · unfold PyDict.doEqual
    by_cases hn : raw.value = .null
    · simp only [hn, if_true] at hp ⊢; cases hp; rfl
    · simp [hn] at hp
  · unfold PyDict.doRegex
    cases hv : raw.value with
    | str s =>
      simp only [hv] at hp ⊢
      cases hpat : parsePattern s <;> simp only [hpat] at hp ⊢
      · cases hp; rfl
      · cases hp
    | _ => simp only [hv] at hp ⊢; cases hp; rfl
  · unfold PyDict.doIsin
    cases hv : raw.values <;> simp only [hv] at hp ⊢ <;> first | (cases hp; rfl) | cases hp
  · cases hp; rfl

/-- outside the guard the engine raises: a `min` filter meeting a non-null cell that cannot be ordered against the
value aborts with `TypeError` (all other cells being comparable or not) -/
theorem C11.pydict_raises_incomparable (raw : RawFilter) (rows : List Row)
    (hd : filterDispatch raw.ftype = .do_min_filter) (hv : raw.value ≠ .null)
    (hex : ∃ r ∈ rows, r.get raw.col ≠ .null ∧ comparable raw.value (r.get raw.col) = false) :
    PyDict.doFilter raw rows = .error .typeError := by
  unfold PyDict.doFilter PyDict.doMin
  simp only [hd, hv, if_false]
  apply filterE_error
  · intro r _
    unfold PyDict.minCell
    by_cases hx : r.get raw.col = .null
    · left; exact ⟨false, by simp [hx]⟩
    · simp only [hx, if_false]
      cases h : Key.le? raw.value.key (r.get raw.col).key with
      | none => right; rfl
      | some b => left; exact ⟨b, rfl⟩
  · obtain ⟨r, hr, hx, hcmp⟩ := hex
    refine ⟨r, hr, ?_⟩
    unfold PyDict.minCell
    simp only [hx, if_false]
    unfold comparable at hcmp
    cases h : Key.le? raw.value.key (r.get raw.col).key with
    | none => rfl
    | some b => simp [h] at hcmp

/-- range boundaries on numbers: kept ↔ `lo ≤ x` and (`x < hi` if the exclusive flag is set, else `x ≤ hi`) -/
theorem C11.range_boundaries (lo hi x : Rat) (excl : Bool) :
    sat (.range (.rat lo) (.rat hi) excl) (.rat x) = true ↔ lo ≤ x ∧ (if excl then x < hi else x ≤ hi) := by
  cases excl <;> simp [sat, leB, ltB, Key.le?, Key.lt?, Val.key]

/-- the same on strings (code-point order), and on integer cells against rational bounds -/
theorem C11.range_boundaries_str (lo hi x : String) (excl : Bool) :
    sat (.range (.str lo) (.str hi) excl) (.str x) = true ↔ lo ≤ x ∧ (if excl then x < hi else x ≤ hi) := by
  cases excl <;> simp [sat, leB, ltB, Key.le?, Key.lt?, Val.key]

theorem C11.range_boundaries_int (lo hi : Rat) (x : Int) (excl : Bool) :
    sat (.range (.rat lo) (.rat hi) excl) (.int x) = true ↔ lo ≤ (x : Rat) ∧ (if excl then (x : Rat) < hi else (x : Rat) ≤ hi) := by
  cases excl <;> simp [sat, leB, ltB, Key.le?, Key.lt?, Val.key]

/-- the bounds themselves: the lower bound is always kept (when `lo ≤ hi` resp. `lo < hi`), the upper bound is kept
exactly when the flag is not set; a null is never kept -/
theorem C11.range_endpoints (lo hi : Rat) (excl : Bool) :
    (sat (.range (.rat lo) (.rat hi) excl) (.rat hi) = true ↔ lo ≤ hi ∧ excl = false) ∧
    (sat (.range (.rat lo) (.rat hi) excl) (.rat lo) = true ↔ (if excl then lo < hi else lo ≤ hi)) ∧
    sat (.range (.rat lo) (.rat hi) excl) .null = false := by
  refine ⟨?_, ?_, ?_⟩
  · rw [C11.range_boundaries]; cases excl <;> simp [Rat.lt_irrefl]
  · rw [C11.range_boundaries]; cases excl <;> simp
  · simp [sat, leB_null_right]

/-- `max` in both parameter styles: `{"value": v}` is inclusive; `{"max": m, "max_exclusive": b}` follows the flag -/
theorem C11.max_styles (col t : String) (v m : Val) (b : Bool) (hd : filterDispatch t = .do_max_filter)
    (hv : v ≠ .null) (hm : m ≠ .null) :
    RawFilter.parse { col := col, ftype := t, value := v } = .ok (.max v false) ∧
    RawFilter.parse { col := col, ftype := t, max := m, maxExclusive := b } = .ok (.max m b) ∧
    RawFilter.parse { col := col, ftype := t, max := m, maxExclusive := b, value := v } = .ok (.max m b) := by
  simp [RawFilter.parse, hd, hv, hm]

/-! ## applying a SET of filters -/

theorem C11.applyAll_conj (exposed : List String) (fs : List RawFilter) (rows : List Row)
    (hg : SeqGuard exposed fs rows) :
    applyAll PyDict.doFilter exposed (some fs) rows = .ok (rows.filter (conj exposed fs)) := by
  unfold applyAll conj
  apply applySeq_filterlike PyDict.doFilter exposed (fun f r => satRaw f (r.get f.col))
  intro raw hraw hexp sub hsub
  obtain ⟨f, hp, hc⟩ := hg raw hraw hexp
  rw [C11.pydict_eq_spec raw f sub hp (fun r hr => hc r (hsub r hr))]
  congr 1; apply List.filter_congr; intro r _
  simp [satRaw, hp]

/-- applying the set of filters in ANY iteration order gives the rows satisfying the conjunction: the result does not
depend on the (hash-dependent) order in which `features.filters` is iterated -/
theorem C11.applyAll_conj_perm (exposed : List String) (fs gs : List RawFilter) (rows : List Row)
    (hperm : fs.Perm gs) (hg : SeqGuard exposed fs rows) :
    applyAll PyDict.doFilter exposed (some gs) rows = .ok (rows.filter (conj exposed fs)) ∧
    applyAll PyDict.doFilter exposed (some gs) rows = applyAll PyDict.doFilter exposed (some fs) rows := by
  have hg' : SeqGuard exposed gs rows := fun raw hraw => hg raw (hperm.mem_iff.mpr hraw)
  have hconj : ∀ r, conj exposed gs r = conj exposed fs r := fun r => (all_perm _ hperm).symm
  have h1 := C11.applyAll_conj exposed gs rows hg'
  have h2 := C11.applyAll_conj exposed fs rows hg
  have heq : rows.filter (conj exposed gs) = rows.filter (conj exposed fs) :=
    List.filter_congr (fun r _ => hconj r)
  exact ⟨by rw [h1, heq], by rw [h1, h2, heq]⟩

/-- outside the guard the order CAN matter (closed witness): a PythonDict table with the mixed column `[1, "a"]` and the
filters `equal 5` and `min "a"`. Iterated as [equal, min], `equal` removes every row and `min` has nothing left to
compare: the result is the empty table. Iterated as [min, equal], `min` compares `"a" <= 1` on the first row and the
call aborts with `TypeError`. (The iteration order of the filter set depends on string hashes.) -/
theorem C11.applyAll_order_witness :
    applyAll PyDict.doFilter ["x"]
        (some [{ col := "x", ftype := "equal", value := .int 5 }, { col := "x", ftype := "min", value := .str "a" }])
        [[("x", .int 1)], [("x", .str "a")]] = .ok [] ∧
    applyAll PyDict.doFilter ["x"]
        (some [{ col := "x", ftype := "min", value := .str "a" }, { col := "x", ftype := "equal", value := .int 5 }])
        [[("x", .int 1)], [("x", .str "a")]] = .error .typeError := by
  decide +kernel

/-- filters whose column the feature set does not expose are skipped - for ANY engine, even one that would raise -/
theorem C11.unexposed_unaffected (eng : Engine) (exposed : List String) (fs : List RawFilter) (rows : List Row)
    (h : ∀ f ∈ fs, exposed.contains f.col = false) :
    applyAll eng exposed (some fs) rows = .ok rows ∧ applyAll eng exposed none rows = .ok rows :=
  ⟨applySeq_unexposed eng exposed fs rows h, rfl⟩

/-- a feature group that supports none of the filter columns returns its rows untouched, whatever the engine, the
filters and the request -/
theorem C11.group_not_exposing_unaffected (eng : Engine) (requested supported : List String) (gf : List RawFilter)
    (rows : List Row) (h : ∀ f ∈ gf, supported.contains f.col = false) :
    runGroup eng requested supported gf rows = .ok rows := by
  have hnil : groupFilters supported gf = [] := by
    unfold groupFilters
    exact List.filter_eq_nil_iff.mpr (fun f hf => by simpa using h f hf)
  simp [runGroup, hnil, applyAll, applySeq]

/-- a feature group that supports filter columns gets exactly the filters on those columns, none is skipped, and (under
the guard) returns the rows satisfying all of them -/
theorem C11.group_exposing_filtered (requested supported : List String) (gf : List RawFilter) (rows : List Row)
    (hg : SeqGuard (groupExposed requested supported gf) (groupFilters supported gf) rows) :
    runGroup PyDict.doFilter requested supported gf rows =
      .ok (rows.filter (fun r => (groupFilters supported gf).all (fun f => satRaw f (r.get f.col)))) := by
  unfold runGroup
  rw [C11.applyAll_conj _ _ _ hg]
  congr 1; apply List.filter_congr; intro r _
  unfold conj
  apply all_congr_mem
  intro f hf
  have : (groupExposed requested supported gf).contains f.col = true := by
    unfold groupExposed
    simp only [List.contains_eq_mem, List.mem_append, List.mem_map, decide_eq_true_eq]
    exact Or.inr ⟨f, hf, rfl⟩
  simp only [this, Bool.not_true, Bool.false_or]

/-! ## the three engines -/

/-
Full statement (FALSE of the code): for every parsed filter and typed column
  ArrowSem.doFilter raw ct rows = PandasSem.doFilter raw strIndex ct rows = PyDict.doFilter raw rows.
Counterexamples: `regex_arrow_differs_witness`, `isin_null_pandas_differs_witness`,
`isin_untyped_arrow_witness`.
-/


theorem C11.arrow_eq_spec_partial (raw : RawFilter) (f : Filter) (ct : ColClass) (rows : List Row)
    (hp : raw.parse = .ok f) (hh : homog ct raw.col rows = true) (hg : agreeGuard ct f = true)
    (hs : ∀ v, raw.values ≠ .scalar v) :
    ArrowSem.doFilter raw ct rows = .ok (rows.filter (fun r => sat f (r.get raw.col))) := by
  unfold RawFilter.parse at hp
  unfold ArrowSem.doFilter
  simp only [hh, Bool.not_true, Bool.false_eq_true, if_false]
  cases hd : filterDispatch raw.ftype <;> simp only [hd] at hp ⊢
  · unfold ArrowSem.doRange
    by_cases hn : raw.min = .null ∨ raw.max = .null
    · simp [hn] at hp
    · simp only [hn, if_false] at hp ⊢
      cases hp
      simp only [agreeGuard, Bool.and_eq_true, beq_iff_eq] at hg
      simp only [ArrowSem.typeCheck, hg.1, hg.2, if_true]
      cases he : raw.maxExclusive <;> simp only [Bool.false_eq_true, if_false, if_true] <;>
        (congr 1; apply List.filter_congr; intro r _)
      · simpa using arrow_range_cell raw.min raw.max (r.get raw.col) false
      · simpa using arrow_range_cell raw.min raw.max (r.get raw.col) true
  · unfold ArrowSem.doMin
    by_cases hn : raw.value = .null
    · simp [hn] at hp
    · simp only [hn, if_false] at hp ⊢
      cases hp
      simp only [agreeGuard, beq_iff_eq] at hg
      simp only [ArrowSem.typeCheck, hg, if_true]
      congr 1; apply List.filter_congr; intro r _; exact arrow_ge_cell _ _
  · unfold ArrowSem.doMax
    by_cases hm : raw.max = .null
    · simp only [hm, ne_eq, not_true_eq_false, if_false] at hp ⊢
      by_cases hv : raw.value = .null
      · simp [hv] at hp
      · simp only [hv, not_false_eq_true, if_true] at hp ⊢
        cases hp
        simp only [agreeGuard, beq_iff_eq] at hg
        simp only [ArrowSem.typeCheck, hg, if_true]
        congr 1; apply List.filter_congr; intro r _
        simpa using arrow_max_cell raw.value (r.get raw.col) false
    · simp only [hm, ne_eq, not_false_eq_true, if_true] at hp ⊢
      by_cases hmin : raw.min = .null
      · simp only [hmin, not_true_eq_false, if_false] at hp ⊢
        cases hp
        simp only [agreeGuard, beq_iff_eq] at hg
        simp only [ArrowSem.typeCheck, hg, if_true]
        cases he : raw.maxExclusive <;> simp only [Bool.false_eq_true, if_false, if_true] <;>
          (congr 1; apply List.filter_congr; intro r _)
        · simpa using arrow_max_cell raw.max (r.get raw.col) false
        · simpa using arrow_max_cell raw.max (r.get raw.col) true
      · simp [hmin] at hp
  · unfold ArrowSem.doEqual
    by_cases hn : raw.value = .null
    · simp [hn] at hp
    · simp only [hn, if_false] at hp ⊢
      cases hp
      simp only [agreeGuard, beq_iff_eq] at hg
      simp only [ArrowSem.typeCheck, hg, if_true]
      congr 1; apply List.filter_congr; intro r _; exact arrow_eq_cell _ _ hn
  · unfold ArrowSem.doRegex
    cases hv : raw.value with
    | str s =>
      simp only [hv] at hp ⊢
      cases hpat : parsePattern s <;> simp only [hpat] at hp ⊢
      · cases hp
      · cases hp
        simp only [agreeGuard, Bool.and_eq_true, beq_iff_eq] at hg
        simp only [hg.1, ne_eq, not_true_eq_false, if_false]
        congr 1; apply List.filter_congr; intro r _; exact arrow_regex_cell _ _ hg.2
    | _ => simp only [hv] at hp ⊢; cases hp
  · unfold ArrowSem.doIsin
    cases hv : raw.values with
    | none => simp only [hv] at hp; cases hp
    | scalar v => exact absurd hv (hs v)
    | list l =>
      simp only [hv] at hp ⊢; cases hp
      simp only [agreeGuard, Bool.and_eq_true, Bool.not_eq_true'] at hg
      simp only [ArrowSem.isinList, inferSet_typed hg.1 hg.2, true_or, if_true]; rfl
    | tuple l =>
      simp only [hv] at hp ⊢; cases hp
      simp only [agreeGuard, Bool.and_eq_true, Bool.not_eq_true'] at hg
      simp only [ArrowSem.isinList, inferSet_typed hg.1 hg.2, true_or, if_true]; rfl
  · cases hp

theorem C11.pandas_eq_spec_partial (raw : RawFilter) (f : Filter) (ct : ColClass) (rows : List Row)
    (hp : raw.parse = .ok f) (hh : homog ct raw.col rows = true) (hg : agreeGuard ct f = true)
    (hs : ∀ v, raw.values ≠ .scalar v) :
    PandasSem.run raw ct rows = .ok (rows.filter (fun r => sat f (r.get raw.col))) := by
  unfold RawFilter.parse at hp
  unfold PandasSem.run PandasSem.doFilter
  simp only [hh, Bool.not_true, Bool.false_eq_true, if_false]
  cases hd : filterDispatch raw.ftype <;> simp only [hd] at hp ⊢
  · unfold PandasSem.doRange
    by_cases hn : raw.min = .null ∨ raw.max = .null
    · simp [hn] at hp
    · simp only [hn, if_false] at hp ⊢
      cases hp
      simp only [agreeGuard, Bool.and_eq_true, beq_iff_eq] at hg
      simp only [PandasSem.typeCheck, hg.1, hg.2, if_true, Bool.false_eq_true, if_false]
      cases he : raw.maxExclusive <;> simp [sat]
  · unfold PandasSem.doMin
    by_cases hn : raw.value = .null
    · simp [hn] at hp
    · simp only [hn, if_false] at hp ⊢
      cases hp
      simp only [agreeGuard, beq_iff_eq] at hg
      simp [PandasSem.typeCheck, hg, sat]
  · unfold PandasSem.doMax
    by_cases hm : raw.max = .null
    · simp only [hm, ne_eq, not_true_eq_false, if_false] at hp ⊢
      by_cases hv : raw.value = .null
      · simp [hv] at hp
      · simp only [hv, not_false_eq_true, if_true] at hp ⊢
        cases hp
        simp only [agreeGuard, beq_iff_eq] at hg
        simp [PandasSem.typeCheck, hg, sat]
    · simp only [hm, ne_eq, not_false_eq_true, if_true] at hp ⊢
      by_cases hmin : raw.min = .null
      · simp only [hmin, not_true_eq_false, if_false] at hp ⊢
        cases hp
        simp only [agreeGuard, beq_iff_eq] at hg
        cases he : raw.maxExclusive <;> simp [PandasSem.typeCheck, hg, sat]
      · simp [hmin] at hp
  · unfold PandasSem.doEqual
    by_cases hn : raw.value = .null
    · simp [hn] at hp
    · simp only [hn, if_false] at hp ⊢
      cases hp
      simp [sat]
  · unfold PandasSem.doRegex
    cases hv : raw.value with
    | str s =>
      simp only [hv] at hp ⊢
      cases hpat : parsePattern s <;> simp only [hpat] at hp ⊢
      · cases hp
      · cases hp
        simp only [agreeGuard, Bool.and_eq_true, beq_iff_eq] at hg
        simp [hg.1, sat]
    | _ => simp only [hv] at hp ⊢; cases hp
  · unfold PandasSem.doIsin
    cases hv : raw.values with
    | none => simp only [hv] at hp; cases hp
    | scalar v => exact absurd hv (hs v)
    | list l =>
      simp only [hv] at hp ⊢; cases hp
      simp only [agreeGuard, Bool.and_eq_true, Bool.not_eq_true'] at hg
      simp only [Bool.false_eq_true, if_false]
      congr 1; apply List.filter_congr; intro r _; exact pandas_isin_cell hg.2 _
    | tuple l =>
      simp only [hv] at hp ⊢; cases hp
      simp only [agreeGuard, Bool.and_eq_true, Bool.not_eq_true'] at hg
      simp only [Bool.false_eq_true, if_false]
      congr 1; apply List.filter_congr; intro r _; exact pandas_isin_cell hg.2 _
  · cases hp

/-- the three engines keep the same rows - those satisfying `sat` - on every typed column (nulls allowed) and every
filter whose parameter values have the column's class, for every filter type except un-anchored regex patterns and
categorical inclusion listing `None` / nothing (guard `agreeGuard`). Arrow and pandas sides rest on the ASSUMED
`ArrowSem` / `PandasSem`; the pandas side is the engine as it exists since commit 15de8bc (`PandasSem.run`). -/
theorem C11.engines_agree_partial (raw : RawFilter) (f : Filter) (ct : ColClass) (rows : List Row)
    (hp : raw.parse = .ok f) (hh : homog ct raw.col rows = true) (hg : agreeGuard ct f = true)
    (hs : ∀ v, raw.values ≠ .scalar v) :
    PyDict.doFilter raw rows = .ok (rows.filter (fun r => sat f (r.get raw.col))) ∧
    ArrowSem.doFilter raw ct rows = PyDict.doFilter raw rows ∧
    PandasSem.run raw ct rows = PyDict.doFilter raw rows := by
  have h1 := C11.pydict_eq_spec raw f rows hp
    (fun r hr => comparableWith_of_guard hg (homog_cell hh r hr))
  exact ⟨h1, by rw [h1]; exact C11.arrow_eq_spec_partial raw f ct rows hp hh hg hs,
    by rw [h1]; exact C11.pandas_eq_spec_partial raw f ct rows hp hh hg hs⟩

/-- pandas and PythonDict also agree on un-anchored patterns (both are `re.match`): only pyarrow searches -/
theorem C11.regex_pandas_eq_pydict (raw : RawFilter) (rows : List Row) (hd : filterDispatch raw.ftype = .do_regex_filter)
    (hh : homog .str raw.col rows = true) :
    PandasSem.run raw .str rows = PyDict.doFilter raw rows := by
  unfold PandasSem.run PandasSem.doFilter PyDict.doFilter PandasSem.doRegex PyDict.doRegex
  simp only [hh, hd, Bool.not_true, Bool.false_eq_true, if_false]
  cases hv : raw.value <;> simp

/-! ## closed negation witnesses (each replayed on the real engines by `harness/corr/c11.py`) -/

/-- O7: regex `b` on `["x","y","abc","b"]`: pyarrow keeps rows 2 and 3 (`abc`, `b`), PythonDict and pandas only row 3 -/
theorem C11.regex_arrow_differs_witness :
    let rows : List Row := [[("x", .str "x")], [("x", .str "y")], [("x", .str "abc")], [("x", .str "b")]]
    let f : RawFilter := { col := "x", ftype := "regex", value := .str "b" }
    ArrowSem.doFilter f .str rows = .ok [[("x", .str "abc")], [("x", .str "b")]] ∧
    PyDict.doFilter f rows = .ok [[("x", .str "b")]] ∧
    PandasSem.run f .str rows = .ok [[("x", .str "b")]] := by
  intro rows f; decide +kernel

/-- O6, FIXED by commit 15de8bc. Regression statement about the explicitly named pre-fix variant (`legacyKey = true`,
`data[filter_feature.name]` on the default `str`-dtype column index): it never returned rows, whatever the filter and
the data - the outcome was always an error (`KeyError`, or the parameter / custom-filter error raised before the lookup) -/
theorem C11.pandas_prefix_never_filtered (raw : RawFilter) (ct : ColClass) (rows : List Row) :
    ∃ e, PandasSem.doFilter raw true ct rows = .error e := by
  unfold PandasSem.doFilter
  by_cases hh : homog ct raw.col rows = true
  · simp only [hh, Bool.not_true, Bool.false_eq_true, if_false]
    cases filterDispatch raw.ftype <;> simp only
    · unfold PandasSem.doRange; by_cases h : raw.min = .null ∨ raw.max = .null <;> simp [h]
    · unfold PandasSem.doMin; by_cases h : raw.value = .null <;> simp [h]
    · unfold PandasSem.doMax
      by_cases h1 : raw.max = .null <;> by_cases h2 : raw.min = .null <;> by_cases h3 : raw.value = .null <;> simp [h1, h2, h3]
    · unfold PandasSem.doEqual; by_cases h : raw.value = .null <;> simp [h]
    · unfold PandasSem.doRegex; by_cases h : raw.value = .null <;> simp [h]
    · unfold PandasSem.doIsin; cases raw.values <;> simp
    · exact ⟨_, rfl⟩
  · simp [hh]

/-- the old witness of O6 (`min 2` on `[1, 3]`): the engine as it exists keeps row `3` like PythonDict; the pre-fix variant
raised `KeyError` (the harness runs this input as a regression case that must pass) -/
theorem C11.pandas_keyerror_fixed_witness :
    PandasSem.run { col := "x", ftype := "min", value := .int 2 } .num [[("x", .int 1)], [("x", .int 3)]]
      = .ok [[("x", .int 3)]] ∧
    PyDict.doFilter { col := "x", ftype := "min", value := .int 2 } [[("x", .int 1)], [("x", .int 3)]]
      = .ok [[("x", .int 3)]] ∧
    PandasSem.doFilter { col := "x", ftype := "min", value := .int 2 } true .num [[("x", .int 1)], [("x", .int 3)]]
      = .error .keyError := by decide +kernel

/-- categorical inclusion listing `None` on a numeric column with a null: pandas drops the null row, the others keep it -/
theorem C11.isin_null_pandas_differs_witness :
    let rows : List Row := [[("x", .rat 2)], [("x", .rat (5/2))], [("x", .null)]]
    let f : RawFilter := { col := "x", ftype := "categorical_inclusion", values := .list [.rat (5/2), .null] }
    PandasSem.run f .num rows = .ok [[("x", .rat (5/2))]] ∧
    PyDict.doFilter f rows = .ok [[("x", .rat (5/2))], [("x", .null)]] ∧
    ArrowSem.doFilter f .num rows = .ok [[("x", .rat (5/2))], [("x", .null)]] := by
  intro rows f; decide +kernel

/-- categorical inclusion with an empty list on a string column: pyarrow raises, the others keep no row -/
theorem C11.isin_untyped_arrow_witness :
    let rows : List Row := [[("x", .str "a")], [("x", .null)]]
    let f : RawFilter := { col := "x", ftype := "categorical_inclusion", values := .list [] }
    ArrowSem.doFilter f .str rows = .error .typeError ∧ PyDict.doFilter f rows = .ok [] ∧
    PandasSem.run f .str rows = .ok [] := by
  intro rows f; decide +kernel

/-- `GlobalFilter.add_filter` with a `list` of categories raises (unhashable); with a `tuple` it is accepted -/
theorem C11.addFilter_list_witness :
    addFilter [] { col := "x", ftype := "categorical_inclusion", values := .list [.str "A"] } = .error .typeError ∧
    addFilter [] { col := "x", ftype := "categorical_inclusion", values := .tuple [.str "A"] }
      = .ok [{ col := "x", ftype := "categorical_inclusion", values := .tuple [.str "A"] }] := by decide +kernel

/-- a filter no row satisfies: the PythonDict framework fails the run, the (assumed) Arrow semantics returns no rows -/
theorem C11.pydict_empty_result_witness :
    let rows : List Row := [[("x", .int 1)], [("x", .int 2)]]
    let f : RawFilter := { col := "x", ftype := "min", value := .int 5 }
    runGroupApi PyDict.doFilter pyDictFinish ["v"] ["v", "x"] [f] rows = .error .valueError ∧
    runGroupApi (fun f rows => ArrowSem.doFilter f .num rows) Except.ok ["v"] ["v", "x"] [f] rows = .ok [] := by
  intro rows f; decide +kernel

/-! ## non-vacuity examples (tests on literals, not proofs of the property) -/

/-- the guard of `pydict_eq_spec` / `applyAll_conj_perm` is met by a mixed int / float column with a null and two filters -/
example :
    let rows : List Row := [[("x", .int 1)], [("x", .rat (5/2))], [("x", .null)], [("x", .int 3)], [("x", .rat (5/2))]]
    let f1 : RawFilter := { col := "x", ftype := "range", min := .int 2, max := .int 3, maxExclusive := true }
    let f2 : RawFilter := { col := "x", ftype := "max", value := .rat (5/2) }
    applyAll PyDict.doFilter ["x"] (some [f1, f2]) rows = .ok [[("x", .rat (5/2))], [("x", .rat (5/2))]] ∧
    applyAll PyDict.doFilter ["x"] (some [f2, f1]) rows = .ok [[("x", .rat (5/2))], [("x", .rat (5/2))]] ∧
    applyAll PyDict.doFilter ["y"] (some [f1, f2]) rows = .ok rows := by
  intro rows f1 f2; decide +kernel

/-- range boundaries: `[2, 3)` keeps 2 and drops 3; `[2, 3]` keeps both -/
example : sat (.range (.int 2) (.int 3) true) (.int 2) = true ∧ sat (.range (.int 2) (.int 3) true) (.int 3) = false ∧
    sat (.range (.int 2) (.int 3) false) (.int 3) = true ∧ sat (.range (.int 2) (.int 3) false) (.rat (7/2)) = false := by
  decide +kernel

/-- `agreeGuard` is met by a string column with a null and an anchored pattern -/
example : agreeGuard .str (.regex ⟨true, [.lit 'a', .any]⟩) = true ∧
    homog .str "x" [[("x", .str "abc")], [("x", .null)]] = true ∧
    RawFilter.parse { col := "x", ftype := "regex", value := .str "^a." } = .ok (.regex ⟨true, [.lit 'a', .any]⟩) := by
  decide +kernel

/-! ## time filters (`GlobalFilter._check_and_convert_time_info`, model `Time.toUtcIso`) -/

/-- the produced text depends only on the instant: the same instant given in ANY zone (any wall clock / utc offset
pair, any fold) yields the same UTC ISO text, or overflows alike -/
theorem C11.utc_zone_independent (a b : Time.Aware) (h : a.instant = b.instant) : Time.toUtcIso a = Time.toUtcIso b := by
  unfold Time.Aware.instant at h
  have h1 : a.wall - a.offset = b.wall - b.offset := (Prod.mk.inj h).1
  have h2 : a.micros = b.micros := (Prod.mk.inj h).2
  unfold Time.toUtcIso
  simp only [h1, h2]

/-- two aware datetimes denote the same instant ↔ they are converted to the same text (for a representable instant and
legal microseconds): nothing is conflated, nothing is split -/
theorem C11.utc_same_instant (a b : Time.Aware) (ha : a.micros < 1000000) (hb : b.micros < 1000000)
    (hv : (Time.toUtcIso a).isSome = true) :
    Time.toUtcIso a = Time.toUtcIso b ↔ a.instant = b.instant := by
  constructor
  · intro h
    by_cases hra : 0 ≤ a.wall - a.offset ∧ a.wall - a.offset < (Time.maxSecs : Int)
    · by_cases hrb : 0 ≤ b.wall - b.offset ∧ b.wall - b.offset < (Time.maxSecs : Int)
      · rw [Time.toUtcIso_of_range a hra, Time.toUtcIso_of_range b hrb] at h
        have hl := String.ofList_injective (Option.some.inj h)
        have := Time.isoOfInstant_inj (by omega) (by omega) ha hb hl
        unfold Time.Aware.instant
        refine Prod.ext ?_ this.2
        show a.wall - a.offset = b.wall - b.offset
        omega
      · rw [Time.toUtcIso_of_range a hra, Time.toUtcIso_of_not_range b hrb] at h; cases h
    · rw [Time.toUtcIso_of_not_range a hra] at hv; cases hv
  · exact C11.utc_zone_independent a b

/-- outside years 1..9999 there is no text (`OverflowError` in Python), inside there always is -/
theorem C11.utc_defined_iff (a : Time.Aware) :
    (Time.toUtcIso a).isSome = true ↔ 0 ≤ a.wall - a.offset ∧ a.wall - a.offset < (Time.maxSecs : Int) := by
  by_cases h : 0 ≤ a.wall - a.offset ∧ a.wall - a.offset < (Time.maxSecs : Int)
  · rw [Time.toUtcIso_of_range a h]; exact ⟨fun _ => h, fun _ => rfl⟩
  · rw [Time.toUtcIso_of_not_range a h]; exact ⟨fun h' => Bool.noConfusion h', fun h' => absurd h' h⟩

/-- the calendar step loses nothing: `_ymd2ord (_ord2ymd n) = n` for every day number -/
theorem C11.calendar_roundtrip (n : Nat) :
    Time.ymd2ord0 (Time.ord2ymd n).1 (Time.ord2ymd n).2.1 (Time.ord2ymd n).2.2 = n := Time.ord2ymd_inv n

/-- non-vacuity: 2021-10-31 02:30 Europe/Berlin, fold 0 (+02:00) and fold 1 (+01:00) are different instants with different
texts; 15:00+01:00 and 09:00-05:00 are the same instant with the same text -/
example :
    Time.toUtcIso ⟨63771244200, 0, 7200⟩ = some "2021-10-31T00:30:00+00:00" ∧
    Time.toUtcIso ⟨63771244200, 0, 3600⟩ = some "2021-10-31T01:30:00+00:00" ∧
    Time.toUtcIso ⟨63871772400, 5, 3600⟩ = some "2025-01-06T14:00:00.000005+00:00" ∧
    Time.toUtcIso ⟨63871750800, 5, -18000⟩ = some "2025-01-06T14:00:00.000005+00:00" ∧
    Time.toUtcIso ⟨0, 0, 3600⟩ = none := by decide +kernel

theorem C11.utc_iso_order_mono (a b : Time.Aware) (ha : a.micros < 1000000) (hb : b.micros < 1000000)
    (sa sb : String) (hsa : Time.toUtcIso a = some sa) (hsb : Time.toUtcIso b = some sb)
    (h : Time.instantLt a b) : sa < sb := by
  have hra := (C11.utc_defined_iff a).mp (by rw [hsa]; rfl)
  have hrb := (C11.utc_defined_iff b).mp (by rw [hsb]; rfl)
  rw [Time.toUtcIso_of_range a hra] at hsa
  rw [Time.toUtcIso_of_range b hrb] at hsb
  cases hsa; cases hsb
  show (String.ofList _).toList < (String.ofList _).toList
  rw [String.toList_ofList, String.toList_ofList]
  apply Time.isoOfInstant_lt (by omega) (by omega) ha hb
  unfold Time.instantLt at h
  omega

/-- for all years 1..9999 the lexicographic (code point) order of the produced texts IS the order of the instants - the
optional `.ffffff` part included (`'+' < '.'`): a string range filter on UTC ISO texts selects by time -/
theorem C11.utc_iso_order (a b : Time.Aware) (ha : a.micros < 1000000) (hb : b.micros < 1000000)
    (sa sb : String) (hsa : Time.toUtcIso a = some sa) (hsb : Time.toUtcIso b = some sb) :
    sa < sb ↔ Time.instantLt a b := by
  constructor
  · intro hlt
    by_cases h1 : Time.instantLt a b
    · exact h1
    · exfalso
      by_cases h2 : Time.instantLt b a
      · exact String.lt_asymm hlt (C11.utc_iso_order_mono b a hb ha sb sa hsb hsa h2)
      · have heq : a.instant = b.instant := by
          unfold Time.instantLt at h1 h2
          unfold Time.Aware.instant
          refine Prod.ext ?_ ?_
          · show a.wall - a.offset = b.wall - b.offset; omega
          · show a.micros = b.micros; omega
        have := C11.utc_zone_independent a b heq
        rw [hsa, hsb] at this
        cases this
        exact String.lt_irrefl _ hlt
  · exact C11.utc_iso_order_mono a b ha hb sa sb hsa hsb

/-- non-vacuity of the order statement: a text without fractional part sorts before the same second with microseconds -/
example : ("2025-01-06T14:00:00+00:00" : String) < "2025-01-06T14:00:00.000005+00:00" ∧
    Time.instantLt ⟨63871772400, 0, 3600⟩ ⟨63871772400, 5, 3600⟩ := by
  constructor
  · decide
  · unfold Time.instantLt; decide
