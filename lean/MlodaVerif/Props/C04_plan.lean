import MlodaVerif.Lemmas.PlanFullNoLink
import MlodaVerif.Lemmas.PlanFullMid
import MlodaVerif.Lemmas.PlanFullRank
import MlodaVerif.Lemmas.PlanFullOneLink
import MlodaVerif.Lemmas.PlanFullDedup
import MlodaVerif.Lemmas.PlanFullDet
import MlodaVerif.Lemmas.PlanFullTotal
import MlodaVerif.Lemmas.PlanFullMany
import MlodaVerif.Lemmas.SchedFail
import MlodaVerif.Lemmas.PlanOK
/-! # C04 (extension `plan`): `ExecutionPlan.create_execution_plan` with joins and framework transformations

Model: `Model/PlanFull.lean` (`createPlan`).  `toSchedPlan` projects a plan to what the orchestrator reads (`Sched.Plan`), so the
scheduler theorems of `Props/C04.lean` (`C04.planOK_sound`, `C04.deadlock_free`, `C04.maximal_run_halts`) apply to it. -/
open Sched PlanFull

/-- with no link entries and every feature on one compute framework, `create_execution_plan` succeeds and its plan IS the planner
core's plan (`PlanCore.planCore` on the buckets in queue order): all `C04.planCore_*` theorems transfer -/
theorem C04.plan_no_links_is_planCore (g : Graph) (t : Trek) (linfo : Nat → LinkInfo) (o : Ord) (n0 : Nat)
    (q : List (Nat × List (List Nat))) (f0 : Nat) (hdata : t.data = []) (hfw : ∀ u, g.fw u = f0)
    (hne : ∀ e ∈ q, ∀ b ∈ e.2, b ≠ []) :
    ∃ p, createPlan g t linfo o n0 (fgQueue q) = .ok p ∧ toSchedPlan p = PlanCore.planCore g.anc (q.flatMap (·.2)) := by
  refine ⟨_, createPlan_no_links g t linfo o n0 q f0 hdata hfw hne, ?_⟩
  induction q with
  | nil => rfl
  | cons e r ih =>
    simp only [List.flatMap_cons, planCore_append, toSchedPlan, List.map_append]
    rw [← toSchedPlan_fgOf_nolinks g t o hdata e.1 e.2]
    congr 1
    exact ih (fun e' he' => hne e' (List.mem_cons_of_mem _ he'))

/-- exactly what `add_tfs` does to the plan `p` it is given: the result is `p`'s objects, in order, each preceded by the transform
steps made for it; no field of an object changes except `required_uuids` (and `children_if_root`, `tfs_ids`, `any_uuid`,
`need_to_upload`, which `core` leaves out); an object's required uuids grow by the uuids of its own transform steps and - for a
JoinStep between two frameworks - by `joinstep_collection[join]`; a transform step made for a JoinStep requires what the JoinStep
required before, one made for a FeatureGroupStep requires one ancestor `q` (on another framework) of the step's representative
`any_uuid` - the one the step was built with or a left uuid of a same-framework join (`AnyOK`) -/
theorem C04.plan_addTfs_structure (g : Graph) (linfo : Nat → LinkInfo) (o : Ord) (jc : List (Nat × List Nat)) (p P : List PStep)
    (n : Nat) (h : addTfs g linfo o jc p n = .ok P) :
    ∃ ins cur, P = assemble ins cur ∧ ins.length = p.length ∧ cur.map core = p.map core ∧
      (∀ (i : Nat) (s : PStep), p[i]? = some s → ∃ s' ts, cur[i]? = some s' ∧ ins[i]? = some ts ∧ Done g p jc s s' ts) ∧
      (∀ x ∈ ins.flatten, n ≤ x.uuid) ∧ (ins.flatten.map (·.uuid)).Pairwise (· < ·) := by
  obtain ⟨st, hinv, rfl⟩ := addTfs_inv h
  refine ⟨st.ins, st.cur, rfl, hinv.ins_len, hinv.core_eq, ?_, fun x hx => (hinv.fresh x hx).1, hinv.sorted⟩
  intro i s hs
  exact hinv.done i (List.getElem?_eq_some_iff.mp hs).1 s hs

/-- joins and transform steps never remove or reorder FeatureGroupSteps: the FeatureGroupSteps of the final plan are, in order and
with unchanged `get_uuids()`, class and framework, the steps `run_feature_group` made for the feature-group entries of the queue
(`fgOf`: one per dependency level of every bucket, requiring the level's ancestors and the uuids of the links that have a child in
the entry's class) -/
theorem C04.plan_fg_steps_preserved (g : Graph) (t : Trek) (linfo : Nat → LinkInfo) (o : Ord) (n0 : Nat) (q : List QEl)
    (P : List PStep) (h : createPlan g t linfo o n0 q = .ok P) :
    (P.filter isFg).map core = (fgsOfQueue g t o q).map core := by
  unfold createPlan at h
  cases hb : planBeforeTfs g t linfo o n0 q with
  | error e => rw [hb] at h; cases h
  | ok r =>
    obtain ⟨p2, jc, n⟩ := r
    rw [hb] at h
    simp only at h
    obtain ⟨js, _, hjs, rfl, _, _⟩ := planBeforeTfs_spec hb
    obtain ⟨st, hinv, rfl⟩ := addTfs_inv h
    have hlen : st.ins.length = st.cur.length := by
      have := congrArg List.length hinv.core_eq
      simp only [List.length_map] at this
      rw [hinv.ins_len, this]
    have htfs : ∀ ts ∈ st.ins, ∀ x ∈ ts, x.kind = .tfs := by
      intro ts hts x hx
      obtain ⟨i, hi⟩ := List.mem_iff_getElem?.mp hts
      have hlt : i < js.plan.length := by rw [← hinv.ins_len]; exact (List.getElem?_eq_some_iff.mp hi).1
      obtain ⟨s', ts', _, h2, hd⟩ := hinv.done i hlt _ (List.getElem?_eq_getElem hlt)
      rw [hi] at h2; cases h2
      exact (hd.tfs x hx).1
    rw [assemble_filter_isFg st.ins st.cur hlen htfs, filter_isFg_map_core hinv.core_eq, addJoinsteps_fg hjs, stepsOf_preSpec]
    simp only [List.filter_nil, List.nil_append]
    exact congrArg (List.map core) (filter_isFg_fgsOfQueue g t o q)

/-- a JoinStep's required set: `run_link` takes the children stored for the link entry (`linkChildren`), reduces them to one level
(`reduceChildren` = the children that are not a direct child of another child) and requires exactly every ancestor of a reduced child plus
every key of `link_trekker.order` whose value contains the link; the step's `get_uuids()` is {its own uuid, link.uuid} -/
theorem C04.plan_join_requires_ancestors (g : Graph) (t : Trek) (linfo : Nat → LinkInfo) (o : Ord) (fsc : List (List Nat))
    (n : Nat) (k : Key) (js : PStep) (h : runLink g t linfo o fsc n k = .ok (some js)) :
    ∃ lf rf ch, linkChildren t (linfo k.link) k = .ok (lf, rf, ch) ∧
      (∀ x, x ∈ reduceChildren g.adj ch ↔ x ∈ ch ∧ ∀ c ∈ ch, x ∉ g.adj c) ∧
      js.kind = .join ∧ js.outs = [n, k.link] ∧ js.fw = lf ∧ js.fw2 = rf ∧
      (∀ u, u ∈ js.req ↔ (∃ c ∈ reduceChildren g.adj ch, u ∈ g.anc c) ∨ (∃ e ∈ t.order, k.link ∈ e.2 ∧ u = e.1)) := by
  obtain ⟨lf, rf, ch, l, r, h1, _, rfl⟩ := runLink_some h
  exact ⟨lf, rf, ch, h1, (reduceChildren_spec (linkChildren_children h1).1).2, rfl, rfl, rfl, rfl, fun u => mem_joinReq⟩

/-- ... and in the final plan a JoinStep between two frameworks additionally requires the uuid of the transform step made for it
(exactly when one was made: see `C04.plan_tfs_dedup_partial`) and the uuids `joinstep_collection` recorded for it; a JoinStep
inside one framework requires nothing more -/
theorem C04.plan_join_final_requires (g : Graph) (linfo : Nat → LinkInfo) (o : Ord) (jc : List (Nat × List Nat)) (p P : List PStep)
    (n : Nat) (h : addTfs g linfo o jc p n = .ok P) (i : Nat) (s : PStep) (hs : p[i]? = some s) (hk : s.kind = .join) :
    ∃ (s' : PStep) (ts : List PStep), s' ∈ P ∧ core s' = core s ∧ (∀ x ∈ ts, x ∈ P ∧ x.kind = .tfs ∧ x.outs = [x.uuid] ∧ x.req = s.req) ∧
      s'.req = s.req ++ ts.map (·.uuid) ++ (if s.fw ≠ s.fw2 then collOf jc s.uuid else []) := by
  obtain ⟨st, hinv, rfl⟩ := addTfs_inv h
  obtain ⟨s', ts, h1, h2, hd⟩ := hinv.done i (List.getElem?_eq_some_iff.mp hs).1 s hs
  refine ⟨s', ts, mem_assemble_of h2 h1 (Or.inr rfl), core_at hinv.core_eq hs h1, ?_, ?_⟩
  · intro x hx
    exact ⟨mem_assemble_of h2 h1 (Or.inl hx), (hd.tfs x hx).1, (hd.tfs x hx).2, hd.jreq hk x hx⟩
  · rw [hd.req]; simp [hk]

/-- a consumer waits for the link: when a feature of a feature-group entry is among the children the trekker stores for a link key,
EVERY FeatureGroupStep made for that entry (every level of every bucket of the class) has the link's uuid - an element of the
JoinStep's `get_uuids()`, see `C04.plan_join_requires_ancestors` - in its required set, next to the ancestors of its features -/
theorem C04.plan_consumer_waits_for_link (g : Graph) (t : Trek) (linfo : Nat → LinkInfo) (o : Ord) (n0 : Nat) (q : List QEl)
    (P : List PStep) (h : createPlan g t linfo o n0 q = .ok P) (c : Nat) (bs : List (List Nat)) (hq : QEl.fg c bs ∈ q)
    (k : Key) (ch : List Nat) (hk : (k, ch) ∈ t.data) (f : Nat) (hf : f ∈ ch) (hfb : f ∈ bs.flatten)
    (b : List Nat) (hb : b ∈ bs) (L : List Nat) (hL : L ∈ OptGroup.splitLevels b g.anc) :
    ∃ s' ∈ P, s'.kind = .fg ∧ s'.outs = L ∧ s'.cls = c ∧ k.link ∈ s'.req ∧ ∀ a ∈ L.flatMap g.anc, a ∈ s'.req := by
  obtain ⟨s', hs', hc, hreq⟩ := createPlan_keeps h
    (mem_preSpec_step.mpr ⟨c, bs, b, L, hq, hb, hL, rfl⟩)
  refine ⟨s', hs', kind_of_core hc, outs_of_core hc, cls_of_core hc, ?_, ?_⟩
  · apply hreq
    simp only [mkFg, List.mem_eraseDups, List.mem_append]
    exact Or.inr (mem_retrieveLinks.mpr ⟨f, hfb, (k, ch), hk, hf, rfl⟩)
  · intro a ha
    apply hreq
    simp only [mkFg, List.mem_eraseDups, List.mem_append]
    exact Or.inl ha

/-- `add_tfs` keeps a plan runnable - for ANY number of joins (chains, forests, several joins per framework): if the plan `p`
handed to `add_tfs` (FeatureGroupSteps and JoinSteps, supply `n` above every uuid) has a uuid rank `φ` with gaps of two - constant
on each step's `get_uuids()`, every required uuid and every uuid of `joinstep_collection[join]` (for a JoinStep between two
frameworks) produced two ranks below, and the same for every ancestor on another framework of a representative `any_uuid` a
FeatureGroupStep may have (`MidOK`, decidable for a given `φ`) - then the final plan, with every transform step inserted and
every required set extended, has non-empty disjoint outputs and is well ranked.  The rank of the final plan is explicit
(`finalRank`): a transform step sits one above the maximum of what it requires. -/
theorem C04.plan_addTfs_keeps_runnable (g : Graph) (linfo : Nat → LinkInfo) (o : Ord) (jc : List (Nat × List Nat))
    (p P : List PStep) (n : Nat) (φ : Nat → Nat) (hm : MidOK g p jc n φ) (h : addTfs g linfo o jc p n = .ok P) :
    NonemptyOuts (toSchedPlan P) ∧ DisjointOuts (toSchedPlan P) ∧ WellRanked (toSchedPlan P) :=
  addTfs_planOK hm h

/-- THE MAIN ONE.  One link entry `k` in the queue (feature-group entries `qa` before it, `qb` after it) that `run_link` accepts
(`hjs`), under the hypotheses `OneLinkOK` (the buckets are as in `C04.planCore_wellRanked_partial`; the trekker stores exactly this
link with children `ch`; ancestors of the children are ranked below the link, the entries containing a child above it; for a join
inside one framework the side conditions on the `any_uuid` reset): the plan `create_execution_plan` builds - FeatureGroupSteps,
the JoinStep, every TransformFrameworkStep `add_tfs` inserts - has non-empty pairwise disjoint outputs and an acyclic, closed
wait-for relation, i.e. it satisfies the hypotheses of the scheduler theorems -/
theorem C04.plan_one_link_wellRanked (g : Graph) (t : Trek) (linfo : Nat → LinkInfo) (o : Ord) (n0 : Nat)
    (qa qb : List (Nat × List (List Nat))) (B : List (List Nat)) (k : Key) (ch : List Nat) (rb r : Nat → Nat) (rl : Nat)
    (js : PStep)
    (hjs : runLink g t linfo o (fscOf (preSpec g t o (oneLinkQueue qa qb k))) n0 k = .ok (some js))
    (hok : OneLinkOK g t (qa ++ qb) B k ch n0 rb r rl js) :
    ∃ P, createPlan g t linfo o n0 (oneLinkQueue qa qb k) = .ok P ∧
      NonemptyOuts (toSchedPlan P) ∧ DisjointOuts (toSchedPlan P) ∧ WellRanked (toSchedPlan P) := by
  have hne : ∀ e ∈ qa ++ qb, ∀ b ∈ e.2, b ≠ [] := by
    intro e he b hb
    exact hok.buckets.ne b (by rw [← hok.bdef]; exact List.mem_flatMap.mpr ⟨e, he, hb⟩)
  have hin : TfsInput (fgsOf g t o qa ++ [js] ++ fgsOf g t o qb) := by
    intro s hs
    simp only [List.mem_append, List.mem_singleton] at hs
    have hfg : ∀ q, s ∈ fgsOf g t o q → s.kind = .fg ∧ s.anyUuid ≠ none := by
      intro q hq
      obtain ⟨e, _, b, _, L, _, rfl⟩ := mem_fgsOf.mp hq
      simp [mkFg]
    rcases hs with (hs | rfl) | hs
    · exact Or.inl (hfg qa hs)
    · obtain ⟨hau, hk, _⟩ := runLink_notAU hjs
      refine Or.inr ⟨hk, ?_⟩
      simp only [isAU, hk, beq_self_eq_true, Bool.true_and, Bool.or_eq_false_iff, beq_eq_false_iff_ne] at hau
      exact ⟨hau.1, hau.2⟩
    · exact Or.inl (hfg qb hs)
  obtain ⟨P, hP⟩ := addTfs_ok g linfo o [(n0, [])] hin (n0 + 1)
  have h : createPlan g t linfo o n0 (oneLinkQueue qa qb k) = .ok P := by
    unfold createPlan
    rw [planBeforeTfs_oneLink hne hjs]
    exact hP
  exact ⟨P, h, addTfs_planOK (midOK_oneLink hjs hok) hP⟩

/-- hence every maximal run of that plan has returned or raised, for every schedule (event list) -/
theorem C04.plan_one_link_runs_to_completion (g : Graph) (t : Trek) (linfo : Nat → LinkInfo) (o : Ord) (n0 : Nat)
    (qa qb : List (Nat × List (List Nat))) (B : List (List Nat)) (k : Key) (ch : List Nat) (rb r : Nat → Nat) (rl : Nat)
    (js : PStep)
    (hjs : runLink g t linfo o (fscOf (preSpec g t o (oneLinkQueue qa qb k))) n0 k = .ok (some js))
    (hok : OneLinkOK g t (qa ++ qb) B k ch n0 rb r rl js) :
    ∃ P, createPlan g t linfo o n0 (oneLinkQueue qa qb k) = .ok P ∧
      ∀ (evs : List Ev), (∀ e, ¬ Progress (toSchedPlan P) (run (toSchedPlan P) init evs) e) →
        halted (run (toSchedPlan P) init evs) = true := by
  obtain ⟨P, h, hne, hd, hwr⟩ := C04.plan_one_link_wellRanked g t linfo o n0 qa qb B k ch rb r rl js hjs hok
  refine ⟨P, h, ?_⟩
  intro evs hmax
  have hp : toSchedPlan P ≠ [] := by
    -- the plan holds the JoinStep
    have hne' : ∀ e ∈ qa ++ qb, ∀ b ∈ e.2, b ≠ [] := by
      intro e he b hb
      exact hok.buckets.ne b (by rw [← hok.bdef]; exact List.mem_flatMap.mpr ⟨e, he, hb⟩)
    unfold createPlan at h
    rw [planBeforeTfs_oneLink hne' hjs] at h
    obtain ⟨st, hinv, rfl⟩ := addTfs_inv h
    have hjs_mem : js ∈ fgsOf g t o qa ++ [js] ++ fgsOf g t o qb := by simp
    obtain ⟨i, hi⟩ := List.mem_iff_getElem?.mp hjs_mem
    obtain ⟨s', ts, h1, h2, _⟩ := hinv.done i (List.getElem?_eq_some_iff.mp hi).1 js hi
    intro hnil
    have := mem_assemble_of h2 h1 (Or.inr rfl)
    simp only [toSchedPlan, List.map_eq_nil_iff] at hnil
    rw [hnil] at this; cases this
  cases hh : halted (run (toSchedPlan P) init evs) with
  | true => rfl
  | false =>
    obtain ⟨e, he⟩ := Sched.deadlock_free hd hne hwr hp ⟨evs, rfl⟩ hh
    exact absurd he (hmax e)

/-! non-vacuity of the hypotheses of `C04.plan_one_link_wellRanked`: sources A = {0, 1} and B = {2, 3}, consumer Z = {4} with
ancestors 1 and 3, link 5 = inner(A, B) with child 4, supply from 10.  `ExOne.g 1`: everything on framework 1 (same-framework
join, the consumer's `any_uuid` is reset to a left uuid); `ExOne.g 2`: B on framework 2 (a transform step is inserted). -/
namespace ExOne
def g (fb : Nat) : Graph :=
  { anc := fun u => if u = 4 then [1, 3] else [], ancKeys := [4], adj := fun u => if u = 1 ∨ u = 3 then [4] else [],
    fw := fun u => if u = 2 ∨ u = 3 then fb else 1, cls := fun u => if u ≤ 1 then 1 else if u ≤ 3 then 2 else 3,
    sub := fun c d => c == d }
def k (fb : Nat) : Key := { link := 5, left := 1, right := fb }
def t (fb : Nat) : Trek := { data := [(k fb, [4])], order := [] }
def linfo : Nat → LinkInfo := fun _ => { jt := .inner, lcls := 1, rcls := 2 }
def qa : List (Nat × List (List Nat)) := [(1, [[0, 1]]), (2, [[2, 3]])]
def qb : List (Nat × List (List Nat)) := [(3, [[4]])]
def rb : Nat → Nat := fun u => if u = 4 then 2 else 0
def js (fb : Nat) : PStep :=
  { kind := .join, uuid := 10, outs := [10, 5], req := [1, 3], fw := 1, fw2 := fb, link := some 5, jt := .inner,
    lfu := [0, 1], rfu := [2, 3] }
end ExOne

example : runLink (ExOne.g 1) (ExOne.t 1) ExOne.linfo [] (fscOf (preSpec (ExOne.g 1) (ExOne.t 1) [] (oneLinkQueue ExOne.qa ExOne.qb (ExOne.k 1)))) 10 (ExOne.k 1)
    = .ok (some (ExOne.js 1)) := by rfl

set_option synthInstance.maxHeartbeats 400000 in
set_option synthInstance.maxSize 1024 in
example : OneLinkOK (ExOne.g 1) (ExOne.t 1) (ExOne.qa ++ ExOne.qb) [[0, 1], [2, 3], [4]] (ExOne.k 1) [4] 10 ExOne.rb id 1 (ExOne.js 1) :=
  { bdef := by decide, data := rfl, order := by decide,
    buckets := ⟨by decide, by decide, by decide, by decide, by decide, by decide⟩,
    chmem := by decide, below := by decide, above := by decide, fresh := by decide, linkFresh := by decide,
    lrmem := by decide, lfu := by decide, reset := by decide }

example : (createPlan (ExOne.g 1) (ExOne.t 1) ExOne.linfo [] 10 (oneLinkQueue ExOne.qa ExOne.qb (ExOne.k 1))).toOption.map
      (fun p => p.map (fun s => (s.kind, s.outs, s.req, s.anyUuid))) =
    some [(.fg, [0, 1], [], some 0), (.fg, [2, 3], [], some 2), (.join, [10, 5], [1, 3], none), (.fg, [4], [1, 3, 5], some 1)] := by
  decide

example : runLink (ExOne.g 2) (ExOne.t 2) ExOne.linfo [] (fscOf (preSpec (ExOne.g 2) (ExOne.t 2) [] (oneLinkQueue ExOne.qa ExOne.qb (ExOne.k 2)))) 10 (ExOne.k 2)
    = .ok (some (ExOne.js 2)) := by rfl

set_option synthInstance.maxHeartbeats 400000 in
set_option synthInstance.maxSize 1024 in
example : OneLinkOK (ExOne.g 2) (ExOne.t 2) (ExOne.qa ++ ExOne.qb) [[0, 1], [2, 3], [4]] (ExOne.k 2) [4] 10 ExOne.rb id 1 (ExOne.js 2) :=
  { bdef := by decide, data := rfl, order := by decide,
    buckets := ⟨by decide, by decide, by decide, by decide, by decide, by decide⟩,
    chmem := by decide, below := by decide, above := by decide, fresh := by decide, linkFresh := by decide,
    lrmem := by decide, lfu := by decide, reset := by decide }

/-- the cross-framework plan: a transform step (uuid 11, waits for what the JoinStep waited for) before the JoinStep, which waits for it -/
example : (createPlan (ExOne.g 2) (ExOne.t 2) ExOne.linfo [] 10 (oneLinkQueue ExOne.qa ExOne.qb (ExOne.k 2))).toOption.map
      (fun p => p.map (fun s => (s.kind, s.outs, s.req))) =
    some [(.fg, [0, 1], []), (.fg, [2, 3], []), (.tfs, [11], [1, 3]), (.join, [10, 5], [1, 3, 11]), (.fg, [4], [1, 3, 5])] := by
  decide

/-- GENERALISATION to any number of links (chains, stars, forests).  `p`, `jc`, `n` = the plan, the JoinStepCollection and the supply
after `add_joinstep` (`planBeforeTfs`, determined by `C04.plan_join_requires_ancestors` / `similarUuids`).  Under `ManyOK` - the buckets
are as in `C04.planCore_wellRanked_partial`; the link entries name pairwise different links; every link a FeatureGroupStep waits for
has its JoinStep and the entry's features are ranked above that link; everything a JoinStep waits for (ancestors of its children,
`link_trekker.order` predecessors, `joinstep_collection`) is a planned feature ranked below its link or an output of the JoinStep
of a link ranked below it, i.e. the rank `rl` of links witnesses that `order` and the collection are acyclic; side conditions for
the `any_uuid` reset of joins inside one framework - `create_execution_plan` succeeds and its plan is runnable: non-empty pairwise
disjoint outputs, closed and acyclic wait-for relation. -/
theorem C04.plan_links_wellRanked (g : Graph) (t : Trek) (linfo : Nat → LinkInfo) (o : Ord) (n0 : Nat) (q : List QEl)
    (B : List (List Nat)) (p : List PStep) (jc : List (Nat × List Nat)) (n : Nat) (rb r rl : Nat → Nat)
    (hmid : planBeforeTfs g t linfo o n0 q = .ok (p, jc, n)) (hok : ManyOK g t q B p jc n0 rb r rl) :
    ∃ P, createPlan g t linfo o n0 q = .ok P ∧
      NonemptyOuts (toSchedPlan P) ∧ DisjointOuts (toSchedPlan P) ∧ WellRanked (toSchedPlan P) := by
  have hin : TfsInput p := by
    obtain ⟨jst, _, hjs, rfl, _, _⟩ := planBeforeTfs_spec hmid
    intro s hs
    obtain ⟨_, hm, _, _⟩ := addJoinsteps_mem hjs
    rcases hm s hs with h' | h' | ⟨k, m, _, _, _, hr⟩
    · cases h'
    · obtain ⟨c, bs, b, L, _, _, _, rfl⟩ := mem_preSpec_step.mp h'
      exact Or.inl ⟨rfl, by simp [mkFg]⟩
    · obtain ⟨hau, hk, _⟩ := runLink_notAU hr
      refine Or.inr ⟨hk, ?_⟩
      simp only [isAU, hk, beq_self_eq_true, Bool.true_and, Bool.or_eq_false_iff, beq_eq_false_iff_ne] at hau
      exact ⟨hau.1, hau.2⟩
  obtain ⟨P, hP⟩ := addTfs_ok g linfo o jc hin n
  have h : createPlan g t linfo o n0 q = .ok P := by
    unfold createPlan
    rw [hmid]
    exact hP
  exact ⟨P, h, addTfs_planOK (midOK_many hmid hok) hP⟩

/-! non-vacuity of `C04.plan_links_wellRanked`: a chain of two links.  Sources a = 0 (class 1), b = 1 (class 2) on framework 1,
c = 2 (class 3) on framework 2; links 5 = inner(A, B) (inside framework 1) and 6 = left(B, C) (across frameworks) with
`order = {5: {6}}`; consumer 3 (class 4, framework 1) needs both. -/
namespace ExMany
def g : Graph :=
  { anc := fun u => if u = 3 then [0, 1, 2] else [], ancKeys := [3], adj := fun u => if u ≤ 2 then [3] else [],
    fw := fun u => if u = 2 then 2 else 1, cls := fun u => u + 1, sub := fun c d => c == d }
def t : Trek := { data := [(⟨5, 1, 1⟩, [3]), (⟨6, 1, 2⟩, [3])], order := [(5, [6])] }
def linfo : Nat → LinkInfo :=
  fun u => if u = 5 then { jt := .inner, lcls := 1, rcls := 2 } else { jt := .left, lcls := 2, rcls := 3 }
def q : List QEl := [.fg 1 [[0]], .fg 2 [[1]], .fg 3 [[2]], .link ⟨5, 1, 1⟩, .link ⟨6, 1, 2⟩, .fg 4 [[3]]]
def rb : Nat → Nat := fun u => if u = 3 then 3 else 0
def rl : Nat → Nat := fun u => if u = 5 then 1 else 2
end ExMany

set_option synthInstance.maxHeartbeats 400000 in
set_option synthInstance.maxSize 1024 in
example : ∃ p jc n, planBeforeTfs ExMany.g ExMany.t ExMany.linfo [] 10 ExMany.q = .ok (p, jc, n) ∧
    ManyOK ExMany.g ExMany.t ExMany.q [[0], [1], [2], [3]] p jc 10 ExMany.rb id ExMany.rl :=
  ⟨_, _, _, rfl,
    { bdef := by decide, buckets := ⟨by decide, by decide, by decide, by decide, by decide, by decide⟩, fresh := by decide,
      qlinks := by decide, linkFresh := by decide, needed := by decide, above := by decide, jreq := by decide,
      lrmem := by decide, lfu := by decide, reset := by decide }⟩

/-- the plan of that chain: the same-framework JoinStep first, one transform step, then the cross-framework JoinStep, which waits
for `order`'s predecessor 5, for its transform step 12 and (joinstep_collection) for 10 and 5; the consumer's `any_uuid` is reset -/
example : (createPlan ExMany.g ExMany.t ExMany.linfo [] 10 ExMany.q).toOption.map (fun p => p.map (fun s => (s.kind, s.outs, s.req, s.anyUuid))) =
    some [(.fg, [0], [], some 0), (.fg, [1], [], some 1), (.fg, [2], [], some 2), (.join, [10, 5], [0, 1, 2], none),
      (.tfs, [12], [0, 1, 2, 5], none), (.join, [11, 6], [0, 1, 2, 5, 12, 10, 5], none), (.fg, [3], [0, 1, 2, 5, 6], some 0)] := by
  decide

/-- `tfs_collecion` de-duplication: in the plan `create_execution_plan` returns no two TransformFrameworkSteps are `==`
(same from/to framework and from/to feature-group class) - whatever made them, a JoinStep or a FeatureGroupStep -/
theorem C04.plan_tfs_dedup (g : Graph) (t : Trek) (linfo : Nat → LinkInfo) (o : Ord) (n0 : Nat) (q : List QEl) (P : List PStep)
    (h : createPlan g t linfo o n0 q = .ok P) : ((P.filter (fun s => s.kind == .tfs)).map tkey).Nodup := by
  unfold createPlan at h
  cases hb : planBeforeTfs g t linfo o n0 q with
  | error e => rw [hb] at h; cases h
  | ok r =>
    obtain ⟨p2, jc, n⟩ := r
    rw [hb] at h
    simp only at h
    obtain ⟨js, _, hjs, rfl, _, _⟩ := planBeforeTfs_spec hb
    apply addTfs_tfs_keys_nodup h
    intro s hs
    obtain ⟨_, hm, _, _⟩ := addJoinsteps_mem hjs
    rcases hm s hs with h' | h' | ⟨k, m, _, _, _, hr⟩
    · cases h'
    · obtain ⟨c, bs, b, L, _, _, _, rfl⟩ := mem_preSpec_step.mp h'
      simp [mkFg]
    · rw [(runLink_notAU hr).2.1]; simp

/-- PARTIAL (the full statement "every JoinStep between two frameworks requires the uuid of the transform step that moves its right
side" is false: `C04.plan_tfs_dedup_witness`): for every JoinStep `s` between two frameworks the plan holds a transform step with the
JoinStep's key (exactly one by `C04.plan_tfs_dedup`), but the JoinStep requires a transform step's uuid only when that step was
made for it: the steps inserted directly before it are none, or exactly that one, and its required uuids are the ones it had
plus the uuids of those inserted steps plus `joinstep_collection[s]` -/
theorem C04.plan_tfs_dedup_partial (g : Graph) (linfo : Nat → LinkInfo) (o : Ord) (jc : List (Nat × List Nat)) (p P : List PStep)
    (n : Nat) (h : addTfs g linfo o jc p n = .ok P) (i : Nat) (s : PStep) (hs : p[i]? = some s) (hk : s.kind = .join)
    (hx : s.fw ≠ s.fw2) :
    (∃ y ∈ P, y.kind = .tfs ∧ tkey y = joinKey linfo s) ∧
    ∃ (s' : PStep) (ts : List PStep), s' ∈ P ∧ core s' = core s ∧ (ts = [] ∨ ∃ x, ts = [x] ∧ x ∈ P ∧ tkey x = joinKey linfo s) ∧
      s'.req = s.req ++ ts.map (·.uuid) ++ collOf jc s.uuid := by
  obtain ⟨hex, st, rfl, hT, ts, hts, hshape⟩ := addTfs_cross_join h hs hk hx
  refine ⟨hex, ?_⟩
  obtain ⟨s', ts', h1, h2, hd⟩ := hT.done i (List.getElem?_eq_some_iff.mp hs).1 s hs
  rw [hts] at h2; cases h2
  refine ⟨s', ts, mem_assemble_of hts h1 (Or.inr rfl), core_at hT.core_eq hs h1, ?_, ?_⟩
  · rcases hshape with h' | ⟨x, hx1, hx2⟩
    · exact Or.inl h'
    · exact Or.inr ⟨x, hx1, mem_assemble_of hts h1 (Or.inl (by rw [hx1]; simp)), hx2⟩
  · rw [hd.req]; simp [hk, hx]

/-! ## determinism in the explicit iteration orders

`createPlan` takes four families of iteration orders (`Ord` sites 0-3) besides the orders of the input lists.  Site 3 (the
order of `JoinStep.right_framework_uuids`) is proved irrelevant for everything but one field; for the sites 0, 1, 2, for the order
of the buckets and for the order of `parent_to_children_mapping[u]` there are closed witnesses that the plan changes
(`C04.plan_any_uuid_order_witness`, `C04.plan_store_val_order_witness`, `C04.plan_children_order_witness`,
`C04.plan_tfs_shared_producer_witness`, `C04.plan_parents_order_witness`). -/

/-- two order oracles that agree at the sites 0, 1, 2 give the same outcome (same error, or the same plan) up to the field
`TransformFrameworkStep.right_framework_uuid` -/
theorem C04.plan_rfu_order_invariant (o o' : Ord) (h : AgreeUpTo3 o o') (g : Graph) (t : Trek) (linfo : Nat → LinkInfo) (n0 : Nat)
    (q : List QEl) :
    (createPlan g t linfo o n0 q).map (List.map clr) = (createPlan g t linfo o' n0 q).map (List.map clr) :=
  createPlan_site3 h g t linfo n0 q

/-- in particular what the orchestrator reads of the plan (kinds, `get_uuids()`, `required_uuids`) does not depend on that order -/
theorem C04.plan_rfu_order_invariant_sched (o o' : Ord) (h : AgreeUpTo3 o o') (g : Graph) (t : Trek) (linfo : Nat → LinkInfo)
    (n0 : Nat) (q : List QEl) :
    (createPlan g t linfo o n0 q).map toSchedPlan = (createPlan g t linfo o' n0 q).map toSchedPlan := by
  have hc := createPlan_site3 h g t linfo n0 q
  have e : ∀ r : Except String (List PStep), r.map toSchedPlan = (r.map (List.map clr)).map toSchedPlan := by
    intro r
    cases r with
    | error e => rfl
    | ok p =>
      simp only [Except.map, toSchedPlan, List.map_map]
      rfl
  rw [e (createPlan g t linfo o n0 q), e (createPlan g t linfo o' n0 q), hc]

/-! ## closed witnesses (each is replayed on the real `create_execution_plan` by `harness/corr/c04_plan.py`, suite `plan_witness`) -/

namespace PlanWit
/-- what the orchestrator reads of a plan -/
def view (r : Except String (List PStep)) : Option (List (Kind × List Nat × List Nat)) :=
  r.toOption.map (fun p => p.map (fun s => (s.kind, s.outs, s.req)))
def ok? (r : Except String (List PStep)) : Option Bool := r.toOption.map (fun p => planOK (toSchedPlan p))
def eqSub : Nat → Nat → Bool := fun c d => c == d

/-- W1: sources a = 0 (class 1, framework 1), b = 1 (class 2, framework 2); two different links 5 = inner(A, B), 6 = left(A, B);
consumers 2 (class 3) of link 5 and 3 (class 4) of link 6, both on framework 1 with ancestors 0, 1 -/
def g1 : Graph :=
  { anc := fun u => if u = 2 ∨ u = 3 then [0, 1] else [], ancKeys := [2, 3], adj := fun u => if u ≤ 1 then [2, 3] else [],
    fw := fun u => if u = 1 then 2 else 1, cls := fun u => u + 1, sub := eqSub }
def t1 : Trek := { data := [(⟨5, 1, 2⟩, [2]), (⟨6, 1, 2⟩, [3])], order := [] }
def l1 : Nat → LinkInfo := fun u => { jt := if u = 5 then .inner else .left, lcls := 1, rcls := 2 }
def q1 : List QEl := [.fg 1 [[0]], .fg 2 [[1]], .link ⟨5, 1, 2⟩, .fg 3 [[2]], .link ⟨6, 1, 2⟩, .fg 4 [[3]]]

/-- W2: producers 0, 1 (class 1, framework 2, two buckets), consumers 2 (needs 0), 3 (needs 1) (class 2, framework 1, two buckets) -/
def g2 : Graph :=
  { anc := fun u => if u = 2 then [0] else if u = 3 then [1] else [], ancKeys := [2, 3],
    adj := fun u => if u = 0 then [2] else if u = 1 then [3] else [],
    fw := fun u => if u ≤ 1 then 2 else 1, cls := fun u => if u ≤ 1 then 1 else 2, sub := eqSub }
def t0 : Trek := { data := [], order := [] }

/-- W4: link 5 = inner(A, B) with key (5, framework 1, framework 2), child 2 on framework 1, but A's feature 0 is on framework 3 -/
def g4 : Graph :=
  { anc := fun u => if u = 2 then [0, 1] else [], ancKeys := [2], adj := fun u => if u ≤ 1 then [2] else [],
    fw := fun u => if u = 0 then 3 else if u = 1 then 2 else 1, cls := fun u => u + 1, sub := eqSub }
def t4 : Trek := { data := [(⟨5, 1, 2⟩, [2])], order := [] }
def l4 : Nat → LinkInfo := fun _ => { jt := .inner, lcls := 1, rcls := 2 }
def q4 : List QEl := [.fg 1 [[0]], .fg 2 [[1]], .link ⟨5, 1, 2⟩, .fg 3 [[2]]]

/-- W5: both orientations of link 5 in the queue (children 2 and 3 on a third framework) -/
def g5 : Graph :=
  { anc := fun u => if u = 2 ∨ u = 3 then [0, 1] else [], ancKeys := [2, 3], adj := fun u => if u ≤ 1 then [2, 3] else [],
    fw := fun u => if u = 1 then 2 else if u = 0 then 1 else 3, cls := fun u => u + 1, sub := eqSub }
def t5 : Trek := { data := [(⟨5, 1, 2⟩, [2]), (⟨5, 2, 1⟩, [3])], order := [] }
def q5 : List QEl := [.fg 1 [[0]], .fg 2 [[1]], .link ⟨5, 1, 2⟩, .link ⟨5, 2, 1⟩, .fg 3 [[2]], .fg 4 [[3]]]

/-- W6: one consumer step {2, 3}: 2 needs 0 (framework 1, the consumer's), 3 needs 1 (framework 2) -/
def g6 : Graph :=
  { anc := fun u => if u = 2 then [0] else if u = 3 then [1] else [], ancKeys := [2, 3],
    adj := fun u => if u = 0 then [2] else if u = 1 then [3] else [],
    fw := fun u => if u = 1 then 2 else 1, cls := fun u => if u ≤ 1 then u + 1 else 3, sub := eqSub }
def q6 : List QEl := [.fg 1 [[0]], .fg 2 [[1]], .fg 3 [[2, 3]]]

/-- W7: two same-framework links whose `order` entries name each other -/
def g7 : Graph :=
  { anc := fun u => if u = 2 ∨ u = 3 then [0, 1] else [], ancKeys := [2, 3], adj := fun u => if u ≤ 1 then [2, 3] else [],
    fw := fun _ => 1, cls := fun u => u + 1, sub := eqSub }
def t7 : Trek := { data := [(⟨5, 1, 1⟩, [2]), (⟨6, 1, 1⟩, [3])], order := [(5, [6]), (6, [5])] }
def q7 : List QEl := [.fg 1 [[0]], .fg 2 [[1]], .link ⟨5, 1, 1⟩, .link ⟨6, 1, 1⟩, .fg 3 [[2]], .fg 4 [[3]]]

/-- W9: left class A in two buckets {0}, {1}; B = {2}; one consumer step {3 (needs 0, 2), 4 (needs 1, 2)}; all on framework 1 -/
def g9 : Graph :=
  { anc := fun u => if u = 3 then [0, 2] else if u = 4 then [1, 2] else [], ancKeys := [3, 4],
    adj := fun u => if u = 0 then [3] else if u = 1 then [4] else if u = 2 then [3, 4] else [],
    fw := fun _ => 1, cls := fun u => if u ≤ 1 then 1 else if u = 2 then 2 else 3, sub := eqSub }
def t9 : Trek := { data := [(⟨5, 1, 1⟩, [3, 4])], order := [] }
def q9 : List QEl := [.fg 1 [[0], [1]], .fg 2 [[2]], .link ⟨5, 1, 1⟩, .fg 3 [[3, 4]]]
end PlanWit

open PlanWit in
/-- `tfs_collecion` de-duplication across joins (W1): the two cross-framework joins yield `==` transform steps, ONE is planned
(uuid 12, before the first JoinStep, which requires it); the second JoinStep (uuids 11, 6) does NOT require it - it only waits for
the first JoinStep through `joinstep_collection` (10, 5).  The plan is still runnable. -/
theorem C04.plan_tfs_dedup_witness :
    view (createPlan g1 t1 l1 [] 10 q1) = some [(.fg, [0], []), (.fg, [1], []), (.tfs, [12], [0, 1]), (.join, [10, 5], [0, 1, 12]),
      (.fg, [2], [0, 1, 5]), (.join, [11, 6], [0, 1, 10, 5]), (.fg, [3], [0, 1, 6])] ∧
    ok? (createPlan g1 t1 l1 [] 10 q1) = some true := by decide

open PlanWit in
/-- de-duplication in the FeatureGroupStep branch (W2): two consumer steps of one class pair share ONE transform step; it waits only
for the producer of the consumer step that comes first (bucket order = set iteration order: `[[2],[3]]` vs `[[3],[2]]`), the other
consumer step waits for no transform step at all (its `tfs_ids` holds the uuid of a discarded object).  Mechanism of the known
finding "which producer step a shared transform step waits for". -/
theorem C04.plan_tfs_shared_producer_witness :
    view (createPlan g2 t0 (fun _ => {}) [] 10 [.fg 1 [[0], [1]], .fg 2 [[2], [3]]]) =
      some [(.fg, [0], []), (.fg, [1], []), (.tfs, [10], [0]), (.fg, [2], [0, 10]), (.fg, [3], [1])] ∧
    view (createPlan g2 t0 (fun _ => {}) [] 10 [.fg 1 [[0], [1]], .fg 2 [[3], [2]]]) =
      some [(.fg, [0], []), (.fg, [1], []), (.tfs, [10], [1]), (.fg, [3], [1, 10]), (.fg, [2], [0])] ∧
    (createPlan g2 t0 (fun _ => {}) [] 10 [.fg 1 [[0], [1]], .fg 2 [[2], [3]]]).toOption.map (fun p => p.map (·.tfsIds)) =
      some [[], [], [], [10], [11]] := by decide

open PlanWit in
/-- a link entry `is_valid_join_step` rejects is dropped from the plan, but the consumer's FeatureGroupStep still requires the
link's uuid (W4): no step produces uuid 5, the plan is not closed (`C04.dangling_never_returns` applies) -/
theorem C04.plan_dropped_join_witness :
    view (createPlan g4 t4 l4 [] 10 q4) =
      some [(.fg, [0], []), (.fg, [1], []), (.tfs, [10], [0]), (.tfs, [11], [1]), (.fg, [2], [0, 1, 5, 10, 11])] ∧
    ok? (createPlan g4 t4 l4 [] 10 q4) = some false := by decide

open PlanWit in
/-- two link entries that are the two orientations of ONE link give two JoinSteps with the same `link.uuid` in `get_uuids()` (W5):
outputs are not disjoint, and the second JoinStep waits (through `joinstep_collection`) for a uuid it produces itself -/
theorem C04.plan_two_orientations_witness :
    (createPlan g5 t5 l4 [] 10 q5).toOption.map (fun p => (p.filter (·.kind == .join)).map (fun s => (s.outs, s.req))) =
      some [([10, 5], [0, 1, 12]), ([11, 5], [0, 1, 13, 10, 5])] ∧
    (createPlan g5 t5 l4 [] 10 q5).toOption.map (fun p => disjointOutsB (toSchedPlan p)) = some false ∧
    ok? (createPlan g5 t5 l4 [] 10 q5) = some false := by decide

open PlanWit in
/-- the plan depends on which feature a FeatureSet iterates first (site 0, `any_uuid`) (W6): transform steps are made for the
parents of that ONE feature only - with feature 2 first there is no transform step, with feature 3 first there is one -/
theorem C04.plan_any_uuid_order_witness :
    view (createPlan g6 t0 (fun _ => {}) [(0, [2, 3])] 10 q6) = some [(.fg, [0], []), (.fg, [1], []), (.fg, [2, 3], [0, 1])] ∧
    view (createPlan g6 t0 (fun _ => {}) [(0, [3, 2])] 10 q6) =
      some [(.fg, [0], []), (.fg, [1], []), (.tfs, [10], [1]), (.fg, [2, 3], [0, 1, 10])] := by decide

open PlanWit in
/-- a cyclic `link_trekker.order` is copied into the JoinSteps' required sets (W7): the two JoinSteps wait for each other -/
theorem C04.plan_cyclic_order_witness :
    (createPlan g7 t7 l1 [] 10 q7).toOption.map (fun p => (p.filter (·.kind == .join)).map (fun s => (s.outs, s.req))) =
      some [([10, 5], [0, 1, 6]), ([11, 6], [0, 1, 5])] ∧
    ok? (createPlan g7 t7 l1 [] 10 q7) = some false := by decide

open PlanWit in
/-- the plan depends on the iteration order of `get_uuids()` (site 1): `store_val` is the LAST left uuid met, and becomes the
consumer's `any_uuid` / `tfs_ids` (non-vacuity world of `C04.plan_one_link_wellRanked`, same framework) -/
theorem C04.plan_store_val_order_witness :
    (createPlan (ExOne.g 1) (ExOne.t 1) ExOne.linfo [(1, [0, 1])] 10 (oneLinkQueue ExOne.qa ExOne.qb (ExOne.k 1))).toOption.map
      (fun p => p.map (fun s => (s.outs, s.anyUuid, s.tfsIds))) =
      some [([0, 1], some 0, []), ([2, 3], some 2, []), ([10, 5], none, []), ([4], some 1, [1])] ∧
    (createPlan (ExOne.g 1) (ExOne.t 1) ExOne.linfo [(1, [1, 0])] 10 (oneLinkQueue ExOne.qa ExOne.qb (ExOne.k 1))).toOption.map
      (fun p => p.map (fun s => (s.outs, s.anyUuid, s.tfsIds))) =
      some [([0, 1], some 0, []), ([2, 3], some 2, []), ([10, 5], none, []), ([4], some 0, [0])] := by decide

open PlanWit in
/-- the plan depends on the iteration order of the children of a link (site 2) (W9): `is_valid_join_step` returns a different
(left, right) pair for each child and the LAST one wins - the JoinStep's `left_framework_uuids` (the compute framework the join is
executed on) is the step of feature 1 or the step of feature 0 -/
theorem C04.plan_children_order_witness :
    (createPlan g9 t9 l4 [(2, [3, 4])] 10 q9).toOption.map (fun p => (p.filter (·.kind == .join)).map (fun s => (s.lfu, s.rfu))) =
      some [([1], [2])] ∧
    (createPlan g9 t9 l4 [(2, [4, 3])] 10 q9).toOption.map (fun p => (p.filter (·.kind == .join)).map (fun s => (s.lfu, s.rfu))) =
      some [([0], [2])] := by decide

open PlanWit in
/-- ... while the field itself does depend on it (site 3): the transform step of the cross-framework non-vacuity world of
`C04.plan_one_link_wellRanked` records feature 2 or feature 3 as `right_framework_uuid` -/
theorem C04.plan_rfu_order_witness :
    (createPlan (ExOne.g 2) (ExOne.t 2) ExOne.linfo [(3, [2, 3])] 10 (oneLinkQueue ExOne.qa ExOne.qb (ExOne.k 2))).toOption.map
      (fun p => (p.filter (·.kind == .tfs)).map (·.rfu1)) = some [some 2] ∧
    (createPlan (ExOne.g 2) (ExOne.t 2) ExOne.linfo [(3, [3, 2])] 10 (oneLinkQueue ExOne.qa ExOne.qb (ExOne.k 2))).toOption.map
      (fun p => (p.filter (·.kind == .tfs)).map (·.rfu1)) = some [some 3] := by decide

/-- W10: consumer 2 (class 2, framework 1) with parents 0 and 1 of ONE class on framework 2 in two steps (two buckets) -/
def PlanWit.g10 (ps : List Nat) : Graph :=
  { anc := fun u => if u = 2 then ps else [], ancKeys := [2], adj := fun u => if u ≤ 1 then [2] else [],
    fw := fun u => if u ≤ 1 then 2 else 1, cls := fun u => if u ≤ 1 then 1 else 2, sub := PlanWit.eqSub }

open PlanWit in
/-- the plan depends on the iteration order of `parent_to_children_mapping[any_uuid]` (W10): both parents yield `==` transform
steps, the one made for the parent met FIRST is planned (it waits for that parent's step only), the consumer waits for it -/
theorem C04.plan_parents_order_witness :
    view (createPlan (g10 [0, 1]) t0 (fun _ => {}) [] 10 [.fg 1 [[0], [1]], .fg 2 [[2]]]) =
      some [(.fg, [0], []), (.fg, [1], []), (.tfs, [10], [0]), (.fg, [2], [0, 1, 10])] ∧
    view (createPlan (g10 [1, 0]) t0 (fun _ => {}) [] 10 [.fg 1 [[0], [1]], .fg 2 [[2]]]) =
      some [(.fg, [0], []), (.fg, [1], []), (.tfs, [10], [1]), (.fg, [2], [1, 0, 10])] := by decide

/-- W11: sources 0 (class 1), 1 (class 2), link 5 with child 2 (class 3, ancestors 0 and 1), and a bystander 3 (class 4) that only
needs feature 0; everything on framework 1 -/
def PlanWit.g11 : Graph :=
  { anc := fun u => if u = 2 then [0, 1] else if u = 3 then [0] else [], ancKeys := [2, 3],
    adj := fun u => if u = 0 then [2, 3] else if u = 1 then [2] else [], fw := fun _ => 1, cls := fun u => u + 1, sub := PlanWit.eqSub }

open PlanWit in
/-- the statement `ep.required_uuids.union(match)` of `add_tfs` has no effect (W11): the JoinStep (uuids 10, 5) requires the
bystander's parent 0 and runs on the bystander's framework - `JoinStep.matched` holds - yet the bystander's FeatureGroupStep {3}
requires only its ancestor 0: whether it reads the left compute framework before or after the join has changed it is left to the
schedule -/
theorem C04.plan_union_noop_witness :
    view (createPlan g11 { data := [(⟨5, 1, 1⟩, [2])], order := [] } l4 [] 10
        [.fg 1 [[0]], .fg 2 [[1]], .link ⟨5, 1, 1⟩, .fg 3 [[2]], .fg 4 [[3]]]) =
      some [(.fg, [0], []), (.fg, [1], []), (.join, [10, 5], [0, 1]), (.fg, [2], [0, 1, 5]), (.fg, [3], [0])] ∧
    matched { kind := .join, uuid := 10, outs := [10, 5], req := [0, 1], fw := 1, fw2 := 1 } 1 0 = true := by decide
