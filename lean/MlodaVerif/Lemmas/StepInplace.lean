import MlodaVerif.Lemmas.StepComm
/-! In-place groups (`data[c] = …; return data`) on one shared object: whatever the interleaving, the object is never replaced
and no column is ever lost. -/
namespace StepExec

variable {V : Type}

/-- an in-place feature-group step on object 0 (no api data, the orchestrator's drop is not part of the run) -/
structure InplaceFG (d : Desc V) : Prop where
  kind : d.kind = .fg
  obj : d.obj = 0
  src : d.src = 0
  style : d.style = .inplace
  api : d.api = none
  reports : d.reports = false
  names : ∀ t new, d.fn t = some new → colsOf new = d.outs

theorem prog_inplace {d : Desc V} (h : InplaceFG d) (fw : Fw) :
    prog fw d = [.valIn, .read, .call, .write, .setCols, .valOut] ++ (if d.requested.isEmpty then [] else [.collect]) := by
  cases fw <;> simp [prog, h.kind, h.style, h.api, h.reports]

/-- the columns of the r-th table object of the single compute-framework object -/
def cellCols (σ : MSt V) (r : Nat) : List Nat :=
  match σ.objs with
  | [o] => colsOf ((o.cells[r]?).getD [])
  | _ => []

structure KInv (ds : List (Desc V)) (r : Nat) (σ : MSt V) : Prop where
  obj : ∃ o, σ.objs = [o] ∧ o.data = .ref r ∧ r < o.cells.length
  regs : ∀ (i : Nat) (d : Desc V) (l : Local V), ds[i]? = some d → σ.locs[i]? = some l →
    (2 ≤ l.pc → l.x = .ref r) ∧ (3 ≤ l.pc → ∀ c ∈ d.outs, c ∈ cellCols σ r)

theorem cellCols_of (σ : MSt V) (o : Obj V) (r : Nat) (h : σ.objs = [o]) : cellCols σ r = colsOf ((o.cells[r]?).getD []) := by
  simp [cellCols, h]

theorem colsOf_append (a b : Table V) : colsOf (a ++ b) = colsOf a ++ colsOf b := by simp [colsOf]

/-- what a successful micro-step of an in-place step does: the program counter advances, the object still holds the same table
object, the step keeps pointing at it, and the table either is untouched or (at the step's insertion, pc = 2) gained the step's
columns -/
def GoodOk (d : Desc V) (r : Nat) (l : Local V) (o : Obj V) (l' : Local V) (o' : Obj V) : Prop :=
  l'.pc = l.pc + 1 ∧ o'.data = .ref r ∧ (2 ≤ l'.pc → l'.x = .ref r) ∧
  ((l.pc ≠ 2 ∧ o'.cells = o.cells) ∨ (l.pc = 2 ∧ ∃ new, colsOf new = d.outs ∧ o'.cells = o.cells.set r (new ++ (o.cells[r]?).getD [])))

def GoodEff (d : Desc V) (r : Nat) (l : Local V) (o : Obj V) : Eff V → Prop
  | .skip => True
  | .fail l' => l'.pc = l.pc ∧ l'.x = l.x
  | .ok l' o' => GoodOk d r l o l' o'

theorem effect_inplace {d : Desc V} (hin : InplaceFG d) (r : Nat) (l : Local V) (o : Obj V) (hdata : o.data = .ref r)
    (hr : r < o.cells.length) (hx : 2 ≤ l.pc → l.x = .ref r) : GoodEff d r l o (effect d l o o) := by
  have hcell : o.cells[r]? = some o.cells[r] := List.getElem?_eq_getElem hr
  unfold effect
  split
  · trivial
  · rw [prog_inplace hin]
    rcases Nat.lt_or_ge l.pc 7 with hpc | hpc
    · have hpcs : l.pc = 0 ∨ l.pc = 1 ∨ l.pc = 2 ∨ l.pc = 3 ∨ l.pc = 4 ∨ l.pc = 5 ∨ l.pc = 6 := by omega
      rcases hpcs with h | h | h | h | h | h | h
      · -- valIn
        have hop : ([Op.valIn, .read, .call, .write, .setCols, .valOut] ++ (if d.requested.isEmpty then [] else [Op.collect]))[l.pc]?
            = some Op.valIn := by rw [h]; rfl
        simp only [hop, exec, hdata, tableAt, hcell]
        cases d.valIn o.cells[r]
        · exact ⟨rfl, rfl⟩
        · exact ⟨rfl, hdata, fun h2 => absurd h2 (by simp [h]), Or.inl ⟨by omega, rfl⟩⟩
      · -- read
        have hop : ([Op.valIn, .read, .call, .write, .setCols, .valOut] ++ (if d.requested.isEmpty then [] else [Op.collect]))[l.pc]?
            = some Op.read := by rw [h]; rfl
        simp only [hop, exec]
        exact ⟨rfl, hdata, fun _ => hdata, Or.inl ⟨by omega, rfl⟩⟩
      · -- call: the insertion
        have hxr : l.x = .ref r := hx (by omega)
        have hop : ([Op.valIn, .read, .call, .write, .setCols, .valOut] ++ (if d.requested.isEmpty then [] else [Op.collect]))[l.pc]?
            = some Op.call := by rw [h]; rfl
        simp only [hop, exec, hxr, tableAt, hcell, hin.style]
        cases hfn : d.fn (some o.cells[r]) with
        | none => exact ⟨rfl, hxr.symm⟩
        | some new =>
          have hnames := hin.names _ _ hfn
          exact ⟨rfl, hdata, fun _ => rfl, Or.inr ⟨h, new, hnames, by simp [hcell]⟩⟩
      · -- write
        have hxr : l.x = .ref r := hx (by omega)
        have hop : ([Op.valIn, .read, .call, .write, .setCols, .valOut] ++ (if d.requested.isEmpty then [] else [Op.collect]))[l.pc]?
            = some Op.write := by rw [h]; rfl
        simp only [hop, exec, hin.style]
        exact ⟨rfl, hxr, fun _ => hxr, Or.inl ⟨by omega, rfl⟩⟩
      · -- setCols
        have hxr : l.x = .ref r := hx (by omega)
        have hop : ([Op.valIn, .read, .call, .write, .setCols, .valOut] ++ (if d.requested.isEmpty then [] else [Op.collect]))[l.pc]?
            = some Op.setCols := by rw [h]; rfl
        simp only [hop, exec, setCols, hdata, tableAt, hcell, Except.map]
        exact ⟨rfl, rfl, fun _ => hxr, Or.inl ⟨by omega, rfl⟩⟩
      · -- valOut
        have hxr : l.x = .ref r := hx (by omega)
        have hop : ([Op.valIn, .read, .call, .write, .setCols, .valOut] ++ (if d.requested.isEmpty then [] else [Op.collect]))[l.pc]?
            = some Op.valOut := by rw [h]; rfl
        simp only [hop, exec, hdata, tableAt, hcell]
        cases d.valOut o.cells[r]
        · exact ⟨rfl, rfl⟩
        · exact ⟨rfl, hdata, fun _ => hxr, Or.inl ⟨by omega, rfl⟩⟩
      · -- collect (only when something is requested)
        have hxr : l.x = .ref r := hx (by omega)
        by_cases hreq : d.requested.isEmpty = true
        · have hop : ([Op.valIn, .read, .call, .write, .setCols, .valOut] ++ (if d.requested.isEmpty then [] else [Op.collect]))[l.pc]?
              = none := by rw [h, hreq]; rfl
          rw [hop]; trivial
        · have hop : ([Op.valIn, .read, .call, .write, .setCols, .valOut] ++ (if d.requested.isEmpty then [] else [Op.collect]))[l.pc]?
              = some Op.collect := by
            rw [h]; simp only [hreq]; rfl
          simp only [hop, exec, hdata, tableAt, hcell]
          cases (List.filter (fun c => decide (c ∈ colsOf o.cells[r])) d.requested).isEmpty
          · exact ⟨rfl, hdata, fun _ => hxr, Or.inl ⟨by omega, rfl⟩⟩
          · exact ⟨rfl, rfl⟩
    · have : ([Op.valIn, .read, .call, .write, .setCols, .valOut] ++ (if d.requested.isEmpty then [] else [Op.collect]))[l.pc]? = none := by
        apply List.getElem?_eq_none
        split <;> simp <;> omega
      rw [this]
      trivial

/-- one micro-step of an in-place plan keeps the invariant and only adds columns -/
theorem kinv_step {ds : List (Desc V)} (hall : ∀ d ∈ ds, InplaceFG d) {r : Nat} {σ : MSt V} (hk : KInv ds r σ) (i : Nat) :
    KInv ds r (mstep ds σ i) ∧ ∀ c ∈ cellCols σ r, c ∈ cellCols (mstep ds σ i) r := by
  obtain ⟨⟨o, hobjs, hdata, hr⟩, hregs⟩ := hk
  have hcell : o.cells[r]? = some o.cells[r] := List.getElem?_eq_getElem hr
  have triv : mstep ds σ i = σ → KInv ds r (mstep ds σ i) ∧ ∀ c ∈ cellCols σ r, c ∈ cellCols (mstep ds σ i) r := by
    intro h; rw [h]; exact ⟨⟨⟨o, hobjs, hdata, hr⟩, hregs⟩, fun c hc => hc⟩
  cases hd : ds[i]? with
  | none => exact triv (mstep_of_desc_none ds σ i hd)
  | some d =>
    have hin : InplaceFG d := hall d (List.mem_of_getElem? hd)
    cases hl : σ.locs[i]? with
    | none => exact triv (by rw [mstep_eq ds σ i d hd]; simp [rd, hl])
    | some l =>
      have h0 : σ.objs[d.obj]? = some o := by simp [hin.obj, hobjs]
      have h1 : σ.objs[d.src]? = some o := by simp [hin.src, hobjs]
      have hlt : i < σ.locs.length := by
        rcases Nat.lt_or_ge i σ.locs.length with h | h
        · exact h
        · rw [List.getElem?_eq_none h] at hl; cases hl
      obtain ⟨hx, hcols⟩ := hregs i d l hd hl
      have hgood := effect_inplace hin r l o hdata hr hx
      have hms : mstep ds σ i = applyEff σ i d.obj (effect d l o o) := by
        rw [mstep_eq ds σ i d hd]; simp [rd, hl, h0, h1]
      rw [hms]
      cases he : effect d l o o with
      | skip => rw [he] at hms; simp only [applyEff] at hms ⊢; exact ⟨⟨⟨o, hobjs, hdata, hr⟩, hregs⟩, fun c hc => hc⟩
      | fail l' =>
        rw [he] at hgood
        obtain ⟨g1, g2⟩ := hgood
        simp only [applyEff]
        refine ⟨⟨⟨o, hobjs, hdata, hr⟩, ?_⟩, ?_⟩
        · intro j dj lj hdj hlj
          have hcc : cellCols ({ σ with locs := σ.locs.set i l' } : MSt V) r = cellCols σ r := by
            rw [cellCols_of ({ σ with locs := σ.locs.set i l' } : MSt V) o r hobjs, cellCols_of σ o r hobjs]
          rw [hcc]
          by_cases hji : j = i
          · subst hji
            simp only [List.getElem?_set_self hlt, Option.some.injEq] at hlj
            subst hlj
            rw [hd] at hdj; cases hdj
            exact ⟨fun h => by rw [g2]; exact hx (by omega), fun h => hcols (by omega)⟩
          · have hne : i ≠ j := fun e => hji e.symm
            simp only [List.getElem?_set_ne hne] at hlj
            exact hregs j dj lj hdj hlj
        · intro c hc
          rw [cellCols_of ({ σ with locs := σ.locs.set i l' } : MSt V) o r hobjs, ← cellCols_of σ o r hobjs]; exact hc
      | ok l' o' =>
        rw [he] at hgood
        obtain ⟨g1, g2, g3, g4⟩ := hgood
        simp only [applyEff]
        have hobjs' : σ.objs.set d.obj o' = [o'] := by simp [hin.obj, hobjs]
        -- the columns of the table after the step: unchanged, or the step's columns in front
        have hcc : (l.pc ≠ 2 ∧ cellCols ({ objs := σ.objs.set d.obj o', locs := σ.locs.set i l' } : MSt V) r = cellCols σ r) ∨
            (l.pc = 2 ∧ cellCols ({ objs := σ.objs.set d.obj o', locs := σ.locs.set i l' } : MSt V) r = d.outs ++ cellCols σ r) := by
          rcases g4 with ⟨hn2, g4⟩ | ⟨hp2, new, hn, g4⟩
          · left; refine ⟨hn2, ?_⟩; rw [cellCols_of _ o' r hobjs', cellCols_of σ o r hobjs, g4]
          · right
            refine ⟨hp2, ?_⟩
            rw [cellCols_of _ o' r hobjs', cellCols_of σ o r hobjs, g4, List.getElem?_set_self hr]
            simp [colsOf_append, hn]
        have hr' : r < o'.cells.length := by
          rcases g4 with ⟨_, g4⟩ | ⟨_, new, _, g4⟩
          · rw [g4]; exact hr
          · rw [g4]; simpa using hr
        have hmono : ∀ c ∈ cellCols σ r, c ∈ cellCols ({ objs := σ.objs.set d.obj o', locs := σ.locs.set i l' } : MSt V) r := by
          intro c hc
          rcases hcc with ⟨_, h⟩ | ⟨_, h⟩
          · rw [h]; exact hc
          · rw [h]; exact List.mem_append_right _ hc
        refine ⟨⟨⟨o', hobjs', g2, hr'⟩, ?_⟩, hmono⟩
        intro j dj lj hdj hlj
        by_cases hji : j = i
        · subst hji
          simp only [List.getElem?_set_self hlt, Option.some.injEq] at hlj
          subst hlj
          rw [hd] at hdj; cases hdj
          refine ⟨g3, fun h3 c hc => ?_⟩
          rcases hcc with ⟨hn2, h⟩ | ⟨hp2, h⟩
          · rw [h]
            exact hcols (by omega) c hc
          · rw [h]; exact List.mem_append_left _ hc
        · have hne : i ≠ j := fun e => hji e.symm
          simp only [List.getElem?_set_ne hne] at hlj
          obtain ⟨q1, q2⟩ := hregs j dj lj hdj hlj
          exact ⟨q1, fun h3 c hc => hmono c (q2 h3 c hc)⟩

theorem kinv_run {ds : List (Desc V)} (hall : ∀ d ∈ ds, InplaceFG d) {r : Nat} (l : List Nat) {σ : MSt V} (hk : KInv ds r σ) :
    KInv ds r (mrun ds σ l) ∧ ∀ c ∈ cellCols σ r, c ∈ cellCols (mrun ds σ l) r := by
  induction l generalizing σ with
  | nil => exact ⟨hk, fun c hc => hc⟩
  | cons i is ih =>
    obtain ⟨h1, h2⟩ := kinv_step hall hk i
    obtain ⟨h3, h4⟩ := ih h1
    exact ⟨h3, fun c hc => h4 c (h2 c hc)⟩

end StepExec
