import MlodaVerif.Model.PlanCore
import MlodaVerif.Lemmas.OptionsLevels
import MlodaVerif.Lemmas.PlanOK
/-! Structural facts about the plans built by `PlanCore.planCore`. -/
namespace PlanCore
open Sched OptGroup

theorem levelLoop_levels_nonempty (intra : Nat → List Nat) :
    ∀ (fuel : Nat) (remaining placed : List Nat), ∀ L ∈ levelLoop intra fuel remaining placed, L ≠ [] := by
  intro fuel
  induction fuel with
  | zero => intro remaining placed L hL; simp [levelLoop] at hL
  | succ fuel ih =>
    intro remaining placed L hL
    by_cases hrem : remaining = []
    · subst hrem; rw [levelLoop_nil] at hL; cases hL
    · rw [levelLoop_succ intra fuel remaining placed hrem] at hL
      rcases List.mem_cons.mp hL with rfl | hL'
      · split
        · exact hrem
        · rename_i he; intro h; apply he; simp [h]
      · exact ih _ _ L hL'

theorem splitLevels_nonempty (ids : List Nat) (deps : Nat → List Nat) (h : ids ≠ []) :
    ∀ L ∈ splitLevels ids deps, L ≠ [] := by
  intro L hL
  unfold splitLevels at hL
  simp only at hL
  split at hL
  · simp at hL; subst hL; exact h
  · exact levelLoop_levels_nonempty _ _ _ _ L hL

theorem splitLevels_cover (ids : List Nat) (deps : Nat → List Nat) : (splitLevels ids deps).flatten.Perm ids := by
  unfold splitLevels
  simp only
  split
  · simp
  · exact levelLoop_cover _ ids.length ids [] (Nat.le_refl _)

theorem allOuts_stepsOfBucket (anc : Nat → List Nat) (ids : List Nat) :
    allOuts (stepsOfBucket anc ids) = (splitLevels ids anc).flatten := by
  unfold allOuts stepsOfBucket
  induction splitLevels ids anc with
  | nil => rfl
  | cons L rest ih => simp [List.flatMap_cons, ih]

theorem allOuts_append (p q : Plan) : allOuts (p ++ q) = allOuts p ++ allOuts q := by
  simp [allOuts, List.flatMap_append]

theorem allOuts_planCore_perm (anc : Nat → List Nat) (buckets : List (List Nat)) :
    (allOuts (planCore anc buckets)).Perm buckets.flatten := by
  induction buckets with
  | nil => simp [planCore, allOuts]
  | cons b rest ih =>
    have : planCore anc (b :: rest) = stepsOfBucket anc b ++ planCore anc rest := by simp [planCore]
    rw [this, allOuts_append, allOuts_stepsOfBucket, List.flatten_cons]
    exact (splitLevels_cover b anc).append ih

theorem mem_planCore {anc : Nat → List Nat} {buckets : List (List Nat)} {st : Step} (h : st ∈ planCore anc buckets) :
    ∃ b ∈ buckets, ∃ L ∈ splitLevels b anc, st = { outs := L, req := (L.flatMap anc).eraseDups, kind := .fg } := by
  simp only [planCore, List.mem_flatMap, stepsOfBucket, List.mem_map] at h
  obtain ⟨b, hb, L, hL, rfl⟩ := h
  exact ⟨b, hb, L, hL, rfl⟩

end PlanCore
