import MlodaVerif.Lemmas.EngineRun
/-! # Case analysis of `addFeature`, invariant rules for `addFilters` / `addIndexes` -/
namespace EngineColl
open Graph (Dict dget dset sadd)

theorem feqE_ok_true {a b : Key} (h : feqE a b = .ok true) : a = b := by
  unfold feqE at h
  split at h
  · rename_i hc
    obtain ⟨h1, h2, h3⟩ := hc
    cases a; cases b
    simp only at h1 h2 h3
    subst h1; subst h2; subst h3
    split at h
    · simp only [Except.ok.injEq, decide_eq_true_eq] at h
      rename_i hd1 hd2
      simp only at hd1 hd2
      obtain ⟨q1, q2, q3⟩ := h
      subst hd1; subst hd2; subst q1; subst q2; subst q3; rfl
    · simp only [Except.ok.injEq, decide_eq_true_eq] at h
      rename_i hd1 hd2
      simp only at hd1 hd2
      obtain ⟨q0, q1, q2, q3⟩ := h
      subst hd1; subst hd2; subst q0; subst q1; subst q2; subst q3; rfl
    · simp at h
  · simp at h

theorem feqE_self (a : Key) : feqE a a = .ok true := by
  unfold feqE
  simp only [and_self, if_true]
  cases a.dom <;> simp

theorem applyOrd_mem {α : Type} {ord : Option (List Nat)} {l es : List α} (h : applyOrd ord l = some es) :
    ∀ x ∈ es, x ∈ l := by
  unfold applyOrd at h
  cases ord with
  | none => simp only [Option.some.injEq] at h; subst h; intro x hx; exact hx
  | some p =>
    simp only at h
    split at h
    · simp only [Option.some.injEq] at h
      subst h
      intro x hx
      rw [List.mem_filterMap] at hx
      obtain ⟨i, _, hi⟩ := hx
      exact List.mem_of_getElem? hi
    · simp at h

theorem applyOrd_mem_rev {α : Type} {ord : Option (List Nat)} {l es : List α} (h : applyOrd ord l = some es) :
    ∀ x ∈ l, x ∈ es := by
  unfold applyOrd at h
  cases ord with
  | none => simp only [Option.some.injEq] at h; subst h; intro x hx; exact hx
  | some p =>
    simp only at h
    split at h
    · rename_i hc
      simp only [Option.some.injEq] at h
      subst h
      intro x hx
      obtain ⟨i, hi, hxi⟩ := List.mem_iff_getElem.mp hx
      have hall := hc.2
      rw [List.all_eq_true] at hall
      have := hall i (List.mem_range.mpr hi)
      rw [List.contains_iff_mem] at this
      rw [List.mem_filterMap]
      exact ⟨i, this, by rw [List.getElem?_eq_getElem hi, hxi]⟩
    · simp at h

theorem scan_some {k : Key} : ∀ {es : List (Nat × Feat)} {u : Nat}, scan k es = .ok (some u) →
    ∃ e ∈ es, e.2.key = k ∧ e.2.uuid = u := by
  intro es
  induction es with
  | nil => intro u h; simp [scan] at h
  | cons e es ih =>
    intro u h
    unfold scan at h
    cases hf : feqE k e.2.key with
    | error err => rw [hf] at h; simp at h
    | ok b =>
      rw [hf] at h
      cases b with
      | true =>
        simp only [Except.ok.injEq, Option.some.injEq] at h
        exact ⟨e, List.mem_cons_self, (feqE_ok_true hf).symm, h⟩
      | false =>
        simp only at h
        obtain ⟨e', he', hk⟩ := ih h
        exact ⟨e', List.mem_cons_of_mem _ he', hk⟩

/-- what `add_feature_to_collection` can do to the state -/
theorem addFeature_cases {w : World} {st : St} {g : Nat} {f : Feat} {cu : Option Nat} {ix : Bool} {st' : St} {b : Bool}
    (h : addFeature w st g f cu ix = .ok (st', b)) :
    (b = true ∧ inColl st.coll g f.key = false ∧
      st' = { st with links := addLink st.links f.link, flp := dset st.flp f.uuid [], coll := st.coll ++ [(g, f)] }) ∨
    (b = false ∧ inColl st.coll g f.key = true ∧ st'.coll = st.coll ∧ st'.links = st.links ∧ st'.next = st.next ∧ st'.gfc = st.gfc ∧
      st'.nmatch = st.nmatch ∧
      (st'.flp = st.flp ∨ ∃ c wanted, cu = some c ∧ (∃ e ∈ st.coll, e.1 = g ∧ e.2.key = f.key ∧ e.2.uuid = wanted) ∧
        st'.flp = dset st.flp c (updParents (dget st.flp c) f.uuid wanted ix))) := by
  unfold addFeature at h
  cases hin : inColl st.coll g f.key with
  | false =>
    rw [hin] at h
    simp only [Bool.false_eq_true, if_false, Except.ok.injEq, Prod.mk.injEq] at h
    exact Or.inl ⟨h.2.symm, rfl, h.1.symm⟩
  | true =>
    rw [hin] at h
    simp only [if_true] at h
    right
    cases cu with
    | none =>
      simp only [Except.ok.injEq, Prod.mk.injEq] at h
      obtain ⟨h1, h2⟩ := h
      subst h1
      exact ⟨h2.symm, rfl, rfl, rfl, rfl, rfl, rfl, Or.inl rfl⟩
    | some c =>
      simp only at h
      cases ho : applyOrd (w.scanOrd st.nscan) (st.coll.filter (fun e => e.1 == g)) with
      | none => rw [ho] at h; simp at h
      | some es =>
        rw [ho] at h
        simp only at h
        cases hs : scan f.key es with
        | error e => rw [hs] at h; simp at h
        | ok r =>
          rw [hs] at h
          cases r with
          | none =>
            simp only [Except.ok.injEq, Prod.mk.injEq] at h
            obtain ⟨h1, h2⟩ := h
            subst h1
            exact ⟨h2.symm, rfl, rfl, rfl, rfl, rfl, rfl, Or.inl rfl⟩
          | some wanted =>
            simp only [Except.ok.injEq, Prod.mk.injEq] at h
            obtain ⟨h1, h2⟩ := h
            subst h1
            refine ⟨h2.symm, rfl, rfl, rfl, rfl, rfl, rfl, Or.inr ⟨c, wanted, rfl, ?_, rfl⟩⟩
            obtain ⟨e, he, hk, hu⟩ := scan_some hs
            have hm := applyOrd_mem ho e he
            rw [List.mem_filter] at hm
            exact ⟨e, hm.1, by simpa using hm.2, hk, hu⟩

theorem addFeature_inColl {w : World} {st : St} {g : Nat} {f : Feat} {cu : Option Nat} {ix : Bool} {st' : St} {b : Bool}
    (h : addFeature w st g f cu ix = .ok (st', b)) : inColl st'.coll g f.key = true := by
  rcases addFeature_cases h with ⟨_, _, rfl⟩ | ⟨_, hin, hc, _⟩
  · simp only
    rw [inColl_append]
    simp [inColl]
  · rw [hc]; exact hin

/-! ## matched filters -/

/-- `m` is what one filter of the global filter becomes for the processed feature `f` of group `g` -/
def FilterMatch (w : World) (g : Nat) (f : Key) (m : Filt) : Prop :=
  ∃ fl flt, w.filters = some fl ∧ flt ∈ fl ∧ matchFilter w g f flt = .ok (some m)

theorem matchedFilters_mem {w : World} {g : Nat} {f : Key} : ∀ {fl acc ms : List Filt},
    matchedFilters w g f fl acc = .ok ms → ∀ m ∈ ms, m ∈ acc ∨ ∃ flt ∈ fl, matchFilter w g f flt = .ok (some m) := by
  intro fl
  induction fl with
  | nil => intro acc ms h m hm; simp only [matchedFilters, Except.ok.injEq] at h; subst h; exact Or.inl hm
  | cons flt rest ih =>
    intro acc ms h m hm
    unfold matchedFilters at h
    cases hmf : matchFilter w g f flt with
    | error e => rw [hmf] at h; simp at h
    | ok r =>
      rw [hmf] at h
      cases r with
      | none =>
        simp only at h
        rcases ih h m hm with h1 | ⟨x, hx, hxm⟩
        · exact Or.inl h1
        · exact Or.inr ⟨x, List.mem_cons_of_mem _ hx, hxm⟩
      | some m0 =>
        simp only at h
        rcases ih h m hm with h1 | ⟨x, hx, hxm⟩
        · split at h1
          · exact Or.inl h1
          · rw [List.mem_append] at h1
            rcases h1 with h1 | h1
            · exact Or.inl h1
            · simp only [List.mem_singleton] at h1
              subst h1
              exact Or.inr ⟨flt, List.mem_cons_self, hmf⟩
        · exact Or.inr ⟨x, List.mem_cons_of_mem _ hx, hxm⟩

theorem matchedFilters_acc {w : World} {g : Nat} {f : Key} : ∀ {fl acc ms : List Filt},
    matchedFilters w g f fl acc = .ok ms → ∀ m ∈ acc, m ∈ ms := by
  intro fl
  induction fl with
  | nil => intro acc ms h m hm; simp only [matchedFilters, Except.ok.injEq] at h; subst h; exact hm
  | cons flt rest ih =>
    intro acc ms h m hm
    unfold matchedFilters at h
    cases hmf : matchFilter w g f flt with
    | error e => rw [hmf] at h; simp at h
    | ok r =>
      rw [hmf] at h
      cases r with
      | none => exact ih h m hm
      | some m0 =>
        simp only at h
        apply ih h m
        split
        · exact hm
        · exact List.mem_append_left _ hm

theorem matchedFilters_complete {w : World} {g : Nat} {f : Key} : ∀ {fl acc ms : List Filt},
    matchedFilters w g f fl acc = .ok ms → ∀ flt ∈ fl, ∀ m, matchFilter w g f flt = .ok (some m) → m ∈ ms := by
  intro fl
  induction fl with
  | nil => intro acc ms _ flt hflt; simp at hflt
  | cons x rest ih =>
    intro acc ms h flt hflt m hm
    unfold matchedFilters at h
    rw [List.mem_cons] at hflt
    cases hmf : matchFilter w g f x with
    | error e => rw [hmf] at h; simp at h
    | ok r =>
      rw [hmf] at h
      rcases hflt with rfl | hflt
      · rw [hm] at hmf
        simp only [Except.ok.injEq] at hmf
        subst hmf
        simp only at h
        apply matchedFilters_acc h
        split
        · assumption
        · exact List.mem_append_right _ (List.mem_singleton.mpr rfl)
      · cases r with
        | none => exact ih h flt hflt m hm
        | some m0 => exact ih h flt hflt m hm

/-- the filter feature `_add_filter_feature` hands to `add_feature_to_collection` for the matched filter `m`, with uuid `u` -/
def filterFeat (w : World) (g : Nat) (m : Filt) (u : Nat) : Feat :=
  { key := { m.key with name := w.setName g m.key }, req := false, uuid := u, link := none }

theorem foldlM_inv {α β ε : Type} (f : β → α → Except ε β) (I : β → Prop) : ∀ (l : List α) (b b' : β),
    l.foldlM f b = .ok b' → I b → (∀ s a s', a ∈ l → I s → f s a = .ok s' → I s') → I b' := by
  intro l
  induction l with
  | nil => intro b b' h hb _; rw [foldlM_nil_ok] at h; subst h; exact hb
  | cons a l ih =>
    intro b b' h hb hstep
    rw [foldlM_cons_ok] at h
    obtain ⟨b1, h1, h2⟩ := h
    exact ih b1 b' h2 (hstep b a b1 List.mem_cons_self hb h1) (fun s x s' hx => hstep s x s' (List.mem_cons_of_mem _ hx))

/-- invariant rule for `_add_filter_feature` -/
theorem addFilters_inv {w : World} {I : St → Prop} {st : St} {g : Nat} {f : Feat} {cu : Option Nat} {st' : St}
    (h : addFilters w st g f cu = .ok st') (h0 : I st)
    (hcnt : ∀ s, I s → I { s with nmatch := s.nmatch + 1 })
    (hstep : ∀ s m s2 b, I s → FilterMatch w g f.key m →
      addFeature w { s with next := s.next + 1, gfc := gfcAdd s.gfc (g, f.key.name) ((filterFeat w g m s.next).key, m.tp) } g
        (filterFeat w g m s.next) cu false = .ok (s2, b) → I s2) : I st' := by
  unfold addFilters at h
  cases hfl : w.filters with
  | none => rw [hfl] at h; simp only [Except.ok.injEq] at h; subst h; exact h0
  | some fl =>
    rw [hfl] at h
    simp only at h
    cases hms : matchedFilters w g f.key fl [] with
    | error e => rw [hms] at h; simp at h
    | ok ms =>
      rw [hms] at h
      simp only at h
      cases ho : applyOrd (w.matchOrd st.nmatch) ms with
      | none => rw [ho] at h; simp at h
      | some ms' =>
        rw [ho] at h
        simp only at h
        apply foldlM_inv (addFilterOne w g f cu) I ms' _ _ h (hcnt st h0)
        intro s m s' hm hs hone
        unfold addFilterOne at hone
        simp only at hone
        have hmm : FilterMatch w g f.key m := by
          have h1 := applyOrd_mem ho m hm
          rcases matchedFilters_mem hms m h1 with hh | ⟨flt, hflt, hmf⟩
          · simp at hh
          · exact ⟨fl, flt, hfl, hflt, hmf⟩
        cases ha : addFeature w { s with next := s.next + 1, gfc := gfcAdd s.gfc (g, f.key.name) ((filterFeat w g m s.next).key, m.tp) } g
            (filterFeat w g m s.next) cu false with
        | error e =>
          unfold filterFeat at ha
          rw [ha] at hone; simp at hone
        | ok r =>
          obtain ⟨s2, b⟩ := r
          have ha' := ha
          unfold filterFeat at ha
          rw [ha] at hone
          simp only [Except.ok.injEq] at hone
          subst hone
          exact hstep s m s2 b hs hmm ha'

/-- the index feature `_create_and_add_index_feature` builds for index `ix` of group `g` because a link names it -/
def IndexMatch (w : World) (links : Option (List Link)) (g : Nat) (ix : List Name) : Prop :=
  ∃ ixs ls l, w.indexCols g = some ixs ∧ links = some ls ∧ ix ∈ ixs ∧ l ∈ ls ∧ ((l.lg = g ∧ l.li = ix) ∨ (l.rg = g ∧ l.ri = ix))

/-- invariant rule for `_add_index_feature`; `J` = a side condition every intermediate state keeps (e.g. `links` unchanged) -/
theorem addIndexes_inv {w : World} {I : St → Prop} {st : St} {g : Nat} {f : Feat} {cu : Option Nat} {st' : St}
    (h : addIndexes w st g f cu = .ok st') (h0 : I st)
    (hstep : ∀ s ix xf s2 b, I s → IndexMatch w st.links g ix → indexFeat w g f ix s.next = .ok xf →
      addFeature w { s with next := s.next + 1 } g xf cu true = .ok (s2, b) → I s2) : I st' := by
  unfold addIndexes at h
  cases hix : w.indexCols g with
  | none => rw [hix] at h; simp only [Except.ok.injEq] at h; subst h; exact h0
  | some ixs =>
    rw [hix] at h
    simp only at h
    cases hl : st.links with
    | none => rw [hl] at h; simp only [Except.ok.injEq] at h; subst h; exact h0
    | some ls =>
      rw [hl] at h
      simp only at h
      have hone : ∀ (ix : List Name) (s s' : St), ix ∈ ixs → I s → IndexMatch w st.links g ix →
          addIndexOne w g f cu ix s = .ok s' → I s' := by
        intro ix s s' _ hs hmt hone
        unfold addIndexOne at hone
        cases hxf : indexFeat w g f ix s.next with
        | error e => rw [hxf] at hone; simp at hone
        | ok xf =>
          rw [hxf] at hone
          simp only at hone
          cases ha : addFeature w { s with next := s.next + 1 } g xf cu true with
          | error e => rw [ha] at hone; simp at hone
          | ok r =>
            obtain ⟨s2, b⟩ := r
            rw [ha] at hone
            simp only [Except.ok.injEq] at hone
            subst hone
            exact hstep s ix xf s2 b hs hmt hxf ha
      apply foldlM_inv _ I ixs _ _ h h0
      intro s ix s' hixm hs hinner
      apply foldlM_inv (addIndexLink w g f cu ix) I ls _ _ hinner hs
      intro s1 l s1' hlm hs1 hlink
      unfold addIndexLink at hlink
      by_cases hL : l.lg = g ∧ l.li = ix
      · rw [if_pos hL] at hlink
        cases h1 : addIndexOne w g f cu ix s1 with
        | error e => rw [h1] at hlink; simp at hlink
        | ok sa =>
          rw [h1] at hlink
          simp only at hlink
          have hsa : I sa := hone ix s1 sa hixm hs1 ⟨ixs, ls, l, hix, hl, hixm, hlm, Or.inl hL⟩ h1
          by_cases hR : l.rg = g ∧ l.ri = ix
          · rw [if_pos hR] at hlink
            exact hone ix sa s1' hixm hsa ⟨ixs, ls, l, hix, hl, hixm, hlm, Or.inr hR⟩ hlink
          · rw [if_neg hR] at hlink
            simp only [Except.ok.injEq] at hlink
            subst hlink; exact hsa
      · rw [if_neg hL] at hlink
        simp only at hlink
        by_cases hR : l.rg = g ∧ l.ri = ix
        · rw [if_pos hR] at hlink
          exact hone ix s1 s1' hixm hs1 ⟨ixs, ls, l, hix, hl, hixm, hlm, Or.inr hR⟩ hlink
        · rw [if_neg hR] at hlink
          simp only [Except.ok.injEq] at hlink
          subst hlink; exact hs1

end EngineColl
