import MlodaVerif.Model.Transform
/-! Helper lemmas for C14 (core Lean only). -/
set_option linter.unusedSectionVars false
namespace Transform
variable {F : Type} [DecidableEq F]

/-! ### ≈ is an equivalence -/
theorem approx_refl (a : Table) : a ≈ₜ a := rfl
theorem approx_symm {a b : Table} (h : a ≈ₜ b) : b ≈ₜ a := Eq.symm h
theorem approx_trans {a b c : Table} (h1 : a ≈ₜ b) (h2 : b ≈ₜ c) : a ≈ₜ c := Eq.trans h1 h2

/-! ### lookup / find -/
theorem lookup_mem {reg : Registry F} {k : F × F} {t : Tr F} (h : lookup reg k = some t) : (k, t) ∈ reg := by
  unfold lookup at h
  cases hf : reg.find? (fun e => e.1 == k) with
  | none => simp [hf] at h
  | some e =>
    simp [hf] at h
    have hm := List.mem_of_find?_eq_some hf
    have hk := List.find?_some hf
    simp at hk
    cases e with
    | mk k' t' => simp at hk h; subst hk; subst h; exact hm

theorem lookup_connects {reg : Registry F} (hinv : RegInv reg) {a b : F} {t : Tr F} (h : lookup reg (a, b) = some t) :
    Connects t a b := hinv _ (lookup_mem h)

/-- the other end of a transformer is unique -/
theorem connects_unique {t : Tr F} {a b c : F} (h1 : Connects t a b) (h2 : Connects t a c) : b = c := by
  obtain ⟨n1, h1 | h1⟩ := h1 <;> obtain ⟨n2, h2 | h2⟩ := h2
  · rw [← h1.2, ← h2.2]
  · exact absurd (h2.2.symm.trans h1.2) n1
  · exact absurd (h1.2.symm.trans h2.2) n2
  · rw [← h1.1, ← h2.1]

/-- a transformer that connects `a` and `b`, applied from `a` to `b` to a value of type `a`: the orientation is found, the
hop whose source is `a` is applied, the result has type `b` -/
theorem transformCall_connects (sem : Sem F) {t : Tr F} {a b : F} (hc : Connects t a b) (d : Data F) (hd : d.ty = a) :
    ∃ dir, t.src dir = a ∧ t.dst dir = b ∧ transformCall sem t a b (some d) = wrapHop b (sem t dir d.tbl) := by
  obtain ⟨hne, h | h⟩ := hc
  · refine ⟨.left, h.1, h.2, ?_⟩
    unfold transformCall identifyOrientation applyHop
    simp [hne, h.1, h.2, Tr.src, Tr.dst, hd]
  · refine ⟨.right, h.2, h.1, ?_⟩
    unfold transformCall identifyOrientation applyHop
    have hne' : ¬ (b = a) := fun e => hne e.symm
    simp [hne, hne', h.1, h.2, Tr.src, Tr.dst, hd]

/-! ### typed outcomes -/

/-- hops never return `None` -/
def NoNone (sem : Sem F) : Prop := ∀ t dir tb, sem t dir tb ≠ .ok none

/-- the value has the target type; the only possible error is the library's own -/
def WellTyped (toT : F) : Except Err (Option (Data F)) → Prop
  | .ok (some d) => d.ty = toT
  | .ok none => False
  | .error (.hop _) => True
  | .error _ => False

theorem wellTyped_wrapHop {sem : Sem F} (hnn : NoNone sem) (b : F) (t : Tr F) (dir : Orient) (tb : Table) :
    WellTyped b (wrapHop b (sem t dir tb)) := by
  cases h : sem t dir tb with
  | error m => simp [wrapHop, WellTyped]
  | ok o =>
    cases o with
    | none => exact absurd h (hnn t dir tb)
    | some tb' => simp [wrapHop, WellTyped]

/-- a chain that really is a path from `cur` to `toT` through registered entries -/
inductive IsPath (reg : Registry F) : List (Tr F) → F → F → Prop
  | last (t : Tr F) (cur toT : F) : Connects t cur toT → IsPath reg [t] cur toT
  | step (t t' : Tr F) (rest : List (Tr F)) (cur mid toT : F) :
      Connects t cur mid → ((cur, mid), t) ∈ reg → IsPath reg (t' :: rest) mid toT → IsPath reg (t :: t' :: rest) cur toT

theorem findIntermediate_of_mem {reg : Registry F} (hinv : RegInv reg) {t : Tr F} {cur mid : F}
    (hc : Connects t cur mid) (hm : ((cur, mid), t) ∈ reg) : findIntermediate reg t cur = some mid := by
  unfold findIntermediate
  cases hf : reg.find? (fun e => e.2 == t && e.1.1 == cur) with
  | none =>
    have := List.find?_eq_none.mp hf _ hm
    simp at this
  | some e =>
    have hp := List.find?_some hf
    have hmem := List.mem_of_find?_eq_some hf
    simp at hp
    have hce := hinv e hmem
    rw [hp.1, hp.2] at hce
    simp [connects_unique hce hc]

theorem loop_well_typed {reg : Registry F} (hinv : RegInv reg) {sem : Sem F} (hnn : NoNone sem)
    {chain : List (Tr F)} {cur toT : F} (hp : IsPath reg chain cur toT) :
    ∀ (stale : Option F) (d : Data F), d.ty = cur → WellTyped toT (tfsLoop reg sem toT chain cur stale (some d)) := by
  induction hp with
  | last t cur toT hc =>
    intro stale d hd
    obtain ⟨dir, _, _, h⟩ := transformCall_connects sem hc d hd
    simp only [tfsLoop]; rw [h]; exact wellTyped_wrapHop hnn _ _ _ _
  | step t t' rest cur mid toT hc hm _ ih =>
    intro stale d hd
    obtain ⟨dir, _, _, h⟩ := transformCall_connects sem hc d hd
    simp only [tfsLoop, findIntermediate_of_mem hinv hc hm]
    rw [h]
    cases hs : sem t dir d.tbl with
    | error m => simp [wrapHop, WellTyped]
    | ok o =>
      cases o with
      | none => exact absurd hs (hnn t dir d.tbl)
      | some tb => simp only [wrapHop]; exact ih (some mid) ⟨mid, tb⟩ rfl

theorem chain_isPath {reg : Registry F} (hinv : RegInv reg) {pa : Option F} {fromT toT : F} {chain : List (Tr F)}
    (h : getTransformationChain reg pa fromT toT = some chain) : IsPath reg chain fromT toT := by
  unfold getTransformationChain at h
  cases h1 : lookup reg (fromT, toT) with
  | some t =>
    simp [h1] at h; subst h
    exact IsPath.last t _ _ (lookup_connects hinv h1)
  | none =>
    simp only [h1] at h
    cases pa with
    | none => simp at h
    | some p =>
      simp only at h
      cases ha : lookup reg (fromT, p) with
      | none => simp [ha] at h
      | some a =>
        cases hb : lookup reg (p, toT) with
        | none => simp [ha, hb] at h
        | some b =>
          simp [ha, hb] at h; subst h
          exact IsPath.step a b [] fromT p toT (lookup_connects hinv ha) (lookup_mem ha)
            (IsPath.last b _ _ (lookup_connects hinv hb))

/-! ### value preservation -/

/-- the assumption about the libraries: whenever a hop produces a table it is ≈ its input -/
def HopPreserves (sem : Sem F) : Prop := ∀ t dir tb tb', sem t dir tb = .ok (some tb') → tb' ≈ₜ tb

theorem wrapHop_some {b : F} {r : Except String (Option Table)} {d' : Data F} (h : wrapHop b r = .ok (some d')) :
    r = .ok (some d'.tbl) ∧ d'.ty = b := by
  cases r with
  | error m => simp [wrapHop] at h
  | ok o =>
    cases o with
    | none => simp [wrapHop] at h
    | some tb => simp [wrapHop] at h; subst h; exact ⟨rfl, rfl⟩

theorem transformCall_preserves {sem : Sem F} (hp : HopPreserves sem) {t : Tr F} {f o : F} {d d' : Data F}
    (h : transformCall sem t f o (some d) = .ok (some d')) : d'.tbl ≈ₜ d.tbl ∧ ∃ dir, d'.ty = t.dst dir ∧ d.ty = t.src dir := by
  unfold transformCall at h
  cases hi : identifyOrientation t f o with
  | error e => simp [hi] at h
  | ok od =>
    cases od with
    | none => simp [hi] at h
    | some dir =>
      simp only [hi, applyHop] at h
      by_cases hty : d.ty = t.src dir
      · simp [hty] at h
        obtain ⟨hr, hb⟩ := wrapHop_some h
        exact ⟨hp t dir d.tbl d'.tbl hr, dir, hb, hty⟩
      · simp [hty] at h

theorem transformCall_none {sem : Sem F} {t : Tr F} {f o : F} {x : Option (Data F)}
    (h : transformCall sem t f o none = .ok x) : False := by
  unfold transformCall at h
  cases hi : identifyOrientation t f o with
  | error e => simp [hi] at h
  | ok od => cases od <;> simp [hi, applyHop] at h

theorem loop_none_fails {reg : Registry F} {sem : Sem F} {toT : F} (t : Tr F) (rest : List (Tr F)) (cur : F)
    (stale : Option F) {x : Option (Data F)} (h : tfsLoop reg sem toT (t :: rest) cur stale none = .ok x) : False := by
  cases rest with
  | nil => simp only [tfsLoop] at h; exact transformCall_none h
  | cons t' rest' =>
    simp only [tfsLoop] at h
    split at h
    · cases h
    · rename_i tg _
      cases hc : transformCall sem t cur tg none with
      | error e => simp [hc] at h
      | ok y => exact transformCall_none hc

/-- induction over the chain: any chain, any registry, any typing - every value the loop produces is ≈ its input -/
theorem loop_preserves {reg : Registry F} {sem : Sem F} (hp : HopPreserves sem) (toT : F) :
    ∀ (chain : List (Tr F)) (cur : F) (stale : Option F) (d d' : Data F),
      tfsLoop reg sem toT chain cur stale (some d) = .ok (some d') → d'.tbl ≈ₜ d.tbl := by
  intro chain
  induction chain with
  | nil => intro cur stale d d' h; simp [tfsLoop] at h; subst h; exact approx_refl _
  | cons t rest ih =>
    intro cur stale d d' h
    cases rest with
    | nil => simp only [tfsLoop] at h; exact (transformCall_preserves hp h).1
    | cons t' rest' =>
      simp only [tfsLoop] at h
      split at h
      · cases h
      · rename_i tg _
        cases hc : transformCall sem t cur tg (some d) with
        | error e => simp [hc] at h
        | ok y =>
          simp only [hc] at h
          cases y with
          | none => exact (loop_none_fails t' rest' tg (some tg) h).elim
          | some d1 => exact approx_trans (ih tg (some tg) d1 d' h) (transformCall_preserves hp hc).1


theorem dictSet_inv {reg : Registry F} (hinv : RegInv reg) (k : F × F) (v : Tr F) (hc : Connects v k.1 k.2) :
    RegInv (dictSet reg k v) := by
  unfold dictSet
  split
  · intro e he
    simp only [List.mem_map] at he
    obtain ⟨e0, he0, rfl⟩ := he
    split
    · exact hc
    · exact hinv e0 he0
  · intro e he
    rcases List.mem_append.mp he with he | he
    · exact hinv e he
    · simp at he; subst he; exact hc

/-- `add` keeps the registration invariant (for a transformer between two distinct types) -/
theorem add_inv {reg reg' : Registry F} (hinv : RegInv reg) (t : Tr F) (imp ret : Bool) (hne : t.fw ≠ t.other)
    (h : add reg t imp = .ok (reg', ret)) : RegInv reg' := by
  unfold add at h
  split at h
  · simp at h; rw [← h.1]; exact hinv
  · split at h
    · split at h
      · simp at h; rw [← h.1]; exact hinv
      · cases h
    · simp at h
      rw [← h.1]
      apply dictSet_inv
      · apply dictSet_inv hinv
        exact ⟨hne, Or.inl ⟨rfl, rfl⟩⟩
      · exact ⟨fun e => hne e.symm, Or.inr ⟨rfl, rfl⟩⟩

theorem initRegistry_inv : ∀ (ts : List (Tr F × Bool)) (reg reg' : Registry F), RegInv reg →
    (∀ p ∈ ts, p.1.fw ≠ p.1.other) → initRegistry ts reg = .ok reg' → RegInv reg' := by
  intro ts
  induction ts with
  | nil => intro reg reg' hinv _ h; simp [initRegistry] at h; subst h; exact hinv
  | cons p ts ih =>
    intro reg reg' hinv hne h
    obtain ⟨t, imp⟩ := p
    simp only [initRegistry] at h
    cases ha : add reg t imp with
    | error e => simp [ha] at h
    | ok r =>
      obtain ⟨r1, ret⟩ := r
      simp only [ha] at h
      exact ih r1 reg' (add_inv hinv t imp ret (hne (t, imp) List.mem_cons_self) ha)
        (fun p hp => hne p (List.mem_cons_of_mem _ hp)) h

/-- `tfsTransform`: typed outcome -/
theorem tfsTransform_typed {reg : Registry F} (hinv : RegInv reg) (pa : Option F) {sem : Sem F} (hnn : NoNone sem)
    (fromT toT : F) (d : Data F) (hd : d.ty = fromT) :
    (getTransformationChain reg pa fromT toT = none ∧ fromT ≠ toT ∧ tfsTransform reg pa sem fromT toT (some d) = .error .noPath) ∨
    WellTyped toT (tfsTransform reg pa sem fromT toT (some d)) := by
  unfold tfsTransform
  by_cases he : fromT = toT
  · right; simp [he, WellTyped]; rw [← he]; exact hd
  · simp only [he, if_false]
    cases hc : getTransformationChain reg pa fromT toT with
    | none => left; exact ⟨rfl, he, rfl⟩
    | some chain => right; exact loop_well_typed hinv hnn (chain_isPath hinv hc) none d hd

theorem tfsTransform_preserves {reg : Registry F} (pa : Option F) {sem : Sem F} (hp : HopPreserves sem)
    (fromT toT : F) (d d' : Data F) (h : tfsTransform reg pa sem fromT toT (some d) = .ok (some d')) :
    d'.tbl ≈ₜ d.tbl := by
  unfold tfsTransform at h
  split at h
  · simp at h; subst h; exact approx_refl _
  · split at h
    · cases h
    · exact loop_preserves hp toT _ _ _ d d' h

theorem cfwTransform_preserves {reg : Registry F} {sem : Sem F} (hp : HopPreserves sem) (expected : F) (d d' : Data F)
    (h : cfwTransform reg sem expected d = .ok d') : d'.tbl ≈ₜ d.tbl := by
  unfold cfwTransform at h
  split at h
  · simp at h; subst h; exact approx_refl _
  · split at h
    · cases h
    · simp at h; subst h; exact approx_refl _
    · rename_i hc; simp at h; subst h; exact (transformCall_preserves hp hc).1

theorem cfwTransform_typed {reg : Registry F} (hinv : RegInv reg) {sem : Sem F} (hnn : NoNone sem) (expected : F) (d : Data F)
    {t : Tr F} (hl : lookup reg (d.ty, expected) = some t) :
    (∃ m, cfwTransform reg sem expected d = .error (.hop m)) ∨ ∃ d', cfwTransform reg sem expected d = .ok d' ∧ d'.ty = expected := by
  obtain ⟨dir, _, _, h⟩ := transformCall_connects sem (lookup_connects hinv hl) d rfl
  unfold cfwTransform
  simp only [hl, h]
  cases hs : sem t dir d.tbl with
  | error m => left; exact ⟨m, by simp [wrapHop]⟩
  | ok o =>
    cases o with
    | none => exact absurd hs (hnn t dir d.tbl)
    | some tb => right; exact ⟨⟨expected, tb⟩, by simp [wrapHop], rfl⟩

theorem uploadTable_preserves {reg : Registry F} {sem : Sem F} (hp : HopPreserves sem) (pa : F) (d d' : Data F)
    (h : uploadTable reg sem pa d = .ok (some d')) : d'.tbl ≈ₜ d.tbl := by
  unfold uploadTable at h
  split at h
  · simp at h; subst h; exact approx_refl _
  · split at h
    · exact (transformCall_preserves hp h).1
    · simp at h; subst h; exact approx_refl _

theorem convertBack_preserves {reg : Registry F} {sem : Sem F} (hp : HopPreserves sem) (pa expected : F) (d d' : Data F)
    (h : convertBack reg sem pa expected d = .ok (some d')) : d'.tbl ≈ₜ d.tbl := by
  unfold convertBack at h
  split at h
  · simp at h; subst h; exact approx_refl _
  · split at h
    · simp at h; subst h; exact approx_refl _
    · split at h
      · exact (transformCall_preserves hp h).1
      · cases h

theorem flightRoundTrip_preserves {reg : Registry F} {sem : Sem F} (hp : HopPreserves sem) (pa expected : F) (d d' : Data F)
    (h : flightRoundTrip reg sem pa expected d = .ok (some d')) : d'.tbl ≈ₜ d.tbl := by
  unfold flightRoundTrip at h
  split at h
  · cases h
  · cases h
  · rename_i u hu
    exact approx_trans (convertBack_preserves hp pa expected u d' h) (uploadTable_preserves hp pa d u hu)

/-- typed flight round trip: a framework whose data type is registered against `pa.Table` in both directions gets
its own type back -/
theorem flightRoundTrip_typed {reg : Registry F} (hinv : RegInv reg) {sem : Sem F} (hnn : NoNone sem) (pa expected : F)
    (d : Data F) (hd : d.ty = expected)
    (hreg : expected = pa ∨ ((lookup reg (expected, pa)).isSome ∧ (lookup reg (pa, expected)).isSome)) :
    WellTyped expected (flightRoundTrip reg sem pa expected d) := by
  unfold flightRoundTrip uploadTable
  by_cases hpa : d.ty = pa
  · simp only [hpa, if_true]
    unfold convertBack
    have : pa = expected := by rw [← hpa, hd]
    simp [this, WellTyped, hd]
  · have hne : expected ≠ pa := by rw [← hd]; exact hpa
    rcases hreg with h | ⟨h1, h2⟩
    · exact absurd h hne
    · simp only [hpa, if_false]
      obtain ⟨t1, ht1⟩ := Option.isSome_iff_exists.mp h1
      obtain ⟨t2, ht2⟩ := Option.isSome_iff_exists.mp h2
      rw [hd, ht1]
      obtain ⟨dir, _, _, h⟩ := transformCall_connects sem (lookup_connects hinv ht1) d hd
      simp only [h]
      cases hs : sem t1 dir d.tbl with
      | error m => simp [wrapHop, WellTyped]
      | ok o =>
        cases o with
        | none => exact absurd hs (hnn _ _ _)
        | some tb =>
          simp only [wrapHop]
          unfold convertBack
          have hne' : ¬ pa = expected := fun e => hne e.symm
          simp only [ne_eq, not_true_eq_false, if_false, hne', ht2]
          obtain ⟨dir2, _, _, h2⟩ := transformCall_connects sem (lookup_connects hinv ht2) ⟨pa, tb⟩ rfl
          rw [h2]; exact wellTyped_wrapHop hnn _ _ _ _



/-- two dicts with the same content (equal lookups) but possibly different iteration order give the same result -/
theorem tfsTransform_order_independent {reg1 reg2 : Registry F} (h1 : RegInv reg1) (h2 : RegInv reg2)
    (hl : ∀ k, lookup reg1 k = lookup reg2 k) (pa : Option F) (sem : Sem F) (fromT toT : F) (d : Option (Data F)) :
    tfsTransform reg1 pa sem fromT toT d = tfsTransform reg2 pa sem fromT toT d := by
  have hc : getTransformationChain reg1 pa fromT toT = getTransformationChain reg2 pa fromT toT := by
    unfold getTransformationChain; simp only [hl]
  unfold tfsTransform
  split
  · rfl
  · rw [← hc]
    cases hch : getTransformationChain reg1 pa fromT toT with
    | none => rfl
    | some chain =>
      simp only
      have hp1 := chain_isPath h1 hch
      have hp2 := chain_isPath h2 (hc ▸ hch)
      have hlen := hch
      unfold getTransformationChain at hlen
      cases hd : lookup reg1 (fromT, toT) with
      | some t => simp [hd] at hlen; subst hlen; simp [tfsLoop]
      | none =>
        simp only [hd] at hlen
        cases pa with
        | none => simp at hlen
        | some p =>
          simp only at hlen
          cases ha : lookup reg1 (fromT, p) with
          | none => simp [ha] at hlen
          | some a =>
            cases hb : lookup reg1 (p, toT) with
            | none => simp [ha, hb] at hlen
            | some b =>
              simp [ha, hb] at hlen; subst hlen
              have f1 := findIntermediate_of_mem h1 (lookup_connects h1 ha) (lookup_mem ha)
              have ha2 : lookup reg2 (fromT, p) = some a := by rw [← hl]; exact ha
              have f2 := findIntermediate_of_mem h2 (lookup_connects h2 ha2) (lookup_mem ha2)
              simp only [tfsLoop, f1, f2]


end Transform
