import MlodaVerif.Lemmas.LinkOrderBasic
/-! Lemmas about `order_links_by_frameworks` and `drop_dependency_in_case_of_circular_dependencies`. -/
namespace LinkOrder

/-- `l in order[k]`: link `l` has to wait for link `k` -/
def rel (o : Order) (k l : Nat) : Prop := ∃ v, (k, v) ∈ o ∧ l ∈ v

/-- the condition under which the double loop records "`tk.link` waits for `ok.link`" -/
def relCond (tk ok : Key) : Prop := tk.link ≠ ok.link ∧ tk.right = ok.left ∧ ok.left ≠ tk.left

instance (tk ok : Key) : Decidable (relCond tk ok) := by unfold relCond; infer_instance

theorem rel_oadd {o : Order} {k x k' l : Nat} : rel (oadd o k x) k' l ↔ rel o k' l ∨ (k' = k ∧ l = x) := by
  simp only [oadd]
  split
  · rename_i hk
    constructor
    · rintro ⟨v', hv', hl⟩
      obtain ⟨v, hv, rfl⟩ := mem_dmodify.mp hv'
      split at hl
      · rename_i hkk
        rcases mem_sadd.mp hl with h | h
        · exact Or.inl ⟨v, hv, h⟩
        · exact Or.inr ⟨hkk, h⟩
      · exact Or.inl ⟨v, hv, hl⟩
    · rintro (⟨v, hv, hl⟩ | ⟨rfl, rfl⟩)
      · refine ⟨_, mem_dmodify.mpr ⟨v, hv, rfl⟩, ?_⟩
        split
        · exact mem_sadd.mpr (Or.inl hl)
        · exact hl
      · obtain ⟨v, hv⟩ := mem_dkeys.mp hk
        exact ⟨_, mem_dmodify.mpr ⟨v, hv, rfl⟩, by simp [mem_sadd]⟩
  · constructor
    · rintro ⟨v', hv', hl⟩
      rcases List.mem_append.mp hv' with h | h
      · exact Or.inl ⟨v', h, hl⟩
      · simp at h; obtain ⟨rfl, rfl⟩ := h; simp at hl; exact Or.inr ⟨rfl, hl⟩
    · rintro (⟨v, hv, hl⟩ | ⟨rfl, rfl⟩)
      · exact ⟨v, List.mem_append_left _ hv, hl⟩
      · exact ⟨[l], List.mem_append_right _ (by simp), by simp⟩

theorem dkeys_oadd (o : Order) (k x : Nat) : dkeys (oadd o k x) = if k ∈ dkeys o then dkeys o else dkeys o ++ [k] := by
  simp only [oadd]; split <;> simp

theorem nodup_dkeys_oadd {o : Order} {k x : Nat} (h : (dkeys o).Nodup) : (dkeys (oadd o k x)).Nodup := by
  rw [dkeys_oadd]
  split
  · exact h
  · rename_i hk
    rw [List.nodup_append]
    refine ⟨h, by simp, ?_⟩
    intro a ha b hb; simp at hb; subst hb; intro hab; exact hk (hab ▸ ha)

theorem relStep_eq (o : Order) (tk ok : Key) : relStep o tk ok = if relCond tk ok then oadd o ok.link tk.link else o := by
  simp only [relStep, relCond]
  by_cases h1 : tk.link = ok.link
  · simp [h1]
  · by_cases h2 : tk.right = ok.left
    · by_cases h3 : ok.left = tk.left
      · simp [h1, h2, h3]
      · simp [h1, h2, h3]
    · simp [h1, h2]

theorem rel_relStep {o : Order} {tk ok : Key} {k l : Nat} :
    rel (relStep o tk ok) k l ↔ rel o k l ∨ (relCond tk ok ∧ k = ok.link ∧ l = tk.link) := by
  rw [relStep_eq]
  split
  · rename_i h; rw [rel_oadd]; simp [h]
  · rename_i h; simp [h]

theorem nodup_dkeys_relStep {o : Order} {tk ok : Key} (h : (dkeys o).Nodup) : (dkeys (relStep o tk ok)).Nodup := by
  rw [relStep_eq]; split
  · exact nodup_dkeys_oadd h
  · exact h

/-- the double loop with the two ranges kept apart (`orderRaw keys = orderRaw2 keys keys`) -/
def orderRaw2 (ks1 ks2 : List Key) (o : Order) : Order :=
  ks1.foldl (fun o tk => ks2.foldl (fun o ok => relStep o tk ok) o) o

theorem orderRaw_eq (keys : List Key) (o : Order) : orderRaw keys o = orderRaw2 keys keys o := rfl

theorem rel_inner {tk : Key} {ks2 : List Key} {o : Order} {k l : Nat} :
    rel (ks2.foldl (fun o ok => relStep o tk ok) o) k l ↔ rel o k l ∨ ∃ ok ∈ ks2, relCond tk ok ∧ k = ok.link ∧ l = tk.link := by
  induction ks2 generalizing o with
  | nil => simp
  | cons a r ih =>
    simp only [List.foldl_cons, ih, rel_relStep, List.mem_cons, exists_eq_or_imp]
    constructor
    · rintro ((h | h) | h)
      · exact Or.inl h
      · exact Or.inr (Or.inl h)
      · exact Or.inr (Or.inr h)
    · rintro (h | h | h)
      · exact Or.inl (Or.inl h)
      · exact Or.inl (Or.inr h)
      · exact Or.inr h

theorem rel_orderRaw2 {ks1 ks2 : List Key} {o : Order} {k l : Nat} :
    rel (orderRaw2 ks1 ks2 o) k l ↔
      rel o k l ∨ ∃ tk ∈ ks1, ∃ ok ∈ ks2, relCond tk ok ∧ k = ok.link ∧ l = tk.link := by
  induction ks1 generalizing o with
  | nil => simp [orderRaw2]
  | cons a r ih =>
    simp only [orderRaw2, List.foldl_cons] at ih ⊢
    rw [ih, rel_inner]
    simp only [List.mem_cons, exists_eq_or_imp]
    constructor
    · rintro ((h | h) | h)
      · exact Or.inl h
      · exact Or.inr (Or.inl h)
      · exact Or.inr (Or.inr h)
    · rintro (h | h | h)
      · exact Or.inl (Or.inl h)
      · exact Or.inl (Or.inr h)
      · exact Or.inr h

theorem nodup_dkeys_inner {tk : Key} {ks2 : List Key} {o : Order} (h : (dkeys o).Nodup) :
    (dkeys (ks2.foldl (fun o ok => relStep o tk ok) o)).Nodup := by
  induction ks2 generalizing o with
  | nil => exact h
  | cons a r ih => exact ih (nodup_dkeys_relStep h)

theorem nodup_dkeys_orderRaw2 {ks1 ks2 : List Key} {o : Order} (h : (dkeys o).Nodup) : (dkeys (orderRaw2 ks1 ks2 o)).Nodup := by
  induction ks1 generalizing o with
  | nil => exact h
  | cons a r ih => exact ih (nodup_dkeys_inner h)

/-- a key of `order` is there because some link waits for it (or it was there before) -/
theorem mem_dkeys_of_rel {o : Order} {k l : Nat} (h : rel o k l) : k ∈ dkeys o := by
  obtain ⟨v, hv, _⟩ := h; exact mem_dkeys.mpr ⟨v, hv⟩

theorem dkeys_relStep_sub {o : Order} {tk ok : Key} {k : Nat} (h : k ∈ dkeys (relStep o tk ok)) : k ∈ dkeys o ∨ k = ok.link := by
  rw [relStep_eq] at h
  split at h
  · rw [dkeys_oadd] at h
    split at h
    · exact Or.inl h
    · rcases List.mem_append.mp h with h | h
      · exact Or.inl h
      · simp at h; exact Or.inr h
  · exact Or.inl h

theorem dkeys_inner_sub {tk : Key} {ks2 : List Key} {o : Order} {k : Nat}
    (h : k ∈ dkeys (ks2.foldl (fun o ok => relStep o tk ok) o)) : k ∈ dkeys o ∨ ∃ ok ∈ ks2, k = ok.link := by
  induction ks2 generalizing o with
  | nil => exact Or.inl h
  | cons a r ih =>
    rcases ih h with h' | ⟨ok, hok, rfl⟩
    · rcases dkeys_relStep_sub h' with h'' | h''
      · exact Or.inl h''
      · exact Or.inr ⟨a, List.mem_cons_self, h''⟩
    · exact Or.inr ⟨ok, List.mem_cons_of_mem _ hok, rfl⟩

theorem dkeys_orderRaw2_sub {ks1 ks2 : List Key} {o : Order} {k : Nat}
    (h : k ∈ dkeys (orderRaw2 ks1 ks2 o)) : k ∈ dkeys o ∨ ∃ ok ∈ ks2, k = ok.link := by
  induction ks1 generalizing o with
  | nil => exact Or.inl h
  | cons a r ih =>
    rcases ih h with h' | h'
    · exact dkeys_inner_sub h'
    · exact Or.inr h'

/-! ### dropping one direction of every 2-cycle -/

theorem rel_dmodify_srem {o : Order} {keep drop k l : Nat} :
    rel (dmodify o keep (srem · drop)) k l ↔ rel o k l ∧ ¬(k = keep ∧ l = drop) := by
  constructor
  · rintro ⟨v', hv', hl⟩
    obtain ⟨v, hv, rfl⟩ := mem_dmodify.mp hv'
    split at hl
    · rename_i hk
      obtain ⟨h1, h2⟩ := mem_srem.mp hl
      exact ⟨⟨v, hv, h1⟩, fun h => h2 h.2⟩
    · rename_i hk
      exact ⟨⟨v, hv, hl⟩, fun h => hk h.1⟩
  · rintro ⟨⟨v, hv, hl⟩, hn⟩
    refine ⟨_, mem_dmodify.mpr ⟨v, hv, rfl⟩, ?_⟩
    split
    · rename_i hk
      exact mem_srem.mpr ⟨hl, fun h => hn ⟨hk, h⟩⟩
    · exact hl

theorem memb_rel {o : Order} {k x : Nat} (h : memb o k x = true) : rel o k x := by
  simp only [memb] at h
  split at h
  · rename_i v hv; exact ⟨v, dget_some_mem hv, by simpa using h⟩
  · simp at h

theorem rel_memb {o : Order} {k x : Nat} (hn : (dkeys o).Nodup) (h : rel o k x) : memb o k x = true := by
  obtain ⟨v, hv, hx⟩ := h
  simp [memb, dget_of_mem_nodup hn hv, hx]

/-- what one `adjust_order` call does -/
theorem adjustOrder_spec {data : List (Key × List Nat)} {o o' : Order} {a b : Nat} (h : adjustOrder data o a b = .ok o') :
    dkeys o' = dkeys o ∧ (∀ k l, rel o' k l → rel o k l) ∧ ¬(rel o' a b ∧ rel o' b a) ∧
      (∀ k l, rel o k l → rel o' k l ∨ (k = a ∧ l = b) ∨ (k = b ∧ l = a)) := by
  simp only [adjustOrder] at h
  split at h
  · rename_i fo fi _ _
    have := Except.ok.inj h
    subst this
    refine ⟨dkeys_dmodify _ _ _, fun k l hr => (rel_dmodify_srem.mp hr).1, ?_, ?_⟩
    · rintro ⟨h1, h2⟩
      by_cases hc : fo.length ≥ fi.length
      · simp only [hc, if_true] at h1 h2
        exact (rel_dmodify_srem.mp h2).2 ⟨rfl, rfl⟩
      · simp only [hc, if_false] at h1 h2
        exact (rel_dmodify_srem.mp h1).2 ⟨rfl, rfl⟩
    · intro k l hr
      by_cases hc : fo.length ≥ fi.length
      · simp only [hc, if_true]
        by_cases hx : k = b ∧ l = a
        · exact Or.inr (Or.inr hx)
        · exact Or.inl (rel_dmodify_srem.mpr ⟨hr, hx⟩)
      · simp only [hc, if_false]
        by_cases hx : k = a ∧ l = b
        · exact Or.inr (Or.inl hx)
        · exact Or.inl (rel_dmodify_srem.mpr ⟨hr, hx⟩)
  · simp at h

/-- specification of the inner loop for one `k_out` -/
theorem dropInner_spec {data : List (Key × List Nat)} {kOut : Nat} {L : List Nat} {o o' : Order}
    (h : dropInner data kOut L o = .ok o') (hn : (dkeys o).Nodup) :
    dkeys o' = dkeys o ∧ (∀ k l, rel o' k l → rel o k l) ∧
      (∀ kIn ∈ L, kIn ≠ kOut → ¬(rel o' kIn kOut ∧ rel o' kOut kIn)) ∧
      (∀ k l, rel o k l → rel o' k l ∨ rel o l k) := by
  induction L generalizing o with
  | nil =>
    simp only [dropInner] at h
    have := Except.ok.inj h; subst this
    exact ⟨rfl, fun _ _ h => h, by simp, fun k l h => Or.inl h⟩
  | cons kIn r ih =>
    simp only [dropInner] at h
    split at h
    · rename_i heq
      obtain ⟨h1, h2, h3, h4⟩ := ih h hn
      refine ⟨h1, h2, ?_, h4⟩
      intro x hx hne
      rcases List.mem_cons.mp hx with hx | hx
      · exact absurd (hx.trans heq.symm) hne
      · exact h3 x hx hne
    · rename_i hne
      split at h
      · rename_i hm
        split at h
        · simp at h
        · rename_i o1 ha
          obtain ⟨a1, a2, a3, a4⟩ := adjustOrder_spec ha
          obtain ⟨h1, h2, h3, h4⟩ := ih h (a1 ▸ hn)
          simp only [Bool.and_eq_true] at hm
          have r1 := memb_rel hm.1
          have r2 := memb_rel hm.2
          refine ⟨h1.trans a1, fun k l hr => a2 k l (h2 k l hr), ?_, ?_⟩
          · intro x hx hxne
            rcases List.mem_cons.mp hx with hx | hx
            · subst hx
              rintro ⟨b1, b2⟩
              exact a3 ⟨h2 _ _ b2, h2 _ _ b1⟩
            · exact h3 x hx hxne
          · intro k l hr
            rcases a4 k l hr with hh | ⟨rfl, rfl⟩ | ⟨rfl, rfl⟩
            · rcases h4 k l hh with h' | h'
              · exact Or.inl h'
              · exact Or.inr (a2 _ _ h')
            · exact Or.inr r1
            · exact Or.inr r2
      · rename_i hm
        obtain ⟨h1, h2, h3, h4⟩ := ih h hn
        refine ⟨h1, h2, ?_, h4⟩
        intro x hx hxne
        rcases List.mem_cons.mp hx with hx | hx
        · subst hx
          rintro ⟨b1, b2⟩
          apply hm
          simp only [Bool.and_eq_true]
          exact ⟨rel_memb hn (h2 _ _ b1), rel_memb hn (h2 _ _ b2)⟩
        · exact h3 x hx hxne

theorem dropOuter_spec {data : List (Key × List Nat)} {ks : List Nat} {L : List Nat} {o o' : Order}
    (h : dropOuter data ks L o = .ok o') (hn : (dkeys o).Nodup) :
    dkeys o' = dkeys o ∧ (∀ k l, rel o' k l → rel o k l) ∧
      (∀ kOut ∈ L, ∀ kIn ∈ ks, kIn ≠ kOut → ¬(rel o' kIn kOut ∧ rel o' kOut kIn)) ∧
      (∀ k l, rel o k l → rel o' k l ∨ rel o l k) := by
  induction L generalizing o with
  | nil =>
    simp only [dropOuter] at h
    have := Except.ok.inj h; subst this
    exact ⟨rfl, fun _ _ h => h, by simp, fun k l h => Or.inl h⟩
  | cons kOut r ih =>
    simp only [dropOuter] at h
    split at h
    · simp at h
    · rename_i o1 hi
      obtain ⟨a1, a2, a3, a4⟩ := dropInner_spec hi hn
      obtain ⟨h1, h2, h3, h4⟩ := ih h (a1 ▸ hn)
      refine ⟨h1.trans a1, fun k l hr => a2 k l (h2 k l hr), ?_, ?_⟩
      · intro x hx y hy hne
        rcases List.mem_cons.mp hx with hx | hx
        · subst hx
          rintro ⟨b1, b2⟩
          exact a3 y hy hne ⟨h2 _ _ b1, h2 _ _ b2⟩
        · exact h3 x hx y hy hne
      · intro k l hr
        rcases a4 k l hr with hh | hh
        · rcases h4 k l hh with h' | h'
          · exact Or.inl h'
          · exact Or.inr (a2 _ _ h')
        · exact Or.inr hh

/-- postcondition of `drop_dependency_in_case_of_circular_dependencies` -/
theorem dropCircular_spec {data : List (Key × List Nat)} {o o' : Order} (h : dropCircular data o = .ok o') (hn : (dkeys o).Nodup) :
    dkeys o' = dkeys o ∧ (∀ k l, rel o' k l → rel o k l) ∧
      (∀ a b, a ≠ b → ¬(rel o' a b ∧ rel o' b a)) ∧ (∀ k l, rel o k l → rel o' k l ∨ rel o l k) := by
  obtain ⟨h1, h2, h3, h4⟩ := dropOuter_spec h hn
  refine ⟨h1, h2, ?_, h4⟩
  rintro a b hab ⟨r1, r2⟩
  have ha : a ∈ dkeys o := h1 ▸ mem_dkeys_of_rel r1
  have hb : b ∈ dkeys o := h1 ▸ mem_dkeys_of_rel r2
  exact h3 a ha b hb (fun h => hab h.symm) ⟨r2, r1⟩

/-! ### `adjust_order` finds both links whenever the keys of `order` are links of `data` -/

theorem lastDeps_isSome {data : List (Key × List Nat)} {lid : Nat} (h : ∃ e ∈ data, e.1.link = lid) : (lastDeps data lid).isSome := by
  induction data with
  | nil => simp at h
  | cons e r ih =>
    simp only [lastDeps]
    split
    · simp
    · rename_i hnone
      obtain ⟨e', he', hl⟩ := h
      rcases List.mem_cons.mp he' with he' | he'
      · subst he'; simp [hl]
      · have := ih ⟨e', he', hl⟩
        rw [hnone] at this; simp at this

def Covered (data : List (Key × List Nat)) (ks : List Nat) : Prop := ∀ k ∈ ks, ∃ e ∈ data, e.1.link = k

theorem adjustOrder_ok {data : List (Key × List Nat)} {o : Order} {a b : Nat}
    (ha : ∃ e ∈ data, e.1.link = a) (hb : ∃ e ∈ data, e.1.link = b) : ∃ o', adjustOrder data o a b = .ok o' := by
  simp only [adjustOrder]
  have h1 := lastDeps_isSome ha
  have h2 := lastDeps_isSome hb
  cases h3 : lastDeps data a with
  | none => simp [h3] at h1
  | some x =>
    cases h4 : lastDeps data b with
    | none => simp [h4] at h2
    | some y => exact ⟨_, rfl⟩

theorem dropInner_ok {data : List (Key × List Nat)} {kOut : Nat} {L : List Nat} {o : Order}
    (ho : ∃ e ∈ data, e.1.link = kOut) (hL : Covered data L) : ∃ o', dropInner data kOut L o = .ok o' := by
  induction L generalizing o with
  | nil => exact ⟨o, rfl⟩
  | cons kIn r ih =>
    have hr : Covered data r := fun k hk => hL k (List.mem_cons_of_mem _ hk)
    simp only [dropInner]
    split
    · exact ih hr
    · split
      · obtain ⟨o1, h1⟩ := adjustOrder_ok (o := o) ho (hL kIn List.mem_cons_self)
        rw [h1]; exact ih hr
      · exact ih hr

theorem dropInner_keys {data : List (Key × List Nat)} {kOut : Nat} {L : List Nat} {o o' : Order}
    (h : dropInner data kOut L o = .ok o') : dkeys o' = dkeys o := by
  induction L generalizing o with
  | nil => simp only [dropInner] at h; rw [← Except.ok.inj h]
  | cons kIn r ih =>
    simp only [dropInner] at h
    split at h
    · exact ih h
    · split at h
      · split at h
        · simp at h
        · rename_i o1 ha
          rw [ih h]
          simp only [adjustOrder] at ha
          split at ha
          · rw [← Except.ok.inj ha]; exact dkeys_dmodify _ _ _
          · simp at ha
      · exact ih h

theorem dropOuter_ok {data : List (Key × List Nat)} {ks L : List Nat} {o : Order}
    (hks : Covered data ks) (hL : Covered data L) : ∃ o', dropOuter data ks L o = .ok o' := by
  induction L generalizing o with
  | nil => exact ⟨o, rfl⟩
  | cons kOut r ih =>
    simp only [dropOuter]
    obtain ⟨o1, h1⟩ := dropInner_ok (o := o) (hL kOut List.mem_cons_self) hks
    rw [h1]
    exact ih (fun k hk => hL k (List.mem_cons_of_mem _ hk))

end LinkOrder
