import MlodaVerif.Lemmas.EngineLive
/-! # From `EngineColl.run` to the derivation; closure, flags and order independence at the level of a whole run -/
namespace EngineColl
open Graph (Dict dget dset sadd)

theorem requestLoop_eq : ∀ (fs acc r : List Feat), requestLoop fs acc = .ok r → r = acc ++ fs := by
  intro fs
  induction fs with
  | nil => intro acc r h; simp only [requestLoop, Except.ok.injEq] at h; subst h; simp
  | cons f fs ih =>
    intro acc r h
    unfold requestLoop at h
    cases hd : dupCheck f.key acc with
    | error e => rw [hd] at h; simp at h
    | ok _ =>
      rw [hd] at h
      simp only at h
      rw [ih _ _ h]; simp

/-- the state `Engine.__init__` starts the collection with -/
def st0 (L : Option (List Link)) (req : List Feat) : St := { links := L, next := nextAbove req }

theorem run_ok {w : World} {fuel : Nat} {L : Option (List Link)} {req : List Feat} {st : St} (h : run w fuel L req = .ok st) :
    procAll w fuel (st0 L req) req = .ok st := by
  unfold run at h
  cases hm : mkRequest req with
  | error e => rw [hm] at h; simp at h
  | ok fs =>
    rw [hm] at h
    simp only at h
    have : fs = req := by
      have := requestLoop_eq req [] fs hm
      simpa using this
    subst this
    exact h

theorem run_Run {w : World} {fuel : Nat} {L : Option (List Link)} {req : List Feat} {st : St} (h : run w fuel L req = .ok st) :
    Run w (st0 L req) none req st := procAll_run w fuel req _ _ (run_ok h)

/-! ## soundness of the closure, flags -/

theorem feed_req {w : World} {L : Option (List Link)} {req : List Feat} (hnl : ∀ q ∈ req, q.link = none) : Feed w L req req :=
  fun f hf => ⟨hnl f hf, fun _ _ hp => Proc.req hf hp⟩

theorem run_sound {w : World} {fuel : Nat} {L : Option (List Link)} {req : List Feat} {st : St} (hw : PlainWorld w)
    (hnl : ∀ q ∈ req, q.link = none) (h : run w fuel L req = .ok st) : st.links = L ∧ ∀ e ∈ st.coll, Legit w L req e.1 e.2 :=
  (run_Run h).sinv hw ⟨rfl, by simp [st0]⟩ (feed_req hnl)

theorem run_nodup {w : World} {fuel : Nat} {L : Option (List Link)} {req : List Feat} {st : St} (h : run w fuel L req = .ok st) :
    NoDupKeys st.coll := (run_Run h).nodup (by simp [st0, NoDupKeys])

theorem prepareK_child {w : World} {L : Option (List Link)} {k k' : Key} {g : Nat} (h : prepareK w L k = .ok (g, k')) :
    k'.child = k.child ∧ k'.grp = k.grp ∧ k'.ctx = k.ctx ∧ k'.dom = k.dom := by
  unfold prepareK at h
  cases hr : w.resolve L k with
  | error e => rw [hr] at h; simp at h
  | ok r =>
    obtain ⟨g0, cfws⟩ := r
    rw [hr] at h
    simp only at h
    cases hc : setCfw w { k with name := w.setName g0 k } cfws with
    | error e => rw [hc] at h; simp at h
    | ok k2 =>
      rw [hc] at h
      simp only at h
      cases hd : setDtype w g0 k2 with
      | error e => rw [hd] at h; simp at h
      | ok k3 =>
        rw [hd] at h
        simp only [Except.ok.injEq, Prod.mk.injEq] at h
        obtain ⟨_, rfl⟩ := h
        have h2 : k2.child = k.child ∧ k2.grp = k.grp ∧ k2.ctx = k.ctx ∧ k2.dom = k.dom := by
          unfold setCfw at hc
          split at hc
          · split at hc
            · simp only [Except.ok.injEq] at hc; subst hc; exact ⟨rfl, rfl, rfl, rfl⟩
            · simp at hc
          · simp only [Except.ok.injEq] at hc; subst hc; exact ⟨rfl, rfl, rfl, rfl⟩
        have h3 : k3.child = k2.child ∧ k3.grp = k2.grp ∧ k3.ctx = k2.ctx ∧ k3.dom = k2.dom := by
          unfold setDtype at hd
          split at hd
          · split at hd
            · simp only [Except.ok.injEq] at hd; subst hd; exact ⟨rfl, rfl, rfl, rfl⟩
            · simp at hd
          · simp only [Except.ok.injEq] at hd; subst hd; exact ⟨rfl, rfl, rfl, rfl⟩
          · simp only [Except.ok.injEq] at hd; subst hd; exact ⟨rfl, rfl, rfl, rfl⟩
        exact ⟨by rw [h3.1, h2.1], by rw [h3.2.1, h2.2.1], by rw [h3.2.2.1, h2.2.2.1], by rw [h3.2.2.2, h2.2.2.2]⟩

theorem prepare_child {w : World} {L : Option (List Link)} {f f' : Feat} {g : Nat} (h : prepare w L f = .ok (g, f')) :
    f'.key.child = f.key.child := (prepareK_child (prepare_fields h).2.2.2).1

/-- where a prepared feature comes from: a requested feature, or a dependency (then it carries `child_options` and is unflagged) -/
theorem Proc.origin {w : World} {L : Option (List Link)} {req : List Feat} (hw : PlainWorld w) {g : Nat} {p : Feat}
    (h : Proc w L req g p) : (∃ q ∈ req, prepare w L q = .ok (g, p)) ∨ (p.key.child ≠ none ∧ p.req = false) := by
  cases h with
  | req hq hp => exact Or.inl ⟨_, hq, hp⟩
  | @dep g0 _ p0 t t' _ ts u hp0 hin ht hmk hpt =>
    right
    have hf := mkInput_fields hmk
    refine ⟨by rw [prepare_child hpt, hf.2.2.2.1]; simp, ?_⟩
    rw [(prepare_fields hpt).2.1, hf.2.1]
    exact hw.inputs_unflagged g0 p0.key ts t hin ht

theorem Legit.flag {w : World} {L : Option (List Link)} {req : List Feat} (hw : PlainWorld w) {g : Nat} {f : Feat}
    (h : Legit w L req g f) (hr : f.req = true) : ∃ q ∈ req, prepare w L q = .ok (g, f) := by
  cases h with
  | proc hp =>
    rcases hp.origin hw with h1 | h1
    · exact h1
    · rw [h1.2] at hr; simp at hr
  | filt _ _ _ => simp [filterFeat] at hr
  | idx _ _ hxf _ => rw [(indexFeat_link hxf).2.1] at hr; simp at hr

/-- an unflagged entry without `child_options` is a filter feature or a linked-index feature of another processed feature of its group -/
theorem Legit.aux {w : World} {L : Option (List Link)} {req : List Feat} (hw : PlainWorld w) (hreq : PlainReq req) {g : Nat} {f : Feat}
    (h : Legit w L req g f) (hr : f.req = false) (hc : f.key.child = none) :
    ∃ p, Proc w L req g p ∧ p.key ≠ f.key ∧
      ((∃ m, FilterMatch w g p.key m ∧ filterKey w g m = f.key) ∨ (∃ ix, IndexMatch w L g ix ∧ indexKey w g p.key ix = .ok f.key)) := by
  cases h with
  | proc hp =>
    rcases hp.origin hw with ⟨q, hq, hpq⟩ | h1
    · have := (prepare_fields hpq).2.1
      rw [(hreq q hq).2.1] at this
      rw [this] at hr; simp at hr
    · exact absurd hc h1.1
  | @filt p m u hp hm hne => exact ⟨p, hp, fun h => hne h.symm, Or.inl ⟨m, hm, rfl⟩⟩
  | @idx p _ ix u hp hm hxf hne => exact ⟨p, hp, fun h => hne h.symm, Or.inr ⟨ix, hm, indexFeat_key hxf⟩⟩

/-! ## completeness -/

theorem run_complete {w : World} {fuel : Nat} {L : Option (List Link)} {req : List Feat} {st : St} (hw : PlainWorld w)
    (hnl : ∀ q ∈ req, q.link = none) (h : run w fuel L req = .ok st) :
    (∀ q ∈ req, ∀ g f, prepare w L q = .ok (g, f) → inColl st.coll g f.key = true ∧ AuxRep w L st.coll g f.key) ∧
    (∀ e ∈ st.coll, Expanded e.2 → InputsRep w L st.coll e.1 e.2.key ∧ AuxRep w L st.coll e.1 e.2.key) := by
  obtain ⟨h1, h2⟩ := (run_Run h).live (L := L) hw rfl hnl
  exact ⟨h1, fun e he hex => h2 e he (by simp [st0]) hex⟩

/-- no requested feature is `==` to a filter / linked-index feature of ANOTHER processed feature of its group -/
def NoShadow (w : World) (L : Option (List Link)) (req : List Feat) : Prop :=
  ∀ q ∈ req, ∀ g f, prepare w L q = .ok (g, f) → ∀ p, Proc w L req g p → p.key ≠ f.key →
    (∀ m, FilterMatch w g p.key m → filterKey w g m ≠ f.key) ∧
    (∀ ix xk, IndexMatch w L g ix → indexKey w g p.key ix = .ok xk → xk ≠ f.key)

/-- under `NoShadow` the representative of a processed feature is a non-auxiliary entry -/
theorem rep_expanded {w : World} {L : Option (List Link)} {req : List Feat} (hw : PlainWorld w) (hreq : PlainReq req)
    (hns : NoShadow w L req) {g : Nat} {p : Feat} (hp : Proc w L req g p) {e : Nat × Feat} (he1 : e.1 = g) (hek : e.2.key = p.key)
    (hleg : Legit w L req e.1 e.2) : Expanded e.2 := by
  by_cases hr : e.2.req = true
  · exact Or.inl hr
  · right
    intro hc
    have hr' : e.2.req = false := by cases h : e.2.req <;> simp_all
    obtain ⟨p', hp', hne, haux⟩ := hleg.aux hw hreq hr' hc
    rw [he1] at hp' haux
    -- `p` has no child options, so it is a requested feature: `NoShadow` applies
    rcases hp.origin hw with ⟨q, hq, hpq⟩ | h1
    · have hsh := hns q hq g p hpq p' hp' (by rw [← hek]; exact hne)
      rcases haux with ⟨m, hm, hk⟩ | ⟨ix, hm, hk⟩
      · exact hsh.1 m hm (by rw [hk, hek])
      · exact hsh.2 ix _ hm hk hek
    · exact h1.1 (by rw [← hek]; exact hc)

theorem run_closure {w : World} {fuel : Nat} {L : Option (List Link)} {req : List Feat} {st : St} (hw : PlainWorld w)
    (hreq : PlainReq req) (hns : NoShadow w L req) (h : run w fuel L req = .ok st) :
    ∀ g p, Proc w L req g p → inColl st.coll g p.key = true ∧ AuxRep w L st.coll g p.key := by
  have hnl : ∀ q ∈ req, q.link = none := fun q hq => (hreq q hq).1
  obtain ⟨c1, c2⟩ := run_complete hw hnl h
  obtain ⟨_, hleg⟩ := run_sound hw hnl h
  intro g p hp
  induction hp with
  | req hq hpq => exact c1 _ hq _ _ hpq
  | @dep g0 g' p0 t t' f' ts u hp0 hin ht hmk hpt ih =>
    obtain ⟨hin0, _⟩ := ih
    rw [inColl_iff] at hin0
    obtain ⟨e, he, he1, hek⟩ := hin0
    have hex : Expanded e.2 := rep_expanded hw hreq hns hp0 he1 hek (hleg e he)
    obtain ⟨hir, _⟩ := c2 e he hex
    rw [he1, hek] at hir
    have hin' : inColl st.coll g' f'.key = true := hir ts t u t' g' f' hin ht hmk hpt
    refine ⟨hin', ?_⟩
    rw [inColl_iff] at hin'
    obtain ⟨e', he', he1', hek'⟩ := hin'
    have hex' : Expanded e'.2 := rep_expanded hw hreq hns (Proc.dep hp0 hin ht hmk hpt) he1' hek' (hleg e' he')
    have := (c2 e' he' hex').2
    rw [he1', hek'] at this
    exact this

/-! ## the requested flag -/

theorem flag_exact {w : World} {fuel : Nat} {L : Option (List Link)} {req : List Feat} {st : St} (hw : PlainWorld w)
    (hreq : PlainReq req) (hns : NoShadow w L req) (h : run w fuel L req = .ok st) :
    ∀ e ∈ st.coll, (e.2.req = true ↔ ∃ q ∈ req, ∃ f, prepare w L q = .ok (e.1, f) ∧ f.key = e.2.key) := by
  have hnl : ∀ q ∈ req, q.link = none := fun q hq => (hreq q hq).1
  obtain ⟨_, hleg⟩ := run_sound hw hnl h
  intro e he
  constructor
  · intro hr
    obtain ⟨q, hq, hp⟩ := (hleg e he).flag hw hr
    exact ⟨q, hq, e.2, hp, rfl⟩
  · intro ⟨q, hq, f, hp, hk⟩
    have hex := rep_expanded hw hreq hns (Proc.req hq hp) rfl hk.symm (hleg e he)
    rcases hex with hex | hex
    · exact hex
    · exfalso; apply hex
      rw [← hk, prepare_child hp]
      exact (hreq q hq).2.2

end EngineColl
