import MlodaVerif.Lemmas.ChainOpts
/-! One option-configured level: `Feature(placeholder, Options(context={<parameters>, in_features: v}))` is claimed by
exactly the group of the operation, yields the denoted input feature and the same parameters. -/
open Gen.Chain

namespace Chain

/-! ### lookups in the option dictionary of a level -/

theorem lookup_none_of_not_mem (k : Str) (kvs : List (Str × PV)) (h : ∀ kv ∈ kvs, kv.1 ≠ k) : lookup k kvs = none := by
  induction kvs with
  | nil => rfl
  | cons kv r ih =>
    obtain ⟨k', v'⟩ := kv
    have hne : (k == k') = false := by
      have := h (k', v') (by simp)
      simpa using fun heq => this heq.symm
    simp [lookup, hne, ih (fun x hx => h x (by simp [hx]))]

theorem lookup_append_last (k : Str) (kvs : List (Str × PV)) (v : PV) (h : lookup k kvs = none) :
    lookup k (kvs ++ [(k, v)]) = some v := by
  induction kvs with
  | nil => simp [lookup]
  | cons kv r ih =>
    obtain ⟨k', v'⟩ := kv
    simp only [lookup, List.cons_append] at h ⊢
    split at h
    · simp at h
    · rename_i hne; simp [hne, ih h]

theorem lookup_append_other (k k0 : Str) (kvs : List (Str × PV)) (v : PV) (hne : (k == k0) = false) :
    lookup k (kvs ++ [(k0, v)]) = lookup k kvs := by
  induction kvs with
  | nil => simp [lookup, hne]
  | cons kv r ih =>
    obtain ⟨k', v'⟩ := kv
    simp only [lookup, List.cons_append]
    split <;> simp_all

theorem zip_keys_subset (keys : List Str) (vals : List PV) : ∀ kv ∈ keys.zip vals, kv.1 ∈ keys := by
  intro kv hkv
  exact (List.of_mem_zip hkv).1

theorem requiredKeys_ne_in (g : Group) : ∀ k ∈ requiredKeys g, k ≠ inFeaturesKey := by
  intro k hk
  simp only [requiredKeys, List.mem_map, List.mem_filter, Bool.and_eq_true, Bool.not_eq_true', bne_iff_ne] at hk
  obtain ⟨p, ⟨_, _, hp⟩, rfl⟩ := hk
  exact hp

def levelOpts (g : Group) (ps : List Param) (v : PV) : Opts := ⟨[], optKV g ps ++ [(inFeaturesKey, v)]⟩

theorem levelOpts_get_in (g : Group) (ps : List Param) (v : PV) : (levelOpts g ps v).get inFeaturesKey = v := by
  have h : lookup inFeaturesKey (optKV g ps) = none :=
    lookup_none_of_not_mem _ _ (fun kv hkv => requiredKeys_ne_in g kv.1 (zip_keys_subset _ _ kv hkv))
  simp [levelOpts, Opts.get, lookup, lookup_append_last _ _ _ h]

theorem levelOpts_get_absent (g : Group) (ps : List Param) (v : PV) (k : Str) (hk : k ∉ requiredKeys g) (hne : k ≠ inFeaturesKey) :
    (levelOpts g ps v).get k = .none := by
  have h1 : lookup k (optKV g ps) = none :=
    lookup_none_of_not_mem _ _ (fun kv hkv heq => hk (heq ▸ zip_keys_subset _ _ kv hkv))
  have hne' : (k == inFeaturesKey) = false := by simpa using hne
  simp [levelOpts, Opts.get, lookup, lookup_append_other _ _ _ _ hne', h1]

/-! ### `propHere` in its three outcomes -/

theorem propHere_absent (vf : Str → Option (PV → Bool)) (p : PropSpec) (o : Opts) (h : o.get p.key = .none) :
    propHere vf p o = .ok (some p.hasDefault) := by
  simp [propHere, h, pure, Except.pure]

theorem propHere_present (vf : Str → Option (PV → Bool)) (p : PropSpec) (o : Opts) (hnn : (o.get p.key).isNone = false) :
    propHere vf p o = (do
      if !p.validator.isEmpty && (vf p.validator).isNone then throw (Err.unmodelled "validator")
      let (ok, coll) ← processFound p (vf p.validator) (o.get p.key)
      pure (if ok then some (!coll.isEmpty || p.hasDefault) else none)) := by
  unfold propHere
  cases hv : o.get p.key <;> simp_all [PV.isNone]

theorem propHere_found (vf : Str → Option (PV → Bool)) (p : PropSpec) (o : Opts) (hnn : (o.get p.key).isNone = false)
    (hgood : goodVal (o.get p.key) = true) (hvf : (!p.validator.isEmpty && (vf p.validator).isNone) = false)
    (hstrict : strictOk p (vf p.validator) ((elemsOf (o.get p.key)).map convElem) = true)
    (hne : (elemsOf (o.get p.key)).map convElem ≠ []) : propHere vf p o = .ok (some true) := by
  rw [propHere_present vf p o hnn, processFound_good p _ _ hgood]
  have hd := dedupe_ne_nil _ hne
  have hde : (dedupe ((elemsOf (o.get p.key)).map convElem)).isEmpty = false := by
    cases hx : dedupe ((elemsOf (o.get p.key)).map convElem) with
    | nil => exact absurd hx hd
    | cons _ _ => rfl
  simp [hvf, hstrict, hde, bind, Except.bind, pure, Except.pure]

theorem propHere_total (vf : Str → Option (PV → Bool)) (p : PropSpec) (o : Opts)
    (hgood : o.get p.key = .none ∨ goodVal (o.get p.key) = true)
    (hvf : (!p.validator.isEmpty && (vf p.validator).isNone) = false) : ∃ r, propHere vf p o = .ok r := by
  rcases hgood with h | h
  · exact ⟨_, propHere_absent vf p o h⟩
  · have hnn : (o.get p.key).isNone = false := by
      cases hv : o.get p.key <;> simp_all [PV.isNone, goodVal, simpleElem]
    rw [propHere_present vf p o hnn, processFound_good p _ _ h]
    simp only [hvf, Bool.false_eq_true, if_false, bind, Except.bind, pure, Except.pure]
    exact ⟨_, rfl⟩

/-! ### the values of a level are "good" -/

theorem goodVal_toPV (p : Param) : goodVal p.toPV = true := by cases p <;> rfl

theorem levelOpts_good (g : Group) (ps : List Param) (v : PV) (hv : goodVal v = true) (k : Str) :
    (levelOpts g ps v).get k = .none ∨ goodVal ((levelOpts g ps v).get k) = true := by
  simp only [levelOpts, Opts.get, lookup]
  cases hl : lookup k (optKV g ps ++ [(inFeaturesKey, v)]) with
  | none => left; rfl
  | some w =>
    right
    simp only [Option.getD]
    -- every value in the list is a parameter value or `v`
    have : ∀ (kvs : List (Str × PV)), (∀ kv ∈ kvs, goodVal kv.2 = true) → lookup k kvs = some w → goodVal w = true := by
      intro kvs hall
      induction kvs with
      | nil => simp [lookup]
      | cons kv r ih =>
        obtain ⟨k', v'⟩ := kv
        simp only [lookup]
        split
        · intro h; cases h; exact hall (k', w) (by simp)
        · exact ih (fun x hx => hall x (by simp [hx]))
    apply this _ _ hl
    intro kv hkv
    rcases List.mem_append.mp hkv with h | h
    · obtain ⟨_, h2⟩ := List.of_mem_zip h
      obtain ⟨p, _, hp⟩ := List.mem_map.mp h2
      rw [← hp]; exact goodVal_toPV p
    · simp at h; subst h; exact hv

theorem inVal_good {v f : PV} (h : inValFeat v = some f) :
    goodVal v = true ∧ (elemsOf v).map convElem ≠ [] ∧ v.isNone = false := by
  unfold inValFeat at h
  split at h
  · split at h
    · simp [goodVal, simpleElem, elemsOf, PV.isNone, convElem]
    · cases h
  · simp [goodVal, simpleElem, elemsOf, PV.isNone, convElem]
  · simp [goodVal, simpleElem, elemsOf, PV.isNone, convElem]
  · simp [goodVal, simpleElem, elemsOf, PV.isNone, convElem]
  · cases h

/-- `Options.get_in_features` on the str / frozenset / Feature spellings of one input -/
theorem getInFeatures_inVal (o : Opts) (v f : PV) (hget : o.get inFeaturesKey = v) (h : inValFeat v = some f) :
    getInFeatures o = .ok [f] := by
  unfold getInFeatures
  rw [hget]
  unfold inValFeat at h
  split at h
  · rename_i s
    split at h
    · rename_i hc
      simp only [Bool.and_eq_true, Bool.not_eq_true'] at hc
      cases h
      have hs : s.isEmpty = false := hc.1
      have hnc : ',' ∉ s := by
        intro hmem
        have : s.contains ',' = true := by simpa using hmem
        rw [this] at hc; cases hc.2
      simp [PV.truthy, hs, hnc]
    · cases h
  · cases h; simp [PV.truthy]
  · cases h; simp [PV.truthy, toFeat, List.mapM_cons, bind, Except.bind, pure, Except.pure, Except.map, dedupe, mkFeat]
  · cases h; simp [PV.truthy, toFeat, List.mapM_cons, bind, Except.bind, pure, Except.pure, Except.map, dedupe]
  · cases h

/-! ### other groups do not claim the level -/

/-- every other modelled group has a required property whose key the level's options do not contain -/
def pairsOk : Bool :=
  modelledGroups.all fun g => modelledGroups.all fun g' =>
    g.name == g'.name || g'.props.any fun p => !p.hasDefault && !(requiredKeys g ++ [inFeaturesKey]).contains p.key

theorem pairsOk_true : pairsOk = true := by decide

theorem validatorFn_isSome_indep (id : Str) (ops : List Str) : (validatorFn id ops).isSome = (validatorFn id []).isSome := by
  unfold validatorFn
  split
  · rfl
  · split
    · rfl
    · split
      · rfl
      · rfl

theorem validators_modelled {g : Group} (hm : modelled g = true) {p : PropSpec} (hp : p ∈ g.props) :
    (!p.validator.isEmpty && (vfOf g p.validator).isNone) = false := by
  simp only [modelled, Bool.and_eq_true, List.all_eq_true] at hm
  have := hm.1.2 p hp
  simp only [Bool.or_eq_true] at this
  rcases this with h | h
  · simp [h]
  · have h2 : (vfOf g p.validator).isSome = true := by
      unfold vfOf
      rw [validatorFn_isSome_indep]; exact h
    cases hv : (vfOf g p.validator) with
    | none => rw [hv] at h2; cases h2
    | some _ => simp

theorem other_group_no_match (g g' : Group) (hg : g ∈ modelledGroups) (hg' : g' ∈ modelledGroups) (hne : (g.name == g'.name) = false)
    (ps : List Param) (v : PV) (hv : goodVal v = true) (name : Str) (hname : hasInfix sep2 name = false) :
    matchCriteria g' name (levelOpts g ps v) = .ok false := by
  have hmod' : modelled g' = true := by simp [modelledGroups] at hg'; exact hg'.2
  rw [matchCriteria_no_pattern g' hmod' name _ (matchPattern_none g'.toks name hname)]
  have hp := pairsOk_true
  simp only [pairsOk, List.all_eq_true] at hp
  have := hp g hg g' hg'
  simp only [hne, Bool.false_or, List.any_eq_true, Bool.and_eq_true, Bool.not_eq_true'] at this
  obtain ⟨p, hpm, hnd, hnk⟩ := this
  have hnk' : p.key ∉ requiredKeys g ++ [inFeaturesKey] := by
    intro hmem
    have : (requiredKeys g ++ [inFeaturesKey]).contains p.key = true := by simpa using hmem
    rw [this] at hnk; cases hnk
  have habs : (levelOpts g ps v).get p.key = .none :=
    levelOpts_get_absent g ps v p.key (fun h => hnk' (by simp [h])) (fun h => hnk' (by simp [h]))
  obtain ⟨r, hr, hrne⟩ := validateProps_missing (vfOf g') g'.props (levelOpts g ps v)
    (fun q hq => propHere_total _ q _ (levelOpts_good g ps v hv q.key) (validators_modelled hmod' hq))
    ⟨p, hpm, by rw [propHere_absent _ _ _ habs, hnd]⟩
  rw [hr]
  cases r with
  | none => rfl
  | some b => cases b <;> simp_all

end Chain

namespace Chain

/-! ### the own group claims the level -/

theorem validatorFn_nil (ops : List Str) : validatorFn [] ops = none := by rfl

/-- shape of a single-parameter group's PROPERTY_MAPPING: the required key is strictly checked by membership in a value
list containing the vocabulary, `in_features` is not strict, everything else has a default -/
def singleOwn (g : Group) (vocab : List Str) : Bool :=
  match requiredKeys g with
  | [K] => g.props.all fun p =>
      if p.key == K then p.validator.isEmpty && (!p.strict || vocab.all (p.values.contains ·))
      else if p.key == inFeaturesKey then !p.strict && p.validator.isEmpty
      else p.hasDefault
  | _ => false

theorem levelOpts_single_get (g : Group) (K : Str) (hK : requiredKeys g = [K]) (t : Str) (v : PV) :
    (levelOpts g [.s t] v).get K = .str t := by
  simp [levelOpts, Opts.get, lookup, optKV, hK, Param.toPV]

theorem own_single (g : Group) (vocab : List Str) (h : singleOwn g vocab = true) (t : Str) (ht : vocab.contains t = true)
    (v f : PV) (hv : inValFeat v = some f) :
    ∀ p ∈ g.props, propHere (vfOf g) p (levelOpts g [.s t] v) = .ok (some true) := by
  obtain ⟨hgood, hne, hnn⟩ := inVal_good hv
  unfold singleOwn at h
  split at h
  · rename_i K hK
    simp only [List.all_eq_true] at h
    intro p hp
    have hp' := h p hp
    by_cases hk : (p.key == K) = true
    · simp only [hk, if_true, Bool.and_eq_true, Bool.or_eq_true, Bool.not_eq_true', List.all_eq_true] at hp'
      obtain ⟨hvl, hvals⟩ := hp'
      have hkey : p.key = K := by simpa using hk
      have hget : (levelOpts g [.s t] v).get p.key = .str t := by rw [hkey]; exact levelOpts_single_get g K hK t v
      have hvn : p.validator = [] := by cases hx : p.validator <;> simp_all
      apply propHere_found
      · rw [hget]; rfl
      · rw [hget]; rfl
      · simp [hvl]
      · rw [hget, hvn]
        have : vfOf g [] = none := validatorFn_nil _
        rcases hvals with hns | hvals
        · simp [strictOk, hns]
        · have htv : t ∈ p.values := by simpa using hvals t (by simpa using ht)
          simp [strictOk, this, elemsOf, convElem, htv]
      · rw [hget]; simp [elemsOf]
    · simp only [hk, Bool.false_eq_true, if_false] at hp'
      by_cases hi : (p.key == inFeaturesKey) = true
      · simp only [hi, if_true, Bool.and_eq_true, Bool.not_eq_true'] at hp'
        have hkey : p.key = inFeaturesKey := by simpa using hi
        have hget : (levelOpts g [.s t] v).get p.key = v := by rw [hkey]; exact levelOpts_get_in g _ v
        apply propHere_found
        · rw [hget]; exact hnn
        · rw [hget]; exact hgood
        · simp [hp'.2]
        · simp [strictOk, hp'.1]
        · rw [hget]; exact hne
      · simp only [hi, Bool.false_eq_true, if_false] at hp'
        have habs : (levelOpts g [.s t] v).get p.key = .none :=
          levelOpts_get_absent g _ v p.key (by rw [hK]; simpa using hk) (by simpa using hi)
        rw [propHere_absent _ _ _ habs, hp']
  · cases h

def winSizeId : Str := "TimeWindowFeatureGroup.window_size".toList

theorem vf_winsize (ops : List Str) : ∃ f, validatorFn winSizeId ops = some f ∧ ∀ i : Int, f (.int i) = decide (i > 0) :=
  ⟨_, rfl, fun _ => rfl⟩

/-- shape of the time-window PROPERTY_MAPPING -/
def windowOwn (g : Group) (fs us : List Str) : Bool :=
  match requiredKeys g with
  | [Kf, Kn, Ku] => Kf != Kn && Kf != Ku && Kn != Ku && g.props.all fun p =>
      if p.key == Kf then p.strict && p.validator.isEmpty && fs.all (p.values.contains ·)
      else if p.key == Kn then p.strict && p.validator == winSizeId
      else if p.key == Ku then p.strict && p.validator.isEmpty && us.all (p.values.contains ·)
      else if p.key == inFeaturesKey then !p.strict && p.validator.isEmpty
      else p.hasDefault
  | _ => false

theorem own_window (g : Group) (fs us : List Str) (h : windowOwn g fs us = true) (f u : Str) (n : Int) (hn : 0 < n)
    (hf : fs.contains f = true) (hu : us.contains u = true) (v x : PV) (hv : inValFeat v = some x) :
    ∀ p ∈ g.props, propHere (vfOf g) p (levelOpts g [.s f, .n n, .s u] v) = .ok (some true) := by
  obtain ⟨hgood, hne, hnn⟩ := inVal_good hv
  unfold windowOwn at h
  split at h
  · rename_i Kf Kn Ku hK
    simp only [Bool.and_eq_true, bne_iff_ne, List.all_eq_true] at h
    obtain ⟨⟨⟨h12, h13⟩, h23⟩, h⟩ := h
    have e12 : (Kn == Kf) = false := by simpa using fun e => h12 e.symm
    have e13 : (Ku == Kf) = false := by simpa using fun e => h13 e.symm
    have e23 : (Ku == Kn) = false := by simpa using fun e => h23 e.symm
    have gf : (levelOpts g [.s f, .n n, .s u] v).get Kf = .str f := by
      simp [levelOpts, Opts.get, lookup, optKV, hK, Param.toPV]
    have gn : (levelOpts g [.s f, .n n, .s u] v).get Kn = .int n := by
      simp [levelOpts, Opts.get, lookup, optKV, hK, Param.toPV, e12]
    have gu : (levelOpts g [.s f, .n n, .s u] v).get Ku = .str u := by
      simp [levelOpts, Opts.get, lookup, optKV, hK, Param.toPV, e13, e23]
    have hvnil : vfOf g [] = none := validatorFn_nil _
    intro p hp
    have hp' := h p hp
    by_cases k1 : (p.key == Kf) = true
    · simp only [k1, if_true, Bool.and_eq_true, List.all_eq_true] at hp'
      obtain ⟨⟨hst, hvl⟩, hvals⟩ := hp'
      have hkey : p.key = Kf := by simpa using k1
      have hvn : p.validator = [] := by cases hx : p.validator <;> simp_all
      apply propHere_found
      · rw [hkey, gf]; rfl
      · rw [hkey, gf]; rfl
      · simp [hvl]
      · have htv : f ∈ p.values := by simpa using hvals f (by simpa using hf)
        rw [hkey, gf, hvn]; simp [strictOk, hst, hvnil, elemsOf, convElem, htv]
      · rw [hkey, gf]; simp [elemsOf]
    · simp only [k1, Bool.false_eq_true, if_false] at hp'
      by_cases k2 : (p.key == Kn) = true
      · simp only [k2, if_true, Bool.and_eq_true, beq_iff_eq] at hp'
        have hkey : p.key = Kn := by simpa using k2
        obtain ⟨fw, hfw, hfwi⟩ := vf_winsize (supportedOpsOf g)
        have hvw : vfOf g p.validator = some fw := by rw [hp'.2]; exact hfw
        apply propHere_found
        · rw [hkey, gn]; rfl
        · rw [hkey, gn]; rfl
        · rw [hvw]; simp
        · rw [hkey, gn, hvw]; simp [strictOk, hp'.1, elemsOf, convElem, hfwi, hn]
        · rw [hkey, gn]; simp [elemsOf]
      · simp only [k2, Bool.false_eq_true, if_false] at hp'
        by_cases k3 : (p.key == Ku) = true
        · simp only [k3, if_true, Bool.and_eq_true, List.all_eq_true] at hp'
          obtain ⟨⟨hst, hvl⟩, hvals⟩ := hp'
          have hkey : p.key = Ku := by simpa using k3
          have hvn : p.validator = [] := by cases hx : p.validator <;> simp_all
          apply propHere_found
          · rw [hkey, gu]; rfl
          · rw [hkey, gu]; rfl
          · simp [hvl]
          · have htv : u ∈ p.values := by simpa using hvals u (by simpa using hu)
            rw [hkey, gu, hvn]; simp [strictOk, hst, hvnil, elemsOf, convElem, htv]
          · rw [hkey, gu]; simp [elemsOf]
        · simp only [k3, Bool.false_eq_true, if_false] at hp'
          by_cases hi : (p.key == inFeaturesKey) = true
          · simp only [hi, if_true, Bool.and_eq_true, Bool.not_eq_true'] at hp'
            have hkey : p.key = inFeaturesKey := by simpa using hi
            have hget : (levelOpts g [.s f, .n n, .s u] v).get p.key = v := by rw [hkey]; exact levelOpts_get_in g _ v
            apply propHere_found
            · rw [hget]; exact hnn
            · rw [hget]; exact hgood
            · simp [hp'.2]
            · simp [strictOk, hp'.1]
            · rw [hget]; exact hne
          · simp only [hi, Bool.false_eq_true, if_false] at hp'
            have habs : (levelOpts g [.s f, .n n, .s u] v).get p.key = .none :=
              levelOpts_get_absent g _ v p.key (by rw [hK]; simp; exact ⟨by simpa using k1, by simpa using k2, by simpa using k3⟩)
                (by simpa using hi)
            rw [propHere_absent _ _ _ habs, hp']
  · cases h

end Chain

namespace Chain

/-! ### inputs and parameters of an option-configured level -/

theorem isChained_false (ph : Str) (h : hasInfix sep2 ph = false) : isChained ph = false := by
  unfold isChained; rw [chainSep_eq]; exact h

theorem inputs_level_mixin (g : Group) (hk : g.inputImpl = mixinName) (hsep : g.inSep = [inputSep]) (ps : List Param) (v f : PV)
    (hv : inValFeat v = some f) (ph : Str) (hph : hasInfix sep2 ph = false) (hcount : validateCount g 1 = .ok ()) :
    inputFeatures g (levelOpts g ps v) ph = .ok ⟨[f], []⟩ := by
  unfold inputFeatures inputFeaturesMixin
  simp only [hk, beq_self_eq_true, if_true, hsep]
  rw [parseFeatureName_none chainSep g.toks ph (matchPattern_none g.toks ph hph),
    getInFeatures_inVal _ v f (levelOpts_get_in g ps v) hv]
  simp only [bind, Except.bind, pure, Except.pure, List.length_singleton, hcount]

theorem inputs_level_tw (g : Group) (hk : g.inputImpl = twName) (href : referenceTimeKey ∉ requiredKeys g) (ps : List Param) (v f : PV)
    (hv : inValFeat v = some f) (ph : Str) (hph : hasInfix sep2 ph = false) :
    ∃ ex, inputFeatures g (levelOpts g ps v) ph = .ok ⟨[f], ex⟩ := by
  have hne1 : (twName == mixinName) = false := by decide
  have hself : (twName == "TimeWindowFeatureGroup".toList) = true := by decide
  have hrt : referenceTimeColumn (levelOpts g ps v) = .ok referenceTimeKey := by
    unfold referenceTimeColumn
    rw [levelOpts_get_absent g ps v referenceTimeKey href (by decide)]
    rfl
  unfold inputFeatures inputFeaturesTimeWindow
  simp only [hk, hne1, hself, Bool.false_eq_true, if_false, if_true]
  rw [parseFeatureName_none chainSep g.toks ph (matchPattern_none g.toks ph hph),
    getInFeatures_inVal _ v f (levelOpts_get_in g ps v) hv]
  simp only [bind, Except.bind, pure, Except.pure, List.length_singleton, hrt]
  exact ⟨_, rfl⟩

theorem extractParams_window_eq (o : Opts) (name : Str) : extractParams gTimeWindowFeatureGroup o name =
    (match parseTimeWindowPrefix gTimeWindowFeatureGroup name with
     | .ok (f, n, u) => .ok [.s f, .n n, .s u]
     | .error _ => windowParamsFromOptions o) := by rfl

theorem parseTimeWindowPrefix_noSep (g : Group) (ph : Str) (h : hasInfix sep2 ph = false) :
    ∃ e, parseTimeWindowPrefix g ph = .error e := by
  unfold parseTimeWindowPrefix
  rw [rsplitOnce_none sep2 ph h]
  exact ⟨_, rfl⟩

theorem optStrParam_str (o : Opts) (key tag : String) (t : Str) (h : o.get key.toList = .str t) :
    optStrParam o key tag = .ok (.s t) := by
  simp [optStrParam, h, pyStr]

/-- the parameters `calculate_feature` extracts from an option-configured level are the ones given -/
theorem params_level (op : Op) (hok : op.ok = true) (hnt : op.gid ≠ 10) (hng : op.gid ≠ 5) (g : Group) (hg : groupAt op.gid = some g)
    (v : PV) (ph : Str) (hph : hasInfix sep2 ph = false) :
    extractParams g (levelOpts g op.params v) ph = .ok op.params := by
  obtain ⟨gid, ps⟩ := op
  have hnone : ∀ g' : Group, parseFeatureName chainSep [g'.toks] ph = .ok none :=
    fun g' => parseFeatureName_none chainSep g'.toks ph (matchPattern_none g'.toks ph hph)
  have hnc := isChained_false ph hph
  unfold Op.ok at hok
  match gid, hok, hg with
  | 0, hok, hg =>
    have hg' : groupAt 0 = some gAggregatedFeatureGroup := by decide
    have : g = gAggregatedFeatureGroup := by
      have h2 : groupAt 0 = some g := hg
      rw [hg'] at h2; cases h2; rfl
    subst this
    have h' := ok_params 0 gAggregatedFeatureGroup hg' ps hok
    rw [opParamsOk_aggr] at h'
    obtain ⟨t, rfl, _⟩ := single_of_match h'
    have hget := levelOpts_single_get gAggregatedFeatureGroup "aggregation_type".toList (by rfl) t v
    show extractParams gAggregatedFeatureGroup (levelOpts gAggregatedFeatureGroup [.s t] v) ph = .ok [.s t]
    rw [extractParams_aggr, hnone]
    simp only [bind, Except.bind, optStrParam_str _ _ _ t hget, pure, Except.pure]
  | 6, hok, hg =>
    have hg' : groupAt 6 = some gMissingValueFeatureGroup := by decide
    have : g = gMissingValueFeatureGroup := by
      have h2 : groupAt 6 = some g := hg
      rw [hg'] at h2; cases h2; rfl
    subst this
    have h' := ok_params 6 gMissingValueFeatureGroup hg' ps hok
    rw [opParamsOk_miss] at h'
    obtain ⟨t, rfl, ht⟩ := single_of_match h'
    have hget := levelOpts_single_get gMissingValueFeatureGroup "imputation_method".toList (by rfl) t v
    show extractParams gMissingValueFeatureGroup (levelOpts gMissingValueFeatureGroup [.s t] v) ph = .ok [.s t]
    rw [extractParams_miss, hnc]
    simp only [Bool.false_eq_true, if_false, hget, ht, if_true]
    rfl
  | 7, hok, hg =>
    have hg' : groupAt 7 = some gNodeCentralityFeatureGroup := by decide
    have : g = gNodeCentralityFeatureGroup := by
      have h2 : groupAt 7 = some g := hg
      rw [hg'] at h2; cases h2; rfl
    subst this
    have h' := ok_params 7 gNodeCentralityFeatureGroup hg' ps hok
    rw [opParamsOk_cent] at h'
    obtain ⟨t, rfl, _⟩ := single_of_match h'
    have hget := levelOpts_single_get gNodeCentralityFeatureGroup "centrality_type".toList (by rfl) t v
    show extractParams gNodeCentralityFeatureGroup (levelOpts gNodeCentralityFeatureGroup [.s t] v) ph = .ok [.s t]
    rw [extractParams_cent, hnone]
    simp only [bind, Except.bind, optStrParam_str _ _ _ t hget, pure, Except.pure]
  | 8, hok, hg =>
    have hg' : groupAt 8 = some gScalingFeatureGroup := by decide
    have : g = gScalingFeatureGroup := by
      have h2 : groupAt 8 = some g := hg
      rw [hg'] at h2; cases h2; rfl
    subst this
    have h' := ok_params 8 gScalingFeatureGroup hg' ps hok
    rw [opParamsOk_scal] at h'
    obtain ⟨t, rfl, ht⟩ := single_of_match h'
    have hget := levelOpts_single_get gScalingFeatureGroup "scaler_type".toList (by rfl) t v
    show extractParams gScalingFeatureGroup (levelOpts gScalingFeatureGroup [.s t] v) ph = .ok [.s t]
    rw [extractParams_scal]
    unfold typeFromNameOrOption
    rw [hnc]
    simp only [Bool.false_eq_true, if_false, hget, ht, if_true]
    rfl
  | 11, hok, hg =>
    have hg' : groupAt 11 = some gTimeWindowFeatureGroup := by decide
    have : g = gTimeWindowFeatureGroup := by
      have h2 : groupAt 11 = some g := hg
      rw [hg'] at h2; cases h2; rfl
    subst this
    have h' := ok_params 11 gTimeWindowFeatureGroup hg' ps hok
    rw [opParamsOk_window] at h'
    obtain ⟨f, n, u, rfl, _⟩ := triple_of_match h'
    obtain ⟨e, he⟩ := parseTimeWindowPrefix_noSep gTimeWindowFeatureGroup ph hph
    have gf : (levelOpts gTimeWindowFeatureGroup [.s f, .n n, .s u] v).get "window_function".toList = .str f := by rfl
    have gn : (levelOpts gTimeWindowFeatureGroup [.s f, .n n, .s u] v).get "window_size".toList = .int n := by rfl
    have gu : (levelOpts gTimeWindowFeatureGroup [.s f, .n n, .s u] v).get "time_unit".toList = .str u := by rfl
    show extractParams gTimeWindowFeatureGroup (levelOpts gTimeWindowFeatureGroup [.s f, .n n, .s u] v) ph = .ok [.s f, .n n, .s u]
    rw [extractParams_window_eq, he]
    simp only [windowParamsFromOptions, gf, gn, gu]
  | 1, hok, _ => exact absurd hok (ok_unmodelled 1 gClusteringFeatureGroup (by decide) (by decide) ps)
  | 2, hok, _ => exact absurd hok (ok_unmodelled 2 gDimensionalityReductionFeatureGroup (by decide) (by decide) ps)
  | 3, hok, _ => exact absurd hok (ok_unmodelled 3 gEncodingFeatureGroup (by decide) (by decide) ps)
  | 4, hok, _ => exact absurd hok (ok_unmodelled 4 gForecastingFeatureGroup (by decide) (by decide) ps)
  | 9, hok, _ => exact absurd hok (ok_unmodelled 9 gSklearnPipelineFeatureGroup (by decide) (by decide) ps)
  | 5, _, _ => exact absurd rfl hng
  | 10, _, _ => exact absurd rfl hnt
  | n + 12, hok, _ => simp [groupAt_ge n] at hok

end Chain

namespace Chain

theorem own_aggr : singleOwn gAggregatedFeatureGroup (vocabOf gAggregatedFeatureGroup "AGGREGATION_TYPES") = true := by decide
theorem own_miss : singleOwn gMissingValueFeatureGroup (vocabOf gMissingValueFeatureGroup "IMPUTATION_METHODS") = true := by decide
theorem own_cent : singleOwn gNodeCentralityFeatureGroup (vocabOf gNodeCentralityFeatureGroup "CENTRALITY_TYPES") = true := by decide
theorem own_scal : singleOwn gScalingFeatureGroup (vocabOf gScalingFeatureGroup "SUPPORTED_SCALERS") = true := by decide
theorem own_win : windowOwn gTimeWindowFeatureGroup (vocabOf gTimeWindowFeatureGroup "WINDOW_FUNCTIONS")
    (vocabOf gTimeWindowFeatureGroup "TIME_UNITS") = true := by decide

/-- the operation's own group validates the option dictionary of the level -/
theorem own_level (op : Op) (hok : op.ok = true) (hnt : op.gid ≠ 10) (hng : op.gid ≠ 5) (g : Group) (hg : groupAt op.gid = some g)
    (v f : PV) (hv : inValFeat v = some f) :
    ∀ p ∈ g.props, propHere (vfOf g) p (levelOpts g op.params v) = .ok (some true) := by
  obtain ⟨gid, ps⟩ := op
  unfold Op.ok at hok
  match gid, hok, hg with
  | 0, hok, hg =>
    have hg' : groupAt 0 = some gAggregatedFeatureGroup := by decide
    have : g = gAggregatedFeatureGroup := by
      have h2 : groupAt 0 = some g := hg
      rw [hg'] at h2; cases h2; rfl
    subst this
    have h' := ok_params 0 gAggregatedFeatureGroup hg' ps hok
    rw [opParamsOk_aggr] at h'
    obtain ⟨t, rfl, ht⟩ := single_of_match h'
    exact own_single _ _ own_aggr t ht v f hv
  | 6, hok, hg =>
    have hg' : groupAt 6 = some gMissingValueFeatureGroup := by decide
    have : g = gMissingValueFeatureGroup := by
      have h2 : groupAt 6 = some g := hg
      rw [hg'] at h2; cases h2; rfl
    subst this
    have h' := ok_params 6 gMissingValueFeatureGroup hg' ps hok
    rw [opParamsOk_miss] at h'
    obtain ⟨t, rfl, ht⟩ := single_of_match h'
    exact own_single _ _ own_miss t ht v f hv
  | 7, hok, hg =>
    have hg' : groupAt 7 = some gNodeCentralityFeatureGroup := by decide
    have : g = gNodeCentralityFeatureGroup := by
      have h2 : groupAt 7 = some g := hg
      rw [hg'] at h2; cases h2; rfl
    subst this
    have h' := ok_params 7 gNodeCentralityFeatureGroup hg' ps hok
    rw [opParamsOk_cent] at h'
    obtain ⟨t, rfl, ht⟩ := single_of_match h'
    exact own_single _ _ own_cent t ht v f hv
  | 8, hok, hg =>
    have hg' : groupAt 8 = some gScalingFeatureGroup := by decide
    have : g = gScalingFeatureGroup := by
      have h2 : groupAt 8 = some g := hg
      rw [hg'] at h2; cases h2; rfl
    subst this
    have h' := ok_params 8 gScalingFeatureGroup hg' ps hok
    rw [opParamsOk_scal] at h'
    obtain ⟨t, rfl, ht⟩ := single_of_match h'
    exact own_single _ _ own_scal t ht v f hv
  | 11, hok, hg =>
    have hg' : groupAt 11 = some gTimeWindowFeatureGroup := by decide
    have : g = gTimeWindowFeatureGroup := by
      have h2 : groupAt 11 = some g := hg
      rw [hg'] at h2; cases h2; rfl
    subst this
    have h' := ok_params 11 gTimeWindowFeatureGroup hg' ps hok
    rw [opParamsOk_window] at h'
    obtain ⟨f', n, u, rfl, hc⟩ := triple_of_match h'
    simp only [Bool.and_eq_true, decide_eq_true_eq] at hc
    exact own_window _ _ _ own_win f' u n hc.1.2 hc.1.1 hc.2 v f hv
  | 1, hok, _ => exact absurd hok (ok_unmodelled 1 gClusteringFeatureGroup (by decide) (by decide) ps)
  | 2, hok, _ => exact absurd hok (ok_unmodelled 2 gDimensionalityReductionFeatureGroup (by decide) (by decide) ps)
  | 3, hok, _ => exact absurd hok (ok_unmodelled 3 gEncodingFeatureGroup (by decide) (by decide) ps)
  | 4, hok, _ => exact absurd hok (ok_unmodelled 4 gForecastingFeatureGroup (by decide) (by decide) ps)
  | 9, hok, _ => exact absurd hok (ok_unmodelled 9 gSklearnPipelineFeatureGroup (by decide) (by decide) ps)
  | 5, _, _ => exact absurd rfl hng
  | 10, _, _ => exact absurd rfl hnt
  | n + 12, hok, _ => simp [groupAt_ge n] at hok

/-- time-window style groups do not use `reference_time` as a required key -/
def refTimeOk : Bool := modelledGroups.all fun g => g.inputImpl != twName || !(requiredKeys g).contains referenceTimeKey
theorem refTimeOk_true : refTimeOk = true := by decide

/-- **one option-configured level** resolves to the operation's group, its parameters and the denoted input -/
theorem resolveStep_level (op : Op) (hok : op.ok = true) (hnt : op.gid ≠ 10) (hng : op.gid ≠ 5) (har : op.arityOk 1 = true)
    (v f : PV) (hv : inValFeat v = some f) (ph : Str) (hph : hasInfix sep2 ph = false) :
    ∃ g ex, groupAt op.gid = some g ∧
      resolveStep ph (levelOpts g op.params v) = .ok (some ⟨op.gid, op.params, ⟨[f], ex⟩⟩) := by
  obtain ⟨g, hg, hmod, _⟩ := sufFacts_of_ok op hok
  have hgm : g ∈ modelledGroups := mem_modelledGroups (groupAt_mem hg) hmod
  obtain ⟨hgood, _, _⟩ := inVal_good hv
  have hmg : matchingGroups ph (levelOpts g op.params v) = .ok [op.gid] := by
    rw [matchingGroups_eq _ _ (fun g' => g'.name == g.name)]
    · have hi := indexOk_true
      simp only [indexOk, List.all_eq_true, List.mem_range] at hi
      have := hi op.gid (groupAt_lt hg)
      simp only [hg, hmod, Bool.not_true, Bool.false_or, beq_iff_eq] at this
      rw [this]
    · intro g' hg'mem hg'mod
      by_cases hsame : g' = g
      · subst hsame
        have : (g'.name == g'.name) = true := by simp
        rw [this, matchCriteria_no_pattern g' hmod ph _ (matchPattern_none g'.toks ph hph),
          validateProps_all_true _ _ _ (own_level op hok hnt hng g' hg v f hv)]
      · have hne := namesUnique g' g hg'mem (groupAt_mem hg) hsame
        have hne' : (g.name == g'.name) = false := by
          cases h : g.name == g'.name with
          | false => rfl
          | true =>
            have e1 : g.name = g'.name := by simpa using h
            have : (g'.name == g.name) = true := by simp [e1]
            rw [this] at hne; cases hne
        rw [hne]
        exact other_group_no_match g g' hgm (mem_modelledGroups hg'mem hg'mod) hne' op.params v hgood ph hph
  have hin : ∃ ex, inputFeatures g (levelOpts g op.params v) ph = .ok ⟨[f], ex⟩ := by
    rcases kinds hgm with ⟨hk, hsep⟩ | ⟨hk, _, _⟩ | ⟨_, hmin, _⟩
    · exact ⟨[], inputs_level_mixin g hk hsep op.params v f hv ph hph (validateCount_of_arity g 1 (arityOk_elim hg har))⟩
    · have hr := refTimeOk_true
      simp only [refTimeOk, List.all_eq_true] at hr
      have := hr g hgm
      simp only [hk, bne_self_eq_false, Bool.false_or, Bool.not_eq_true'] at this
      have href : referenceTimeKey ∉ requiredKeys g := by
        intro hmem
        have : (requiredKeys g).contains referenceTimeKey = true := by simpa using hmem
        simp_all
      exact inputs_level_tw g hk href op.params v f hv ph hph
    · have := arityOk_elim hg har
      simp [hmin] at this
  obtain ⟨ex, hin⟩ := hin
  refine ⟨g, ex, hg, ?_⟩
  simp only [resolveStep, hmg, bind, Except.bind, hg, hin, params_level op hok hnt hng g hg v ph hph, pure, Except.pure]

end Chain
