import MlodaVerif.Lemmas.ChainOpts
/-! One option-configured level: `Feature(placeholder, Options(context={<parameters>, in_features: v}))` is claimed by
exactly the group of the operation, yields the denoted input feature and the same parameters. -/
open Gen.Chain

namespace Chain

/-! ### lookups in the option dictionary of a level -/

theorem lookup_none_of_not_mem (k : Str) (kvs : List (Str × PV)) (h : ∀ kv ∈ kvs, kv.1 ≠ k) : lookup k kvs = none := by
  induction kvs with
  | nil => rfl
  | cons kv r ih =>
    obtain ⟨k', v'⟩ := kv
    have hne : (k == k') = false := by
      have := h (k', v') (by simp)
      simpa using fun heq => this heq.symm
    simp [lookup, hne, ih (fun x hx => h x (by simp [hx]))]

theorem lookup_append_last (k : Str) (kvs : List (Str × PV)) (v : PV) (h : lookup k kvs = none) :
    lookup k (kvs ++ [(k, v)]) = some v := by
  induction kvs with
  | nil => simp [lookup]
  | cons kv r ih =>
    obtain ⟨k', v'⟩ := kv
    simp only [lookup, List.cons_append] at h ⊢
    split at h
    · simp at h
    · rename_i hne; simp [hne, ih h]

theorem lookup_append_other (k k0 : Str) (kvs : List (Str × PV)) (v : PV) (hne : (k == k0) = false) :
    lookup k (kvs ++ [(k0, v)]) = lookup k kvs := by
  induction kvs with
  | nil => simp [lookup, hne]
  | cons kv r ih =>
    obtain ⟨k', v'⟩ := kv
    simp only [lookup, List.cons_append]
    split <;> simp_all

theorem zip_keys_subset (keys : List Str) (vals : List PV) : ∀ kv ∈ keys.zip vals, kv.1 ∈ keys := by
  intro kv hkv
  exact (List.of_mem_zip hkv).1

theorem requiredKeys_ne_in (g : Group) : ∀ k ∈ requiredKeys g, k ≠ inFeaturesKey := by
  intro k hk
  simp only [requiredKeys, List.mem_map, List.mem_filter, Bool.and_eq_true, Bool.not_eq_true', bne_iff_ne] at hk
  obtain ⟨p, ⟨_, _, hp⟩, rfl⟩ := hk
  exact hp

def levelOpts (g : Group) (ps : List Param) (v : PV) : Opts := ⟨[], optKV g ps ++ [(inFeaturesKey, v)]⟩

theorem levelOpts_get_in (g : Group) (ps : List Param) (v : PV) : (levelOpts g ps v).get inFeaturesKey = v := by
  have h : lookup inFeaturesKey (optKV g ps) = none :=
    lookup_none_of_not_mem _ _ (fun kv hkv => requiredKeys_ne_in g kv.1 (zip_keys_subset _ _ kv hkv))
  simp [levelOpts, Opts.get, lookup, lookup_append_last _ _ _ h]

theorem levelOpts_get_absent (g : Group) (ps : List Param) (v : PV) (k : Str) (hk : k ∉ requiredKeys g) (hne : k ≠ inFeaturesKey) :
    (levelOpts g ps v).get k = .none := by
  have h1 : lookup k (optKV g ps) = none :=
    lookup_none_of_not_mem _ _ (fun kv hkv heq => hk (heq ▸ zip_keys_subset _ _ kv hkv))
  have hne' : (k == inFeaturesKey) = false := by simpa using hne
  simp [levelOpts, Opts.get, lookup, lookup_append_other _ _ _ _ hne', h1]

/-! ### `propHere` in its three outcomes -/

theorem propHere_absent (vf : Str → Option (PV → Bool)) (p : PropSpec) (o : Opts) (h : o.get p.key = .none) :
    propHere vf p o = .ok (some p.hasDefault) := by
  simp [propHere, h, pure, Except.pure]

theorem propHere_present (vf : Str → Option (PV → Bool)) (p : PropSpec) (o : Opts) (hnn : (o.get p.key).isNone = false) :
    propHere vf p o = (do
      if !p.validator.isEmpty && (vf p.validator).isNone then throw (Err.unmodelled "validator")
      let (ok, coll) ← processFound p (vf p.validator) (o.get p.key)
      pure (if ok then some (!coll.isEmpty || p.hasDefault) else none)) := by
  unfold propHere
  cases hv : o.get p.key <;> simp_all [PV.isNone]

theorem propHere_found (vf : Str → Option (PV → Bool)) (p : PropSpec) (o : Opts) (hnn : (o.get p.key).isNone = false)
    (hgood : goodVal (o.get p.key) = true) (hvf : (!p.validator.isEmpty && (vf p.validator).isNone) = false)
    (hstrict : strictOk p (vf p.validator) ((elemsOf (o.get p.key)).map convElem) = true)
    (hne : (elemsOf (o.get p.key)).map convElem ≠ []) : propHere vf p o = .ok (some true) := by
  rw [propHere_present vf p o hnn, processFound_good p _ _ hgood]
  have hd := dedupe_ne_nil _ hne
  have hde : (dedupe ((elemsOf (o.get p.key)).map convElem)).isEmpty = false := by
    cases hx : dedupe ((elemsOf (o.get p.key)).map convElem) with
    | nil => exact absurd hx hd
    | cons _ _ => rfl
  simp [hvf, hstrict, hde, bind, Except.bind, pure, Except.pure]

theorem propHere_total (vf : Str → Option (PV → Bool)) (p : PropSpec) (o : Opts)
    (hgood : o.get p.key = .none ∨ goodVal (o.get p.key) = true)
    (hvf : (!p.validator.isEmpty && (vf p.validator).isNone) = false) : ∃ r, propHere vf p o = .ok r := by
  rcases hgood with h | h
  · exact ⟨_, propHere_absent vf p o h⟩
  · have hnn : (o.get p.key).isNone = false := by
      cases hv : o.get p.key <;> simp_all [PV.isNone, goodVal, simpleElem]
    rw [propHere_present vf p o hnn, processFound_good p _ _ h]
    simp only [hvf, Bool.false_eq_true, if_false, bind, Except.bind, pure, Except.pure]
    exact ⟨_, rfl⟩

/-! ### the values of a level are "good" -/

theorem goodVal_toPV (p : Param) : goodVal p.toPV = true := by cases p <;> rfl

theorem levelOpts_good (g : Group) (ps : List Param) (v : PV) (hv : goodVal v = true) (k : Str) :
    (levelOpts g ps v).get k = .none ∨ goodVal ((levelOpts g ps v).get k) = true := by
  simp only [levelOpts, Opts.get, lookup]
  cases hl : lookup k (optKV g ps ++ [(inFeaturesKey, v)]) with
  | none => left; rfl
  | some w =>
    right
    simp only [Option.getD]
    -- every value in the list is a parameter value or `v`
    have : ∀ (kvs : List (Str × PV)), (∀ kv ∈ kvs, goodVal kv.2 = true) → lookup k kvs = some w → goodVal w = true := by
      intro kvs hall
      induction kvs with
      | nil => simp [lookup]
      | cons kv r ih =>
        obtain ⟨k', v'⟩ := kv
        simp only [lookup]
        split
        · intro h; cases h; exact hall (k', w) (by simp)
        · exact ih (fun x hx => hall x (by simp [hx]))
    apply this _ _ hl
    intro kv hkv
    rcases List.mem_append.mp hkv with h | h
    · obtain ⟨_, h2⟩ := List.of_mem_zip h
      obtain ⟨p, _, hp⟩ := List.mem_map.mp h2
      rw [← hp]; exact goodVal_toPV p
    · simp at h; subst h; exact hv

theorem inVal_good {v f : PV} (h : inValFeat v = some f) :
    goodVal v = true ∧ (elemsOf v).map convElem ≠ [] ∧ v.isNone = false := by
  unfold inValFeat at h
  split at h
  · split at h
    · simp [goodVal, simpleElem, elemsOf, PV.isNone, convElem]
    · cases h
  · simp [goodVal, simpleElem, elemsOf, PV.isNone, convElem]
  · simp [goodVal, simpleElem, elemsOf, PV.isNone, convElem]
  · simp [goodVal, simpleElem, elemsOf, PV.isNone, convElem]
  · cases h

/-- `Options.get_in_features` on the str / frozenset / Feature spellings of one input -/
theorem getInFeatures_inVal (o : Opts) (v f : PV) (hget : o.get inFeaturesKey = v) (h : inValFeat v = some f) :
    getInFeatures o = .ok [f] := by
  unfold getInFeatures
  rw [hget]
  unfold inValFeat at h
  split at h
  · rename_i s
    split at h
    · rename_i hc
      simp only [Bool.and_eq_true, Bool.not_eq_true'] at hc
      cases h
      have hs : s.isEmpty = false := hc.1
      have hnc : ',' ∉ s := by
        intro hmem
        have : s.contains ',' = true := by simpa using hmem
        rw [this] at hc; cases hc.2
      simp [PV.truthy, hs, hnc]
    · cases h
  · cases h; simp [PV.truthy]
  · cases h; simp [PV.truthy, toFeat, List.mapM_cons, bind, Except.bind, pure, Except.pure, Except.map, dedupe, mkFeat]
  · cases h; simp [PV.truthy, toFeat, List.mapM_cons, bind, Except.bind, pure, Except.pure, Except.map, dedupe]
  · cases h

/-! ### other groups do not claim the level -/

/-- every other modelled group has a required property whose key the level's options do not contain -/
def pairsOk : Bool :=
  modelledGroups.all fun g => modelledGroups.all fun g' =>
    g.name == g'.name || g'.props.any fun p => !p.hasDefault && !(requiredKeys g ++ [inFeaturesKey]).contains p.key

theorem pairsOk_true : pairsOk = true := by decide

theorem validatorFn_isSome_indep (id : Str) (ops : List Str) : (validatorFn id ops).isSome = (validatorFn id []).isSome := by
  unfold validatorFn
  split
  · rfl
  · split
    · rfl
    · split
      · rfl
      · rfl

theorem validators_modelled {g : Group} (hm : modelled g = true) {p : PropSpec} (hp : p ∈ g.props) :
    (!p.validator.isEmpty && (vfOf g p.validator).isNone) = false := by
  simp only [modelled, Bool.and_eq_true, List.all_eq_true] at hm
  have := hm.1.2 p hp
  simp only [Bool.or_eq_true] at this
  rcases this with h | h
  · simp [h]
  · have h2 : (vfOf g p.validator).isSome = true := by
      unfold vfOf
      rw [validatorFn_isSome_indep]; exact h
    cases hv : (vfOf g p.validator) with
    | none => rw [hv] at h2; cases h2
    | some _ => simp

theorem other_group_no_match (g g' : Group) (hg : g ∈ modelledGroups) (hg' : g' ∈ modelledGroups) (hne : (g.name == g'.name) = false)
    (ps : List Param) (v : PV) (hv : goodVal v = true) (name : Str) (hname : hasInfix sep2 name = false) :
    matchCriteria g' name (levelOpts g ps v) = .ok false := by
  have hmod' : modelled g' = true := by simp [modelledGroups] at hg'; exact hg'.2
  rw [matchCriteria_no_pattern g' hmod' name _ (matchPattern_none g'.toks name hname)]
  have hp := pairsOk_true
  simp only [pairsOk, List.all_eq_true] at hp
  have := hp g hg g' hg'
  simp only [hne, Bool.false_or, List.any_eq_true, Bool.and_eq_true, Bool.not_eq_true'] at this
  obtain ⟨p, hpm, hnd, hnk⟩ := this
  have hnk' : p.key ∉ requiredKeys g ++ [inFeaturesKey] := by
    intro hmem
    have : (requiredKeys g ++ [inFeaturesKey]).contains p.key = true := by simpa using hmem
    rw [this] at hnk; cases hnk
  have habs : (levelOpts g ps v).get p.key = .none :=
    levelOpts_get_absent g ps v p.key (fun h => hnk' (by simp [h])) (fun h => hnk' (by simp [h]))
  obtain ⟨r, hr, hrne⟩ := validateProps_missing (vfOf g') g'.props (levelOpts g ps v)
    (fun q hq => propHere_total _ q _ (levelOpts_good g ps v hv q.key) (validators_modelled hmod' hq))
    ⟨p, hpm, by rw [propHere_absent _ _ _ habs, hnd]⟩
  rw [hr]
  cases r with
  | none => rfl
  | some b => cases b <;> simp_all

end Chain

namespace Chain

/-! ### the own group claims the level -/

theorem validatorFn_nil (ops : List Str) : validatorFn [] ops = none := by rfl

/-- shape of a single-parameter group's PROPERTY_MAPPING: the required key is strictly checked by membership in a value
list containing the vocabulary, `in_features` is not strict, everything else has a default -/
def singleOwn (g : Group) (vocab : List Str) : Bool :=
  match requiredKeys g with
  | [K] => g.props.all fun p =>
      if p.key == K then p.strict && p.validator.isEmpty && vocab.all (p.values.contains ·)
      else if p.key == inFeaturesKey then !p.strict && p.validator.isEmpty
      else p.hasDefault
  | _ => false

theorem levelOpts_single_get (g : Group) (K : Str) (hK : requiredKeys g = [K]) (t : Str) (v : PV) :
    (levelOpts g [.s t] v).get K = .str t := by
  simp [levelOpts, Opts.get, lookup, optKV, hK, Param.toPV]

theorem own_single (g : Group) (vocab : List Str) (h : singleOwn g vocab = true) (t : Str) (ht : vocab.contains t = true)
    (v f : PV) (hv : inValFeat v = some f) :
    ∀ p ∈ g.props, propHere (vfOf g) p (levelOpts g [.s t] v) = .ok (some true) := by
  obtain ⟨hgood, hne, hnn⟩ := inVal_good hv
  unfold singleOwn at h
  split at h
  · rename_i K hK
    simp only [List.all_eq_true] at h
    intro p hp
    have hp' := h p hp
    by_cases hk : (p.key == K) = true
    · simp only [hk, if_true, Bool.and_eq_true, List.all_eq_true] at hp'
      obtain ⟨⟨hst, hvl⟩, hvals⟩ := hp'
      have hkey : p.key = K := by simpa using hk
      have hget : (levelOpts g [.s t] v).get p.key = .str t := by rw [hkey]; exact levelOpts_single_get g K hK t v
      have hvn : p.validator = [] := by cases hx : p.validator <;> simp_all
      apply propHere_found
      · rw [hget]; rfl
      · rw [hget]; rfl
      · simp [hvl]
      · rw [hget, hvn]
        have : vfOf g [] = none := validatorFn_nil _
        have htv : t ∈ p.values := by simpa using hvals t (by simpa using ht)
        simp [strictOk, hst, this, elemsOf, convElem, htv]
      · rw [hget]; simp [elemsOf]
    · simp only [hk, Bool.false_eq_true, if_false] at hp'
      by_cases hi : (p.key == inFeaturesKey) = true
      · simp only [hi, if_true, Bool.and_eq_true, Bool.not_eq_true'] at hp'
        have hkey : p.key = inFeaturesKey := by simpa using hi
        have hget : (levelOpts g [.s t] v).get p.key = v := by rw [hkey]; exact levelOpts_get_in g _ v
        apply propHere_found
        · rw [hget]; exact hnn
        · rw [hget]; exact hgood
        · simp [hp'.2]
        · simp [strictOk, hp'.1]
        · rw [hget]; exact hne
      · simp only [hi, Bool.false_eq_true, if_false] at hp'
        have habs : (levelOpts g [.s t] v).get p.key = .none :=
          levelOpts_get_absent g _ v p.key (by rw [hK]; simpa using hk) (by simpa using hi)
        rw [propHere_absent _ _ _ habs, hp']
  · cases h

def winSizeId : Str := "TimeWindowFeatureGroup.window_size".toList

theorem vf_winsize (ops : List Str) : ∃ f, validatorFn winSizeId ops = some f ∧ ∀ i : Int, f (.int i) = decide (i > 0) :=
  ⟨_, rfl, fun _ => rfl⟩

/-- shape of the time-window PROPERTY_MAPPING -/
def windowOwn (g : Group) (fs us : List Str) : Bool :=
  match requiredKeys g with
  | [Kf, Kn, Ku] => Kf != Kn && Kf != Ku && Kn != Ku && g.props.all fun p =>
      if p.key == Kf then p.strict && p.validator.isEmpty && fs.all (p.values.contains ·)
      else if p.key == Kn then p.strict && p.validator == winSizeId
      else if p.key == Ku then p.strict && p.validator.isEmpty && us.all (p.values.contains ·)
      else if p.key == inFeaturesKey then !p.strict && p.validator.isEmpty
      else p.hasDefault
  | _ => false

theorem own_window (g : Group) (fs us : List Str) (h : windowOwn g fs us = true) (f u : Str) (n : Int) (hn : 0 < n)
    (hf : fs.contains f = true) (hu : us.contains u = true) (v x : PV) (hv : inValFeat v = some x) :
    ∀ p ∈ g.props, propHere (vfOf g) p (levelOpts g [.s f, .n n, .s u] v) = .ok (some true) := by
  obtain ⟨hgood, hne, hnn⟩ := inVal_good hv
  unfold windowOwn at h
  split at h
  · rename_i Kf Kn Ku hK
    simp only [Bool.and_eq_true, bne_iff_ne, List.all_eq_true] at h
    obtain ⟨⟨⟨h12, h13⟩, h23⟩, h⟩ := h
    have e12 : (Kn == Kf) = false := by simpa using fun e => h12 e.symm
    have e13 : (Ku == Kf) = false := by simpa using fun e => h13 e.symm
    have e23 : (Ku == Kn) = false := by simpa using fun e => h23 e.symm
    have gf : (levelOpts g [.s f, .n n, .s u] v).get Kf = .str f := by
      simp [levelOpts, Opts.get, lookup, optKV, hK, Param.toPV]
    have gn : (levelOpts g [.s f, .n n, .s u] v).get Kn = .int n := by
      simp [levelOpts, Opts.get, lookup, optKV, hK, Param.toPV, e12]
    have gu : (levelOpts g [.s f, .n n, .s u] v).get Ku = .str u := by
      simp [levelOpts, Opts.get, lookup, optKV, hK, Param.toPV, e13, e23]
    have hvnil : vfOf g [] = none := validatorFn_nil _
    intro p hp
    have hp' := h p hp
    by_cases k1 : (p.key == Kf) = true
    · simp only [k1, if_true, Bool.and_eq_true, List.all_eq_true] at hp'
      obtain ⟨⟨hst, hvl⟩, hvals⟩ := hp'
      have hkey : p.key = Kf := by simpa using k1
      have hvn : p.validator = [] := by cases hx : p.validator <;> simp_all
      apply propHere_found
      · rw [hkey, gf]; rfl
      · rw [hkey, gf]; rfl
      · simp [hvl]
      · have htv : f ∈ p.values := by simpa using hvals f (by simpa using hf)
        rw [hkey, gf, hvn]; simp [strictOk, hst, hvnil, elemsOf, convElem, htv]
      · rw [hkey, gf]; simp [elemsOf]
    · simp only [k1, Bool.false_eq_true, if_false] at hp'
      by_cases k2 : (p.key == Kn) = true
      · simp only [k2, if_true, Bool.and_eq_true, beq_iff_eq] at hp'
        have hkey : p.key = Kn := by simpa using k2
        obtain ⟨fw, hfw, hfwi⟩ := vf_winsize (supportedOpsOf g)
        have hvw : vfOf g p.validator = some fw := by rw [hp'.2]; exact hfw
        apply propHere_found
        · rw [hkey, gn]; rfl
        · rw [hkey, gn]; rfl
        · rw [hvw]; simp
        · rw [hkey, gn, hvw]; simp [strictOk, hp'.1, elemsOf, convElem, hfwi, hn]
        · rw [hkey, gn]; simp [elemsOf]
      · simp only [k2, Bool.false_eq_true, if_false] at hp'
        by_cases k3 : (p.key == Ku) = true
        · simp only [k3, if_true, Bool.and_eq_true, List.all_eq_true] at hp'
          obtain ⟨⟨hst, hvl⟩, hvals⟩ := hp'
          have hkey : p.key = Ku := by simpa using k3
          have hvn : p.validator = [] := by cases hx : p.validator <;> simp_all
          apply propHere_found
          · rw [hkey, gu]; rfl
          · rw [hkey, gu]; rfl
          · simp [hvl]
          · have htv : u ∈ p.values := by simpa using hvals u (by simpa using hu)
            rw [hkey, gu, hvn]; simp [strictOk, hst, hvnil, elemsOf, convElem, htv]
          · rw [hkey, gu]; simp [elemsOf]
        · simp only [k3, Bool.false_eq_true, if_false] at hp'
          by_cases hi : (p.key == inFeaturesKey) = true
          · simp only [hi, if_true, Bool.and_eq_true, Bool.not_eq_true'] at hp'
            have hkey : p.key = inFeaturesKey := by simpa using hi
            have hget : (levelOpts g [.s f, .n n, .s u] v).get p.key = v := by rw [hkey]; exact levelOpts_get_in g _ v
            apply propHere_found
            · rw [hget]; exact hnn
            · rw [hget]; exact hgood
            · simp [hp'.2]
            · simp [strictOk, hp'.1]
            · rw [hget]; exact hne
          · simp only [hi, Bool.false_eq_true, if_false] at hp'
            have habs : (levelOpts g [.s f, .n n, .s u] v).get p.key = .none :=
              levelOpts_get_absent g _ v p.key (by rw [hK]; simp; exact ⟨by simpa using k1, by simpa using k2, by simpa using k3⟩)
                (by simpa using hi)
            rw [propHere_absent _ _ _ habs, hp']
  · cases h

end Chain
