import MlodaVerif.Lemmas.GraphDfs
import MlodaVerif.Lemmas.GraphParents
/-! The graph as built by `add_node` / `add_edge` (`BuildGraph`) and as prepared by the engine
(`iterate_nodes_and_edges`, then the three `set_*` passes). -/
namespace Graph

/-- structural invariant of every `Graph` object: dict keys are unique (and so are the node keys) -/
structure WF (g : G) : Prop where
  adjKeys : (dkeys g.adj).Nodup
  nodes : g.nodes.Nodup

/-- every endpoint of an edge was added as a node (what `BuildGraph` guarantees) -/
structure Closed (g : G) : Prop where
  keys : ∀ k ∈ dkeys g.adj, k ∈ g.nodes
  kids : ∀ p c, c ∈ dget g.adj p → c ∈ g.nodes

/-- none of the derived dicts has been filled yet -/
structure Fresh (g : G) : Prop where
  pbd : g.pbd = []
  p2c : g.p2c = []
  cwr : g.cwr = []

/-! ### building -/

theorem mem_dget_dappend {d : Dict} {k x k' y : Nat} : y ∈ dget (dappend d k x) k' ↔ y ∈ dget d k' ∨ (k = k' ∧ y = x) := by
  unfold dappend
  rw [dget_dset]
  split
  · rename_i h; subst h; simp
  · rename_i h; simp [h]

theorem wf_applyOp {g : G} (h : WF g) (o : Op) : WF (applyOp g o) := by
  cases o with
  | node n => exact ⟨h.adjKeys, nodup_sadd h.nodes n⟩
  | edge p c => exact ⟨nodup_dkeys_dset h.adjKeys _ _, h.nodes⟩

theorem fresh_applyOp {g : G} (h : Fresh g) (o : Op) : Fresh (applyOp g o) := by
  cases o <;> exact ⟨h.pbd, h.p2c, h.cwr⟩

theorem foldl_applyOp_inv (P : G → Prop) (hstep : ∀ g o, P g → P (applyOp g o)) :
    ∀ (ops : List Op) (g : G), P g → P (ops.foldl applyOp g) := by
  intro ops
  induction ops with
  | nil => intro g h; exact h
  | cons o ops ih => intro g h; exact ih _ (hstep g o h)

theorem wf_build (ops : List Op) : WF (build ops) :=
  foldl_applyOp_inv WF (fun _ o h => wf_applyOp h o) ops {} ⟨by simp [dkeys], by simp⟩

theorem fresh_build (ops : List Op) : Fresh (build ops) :=
  foldl_applyOp_inv Fresh (fun _ o h => fresh_applyOp h o) ops {} ⟨rfl, rfl, rfl⟩

theorem mem_adj_foldl (ops : List Op) : ∀ (g : G) (p c : Nat),
    c ∈ dget (ops.foldl applyOp g).adj p ↔ c ∈ dget g.adj p ∨ Op.edge p c ∈ ops := by
  induction ops with
  | nil => intro g p c; simp
  | cons o ops ih =>
    intro g p c
    simp only [List.foldl_cons, ih, List.mem_cons]
    cases o with
    | node n => simp [applyOp, addNode]
    | edge p' c' =>
      simp only [applyOp, addEdge, mem_dget_dappend, Op.edge.injEq]
      constructor
      · rintro ((h | ⟨h1, h2⟩) | h)
        · exact Or.inl h
        · exact Or.inr (Or.inl ⟨h1.symm, h2⟩)
        · exact Or.inr (Or.inr h)
      · rintro (h | ⟨h1, h2⟩ | h)
        · exact Or.inl (Or.inl h)
        · exact Or.inl (Or.inr ⟨h1.symm, h2⟩)
        · exact Or.inr h

theorem mem_nodes_foldl (ops : List Op) : ∀ (g : G) (n : Nat),
    n ∈ (ops.foldl applyOp g).nodes ↔ n ∈ g.nodes ∨ Op.node n ∈ ops := by
  induction ops with
  | nil => intro g n; simp
  | cons o ops ih =>
    intro g n
    simp only [List.foldl_cons, ih, List.mem_cons]
    cases o with
    | node n' =>
      simp only [applyOp, addNode, mem_sadd, Op.node.injEq]
      constructor
      · rintro ((h | h) | h)
        · exact Or.inl h
        · exact Or.inr (Or.inl h)
        · exact Or.inr (Or.inr h)
      · rintro (h | h | h)
        · exact Or.inl (Or.inl h)
        · exact Or.inl (Or.inr h)
        · exact Or.inr h
    | edge p' c' => simp [applyOp, addEdge]

theorem mem_adjkeys_foldl (ops : List Op) : ∀ (g : G) (k : Nat),
    k ∈ dkeys (ops.foldl applyOp g).adj ↔ k ∈ dkeys g.adj ∨ ∃ c, Op.edge k c ∈ ops := by
  induction ops with
  | nil => intro g k; simp
  | cons o ops ih =>
    intro g k
    simp only [List.foldl_cons, ih, List.mem_cons]
    cases o with
    | node n => simp [applyOp, addNode]
    | edge p' c' =>
      simp only [applyOp, addEdge, dappend, mem_dkeys_dset, Op.edge.injEq]
      constructor
      · rintro ((h | h) | ⟨c, h⟩)
        · exact Or.inl h
        · exact Or.inr ⟨c', Or.inl ⟨h, rfl⟩⟩
        · exact Or.inr ⟨c, Or.inr h⟩
      · rintro (h | ⟨c, ⟨h1, _⟩ | h⟩)
        · exact Or.inl (Or.inl h)
        · exact Or.inl (Or.inr h1)
        · exact Or.inr ⟨c, h⟩

/-- the edge relation of a built graph is the set of `add_edge` calls: it does not depend on their order -/
theorem mem_children_build (ops : List Op) (p c : Nat) : c ∈ children (build ops) p ↔ Op.edge p c ∈ ops := by
  unfold children build
  rw [mem_adj_foldl]
  simp [dget]

theorem mem_nodes_build (ops : List Op) (n : Nat) : n ∈ (build ops).nodes ↔ Op.node n ∈ ops := by
  unfold build
  rw [mem_nodes_foldl]
  simp

theorem closed_build (ops : List Op) (h : ∀ p c, Op.edge p c ∈ ops → Op.node p ∈ ops ∧ Op.node c ∈ ops) :
    Closed (build ops) := by
  constructor
  · intro k hk
    unfold build at hk
    rw [mem_adjkeys_foldl] at hk
    rcases hk with hk | ⟨c, hc⟩
    · simp [dkeys] at hk
    · exact (mem_nodes_build ops k).mpr (h k c hc).1
  · intro p c hc
    exact (mem_nodes_build ops c).mpr (h p c ((mem_children_build ops p c).mp hc)).2

theorem mem_flpOps_edge {flp : List (Nat × List Nat)} {p c : Nat} :
    Op.edge p c ∈ flpOps flp ↔ ∃ ps, (c, ps) ∈ flp ∧ p ∈ ps := by
  unfold flpOps
  simp only [List.mem_flatMap, List.mem_cons, reduceCtorEq, false_or, List.not_mem_nil, or_false, Op.edge.injEq]
  constructor
  · rintro ⟨⟨c', ps⟩, he, q, hq, h1, h2⟩
    simp only at h1 h2 hq
    subst h1; subst h2
    exact ⟨ps, he, hq⟩
  · rintro ⟨ps, he, hp⟩
    exact ⟨(c, ps), he, p, hp, rfl, rfl⟩

theorem mem_flpOps_node {flp : List (Nat × List Nat)} {n : Nat} :
    Op.node n ∈ flpOps flp ↔ ∃ e ∈ flp, n = e.1 ∨ n ∈ e.2 := by
  unfold flpOps
  simp only [List.mem_flatMap, List.mem_cons, Op.node.injEq, reduceCtorEq, List.not_mem_nil, or_false]
  constructor
  · rintro ⟨e, he, h | ⟨q, hq, h⟩⟩
    · exact ⟨e, he, Or.inl h⟩
    · exact ⟨e, he, Or.inr (h ▸ hq)⟩
  · rintro ⟨e, he, h | h⟩
    · exact ⟨e, he, Or.inl h⟩
    · exact ⟨e, he, Or.inr ⟨n, h, rfl⟩⟩

/-- `BuildGraph` adds both endpoints of every edge as nodes -/
theorem closed_buildGraph (flp : List (Nat × List Nat)) : Closed (buildGraph flp) := by
  apply closed_build
  intro p c h
  obtain ⟨ps, he, hp⟩ := mem_flpOps_edge.mp h
  exact ⟨mem_flpOps_node.mpr ⟨_, he, Or.inr hp⟩, mem_flpOps_node.mpr ⟨_, he, Or.inl rfl⟩⟩

/-! ### `iterate_nodes_and_edges` -/

structure Iterated (g g1 : G) : Prop where
  nodes : g1.nodes = g.nodes
  adjGet : ∀ k, dget g1.adj k = dget g.adj k
  adjKeys : ∀ k, k ∈ dkeys g1.adj ↔ k ∈ dkeys g.adj ∨ k ∈ g1.visited
  adjNodup : (dkeys g1.adj).Nodup
  pbd : g1.pbd = g.pbd
  p2c : g1.p2c = g.p2c
  cwr : g1.cwr = g.cwr
  roots : g1.roots = g.nodes.filter (fun n => iget (createInDegree g.adj) n == 0)
  rootsIff : ∀ r, r ∈ g1.roots ↔ r ∈ g.nodes ∧ ∀ p, r ∉ dget g.adj p
  queuePrefix : ∃ ex, g1.queue = g1.roots ++ ex
  queueNodup : g1.queue.Nodup
  queueIff : ∀ x, x ∈ g1.queue ↔ x ∈ g1.roots ∨ ∃ r ∈ g1.roots, Reach (dget g.adj) r x
  visitedIff : ∀ x, x ∈ g1.visited ↔ x ∈ g1.queue

theorem iterate_spec {fuel : Nat} {g g1 : G} (hw : WF g) (h : iterate fuel g = .ok g1) : Iterated g g1 := by
  unfold iterate at h
  simp only at h
  generalize hR : g.nodes.filter (fun n => iget (createInDegree g.adj) n == 0) = R at h
  cases h2 : R.foldlM (fun s r => dfs (dget g.adj) fuel r s) { vis := [], queue := R } with
  | none => rw [h2] at h; cases h
  | some s =>
    rw [h2] at h
    injection h with h
    have hRiff : ∀ r, r ∈ R ↔ r ∈ g.nodes ∧ ∀ p, r ∉ dget g.adj p := by
      intro r
      rw [← hR, List.mem_filter, beq_iff_eq, indegree_zero_iff hw.adjKeys]
    have hRn : R.Nodup := by rw [← hR]; exact hw.nodes.sublist List.filter_sublist |> fun x => x
    have hinit : RootInv (dget g.adj) R { vis := [], queue := R } :=
      ⟨⟨[], by simp, by simp, by simp, by simp⟩, by simp, by simp, by simp⟩
    obtain ⟨hi, _, hvis⟩ := rootLoop_spec (dget g.adj) fuel R R _ s (fun r hr => hr) hinit h2
    obtain ⟨ex, hq, hexn, hex, hcov⟩ := hi.queue
    have hvq : ∀ x, x ∈ s.vis ↔ x ∈ s.queue := by
      intro x
      rw [hq, List.mem_append]
      constructor
      · exact hcov x
      · rintro (h | h)
        · exact hvis x h
        · exact (hex x h).1
    subst h
    refine ⟨rfl, ?_, ?_, ?_, rfl, rfl, rfl, hR.symm, hRiff, ⟨ex, hq⟩, ?_, ?_, hvq⟩
    · intro k; exact dget_touchAll _ _ _
    · intro k
      simp only [mem_dkeys_touchAll, List.mem_reverse]
    · exact nodup_dkeys_touchAll hw.adjKeys _
    · simp only
      rw [hq, List.nodup_append]
      refine ⟨hRn, hexn, ?_⟩
      intro a ha b hb hab
      subst hab
      obtain ⟨p, hp⟩ := (hex a hb).2
      exact ((hRiff a).mp ha).2 p hp
    · intro x
      simp only
      rw [← hvq]
      constructor
      · exact hi.reach x
      · rintro (h | ⟨r, hr, h⟩)
        · exact hvis x h
        · exact Reach.closed (P := (· ∈ s.vis)) hi.closed h (hvis r hr)

theorem iterate_total {fuel : Nat} {g : G} (_hw : WF g) (hc : Closed g) (hfuel : fuelBound g ≤ fuel) :
    ∃ g1, iterate fuel g = .ok g1 := by
  unfold iterate
  simp only
  have hsome := rootLoop_total (dget g.adj) g.nodes (fun x _ y hy => hc.kids x y hy) fuel hfuel
    (g.nodes.filter (fun n => iget (createInDegree g.adj) n == 0))
    { vis := [], queue := g.nodes.filter (fun n => iget (createInDegree g.adj) n == 0) }
    (fun r hr => (List.mem_filter.mp hr).1) (by simp) (by simp)
  unfold rootLoop at hsome
  cases h2 : (g.nodes.filter (fun n => iget (createInDegree g.adj) n == 0)).foldlM
      (fun s r => dfs (dget g.adj) fuel r s) { vis := [], queue := g.nodes.filter (fun n => iget (createInDegree g.adj) n == 0) } with
  | none => rw [h2] at hsome; cases hsome
  | some s => exact ⟨_, rfl⟩

/-- in an acyclic graph whose edge sources are all in `U`, every member of `U` is a root or has a root ancestor -/
theorem root_exists (ch : Nat → List Nat) (U : List Nat) (hup : ∀ p c, c ∈ ch p → p ∈ U) (hac : Acyclic ch) :
    ∀ n v (S : List Nat), S.Nodup → (∀ x ∈ S, x ∈ U) → v ∈ U → (∀ x ∈ S, Reach ch v x) → v ∉ S → U.length ≤ n + S.length →
      (∀ p, v ∉ ch p) ∨ ∃ r, (∀ p, r ∉ ch p) ∧ r ∈ U ∧ Reach ch r v := by
  intro n
  induction n with
  | zero =>
    intro v S hn hS hv _ hvS hlen
    have := nodup_subset_length_le (v :: S) U (List.nodup_cons.mpr ⟨hvS, hn⟩)
      (by intro x hx; rcases List.mem_cons.mp hx with rfl | hx; exact hv; exact hS x hx)
    simp only [List.length_cons] at this
    omega
  | succ n ih =>
    intro v S hn hS hv hreach hvS hlen
    by_cases hroot : ∀ p, v ∉ ch p
    · exact Or.inl hroot
    · have ⟨p, hp⟩ : ∃ p, v ∈ ch p := by
        apply Classical.byContradiction
        intro hne
        exact hroot (fun p hp => hne ⟨p, hp⟩)
      have hpU := hup p v hp
      have hpS : p ∉ v :: S := by
        intro hmem
        rcases List.mem_cons.mp hmem with rfl | hmem
        · exact hac p (.edge hp)
        · exact hac p (.head hp (hreach p hmem))
      rcases ih p (v :: S) (List.nodup_cons.mpr ⟨hvS, hn⟩)
          (by intro x hx; rcases List.mem_cons.mp hx with rfl | hx; exact hv; exact hS x hx) hpU
          (by intro x hx
              rcases List.mem_cons.mp hx with rfl | hx
              · exact .edge hp
              · exact .head hp (hreach x hx))
          hpS (by simp only [List.length_cons]; omega) with h | ⟨r, hr, hrU, hrp⟩
      · exact Or.inr ⟨p, h, hpU, .edge hp⟩
      · exact Or.inr ⟨r, hr, hrU, hrp.tail hp⟩

/-- on a closed acyclic graph the queue holds every node -/
theorem iterated_queue_all {g g1 : G} (hc : Closed g) (hac : Acyclic (dget g.adj)) (hi : Iterated g g1) :
    ∀ x, x ∈ g1.queue ↔ x ∈ g.nodes := by
  intro x
  rw [hi.queueIff]
  constructor
  · rintro (h | ⟨r, hr, h⟩)
    · exact ((hi.rootsIff x).mp h).1
    · obtain ⟨p, hp, _⟩ := h.last
      exact hc.kids p x hp
  · intro hx
    have hup : ∀ p c, c ∈ dget g.adj p → p ∈ g.nodes := fun p c h => hc.keys p (mem_dkeys_of_mem_dget h)
    rcases root_exists (dget g.adj) g.nodes hup hac g.nodes.length x [] (by simp) (by simp) hx (by simp) (by simp) (by simp)
      with h | ⟨r, hr, hrU, hrx⟩
    · exact Or.inl ((hi.rootsIff x).mpr ⟨hx, h⟩)
    · exact Or.inr ⟨r, (hi.rootsIff r).mpr ⟨hrU, hr⟩, hrx⟩

/-! ### the whole preparation -/

structure Prepared (g g' : G) : Prop where
  iter : ∃ g1, Iterated g g1 ∧ g'.roots = g1.roots ∧ g'.queue = g1.queue ∧ g'.nodes = g1.nodes ∧ g'.adj = g1.adj
  direct : ∀ c p, p ∈ dget g'.pbd c ↔ c ∈ dget g.adj p
  all : ∀ c a, a ∈ dget g'.p2c c ↔ Reach (dget g.adj) a c
  allNodup : ∀ c, (dget g'.p2c c).Nodup
  root : ∀ c r, r ∈ dget g'.cwr c ↔ r ∈ g'.roots ∧ Reach (dget g.adj) r c

theorem setDirect_spec {fuel : Nat} {g g2 : G} (hn : (dkeys g.adj).Nodup) (hfresh : g.pbd = []) (h : setDirect fuel g = .ok g2) :
    g2 = { g with pbd := g2.pbd } ∧ (∀ c p, p ∈ dget g2.pbd c ↔ c ∈ dget g.adj p) ∧ (dkeys g2.pbd).Nodup ∧
      ∀ k, (dget g2.pbd k).Nodup := by
  unfold setDirect at h
  cases h2 : setDirectLoop fuel g.adj g.adj g.pbd with
  | error e => rw [h2] at h; cases h
  | ok pbd =>
    rw [h2] at h
    injection h with h; subst h
    obtain ⟨h1, _, h3, h4, h5⟩ := setDirectLoop_spec fuel g.adj hn g.adj g.pbd pbd (fun _ he => he) h2
    refine ⟨rfl, ?_, h4 (by rw [hfresh]; simp [dkeys]), h5 (by rw [hfresh]; simp [dget])⟩
    intro c p
    constructor
    · intro hp
      rcases h1 c p hp with h | h
      · rw [hfresh] at h; simp [dget] at h
      · exact h
    · intro hc
      exact h3 (p, dget g.adj p) (mem_of_mem_dget hc) c hc

theorem reach_pbd_iff {ch pb : Nat → List Nat} (hex : ∀ c p, p ∈ pb c ↔ c ∈ ch p) {a c : Nat} : Reach pb c a ↔ Reach ch a c :=
  ⟨Reach.reverse (fun x y h => (hex x y).mp h), Reach.reverse (fun x y h => (hex y x).mpr h)⟩

theorem setAll_spec {fuel : Nat} {g g3 : G} (hn : (dkeys g.pbd).Nodup) (hv : ∀ k, (dget g.pbd k).Nodup) (hfresh : g.p2c = [])
    (h : setAll fuel g = .ok g3) :
    (∀ c a, a ∈ dget g3.p2c c ↔ Reach (dget g.pbd) c a) ∧ (∀ c, (dget g3.p2c c).Nodup) ∧ (∀ k, dget g3.pbd k = dget g.pbd k) ∧
      g3.roots = g.roots ∧ g3.queue = g.queue ∧ g3.nodes = g.nodes ∧ g3.adj = g.adj ∧ g3.cwr = g.cwr := by
  unfold setAll at h
  cases h2 : setAllLoop fuel (dget g.pbd) g.pbd (g.p2c, []) with
  | none => rw [h2] at h; cases h
  | some acc =>
    obtain ⟨p2c, touched⟩ := acc
    rw [h2] at h
    injection h with h; subst h
    obtain ⟨h1, _, _⟩ := setAllLoop_spec fuel (dget g.pbd) g.pbd (g.p2c, []) (p2c, touched) hn h2
    have key : ∀ c, (∀ a, a ∈ dget p2c c ↔ Reach (dget g.pbd) c a) ∧ (dget p2c c).Nodup := by
      intro c
      rcases h1 c with ⟨hc, heq⟩ | ⟨ps, r, hmem, hr, heq⟩
      · simp only at heq
        rw [heq, hfresh]
        have hnil : dget g.pbd c = [] := dget_eq_nil_of_not_mem hc
        refine ⟨?_, by simp [dget]⟩
        intro a
        simp only [dget, List.not_mem_nil, false_iff]
        intro hreach
        obtain ⟨q, hq, _⟩ := hreach.first
        rw [hnil] at hq; cases hq
      · simp only at heq
        have hps : dget g.pbd c = ps := dget_of_mem hn hmem
        obtain ⟨hm, hnd⟩ := allGo_spec (dget g.pbd) fuel ps r hr
        rw [heq]
        refine ⟨?_, nodup_sunion (hnd (hps ▸ hv c)) _⟩
        intro a
        rw [mem_sunion, hm, reach_iff_first, hps]
        constructor
        · rintro (⟨p, hp, h⟩ | h)
          · rcases h with rfl | h
            · exact ⟨a, hp, Or.inl rfl⟩
            · exact ⟨p, hp, Or.inr h⟩
          · exact ⟨a, h, Or.inl rfl⟩
        · rintro ⟨p, hp, rfl | h⟩
          · exact Or.inr hp
          · exact Or.inl ⟨p, hp, Or.inr h⟩
    exact ⟨fun c => (key c).1, fun c => (key c).2, fun k => dget_touchAll _ _ _, rfl, rfl, rfl, rfl, rfl⟩

theorem setRoots_spec {g : G} (hn : (dkeys g.p2c).Nodup) (hfresh : g.cwr = []) :
    ∀ c r, r ∈ dget (setRoots g).cwr c ↔ r ∈ g.roots ∧ r ∈ dget g.p2c c := by
  intro c r
  simp only [setRoots, mem_setRootsLoop, hfresh]
  constructor
  · rintro (h | ⟨ps, hmem, h1, h2⟩)
    · simp [dget] at h
    · exact ⟨h2, (dget_of_mem hn hmem) ▸ h1⟩
  · rintro ⟨h1, h2⟩
    exact Or.inr ⟨dget g.p2c c, mem_of_mem_dget h2, h2, h1⟩

theorem setAll_p2c_keys {fuel : Nat} {g g3 : G} (hn : (dkeys g.pbd).Nodup) (hfresh : g.p2c = []) (h : setAll fuel g = .ok g3) :
    (dkeys g3.p2c).Nodup := by
  unfold setAll at h
  cases h2 : setAllLoop fuel (dget g.pbd) g.pbd (g.p2c, []) with
  | none => rw [h2] at h; cases h
  | some acc =>
    obtain ⟨p2c, touched⟩ := acc
    rw [h2] at h
    injection h with h; subst h
    obtain ⟨_, h2', _⟩ := setAllLoop_spec fuel (dget g.pbd) g.pbd (g.p2c, []) (p2c, touched) hn h2
    exact h2' (by rw [hfresh]; simp [dkeys])

theorem prepare_spec {fuel : Nat} {g g' : G} (hw : WF g) (hf : Fresh g) (h : prepare fuel g = .ok g') : Prepared g g' := by
  unfold prepare at h
  cases h1 : iterate fuel g with
  | error e => rw [h1] at h; cases h
  | ok g1 =>
    rw [h1] at h
    simp only at h
    have hi := iterate_spec hw h1
    cases h2 : setDirect fuel g1 with
    | error e => rw [h2] at h; cases h
    | ok g2 =>
      rw [h2] at h
      simp only at h
      obtain ⟨hg2, hd, hdk, hdv⟩ := setDirect_spec hi.adjNodup (by rw [hi.pbd, hf.pbd]) h2
      cases h3 : setAll fuel g2 with
      | error e => rw [h3] at h; cases h
      | ok g3 =>
        rw [h3] at h
        injection h with h; subst h
        have hp2c : g2.p2c = [] := by rw [hg2]; simp only; rw [hi.p2c, hf.p2c]
        have hcwr : g2.cwr = [] := by rw [hg2]; simp only; rw [hi.cwr, hf.cwr]
        obtain ⟨ha, han, hpb, hr, hq, hnn, hadj, hc⟩ := setAll_spec hdk hdv hp2c h3
        have hk3 := setAll_p2c_keys hdk hp2c h3
        have hd' : ∀ c p, p ∈ dget g2.pbd c ↔ c ∈ dget g.adj p := by
          intro c p; rw [hd, hi.adjGet]
        have hall : ∀ c a, a ∈ dget g3.p2c c ↔ Reach (dget g.adj) a c := by
          intro c a; rw [ha, reach_pbd_iff hd']
        have e2 : g2.roots = g1.roots ∧ g2.queue = g1.queue ∧ g2.nodes = g1.nodes ∧ g2.adj = g1.adj := by
          rw [hg2]; exact ⟨rfl, rfl, rfl, rfl⟩
        refine ⟨⟨g1, hi, ?_, ?_, ?_, ?_⟩, ?_, hall, han, ?_⟩
        · simp only [setRoots]; rw [hr, e2.1]
        · simp only [setRoots]; rw [hq, e2.2.1]
        · simp only [setRoots]; rw [hnn, e2.2.2.1]
        · simp only [setRoots]; rw [hadj, e2.2.2.2]
        · intro c p
          simp only [setRoots]
          rw [hpb, hd']
        · intro c r
          rw [setRoots_spec hk3 (by rw [hc, hcwr]), hall]
          simp only [setRoots]

theorem prepare_total {fuel : Nat} {g : G} (hw : WF g) (hc : Closed g) (hf : Fresh g) (hac : Acyclic (dget g.adj))
    (hfuel : fuelBound g ≤ fuel) : ∃ g', prepare fuel g = .ok g' := by
  obtain ⟨g1, h1⟩ := iterate_total hw hc hfuel
  have hi := iterate_spec hw h1
  have hqa := iterated_queue_all hc hac hi
  have hac1 : Acyclic (dget g1.adj) := by
    intro v hv
    exact hac v (hv.mono (fun a c h => by rw [← hi.adjGet]; exact h))
  unfold fuelBound at hfuel
  -- set_direct: every child is a key after the DFS
  have hkids : ∀ p c, c ∈ dget g1.adj p → c ∈ dkeys g1.adj := by
    intro p c hpc
    rw [hi.adjGet] at hpc
    exact (hi.adjKeys c).mpr (Or.inr ((hi.visitedIff c).mpr ((hqa c).mpr (hc.kids p c hpc))))
  have hkeysU : ∀ k ∈ dkeys g1.adj, k ∈ g.nodes := by
    intro k hk
    rcases (hi.adjKeys k).mp hk with h | h
    · exact hc.keys k h
    · exact (hqa k).mp ((hi.visitedIff k).mp h)
  obtain ⟨pbd, h2l⟩ := setDirectLoop_total fuel g1.adj g.nodes (fun x _ y hy => hc.kids x y (by rw [← hi.adjGet]; exact hy)) hac1
    hi.adjNodup hkeysU hkids (by omega) g1.adj g1.pbd (fun _ he => he)
  have h2 : setDirect fuel g1 = .ok { g1 with pbd := pbd } := by
    unfold setDirect; rw [h2l]
  obtain ⟨_, hd, hdk, hdv⟩ := setDirect_spec hi.adjNodup (by rw [hi.pbd, hf.pbd]) h2
  simp only at hd hdk hdv
  have hd' : ∀ c p, p ∈ dget pbd c ↔ c ∈ dget g.adj p := by
    intro c p; rw [hd, hi.adjGet]
  -- set_all
  have hacp : Acyclic (dget pbd) := by
    intro v hv
    exact hac v ((reach_pbd_iff hd').mp hv)
  have hUp : ∀ x ∈ g.nodes, ∀ y ∈ dget pbd x, y ∈ g.nodes := by
    intro x _ y hy
    exact hc.keys y (mem_dkeys_of_mem_dget ((hd' x y).mp hy))
  have hall : ∀ c, (allGo (dget pbd) fuel (dget pbd c)).isSome := by
    intro c
    by_cases hcn : c ∈ g.nodes
    · exact allGo_total (dget pbd) g.nodes hUp hacp fuel (dget pbd c) [c] (by simp) (by simpa using hcn)
        (fun p hp => hUp c hcn p hp) (by intro x hx p hp; simp at hx; subst hx; exact .edge hp) (by simp; omega)
    · have : dget pbd c = [] := by
        cases hl : dget pbd c with
        | nil => rfl
        | cons a l =>
          exfalso
          have : a ∈ dget pbd c := by rw [hl]; simp
          exact hcn (hc.kids a c ((hd' c a).mp this))
      rw [this]
      obtain ⟨f, rfl⟩ : ∃ f, fuel = f + 1 := ⟨fuel - 1, by omega⟩
      simp [allGo_succ]
  have h3s := setAllLoop_total fuel (dget pbd) hall pbd (g1.p2c, []) (fun e he => (dget_of_mem hdk he).symm)
  cases h3l : setAllLoop fuel (dget pbd) pbd (g1.p2c, []) with
  | none => rw [h3l] at h3s; cases h3s
  | some acc =>
    refine ⟨setRoots { g1 with pbd := touchAll pbd acc.2, p2c := acc.1 }, ?_⟩
    unfold prepare
    rw [h1]
    simp only
    rw [h2]
    simp only
    unfold setAll
    simp only
    rw [h3l]

/-- a graph with a cycle is never prepared, whatever the number of frames -/
theorem prepare_cycle {fuel : Nat} {g : G} (hw : WF g) {v : Nat} (hcyc : Reach (dget g.adj) v v) :
    ∃ e, prepare fuel g = .error e := by
  unfold prepare
  cases h1 : iterate fuel g with
  | error e => exact ⟨e, rfl⟩
  | ok g1 =>
    simp only
    have hi := iterate_spec hw h1
    have hcyc1 : Reach (dget g1.adj) v v := hcyc.mono (fun a c h => by rw [hi.adjGet]; exact h)
    obtain ⟨c, hc, _⟩ := hcyc1.first
    obtain ⟨e, he⟩ := setDirectLoop_cycle fuel g1.adj v ⟨v, Or.inl rfl, hcyc1⟩ g1.adj g1.pbd (mem_of_mem_dget hc)
    refine ⟨e, ?_⟩
    unfold setDirect
    rw [he]

end Graph
