import MlodaVerif.Model.CfwReg
/-! # Lemmas about the compute-framework register (`Model/CfwReg.lean`): dicts, merge chains, forests -/
namespace CfwReg

/-- equality of `Except` values is decidable (for the closed witnesses); kept inside the namespace so that it cannot clash
with an instance derived elsewhere -/
instance decEqExcept {ε α : Type} [DecidableEq ε] [DecidableEq α] : DecidableEq (Except ε α)
  | .ok a, .ok b => if h : a = b then isTrue (by rw [h]) else isFalse (by intro e; cases e; exact h rfl)
  | .error a, .error b => if h : a = b then isTrue (by rw [h]) else isFalse (by intro e; cases e; exact h rfl)
  | .ok _, .error _ => isFalse (by intro e; cases e)
  | .error _, .ok _ => isFalse (by intro e; cases e)

/-! ### dicts -/
section dict
variable {V : Type}

theorem dget_dset_self (d : List (Nat × V)) (k : Nat) (v : V) : dget (dset d k v) k = some v := by
  induction d with
  | nil => simp [dset, dget]
  | cons a t ih =>
    obtain ⟨k', v'⟩ := a
    by_cases h : k' = k
    · simp [dset, dget, h]
    · simp [dset, dget, h, ih]

theorem dget_dset_ne (d : List (Nat × V)) (k k' : Nat) (v : V) (h : k' ≠ k) : dget (dset d k v) k' = dget d k' := by
  induction d with
  | nil => simp [dset, dget, Ne.symm h]
  | cons a t ih =>
    obtain ⟨k₀, v₀⟩ := a
    by_cases h0 : k₀ = k
    · subst h0; simp [dset, dget, Ne.symm h]
    · by_cases h1 : k₀ = k'
      · subst h1; simp [dset, dget, h0]
      · simp [dset, dget, h0, h1, ih]

theorem dset_of_none (d : List (Nat × V)) (k : Nat) (v : V) (h : dget d k = none) : dset d k v = d ++ [(k, v)] := by
  induction d with
  | nil => simp [dset]
  | cons a t ih =>
    obtain ⟨k₀, v₀⟩ := a
    by_cases h0 : k₀ = k
    · simp [dget, h0] at h
    · simp [dget, h0] at h
      simp [dset, h0, ih h]

theorem dget_isSome_iff (d : List (Nat × V)) (k : Nat) : (dget d k).isSome ↔ k ∈ d.map (·.1) := by
  induction d with
  | nil => simp [dget]
  | cons a t ih =>
    obtain ⟨k₀, v₀⟩ := a
    by_cases h0 : k₀ = k
    · simp [dget, h0]
    · simp [dget, h0, ih, Ne.symm h0]

theorem dget_mem (d : List (Nat × V)) (k : Nat) (v : V) (h : dget d k = some v) : (k, v) ∈ d := by
  induction d with
  | nil => simp [dget] at h
  | cons a t ih =>
    obtain ⟨k₀, v₀⟩ := a
    by_cases h0 : k₀ = k
    · simp [dget, h0] at h; simp [h0, h]
    · simp [dget, h0] at h; simp [ih h]

theorem dget_append_left (d e : List (Nat × V)) (k : Nat) (v : V) (h : dget d k = some v) : dget (d ++ e) k = some v := by
  induction d with
  | nil => simp [dget] at h
  | cons a t ih =>
    obtain ⟨k₀, v₀⟩ := a
    by_cases h0 : k₀ = k
    · simp [dget, h0] at h; simp [dget, h0, h]
    · simp [dget, h0] at h; simp [dget, h0, ih h]

theorem dget_append_none (d e : List (Nat × V)) (k : Nat) (h : dget d k = none) : dget (d ++ e) k = dget e k := by
  induction d with
  | nil => simp
  | cons a t ih =>
    obtain ⟨k₀, v₀⟩ := a
    by_cases h0 : k₀ = k
    · simp [dget, h0] at h
    · simp [dget, h0] at h; simp [dget, h0, ih h]

theorem length_dset_ge (d : List (Nat × V)) (k : Nat) (v : V) : d.length ≤ (dset d k v).length := by
  induction d with
  | nil => simp [dset]
  | cons a t ih =>
    obtain ⟨k₀, v₀⟩ := a
    by_cases h0 : k₀ = k
    · simp [dset, h0]
    · simp [dset, h0]; exact ih

end dict

/-! ### the merge relation after `add_to_merge_relation` -/

theorem addRel_right (rel : Rel) (l rt : Uuid) (c : Cls) : dget (addRel rel l rt c) rt = some (l, c) := by
  unfold addRel
  by_cases hl : l = rt
  · subst hl
    simp [dget_dset_self]
  · by_cases hs : (dget (dset rel rt (l, c)) l).isSome
    · simp [hs, dget_dset_self]
    · simp [hs, dget_dset_ne _ _ _ _ (Ne.symm hl), dget_dset_self]

/-- the left uuid is a key afterwards; if it was not one before (and is not the right uuid) it became a self-loop -/
theorem addRel_left_new (rel : Rel) (l rt : Uuid) (c : Cls) (hl : l ≠ rt) (hn : dget rel l = none) :
    dget (addRel rel l rt c) l = some (l, c) := by
  unfold addRel
  have : dget (dset rel rt (l, c)) l = none := by rw [dget_dset_ne _ _ _ _ hl]; exact hn
  simp [this, dget_dset_self]

theorem addRel_other (rel : Rel) (l rt : Uuid) (c : Cls) (x : Uuid) (hx : x ≠ rt) (hxl : x ≠ l ∨ (dget rel l).isSome) :
    dget (addRel rel l rt c) x = dget rel x := by
  unfold addRel
  by_cases hs : (dget (dset rel rt (l, c)) l).isSome
  · simp [hs, dget_dset_ne _ _ _ _ hx]
  · simp only [hs]
    have hxl' : x ≠ l := by
      rcases hxl with h | h
      · exact h
      · intro e; subst e
        rw [dget_dset_ne _ _ _ _ hx] at hs; exact absurd h hs
    simp [dget_dset_ne _ _ _ _ hxl', dget_dset_ne _ _ _ _ hx]

theorem addRel_left_isSome (rel : Rel) (l rt : Uuid) (c : Cls) : (dget (addRel rel l rt c) l).isSome := by
  by_cases hl : l = rt
  · subst hl; simp [addRel_right]
  · cases hn : dget rel l with
    | none => simp [addRel_left_new rel l rt c hl hn]
    | some v => rw [addRel_other rel l rt c l hl (Or.inr (by simp [hn]))]; simp [hn]

theorem addRel_keys_grow (rel : Rel) (l rt : Uuid) (c : Cls) (x : Uuid) (h : (dget rel x).isSome) :
    (dget (addRel rel l rt c) x).isSome := by
  by_cases hx : x = rt
  · subst hx; simp [addRel_right]
  · by_cases hxl : x = l
    · subst hxl; exact addRel_left_isSome rel x rt c
    · rw [addRel_other rel l rt c x hx (Or.inl hxl)]; exact h

/-! ### what `find_leftmost` returns -/

/-- `Chain rel u path`: `path` lists the nodes the `while` moves to from `u` (each the `left` of the one before, never a
self-loop step), and the last node reached is a self-loop -/
inductive Chain (rel : Rel) : Uuid → List Uuid → Prop
  | stop (u : Uuid) (c : Cls) : dget rel u = some (u, c) → Chain rel u []
  | step (u p : Uuid) (c : Cls) (path : List Uuid) : dget rel u = some (p, c) → p ≠ u → Chain rel p path → Chain rel u (p :: path)

/-- label of a node: the `cls_name` stored in its own entry (`none`: no entry) -/
def label (rel : Rel) (u : Uuid) : Option Cls := (dget rel u).map (·.2)

/-- the last node of `path` whose entry is labelled `c`; `lm` if there is none -/
def pickLast (rel : Rel) (c : Cls) (lm : Uuid) (path : List Uuid) : Uuid :=
  path.foldl (fun lm x => if label rel x = some c then x else lm) lm

theorem pickLast_cons (rel : Rel) (c : Cls) (lm q : Uuid) (rest : List Uuid) :
    pickLast rel c lm (q :: rest) = pickLast rel c (if label rel q = some c then q else lm) rest := rfl

theorem label_of_dget {rel : Rel} {u p : Uuid} {cl : Cls} (h : dget rel u = some (p, cl)) : label rel u = some cl := by
  simp [label, h]

theorem leftLoop_ok_chain (rel : Rel) (c : Cls) : ∀ (fuel : Nat) (u p lm v : Uuid) (cl : Cls), dget rel u = some (p, cl) →
    leftLoop rel c fuel u p lm = .ok v → ∃ path, Chain rel u path ∧ path.length ≤ fuel ∧ v = pickLast rel c lm path := by
  intro fuel
  induction fuel with
  | zero =>
    intro u p lm v cl hu h
    simp only [leftLoop] at h
    split at h
    · rename_i hp; simp at hp; subst hp
      simp only [Except.ok.injEq] at h
      exact ⟨[], Chain.stop p cl hu, by simp, by simp [pickLast, h]⟩
    · simp at h
  | succ n ih =>
    intro u p lm v cl hu h
    simp only [leftLoop] at h
    split at h
    · rename_i hp; simp at hp; subst hp
      simp only [Except.ok.injEq] at h
      exact ⟨[], Chain.stop p cl hu, by simp, by simp [pickLast, h]⟩
    · rename_i hp; simp at hp
      split at h
      · simp at h
      · rename_i pp cl' hpget
        obtain ⟨path, hch, hlen, hv⟩ := ih p pp _ v cl' hpget h
        refine ⟨p :: path, Chain.step u p cl path hu hp hch, by simp; omega, ?_⟩
        rw [pickLast_cons, label_of_dget hpget, hv]
        by_cases hc : cl' = c <;> simp [hc]

/-- a chain is unique (the relation is a function) -/
theorem Chain.unique {rel : Rel} {u : Uuid} {p₁ p₂ : List Uuid} (h₁ : Chain rel u p₁) (h₂ : Chain rel u p₂) : p₁ = p₂ := by
  induction h₁ generalizing p₂ with
  | stop u c hu =>
    cases h₂ with
    | stop _ _ _ => rfl
    | step _ p c' path hu' hne _ => rw [hu] at hu'; simp at hu'; exact absurd hu'.1.symm hne
  | step u p c path hu hne _ ih =>
    cases h₂ with
    | stop _ c' hu' => rw [hu] at hu'; simp at hu'; exact absurd hu'.1 hne
    | step _ p' c' path' hu' _ hch' =>
      rw [hu] at hu'; simp at hu'
      obtain ⟨rfl, _⟩ := hu'
      rw [ih hch']

theorem Chain.head_entry {rel : Rel} {u : Uuid} {path : List Uuid} (h : Chain rel u path) : ∃ p cl, dget rel u = some (p, cl) := by
  cases h with
  | stop _ c hu => exact ⟨u, c, hu⟩
  | step _ p c _ hu _ _ => exact ⟨p, c, hu⟩

/-- with enough fuel the loop follows the chain to its end -/
theorem leftLoop_of_chain (rel : Rel) (c : Cls) : ∀ (path : List Uuid) (fuel : Nat) (u p lm : Uuid) (cl : Cls),
    dget rel u = some (p, cl) → Chain rel u path → path.length ≤ fuel → leftLoop rel c fuel u p lm = .ok (pickLast rel c lm path) := by
  intro path
  induction path with
  | nil =>
    intro fuel u p lm cl hu hch _
    cases hch with
    | stop _ c' hu' =>
      rw [hu] at hu'; simp at hu'
      obtain ⟨rfl, _⟩ := hu'
      cases fuel <;> simp [leftLoop, pickLast]
  | cons q rest ih =>
    intro fuel u p lm cl hu hch hlen
    cases hch with
    | step _ _ c' _ hu' hne hch' =>
      rw [hu] at hu'; simp at hu'
      obtain ⟨rfl, _⟩ := hu'
      cases fuel with
      | zero => simp at hlen
      | succ n =>
        have hp : (p == u) = false := by simp [hne]
        obtain ⟨pp, c'', hp'⟩ := hch'.head_entry
        simp only [leftLoop, hp, hp']
        rw [ih n p pp _ c'' hp' hch' (by simpa using hlen), pickLast_cons, label_of_dget hp']
        by_cases hc : c'' = c <;> simp [hc]

/-- characterisation of `pickLast`: either nothing on the path is labelled `c` and the start value is kept, or the result
is on the path, labelled `c`, and nothing after it is -/
theorem pickLast_spec (rel : Rel) (c : Cls) (lm : Uuid) (path : List Uuid) :
    (pickLast rel c lm path = lm ∧ ∀ x ∈ path, label rel x ≠ some c) ∨
    (∃ pre post, path = pre ++ pickLast rel c lm path :: post ∧ label rel (pickLast rel c lm path) = some c ∧
        ∀ x ∈ post, label rel x ≠ some c) := by
  induction path generalizing lm with
  | nil => left; simp [pickLast]
  | cons q rest ih =>
    simp only [pickLast, List.foldl_cons]
    by_cases hq : label rel q = some c
    · simp only [hq, if_true]
      rcases ih q with ⟨h1, h2⟩ | ⟨pre, post, h1, h2, h3⟩
      · right
        refine ⟨[], rest, ?_, ?_, h2⟩
        · simp only [pickLast] at h1; simp [h1]
        · simp only [pickLast] at h1; rw [h1]; exact hq
      · right
        refine ⟨q :: pre, post, ?_, h2, h3⟩
        simp only [pickLast] at h1; simp only [List.cons_append]; exact congrArg _ h1
    · simp only [hq, if_false]
      rcases ih lm with ⟨h1, h2⟩ | ⟨pre, post, h1, h2, h3⟩
      · left
        refine ⟨h1, ?_⟩
        intro x hx
        simp at hx
        rcases hx with rfl | hx
        · exact hq
        · exact h2 x hx
      · right
        refine ⟨q :: pre, post, ?_, h2, h3⟩
        simp only [pickLast] at h1; simp only [List.cons_append]; exact congrArg _ h1

/-! ### forests: every chain ends -/

/-- `rank` decreases along every non-self-loop entry and every `left` is itself a key -/
def Forest (rel : Rel) : Prop :=
  ∃ rank : Uuid → Nat, ∀ u p cl, dget rel u = some (p, cl) → p ≠ u → (dget rel p).isSome ∧ rank p < rank u

/-- `Anc rel x y`: the loop started at `x` visits `y` -/
inductive Anc (rel : Rel) : Uuid → Uuid → Prop
  | refl (u : Uuid) : Anc rel u u
  | step (u p y : Uuid) (cl : Cls) : dget rel u = some (p, cl) → p ≠ u → Anc rel p y → Anc rel u y

theorem Anc.trans {rel : Rel} {x y z : Uuid} (h₁ : Anc rel x y) (h₂ : Anc rel y z) : Anc rel x z := by
  induction h₁ with
  | refl _ => exact h₂
  | step u p y cl hu hne _ ih => exact Anc.step u p z cl hu hne (ih h₂)

theorem forest_nil : Forest [] := ⟨fun _ => 0, by intro u p cl h; simp [dget] at h⟩

theorem leftLoop_terminates (rel : Rel) (c : Cls) (rank : Uuid → Nat)
    (hf : ∀ u p cl, dget rel u = some (p, cl) → p ≠ u → (dget rel p).isSome ∧ rank p < rank u) :
    ∀ (fuel : Nat) (u p lm : Uuid) (cl : Cls) (seen : List Uuid), dget rel u = some (p, cl) → seen.Nodup →
      (∀ s ∈ seen, (dget rel s).isSome ∧ rank u < rank s) → rel.length ≤ seen.length + fuel + 1 →
      ∃ v, leftLoop rel c fuel u p lm = .ok v := by
  intro fuel
  induction fuel with
  | zero =>
    intro u p lm cl seen hu hnd hseen hlen
    by_cases hp : p = u
    · exact ⟨lm, by simp [leftLoop, hp]⟩
    · exfalso
      obtain ⟨hps, hpr⟩ := hf u p cl hu hp
      -- p :: u :: seen are pairwise different keys: more keys than the relation has entries
      have hnd' : (p :: u :: seen).Nodup := by
        refine List.nodup_cons.mpr ⟨?_, List.nodup_cons.mpr ⟨?_, hnd⟩⟩
        · intro hmem
          simp at hmem
          rcases hmem with h | h
          · exact hp h
          · have := (hseen p h).2; omega
        · intro hmem; have := (hseen u hmem).2; omega
      have hsub : (p :: u :: seen) ⊆ rel.map (·.1) := by
        intro x hx
        simp at hx
        rcases hx with rfl | rfl | hx
        · exact (dget_isSome_iff rel _).mp hps
        · exact (dget_isSome_iff rel _).mp (by simp [hu])
        · exact (dget_isSome_iff rel x).mp (hseen x hx).1
      have := List.Nodup.length_le_of_subset hnd' hsub
      simp at this
      omega
  | succ n ih =>
    intro u p lm cl seen hu hnd hseen hlen
    by_cases hp : p = u
    · exact ⟨lm, by simp [leftLoop, hp]⟩
    · obtain ⟨hps, hpr⟩ := hf u p cl hu hp
      cases hpg : dget rel p with
      | none => simp [hpg] at hps
      | some v =>
        obtain ⟨pp, cl'⟩ := v
        have hpb : (p == u) = false := by simp [hp]
        simp only [leftLoop, hpb, hpg]
        apply ih p pp _ cl' (u :: seen) hpg
        · refine List.nodup_cons.mpr ⟨?_, hnd⟩
          intro hmem; have := (hseen u hmem).2; omega
        · intro s hs
          simp at hs
          rcases hs with rfl | hs
          · exact ⟨by simp [hu], hpr⟩
          · exact ⟨(hseen s hs).1, by have := (hseen s hs).2; omega⟩
        · simp; omega

/-- in a forest `find_leftmost` returns, for every start and class, within `len(cfw_merge_relation)` loop iterations
(indeed one fewer), and never meets a missing key -/
theorem findLeftmost_terminates (rel : Rel) (hf : Forest rel) (u : Uuid) (c : Cls) :
    ∃ v, findLeftmost rel rel.length u c = .ok v := by
  obtain ⟨rank, hr⟩ := hf
  unfold findLeftmost
  cases hu : dget rel u with
  | none => exact ⟨u, rfl⟩
  | some q =>
    obtain ⟨p, cl⟩ := q
    exact leftLoop_terminates rel c rank hr rel.length u p u cl [] hu List.nodup_nil (by simp) (by simp)

/-- a step of the loop determines the rest: from `u ≠ y`, `u` reaches `y` iff its `left` does -/
theorem anc_of_step {rel : Rel} {u p y : Uuid} {cl : Cls} (hu : dget rel u = some (p, cl)) (hne : u ≠ y) (h : Anc rel u y) :
    p ≠ u ∧ Anc rel p y := by
  cases h with
  | refl _ => exact absurd rfl hne
  | step _ p' _ cl' hu' hp' h' => rw [hu] at hu'; simp at hu'; obtain ⟨rfl, _⟩ := hu'; exact ⟨hp', h'⟩

/-- `add_to_merge_relation(left, right, cls)` keeps the relation a forest when `right` is `left` itself or is not reached
from `left` -/
theorem forest_addRel (rel : Rel) (hf : Forest rel) (l rt : Uuid) (c : Cls) (hok : rt = l ∨ ¬ Anc rel l rt) :
    Forest (addRel rel l rt c) := by
  obtain ⟨rank, hr⟩ := hf
  by_cases hlr : rt = l
  · -- right = left: the entry of `left` becomes a self-loop, everything else is untouched
    subst hlr
    refine ⟨rank, ?_⟩
    intro u p cl hu hne
    by_cases hx : u = rt
    · subst hx; rw [addRel_right] at hu; simp at hu; exact absurd hu.1.symm hne
    · rw [addRel_other rel rt rt c u hx (Or.inl hx)] at hu
      obtain ⟨h1, h2⟩ := hr u p cl hu hne
      exact ⟨addRel_keys_grow rel rt rt c p h1, h2⟩
  · have hna : ¬ Anc rel l rt := by rcases hok with h | h; exact absurd h hlr; exact h
    open Classical in
    refine ⟨fun x => if Anc rel x rt then rank x + rank l + 1 else rank x, ?_⟩
    intro u p cl hu hne
    by_cases hx : u = rt
    · -- the new entry right ↦ left
      subst hx
      rw [addRel_right] at hu; simp at hu
      obtain ⟨hpl, _⟩ := hu
      subst hpl
      refine ⟨addRel_left_isSome rel l u c, ?_⟩
      simp only [hna, if_false, Anc.refl u, if_true]
      omega
    · by_cases hul : u = l ∧ dget rel l = none
      · -- `left` was not a key: its new entry is a self-loop
        obtain ⟨rfl, hn⟩ := hul
        rw [addRel_left_new rel u rt c hx hn] at hu; simp at hu; exact absurd hu.1.symm hne
      · have hu' : dget rel u = some (p, cl) := by
          rw [addRel_other rel l rt c u hx] at hu
          · exact hu
          · by_cases h : u = l
            · right; subst h
              cases hh : dget rel u with
              | none => exact absurd ⟨rfl, hh⟩ hul
              | some _ => simp
            · left; exact h
        obtain ⟨h1, h2⟩ := hr u p cl hu' hne
        refine ⟨addRel_keys_grow rel l rt c p h1, ?_⟩
        have hiff : Anc rel u rt ↔ Anc rel p rt :=
          ⟨fun h => (anc_of_step hu' hx h).2, fun h => Anc.step u p rt cl hu' hne h⟩
        by_cases ha : Anc rel u rt
        · simp only [ha, hiff.mp ha, if_true]; omega
        · have : ¬ Anc rel p rt := fun h => ha (hiff.mpr h)
          simp only [ha, this, if_false]; exact h2

/-! ### a decidable test for "not reached" -/

/-- walk from `u` for at most `fuel` steps looking for `y`; running out of fuel counts as "may be reached" -/
def reaches (rel : Rel) : Nat → Uuid → Uuid → Bool
  | 0, u, y => u == y || true
  | n + 1, u, y =>
    u == y || match dget rel u with
      | none => false
      | some (p, _) => if p == u then false else reaches rel n p y

theorem not_anc_of_reaches_false (rel : Rel) : ∀ (fuel : Nat) (u y : Uuid), reaches rel fuel u y = false → ¬ Anc rel u y := by
  intro fuel
  induction fuel with
  | zero => intro u y h; simp [reaches] at h
  | succ n ih =>
    intro u y h ha
    simp only [reaches, Bool.or_eq_false_iff] at h
    obtain ⟨h1, h2⟩ := h
    have hne : u ≠ y := by simpa using h1
    cases ha with
    | refl _ => exact hne rfl
    | step _ p _ cl hu hp hrest =>
      simp only [hu] at h2
      have : (p == u) = false := by simp [hp]
      simp only [this] at h2
      exact ih p y (by simpa using h2) hrest

/-- the discipline of a history of `add_to_merge_relation` calls, checked call by call on the relation built so far:
`right` is `left` itself or is not on the chain above `left` -/
def disciplined (rel : Rel) : List (Uuid × Uuid × Cls) → Bool
  | [] => true
  | (l, rt, c) :: rest => (rt == l || !reaches rel (rel.length + 1) l rt) && disciplined (addRel rel l rt c) rest

def runAdds (rel : Rel) (h : List (Uuid × Uuid × Cls)) : Rel := h.foldl (fun r a => addRel r a.1 a.2.1 a.2.2) rel

theorem forest_runAdds (rel : Rel) (hf : Forest rel) (h : List (Uuid × Uuid × Cls)) (hd : disciplined rel h = true) :
    Forest (runAdds rel h) := by
  induction h generalizing rel with
  | nil => exact hf
  | cons a rest ih =>
    obtain ⟨l, rt, c⟩ := a
    simp only [disciplined, Bool.and_eq_true, Bool.or_eq_true, beq_iff_eq, Bool.not_eq_true'] at hd
    obtain ⟨h1, h2⟩ := hd
    simp only [runAdds, List.foldl_cons]
    apply ih (addRel rel l rt c) _ h2
    apply forest_addRel rel hf l rt c
    rcases h1 with h1 | h1
    · exact Or.inl h1
    · exact Or.inr (not_anc_of_reaches_false rel _ l rt h1)

/-! ### a merge that does not touch the chain above an object leaves `find_leftmost` from it unchanged -/

theorem leftLoop_addRel (rel : Rel) (l rt : Uuid) (c cls : Cls) : ∀ (fuel : Nat) (u p lm v : Uuid) (cl : Cls),
    dget rel u = some (p, cl) → ¬ Anc rel u rt → leftLoop rel cls fuel u p lm = .ok v →
    leftLoop (addRel rel l rt c) cls fuel u p lm = .ok v := by
  intro fuel
  induction fuel with
  | zero => intro u p lm v cl _ _ h; simpa [leftLoop] using h
  | succ n ih =>
    intro u p lm v cl hu hna h
    simp only [leftLoop] at h ⊢
    by_cases hp : p = u
    · simpa [hp] using h
    · have hpb : (p == u) = false := by simp [hp]
      simp only [hpb] at h ⊢
      cases hpg : dget rel p with
      | none => simp [hpg] at h
      | some q =>
        obtain ⟨pp, cl'⟩ := q
        simp only [hpg] at h
        have hnp : ¬ Anc rel p rt := fun ha => hna (Anc.step u p rt cl hu hp ha)
        have hprt : p ≠ rt := fun e => hnp (e ▸ Anc.refl p)
        have : dget (addRel rel l rt c) p = some (pp, cl') := by
          rw [addRel_other rel l rt c p hprt]
          · exact hpg
          · by_cases hpl : p = l
            · right; rw [← hpl, hpg]; rfl
            · left; exact hpl
        simp only [this]
        exact ih p pp _ v cl' hpg hnp h

theorem findLeftmost_addRel (rel : Rel) (l rt : Uuid) (c cls : Cls) (fuel : Nat) (u v : Uuid) (hna : ¬ Anc rel u rt)
    (h : findLeftmost rel fuel u cls = .ok v) : findLeftmost (addRel rel l rt c) fuel u cls = .ok v := by
  have hurt : u ≠ rt := fun e => hna (e ▸ Anc.refl u)
  unfold findLeftmost at h ⊢
  cases hu : dget rel u with
  | none =>
    simp only [hu] at h
    by_cases hul : u = l
    · subst hul
      rw [addRel_left_new rel u rt c hurt hu]
      cases fuel <;> simpa [leftLoop] using h
    · rw [addRel_other rel l rt c u hurt (Or.inl hul), hu]; exact h
  | some q =>
    obtain ⟨p, cl⟩ := q
    simp only [hu] at h
    have : dget (addRel rel l rt c) u = some (p, cl) := by
      rw [addRel_other rel l rt c u hurt]
      · exact hu
      · by_cases hul : u = l
        · right; rw [← hul, hu]; rfl
        · left; exact hul
    simp only [this]
    exact leftLoop_addRel rel l rt c cls fuel u p u v cl hu hna h

/-! ### first match in a registration order -/

/-- children lists of registered objects of one class are pairwise disjoint -/
def DisjointSameClass (cfws : List (Uuid × Obj)) : Prop :=
  ∀ a ∈ cfws, ∀ b ∈ cfws, a.2.cls = b.2.cls → ∀ f, f ∈ a.2.children → f ∈ b.2.children → a = b

theorem hit_iff (c : Cls) (f : Uuid) (q : Uuid × Obj) : hit c f q = true ↔ q.2.cls = c ∧ f ∈ q.2.children := by
  simp [hit]

theorem find?_perm_of_unique {α : Type} (P : α → Bool) (l₁ l₂ : List α) (hp : l₁.Perm l₂)
    (hu : ∀ a ∈ l₁, ∀ b ∈ l₁, P a = true → P b = true → a = b) : l₁.find? P = l₂.find? P := by
  cases h₁ : l₁.find? P with
  | none =>
    have hn := List.find?_eq_none.mp h₁
    symm
    apply List.find?_eq_none.mpr
    intro x hx; exact hn x (hp.mem_iff.mpr hx)
  | some w =>
    have hw := List.find?_some h₁
    have hwm := List.mem_of_find?_eq_some h₁
    cases h₂ : l₂.find? P with
    | none =>
      have hn := List.find?_eq_none.mp h₂
      exact absurd hw (hn w (hp.mem_iff.mp hwm))
    | some w' =>
      have hw' := List.find?_some h₂
      have hwm' := List.mem_of_find?_eq_some h₂
      rw [hu w hwm w' (hp.mem_iff.mpr hwm') hw hw']

/-! ### the history discipline "a uuid is never `right` after it has been `left`" -/

def neverRightAfterLeft (lefts : List Uuid) : List (Uuid × Uuid × Cls) → Bool
  | [] => true
  | (l, rt, _) :: rest => (rt == l || !lefts.contains rt) && neverRightAfterLeft (l :: lefts) rest

/-- every `left` stored in a non-self-loop entry has been the `left` argument of a call -/
def LeftsCover (rel : Rel) (lefts : List Uuid) : Prop := ∀ u p cl, dget rel u = some (p, cl) → p ≠ u → p ∈ lefts

theorem anc_last_step {rel : Rel} {u y : Uuid} (h : Anc rel u y) (hne : u ≠ y) : ∃ w cl, dget rel w = some (y, cl) ∧ y ≠ w := by
  induction h with
  | refl _ => exact absurd rfl hne
  | step u p y cl hu hp _ ih =>
    by_cases hpy : p = y
    · subst hpy; exact ⟨u, cl, hu, hp⟩
    · exact ih hpy

theorem leftsCover_addRel (rel : Rel) (lefts : List Uuid) (hc : LeftsCover rel lefts) (l rt : Uuid) (c : Cls) :
    LeftsCover (addRel rel l rt c) (l :: lefts) := by
  intro u p cl hu hne
  by_cases hx : u = rt
  · subst hx; rw [addRel_right] at hu; simp at hu; simp [hu.1]
  · by_cases hul : u = l ∧ dget rel l = none
    · obtain ⟨rfl, hn⟩ := hul
      rw [addRel_left_new rel u rt c hx hn] at hu; simp at hu; exact absurd hu.1.symm hne
    · have hu' : dget rel u = some (p, cl) := by
        rw [addRel_other rel l rt c u hx] at hu
        · exact hu
        · by_cases h : u = l
          · right; subst h
            cases hh : dget rel u with
            | none => exact absurd ⟨rfl, hh⟩ hul
            | some _ => simp
          · left; exact h
      exact List.mem_cons_of_mem _ (hc u p cl hu' hne)

theorem forest_runAdds_simple (rel : Rel) (lefts : List Uuid) (hf : Forest rel) (hc : LeftsCover rel lefts)
    (h : List (Uuid × Uuid × Cls)) (hd : neverRightAfterLeft lefts h = true) : Forest (runAdds rel h) := by
  induction h generalizing rel lefts with
  | nil => exact hf
  | cons a rest ih =>
    obtain ⟨l, rt, c⟩ := a
    simp only [neverRightAfterLeft, Bool.and_eq_true, Bool.or_eq_true, beq_iff_eq, Bool.not_eq_true'] at hd
    obtain ⟨h1, h2⟩ := hd
    simp only [runAdds, List.foldl_cons]
    apply ih (addRel rel l rt c) (l :: lefts) _ (leftsCover_addRel rel lefts hc l rt c) h2
    apply forest_addRel rel hf l rt c
    rcases h1 with h1 | h1
    · exact Or.inl h1
    · by_cases hlr : rt = l
      · exact Or.inl hlr
      · right
        intro ha
        obtain ⟨w, cl, hw, hne⟩ := anc_last_step ha (Ne.symm hlr)
        have := hc w rt cl hw hne
        simp at h1
        exact h1 this

/-! ### helpers of the property theorems -/

theorem spin_aux : ∀ (fuel : Nat) (lm : Uuid),
    leftLoop [(2, (1, 0)), (1, (2, 0))] 0 fuel 1 2 lm = .error .fuel ∧ leftLoop [(2, (1, 0)), (1, (2, 0))] 0 fuel 2 1 lm = .error .fuel := by
  intro fuel
  induction fuel with
  | zero => intro lm; simp [leftLoop]
  | succ n ih =>
    intro lm
    constructor
    · simp only [leftLoop, dget]; simp; exact (ih 2).2
    · simp only [leftLoop, dget]; simp; exact (ih 1).1


/-- when does `firstHit` hit: the ids before the hit all miss -/
theorem firstHit_none_iff (r : Reg) (fuel : Nat) (c : Cls) (xs : List Uuid) :
    firstHit r fuel c xs = .ok none ↔ ∀ t ∈ xs, getCfwUuid r fuel c t = .ok none := by
  induction xs with
  | nil => simp [firstHit]
  | cons t rest ih =>
    simp only [firstHit]
    cases hg : getCfwUuid r fuel c t with
    | error e => simp [hg]
    | ok o =>
      cases o with
      | some w => simp [hg]
      | none => simp [hg, ih]


def allModeSets : List (List Mode) := [[], [.sync], [.thread], [.mp], [.sync, .thread], [.sync, .mp], [.thread, .mp], [.sync, .thread, .mp]]


def isSetError : Op → Bool | .setError .. => true | _ => false

theorem applyOp_error_cell (r : Reg) (o : Op) (h : isSetError o = false) :
    (applyOp r o).1.error = r.error ∧ (applyOp r o).1.msg = r.msg ∧ (applyOp r o).1.exc = r.exc := by
  cases o with
  | setError m e => simp [isSetError] at h
  | register u c ch => simp only [applyOp, addCfw]; by_cases h : (dget r.cfws u).isSome <;> simp [h]
  | lookup c f => simp only [applyOp]; split <;> simp
  | lookupInit c f => simp only [applyOp]; split <;> simp
  | merge l rt c => simp [applyOp, addMerge]
  | leftmost u c => simp only [applyOp]; split <;> simp
  | setLocation loc => simp only [applyOp, setLocation]; split <;> simp
  | setArtifact n a => simp only [applyOp, setArtifact]; by_cases h : (dget r.artifacts n).isSome <;> simp [h]
  | setApiData d => simp [applyOp, setApiData]
  | getApiData k => simp only [applyOp]; split <;> simp
  | addColNames u cs => simp [applyOp, addColNames]
  | getColNames u => simp only [applyOp]; split <;> simp
  | addFlyway u ds => simp [applyOp, addFlyway]
  | getFlyway u => simp [applyOp]


theorem firstHit_some (r : Reg) (fuel : Nat) (c : Cls) (xs : List Uuid) (t v : Uuid) (h : firstHit r fuel c xs = .ok (some (t, v))) :
    t ∈ xs ∧ getCfwUuid r fuel c t = .ok (some v) := by
  induction xs with
  | nil => simp [firstHit] at h
  | cons y rest ih =>
    simp only [firstHit] at h
    cases hg : getCfwUuid r fuel c y with
    | error e => simp [hg] at h
    | ok o =>
      cases o with
      | some w => simp [hg] at h; obtain ⟨rfl, rfl⟩ := h; exact ⟨by simp, hg⟩
      | none => simp only [hg] at h; exact ⟨List.mem_cons_of_mem _ (ih h).1, (ih h).2⟩

theorem applyOp_location (r : Reg) (o : Op) (n : Nat) (h : r.location = some (n + 1)) : (applyOp r o).1.location = some (n + 1) := by
  cases o with
  | setLocation loc => simp [applyOp, setLocation, h]
  | setError m e => simp [applyOp, setError, h]
  | register u c ch => simp only [applyOp, addCfw]; by_cases hh : (dget r.cfws u).isSome <;> simp [hh, h]
  | lookup c f => simp only [applyOp]; split <;> simp [h]
  | lookupInit c f => simp only [applyOp]; split <;> simp [h]
  | merge l rt c => simp [applyOp, addMerge, h]
  | leftmost u c => simp only [applyOp]; split <;> simp [h]
  | setArtifact n a => simp only [applyOp, setArtifact]; by_cases hh : (dget r.artifacts n).isSome <;> simp [hh, h]
  | setApiData d => simp [applyOp, setApiData, h]
  | getApiData k => simp only [applyOp]; split <;> simp [h]
  | addColNames u cs => simp [applyOp, addColNames, h]
  | getColNames u => simp only [applyOp]; split <;> simp [h]
  | addFlyway u ds => simp [applyOp, addFlyway, h]
  | getFlyway u => simp [applyOp, h]

/-- from a root (self-loop) or a uuid without entry the loop goes nowhere -/
theorem anc_of_root {rel : Rel} {l y : Uuid} (hl : dget rel l = none ∨ ∃ cl, dget rel l = some (l, cl)) (h : Anc rel l y) : y = l := by
  cases h with
  | refl _ => rfl
  | step _ p _ cl hu hp _ =>
    rcases hl with hl | ⟨cl', hl⟩
    · rw [hl] at hu; simp at hu
    · rw [hl] at hu; simp at hu; exact absurd hu.1.symm hp

theorem mem_dset {V : Type} (d : List (Nat × V)) (k : Nat) (v : V) (q : Nat × V) (h : q ∈ dset d k v) : q = (k, v) ∨ q ∈ d := by
  induction d with
  | nil => simp [dset] at h; exact Or.inl h
  | cons a t ih =>
    obtain ⟨k₀, v₀⟩ := a
    by_cases h0 : k₀ = k
    · simp [dset, h0] at h
      rcases h with h | h
      · exact Or.inl h
      · exact Or.inr (List.mem_cons_of_mem _ h)
    · simp [dset, h0] at h
      rcases h with h | h
      · exact Or.inr (by simp [h])
      · rcases ih h with h' | h'
        · exact Or.inl h'
        · exact Or.inr (List.mem_cons_of_mem _ h')

theorem mem_setAdd (l : List Uuid) (x y : Uuid) (h : y ∈ setAdd l x) : y ∈ l ∨ y = x := by
  unfold setAdd at h
  split at h
  · exact Or.inl h
  · simp at h; exact h

/-- the uuid `t` is listed by no registered object and by no object of the collection -/
def Unlisted (t : Uuid) (x : Exe) : Prop := (∀ q ∈ x.reg.cfws, t ∉ q.2.children) ∧ (∀ q ∈ x.coll, t ∉ q.2.children)

/-- the step does not itself bring `t` in: a feature-group step whose `children_if_root` lacks `t`, a transform step whose
link id is not `t` -/
def StepAvoids (t : Uuid) : Step → Prop
  | .fg _ _ _ ch => t ∉ ch
  | .tfs _ _ _ link _ _ => link ≠ some t
  | .join .. => True

theorem unlisted_initCfw (t : Uuid) (x x' : Exe) (c : Cls) (ch : List Uuid) (u v : Uuid) (hx : Unlisted t x) (hch : t ∉ ch)
    (h : initCfw x c ch u = .ok (v, x')) : Unlisted t x' := by
  unfold initCfw addCfw at h
  by_cases hd : (dget x.reg.cfws u).isSome
  · simp [hd] at h
  · simp only [hd] at h
    simp only [Bool.false_eq_true, ↓reduceIte, Except.ok.injEq, Prod.mk.injEq] at h
    obtain ⟨_, rfl⟩ := h
    constructor
    · intro q hq
      rcases mem_dset _ _ _ q hq with rfl | hq'
      · exact hch
      · exact hx.1 q hq'
    · intro q hq
      rcases mem_dset _ _ _ q hq with rfl | hq'
      · exact hch
      · exact hx.2 q hq'

theorem unlisted_prepare (t : Uuid) (x x' : Exe) (fuel : Nat) (fresh v : Uuid) (st : Step) (hx : Unlisted t x) (hs : StepAvoids t st)
    (h : prepareExecuteStep x fuel fresh st = .ok (v, x')) : Unlisted t x' := by
  cases st with
  | fg c tfs a ch =>
    simp only [prepareExecuteStep] at h
    cases hfh : firstHit x.reg fuel c tfs with
    | error e => simp [hfh] at h
    | ok o =>
      cases o with
      | some tv => simp [hfh] at h; rw [← h.2]; exact hx
      | none =>
        simp only [hfh] at h
        cases a with
        | none => simp at h
        | some a' =>
          simp only at h
          cases hg : getCfwUuid x.reg fuel c a' with
          | error e => simp [hg] at h
          | ok o2 =>
            cases o2 with
            | some w => simp [hg] at h; rw [← h.2]; exact hx
            | none => simp only [hg] at h; exact unlisted_initCfw t x x' c ch fresh v hx hs h
  | tfs fc tc req link su ru =>
    simp only [prepareExecuteStep] at h
    cases hfh : firstHit x.reg fuel fc req with
    | error e => simp [hfh] at h
    | ok o =>
      cases o with
      | none => simp [hfh] at h
      | some rs =>
        simp only [hfh] at h
        cases hc : dget x.coll rs.2 with
        | none => simp [hc] at h
        | some srcObj =>
          simp only [hc] at h
          refine unlisted_initCfw t x x' tc _ su v hx ?_ h
          have hsrc : t ∉ srcObj.children := hx.2 (rs.2, srcObj) (dget_mem _ _ _ hc)
          cases link with
          | none => exact hsrc
          | some l =>
            intro hm
            rcases mem_setAdd _ _ _ hm with hm | hm
            · exact hsrc hm
            · exact hs (by rw [hm])
  | join lc lefts lk rights =>
    simp only [prepareExecuteStep] at h
    cases lefts with
    | nil => simp at h
    | cons f _ =>
      simp only at h
      cases hg : getCfwUuid x.reg fuel lc f with
      | error e => simp [hg] at h
      | ok o => cases o <;> simp [hg] at h; rw [← h.2]; exact hx

theorem unlisted_placeAll (t : Uuid) (fuel : Nat) (steps : List (Step × Uuid)) (hs : ∀ sf ∈ steps, StepAvoids t sf.1)
    (x x' : Exe) (us : List Uuid) (hx : Unlisted t x) (h : placeAll x fuel steps = .ok (us, x')) : Unlisted t x' := by
  induction steps generalizing x us with
  | nil => simp [placeAll] at h; rw [← h.2]; exact hx
  | cons sf rest ih =>
    obtain ⟨st, fr⟩ := sf
    simp only [placeAll] at h
    cases hp : prepareExecuteStep x fuel fr st with
    | error e => simp [hp] at h
    | ok r =>
      obtain ⟨u, x₁⟩ := r
      simp only [hp] at h
      cases hr : placeAll x₁ fuel rest with
      | error e => simp [hr] at h
      | ok r2 =>
        obtain ⟨us', x₂⟩ := r2
        simp [hr] at h
        obtain ⟨_, h2⟩ := h
        subst h2
        exact ih (fun sf' h' => hs sf' (by simp [h'])) x₁ us' (unlisted_prepare t x x₁ fuel fr u st hx (hs (st, fr) (by simp)) hp) hr

end CfwReg
