import MlodaVerif.Lemmas.LifeStep
/-! The worker's command loop and the orchestrator's side of the result queues. -/
namespace Life
open Store

theorem doneIds_append (a b : List Msg) : doneIds (a ++ b) = doneIds a ++ doneIds b := by
  induction a with
  | nil => rfl
  | cons m t ih => cases m <;> simp [doneIds, ih]

theorem wloop_nil (o : Nat) (w : WS) : wloop o w [] = w := rfl
theorem wloop_cons (o : Nat) (w : WS) (c : WCmd) (cs : List WCmd) : wloop o w (c :: cs) = wloop o (wstep o w c) cs := rfl

/-- what one command adds to the result messages: nothing, or exactly the id of that step command -/
theorem wstep_done (o : Nat) (w : WS) (c : WCmd) :
    doneIds (wstep o w c).out = doneIds w.out ∨
    (∃ id rq res uf, c = .step id rq res uf ∧ res ≠ .raise ∧ w.alive = true ∧ doneIds (wstep o w c).out = doneIds w.out ++ [id]) := by
  unfold wstep
  by_cases ha : w.alive = true
  · simp only [ha, Bool.not_true, Bool.false_eq_true, if_false]
    cases c with
    | stop => left; rfl
    | drop F =>
      left
      simp only
      split <;> simp [doneIds_append, doneIds]
    | step id rq res uf =>
      cases res with
      | raise => left; rfl
      | key => right; exact ⟨id, rq, .key, uf, rfl, by simp, trivial, by simp [doneIds_append, doneIds]⟩
      | table =>
        simp only
        cases rq with
        | false => right; exact ⟨id, false, .table, uf, rfl, by simp, trivial, by simp [doneIds_append, doneIds]⟩
        | true =>
          cases uf with
          | true => left; rfl
          | false => right; exact ⟨id, true, .table, false, rfl, by simp, trivial, by simp [doneIds_append, doneIds]⟩
  · have : w.alive = false := by cases h : w.alive <;> simp_all
    simp [this]

/-- every result message belongs to a step command: the ids of the `done` messages are a sub-sequence of the ids of the step commands -/
theorem wloop_done_sublist (o : Nat) (cmds : List WCmd) (w : WS) :
    ∃ l, doneIds (wloop o w cmds).out = doneIds w.out ++ l ∧ List.Sublist l (stepIds cmds) := by
  induction cmds generalizing w with
  | nil => exact ⟨[], by simp [wloop_nil], List.Sublist.refl _⟩
  | cons c cs ih =>
    rw [wloop_cons]
    obtain ⟨l, h1, h2⟩ := ih (wstep o w c)
    rcases wstep_done o w c with h | ⟨id, rq, res, uf, hc, _, _, h⟩
    · refine ⟨l, by rw [h1, h], ?_⟩
      cases c <;> simp only [stepIds] <;> first | exact h2 | exact List.Sublist.cons _ h2
    · subst hc
      refine ⟨id :: l, by rw [h1, h]; simp, ?_⟩
      simp only [stepIds]
      exact List.Sublist.cons_cons _ h2

theorem wstep_alive (o : Nat) (w : WS) (c : WCmd) (h : (wstep o w c).alive = true) : w.alive = true := by
  cases ha : w.alive with
  | true => rfl
  | false => simp [wstep, ha] at h

theorem wloop_alive (o : Nat) (cmds : List WCmd) (w : WS) (h : (wloop o w cmds).alive = true) : w.alive = true := by
  induction cmds generalizing w with
  | nil => exact h
  | cons c cs ih => rw [wloop_cons] at h; exact wstep_alive o w c (ih _ h)

/-- a step command that was read by a worker that is still alive afterwards produced its result message -/
theorem wstep_alive_done (o : Nat) (w : WS) (id : Nat) (rq : Bool) (res : StepRes) (uf : Bool)
    (h : (wstep o w (.step id rq res uf)).alive = true) : doneIds (wstep o w (.step id rq res uf)).out = doneIds w.out ++ [id] := by
  have ha := wstep_alive o w _ h
  unfold wstep at h ⊢
  simp only [ha, Bool.not_true, Bool.false_eq_true, if_false] at h ⊢
  cases res with
  | raise => simp at h
  | key => simp [doneIds_append, doneIds]
  | table =>
    cases rq with
    | false => simp [doneIds_append, doneIds]
    | true =>
      cases uf with
      | true => simp at h
      | false => simp [doneIds_append, doneIds]

/-- a worker that is alive at the end has answered every step command, in order, exactly once -/
theorem wloop_alive_all_done (o : Nat) (cmds : List WCmd) (w : WS) (h : (wloop o w cmds).alive = true) :
    doneIds (wloop o w cmds).out = doneIds w.out ++ stepIds cmds := by
  induction cmds generalizing w with
  | nil => simp [wloop_nil, stepIds]
  | cons c cs ih =>
    rw [wloop_cons] at h ⊢
    have h1 := ih _ h
    have ha := wloop_alive o cs _ h
    rw [h1]
    cases c with
    | step id rq res uf => rw [wstep_alive_done o w id rq res uf ha]; simp [stepIds]
    | stop => simp [wstep, wstep_alive o w _ ha] at ha
    | drop F =>
      rcases wstep_done o w (.drop F) with hd | ⟨_, _, _, _, hc, _⟩
      · rw [hd]; simp [stepIds]
      · cases hc

/-! the children tracker inside the worker -/

theorem wstep_children (o : Nat) (w : WS) (c : WCmd) : (wstep o w c).cfw.children = w.cfw.children := by
  unfold wstep
  split
  · rfl
  · cases c with
    | stop => rfl
    | drop F =>
      simp only
      split <;> simp [report_children]
    | step id rq res uf =>
      cases res with
      | raise => rfl
      | key => rfl
      | table =>
        simp only
        split
        · split <;> rfl
        · rfl

theorem wstep_tracker (o : Nat) (w : WS) (c : WCmd) (x : Nat) (hx : x ∈ (wstep o w c).cfw.tracker) :
    x ∈ w.cfw.tracker ∨ ∃ F, c = .drop F ∧ x ∈ F := by
  unfold wstep at hx
  split at hx
  · exact Or.inl hx
  · cases c with
    | stop => exact Or.inl hx
    | drop F =>
      simp only at hx
      have : x ∈ (report w.cfw F).1.tracker := by
        split at hx <;> exact hx
      rcases (report_tracker_mem _ _ _).mp this with h | h
      · exact Or.inl h
      · exact Or.inr ⟨F, rfl, h⟩
    | step id rq res uf =>
      left
      cases res with
      | raise => exact hx
      | key => exact hx
      | table =>
        simp only at hx
        split at hx
        · split at hx <;> exact hx
        · exact hx

theorem wloop_children (o : Nat) (cmds : List WCmd) (w : WS) : (wloop o w cmds).cfw.children = w.cfw.children := by
  induction cmds generalizing w with
  | nil => rfl
  | cons c cs ih => rw [wloop_cons, ih, wstep_children]

theorem wloop_tracker (o : Nat) (cmds : List WCmd) (w : WS) (x : Nat) (hx : x ∈ (wloop o w cmds).cfw.tracker) :
    x ∈ w.cfw.tracker ∨ ∃ F ∈ dropCmds cmds, x ∈ F := by
  induction cmds generalizing w with
  | nil => exact Or.inl hx
  | cons c cs ih =>
    rw [wloop_cons] at hx
    rcases ih _ hx with h | ⟨F, hF, hxF⟩
    · rcases wstep_tracker o w c x h with h1 | ⟨F, hc, hxF⟩
      · exact Or.inl h1
      · subst hc; exact Or.inr ⟨F, by simp [dropCmds], hxF⟩
    · refine Or.inr ⟨F, ?_, hxF⟩
      cases c <;> simp only [dropCmds] <;> first | exact hF | exact List.mem_cons_of_mem _ hF

theorem dropCmds_snoc (pre : List WCmd) (F : List Nat) : dropCmds (pre ++ [WCmd.drop F]) = dropCmds pre ++ [F] := by
  induction pre with
  | nil => rfl
  | cons c cs ih => cases c <;> simp [dropCmds, ih]

/-! ### poll_result_queues -/

/-- a step result is never lost by a poll: it is collected or still queued; nothing is invented -/
theorem poll_keeps (qs : List (List Msg)) (coll : List Nat) (u : Nat) :
    (u ∈ (poll qs coll).2 ∨ ∃ q ∈ (poll qs coll).1, Msg.done u ∈ q) ↔ (u ∈ coll ∨ ∃ q ∈ qs, Msg.done u ∈ q) := by
  induction qs generalizing coll with
  | nil => simp [poll]
  | cons q qs ih =>
    cases q with
    | nil =>
      simp only [poll, List.mem_cons, exists_eq_or_imp, List.not_mem_nil, false_or]
      exact ih coll
    | cons m t =>
      cases m with
      | dropComplete o1 =>
        simp only [poll, List.mem_cons, exists_eq_or_imp]
        rw [← or_assoc, or_comm (a := u ∈ _) (b := Msg.done u ∈ t), or_assoc, ih]
        simp only [reduceCtorEq, false_or]
        constructor
        · rintro (h | h | h)
          · exact Or.inr (Or.inl h)
          · exact Or.inl h
          · exact Or.inr (Or.inr h)
        · rintro (h | h | h)
          · exact Or.inr (Or.inl h)
          · exact Or.inl h
          · exact Or.inr (Or.inr h)
      | done v =>
        simp only [poll, List.mem_cons, exists_eq_or_imp]
        rw [← or_assoc, or_comm (a := u ∈ _) (b := Msg.done u ∈ t), or_assoc, ih]
        by_cases hv : v ∈ coll
        · simp only [hv, if_true]
          by_cases huv : u = v
          · subst huv; simp [hv]
          · simp only [Msg.done.injEq, huv, false_or]
            constructor
            · rintro (h | h | h)
              · exact Or.inr (Or.inl h)
              · exact Or.inl h
              · exact Or.inr (Or.inr h)
            · rintro (h | h | h)
              · exact Or.inr (Or.inl h)
              · exact Or.inl h
              · exact Or.inr (Or.inr h)
        · simp only [hv, if_false, List.mem_append, List.mem_singleton]
          by_cases huv : u = v
          · subst huv; simp
          · simp only [Msg.done.injEq, huv, false_or, or_false]
            constructor
            · rintro (h | h | h)
              · exact Or.inr (Or.inl h)
              · exact Or.inl h
              · exact Or.inr (Or.inr h)
            · rintro (h | h | h)
              · exact Or.inr (Or.inl h)
              · exact Or.inl h
              · exact Or.inr (Or.inr h)

/-- every queue is polled, whatever the other queues hold: each loses exactly its head -/
theorem poll_tails (qs : List (List Msg)) (coll : List Nat) : (poll qs coll).1 = qs.map List.tail := by
  induction qs generalizing coll with
  | nil => rfl
  | cons q qs ih =>
    cases q with
    | nil => simp [poll, ih]
    | cons m t => cases m <;> simp [poll, ih]

/-- the unrepaired poll raises exactly when the head of some queue is not a step result (`UUID(("DROP_COMPLETE", uuid))`) -/
theorem pollUnrepaired_raises_iff (qs : List (List Msg)) (coll : List Nat) :
    (pollUnrepaired qs coll).2.2 = true ↔ ∃ q ∈ qs, ∃ o t, q = Msg.dropComplete o :: t := by
  induction qs generalizing coll with
  | nil => simp [pollUnrepaired]
  | cons q qs ih =>
    cases q with
    | nil => simp only [pollUnrepaired, List.mem_cons, exists_eq_or_imp]; rw [ih]; simp
    | cons m t =>
      cases m with
      | dropComplete o1 => simp [pollUnrepaired]
      | done v => simp only [pollUnrepaired, List.mem_cons, exists_eq_or_imp]; rw [ih]; simp

/-! ### wait_for_drop_completion -/

theorem waitDrop_perm (o : Nat) (sched : List (List Msg)) (q : List Msg) :
    ((waitDrop o sched q).2 = true → ∃ n, n ≤ sched.length ∧ List.Perm (Msg.dropComplete o :: (waitDrop o sched q).1) (q ++ (sched.take n).flatten)) ∧
    ((waitDrop o sched q).2 = false → List.Perm (waitDrop o sched q).1 (q ++ sched.flatten)) := by
  induction sched generalizing q with
  | nil => simp [waitDrop]
  | cons a rest ih =>
    simp only [waitDrop]
    cases hqa : q ++ a with
    | nil =>
      simp only
      have hq : q = [] := (List.append_eq_nil_iff.mp hqa).1
      have ha : a = [] := (List.append_eq_nil_iff.mp hqa).2
      obtain ⟨ih1, ih2⟩ := ih []
      constructor
      · intro hf
        obtain ⟨n, hn, hp⟩ := ih1 hf
        refine ⟨n + 1, by simp [hn], ?_⟩
        simpa [hq, ha] using hp
      · intro hf
        simpa [hq, ha] using ih2 hf
    | cons m t =>
      simp only
      by_cases hm : m = Msg.dropComplete o
      · simp only [hm, if_true]
        constructor
        · intro _
          refine ⟨1, by simp, ?_⟩
          simp only [List.take_succ_cons, List.take_zero, List.flatten_cons, List.flatten_nil, List.append_nil]
          rw [hqa, hm]
        · intro hf; cases hf
      · simp only [hm, if_false]
        obtain ⟨ih1, ih2⟩ := ih (t ++ [m])
        have hrot : List.Perm (t ++ [m]) (q ++ a) := by rw [hqa]; exact List.perm_append_singleton m t
        constructor
        · intro hf
          obtain ⟨n, hn, hp⟩ := ih1 hf
          refine ⟨n + 1, by simp [hn], ?_⟩
          simp only [List.take_succ_cons, List.flatten_cons]
          rw [← List.append_assoc]
          exact hp.trans (List.Perm.append_right _ hrot)
        · intro hf
          simp only [List.flatten_cons]
          rw [← List.append_assoc]
          exact (ih2 hf).trans (List.Perm.append_right _ hrot)

end Life
