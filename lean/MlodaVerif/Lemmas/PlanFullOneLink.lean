import MlodaVerif.Lemmas.PlanFullMid
import MlodaVerif.Lemmas.PlanFullRank
/-! One link between source groups with consumers below them: the plan `create_execution_plan` builds is runnable. -/
namespace PlanFull
open Sched OptGroup PlanCore

theorem addJoinsteps_append (g : Graph) (t : Trek) (linfo : Nat → LinkInfo) (o : Ord) (fsc : List (List Nat)) :
    ∀ (a b : List PreEl) (s : JState), addJoinsteps g t linfo o fsc (a ++ b) s =
      match addJoinsteps g t linfo o fsc a s with
      | .error e => .error e
      | .ok s1 => addJoinsteps g t linfo o fsc b s1 := by
  intro a
  induction a with
  | nil => intro b s; simp [addJoinsteps]
  | cons el r ih =>
    intro b s
    cases el with
    | step st => simp only [List.cons_append, addJoinsteps, ih]
    | link k =>
      simp only [List.cons_append, addJoinsteps]
      cases runLink g t linfo o fsc s.n k with
      | error e => rfl
      | ok res => cases res with
        | none => simp only [ih]
        | some js => simp only [ih]

/-- the queue with one link entry -/
def oneLinkQueue (qa qb : List (Nat × List (List Nat))) (k : Key) : List QEl := fgQueue qa ++ [QEl.link k] ++ fgQueue qb

def fgsOf (g : Graph) (t : Trek) (o : Ord) (q : List (Nat × List (List Nat))) : List PStep :=
  q.flatMap (fun e => fgOf g t o e.1 e.2)

theorem preSpec_oneLink (g : Graph) (t : Trek) (o : Ord) (qa qb : List (Nat × List (List Nat))) (k : Key) :
    preSpec g t o (oneLinkQueue qa qb k) = (fgsOf g t o qa).map .step ++ [PreEl.link k] ++ (fgsOf g t o qb).map .step := by
  have h1 := preSpec_fgQueue g t o qa
  have h2 := preSpec_fgQueue g t o qb
  unfold preSpec at h1 h2 ⊢
  unfold oneLinkQueue fgsOf
  rw [List.flatMap_append, List.flatMap_append, h1, h2]
  simp [preOf]

theorem similarUuids_nil (lf rf : Nat) : similarUuids [] lf rf = [] := by simp [similarUuids]

/-- the plan handed to `add_tfs`, the JoinStepCollection and the supply for a queue with one link entry that `run_link` accepts -/
theorem planBeforeTfs_oneLink {g : Graph} {t : Trek} {linfo : Nat → LinkInfo} {o : Ord} {n0 : Nat}
    {qa qb : List (Nat × List (List Nat))} {k : Key} {js : PStep}
    (hne : ∀ e ∈ qa ++ qb, ∀ b ∈ e.2, b ≠ [])
    (hjs : runLink g t linfo o (fscOf (preSpec g t o (oneLinkQueue qa qb k))) n0 k = .ok (some js)) :
    planBeforeTfs g t linfo o n0 (oneLinkQueue qa qb k) =
      .ok (fgsOf g t o qa ++ [js] ++ fgsOf g t o qb, [(n0, [])], n0 + 1) := by
  have hbn : BucketsNonempty (oneLinkQueue qa qb k) := by
    intro el hel c bs heq b hb
    simp only [oneLinkQueue, fgQueue, List.mem_append, List.mem_map, List.mem_singleton] at hel
    rcases hel with (⟨e, he, rfl⟩ | rfl) | ⟨e, he, rfl⟩
    · cases heq; exact hne e (List.mem_append_left _ he) b hb
    · cases heq
    · cases heq; exact hne e (List.mem_append_right _ he) b hb
  have hju : js.uuid = n0 := (runLink_notAU hjs).2.2
  have hall : ∀ s ∈ fgsOf g t o qa ++ [js] ++ fgsOf g t o qb, isAU s = false := by
    intro s hs
    simp only [List.mem_append, List.mem_singleton, fgsOf, List.mem_flatMap, fgOf, List.mem_map] at hs
    rcases hs with (⟨e, _, b, _, L, _, rfl⟩ | rfl) | ⟨e, _, b, _, L, _, rfl⟩
    · simp [isAU, mkFg]
    · exact (runLink_notAU hjs).1
    · simp [isAU, mkFg]
  unfold planBeforeTfs
  rw [addFgSteps_of_nonempty hbn]
  simp only
  generalize hfsc : fscOf (preSpec g t o (oneLinkQueue qa qb k)) = fsc at hjs ⊢
  rw [preSpec_oneLink, addJoinsteps_append, addJoinsteps_append, addJoinsteps_steps]
  simp only [List.nil_append, addJoinsteps, hjs, addJoinsteps_steps, similarUuids_nil]
  rw [handleAppendUnion_noAU hall]
  simp [hju]

end PlanFull

namespace PlanFull
open Sched OptGroup PlanCore

/-- the hypotheses of `C04.planCore_wellRanked_partial` on the buckets `B` -/
structure BucketsOK (anc : Nat → List Nat) (B : List (List Nat)) (rb r : Nat → Nat) : Prop where
  nd : B.flatten.Nodup
  ne : ∀ b ∈ B, b ≠ []
  cl : ∀ f ∈ B.flatten, ∀ a ∈ anc f, a ∈ B.flatten
  same : ∀ b ∈ B, ∀ f ∈ b, ∀ g ∈ b, rb f = rb g
  hrb : ∀ b ∈ B, ∀ f ∈ b, ∀ a ∈ anc f, a ∉ b → rb a < rb f
  acyc : ∀ b ∈ B, ∀ u ∈ b, ∀ d ∈ anc u, d ∈ b → r d < r u

/-- position of a feature: rank of its bucket, then index of its level -/
def base (anc : Nat → List Nat) (B : List (List Nat)) (rb : Nat → Nat) (u : Nat) : Nat :=
  rb u * (B.flatten.length + 1) + lvlIdx (splitLevels (bucketOf B u) anc) u

theorem base_level {anc : Nat → List Nat} {B : List (List Nat)} {rb r : Nat → Nat} (hB : BucketsOK anc B rb r)
    {b : List Nat} (hb : b ∈ B) {k : Nat} {L : List Nat} (hk : (splitLevels b anc)[k]? = some L) {f : Nat} (hf : f ∈ L) :
    base anc B rb f = rb f * (B.flatten.length + 1) + k := by
  have hcov := splitLevels_cover b anc
  have hbn := nodup_of_mem_flatten_nodup hB.nd hb
  have hlevnd : (splitLevels b anc).flatten.Nodup := hcov.nodup_iff.mpr hbn
  have hfb : f ∈ b := hcov.mem_iff.mp (List.mem_flatten.mpr ⟨L, List.mem_of_getElem? hk, hf⟩)
  unfold base
  rw [bucketOf_eq hB.nd hb hfb, lvlIdx_of_mem _ k L f hlevnd hk hf]

theorem level_lt {anc : Nat → List Nat} {B : List (List Nat)} {rb r : Nat → Nat} (hB : BucketsOK anc B rb r)
    {b : List Nat} (hb : b ∈ B) {k : Nat} {L : List Nat} (hk : (splitLevels b anc)[k]? = some L) : k < B.flatten.length + 1 := by
  have hjlt : k < (splitLevels b anc).length := (List.getElem?_eq_some_iff.mp hk).1
  have h1 := length_le_flatten_of_nonempty (splitLevels b anc) (splitLevels_nonempty b anc (hB.ne b hb))
  have h2 : (splitLevels b anc).flatten.length = b.length := (splitLevels_cover b anc).length_eq
  have h3 : b.length ≤ B.flatten.length := (List.sublist_flatten_of_mem hb).length_le
  omega

/-- every planned feature lies in a level of a bucket -/
theorem level_of_mem {anc : Nat → List Nat} {B : List (List Nat)} {u : Nat} (hu : u ∈ B.flatten) :
    ∃ b ∈ B, ∃ (j : Nat) (Lj : List Nat), (splitLevels b anc)[j]? = some Lj ∧ u ∈ Lj := by
  obtain ⟨b, hb, hub⟩ := List.mem_flatten.mp hu
  obtain ⟨Lj, hLj, huL⟩ := List.mem_flatten.mp ((splitLevels_cover b anc).mem_iff.mpr hub)
  obtain ⟨j, hj⟩ := List.mem_iff_getElem?.mp hLj
  exact ⟨b, hb, j, Lj, hj, huL⟩

/-- an ancestor of a feature lies strictly before it -/
theorem base_anc_lt {anc : Nat → List Nat} {B : List (List Nat)} {rb r : Nat → Nat} (hB : BucketsOK anc B rb r)
    {b : List Nat} (hb : b ∈ B) {k : Nat} {L : List Nat} (hk : (splitLevels b anc)[k]? = some L) {f : Nat} (hf : f ∈ L)
    {u : Nat} (hu : u ∈ anc f) : base anc B rb u < base anc B rb f := by
  have hcov := splitLevels_cover b anc
  have hfb : f ∈ b := hcov.mem_iff.mp (List.mem_flatten.mpr ⟨L, List.mem_of_getElem? hk, hf⟩)
  rw [base_level hB hb hk hf]
  by_cases hub : u ∈ b
  · obtain ⟨j, hj, Lj, hLj, hdj⟩ := splitLevels_earlier anc b r (hB.acyc b hb) k L hk f hf u hu hub
    rw [base_level hB hb hLj hdj, hB.same b hb u hub f hfb]
    omega
  · have hufl := hB.cl f (List.mem_flatten.mpr ⟨b, hb, hfb⟩) u hu
    obtain ⟨b', hb', j, Lj, hLj, huLj⟩ := level_of_mem (anc := anc) hufl
    rw [base_level hB hb' hLj huLj]
    have hjlt := level_lt hB hb' hLj
    have hlt := hB.hrb b hb f hfb u hu hub
    have : (rb u + 1) * (B.flatten.length + 1) ≤ rb f * (B.flatten.length + 1) := Nat.mul_le_mul_right _ hlt
    have hexp : (rb u + 1) * (B.flatten.length + 1) = rb u * (B.flatten.length + 1) + (B.flatten.length + 1) := by
      rw [Nat.add_mul]; simp
    omega

/-- below / above a rank of buckets -/
theorem base_lt_of_rb_lt {anc : Nat → List Nat} {B : List (List Nat)} {rb r : Nat → Nat} (hB : BucketsOK anc B rb r)
    {u : Nat} (hu : u ∈ B.flatten) {m : Nat} (h : rb u < m) : base anc B rb u + 1 ≤ m * (B.flatten.length + 1) := by
  obtain ⟨b', hb', j, Lj, hLj, huLj⟩ := level_of_mem (anc := anc) hu
  rw [base_level hB hb' hLj huLj]
  have hjlt := level_lt hB hb' hLj
  have : (rb u + 1) * (B.flatten.length + 1) ≤ m * (B.flatten.length + 1) := Nat.mul_le_mul_right _ h
  have hexp : (rb u + 1) * (B.flatten.length + 1) = rb u * (B.flatten.length + 1) + (B.flatten.length + 1) := by
    rw [Nat.add_mul]; simp
  omega

theorem le_base_of_lt_rb {anc : Nat → List Nat} {B : List (List Nat)} {rb : Nat → Nat} {u m : Nat} (h : m < rb u) :
    m * (B.flatten.length + 1) + 1 ≤ base anc B rb u := by
  unfold base
  have : (m + 1) * (B.flatten.length + 1) ≤ rb u * (B.flatten.length + 1) := Nat.mul_le_mul_right _ h
  have hexp : (m + 1) * (B.flatten.length + 1) = m * (B.flatten.length + 1) + (B.flatten.length + 1) := by
    rw [Nat.add_mul]; simp
  omega

end PlanFull

namespace PlanFull
open Sched OptGroup PlanCore

/-- uuid rank of the plan before `add_tfs` for one link: features by bucket rank and level, the JoinStep's two uuids at `rl` -/
def phi (anc : Nat → List Nat) (B : List (List Nat)) (rb : Nat → Nat) (rl link n0 : Nat) (u : Nat) : Nat :=
  if u = link ∨ u = n0 then 2 * (rl * (B.flatten.length + 1)) else 2 * base anc B rb u

/-- hypotheses of the one-link theorem (all decidable for given ranks `rb`, `r`, `rl`): the buckets of the feature-group entries
`fgE` satisfy the hypotheses of `C04.planCore_wellRanked_partial`; the trekker stores exactly the link entry `k` with children `ch`
(planned features) and `order` does not mention the link; the ancestors of the children are ranked below `rl`, every feature of an
entry that contains a child above `rl`; ids below the supply; and, for a join INSIDE one framework (`any_uuid` may be reset to a
left uuid of the join): left/right uuids are planned features, ancestors of left uuids are ranked below `rl`, and only entries
that contain a child of the link have a step that requires a left and a right uuid of the join -/
structure OneLinkOK (g : Graph) (t : Trek) (fgE : List (Nat × List (List Nat))) (B : List (List Nat)) (k : Key) (ch : List Nat)
    (n0 : Nat) (rb r : Nat → Nat) (rl : Nat) (js : PStep) : Prop where
  bdef : fgE.flatMap (·.2) = B
  data : t.data = [(k, ch)]
  order : ∀ e ∈ t.order, k.link ∉ e.2
  buckets : BucketsOK g.anc B rb r
  chmem : ∀ c ∈ ch, c ∈ B.flatten
  below : ∀ c ∈ ch, ∀ a ∈ g.anc c, rb a < rl
  above : ∀ e ∈ fgE, (∃ f ∈ e.2.flatten, f ∈ ch) → ∀ f ∈ e.2.flatten, rl < rb f
  fresh : ∀ f ∈ B.flatten, f < n0
  linkFresh : k.link < n0 ∧ k.link ∉ B.flatten
  lrmem : js.fw = js.fw2 → ∀ x ∈ js.lfu ++ js.rfu, x ∈ B.flatten
  lfu : js.fw = js.fw2 → ∀ sv ∈ js.lfu, ∀ q ∈ g.anc sv, rb q < rl
  reset : js.fw = js.fw2 → ∀ e ∈ fgE, ∀ b ∈ e.2, ∀ L ∈ splitLevels b g.anc,
    (∃ x ∈ js.lfu, x ∈ L.flatMap g.anc) → (∃ y ∈ js.rfu, y ∈ L.flatMap g.anc) → ∃ f ∈ e.2.flatten, f ∈ ch

theorem mem_fgsOf {g : Graph} {t : Trek} {o : Ord} {q : List (Nat × List (List Nat))} {s : PStep} :
    s ∈ fgsOf g t o q ↔ ∃ e ∈ q, ∃ b ∈ e.2, ∃ L ∈ splitLevels b g.anc,
      s = mkFg g e.1 (retrieveLinks t.data e.2.flatten) L (hd o L) := by
  simp only [fgsOf, fgOf, List.mem_flatMap, List.mem_map]
  constructor
  · rintro ⟨e, he, b, hb, L, hL, rfl⟩; exact ⟨e, he, b, hb, L, hL, rfl⟩
  · rintro ⟨e, he, b, hb, L, hL, rfl⟩; exact ⟨e, he, b, hb, L, hL, rfl⟩

theorem fgsOf_append (g : Graph) (t : Trek) (o : Ord) (qa qb : List (Nat × List (List Nat))) :
    fgsOf g t o (qa ++ qb) = fgsOf g t o qa ++ fgsOf g t o qb := by simp [fgsOf]

theorem outs_map_mkFg (g : Graph) (c : Nat) (pre : List Nat) (h : List Nat → Nat) (ls : List (List Nat)) :
    (ls.map (fun L => mkFg g c pre L (h L))).flatMap (·.outs) = ls.flatten := by
  induction ls with
  | nil => rfl
  | cons L rest ih =>
    simp only [List.map_cons, List.flatMap_cons, List.flatten_cons, ih]
    rfl

theorem fgsOf_outs_perm (g : Graph) (t : Trek) (o : Ord) (q : List (Nat × List (List Nat))) :
    ((fgsOf g t o q).flatMap (·.outs)).Perm (q.flatMap (·.2)).flatten := by
  have hfg : ∀ c pre (bs : List (List Nat)),
      ((bs.flatMap (fun b => (splitLevels b g.anc).map (fun L => mkFg g c pre L (hd o L)))).flatMap (·.outs)).Perm bs.flatten := by
    intro c pre bs
    induction bs with
    | nil => simp
    | cons b r ih =>
      simp only [List.flatMap_cons, List.flatMap_append, List.flatten_cons, outs_map_mkFg]
      exact (splitLevels_cover b g.anc).append ih
  induction q with
  | nil => simp [fgsOf]
  | cons e r ih =>
    simp only [fgsOf, List.flatMap_cons, List.flatMap_append, List.flatten_append] at ih ⊢
    exact (hfg e.1 _ e.2).append ih

end PlanFull

namespace PlanFull
open Sched OptGroup PlanCore

theorem collOf_single_nil (u : Nat) : collOf [(u, [])] u = [] := by simp [collOf]

theorem mem_retrieveLinks_single {k : Key} {ch feats : List Nat} {u : Nat} :
    u ∈ retrieveLinks [(k, ch)] feats ↔ u = k.link ∧ ∃ f ∈ feats, f ∈ ch := by
  rw [mem_retrieveLinks]
  constructor
  · rintro ⟨f, hf, e, he, hfe, rfl⟩
    simp only [List.mem_singleton] at he
    subst he
    exact ⟨rfl, f, hf, hfe⟩
  · rintro ⟨rfl, f, hf, hfe⟩
    exact ⟨f, hf, (k, ch), by simp, hfe, rfl⟩

theorem midOK_oneLink {g : Graph} {t : Trek} {linfo : Nat → LinkInfo} {o : Ord} {fsc : List (List Nat)} {n0 : Nat}
    {qa qb : List (Nat × List (List Nat))} {B : List (List Nat)} {k : Key} {ch : List Nat} {rb r : Nat → Nat} {rl : Nat} {js : PStep}
    (hjs : runLink g t linfo o fsc n0 k = .ok (some js)) (hok : OneLinkOK g t (qa ++ qb) B k ch n0 rb r rl js) :
    MidOK g (fgsOf g t o qa ++ [js] ++ fgsOf g t o qb) [(n0, [])] (n0 + 1) (phi g.anc B rb rl k.link n0) := by
  have hB := hok.bdef
  have hBk := hok.buckets
  obtain ⟨lf, rf, ch', l, rr, hlc, _, hjs_eq⟩ := runLink_some hjs
  generalize hred : reduceChildren g.adj ch' = red at hjs_eq
  -- the children `run_link` works with are children stored for the link
  have hch' : ∀ c ∈ ch', c ∈ ch := by
    intro c hc
    rcases (linkChildren_children hlc).2.2 with h | h <;>
    · rw [h, mem_childrenOf, hok.data] at hc
      obtain ⟨e, he, _, hce⟩ := hc
      simp only [List.mem_singleton] at he
      subst he; exact hce
  have hredch : ∀ c ∈ red, c ∈ ch := fun c hc =>
    hch' c (((reduceChildren_spec (adj := g.adj) (linkChildren_children hlc).1).2 c).mp (hred ▸ hc)).1
  have hjk : js.kind = .join := by rw [hjs_eq]
  have hjo : js.outs = [n0, k.link] := by rw [hjs_eq]
  have hjr : js.req = joinReq g t k.link red := by rw [hjs_eq]
  have hju : js.uuid = n0 := by rw [hjs_eq]
  -- membership in the plan
  have hmem : ∀ s, s ∈ fgsOf g t o qa ++ [js] ++ fgsOf g t o qb ↔ s = js ∨ ∃ e ∈ qa ++ qb, ∃ b ∈ e.2, ∃ L ∈ splitLevels b g.anc,
      s = mkFg g e.1 (retrieveLinks t.data e.2.flatten) L (hd o L) := by
    intro s
    rw [List.append_assoc, List.mem_append, List.mem_append, List.mem_singleton, ← mem_fgsOf (o := o) (q := qa ++ qb),
      fgsOf_append, List.mem_append]
    constructor
    · rintro (h | h | h)
      · exact Or.inr (Or.inl h)
      · exact Or.inl h
      · exact Or.inr (Or.inr h)
    · rintro (h | h | h)
      · exact Or.inr (Or.inl h)
      · exact Or.inl h
      · exact Or.inr (Or.inr h)
  have hbB : ∀ e ∈ qa ++ qb, ∀ b ∈ e.2, b ∈ B := by
    intro e he b hb; rw [← hB]; exact List.mem_flatMap.mpr ⟨e, he, hb⟩
  have hBe : ∀ b ∈ B, ∃ e ∈ qa ++ qb, b ∈ e.2 := by
    intro b hb; rw [← hB] at hb; exact List.mem_flatMap.mp hb
  have hLB : ∀ e ∈ qa ++ qb, ∀ b ∈ e.2, ∀ L ∈ splitLevels b g.anc, ∀ f ∈ L, f ∈ B.flatten ∧ f ∈ e.2.flatten := by
    intro e he b hb L hL f hf
    have hfb : f ∈ b := (splitLevels_cover b g.anc).mem_iff.mp (List.mem_flatten.mpr ⟨L, hL, hf⟩)
    exact ⟨List.mem_flatten.mpr ⟨b, hbB e he b hb, hfb⟩, List.mem_flatten.mpr ⟨b, hb, hfb⟩⟩
  have hphiF : ∀ f ∈ B.flatten, phi g.anc B rb rl k.link n0 f = 2 * base g.anc B rb f := by
    intro f hf
    have h1 : f ≠ k.link := fun h => hok.linkFresh.2 (h ▸ hf)
    have h2 : f ≠ n0 := Nat.ne_of_lt (hok.fresh f hf)
    simp [phi, h1, h2]
  have hphiL : phi g.anc B rb rl k.link n0 k.link = 2 * (rl * (B.flatten.length + 1)) := by simp [phi]
  have hphiN : phi g.anc B rb rl k.link n0 n0 = 2 * (rl * (B.flatten.length + 1)) := by simp [phi]
  -- the step that produces a planned feature
  have hprod : ∀ u ∈ B.flatten, ∃ sj ∈ fgsOf g t o qa ++ [js] ++ fgsOf g t o qb, u ∈ sj.outs := by
    intro u hu
    obtain ⟨b', hb', j, Lj, hLj, huLj⟩ := level_of_mem (anc := g.anc) hu
    obtain ⟨e', he', hbe'⟩ := hBe b' hb'
    exact ⟨_, (hmem _).mpr (Or.inr ⟨e', he', b', hbe', Lj, List.mem_of_getElem? hLj, rfl⟩), huLj⟩
  -- rank facts for a level
  have hlevel : ∀ e ∈ qa ++ qb, ∀ b ∈ e.2, ∀ L ∈ splitLevels b g.anc, ∀ f ∈ L, ∀ v ∈ L, base g.anc B rb f = base g.anc B rb v := by
    intro e he b hb L hL f hf v hv
    obtain ⟨kk, hkk⟩ := List.mem_iff_getElem?.mp hL
    have hfb : f ∈ b := (splitLevels_cover b g.anc).mem_iff.mp (List.mem_flatten.mpr ⟨L, hL, hf⟩)
    have hvb : v ∈ b := (splitLevels_cover b g.anc).mem_iff.mp (List.mem_flatten.mpr ⟨L, hL, hv⟩)
    rw [base_level hBk (hbB e he b hb) hkk hf, base_level hBk (hbB e he b hb) hkk hv, hBk.same b (hbB e he b hb) f hfb v hvb]
  have hancLt : ∀ e ∈ qa ++ qb, ∀ b ∈ e.2, ∀ L ∈ splitLevels b g.anc, ∀ f ∈ L, ∀ u ∈ g.anc f, ∀ v ∈ L,
      u ∈ B.flatten ∧ base g.anc B rb u < base g.anc B rb v := by
    intro e he b hb L hL f hf u hu v hv
    obtain ⟨kk, hkk⟩ := List.mem_iff_getElem?.mp hL
    refine ⟨hBk.cl f (hLB e he b hb L hL f hf).1 u hu, ?_⟩
    rw [← hlevel e he b hb L hL f hf v hv]
    exact base_anc_lt hBk (hbB e he b hb) hkk hf hu
  refine ⟨?_, ?_, ?_, ?_, ?_, ?_, ?_⟩
  · -- no transform steps
    intro s hs
    rcases (hmem s).mp hs with rfl | ⟨e, _, b, _, L, _, rfl⟩
    · rw [hjk]; simp
    · simp [mkFg]
  · -- non-empty outputs
    intro s hs
    rcases (hmem s).mp hs with rfl | ⟨e, he, b, hb, L, hL, rfl⟩
    · rw [hjo]; simp
    · exact splitLevels_nonempty b g.anc (hBk.ne b (hbB e he b hb)) L hL
  · -- pairwise different outputs
    have hperm : ((fgsOf g t o qa ++ [js] ++ fgsOf g t o qb).flatMap (·.outs)).Perm (B.flatten ++ [n0, k.link]) := by
      simp only [List.flatMap_append, List.flatMap_cons, List.flatMap_nil, List.append_nil, hjo]
      have h1 := fgsOf_outs_perm g t o (qa ++ qb)
      rw [fgsOf_append, List.flatMap_append, hB] at h1
      generalize (fgsOf g t o qa).flatMap (·.outs) = X at h1 ⊢
      generalize (fgsOf g t o qb).flatMap (·.outs) = Y at h1 ⊢
      have e1 : (X ++ [n0, k.link] ++ Y).Perm (X ++ Y ++ [n0, k.link]) := by
        rw [List.append_assoc, List.append_assoc]
        exact List.Perm.append_left X List.perm_append_comm
      exact e1.trans (List.Perm.append_right _ h1)
    rw [hperm.nodup_iff, List.nodup_append]
    refine ⟨hBk.nd, ?_, ?_⟩
    · simp only [List.nodup_cons, List.mem_singleton, List.not_mem_nil, not_false_eq_true, List.nodup_nil, and_true]
      exact Nat.ne_of_gt hok.linkFresh.1
    · intro u hu v hv
      simp only [List.mem_cons, List.not_mem_nil, or_false] at hv
      rcases hv with rfl | rfl
      · exact Nat.ne_of_lt (hok.fresh u hu)
      · exact fun h => hok.linkFresh.2 (h ▸ hu)
  · -- below the supply
    intro u hu
    obtain ⟨s, hs, hus⟩ := List.mem_flatMap.mp hu
    rcases (hmem s).mp hs with rfl | ⟨e, he, b, hb, L, hL, rfl⟩
    · rw [hjo] at hus
      simp only [List.mem_cons, List.not_mem_nil, or_false] at hus
      rcases hus with rfl | rfl
      · exact Nat.lt_succ_self _
      · exact Nat.lt_succ_of_lt hok.linkFresh.1
    · exact Nat.lt_succ_of_lt (hok.fresh u (hLB e he b hb L hL u hus).1)
  · -- the rank is constant on the outputs of a step
    intro s hs u hu v hv
    rcases (hmem s).mp hs with rfl | ⟨e, he, b, hb, L, hL, rfl⟩
    · rw [hjo] at hu hv
      simp only [List.mem_cons, List.not_mem_nil, or_false] at hu hv
      rcases hu with rfl | rfl <;> rcases hv with rfl | rfl <;> simp [hphiL, hphiN]
    · rw [hphiF u (hLB e he b hb L hL u hu).1, hphiF v (hLB e he b hb L hL v hv).1, hlevel e he b hb L hL u hu v hv]
  · -- every required uuid is produced two ranks below
    intro s hs u hu
    rcases (hmem s).mp hs with rfl | ⟨e, he, b, hb, L, hL, rfl⟩
    · -- the JoinStep
      have hu' : u ∈ s.req := by
        simp only [reqExt, hju, collOf_single_nil, ite_self, List.append_nil] at hu
        exact hu
      rw [hjr, mem_joinReq] at hu'
      rcases hu' with ⟨c, hc, huc⟩ | ⟨e, he, hl, _⟩
      · have hcch := hredch c hc
        have huB : u ∈ B.flatten := hBk.cl c (hok.chmem c hcch) u huc
        obtain ⟨sj, hsj, husj⟩ := hprod u huB
        refine ⟨sj, hsj, husj, ?_⟩
        intro v hv
        rw [hjo] at hv
        have hb := base_lt_of_rb_lt hBk huB (hok.below c hcch u huc)
        simp only [List.mem_cons, List.not_mem_nil, or_false] at hv
        rcases hv with rfl | rfl
        · rw [hphiN, hphiF u huB]; omega
        · rw [hphiL, hphiF u huB]; omega
      · exact absurd hl (hok.order e he)
    · -- a FeatureGroupStep
      have hu' : u ∈ L.flatMap g.anc ∨ u ∈ retrieveLinks t.data e.2.flatten := by
        simp only [reqExt, mkFg] at hu
        simpa [List.mem_eraseDups, List.mem_append] using hu
      rcases hu' with hu' | hu'
      · obtain ⟨f, hf, huf⟩ := List.mem_flatMap.mp hu'
        have h0 := hancLt e he b hb L hL f hf u huf
        obtain ⟨v0, hv0⟩ := List.exists_mem_of_ne_nil _ (splitLevels_nonempty b g.anc (hBk.ne b (hbB e he b hb)) L hL)
        obtain ⟨sj, hsj, husj⟩ := hprod u (h0 v0 hv0).1
        refine ⟨sj, hsj, husj, ?_⟩
        intro v hv
        have := (h0 v hv).2
        rw [hphiF u (h0 v hv).1, hphiF v (hLB e he b hb L hL v hv).1]
        omega
      · rw [hok.data, mem_retrieveLinks_single] at hu'
        obtain ⟨rfl, f, hf, hfch⟩ := hu'
        refine ⟨js, (hmem js).mpr (Or.inl rfl), by rw [hjo]; simp, ?_⟩
        intro v hv
        have hvv := hLB e he b hb L hL v hv
        have := le_base_of_lt_rb (anc := g.anc) (B := B) (hok.above e he ⟨f, hf, hfch⟩ v hvv.2)
        rw [hphiL, hphiF v hvv.1]
        omega
  · -- the parents a FeatureGroupStep gets transform steps for
    intro s hs hsk a ha q hq _
    rcases (hmem s).mp hs with rfl | ⟨e, he, b, hb, L, hL, rfl⟩
    · rw [hjk] at hsk; cases hsk
    · rcases ha with ha | ⟨js', hjs', hjk', hsame, sv, hsv, hasv, ⟨x, hx1, hx2⟩, ⟨y, hy1, hy2⟩⟩
      · -- the representative the step was built with
        have hane := splitLevels_nonempty b g.anc (hBk.ne b (hbB e he b hb)) L hL
        have haL : a ∈ L := by
          simp only [mkFg, Option.some.injEq] at ha
          rw [ha]; exact hd_mem o hane
        have h0 := hancLt e he b hb L hL a haL q hq
        obtain ⟨v0, hv0⟩ := List.exists_mem_of_ne_nil _ hane
        obtain ⟨sj, hsj, husj⟩ := hprod q (h0 v0 hv0).1
        refine ⟨sj, hsj, husj, ?_⟩
        intro v hv
        have := (h0 v hv).2
        rw [hphiF q (h0 v hv).1, hphiF v (hLB e he b hb L hL v hv).1]
        omega
      · -- reset to a left uuid of the (same-framework) join
        have : js' = js := by
          rcases (hmem js').mp hjs' with h | ⟨e', _, b', _, L', _, rfl⟩
          · exact h
          · simp [mkFg] at hjk'
        subst this
        cases hasv
        have hxB := hok.lrmem hsame x (List.mem_append_left _ hx1)
        have hyB := hok.lrmem hsame y (List.mem_append_right _ hy1)
        -- x and y are not the link uuid, so they are ancestors of the level
        have inAnc : ∀ z ∈ B.flatten, z ∈ (mkFg g e.1 (retrieveLinks t.data e.2.flatten) L (hd o L)).req → z ∈ L.flatMap g.anc := by
          intro z hzB hz
          simp only [mkFg, List.mem_eraseDups, List.mem_append] at hz
          rcases hz with hz | hz
          · exact hz
          · rw [hok.data, mem_retrieveLinks_single] at hz
            exact absurd hzB (hz.1 ▸ hok.linkFresh.2)
        obtain ⟨f, hf, hfch⟩ := hok.reset hsame e he b hb L hL ⟨x, hx1, inAnc x hxB hx2⟩ ⟨y, hy1, inAnc y hyB hy2⟩
        have hsvB := hok.lrmem hsame a (List.mem_append_left _ hsv)
        have hqB : q ∈ B.flatten := hBk.cl a hsvB q hq
        obtain ⟨sj, hsj, husj⟩ := hprod q hqB
        refine ⟨sj, hsj, husj, ?_⟩
        intro v hv
        have hvv := hLB e he b hb L hL v hv
        have h1 := base_lt_of_rb_lt hBk hqB (hok.lfu hsame a hsv q hq)
        have h2 := le_base_of_lt_rb (anc := g.anc) (B := B) (hok.above e he ⟨f, hf, hfch⟩ v hvv.2)
        rw [hphiF q hqB, hphiF v hvv.1]
        omega

end PlanFull
