import MlodaVerif.Lemmas.EngineBasic
/-! # Safety side: the collection only grows, no two `==` features in a group, every collected entry is legitimate -/
namespace EngineColl
open Graph (Dict dget dset sadd)

/-! ## small facts about the pure pieces -/

theorem prepare_fields {w : World} {L : Option (List Link)} {f f' : Feat} {g : Nat} (h : prepare w L f = .ok (g, f')) :
    f'.link = f.link ∧ f'.req = f.req ∧ f'.uuid = f.uuid ∧ prepareK w L f.key = .ok (g, f'.key) := by
  unfold prepare at h
  cases hk : prepareK w L f.key with
  | error e => rw [hk] at h; simp at h
  | ok r =>
    obtain ⟨g0, k⟩ := r
    rw [hk] at h
    simp only [Except.ok.injEq, Prod.mk.injEq] at h
    obtain ⟨h1, h2⟩ := h
    subst h1; subst h2
    exact ⟨rfl, rfl, rfl, rfl⟩

theorem prepare_of_prepareK {w : World} {L : Option (List Link)} {f : Feat} {g : Nat} {k : Key} (h : prepareK w L f.key = .ok (g, k)) :
    prepare w L f = .ok (g, { f with key := k }) := by
  unfold prepare; rw [h]

theorem mkInput_fields {p : Key} {t f : Feat} {u : Nat} (h : mkInput p t u = .ok f) :
    f.link = t.link ∧ f.req = t.req ∧ f.uuid = u ∧ f.key.child = some p.grp ∧ f.key.name = t.key.name := by
  unfold mkInput at h
  cases hm : mergeOpts t.key.grp t.key.ctx p.grp p.ctx with
  | error e => rw [hm] at h; simp at h
  | ok g' =>
    rw [hm] at h
    simp only [Except.ok.injEq] at h
    subst h
    exact ⟨rfl, rfl, rfl, rfl, rfl⟩

/-- `mkInput` does not look at the uuid it stamps on the feature -/
theorem mkInput_uuid_indep {p : Key} {t f : Feat} {u : Nat} (h : mkInput p t u = .ok f) (u' : Nat) :
    mkInput p t u' = .ok { f with uuid := u' } := by
  unfold mkInput at h ⊢
  cases hm : mergeOpts t.key.grp t.key.ctx p.grp p.ctx with
  | error e => rw [hm] at h; simp at h
  | ok g' =>
    rw [hm] at h
    simp only [Except.ok.injEq] at h
    subst h
    rfl

theorem buildFeatures_mem {p : Key} : ∀ {ts : List Feat} {n : Nat} {acc fs : List Feat}, buildFeatures p ts n acc = .ok fs →
    ∀ f ∈ fs, f ∈ acc ∨ ∃ t ∈ ts, ∃ u, n ≤ u ∧ u < n + ts.length ∧ mkInput p t u = .ok f := by
  intro ts
  induction ts with
  | nil => intro n acc fs h f hf; simp only [buildFeatures, Except.ok.injEq] at h; subst h; exact Or.inl hf
  | cons t ts ih =>
    intro n acc fs h f hf
    unfold buildFeatures at h
    cases hm : mkInput p t n with
    | error e => rw [hm] at h; simp at h
    | ok f0 =>
      rw [hm] at h
      simp only at h
      cases hd : dupCheck f0.key acc with
      | error e => rw [hd] at h; simp at h
      | ok _ =>
        rw [hd] at h
        simp only at h
        rcases ih h f hf with h1 | ⟨t', ht', u, hu1, hu2, hu⟩
        · rw [List.mem_append] at h1
          rcases h1 with h1 | h1
          · exact Or.inl h1
          · simp only [List.mem_singleton] at h1
            subst h1
            exact Or.inr ⟨t, List.mem_cons_self, n, Nat.le_refl _, by simp only [List.length_cons]; omega, hm⟩
        · exact Or.inr ⟨t', List.mem_cons_of_mem _ ht', u, by omega, by simp only [List.length_cons]; omega, hu⟩

theorem mkInputs_mem {p : Key} {ts fs : List Feat} {n : Nat} (h : mkInputs p ts n = .ok fs) :
    ∀ f ∈ fs, ∃ t ∈ ts, ∃ u, n ≤ u ∧ u < n + ts.length ∧ mkInput p t u = .ok f := by
  intro f hf
  rcases buildFeatures_mem h f hf with h1 | h1
  · simp at h1
  · exact h1

theorem buildFeatures_acc {p : Key} : ∀ {ts : List Feat} {n : Nat} {acc fs : List Feat}, buildFeatures p ts n acc = .ok fs →
    ∀ f ∈ acc, f ∈ fs := by
  intro ts
  induction ts with
  | nil => intro n acc fs h f hf; simp only [buildFeatures, Except.ok.injEq] at h; subst h; exact hf
  | cons t ts ih =>
    intro n acc fs h f hf
    unfold buildFeatures at h
    cases hm : mkInput p t n with
    | error e => rw [hm] at h; simp at h
    | ok f0 =>
      rw [hm] at h
      simp only at h
      cases hd : dupCheck f0.key acc with
      | error e => rw [hd] at h; simp at h
      | ok _ =>
        rw [hd] at h
        simp only at h
        exact ih h f (List.mem_append_left _ hf)

/-- every template becomes one of the features of the `Features` object -/
theorem buildFeatures_complete {p : Key} : ∀ {ts : List Feat} {n : Nat} {acc fs : List Feat}, buildFeatures p ts n acc = .ok fs →
    ∀ t ∈ ts, ∃ f ∈ fs, ∃ u, mkInput p t u = .ok f := by
  intro ts
  induction ts with
  | nil => intro n acc fs _ t ht; simp at ht
  | cons t0 ts ih =>
    intro n acc fs h t ht
    unfold buildFeatures at h
    cases hm : mkInput p t0 n with
    | error e => rw [hm] at h; simp at h
    | ok f0 =>
      rw [hm] at h
      simp only at h
      cases hd : dupCheck f0.key acc with
      | error e => rw [hd] at h; simp at h
      | ok _ =>
        rw [hd] at h
        simp only at h
        rw [List.mem_cons] at ht
        rcases ht with rfl | ht
        · exact ⟨f0, buildFeatures_acc h f0 (List.mem_append_right _ (List.mem_singleton.mpr rfl)), n, hm⟩
        · exact ih h t ht

theorem mkInputs_complete {p : Key} {ts fs : List Feat} {n : Nat} (h : mkInputs p ts n = .ok fs) :
    ∀ t ∈ ts, ∃ f ∈ fs, ∃ u, mkInput p t u = .ok f := buildFeatures_complete h

/-! ## the collection only grows -/

/-- `s` extends `st`: same entries in front, the uuid counter did not go back -/
def Ext (st s : St) : Prop := (∃ extra, s.coll = st.coll ++ extra) ∧ st.next ≤ s.next

theorem Ext.refl (st : St) : Ext st st := ⟨⟨[], by simp⟩, Nat.le_refl _⟩

theorem Ext.trans {a b c : St} (h1 : Ext a b) (h2 : Ext b c) : Ext a c := by
  obtain ⟨⟨e1, h1⟩, n1⟩ := h1
  obtain ⟨⟨e2, h2⟩, n2⟩ := h2
  exact ⟨⟨e1 ++ e2, by rw [h2, h1, List.append_assoc]⟩, Nat.le_trans n1 n2⟩

theorem Ext.mem {a b : St} (h : Ext a b) {e : Nat × Feat} (he : e ∈ a.coll) : e ∈ b.coll := by
  obtain ⟨⟨x, hx⟩, _⟩ := h
  rw [hx]; exact List.mem_append_left _ he

theorem Ext.inColl {a b : St} (h : Ext a b) {g : Nat} {k : Key} (hk : inColl a.coll g k = true) : inColl b.coll g k = true := by
  rw [inColl_iff] at hk ⊢
  obtain ⟨e, he, hc⟩ := hk
  exact ⟨e, h.mem he, hc⟩

theorem addFeature_ext {w : World} {st : St} {g : Nat} {f : Feat} {cu : Option Nat} {ix : Bool} {st' : St} {b : Bool}
    (h : addFeature w st g f cu ix = .ok (st', b)) : Ext st st' := by
  rcases addFeature_cases h with ⟨_, _, rfl⟩ | ⟨_, _, hc, _, hn, _⟩
  · exact ⟨⟨[(g, f)], rfl⟩, Nat.le_refl _⟩
  · exact ⟨⟨[], by rw [hc]; simp⟩, by rw [hn]; exact Nat.le_refl _⟩

theorem addFilters_ext {w : World} {st : St} {g : Nat} {f : Feat} {cu : Option Nat} {st' : St}
    (h : addFilters w st g f cu = .ok st') : Ext st st' := by
  apply addFilters_inv (I := fun s => Ext st s) h (Ext.refl st)
  · intro s hs; exact ⟨hs.1, hs.2⟩
  · intro s m s2 b hs _ ha
    refine Ext.trans (Ext.trans hs ?_) (addFeature_ext ha)
    exact ⟨⟨[], by simp⟩, by simp only; omega⟩

theorem addIndexes_ext {w : World} {st : St} {g : Nat} {f : Feat} {cu : Option Nat} {st' : St}
    (h : addIndexes w st g f cu = .ok st') : Ext st st' := by
  apply addIndexes_inv (I := fun s => Ext st s) h (Ext.refl st)
  intro s ix xf s2 b hs _ _ ha
  refine Ext.trans (Ext.trans hs ?_) (addFeature_ext ha)
  exact ⟨⟨[], by simp⟩, by simp only; omega⟩

theorem Run.ext {w : World} {st : St} {cu : Option Nat} {fs : List Feat} {st' : St} (h : Run w st cu fs st') : Ext st st' := by
  induction h with
  | nil st cu => exact Ext.refl st
  | leaf hp ha hl hf hi hr ih =>
    exact Ext.trans (Ext.trans (Ext.trans (addFeature_ext ha) (addFilters_ext hf)) (addIndexes_ext hi)) ih
  | node hp ha hin hm hc hf hi hr ihc ihr =>
    refine Ext.trans (Ext.trans (Ext.trans (Ext.trans (addFeature_ext ha) ?_) (addFilters_ext hf)) (addIndexes_ext hi)) ihr
    refine Ext.trans ?_ ihc
    exact ⟨⟨[], by simp⟩, by simp only; omega⟩

/-! ## no two `==` features in one group -/

/-- no two entries of one group carry the same key (`Feature.__eq__`) -/
def NoDupKeys (coll : List (Nat × Feat)) : Prop := coll.Pairwise (fun a b => ¬ (a.1 = b.1 ∧ a.2.key = b.2.key))

theorem addFeature_nodup {w : World} {st : St} {g : Nat} {f : Feat} {cu : Option Nat} {ix : Bool} {st' : St} {b : Bool}
    (h : addFeature w st g f cu ix = .ok (st', b)) (hn : NoDupKeys st.coll) : NoDupKeys st'.coll := by
  rcases addFeature_cases h with ⟨_, hin, rfl⟩ | ⟨_, _, hc, _⟩
  · simp only
    unfold NoDupKeys
    rw [List.pairwise_append]
    refine ⟨hn, List.pairwise_singleton _ _, ?_⟩
    intro a ha b hb
    simp only [List.mem_singleton] at hb
    subst hb
    rw [inColl_false_iff] at hin
    exact hin a ha
  · rw [hc]; exact hn

theorem addFilters_nodup {w : World} {st : St} {g : Nat} {f : Feat} {cu : Option Nat} {st' : St}
    (h : addFilters w st g f cu = .ok st') (hn : NoDupKeys st.coll) : NoDupKeys st'.coll := by
  apply addFilters_inv (I := fun s => NoDupKeys s.coll) h hn
  · intro s hs; exact hs
  · intro s m s2 b hs _ ha; exact addFeature_nodup ha hs

theorem addIndexes_nodup {w : World} {st : St} {g : Nat} {f : Feat} {cu : Option Nat} {st' : St}
    (h : addIndexes w st g f cu = .ok st') (hn : NoDupKeys st.coll) : NoDupKeys st'.coll := by
  apply addIndexes_inv (I := fun s => NoDupKeys s.coll) h hn
  intro s ix xf s2 b hs _ _ ha; exact addFeature_nodup ha hs

theorem Run.nodup {w : World} {st : St} {cu : Option Nat} {fs : List Feat} {st' : St} (h : Run w st cu fs st')
    (hn : NoDupKeys st.coll) : NoDupKeys st'.coll := by
  induction h with
  | nil st cu => exact hn
  | leaf hp ha hl hf hi hr ih => exact ih (addIndexes_nodup hi (addFilters_nodup hf (addFeature_nodup ha hn)))
  | node hp ha hin hm hc hf hi hr ihc ihr =>
    have h1 : NoDupKeys _ := addFeature_nodup ha hn
    exact ihr (addIndexes_nodup hi (addFilters_nodup hf (ihc h1)))

/-! ## every collected entry is legitimate -/

/-- the hypotheses under which the closure is stated: what `input_features` returns and the filter features are plain
(no `link`, not flagged, filter features without `child_options`) -/
structure PlainWorld (w : World) : Prop where
  inputs_nolink : ∀ g k ts t, w.inputs g k = some ts → t ∈ ts → t.link = none
  inputs_unflagged : ∀ g k ts t, w.inputs g k = some ts → t ∈ ts → t.req = false
  filters_plain : ∀ fl flt, w.filters = some fl → flt ∈ fl → flt.key.child = none

/-- the request as mlodaAPI hands it over: every feature flagged, none with `child_options`, none carrying a `link` -/
def PlainReq (req : List Feat) : Prop := ∀ q ∈ req, q.link = none ∧ q.req = true ∧ q.key.child = none

/-- the features `_process_feature` prepares: the requested ones and, transitively, the input features of every prepared feature
(what `Features(...)` makes of a template: `mkInput`, any uuid) -/
inductive Proc (w : World) (L : Option (List Link)) (req : List Feat) : Nat → Feat → Prop
  | req {q f : Feat} {g : Nat} : q ∈ req → prepare w L q = .ok (g, f) → Proc w L req g f
  | dep {g g' : Nat} {p t t' f' : Feat} {ts : List Feat} {u : Nat} : Proc w L req g p → w.inputs g p.key = some ts → t ∈ ts →
      mkInput p.key t u = .ok t' → prepare w L t' = .ok (g', f') → Proc w L req g' f'

/-- what may be found in the collection: prepared features, and the filter / index features of prepared features (those are only
inserted when they differ from the feature they were made for - that one is collected or represented already) -/
inductive Legit (w : World) (L : Option (List Link)) (req : List Feat) : Nat → Feat → Prop
  | proc {g : Nat} {f : Feat} : Proc w L req g f → Legit w L req g f
  | filt {g : Nat} {p : Feat} {m : Filt} {u : Nat} : Proc w L req g p → FilterMatch w g p.key m → (filterFeat w g m u).key ≠ p.key →
      Legit w L req g (filterFeat w g m u)
  | idx {g : Nat} {p xf : Feat} {ix : List Name} {u : Nat} : Proc w L req g p → IndexMatch w L g ix → indexFeat w g p ix u = .ok xf →
      xf.key ≠ p.key → Legit w L req g xf

theorem addLink_none (l : Option (List Link)) : addLink l none = l := by
  unfold addLink; rfl

theorem indexFeat_link {w : World} {g : Nat} {f xf : Feat} {ix : List Name} {u : Nat} (h : indexFeat w g f ix u = .ok xf) :
    xf.link = none ∧ xf.req = false ∧ xf.uuid = u ∧ xf.key.child = none := by
  unfold indexFeat at h
  cases ix with
  | nil => simp at h
  | cons n rest =>
    simp only [Except.ok.injEq] at h
    subst h
    exact ⟨rfl, rfl, rfl, rfl⟩

/-- the invariant of the safety side -/
def SInv (w : World) (L : Option (List Link)) (req : List Feat) (st : St) : Prop :=
  st.links = L ∧ ∀ e ∈ st.coll, Legit w L req e.1 e.2

theorem addFeature_links {w : World} {st : St} {g : Nat} {f : Feat} {cu : Option Nat} {ix : Bool} {st' : St} {b : Bool}
    (h : addFeature w st g f cu ix = .ok (st', b)) (hl : f.link = none) : st'.links = st.links := by
  rcases addFeature_cases h with ⟨_, _, rfl⟩ | ⟨_, _, _, hl', _⟩
  · simp only [hl, addLink_none]
  · exact hl'

theorem addFeature_sinv {w : World} {L : Option (List Link)} {req : List Feat} {st : St} {g : Nat} {f : Feat} {cu : Option Nat} {ix : Bool}
    {st' : St} {b : Bool} (h : addFeature w st g f cu ix = .ok (st', b)) (hs : SInv w L req st) (hl : f.link = none)
    (hleg : inColl st.coll g f.key = false → Legit w L req g f) : SInv w L req st' := by
  refine ⟨by rw [addFeature_links h hl]; exact hs.1, ?_⟩
  rcases addFeature_cases h with ⟨_, hin, rfl⟩ | ⟨_, _, hc, _⟩
  · intro e he
    simp only [List.mem_append, List.mem_singleton] at he
    rcases he with he | rfl
    · exact hs.2 e he
    · exact hleg hin
  · rw [hc]; exact hs.2

theorem addFilters_sinv {w : World} {L : Option (List Link)} {req : List Feat} {st : St} {g : Nat} {f : Feat} {cu : Option Nat} {st' : St}
    (h : addFilters w st g f cu = .ok st') (hs : SInv w L req st) (hp : Proc w L req g f) (hin : inColl st.coll g f.key = true) :
    SInv w L req st' := by
  have : SInv w L req st' ∧ inColl st'.coll g f.key = true := by
    apply addFilters_inv (I := fun s => SInv w L req s ∧ inColl s.coll g f.key = true) h ⟨hs, hin⟩
    · intro s hs; exact hs
    · intro s m s2 b hs hm ha
      refine ⟨addFeature_sinv ha ⟨hs.1.1, hs.1.2⟩ rfl ?_, (addFeature_ext ha).inColl hs.2⟩
      intro hnew
      apply Legit.filt hp hm
      intro hk
      simp only at hnew
      rw [hk, hs.2] at hnew
      exact absurd hnew (by simp)
  exact this.1

theorem addIndexes_sinv {w : World} {L : Option (List Link)} {req : List Feat} {st : St} {g : Nat} {f : Feat} {cu : Option Nat} {st' : St}
    (h : addIndexes w st g f cu = .ok st') (hs : SInv w L req st) (hp : Proc w L req g f) (hin : inColl st.coll g f.key = true) :
    SInv w L req st' := by
  have : SInv w L req st' ∧ inColl st'.coll g f.key = true := by
    apply addIndexes_inv (I := fun s => SInv w L req s ∧ inColl s.coll g f.key = true) h ⟨hs, hin⟩
    intro s ix xf s2 b hs' hm hxf ha
    have hxl := indexFeat_link hxf
    refine ⟨addFeature_sinv ha ⟨hs'.1.1, hs'.1.2⟩ hxl.1 ?_, (addFeature_ext ha).inColl hs'.2⟩
    intro hnew
    rw [hs.1] at hm
    have hxf' : indexFeat w g f ix s.next = .ok xf := hxf
    apply Legit.idx hp hm hxf'
    intro hk
    simp only at hnew
    rw [hk, hs'.2] at hnew
    exact absurd hnew (by simp)
  exact this.1

/-- the features handed to one `Run` are legitimate to process -/
def Feed (w : World) (L : Option (List Link)) (req : List Feat) (fs : List Feat) : Prop :=
  ∀ f ∈ fs, f.link = none ∧ ∀ g f', prepare w L f = .ok (g, f') → Proc w L req g f'

theorem Run.sinv {w : World} {L : Option (List Link)} {req : List Feat} (hw : PlainWorld w)
    {st : St} {cu : Option Nat} {fs : List Feat} {st' : St} (h : Run w st cu fs st')
    (hs : SInv w L req st) (hfeed : Feed w L req fs) : SInv w L req st' := by
  induction h with
  | nil st cu => exact hs
  | @leaf st st1 st3 st4 st5 cu f f3 g added rest hp ha hl hf hi hr ih =>
    have hfd := hfeed f List.mem_cons_self
    rw [hs.1] at hp
    have hproc : Proc w L req g f3 := hfd.2 g f3 hp
    have hlink : f3.link = none := by rw [(prepare_fields hp).1]; exact hfd.1
    have h1 : SInv w L req st1 := addFeature_sinv ha hs hlink (fun _ => Legit.proc hproc)
    have hin1 : inColl st1.coll g f3.key = true := addFeature_inColl ha
    have h3 : SInv w L req st3 := addFilters_sinv hf h1 hproc hin1
    have hin3 : inColl st3.coll g f3.key = true := (addFilters_ext hf).inColl hin1
    have h4 : SInv w L req st4 := addIndexes_sinv hi h3 hproc hin3
    exact ih h4 (fun x hx => hfeed x (List.mem_cons_of_mem _ hx))
  | @node st st1 st2 st3 st4 st5 cu f f3 g t ts fs rest hp ha hin hm hc hf hi hr ihc ihr =>
    have hfd := hfeed f List.mem_cons_self
    rw [hs.1] at hp
    have hproc : Proc w L req g f3 := hfd.2 g f3 hp
    have hlink : f3.link = none := by rw [(prepare_fields hp).1]; exact hfd.1
    have h1 : SInv w L req st1 := addFeature_sinv ha hs hlink (fun _ => Legit.proc hproc)
    have hin1 : inColl st1.coll g f3.key = true := addFeature_inColl ha
    have hfeedc : Feed w L req fs := by
      intro x hx
      obtain ⟨t', ht', u, _, _, hmk⟩ := mkInputs_mem hm x hx
      refine ⟨by rw [(mkInput_fields hmk).1]; exact hw.inputs_nolink g f3.key _ t' hin ht', ?_⟩
      intro g' f' hpx
      exact Proc.dep hproc hin ht' hmk hpx
    have h2 : SInv w L req st2 := ihc ⟨h1.1, h1.2⟩ hfeedc
    have hin2 : inColl st2.coll g f3.key = true := by
      have : Ext st1 st2 := Ext.trans ⟨⟨[], by simp⟩, by simp only; omega⟩ hc.ext
      exact this.inColl hin1
    have h3 : SInv w L req st3 := addFilters_sinv hf h2 hproc hin2
    have hin3 : inColl st3.coll g f3.key = true := (addFilters_ext hf).inColl hin2
    have h4 : SInv w L req st4 := addIndexes_sinv hi h3 hproc hin3
    exact ihr h4 (fun x hx => hfeed x (List.mem_cons_of_mem _ hx))

end EngineColl
