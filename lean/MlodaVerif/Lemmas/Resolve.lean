import MlodaVerif.Model.Resolve
import MlodaVerif.Lemmas.Links
/-! Helper lemmas for C10 (no Mathlib). -/
namespace Resolve

theorem contains_perm {l l' : List Nat} (h : l.Perm l') (a : Nat) : l.contains a = l'.contains a := by
  rw [Bool.eq_iff_iff, List.contains_iff_mem, List.contains_iff_mem]
  exact h.mem_iff

theorem validate_perm {l l' : List (FG × List Cfw)} (h : l.Perm l') : validate l = validate l' := by
  match l, l', h with
  | [], l', h => rw [List.nil_perm.mp h]
  | [p], l', h => rw [List.singleton_perm.mp h]
  | a :: b :: t, [], h => exact absurd h.length_eq (by simp)
  | a :: b :: t, [q], h => exact absurd h.length_eq (by simp)
  | a :: b :: t, c :: d :: t', _ => rfl

theorem popped_perm (W : World) {l l' : List (FG × List Cfw)} (h : l.Perm l') (o : FG × List Cfw) :
    popped W l o = popped W l' o := h.any_eq

theorem filterSubclasses_perm (W : World) {l l' : List (FG × List Cfw)} (h : l.Perm l') :
    (filterSubclasses W l).Perm (filterSubclasses W l') := by
  unfold filterSubclasses
  have : (fun o => !popped W l o) = (fun o => !popped W l' o) := by
    funext o; rw [popped_perm W h o]
  rw [this]
  exact h.filter _

theorem identify_perm (W : World) (f : Feature) (links : Option (List (Links.Index × Links.Index)))
    {acc acc' : List (FG × List Cfw)} (h : acc.Perm acc') : identify W f links acc = identify W f links acc' := by
  unfold identify filterLoop
  exact validate_perm (filterSubclasses_perm W (h.filter _))

theorem validate_ok_iff {l : List (FG × List Cfw)} {p : FG × List Cfw} : validate l = .ok p ↔ l = [p] := by
  match l with
  | [] => simp [validate]
  | [q] => simp [validate]
  | a :: b :: t => simp [validate]

theorem mem_candidates {W : World} {f : Feature} {links : Option (List (Links.Index × Links.Index))}
    {acc : List (FG × List Cfw)} {p : FG × List Cfw} :
    p ∈ filterSubclasses W (filterLoop f links acc) ↔
      p ∈ acc ∧ keep f links p = true ∧
        ¬ ∃ i ∈ acc, keep f links i = true ∧ setEq i.2 p.2 = true ∧ i.1.id ≠ p.1.id ∧ W.isSub i.1.id p.1.id = true := by
  unfold filterSubclasses filterLoop popped
  simp only [List.mem_filter, Bool.not_eq_true', Bool.eq_false_iff, ne_eq, List.any_eq_true, Bool.and_eq_true,
    bne_iff_ne, not_exists, not_and]
  constructor
  · rintro ⟨⟨h1, h2⟩, h3⟩
    refine ⟨h1, h2, ?_⟩
    intro i hi hk hs hne
    exact h3 i ⟨hi, hk⟩ ⟨hs, hne⟩
  · rintro ⟨h1, h2, h3⟩
    refine ⟨⟨h1, h2⟩, ?_⟩
    rintro i ⟨hi, hk⟩ ⟨hs, hne⟩
    exact h3 i hi hk hs hne

theorem subsetL_iff {a b : List Cfw} : subsetL a b = true ↔ ∀ c ∈ a, c ∈ b := by
  simp [subsetL, List.all_eq_true]

theorem setEq_iff {a b : List Cfw} : setEq a b = true ↔ ∀ c, c ∈ a ↔ c ∈ b := by
  simp only [setEq, Bool.and_eq_true, subsetL_iff]
  constructor
  · rintro ⟨h1, h2⟩ c; exact ⟨h1 c, h2 c⟩
  · intro h; exact ⟨fun c hc => (h c).mp hc, fun c hc => (h c).mpr hc⟩

end Resolve
