import MlodaVerif.Lemmas.OptionsInv
/-! `update_with_protected_keys` / `Features.merge_options`: what flows from the dependent feature (child) to its input
(parent), what never does, and when the call raises. -/

namespace OptMerge
open PyDict OptInv
open PyVal (pyNe)

theorem lookup_filter_key (p : String → Bool) (e : PyDict) (k : String) :
    (e.filter (fun kv => p kv.1)).lookup k = if p k then e.lookup k else none := by
  induction e with
  | nil => simp
  | cons kv t ih =>
    obtain ⟨a, b⟩ := kv
    by_cases hp : p a = true
    · rw [List.filter_cons_of_pos (by simpa using hp), OptDict.lookup_cons_if, OptDict.lookup_cons_if, ih]
      by_cases h : k = a
      · subst h; simp [hp]
      · simp [h]
    · have hp' : p a = false := by simpa using hp
      rw [List.filter_cons_of_neg (by simpa using hp), OptDict.lookup_cons_if, ih]
      by_cases h : k = a
      · subst h; simp [hp']
      · simp [h]

theorem not_mem_keys_filter_key {p : String → Bool} {e : PyDict} {k : String} (hp : p k = false) :
    k ∉ keys (e.filter (fun kv => p kv.1)) := by
  intro h
  simp only [keys, List.mem_map, List.mem_filter] at h
  obtain ⟨kv, ⟨_, hpk⟩, rfl⟩ := h
  rw [hp] at hpk; cases hpk

/-- `d.update(e)` with duplicate-free `e`: keys of `e` take `e`'s value -/
theorem get_update_of_lookup {d e : PyDict} (hn : (keys e).Nodup) {k : String} {v : PyVal} (h : e.lookup k = some v) :
    (update d e).get? k = some v := by
  induction e generalizing d with
  | nil => simp at h
  | cons kv t ih =>
    obtain ⟨a, b⟩ := kv
    rw [keys_cons', List.nodup_cons] at hn
    have e1 : update d ((a, b) :: t) = update (PyDict.set d a b) t := rfl
    rw [e1]
    rw [OptDict.lookup_cons_if] at h
    by_cases hk : k = a
    · subst hk
      simp only [if_true, Option.some.injEq] at h; subst h
      rw [get_update_of_not_mem hn.1, get_set_self]
    · rw [if_neg hk] at h
      exact ih hn.2 h

theorem nodup_keys_filter {e : PyDict} {p : String × PyVal → Bool} (hn : (keys e).Nodup) : (keys (e.filter p)).Nodup := by
  induction e with
  | nil => simp [keys]
  | cons kv t ih =>
    rw [keys_cons, List.nodup_cons] at hn
    by_cases hp : p kv = true
    · rw [List.filter_cons_of_pos hp, keys_cons, List.nodup_cons]
      exact ⟨fun h => hn.1 (mem_keys_filter h), ih hn.2⟩
    · rw [List.filter_cons_of_neg hp]; exact ih hn.2

/-! ### `updateWith` -/

/-- `other_group_copy` -/
def gcopy (other : Options) (pk : List String) : PyDict := other.group.filter (fun kv => !(pk.contains kv.1))
/-- `propagating` -/
def propg (other : Options) (pk : List String) : PyDict :=
  other.context.filter (fun kv => other.propagate.contains kv.1 && !(pk.contains kv.1))
/-- state after `self.group.update(other_group_copy)` -/
def o1 (o other : Options) (pk : List String) : Options := { o with group := o.group.update (gcopy other pk) }
def o2 (o other : Options) (pk : List String) : Options :=
  { o1 o other pk with context := (o1 o other pk).context.update (propg other pk) }

/-- the five ways through `update_with_protected_keys` -/
theorem updateWith_cases (o other : Options) (pk : List String) :
    ((keys (gcopy other pk)).any (fun k => has o.context k) = true ∧ o.updateWith other pk = (o, some .groupCtxConflict)) ∨
    ((keys (gcopy other pk)).any (fun k => has o.context k) = false ∧
      ((other.propagate.isEmpty = true ∧ o.updateWith other pk = (o1 o other pk, none)) ∨
       (other.propagate.isEmpty = false ∧
        (((keys (propg other pk)).any (fun k => has (o1 o other pk).group k) = true ∧
            o.updateWith other pk = (o1 o other pk, some .ctxGroupConflict)) ∨
         ((keys (propg other pk)).any (fun k => has (o1 o other pk).group k) = false ∧
          ((Options.ctxConflictIn (o1 o other pk).context (propg other pk) = true ∧
              o.updateWith other pk = (o1 o other pk, some .ctxConflict)) ∨
           (Options.ctxConflictIn (o1 o other pk).context (propg other pk) = false ∧
              o.updateWith other pk = (o2 o other pk, none)))))))) := by
  unfold Options.updateWith o2 o1 propg gcopy
  simp only
  by_cases c1 : (keys (other.group.filter (fun kv => !(pk.contains kv.1)))).any (fun k => has o.context k) = true
  · left; exact ⟨c1, by rw [if_pos c1]⟩
  · right
    refine ⟨Bool.eq_false_iff.mpr c1, ?_⟩
    rw [if_neg c1]
    by_cases c2 : other.propagate.isEmpty = true
    · left; exact ⟨c2, by rw [if_pos c2]⟩
    · right
      refine ⟨Bool.eq_false_iff.mpr c2, ?_⟩
      rw [if_neg c2]
      split
      · rename_i c3; left; exact ⟨c3, rfl⟩
      · rename_i c3
        right
        refine ⟨Bool.eq_false_iff.mpr c3, ?_⟩
        split
        · rename_i c4; left; exact ⟨c4, rfl⟩
        · rename_i c4; right; exact ⟨Bool.eq_false_iff.mpr c4, rfl⟩

theorem not_mem_gcopy {other : Options} {pk : List String} {k : String} (hk : k ∈ pk) : k ∉ keys (gcopy other pk) := by
  have hc : pk.contains k = true := List.contains_iff_mem.mpr hk
  exact not_mem_keys_filter_key (p := fun a => !(pk.contains a)) (by simp only [hc]; rfl)

theorem not_mem_propg {other : Options} {pk : List String} {k : String} (hk : k ∉ other.propagate ∨ k ∈ pk) :
    k ∉ keys (propg other pk) := by
  apply not_mem_keys_filter_key (p := fun a => other.propagate.contains a && !(pk.contains a))
  rcases hk with h | h
  · have : other.propagate.contains k = false := by
      apply Bool.eq_false_iff.mpr; intro hc; exact h (List.contains_iff_mem.mp hc)
    simp only [this]; rfl
  · have : pk.contains k = true := List.contains_iff_mem.mpr h
    simp only [this]; cases other.propagate.contains k <;> rfl

theorem lookup_gcopy {other : Options} {pk : List String} {k : String} (hk : k ∉ pk) :
    (gcopy other pk).lookup k = other.group.lookup k := by
  have hc : pk.contains k = false := by
    apply Bool.eq_false_iff.mpr; intro hc; exact hk (List.contains_iff_mem.mp hc)
  unfold gcopy
  rw [lookup_filter_key (fun a => !(pk.contains a))]
  simp only [hc]; rfl

theorem lookup_propg {other : Options} {pk : List String} {k : String} (hp : k ∈ other.propagate) (hk : k ∉ pk) :
    (propg other pk).lookup k = other.context.lookup k := by
  have hc : pk.contains k = false := by
    apply Bool.eq_false_iff.mpr; intro hc; exact hk (List.contains_iff_mem.mp hc)
  have hpc : other.propagate.contains k = true := List.contains_iff_mem.mpr hp
  unfold propg
  rw [lookup_filter_key (fun a => other.propagate.contains a && !(pk.contains a))]
  simp only [hc, hpc]; rfl

/-- protected keys: the parent's entries (group and context) are untouched, whatever the outcome -/
theorem updateWith_protected (o other : Options) (pk : List String) {k : String} (hk : k ∈ pk) :
    (o.updateWith other pk).1.group.get? k = o.group.get? k ∧
    (o.updateWith other pk).1.context.get? k = o.context.get? k := by
  have hg := not_mem_gcopy (other := other) hk
  have hx := not_mem_propg (other := other) (Or.inr hk)
  have e1 : (o1 o other pk).group.get? k = o.group.get? k := get_update_of_not_mem hg
  have e2 : (o2 o other pk).context.get? k = o.context.get? k := get_update_of_not_mem hx
  rcases updateWith_cases o other pk with ⟨_, e⟩ | ⟨_, ⟨_, e⟩ | ⟨_, ⟨_, e⟩ | ⟨_, ⟨_, e⟩ | ⟨_, e⟩⟩⟩⟩ <;> rw [e]
  · exact ⟨rfl, rfl⟩
  · exact ⟨e1, rfl⟩
  · exact ⟨e1, rfl⟩
  · exact ⟨e1, rfl⟩
  · exact ⟨e1, e2⟩

/-- success: every non-protected group option of the child is now a group option of the parent, with the child's value -/
theorem updateWith_group_flows (o other : Options) (pk : List String) (hn : (keys other.group).Nodup)
    (hok : (o.updateWith other pk).2 = none) {k : String} {v : PyVal} (hk : k ∉ pk) (hv : other.group.get? k = some v) :
    (o.updateWith other pk).1.group.get? k = some v := by
  have hl : (gcopy other pk).lookup k = some v := by rw [lookup_gcopy hk]; exact hv
  have hn' : (keys (gcopy other pk)).Nodup := nodup_keys_filter hn
  have e1 : (o1 o other pk).group.get? k = some v := get_update_of_lookup hn' hl
  rcases updateWith_cases o other pk with ⟨_, e⟩ | ⟨_, ⟨_, e⟩ | ⟨_, ⟨_, e⟩ | ⟨_, ⟨_, e⟩ | ⟨_, e⟩⟩⟩⟩ <;> rw [e] at hok ⊢
  · cases hok
  · exact e1
  · cases hok
  · cases hok
  · exact e1

/-- context is local: a context key of the child that is not in its `propagate_context_keys` (or is protected) never
changes the parent's context, whatever the outcome -/
theorem updateWith_context_local (o other : Options) (pk : List String) {k : String}
    (hk : k ∉ other.propagate ∨ k ∈ pk) :
    (o.updateWith other pk).1.context.get? k = o.context.get? k := by
  have hx := not_mem_propg (other := other) hk
  have e2 : (o2 o other pk).context.get? k = o.context.get? k := get_update_of_not_mem hx
  rcases updateWith_cases o other pk with ⟨_, e⟩ | ⟨_, ⟨_, e⟩ | ⟨_, ⟨_, e⟩ | ⟨_, ⟨_, e⟩ | ⟨_, e⟩⟩⟩⟩ <;> rw [e] <;>
    first | exact e2 | rfl

/-- success: the propagate keys of the child that are not protected arrive in the parent's context -/
theorem updateWith_context_flows (o other : Options) (pk : List String) (hn : (keys other.context).Nodup)
    (hok : (o.updateWith other pk).2 = none) {k : String} {v : PyVal} (hp : k ∈ other.propagate) (hk : k ∉ pk)
    (hv : other.context.get? k = some v) :
    (o.updateWith other pk).1.context.get? k = some v := by
  have hl : (propg other pk).lookup k = some v := by rw [lookup_propg hp hk]; exact hv
  have hne : other.propagate.isEmpty = false := by
    cases hpr : other.propagate with
    | nil => rw [hpr] at hp; cases hp
    | cons _ _ => rfl
  have e2 : (o2 o other pk).context.get? k = some v := get_update_of_lookup (nodup_keys_filter hn) hl
  rcases updateWith_cases o other pk with ⟨_, e⟩ | ⟨_, ⟨h2, e⟩ | ⟨_, ⟨_, e⟩ | ⟨_, ⟨_, e⟩ | ⟨_, e⟩⟩⟩⟩ <;> rw [e] at hok ⊢
  · cases hok
  · rw [hne] at h2; cases h2
  · cases hok
  · cases hok
  · exact e2

/-- nothing the parent had disappears -/
theorem updateWith_keeps_keys (o other : Options) (pk : List String) {k : String} :
    (k ∈ keys o.group → k ∈ keys (o.updateWith other pk).1.group) ∧
    (k ∈ keys o.context → k ∈ keys (o.updateWith other pk).1.context) := by
  have e1 : k ∈ keys o.group → k ∈ keys (o1 o other pk).group := fun h => mem_keys_update.mpr (Or.inl h)
  have e2 : k ∈ keys o.context → k ∈ keys (o2 o other pk).context := fun h => mem_keys_update.mpr (Or.inl h)
  rcases updateWith_cases o other pk with ⟨_, e⟩ | ⟨_, ⟨_, e⟩ | ⟨_, ⟨_, e⟩ | ⟨_, ⟨_, e⟩ | ⟨_, e⟩⟩⟩⟩ <;> rw [e]
  · exact ⟨id, id⟩
  · exact ⟨e1, id⟩
  · exact ⟨e1, id⟩
  · exact ⟨e1, id⟩
  · exact ⟨e1, e2⟩

/-- a non-protected group key of the child that is a context key of the parent makes the call raise (state unchanged) -/
theorem updateWith_cross_raises (o other : Options) (pk : List String) {k : String}
    (hk : k ∉ pk) (hg : k ∈ keys other.group) (hc : k ∈ keys o.context) :
    o.updateWith other pk = (o, some .groupCtxConflict) := by
  have hm : k ∈ keys (gcopy other pk) := by
    have hcn : pk.contains k = false := by
      apply Bool.eq_false_iff.mpr; intro h; exact hk (List.contains_iff_mem.mp h)
    simp only [gcopy, keys, List.mem_map, List.mem_filter] at hg ⊢
    obtain ⟨kv, hkv, rfl⟩ := hg
    exact ⟨kv, ⟨hkv, by simp only [hcn]; rfl⟩, rfl⟩
  have hany : (keys (gcopy other pk)).any (fun k => has o.context k) = true :=
    List.any_eq_true.mpr ⟨k, hm, has_iff.mpr hc⟩
  rcases updateWith_cases o other pk with ⟨_, e⟩ | ⟨h, _⟩
  · exact e
  · rw [hany] at h; cases h

end OptMerge
