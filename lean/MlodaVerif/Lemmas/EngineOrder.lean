import MlodaVerif.Lemmas.EngineTop
/-! # When the flag of a requested feature is lost; independence of the collected set from list / set orders -/
namespace EngineColl
open Graph (Dict dget dset sadd)

theorem NoDupKeys.unique : ∀ {l : List (Nat × Feat)}, NoDupKeys l → ∀ {a b : Nat × Feat}, a ∈ l → b ∈ l → a.1 = b.1 → a.2.key = b.2.key → a = b := by
  intro l
  induction l with
  | nil => intro _ a b ha; simp at ha
  | cons x xs ih =>
    intro hn a b ha hb h1 h2
    unfold NoDupKeys at hn
    rw [List.pairwise_cons] at hn
    rw [List.mem_cons] at ha hb
    rcases ha with rfl | ha
    · rcases hb with rfl | hb
      · rfl
      · exact absurd ⟨h1, h2⟩ (hn.1 b hb)
    · rcases hb with rfl | hb
      · exact absurd ⟨h1.symm, h2.symm⟩ (hn.1 a ha)
      · exact ih hn.2 ha hb h1 h2

theorem procAll_append {w : World} {fuel : Nat} {s0 st : St} {pre post : List Feat} (h : procAll w fuel s0 (pre ++ post) = .ok st) :
    ∃ stp, procAll w fuel s0 pre = .ok stp ∧ procAll w fuel stp post = .ok st := by
  unfold procAll at h ⊢
  rw [List.foldlM_append] at h
  cases hp : pre.foldlM (fun s x => proc w fuel s none x) s0 with
  | error e => rw [hp] at h; simp [bind, Except.bind] at h
  | ok stp =>
    rw [hp] at h
    exact ⟨stp, rfl, by simpa [bind, Except.bind] using h⟩

/-- what processing one requested feature does about its own entry -/
theorem Run.single {w : World} {st st' : St} {q : Feat} (h : Run w st none [q] st') :
    ∃ g f3 st1 b, prepare w st.links q = .ok (g, f3) ∧ addFeature w st g f3 none false = .ok (st1, b) ∧ Ext st1 st' := by
  cases h with
  | leaf hp ha hl hf hi hr =>
    cases hr
    exact ⟨_, _, _, _, hp, ha, Ext.trans (addFilters_ext hf) (addIndexes_ext hi)⟩
  | node hp ha hin hm hc hf hi hr =>
    cases hr
    refine ⟨_, _, _, _, hp, ha, ?_⟩
    exact Ext.trans (Ext.trans ⟨⟨[], by simp⟩, by simp only; omega⟩ hc.ext) (Ext.trans (addFilters_ext hf) (addIndexes_ext hi))

/-- the flag of the requested feature `q` is lost exactly when an unflagged `==` entry of its group is already collected when its
turn comes (`stp` = the state after the features in front of it) -/
theorem flag_lost_iff {w : World} {fuel : Nat} {s0 st : St} {pre post : List Feat} {q : Feat} (hq : q.req = true)
    (hn : NoDupKeys s0.coll) (h : procAll w fuel s0 (pre ++ q :: post) = .ok st) :
    ∃ stp, procAll w fuel s0 pre = .ok stp ∧ ∀ g f, prepare w stp.links q = .ok (g, f) →
      ((∃ e ∈ st.coll, e.1 = g ∧ e.2.key = f.key ∧ e.2.req = false) ↔ (∃ e ∈ stp.coll, e.1 = g ∧ e.2.key = f.key ∧ e.2.req = false)) := by
  obtain ⟨stp, hpre, hrest⟩ := procAll_append h
  refine ⟨stp, hpre, ?_⟩
  intro g f hp
  have hrest' := hrest
  unfold procAll at hrest
  rw [foldlM_cons_ok] at hrest
  obtain ⟨stq, hq1, hpost⟩ := hrest
  have hrq : Run w stp none [q] stq := proc_run_cons w fuel stp none q stq hq1 [] stq (Run.nil _ _)
  have hext_q : Ext stq st := (procAll_run w fuel post stq st hpost).ext
  have hnd : NoDupKeys st.coll := (procAll_run w fuel _ s0 st h).nodup hn
  obtain ⟨g', f3, st1, b, hp', ha, he1⟩ := hrq.single
  rw [hp] at hp'
  simp only [Except.ok.injEq, Prod.mk.injEq] at hp'
  obtain ⟨rfl, rfl⟩ := hp'
  have hext_p : Ext stp st := Ext.trans (Ext.trans (addFeature_ext ha) he1) hext_q
  constructor
  · intro ⟨e, he, hg, hk, hr⟩
    rcases addFeature_cases ha with ⟨_, hin, rfl⟩ | ⟨_, hin, _⟩
    · -- `q` itself was inserted: it is flagged and it is the only entry with this key
      exfalso
      have hmem : (g, f) ∈ st.coll := hext_q.mem (he1.mem (by simp))
      have := hnd.unique he hmem hg hk
      rw [this] at hr
      simp only at hr
      rw [(prepare_fields hp).2.1, hq] at hr
      simp at hr
    · rw [inColl_iff] at hin
      obtain ⟨e0, he0, hg0, hk0⟩ := hin
      have := hnd.unique he (hext_p.mem he0) (by rw [hg, hg0]) (by rw [hk, hk0])
      exact ⟨e0, he0, hg0, hk0, by rw [← this]; exact hr⟩
  · intro ⟨e, he, hc⟩
    exact ⟨e, hext_p.mem he, hc⟩

/-! ## order independence -/

def HasInput (w : World) (g : Nat) (k : Key) (t : Feat) : Prop := ∃ ts, w.inputs g k = some ts ∧ t ∈ ts
def HasFilter (w : World) (flt : Filt) : Prop := ∃ fl, w.filters = some fl ∧ flt ∈ fl

/-- two worlds that differ only in the ORDER of the sets they hand out (`input_features` sets, `global_filter.filters`, and the
iteration-order oracles) -/
structure SameUpToOrder (w1 w2 : World) : Prop where
  resolve : w1.resolve = w2.resolve
  setName : w1.setName = w2.setName
  typeRule : w1.typeRule = w2.typeRule
  indexCols : w1.indexCols = w2.indexCols
  groupDom : w1.groupDom = w2.groupDom
  criteria : w1.criteria = w2.criteria
  pick : w1.pick = w2.pick
  inputs : ∀ g k t, HasInput w1 g k t ↔ HasInput w2 g k t
  filters : ∀ flt, HasFilter w1 flt ↔ HasFilter w2 flt

theorem SameUpToOrder.symm {w1 w2 : World} (h : SameUpToOrder w1 w2) : SameUpToOrder w2 w1 :=
  ⟨h.resolve.symm, h.setName.symm, h.typeRule.symm, h.indexCols.symm, h.groupDom.symm, h.criteria.symm, h.pick.symm,
   fun g k t => (h.inputs g k t).symm, fun flt => (h.filters flt).symm⟩

theorem SameUpToOrder.prepare {w1 w2 : World} (h : SameUpToOrder w1 w2) (L : Option (List Link)) (f : Feat) :
    prepare w1 L f = prepare w2 L f := by
  unfold EngineColl.prepare prepareK setCfw setDtype getCfw
  rw [h.resolve, h.setName, h.typeRule, h.pick]

theorem SameUpToOrder.matchFilter {w1 w2 : World} (h : SameUpToOrder w1 w2) (g : Nat) (k : Key) (flt : Filt) :
    matchFilter w1 g k flt = matchFilter w2 g k flt := by
  unfold EngineColl.matchFilter filterCfw getCfw
  rw [h.criteria, h.groupDom, h.pick]

theorem SameUpToOrder.filterMatch {w1 w2 : World} (h : SameUpToOrder w1 w2) {g : Nat} {k : Key} {m : Filt}
    (hm : FilterMatch w1 g k m) : FilterMatch w2 g k m := by
  obtain ⟨fl, flt, hfl, hflt, hmf⟩ := hm
  obtain ⟨fl2, hfl2, hflt2⟩ := (h.filters flt).mp ⟨fl, hfl, hflt⟩
  exact ⟨fl2, flt, hfl2, hflt2, by rw [← h.matchFilter]; exact hmf⟩

theorem SameUpToOrder.filterKey {w1 w2 : World} (h : SameUpToOrder w1 w2) (g : Nat) (m : Filt) : filterKey w1 g m = filterKey w2 g m := by
  unfold EngineColl.filterKey; rw [h.setName]

theorem SameUpToOrder.indexMatch {w1 w2 : World} (h : SameUpToOrder w1 w2) {L : Option (List Link)} {g : Nat} {ix : List Name}
    (hm : IndexMatch w1 L g ix) : IndexMatch w2 L g ix := by
  obtain ⟨ixs, ls, l, h1, h2, h3, h4, h5⟩ := hm
  exact ⟨ixs, ls, l, by rw [← h.indexCols]; exact h1, h2, h3, h4, h5⟩

theorem SameUpToOrder.indexKey {w1 w2 : World} (h : SameUpToOrder w1 w2) (g : Nat) (k : Key) (ix : List Name) :
    indexKey w1 g k ix = indexKey w2 g k ix := by
  unfold EngineColl.indexKey getCfw; rw [h.setName, h.pick]

theorem SameUpToOrder.proc {w1 w2 : World} (h : SameUpToOrder w1 w2) {L : Option (List Link)} {req1 req2 : List Feat}
    (hreq : ∀ q, q ∈ req1 → q ∈ req2) {g : Nat} {f : Feat} (hp : Proc w1 L req1 g f) : Proc w2 L req2 g f := by
  induction hp with
  | req hq hpq => exact Proc.req (hreq _ hq) (by rw [← h.prepare]; exact hpq)
  | dep _ hin ht hmk hpt ih =>
    obtain ⟨ts2, hin2, ht2⟩ := (h.inputs _ _ _).mp ⟨_, hin, ht⟩
    exact Proc.dep ih hin2 ht2 hmk (by rw [← h.prepare]; exact hpt)

theorem SameUpToOrder.plain {w1 w2 : World} (h : SameUpToOrder w1 w2) (hw : PlainWorld w1) : PlainWorld w2 := by
  refine ⟨?_, ?_, ?_⟩
  · intro g k ts t hin ht
    obtain ⟨ts1, h1, h2⟩ := (h.inputs g k t).mpr ⟨ts, hin, ht⟩
    exact hw.inputs_nolink g k ts1 t h1 h2
  · intro g k ts t hin ht
    obtain ⟨ts1, h1, h2⟩ := (h.inputs g k t).mpr ⟨ts, hin, ht⟩
    exact hw.inputs_unflagged g k ts1 t h1 h2
  · intro fl flt hfl hflt
    obtain ⟨fl1, h1, h2⟩ := (h.filters flt).mpr ⟨fl, hfl, hflt⟩
    exact hw.filters_plain fl1 flt h1 h2

theorem SameUpToOrder.noShadow {w1 w2 : World} (h : SameUpToOrder w1 w2) {L : Option (List Link)} {req1 req2 : List Feat}
    (hreq : ∀ q, q ∈ req1 ↔ q ∈ req2) (hns : NoShadow w1 L req1) : NoShadow w2 L req2 := by
  intro q hq g f hp p hproc hne
  have hp1 : EngineColl.prepare w1 L q = .ok (g, f) := by rw [h.prepare]; exact hp
  have hproc1 : Proc w1 L req1 g p := h.symm.proc (fun q hq => (hreq q).mpr hq) hproc
  obtain ⟨a, b⟩ := hns q ((hreq q).mpr hq) g f hp1 p hproc1 hne
  refine ⟨?_, ?_⟩
  · intro m hm
    rw [← h.filterKey]
    exact a m (h.symm.filterMatch hm)
  · intro ix xk hm hk
    exact b ix xk (h.symm.indexMatch hm) (by rw [h.indexKey]; exact hk)

/-- the order-free description of what is collected: the prepared features and the filter / linked-index features of prepared features -/
def InClosure (w : World) (L : Option (List Link)) (req : List Feat) (g : Nat) (k : Key) : Prop :=
  ∃ p, Proc w L req g p ∧
    (p.key = k ∨ (∃ m, FilterMatch w g p.key m ∧ filterKey w g m = k) ∨ (∃ ix, IndexMatch w L g ix ∧ indexKey w g p.key ix = .ok k))

/-- `k` is (the prepared form of) a requested feature of group `g` -/
def IsReqKey (w : World) (L : Option (List Link)) (req : List Feat) (g : Nat) (k : Key) : Prop :=
  ∃ q ∈ req, ∃ f, prepare w L q = .ok (g, f) ∧ f.key = k

theorem Legit.inClosure {w : World} {L : Option (List Link)} {req : List Feat} {g : Nat} {f : Feat} (h : Legit w L req g f) :
    InClosure w L req g f.key := by
  cases h with
  | proc hp => exact ⟨f, hp, Or.inl rfl⟩
  | @filt p m u hp hm _ => exact ⟨p, hp, Or.inr (Or.inl ⟨m, hm, rfl⟩)⟩
  | @idx p _ ix u hp hm hxf _ => exact ⟨p, hp, Or.inr (Or.inr ⟨ix, hm, indexFeat_key hxf⟩)⟩

/-- the collected (group, key, flag) triples of a successful run, described without reference to any order -/
theorem coll_char {w : World} {fuel : Nat} {L : Option (List Link)} {req : List Feat} {st : St} (hw : PlainWorld w)
    (hreq : PlainReq req) (hns : NoShadow w L req) (h : run w fuel L req = .ok st) (g : Nat) (k : Key) (b : Bool) :
    (∃ e ∈ st.coll, e.1 = g ∧ e.2.key = k ∧ e.2.req = b) ↔ (InClosure w L req g k ∧ (b = true ↔ IsReqKey w L req g k)) := by
  have hnl : ∀ q ∈ req, q.link = none := fun q hq => (hreq q hq).1
  obtain ⟨_, hleg⟩ := run_sound hw hnl h
  have hfl := flag_exact hw hreq hns h
  constructor
  · intro ⟨e, he, hg, hk, hb⟩
    subst hg; subst hk; subst hb
    exact ⟨(hleg e he).inClosure, hfl e he⟩
  · intro ⟨⟨p, hp, hc⟩, hb⟩
    obtain ⟨hin, haux⟩ := run_closure hw hreq hns h g p hp
    have hink : inColl st.coll g k = true := by
      rcases hc with hc | ⟨m, hm, hk⟩ | ⟨ix, hm, hk⟩
      · rw [← hc]; exact hin
      · rw [← hk]; exact haux.1 m hm
      · exact haux.2 ix k hm hk
    rw [inColl_iff] at hink
    obtain ⟨e, he, hg, hk⟩ := hink
    refine ⟨e, he, hg, hk, ?_⟩
    have := hfl e he
    rw [hg, hk] at this
    exact Bool.eq_iff_iff.mpr (this.trans hb.symm)

theorem SameUpToOrder.inClosure {w1 w2 : World} (h : SameUpToOrder w1 w2) {L : Option (List Link)} {req1 req2 : List Feat}
    (hreq : ∀ q, q ∈ req1 → q ∈ req2) {g : Nat} {k : Key} (hc : InClosure w1 L req1 g k) : InClosure w2 L req2 g k := by
  obtain ⟨p, hp, hc⟩ := hc
  refine ⟨p, h.proc hreq hp, ?_⟩
  rcases hc with hc | ⟨m, hm, hk⟩ | ⟨ix, hm, hk⟩
  · exact Or.inl hc
  · exact Or.inr (Or.inl ⟨m, h.filterMatch hm, by rw [← h.filterKey]; exact hk⟩)
  · exact Or.inr (Or.inr ⟨ix, h.indexMatch hm, by rw [← h.indexKey]; exact hk⟩)

theorem SameUpToOrder.isReqKey {w1 w2 : World} (h : SameUpToOrder w1 w2) {L : Option (List Link)} {req1 req2 : List Feat}
    (hreq : ∀ q, q ∈ req1 → q ∈ req2) {g : Nat} {k : Key} (hc : IsReqKey w1 L req1 g k) : IsReqKey w2 L req2 g k := by
  obtain ⟨q, hq, f, hp, hk⟩ := hc
  exact ⟨q, hreq q hq, f, by rw [← h.prepare]; exact hp, hk⟩

end EngineColl
